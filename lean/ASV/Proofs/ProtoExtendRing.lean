/-
  C03: `apply_extenders` on a circular record meets the EXTENDERS spec with the walk going on round
  the ring and distances measured the shorter way round.
-/
import ASV.Proofs.ProtoRingSup
namespace ASV.Proto
open ASV ASV.Rules ASV.Chains

theorem mapM_ok_eq_map {α β : Type} [Inhabited β] (f : α → E β) : ∀ (l : List α) (out : List β), l.mapM f = .ok out →
    out = l.map fun a => (f a).toOption.getD default := by
  intro l
  induction l with
  | nil => intro out h; simp only [List.mapM_nil, pure, Except.pure, Except.ok.injEq] at h; subst h; rfl
  | cons a l ih =>
    intro out h
    simp only [List.mapM_cons, bind, Except.bind, pure, Except.pure] at h
    cases hfa : f a with
    | error e => simp [hfa] at h
    | ok b =>
      simp only [hfa] at h
      cases hrest : l.mapM f with
      | error e => simp [hrest] at h
      | ok bs =>
        simp only [hrest, Except.ok.injEq] at h
        subst h
        simp [hfa, Except.toOption, ih bs hrest]

theorem bisectLeft_ok_idx (items : List GeneInfo) (core : Loc) (idx : Nat) (h : bisectLeft items core = .ok idx) :
    idx = (items.takeWhile fun g => ltLoc' g.loc core).length := by
  simp only [bisectLeft, bind, Except.bind] at h
  cases hm : items.mapM (fun g => featureLt g.loc core) with
  | error e => simp [hm] at h
  | ok flags =>
    simp only [hm, pure, Except.pure, Except.ok.injEq] at h
    subst h
    rw [mapM_ok_eq_map _ items flags hm, List.takeWhile_map, List.length_map]
    rfl

theorem foldlM_connect_joinRing (r : Rec) (hcirc : r.circular = true) : ∀ (l : List GeneInfo) (core out : Loc),
    l.foldlM (fun core cds => connect [cds.loc, core] r.wrap) core = .ok out → joinRing r core l = some out := by
  have hw : r.wrap = some r.len := by simp [Rec.wrap, hcirc]
  intro l
  induction l with
  | nil => intro core out h; simp only [List.foldlM_nil, pure, Except.pure, Except.ok.injEq] at h; subst h; rfl
  | cons g rest ih =>
    intro core out h
    simp only [List.foldlM_cons, bind, Except.bind, hw] at h
    cases hc : connect [g.loc, core] (some r.len) with
    | error e => simp [hc] at h
    | ok c1 =>
      simp only [hc] at h
      have := ih c1 out (by simpa [hw] using h)
      simp only [joinRing, List.foldlM_cons, hc, Except.toOption, bind, Option.bind] at this ⊢
      exact this

theorem foldlM_connect_ring_cover_all (r : Rec) (hcirc : r.circular = true) (hL : 0 < r.len) :
    ∀ (l : List GeneInfo) (core out : Loc), (∀ g ∈ l, RingIn r.len g.loc) → RingArea r.len core →
      l.foldlM (fun core cds => connect [cds.loc, core] r.wrap) core = .ok out → ∀ g ∈ l, Covers out g.loc := by
  have hw : r.wrap = some r.len := by simp [Rec.wrap, hcirc]
  intro l
  induction l with
  | nil => intro core out _ _ _ g hg; cases hg
  | cons x rest ih =>
    intro core out hin hc h g hg
    obtain ⟨c1, hc1, a1, cov1⟩ := connect_ring_area [x.loc, core] r.len (by simp) hL
      (by intro l hl; simp at hl; rcases hl with rfl | rfl; exact hin x (by simp); exact hc.ringIn)
    simp only [List.foldlM_cons, hw, hc1, bind, Except.bind] at h
    have h' : rest.foldlM (fun core cds => connect [cds.loc, core] r.wrap) c1 = .ok out := by simpa [hw] using h
    simp only [List.mem_cons] at hg
    rcases hg with rfl | hg
    · exact (foldlM_connect_ring_area r hcirc hL rest c1 out (fun y hy => hin y (by simp [hy])) a1 h').2.trans (cov1 _ (by simp))
    · exact ih c1 out (fun y hy => hin y (by simp [hy])) a1 h' g hg

theorem ringIn_locOK {L : Int} {l : Loc} (h : RingIn L l) : l.OK L :=
  ⟨h.1, fun p hp => ⟨(h.2.1 p hp).1, (h.2.1 p hp).2.1, fun _ => (h.2.1 p hp).2.2⟩⟩

/-- **`apply_extenders` on one protocluster of a circular record**, whenever it returns -/
theorem extendCluster_ring (within : Lookup) (r : Rec) (hcirc : r.circular = true) (hL : 0 < r.len)
    (rules : List RuleM) (hgenes : ∀ g ∈ r.genes, RingIn r.len g.loc) (pc pc' : PC) (d : Doms)
    (harea : RingArea r.len pc.core) (hsub : ∀ g ∈ within pc.core false, g ∈ r.genes)
    (rule : RuleM) (hrule : findRule rules pc.rule = .ok rule) (hext : ∀ c, rule.extenders = some c → c.WF = true)
    (h : extendCluster within r rules pc = .ok (pc', d)) :
    ∃ first last back forw core1,
      (within pc.core false).head? = some first ∧ (within pc.core false).getLast? = some last ∧
      ExtWalk rule.cutoff (fun a b => specDistFull r.len a.loc b.loc) (extOK rule)
        (fun g => locationContainsOther pc.core g.loc) first (walkBackRing r pc.core) back ∧
      joinRing r pc.core back = some core1 ∧
      ExtWalk rule.cutoff (fun a b => specDistFull r.len a.loc b.loc) (extOK rule)
        (fun g => locationContainsOther core1 g.loc) last (walkForwardRing r pc.core) forw ∧
      joinRing r core1 forw = some pc'.core ∧
      RingArea r.len pc'.core ∧ Covers pc'.core pc.core ∧ ∀ g ∈ back ++ forw, Covers pc'.core g.loc := by
  have hwrapI : r.wrapI = r.len := by simp [Rec.wrapI, hcirc]
  simp only [extendCluster, hrule, bind, Except.bind] at h
  cases hb : bisectLeft r.genes pc.core with
  | error e => simp [hb] at h
  | ok idx =>
    simp only [hb] at h
    have hidx := bisectLeft_ok_idx r.genes pc.core idx hb
    split at h
    · next firstC lastC hf hl =>
      have hfm : firstC ∈ r.genes := hsub firstC (List.mem_of_head? hf)
      have hlm : lastC ∈ r.genes := hsub lastC (List.mem_of_getLast? hl)
      have hdist : ∀ a ∈ r.genes, ∀ b ∈ r.genes,
          getDistance a.loc b.loc r.wrapI = specDistFull r.len a.loc b.loc := by
        intro a ha b hb'
        rw [hwrapI]
        exact getDistance_eq_specFull a.loc b.loc r.len (ringIn_locOK (hgenes a ha)) (ringIn_locOK (hgenes b hb'))
      have hwalk : ∀ (core : Loc) (ref : GeneInfo) (w : List GeneInfo), (∀ x ∈ w, x ∈ r.genes) → ref ∈ r.genes →
          markExt r rule core ref w = specWalk rule.cutoff (fun a b => specDistFull r.len a.loc b.loc) (extOK rule)
            (fun g => locationContainsOther core g.loc) ref w := by
        intro core ref w hw hr
        rw [markExt_eq]
        exact specWalk_congr _ _ _ _ _ _ _ r.genes hdist (fun a _ => extendsTo_isSome rule a hext) (fun _ _ => rfl) w ref hw hr
      have hcb : cycle r r.genes idx false = walkBackRing r pc.core := by
        simp [cycle, hcirc, walkBackRing, hidx]
      have hcf : cycle r r.genes idx true = walkForwardRing r pc.core := by
        simp [cycle, hcirc, walkForwardRing, hidx]
      have hwb : ∀ x ∈ walkBackRing r pc.core, x ∈ r.genes := by
        rw [← hcb]; exact cycle_sub r r.genes idx false
      have hwf : ∀ x ∈ walkForwardRing r pc.core, x ∈ r.genes := by
        rw [← hcf]; exact cycle_sub r r.genes idx true
      rw [hcb, hcf, hwalk pc.core firstC _ hwb hfm] at h
      cases h1 : (specWalk rule.cutoff (fun a b => specDistFull r.len a.loc b.loc) (extOK rule)
          (fun g => locationContainsOther pc.core g.loc) firstC (walkBackRing r pc.core)).foldlM
          (fun core cds => connect [cds.loc, core] r.wrap) pc.core with
      | error e => simp [h1] at h
      | ok core1 =>
        simp only [h1] at h
        have hbin : ∀ g ∈ specWalk rule.cutoff (fun a b => specDistFull r.len a.loc b.loc) (extOK rule)
            (fun g => locationContainsOther pc.core g.loc) firstC (walkBackRing r pc.core), RingIn r.len g.loc :=
          fun g hg => hgenes g (hwb g (specWalk_sub _ _ _ _ _ _ g hg))
        obtain ⟨a1, c1⟩ := foldlM_connect_ring_area r hcirc hL _ pc.core core1 hbin harea h1
        rw [hwalk core1 lastC _ hwf hlm] at h
        cases h2 : (specWalk rule.cutoff (fun a b => specDistFull r.len a.loc b.loc) (extOK rule)
            (fun g => locationContainsOther core1 g.loc) lastC (walkForwardRing r pc.core)).foldlM
            (fun core cds => connect [cds.loc, core] r.wrap) core1 with
        | error e => simp [h2] at h
        | ok core2 =>
          simp only [h2] at h
          have hfin : ∀ g ∈ specWalk rule.cutoff (fun a b => specDistFull r.len a.loc b.loc) (extOK rule)
              (fun g => locationContainsOther core1 g.loc) lastC (walkForwardRing r pc.core), RingIn r.len g.loc :=
            fun g hg => hgenes g (hwf g (specWalk_sub _ _ _ _ _ _ g hg))
          obtain ⟨a2, c2⟩ := foldlM_connect_ring_area r hcirc hL _ core1 core2 hfin a1 h2
          split at h
          · cases h
          · cases he : extendArea r core2 rule.nbhd true with
            | error e => simp [he] at h
            | ok s =>
              simp only [he] at h
              cases hm : mkPC rule.name core2 s with
              | error e => simp [hm] at h
              | ok q =>
                simp only [hm, pure, Except.pure, Except.ok.injEq, Prod.mk.injEq] at h
                have := mkPC_ok hm
                subst this
                obtain ⟨rfl, _⟩ := h
                refine ⟨firstC, lastC, _, _, core1, hf, hl, specWalk_sound _ _ _ _ _ _,
                  foldlM_connect_joinRing r hcirc _ _ _ h1, specWalk_sound _ _ _ _ _ _,
                  foldlM_connect_joinRing r hcirc _ _ _ h2, a2, c2.trans c1, ?_⟩
                intro g hg
                simp only [List.mem_append] at hg
                rcases hg with hg | hg
                · exact c2.trans (foldlM_connect_ring_cover_all r hcirc hL _ pc.core core1 hbin harea h1 g hg)
                · exact foldlM_connect_ring_cover_all r hcirc hL _ core1 core2 hfin a1 h2 g hg
    · cases h

end ASV.Proto
