/-
  C14 helper lemmas, part 8: `combine_modules`.
-/
import ASV.Proofs.ModulesBuildTop
namespace ASV.Modules
open T Spec

/-! ### the first-in-gene flag plays no role in adding components -/

def setFirst (b : Bool) (m : Module) : Module := { m with firstInCds := b }

theorem ensure_setFirst (b : Bool) (m : Module) (c : Comp) (la : List Comp) :
    ensureSuitable (setFirst b m) c la = ensureSuitable m c la := rfl

theorem mapOk_def {α β} (f : α → β) (r : Except Err α) :
    (match r with | .ok a => Except.ok (f a) | .error e => .error e) = andThen r (fun a => .ok (f a)) := by
  cases r <;> rfl

theorem place_setFirst (b : Bool) (m : Module) (c : Comp) (la : List Comp) :
    place (setFirst b m) c la = andThen (place m c la) (fun r => .ok (setFirst b r)) := by
  unfold place setFirst
  dsimp only
  repeat' split
  all_goals first | rfl | simp_all [andThen]

theorem add_setFirst (b : Bool) (m : Module) (c : Comp) (la : List Comp) :
    addComponent (setFirst b m) c la = andThen (addComponent m c la) (fun r => .ok (setFirst b r)) := by
  cases hi : c.isIgnored with
  | true => rw [add_ignored _ c la hi, add_ignored _ c la hi]; rfl
  | false =>
    by_cases h0 : m.unambiguous > 0
    · rw [add_unfold1 m c la h0 hi, add_unfold1 (setFirst b m) c la h0 hi]
      have := place_setFirst b { m with unambiguous := m.unambiguous - 1 } c la
      show andThen (place (setFirst b { m with unambiguous := m.unambiguous - 1 }) c la) _ = _
      rw [this]
      cases place { m with unambiguous := m.unambiguous - 1 } c la <;> rfl
    · have h0 : m.unambiguous = 0 := by omega
      rw [add_unfold0 m c la h0 hi, add_unfold0 (setFirst b m) c la h0 hi, ensure_setFirst,
          place_setFirst]
      cases ensureSuitable m c la with
      | error e => rfl
      | ok u => cases place m c la <;> rfl

theorem replay_setFirst (b : Bool) (cs : List Comp) : ∀ (m : Module),
    replayGo (setFirst b m) cs = andThen (replayGo m cs) (fun r => .ok (setFirst b r)) := by
  induction cs with
  | nil => intro m; rfl
  | cons c cs ih =>
    intro m
    simp only [replayGo]
    rw [add_setFirst]
    cases addComponent m c cs with
    | error e => rfl
    | ok m' => exact ih m'

theorem StateInv.setFirst {m : Module} (h : StateInv m) (b : Bool) : StateInv (setFirst b m) :=
  ⟨h.starter, h.loader, h.carrier, h.end_, h.mods, h.docking, h.sil, h.noIgn, h.pend2, h.pend1,
   h.pendLe, h.pendEnd⟩

/-- re-adding a sound module's components to a fresh module reproduces it (up to the flag) -/
theorem replay_head {head : Module} (h : Sound head) :
    replayGo (Module.new false) head.components = .ok (setFirst false head) := by
  have : Module.new false = setFirst false (Module.new head.firstInCds) := rfl
  rw [this, replay_setFirst, h.reload]; rfl

/-! ### the merged module -/

theorem Sound.known_append {a b : List Comp} (ha : ∀ c ∈ a, Known c) (hb : ∀ c ∈ b, Known c) :
    ∀ c ∈ a ++ b, Known c := by
  intro c hc
  rcases List.mem_append.mp hc with h | h
  · exact ha c h
  · exact hb c h

/-- `mergeModules` never fails on sound modules; a merged module is sound, consists of the head's
    components followed by the tail's, is not first-in-gene and is complete -/
theorem mergeModules_spec {head tail : Module} (hh : Sound head) (ht : Sound tail) :
    ∃ r, mergeModules head tail = .ok r ∧
      ∀ m2, r = some m2 → Sound m2 ∧ m2.components = head.components ++ tail.components
        ∧ m2.firstInCds = false ∧ m2.isComplete = true := by
  obtain ⟨hI, hu, _⟩ := hh.facts
  have hI' : StateInv (setFirst false head) := hI.setFirst false
  have hP' : PendOK (setFirst false head) (tail.components ++ []) := PendOK.zero hu _
  unfold mergeModules
  rw [replay_head hh]
  simp only
  cases hr : replayGo (setFirst false head) tail.components with
  | error e =>
    rw [← runPre_nil] at hr
    have := runPre_err [] hI' hP' e hr
    subst this
    exact ⟨none, rfl, fun m2 h => by cases h⟩
  | ok m2 =>
    simp only
    cases hc : m2.isComplete with
    | false => exact ⟨none, by simp, fun m2 h => by cases h⟩
    | true =>
      refine ⟨some m2, by simp, ?_⟩
      intro m2' h; injection h with h; subst h
      have hr' := hr
      rw [← runPre_nil] at hr'
      obtain ⟨a, b, d, _, _⟩ := runPre_ok [] hI' hP' ht.noIgn m2 hr'
      have hcomps : m2.components = head.components ++ tail.components := b
      have hfirst : m2.firstInCds = false := d
      refine ⟨⟨?_, ?_⟩, hcomps, hfirst, hc⟩
      · unfold Reloadable
        rw [hfirst, hcomps, ← runPre_nil, runPre_append]
        have h1 : runPre (Module.new false) head.components [] = .ok (setFirst false head) := by
          rw [runPre_nil]; exact replay_head hh
        rw [List.append_nil, runPre_ext tail.components (StateInv.new false) (PendOK.zero rfl _) hh.noIgn _ h1]
        show runPre (setFirst false head) tail.components [] = _
        exact hr'
      · intro c hcm
        rw [hcomps] at hcm
        rcases List.mem_append.mp hcm with h | h
        · exact hh.noIgn c h
        · exact ht.noIgn c h

/-! ### the trailing KR -/

theorem transAt_snoc_mod {cs : List Comp} {c : Comp} (hk : kindOf c = .modification)
    (h : transAt cs = true) : transAt (cs ++ [c]) = true := by
  obtain ⟨b1, b2, b3, b4, b5, b6, b7⟩ := cls c _ hk
  simp only [Kind.bits] at b1 b2 b3 b4 b5 b6 b7
  unfold transAt at h ⊢
  simp only [Bool.and_eq_true] at h ⊢
  obtain ⟨⟨h1, h2⟩, h3⟩ := h
  refine ⟨⟨?_, ?_⟩, ?_⟩
  · unfold Spec.isPks at h1 ⊢; rw [List.any_append, h1]; rfl
  · unfold loaderOf at h2 ⊢; rw [find?_snoc, b4, orSnoc_false]; exact h2
  · unfold starterOf at h3 ⊢; rw [find?_snoc, b3, orSnoc_false]
    cases hs : List.find? Comp.isStarter cs with
    | none => rw [hs] at h3; cases h3
    | some s =>
      rw [hs] at h3
      simp only [Bool.or_eq_true] at h3 ⊢
      rcases h3 with h3 | h3
      · exact Or.inl h3
      · right; rw [List.any_append, h3]; rfl

theorem complete_of_transAt {cs : List Comp} {f : Bool} (h1 : transAt cs = true) (h2 : hasCarrier cs = true) :
    complete cs f = true := by
  unfold complete; rw [h1, h2]; rfl

/-- `absorbTrailingKr` never fails on a sound, complete merged module -/
theorem absorbTrailingKr_spec {m2 : Module} {curRest : List Module} (h2 : Sound m2)
    (hc : m2.isComplete = true) (hr : ∀ m ∈ curRest, Sound m) :
    (absorbTrailingKr m2 curRest = .ok (m2, curRest))
    ∨ (∃ next rest2 kr m3, curRest = next :: rest2 ∧ next.components = [kr]
        ∧ kr.label = trailingKrLabel ∧ m2.isTransAt = true
        ∧ absorbTrailingKr m2 curRest = .ok (m3, rest2)
        ∧ Sound m3 ∧ m3.components = m2.components ++ [kr] ∧ m3.firstInCds = m2.firstInCds
        ∧ m3.isComplete = true) := by
  obtain ⟨hI, hu, _⟩ := h2.facts
  unfold absorbTrailingKr
  cases curRest with
  | nil => exact Or.inl rfl
  | cons next rest2 =>
    simp only
    cases hn : next.components with
    | nil => exact Or.inl rfl
    | cons kr more =>
      cases more with
      | cons _ _ => exact Or.inl rfl
      | nil =>
        simp only
        cases hcond : (m2.isTransAt && !m2.isTerminated && kr.label == trailingKrLabel) with
        | false => exact Or.inl (by simp)
        | true =>
          right
          simp only [Bool.and_eq_true, Bool.not_eq_true', beq_iff_eq] at hcond
          obtain ⟨⟨hT, hE⟩, hl⟩ := hcond
          have hk : kindOf kr = .modification := by
            unfold kindOf; rw [hl, kr_same]; exact kr_kind
          obtain ⟨b1, b2, b3, b4, b5, b6, b7⟩ := cls kr _ hk
          simp only [Kind.bits] at b1 b2 b3 b4 b5 b6 b7
          have hEnd : m2.end_ = none := by
            simpa [Module.isTerminated] using hE
          have hens : ensureSuitable m2 kr [] = .ok () := by
            have hl' : (kr.label == transAtKrLabel) = true := by rw [hl, kr_same]; simp
            simp [ensureSuitable, b1, b2, b3, b4, b5, hEnd, hT, hl']
          rcases add_mod (la := []) hI hk hu with ⟨he, _, _⟩ | ⟨m3, h3, hs⟩
          · rw [add_unfold0 m2 kr [] hu b1, hens] at he
            simp [andThen, place, b3, b4, b5] at he
          · have hI3 := hs.inv
            have hcar : hasCarrier m2.components = true := by
              have hc' := hc
              rw [hI.isComplete_eq] at hc'
              unfold complete at hc'
              simp only [Bool.and_eq_true] at hc'
              exact hc'.1
            have hcomplete : m3.isComplete = true := by
              rw [hI3.isComplete_eq, hs.comps]
              apply complete_of_transAt
              · exact transAt_snoc_mod hk (by rw [← hI.isTransAt_eq]; exact hT)
              · unfold hasCarrier at hcar ⊢; rw [List.any_append, hcar]; rfl
            refine ⟨next, rest2, kr, m3, rfl, hn, hl, hT, by simp [h3], ⟨?_, ?_⟩, hs.comps, hs.first, hcomplete⟩
            · unfold Reloadable
              rw [hs.first, hs.comps, ← runPre_nil, runPre_snoc]
              have h1 : runPre (Module.new m2.firstInCds) m2.components [] = .ok m2 := by
                rw [runPre_nil]; exact h2.reload
              rw [runPre_ext [kr] (StateInv.new _) (PendOK.zero rfl _) h2.noIgn _ h1]
              exact h3
            · intro c hcm
              rw [hs.comps] at hcm
              rcases List.mem_append.mp hcm with h | h
              · exact h2.noIgn c h
              · simp at h; rw [h]; exact b1

end ASV.Modules
