/-
  The sorted sweep against the running hull (Appendix B of DESIGN.md, `ASV.Sweep`), redone over `Int`
  coordinates for arbitrary items with a start `lo` and an end `hi`, and completed with the other
  half: every group is internally chained, and its hull is attained by members.
  Used by C03 (`find_protoclusters` on a linear record).
-/
namespace ASV.ChainSweep

variable {α : Type}

structure Grp (α : Type) where
  glo : Int
  ghi : Int
  members : List α

/-- fewer than `c` positions between the two spans, or they meet (`c = 0`: they meet) -/
def reach (lo hi : α → Int) (c : Int) (a b : α) : Prop := lo a < hi b + c ∧ lo b < hi a + c

def go (lo hi : α → Int) (c : Int) (cur : Grp α) : List α → List (Grp α)
  | [] => [cur]
  | y :: ys =>
    if lo y < cur.ghi + c then
      go lo hi c ⟨min cur.glo (lo y), max cur.ghi (hi y), cur.members ++ [y]⟩ ys
    else cur :: go lo hi c ⟨lo y, hi y, [y]⟩ ys

def sweep (lo hi : α → Int) (c : Int) : List α → List (Grp α)
  | [] => []
  | x :: xs => go lo hi c ⟨lo x, hi x, [x]⟩ xs

/-- sorted by start -/
def Sorted (lo : α → Int) : List α → Prop
  | [] => True
  | [_] => True
  | a :: b :: r => lo a ≤ lo b ∧ Sorted lo (b :: r)

theorem Sorted.tail {lo : α → Int} {a : α} {l : List α} (h : Sorted lo (a :: l)) : Sorted lo l := by
  cases l with
  | nil => trivial
  | cons b r => exact h.2

theorem Sorted.head_le {lo : α → Int} {a : α} {l : List α} (h : Sorted lo (a :: l)) : ∀ x ∈ l, lo a ≤ lo x := by
  induction l generalizing a with
  | nil => intro x hx; cases hx
  | cons b r ih =>
    intro x hx
    cases hx with
    | head => exact h.1
    | tail _ hx' => exact Int.le_trans h.1 (ih h.2 x hx')

/-- a list built by appending items each of which reaches an earlier one -/
inductive Chained (lo hi : α → Int) (c : Int) : List α → Prop
  | single (x : α) : Chained lo hi c [x]
  | snoc {l : List α} {y : α} : Chained lo hi c l → (∃ m ∈ l, reach lo hi c m y) → Chained lo hi c (l ++ [y])

theorem go_flatten (lo hi : α → Int) (c : Int) (cur : Grp α) (ys : List α) :
    ((go lo hi c cur ys).map Grp.members).flatten = cur.members ++ ys := by
  induction ys generalizing cur with
  | nil => simp [go]
  | cons y ys ih =>
    simp only [go]
    split
    · rw [ih]; simp
    · simp [ih]

theorem sweep_flatten (lo hi : α → Int) (c : Int) (xs : List α) :
    ((sweep lo hi c xs).map Grp.members).flatten = xs := by
  cases xs with
  | nil => rfl
  | cons x xs => simp [sweep, go_flatten]

/-- invariant of a group: non-empty, chained, and its hull is the least start / greatest end of its
    members, both attained -/
structure GInv (lo hi : α → Int) (c : Int) (g : Grp α) : Prop where
  ne : g.members ≠ []
  chained : Chained lo hi c g.members
  hiMax : ∀ m ∈ g.members, hi m ≤ g.ghi
  hiAtt : ∃ m ∈ g.members, hi m = g.ghi
  loMin : ∀ m ∈ g.members, g.glo ≤ lo m
  loAtt : ∃ m ∈ g.members, lo m = g.glo
  wf : ∀ m ∈ g.members, lo m < hi m

theorem GInv.single (lo hi : α → Int) (c : Int) (y : α) (h : lo y < hi y) : GInv lo hi c ⟨lo y, hi y, [y]⟩ :=
  ⟨by simp, Chained.single y, by simp, ⟨y, by simp, rfl⟩, by simp, ⟨y, by simp, rfl⟩,
    by intro m hm; simp at hm; subst hm; exact h⟩

theorem GInv.extend {lo hi : α → Int} {c : Int} {cur : Grp α} {y : α} (hinv : GInv lo hi c cur)
    (hc : 0 ≤ c) (hlt : lo y < cur.ghi + c) (hle : ∀ m ∈ cur.members, lo m ≤ lo y) (hy : lo y < hi y) :
    GInv lo hi c ⟨min cur.glo (lo y), max cur.ghi (hi y), cur.members ++ [y]⟩ := by
  have hge : cur.glo ≤ lo y := by
    obtain ⟨m, hm, hmlo⟩ := hinv.loAtt
    have := hle m hm
    omega
  refine ⟨by simp, ?_, ?_, ?_, ?_, ?_, ?_⟩
  · refine Chained.snoc hinv.chained ?_
    obtain ⟨m, hm, hmhi⟩ := hinv.hiAtt
    refine ⟨m, hm, ?_, ?_⟩
    · have := hle m hm
      omega
    · omega
  · intro m hm
    simp only [List.mem_append, List.mem_singleton] at hm
    rcases hm with hm | rfl
    · have := hinv.hiMax m hm; simp only; omega
    · simp only; omega
  · obtain ⟨m, hm, hmhi⟩ := hinv.hiAtt
    by_cases hcmp : cur.ghi ≤ hi y
    · exact ⟨y, by simp, by simp only; omega⟩
    · exact ⟨m, by simp [hm], by simp only; omega⟩
  · intro m hm
    simp only [List.mem_append, List.mem_singleton] at hm
    rcases hm with hm | rfl
    · have := hinv.loMin m hm; simp only; omega
    · simp only; omega
  · obtain ⟨m, hm, hmlo⟩ := hinv.loAtt
    exact ⟨m, by simp [hm], by simp only; omega⟩
  · intro m hm
    simp only [List.mem_append, List.mem_singleton] at hm
    rcases hm with hm | rfl
    · exact hinv.wf m hm
    · exact hy

/-- every group the sweep produces satisfies the invariant -/
theorem go_inv (lo hi : α → Int) (c : Int) (hc : 0 ≤ c) (cur : Grp α) (ys : List α)
    (hinv : GInv lo hi c cur) (hs : ∀ m ∈ cur.members, ∀ y ∈ ys, lo m ≤ lo y) (hsorted : Sorted lo ys)
    (hwf : ∀ y ∈ ys, lo y < hi y) :
    ∀ g ∈ go lo hi c cur ys, GInv lo hi c g := by
  induction ys generalizing cur with
  | nil => intro g hg; simp [go] at hg; subst hg; exact hinv
  | cons y ys ih =>
    intro g hg
    simp only [go] at hg
    split at hg
    · next hlt =>
      refine ih _ (hinv.extend hc hlt (fun m hm => hs m hm y (by simp)) (hwf y (by simp))) ?_ hsorted.tail
        (fun z hz => hwf z (by simp [hz])) g hg
      intro m hm z hz
      simp only [List.mem_append, List.mem_singleton] at hm
      rcases hm with hm | rfl
      · exact hs m hm z (by simp [hz])
      · exact hsorted.head_le z hz
    · next hge =>
      simp only [List.mem_cons] at hg
      rcases hg with rfl | hg
      · exact hinv
      · exact ih _ (GInv.single lo hi c y (hwf y (by simp)))
          (fun m hm z hz => by simp at hm; subst hm; exact hsorted.head_le z hz) hsorted.tail
          (fun z hz => hwf z (by simp [hz])) g hg

/-- no step leads out of a closed group: nothing after it is within reach of any of its members -/
theorem go_separated (lo hi : α → Int) (c : Int) (hc : 0 ≤ c) (cur : Grp α) (ys : List α)
    (hinv : GInv lo hi c cur) (hs : ∀ m ∈ cur.members, ∀ y ∈ ys, lo m ≤ lo y) (hsorted : Sorted lo ys)
    (hwf : ∀ y ∈ ys, lo y < hi y) :
    ∀ gs₁ g gs₂, go lo hi c cur ys = gs₁ ++ g :: gs₂ →
      ∀ a ∈ g.members, ∀ g' ∈ gs₂, ∀ b ∈ g'.members, ¬ reach lo hi c a b := by
  induction ys generalizing cur with
  | nil =>
    intro gs₁ g gs₂ h
    simp only [go] at h
    have : gs₂ = [] := by
      have hl := congrArg List.length h
      simp only [List.length_cons, List.length_nil, List.length_append] at hl
      exact List.eq_nil_of_length_eq_zero (by omega)
    subst this
    intro a _ g' hg'; cases hg'
  | cons y ys ih =>
    intro gs₁ g gs₂ h
    simp only [go] at h
    split at h
    · next hlt =>
      refine ih _ (hinv.extend hc hlt (fun m hm => hs m hm y (by simp)) (hwf y (by simp))) ?_ hsorted.tail
        (fun z hz => hwf z (by simp [hz])) gs₁ g gs₂ h
      intro m hm z hz
      simp only [List.mem_append, List.mem_singleton] at hm
      rcases hm with hm | rfl
      · exact hs m hm z (by simp [hz])
      · exact hsorted.head_le z hz
    · next hge =>
      cases gs₁ with
      | nil =>
        simp only [List.nil_append, List.cons.injEq] at h
        obtain ⟨rfl, hrest⟩ := h
        intro a ha g' hg' b hb hr
        have hb_mem : b ∈ y :: ys := by
          have := go_flatten lo hi c ⟨lo y, hi y, [y]⟩ ys
          rw [hrest] at this
          have hb' : b ∈ (List.map Grp.members gs₂).flatten := by
            simp only [List.mem_flatten, List.mem_map]
            exact ⟨g'.members, ⟨g', hg', rfl⟩, hb⟩
          rw [this] at hb'
          simpa using hb'
        have hylo : lo y ≤ lo b := by
          cases hb_mem with
          | head => exact Int.le_refl _
          | tail _ hb2 => exact hsorted.head_le b hb2
        have := hinv.hiMax a ha
        unfold reach at hr
        omega
      | cons g₀ t =>
        simp only [List.cons_append, List.cons.injEq] at h
        exact ih _ (GInv.single lo hi c y (hwf y (by simp)))
          (fun m hm z hz => by simp at hm; subst hm; exact hsorted.head_le z hz) hsorted.tail
          (fun z hz => hwf z (by simp [hz])) t g gs₂ h.2

theorem sweep_inv (lo hi : α → Int) (c : Int) (hc : 0 ≤ c) (xs : List α) (hsorted : Sorted lo xs)
    (hwf : ∀ x ∈ xs, lo x < hi x) : ∀ g ∈ sweep lo hi c xs, GInv lo hi c g := by
  cases xs with
  | nil => intro g hg; cases hg
  | cons x xs =>
    exact go_inv lo hi c hc _ xs (GInv.single lo hi c x (hwf x (by simp)))
      (fun m hm z hz => by simp at hm; subst hm; exact hsorted.head_le z hz)
      hsorted.tail (fun z hz => hwf z (by simp [hz]))

theorem sweep_separated (lo hi : α → Int) (c : Int) (hc : 0 ≤ c) (xs : List α) (hsorted : Sorted lo xs)
    (hwf : ∀ x ∈ xs, lo x < hi x) :
    ∀ gs₁ g gs₂, sweep lo hi c xs = gs₁ ++ g :: gs₂ →
      ∀ a ∈ g.members, ∀ g' ∈ gs₂, ∀ b ∈ g'.members, ¬ reach lo hi c a b := by
  cases xs with
  | nil => intro gs₁ g gs₂ h; simp [sweep] at h
  | cons x xs =>
    exact go_separated lo hi c hc _ xs (GInv.single lo hi c x (hwf x (by simp)))
      (fun m hm z hz => by simp at hm; subst hm; exact hsorted.head_le z hz)
      hsorted.tail (fun z hz => hwf z (by simp [hz]))

end ASV.ChainSweep
