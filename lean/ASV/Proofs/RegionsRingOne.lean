/-
  C06 helper lemmas, part 13: circular records with origin-spanning areas — every section of the sweep (and of the
  first/last merge) is a family of linked areas whose location is exactly their union, so a region lists areas of one
  connected component only.  Uses C04 `connect_ring_closed`, `connR_covers`, `connR_shortest`, `connR_shape`, `connR_wf`.
-/
import ASV.Proofs.RegionsGiven
import ASV.Proofs.RegionsRingShort
import ASV.Proofs.LocConnectRingPerm
namespace ASV.Regions
open ASV ASV.Components

theorem RingArea.nonEmpty {L : Int} {l : Loc} (h : RingArea L l) : l.PartsNonEmpty := by
  rcases h with ⟨p, rfl, h0, h1, h2⟩ | ⟨x, y, rfl, hy0, hyx, hxL⟩
  · intro q hq; simp [Loc.parts] at hq; subst hq; exact h1
  · intro q hq
    simp only [areaTwo, Loc.parts, List.mem_cons, List.not_mem_nil, or_false] at hq
    rcases hq with rfl | rfl <;> simp only <;> omega

/-- connecting well-formed spans of a ring whose union is a well-formed span shorter than half the record gives
    exactly that union (as a set of bases), again as a well-formed span -/
theorem connect_ring_exact {L : Int} (hL : 0 < L) (ls : List Loc) (hne : ls ≠ []) (h : ∀ l ∈ ls, RingArea L l)
    (c : Loc) (hwf : areaWF L L c = true) (hlen : 2 * c.len < L)
    (hc : ∀ i, c.mem i = true ↔ ∃ l ∈ ls, l.mem i = true) :
    ∃ r, connect ls (some L) = .ok r ∧ RingArea L r ∧ ∀ i, r.mem i = true ↔ ∃ l ∈ ls, l.mem i = true := by
  have hin : ∀ l ∈ ls, RingIn L l := fun l hl => (h l hl).ringIn
  have hok := toR_ok L hL ls hin
  have hne' : ls.map toR ≠ [] := by simpa using hne
  refine ⟨_, connect_ring_closed ls L hne hL hin, ?_, ?_⟩
  · have hwf' := connR_wf _ L hL hne' hok
    rcases connR_shape _ L hL hne' hok with ⟨p, hp⟩ | ⟨a, b, hab⟩
    · rw [hp] at hwf' ⊢
      simp only [areaWF, Loc.parts, Bool.and_eq_true, decide_eq_true_eq] at hwf'
      exact Or.inl ⟨p, rfl, hwf'.1.1, hwf'.1.2, hwf'.2⟩
    · rw [hab] at hwf' ⊢
      simp only [areaWF, Loc.parts, Bool.and_eq_true, decide_eq_true_eq] at hwf'
      exact Or.inr ⟨a, b, rfl, by omega, by omega, by omega⟩
  · intro i
    constructor
    · intro hi
      have := (connR_shortest _ L hL hne' hok c hwf hlen (by
        intro q hq j hj
        obtain ⟨l, hl, rfl⟩ := List.mem_map.1 hq
        exact (hc j).2 ⟨l, hl, (toR_mem_iff L hL l (h l hl).strict j).1 hj⟩)).2 i hi
      exact (hc i).1 this
    · rintro ⟨l, hl, hi⟩
      exact connR_covers _ L hL hok (toR l) (List.mem_map.2 ⟨l, hl, rfl⟩) i ((toR_spec L hL l (hin l hl)).2.2.2 i hi)

/-- a family of areas whose members are pairwise linked -/
def Connected (areas : List Area) (ms : List Feat) : Prop :=
  ∀ a ∈ ms, ∀ b ∈ ms, Linked areas (toArea a) (toArea b)

/-- families of areas grown by joining families that share a base (what the sweep and the first/last merge build) -/
inductive Joined (all : List Feat) : List Feat → Prop where
  | single (a : Feat) : a ∈ all → Joined all [a]
  | join (m1 m2 ms : List Feat) : Joined all m1 → Joined all m2 →
      (∃ a ∈ m1, ∃ b ∈ m2, a.loc.SharesBase b.loc) → (∀ f, f ∈ ms ↔ f ∈ m1 ∨ f ∈ m2) → Joined all ms

/-- the hypothesis of the ring theorem: the union of every family of areas grown by joining overlapping families
    is a well-formed span of the ring shorter than half the record (what "every component is shorter than half
    the record" means for sets of bases; not derived here from the executable `halfRecordComponent = false`) -/
def ArcUnions (L : Int) (all : List Feat) : Prop :=
  ∀ ms : List Feat, Joined all ms →
    ∃ c, areaWF L L c = true ∧ 2 * c.len < L ∧ ∀ i, c.mem i = true ↔ ∃ m ∈ ms, m.loc.mem i = true

/-- invariant of a section: its location is a well-formed span with exactly the bases of its members, which are
    areas of the record linked to each other -/
structure SecOK (L : Int) (all : List Feat) (sec : Sec) : Prop where
  ne : sec.2 ≠ []
  sub : ∀ m ∈ sec.2, m ∈ all
  conn : Connected (all.map toArea) sec.2
  joined : Joined all sec.2
  area : RingArea L sec.1
  exact : ∀ i, sec.1.mem i = true ↔ ∃ m ∈ sec.2, m.loc.mem i = true

theorem mem_pair_order {α} (order : Bool) (l a b : α) : l ∈ (if order then [a, b] else [b, a]) ↔ l = a ∨ l = b := by
  cases order <;> simp [or_comm]

/-- merging two sections whose locations overlap -/
theorem merge_secOK {L : Int} (hL : 0 < L) {all : List Feat} (hring : ∀ f ∈ all, RingArea L f.loc) (harc : ArcUnions L all)
    {loc1 loc2 : Loc} {m1 m2 ms : List Feat} (h1 : SecOK L all (loc1, m1)) (h2 : SecOK L all (loc2, m2))
    (hov : locationsOverlap loc1 loc2 = true) (hms : ∀ f, f ∈ ms ↔ f ∈ m1 ∨ f ∈ m2) (order : Bool) :
    ∃ r, connect (if order then [loc1, loc2] else [loc2, loc1]) (some L) = .ok r ∧ SecOK L all (r, ms) := by
  obtain ⟨i, hi1, hi2⟩ := (locationsOverlap_iff _ _ h1.area.nonEmpty h2.area.nonEmpty).1 hov
  obtain ⟨a, ha, hai⟩ := (h1.exact i).1 hi1
  obtain ⟨b, hb, hbi⟩ := (h2.exact i).1 hi2
  have hab : Linked (all.map toArea) (toArea a) (toArea b) :=
    Linked.step (Linked.refl _ (List.mem_map.2 ⟨a, h1.sub a ha, rfl⟩)) (List.mem_map.2 ⟨b, h2.sub b hb, rfl⟩) ⟨i, hai, hbi⟩
  have hne : ms ≠ [] := by
    obtain ⟨x, hx⟩ := List.exists_mem_of_ne_nil _ h1.ne
    exact List.ne_nil_of_mem ((hms x).2 (Or.inl hx))
  have hsub : ∀ m ∈ ms, m ∈ all := by
    intro m hm
    rcases (hms m).1 hm with h | h
    · exact h1.sub m h
    · exact h2.sub m h
  have hconn : Connected (all.map toArea) ms := by
    intro x hx y hy
    rcases (hms x).1 hx with hx | hx <;> rcases (hms y).1 hy with hy | hy
    · exact h1.conn x hx y hy
    · exact ((h1.conn x hx a ha).trans hab).trans (h2.conn b hb y hy)
    · exact ((h2.conn x hx b hb).trans hab.symm).trans (h1.conn a ha y hy)
    · exact h2.conn x hx y hy
  have hjoin : Joined all ms := Joined.join m1 m2 ms h1.joined h2.joined ⟨a, ha, b, hb, i, hai, hbi⟩ hms
  obtain ⟨c, hwf, hlen, hc⟩ := harc ms hjoin
  have hunion : ∀ j, c.mem j = true ↔ ∃ l ∈ (if order then [loc1, loc2] else [loc2, loc1]), l.mem j = true := by
    intro j
    rw [hc j]
    constructor
    · rintro ⟨m, hm, hmj⟩
      rcases (hms m).1 hm with h | h
      · exact ⟨loc1, (mem_pair_order order _ _ _).2 (Or.inl rfl), (h1.exact j).2 ⟨m, h, hmj⟩⟩
      · exact ⟨loc2, (mem_pair_order order _ _ _).2 (Or.inr rfl), (h2.exact j).2 ⟨m, h, hmj⟩⟩
    · rintro ⟨l, hl, hlj⟩
      have hl' : l = loc1 ∨ l = loc2 := (mem_pair_order order l loc1 loc2).1 hl
      rcases hl' with rfl | rfl
      · obtain ⟨m, hm, hmj⟩ := (h1.exact j).1 hlj
        exact ⟨m, (hms m).2 (Or.inl hm), hmj⟩
      · obtain ⟨m, hm, hmj⟩ := (h2.exact j).1 hlj
        exact ⟨m, (hms m).2 (Or.inr hm), hmj⟩
  obtain ⟨r, hr, hra, hrm⟩ := connect_ring_exact hL _ (by cases order <;> simp) (by
    intro l hl
    have hl' : l = loc1 ∨ l = loc2 := (mem_pair_order order l loc1 loc2).1 hl
    rcases hl' with rfl | rfl
    · exact h1.area
    · exact h2.area) c hwf hlen hunion
  refine ⟨r, hr, hne, hsub, hconn, hjoin, hra, ?_⟩
  intro j
  rw [hrm j, ← hunion j, hc j]


theorem single_secOK {L : Int} {all : List Feat} (hring : ∀ f ∈ all, RingArea L f.loc) (a : Feat) (ha : a ∈ all) :
    SecOK L all (a.loc, [a]) :=
  ⟨by simp, by intro m hm; simp at hm; subst hm; exact ha,
   by intro x hx y hy; simp at hx hy; rw [hx, hy]; exact Linked.refl _ (List.mem_map.2 ⟨a, ha, rfl⟩),
   Joined.single a ha, hring a ha, by intro i; simp⟩

/-- every section the sweep closes is a linked family of areas whose location is exactly their union -/
theorem sweepAreas_secOK {L : Int} (hL : 0 < L) {all : List Feat} (hring : ∀ f ∈ all, RingArea L f.loc)
    (harc : ArcUnions L all) (loc : Loc) (inc rest : List Feat) (hcur : SecOK L all (loc, inc))
    (hrest : ∀ a ∈ rest, a ∈ all) {secs : List Sec} (h : sweepAreas (some L) loc inc rest = .ok secs) :
    ∀ sec ∈ secs, SecOK L all sec := by
  induction rest generalizing loc inc secs with
  | nil =>
    simp only [sweepAreas, pure, Except.pure, Except.ok.injEq] at h
    subst h
    intro sec hsec; simp at hsec; subst hsec; exact hcur
  | cons a rest ih =>
    have ha := hrest a (by simp)
    simp only [sweepAreas] at h
    split at h
    · simp only [bind, Except.bind] at h
      split at h
      · cases h
      · next tail ht =>
        simp only [pure, Except.pure, Except.ok.injEq] at h
        subst h
        intro sec hsec
        simp only [List.mem_cons] at hsec
        rcases hsec with rfl | hsec
        · exact hcur
        · exact ih a.loc [a] (single_secOK hring a ha) (fun x hx => hrest x (by simp [hx])) ht sec hsec
    · next hov =>
      have hov' : locationsOverlap loc a.loc = true := by
        rw [locationsOverlap_comm]; simpa using hov
      obtain ⟨r, hr, hsec⟩ := merge_secOK hL hring harc hcur (single_secOK hring a ha) hov' (ms := inc ++ [a])
        (by intro f; simp) false
      simp only [Bool.false_eq_true, if_false] at hr
      simp only [hr, bind, Except.bind] at h
      exact ih r (inc ++ [a]) hsec (fun x hx => hrest x (by simp [hx])) h

theorem mergeFirstLast_secOK {L : Int} (hL : 0 < L) {all : List Feat} (hring : ∀ f ∈ all, RingArea L f.loc)
    (harc : ArcUnions L all) (n : Nat) {secs secs' : List Sec}
    (hnd : (ids (secs.map (·.2)).flatten).Nodup) (hok : ∀ sec ∈ secs, SecOK L all sec)
    (h : mergeFirstLast (some L) n secs = .ok secs') : ∀ sec ∈ secs', SecOK L all sec := by
  induction n generalizing secs secs' with
  | zero => simp only [mergeFirstLast, pure, Except.pure, Except.ok.injEq] at h; subst h; exact hok
  | succ n ih =>
    simp only [mergeFirstLast] at h
    split at h
    · next first second more =>
      split at h
      · simp only [pure, Except.pure, Except.ok.injEq] at h; subst h; exact hok
      · next last hlast =>
        split at h
        · simp only [pure, Except.pure, Except.ok.injEq] at h; subst h; exact hok
        · next hov =>
          have hsplit : second :: more = (second :: more).dropLast ++ [last] := by
            have hne : second :: more ≠ [] := by simp
            have := List.dropLast_concat_getLast hne
            rw [List.getLast?_eq_some_getLast hne] at hlast
            simp only [Option.some.injEq] at hlast
            rw [hlast] at this
            exact this.symm
          have hlastmem : last ∈ first :: second :: more := by
            rw [hsplit]; simp
          have hflat : ((first :: second :: more).map (·.2)).flatten =
              first.2 ++ (((second :: more).dropLast).map (·.2)).flatten ++ last.2 := by
            rw [List.map_cons, List.flatten_cons, hsplit]
            simp [List.append_assoc]
          have hnd' := hnd
          rw [hflat, ids_append, ids_append] at hnd'
          have hdis : ∀ a ∈ last.2, a.id ∉ ids first.2 := by
            intro a ha hm
            have := (List.nodup_append.1 hnd').2.2
            exact this a.id (List.mem_append.2 (Or.inl hm)) a.id (mem_ids.2 ⟨a, ha, rfl⟩) rfl
          have hnl : (ids last.2).Nodup := (List.nodup_append.1 hnd').2.1
          have happ := appendNew_disjoint first.2 last.2 hdis hnl
          have hov' : locationsOverlap first.1 last.1 = true := by simpa using hov
          obtain ⟨r, hr, hsec⟩ := merge_secOK hL hring harc (loc1 := first.1) (m1 := first.2) (loc2 := last.1) (m2 := last.2)
            (hok first (by simp)) (hok last hlastmem) hov' (ms := first.2 ++ last.2) (by intro f; simp) true
          simp only [if_true] at hr
          simp only [hr, bind, Except.bind, happ] at h
          have hperm1 : (((r, first.2 ++ last.2) :: (second :: more).dropLast).map (·.2)).flatten.Perm
              (((first :: second :: more).map (·.2)).flatten) := by
            rw [hflat, List.map_cons, List.flatten_cons]
            simp only [List.append_assoc]
            exact List.Perm.append_left _ List.perm_append_comm
          refine ih ((hperm1.map (fun f : Feat => f.id)).nodup_iff.2 hnd) ?_ h
          intro sec hsec
          simp only [List.mem_cons] at hsec
          rcases hsec with rfl | hsec
          · exact hsec
          · exact hok sec (by
              have : sec ∈ second :: more := List.dropLast_subset _ hsec
              exact List.mem_cons_of_mem _ this)
    · simp only [pure, Except.pure, Except.ok.injEq] at h; subst h; exact hok


theorem sectionsOf_secOK {L : Int} (hL : 0 < L) {cands subs : List Feat} (hring : ∀ f ∈ cands ++ subs, RingArea L f.loc)
    (harc : ArcUnions L (cands ++ subs)) (hnd : (ids (cands ++ subs)).Nodup) {secs : List Sec}
    (h : sectionsOf (some L) cands subs = .ok secs) : ∀ sec ∈ secs, SecOK L (cands ++ subs) sec := by
  simp only [sectionsOf, bind, Except.bind] at h
  split at h
  · cases h
  · next areas hareas =>
    have hp := sortAreas_perm hareas
    split at h
    · simp only [pure, Except.pure, Except.ok.injEq] at h
      subst h
      intro sec hsec; cases hsec
    · next first rest =>
      split at h
      · cases h
      · next secs0 hsw =>
        have hfirst : first ∈ cands ++ subs := hp.mem_iff.1 (by simp)
        have hrest : ∀ a ∈ rest, a ∈ cands ++ subs := fun a ha => hp.mem_iff.1 (by simp [ha])
        have h0 := sweepAreas_secOK hL hring harc first.loc [first] rest (single_secOK hring first hfirst) hrest hsw
        have hflat := sweepAreas_flat hsw
        have hnd0 : (ids (secs0.map (·.2)).flatten).Nodup := by
          rw [hflat]
          exact ((hp.map (fun f : Feat => f.id)).nodup_iff).2 hnd
        exact mergeFirstLast_secOK hL hring harc _ hnd0 h0 h

/-- every region added for the sections lists exactly the areas of one section -/
theorem addSections_members {s s' : State} {secs : List Sec} (h : addSections s secs = .ok s') :
    ∀ r ∈ s'.regions, r ∈ s.regions ∨ ∃ sec ∈ secs, ∀ k, k ∈ memberIds r ↔ k ∈ ids sec.2 := by
  induction secs generalizing s with
  | nil =>
    simp only [addSections, pure, Except.pure, Except.ok.injEq] at h
    subst h
    intro r hr; exact Or.inl hr
  | cons sec secs ih =>
    obtain ⟨l, areas⟩ := sec
    rw [addSections_cons'] at h
    simp only [bind, Except.bind] at h
    split at h
    · cases h
    · next v hmk =>
      obtain ⟨s1, r0⟩ := v
      simp only at h
      split at h
      · cases h
      · next s2 hadd =>
        obtain ⟨⟨r', hperm, hmem⟩, _⟩ := mkAddRegion_facts hmk hadd
        intro r hr
        rcases ih h r hr with h1 | ⟨sec, hsec, hk⟩
        · rcases List.mem_cons.1 (hperm.mem_iff.1 h1) with rfl | h2
          · right
            refine ⟨(l, areas), by simp, ?_⟩
            intro k
            rw [hmem, ← ids_append]
            exact ((List.filter_append_perm (fun x : Feat => x.kind == Kind.cand) areas).map (fun f : Feat => f.id)).mem_iff
          · exact Or.inl h2
        · exact Or.inr ⟨sec, by simp [hsec], hk⟩

/-- **Circular record with origin-spanning areas** (`_partial`: hypothesis `ArcUnions`; conditional on
    `create_regions` returning): every region lists areas of ONE connected component only — any two areas a
    region lists are linked by a chain of overlapping areas. -/
theorem ring_region_one_component (s s' : State) (hcirc : s.circular = true) (hL : 0 < s.len) (hi : Inv s)
    (hreg : s.regions = []) (hring : ∀ f ∈ s.cands ++ s.subs, RingArea s.len f.loc)
    (harc : ArcUnions s.len (s.cands ++ s.subs)) (h : createRegions s = .ok s') :
    ∀ r ∈ s'.regions, ∀ a ∈ s.cands ++ s.subs, ∀ b ∈ s.cands ++ s.subs,
      a.id ∈ memberIds r → b.id ∈ memberIds r → Linked (areasOf s) (toArea a) (toArea b) := by
  have hw : s.wrap = some s.len := by simp [State.wrap, hcirc]
  simp only [createRegions, createRegionsOf] at h
  split at h
  · simp only [pure, Except.pure, Except.ok.injEq] at h
    subst h
    intro r hr; rw [hreg] at hr; cases hr
  · simp only [bind, Except.bind] at h
    split at h
    · cases h
    · next secs hsecs =>
      rw [hw] at hsecs
      have hnd := nodup_areas hi
      have hok := sectionsOf_secOK hL hring harc hnd hsecs
      intro r hr a ha b hb hma hmb
      rcases addSections_members h r hr with h1 | ⟨sec, hsec, hk⟩
      · rw [hreg] at h1; cases h1
      · have hS := hok sec hsec
        obtain ⟨a', ha', ea⟩ := mem_ids.1 ((hk a.id).1 hma)
        obtain ⟨b', hb', eb⟩ := mem_ids.1 ((hk b.id).1 hmb)
        have e1 : a' = a := ids_inj hnd (hS.sub a' ha') ha ea
        have e2 : b' = b := ids_inj hnd (hS.sub b' hb') hb eb
        subst e1; subst e2
        exact hS.conn _ ha' _ hb'

end ASV.Regions
