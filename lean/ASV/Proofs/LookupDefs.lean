/-
  C08 helper lemmas, part 9: towards "the definition sets of `runLoose` are `specDefsAfter`": one
  `add_cds_feature` call adds exactly the pairs the spec's replay adds.
-/
import ASV.Proofs.LookupValid
namespace ASV.Lookup
open ASV

/-- what `add_cds` decides on its way down a collection tree is what the spec decides from the tree's nodes -/
theorem down_defines_iff {g : Gene} (hg : LocOK g.loc) {a : AreaT} (hin : KidsInside a) (d : AreaT) :
    (∃ s, containedBy g.loc a.loc = true ∧ (d, s) ∈ downNodes g none a ∧ defines g d = true) ↔
      (d ∈ nodes a ∧ specContained g.loc a.loc = true ∧ specDefines g d = true) := by
  have hle := gene_le hg
  constructor
  · rintro ⟨s, hc, hd, hdef⟩
    obtain ⟨h1, h2⟩ := downNodes_sound g a.size none a (d, s) (Nat.le_refl _) hc hd
    simp only [defines, Bool.and_eq_true, beq_iff_eq] at hdef
    refine ⟨h2, by rw [← containedBy_eq_spec hle]; exact hc, ?_⟩
    simp only [specDefines, Bool.and_eq_true, beq_iff_eq]
    exact ⟨⟨⟨hdef.1.1, by rw [← containedBy_eq_spec hle]; exact h1⟩, by rw [← containedBy_eq_spec hle]; exact hdef.1.2⟩, hdef.2⟩
  · rintro ⟨hd, hc, hdef⟩
    simp only [specDefines, Bool.and_eq_true, beq_iff_eq] at hdef
    have hcd : containedBy g.loc d.loc = true := by rw [containedBy_eq_spec hle]; exact hdef.1.1.2
    obtain ⟨h1, s, h2⟩ := downNodes_complete g a.size none a d (Nat.le_refl _) hin hd hcd
    refine ⟨s, h1, h2, ?_⟩
    simp only [defines, Bool.and_eq_true, beq_iff_eq]
    exact ⟨⟨hdef.1.1.1, by rw [containedBy_eq_spec hle]; exact hdef.1.2⟩, hdef.2⟩

theorem mem_meetPairs (gs : List Gene) (as : List AreaT) (x : Nat × Nat) :
    x ∈ meetPairs gs as ↔ ∃ a ∈ as, ∃ d ∈ nodes a, ∃ g ∈ gs,
      (specContained g.loc a.loc = true ∧ specDefines g d = true) ∧ x = (d.id, g.id) := by
  simp only [meetPairs, List.mem_flatMap, List.mem_map, List.mem_filter, Bool.and_eq_true]
  constructor
  · rintro ⟨a, ha, d, hd, g, ⟨hg, h⟩, rfl⟩; exact ⟨a, ha, d, hd, g, hg, h, rfl⟩
  · rintro ⟨a, ha, d, hd, g, hg, h, rfl⟩; exact ⟨a, ha, d, hd, g, ⟨hg, h⟩, rfl⟩

/-- one `add_cds_feature` call (in a `runLoose` history or a strict one) makes exactly the pairs defining that
    the spec's replay adds for it -/
theorem addCds_defs_match {S : Prop} {L : Live} {ever : List AreaT} {r r' : Rec} (inv : InvCore S L ever r)
    (hin : ∀ a ∈ ever, KidsInside a) (g : Gene) (hg : LocOK g.loc) (hstep : addCds r g = .ok r') (x : Nat × Nat) :
    x ∈ r'.defs ↔ x ∈ r.defs ∨ x ∈ meetPairs [g] L.areas := by
  obtain ⟨_, _, hr'⟩ := addCds_ok hstep
  have eff := linkCdsToParent_eff { r with genes := ins r.genes g, cdsCacheDirty := true } g
  have hreg0 : registered { r with genes := ins r.genes g, cdsCacheDirty := true } = registered r := rfl
  rw [hreg0] at eff
  have hd : r'.defs = (linkCdsToParent { r with genes := ins r.genes g, cdsCacheDirty := true } g).defs := by rw [hr']
  rw [hd, eff.defs, mem_meetPairs, ← registered_eq_live inv]
  apply or_congr Iff.rfl
  constructor
  · rintro ⟨t, ht, hdef, rfl⟩
    obtain ⟨ds, hds, rfl⟩ := List.mem_map.1 ht
    obtain ⟨a, ha, hc, hdn⟩ := (mem_downAll g _ _).1 hds
    obtain ⟨h1, h2, h3⟩ := (down_defines_iff hg (hin a (inv.liveEver a ha)) ds.1).1 ⟨ds.2, hc, hdn, hdef⟩
    exact ⟨a, ha, ds.1, h1, g, by simp, ⟨h2, h3⟩, rfl⟩
  · rintro ⟨a, ha, d, hdn, g', hg', ⟨h2, h3⟩, rfl⟩
    have : g' = g := by simpa using hg'
    subst this
    obtain ⟨s, hc, hds, hdef⟩ := (down_defines_iff hg (hin a (inv.liveEver a ha)) d).2 ⟨hdn, h2, h3⟩
    exact ⟨(g', d, s), List.mem_map.2 ⟨(d, s), (mem_downAll g' _ _).2 ⟨a, ha, hc, hds⟩, rfl⟩, hdef, rfl⟩

end ASV.Lookup
