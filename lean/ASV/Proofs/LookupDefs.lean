/-
  C08 helper lemmas, part 9: towards "the definition sets of `runLoose` are `specDefsAfter`": one
  `add_cds_feature` call adds exactly the pairs the spec's replay adds.
-/
import ASV.Proofs.LookupValid
import ASV.Proofs.Bisect
namespace ASV.Lookup
open ASV

/-- what `add_cds` decides on its way down a collection tree is what the spec decides from the tree's nodes -/
theorem down_defines_iff {g : Gene} (hg : LocOK g.loc) {a : AreaT} (hin : KidsInside a) (d : AreaT) :
    (∃ s, containedBy g.loc a.loc = true ∧ (d, s) ∈ downNodes g none a ∧ defines g d = true) ↔
      (d ∈ nodes a ∧ specContained g.loc a.loc = true ∧ specDefines g d = true) := by
  have hle := gene_le hg
  constructor
  · rintro ⟨s, hc, hd, hdef⟩
    obtain ⟨h1, h2⟩ := downNodes_sound g a.size none a (d, s) (Nat.le_refl _) hc hd
    simp only [defines, Bool.and_eq_true, beq_iff_eq] at hdef
    refine ⟨h2, by rw [← containedBy_eq_spec hle]; exact hc, ?_⟩
    simp only [specDefines, Bool.and_eq_true, beq_iff_eq]
    exact ⟨⟨⟨hdef.1.1, by rw [← containedBy_eq_spec hle]; exact h1⟩, by rw [← containedBy_eq_spec hle]; exact hdef.1.2⟩, hdef.2⟩
  · rintro ⟨hd, hc, hdef⟩
    simp only [specDefines, Bool.and_eq_true, beq_iff_eq] at hdef
    have hcd : containedBy g.loc d.loc = true := by rw [containedBy_eq_spec hle]; exact hdef.1.1.2
    obtain ⟨h1, s, h2⟩ := downNodes_complete g a.size none a d (Nat.le_refl _) hin hd hcd
    refine ⟨s, h1, h2, ?_⟩
    simp only [defines, Bool.and_eq_true, beq_iff_eq]
    exact ⟨⟨hdef.1.1.1, by rw [containedBy_eq_spec hle]; exact hdef.1.2⟩, hdef.2⟩

theorem mem_meetPairs (gs : List Gene) (as : List AreaT) (x : Nat × Nat) :
    x ∈ meetPairs gs as ↔ ∃ a ∈ as, ∃ d ∈ nodes a, ∃ g ∈ gs,
      (specContained g.loc a.loc = true ∧ specDefines g d = true) ∧ x = (d.id, g.id) := by
  simp only [meetPairs, List.mem_flatMap, List.mem_map, List.mem_filter, Bool.and_eq_true]
  constructor
  · rintro ⟨a, ha, d, hd, g, ⟨hg, h⟩, rfl⟩; exact ⟨a, ha, d, hd, g, hg, h, rfl⟩
  · rintro ⟨a, ha, d, hd, g, hg, h, rfl⟩; exact ⟨a, ha, d, hd, g, ⟨hg, h⟩, rfl⟩

/-- one `add_cds_feature` call (in a `runLoose` history or a strict one) makes exactly the pairs defining that
    the spec's replay adds for it -/
theorem addCds_defs_match {S : Prop} {L : Live} {ever : List AreaT} {r r' : Rec} (inv : InvCore S L ever r)
    (hin : ∀ a ∈ ever, KidsInside a) (g : Gene) (hg : LocOK g.loc) (hstep : addCds r g = .ok r') (x : Nat × Nat) :
    x ∈ r'.defs ↔ x ∈ r.defs ∨ x ∈ meetPairs [g] L.areas := by
  obtain ⟨_, _, hr'⟩ := addCds_ok hstep
  have eff := linkCdsToParent_eff { r with genes := ins r.genes g, cdsCacheDirty := true } g
  have hreg0 : registered { r with genes := ins r.genes g, cdsCacheDirty := true } = registered r := rfl
  rw [hreg0] at eff
  have hd : r'.defs = (linkCdsToParent { r with genes := ins r.genes g, cdsCacheDirty := true } g).defs := by rw [hr']
  rw [hd, eff.defs, mem_meetPairs, ← registered_eq_live inv]
  apply or_congr Iff.rfl
  constructor
  · rintro ⟨t, ht, hdef, rfl⟩
    obtain ⟨ds, hds, rfl⟩ := List.mem_map.1 ht
    obtain ⟨a, ha, hc, hdn⟩ := (mem_downAll g _ _).1 hds
    obtain ⟨h1, h2, h3⟩ := (down_defines_iff hg (hin a (inv.liveEver a ha)) ds.1).1 ⟨ds.2, hc, hdn, hdef⟩
    exact ⟨a, ha, ds.1, h1, g, by simp, ⟨h2, h3⟩, rfl⟩
  · rintro ⟨a, ha, d, hdn, g', hg', ⟨h2, h3⟩, rfl⟩
    have : g' = g := by simpa using hg'
    subst this
    obtain ⟨s, hc, hds, hdef⟩ := (down_defines_iff hg (hin a (inv.liveEver a ha)) d).2 ⟨hdn, h2, h3⟩
    exact ⟨(g', d, s), List.mem_map.2 ⟨(d, s), (mem_downAll g' _ _).2 ⟨a, ha, hc, hds⟩, rfl⟩, hdef, rfl⟩

/-- one `add_<area>` call makes exactly the pairs defining that the spec's replay adds for it -/
theorem addArea_defs_match {S : Prop} {L : Live} {ever : List AreaT} {r r' : Rec} (inv : InvCore S L ever r)
    (a : AreaT) (ha : AreaOK a) (hin : KidsInside a) (hstep : addArea r a = .ok r') (x : Nat × Nat) :
    x ∈ r'.defs ↔ x ∈ r.defs ∨ x ∈ meetPairs L.genes [a] := by
  obtain ⟨_, hfound⟩ := addArea_ok hstep
  have f := reg_frame r a
  have hL : ∀ g, g ∈ within r.genes a.loc false ↔ g ∈ r.genes ∧ containedBy g.loc a.loc = true := by
    intro g
    rw [mem_within inv.sorted inv.ok a.loc false ha.1]
    constructor
    · rintro ⟨hg, hk⟩
      exact ⟨hg, by rw [containedBy_eq_spec (gene_le (inv.ok g hg))]; simpa [specKeeps] using hk⟩
    · rintro ⟨hg, hk⟩
      exact ⟨hg, by rw [containedBy_eq_spec (gene_le (inv.ok g hg))] at hk; simpa [specKeeps] using hk⟩
  obtain ⟨r'', hrun, eff⟩ := addAll_eff a (within r.genes a.loc false) (reg r a) (fun g hg => ((hL g).1 hg).2)
  have : r'' = r' := by
    unfold addFound at hfound
    rw [f.genes, hrun] at hfound
    injection hfound
  subst this
  rw [eff.defs, f.defs, mem_meetPairs]
  apply or_congr Iff.rfl
  simp only [List.mem_flatMap, List.mem_map, List.mem_singleton, exists_eq_left]
  constructor
  · rintro ⟨t, ⟨g, hg, ds, hds, rfl⟩, hdef, rfl⟩
    obtain ⟨hgr, hc⟩ := (hL g).1 hg
    obtain ⟨h1, h2, h3⟩ := (down_defines_iff (inv.ok g hgr) hin ds.1).1 ⟨ds.2, hc, hds, hdef⟩
    exact ⟨ds.1, h1, g, (inv.genesLive g).1 hgr, ⟨h2, h3⟩, rfl⟩
  · rintro ⟨d, hdn, g, hg, ⟨h2, h3⟩, rfl⟩
    have hgr := (inv.genesLive g).2 hg
    obtain ⟨s, hc, hds, hdef⟩ := (down_defines_iff (inv.ok g hgr) hin d).2 ⟨hdn, h2, h3⟩
    exact ⟨(g, d, s), ⟨g, (hL g).2 ⟨hgr, hc⟩, (d, s), hds, rfl⟩, hdef, rfl⟩

theorem meetPairs_cons (gs : List Gene) (a : AreaT) (rest : List AreaT) (x : Nat × Nat) :
    x ∈ meetPairs gs (a :: rest) ↔ x ∈ meetPairs gs [a] ∨ x ∈ meetPairs gs rest := by
  simp [meetPairs]

/-- … and so do the `add_region` calls of a `create_regions` -/
theorem createRegions_defs_match : ∀ (new : List AreaT) {S : Prop} {L : Live} {ever : List AreaT} {r r' : Rec}, Inv S L ever r →
    (∀ a ∈ new, AreaOK a ∧ a.kind = .region) → (∀ a ∈ new, KidsInside a) → Lookup.createRegions r new = .ok r' →
    ∀ x, x ∈ r'.defs ↔ x ∈ r.defs ∨ x ∈ meetPairs L.genes new
  | [], S, L, ever, r, r', _, _, _, hrun => by
    simp only [Lookup.createRegions, List.foldlM_nil, pure, Except.pure] at hrun
    injection hrun with hrun; subst hrun
    intro x; simp [meetPairs]
  | a :: rest, S, L, ever, r, r', h, hnew, hin, hrun => by
    simp only [Lookup.createRegions, List.foldlM_cons, bind, Except.bind] at hrun
    cases hs : Lookup.addArea r a with
    | error e => rw [hs] at hrun; cases hrun
    | ok r1 =>
      rw [hs] at hrun
      obtain ⟨hok, hk⟩ := hnew a (by simp)
      have h1 := h.addArea a hok hs
      have hg1 : (L.step (.area a)).genes = L.genes := by simp only [Live.step]; cases a.kind <;> rfl
      have ih := createRegions_defs_match rest h1 (fun x hx => hnew x (by simp [hx])) (fun x hx => hin x (by simp [hx])) hrun
      intro x
      rw [ih x, hg1, addArea_defs_match h.core a hok (hin a (by simp)) hs x, meetPairs_cons L.genes a rest x]
      exact or_assoc

/-- the pairs one call makes defining, according to the spec's replay -/
def newPairs (l : Live) : Op → List (Nat × Nat)
  | .cds g => meetPairs [g] l.areas
  | .area a => meetPairs l.genes [a]
  | .clearSubs new => if l.regions.isEmpty then [] else meetPairs l.genes new
  | .clearCands new => if l.regions.isEmpty then [] else meetPairs l.genes new
  | .clearProtos new => if l.regions.isEmpty then [] else meetPairs l.genes new
  | _ => []

theorem defsStep_eq (l : Live) (d : List (Nat × Nat)) (op : Op) : defsStep (l, d) op = (l.step op, d ++ newPairs l op) := by
  cases op <;> simp only [defsStep, newPairs, List.append_nil] <;> split <;> simp

theorem defs_fold (ops : List Op) : ∀ (l : Live) (d : List (Nat × Nat)),
    (ops.foldl defsStep (l, d)).1 = ops.foldl Live.step l := by
  induction ops with
  | nil => intro l d; rfl
  | cons op ops ih => intro l d; simp only [List.foldl_cons, defsStep_eq, ih]

theorem specDefsAfter_snoc (ops : List Op) (op : Op) (x : Nat × Nat) :
    x ∈ specDefsAfter (ops ++ [op]) ↔ x ∈ specDefsAfter ops ∨ x ∈ newPairs (liveAfter ops) op := by
  simp only [specDefsAfter, List.foldl_append, List.foldl_cons, List.foldl_nil]
  have h1 : (ops.foldl defsStep ({}, [])) = ((ops.foldl defsStep ({}, [])).1, (ops.foldl defsStep ({}, [])).2) := rfl
  rw [h1, defsStep_eq, defs_fold]
  simp [liveAfter]

theorem reset_defs_match {S : Prop} {L : Live} {ever : List AreaT} {r r' : Rec} (h : Inv S L ever r) (new : List AreaT)
    (hnew : ∀ a ∈ new, AreaOK a ∧ a.kind = .region) (hin : ∀ a ∈ new, KidsInside a) (hrun : resetRegions r new = .ok r') (x : Nat × Nat) :
    x ∈ r'.defs ↔ x ∈ r.defs ∨ x ∈ (if L.regions.isEmpty then [] else meetPairs L.genes new) := by
  unfold resetRegions at hrun
  rw [← h.core.regionsEq]
  cases he : r.regions.isEmpty with
  | true =>
    simp only [he, if_true, pure, Except.pure] at hrun ⊢
    injection hrun with hrun; subst hrun
    simp
  | false =>
    simp only [he, Bool.false_eq_true, if_false] at hrun ⊢
    exact createRegions_defs_match new h.clearRegions hnew hin hrun x

/-- every call of a `runLoose` history makes exactly the pairs defining that the spec's replay adds for it -/
theorem stepLoose_defs_match {L : Live} {ever : List AreaT} {r r' : Rec} (h : Inv False L ever r) (op : Op) (hop : OpOK op)
    (hinE : ∀ a ∈ ever, KidsInside a) (hinK : ∀ a ∈ opAreas op, KidsInside a)
    (hstep : stepLoose r op = .ok r') (x : Nat × Nat) : x ∈ r'.defs ↔ x ∈ r.defs ∨ x ∈ newPairs L op := by
  cases op with
  | cds g => exact addCds_defs_match h.core hinE g hop hstep x
  | area a => exact addArea_defs_match h.core a hop (hinK a (by simp [opAreas])) hstep x
  | setCores gid cs =>
    simp only [stepLoose, pure, Except.pure] at hstep
    injection hstep with hstep; subst hstep
    simp [newPairs, setCoresAny]
  | clearRegions =>
    simp only [stepLoose, step, pure, Except.pure] at hstep
    injection hstep with hstep; subst hstep
    simp [newPairs, clearRegions]
  | clearSubs new =>
    have e1 : { r with subs := [] } = dropLists r false false true := by simp [dropLists]
    simp only [stepLoose, step, e1] at hstep
    have := reset_defs_match (h.drop false false true) new hop (fun a ha => hinK a (by simpa [opAreas] using ha)) hstep x
    simpa [newPairs, dropLists, Live.drop] using this
  | clearCands new =>
    have e1 : { r with cands := [] } = dropLists r false true false := by simp [dropLists]
    simp only [stepLoose, step, e1] at hstep
    have := reset_defs_match (h.drop false true false) new hop (fun a ha => hinK a (by simpa [opAreas] using ha)) hstep x
    simpa [newPairs, dropLists, Live.drop] using this
  | clearProtos new =>
    have e1 : { r with protos := [], cands := [] } = dropLists r true true false := by simp [dropLists]
    simp only [stepLoose, step, e1] at hstep
    have := reset_defs_match (h.drop true true false) new hop (fun a ha => hinK a (by simpa [opAreas] using ha)) hstep x
    simpa [newPairs, dropLists, Live.drop] using this
  | peekCds =>
    simp only [stepLoose, step, pure, Except.pure] at hstep
    injection hstep with hstep; subst hstep
    have := (InvCore.peekCds (S := False) (L := L) (ever := ever) h.cache).1.defs
    simp [newPairs, this]
  | peekArea aid =>
    simp only [stepLoose, step, pure, Except.pure] at hstep
    injection hstep with hstep; subst hstep
    have := (peekArea_spec h.cache aid).1.defs
    simp [newPairs, this]
  | byName gid =>
    obtain ⟨g, _, e⟩ := getByName_ok (r := r) (r' := r') (gid := gid) (by simpa [stepLoose, step] using hstep)
    subst e; simp [newPairs]
  | withinRegions =>
    simp only [stepLoose, step, pure, Except.pure] at hstep
    injection hstep with hstep; subst hstep
    simp [newPairs, withinRegions]
  | hasCds aid gid =>
    simp only [stepLoose, step, pure, Except.pure] at hstep
    injection hstep with hstep; subst hstep
    simp [newPairs, hasCds]
  | indexOf aid gid =>
    obtain ⟨i, _, e⟩ := indexOf_ok (r := r) (r' := r') (aid := aid) (gid := gid) (by simpa [stepLoose, step] using hstep)
    subst e
    have := (peekRegen_spec h.cache aid).1.defs
    simp [newPairs, this]

theorem foldlM_defsLoose : ∀ (ops seen : List Op) (r0 r : Rec), Inv False (liveAfter seen) (opsAreas seen) r0 →
    (∀ x, x ∈ r0.defs ↔ x ∈ specDefsAfter seen) → (∀ op ∈ ops, OpOK op) →
    (∀ a ∈ opsAreas seen, KidsInside a) → (∀ a ∈ opsAreas ops, KidsInside a) →
    ops.foldlM stepLoose r0 = .ok r → ∀ x, x ∈ r.defs ↔ x ∈ specDefsAfter (seen ++ ops)
  | [], seen, r0, r, _, hd, _, _, _, hrun => by
    simp only [List.foldlM_nil, pure, Except.pure] at hrun
    injection hrun with hrun
    subst hrun
    simpa using hd
  | op :: ops, seen, r0, r, h, hd, hok, hinS, hinO, hrun => by
    simp only [List.foldlM_cons, bind, Except.bind] at hrun
    cases hs : stepLoose r0 op with
    | error e => rw [hs] at hrun; cases hrun
    | ok r1 =>
      rw [hs] at hrun
      have hop := hok op (by simp)
      have hinK : ∀ a ∈ opAreas op, KidsInside a := fun a ha => hinO a (by simp [opsAreas, ha])
      have h1 := h.stepLoose op hop hs
      rw [← liveAfter_append, ← opsAreas_append] at h1
      have hd1 : ∀ x, x ∈ r1.defs ↔ x ∈ specDefsAfter (seen ++ [op]) := by
        intro x
        rw [stepLoose_defs_match h op hop hinS hinK hs x, specDefsAfter_snoc, hd x]
      have hinS1 : ∀ a ∈ opsAreas (seen ++ [op]), KidsInside a := by
        intro a ha
        rw [opsAreas_append] at ha
        rcases List.mem_append.1 ha with ha | ha
        · exact hinS a ha
        · exact hinK a ha
      have := foldlM_defsLoose ops (seen ++ [op]) r1 r h1 hd1 (fun o ho => hok o (by simp [ho])) hinS1
        (fun a ha => hinO a (by simp only [opsAreas, List.flatMap_cons, List.mem_append]; exact Or.inr ha)) hrun
      simpa using this

/-- the definition sets of a `runLoose` history are exactly what the spec's replay says -/
theorem runLoose_defs {len : Int} {ops : List Op} {r : Rec} (hok : ∀ op ∈ ops, OpOK op)
    (hin : ∀ a ∈ opsAreas ops, KidsInside a) (hrun : runLoose len ops = .ok r) (x : Nat × Nat) :
    x ∈ r.defs ↔ x ∈ specDefsAfter ops := by
  have := foldlM_defsLoose ops [] { len := len } r (by simpa [liveAfter, opsAreas] using Inv.init False len)
    (by intro x; simp [specDefsAfter]) hok (by intro a ha; simp [opsAreas] at ha) hin hrun x
  simpa using this

theorem stepLoose_of_step {r r' : Rec} {op : Op} (h : step r op = .ok r') : stepLoose r op = .ok r' := by
  cases op with
  | setCores gid cs =>
    obtain ⟨_, e⟩ := setCores_ok h
    subst e; rfl
  | _ => exact h

theorem foldlM_loose_of_strict : ∀ (ops : List Op) (r0 r : Rec), ops.foldlM step r0 = .ok r → ops.foldlM stepLoose r0 = .ok r
  | [], _, _, h => h
  | op :: ops, r0, r, h => by
    simp only [List.foldlM_cons, bind, Except.bind] at h ⊢
    cases hs : step r0 op with
    | error e => rw [hs] at h; cases h
    | ok r1 =>
      rw [hs] at h
      rw [stepLoose_of_step hs]
      exact foldlM_loose_of_strict ops r1 r h

/-- whatever `run` accepts, `runLoose` does in the same way -/
theorem runLoose_of_run {len : Int} {ops : List Op} {r : Rec} (h : run len ops = .ok r) : runLoose len ops = .ok r :=
  foldlM_loose_of_strict ops _ r h

/-! ### the literal binary searches on the sorted gene list -/

/-- in a sorted gene list, once a gene fails a test that is monotone along the order, all later ones fail it -/
theorem sorted_dropWhile_fails {fs : List Gene} (hs : Sorted fs) (keep : Gene → Bool)
    (hmono : ∀ a b : Gene, locLt b.loc a.loc = false → keep a = false → keep b = false) :
    ∀ y ∈ fs.dropWhile keep, keep y = false := by
  intro y hy
  have hsub : (fs.dropWhile keep).Sublist fs := List.dropWhile_sublist _
  have hsd := hs.sublist hsub
  match hd : fs.dropWhile keep with
  | [] => rw [hd] at hy; simp at hy
  | y0 :: rest =>
    have h0 : keep y0 = false := by
      have := List.head_dropWhile_not keep (l := fs) (by rw [hd]; simp)
      simpa [hd] using this
    rw [hd] at hy hsd
    rcases List.mem_cons.1 hy with rfl | hr
    · exact h0
    · exact hmono y0 y ((List.pairwise_cons.1 hsd).1 y hr) h0

/-- `bisect.bisect_right(self._cds_features, cds)` run literally returns the insertion point the model uses -/
theorem bisect_right_insertion {fs : List Gene} (hs : Sorted fs) (g : Gene) :
    Bisect.bisect (fun f : Gene => !locLt g.loc f.loc) fs = (fs.takeWhile fun f => !locLt g.loc f.loc).length := by
  apply Bisect.bisect_eq _ _ _ 0 (Bisect.partitioned_takeWhile _ _ ?_) (Nat.zero_le _)
  apply sorted_dropWhile_fails hs
  intro a b hab ha
  have ha' : locLt g.loc a.loc = true := by simpa using ha
  rw [locLt_true_iff] at ha'
  rw [locLt_false_iff] at hab
  have : locLt g.loc b.loc = true := by rw [locLt_true_iff]; omega
  simp [this]

/-- `bisect.bisect_left(features, dummy, lo=linear_start)` run literally on the features from `linear_start` on
    returns the start index the lookup model uses -/
theorem bisect_left_lookup {linear : List Gene} (hs : Sorted linear) (q : Loc) :
    Bisect.bisect (fun f : Gene => locLt f.loc q) linear = (linear.takeWhile fun f => locLt f.loc q).length := by
  apply Bisect.bisect_eq _ _ _ 0 (Bisect.partitioned_takeWhile _ _ ?_) (Nat.zero_le _)
  apply sorted_dropWhile_fails hs
  intro a b hab ha
  rw [locLt_false_iff] at hab ha ⊢
  omega

end ASV.Lookup
