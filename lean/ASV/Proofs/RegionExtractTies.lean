/-
  C12: ties in file order (`tiesInFileOrder`) for a region that does not run over the origin — written area features
  of one kind that a loading record cannot tell apart by position and size carry their numbers in the order in
  which they stand in the file: the file keeps the record's order (slice), the record lists the areas of the kind
  in the order of their numbers (hypothesis), and `_number_by_position` breaks ties by record-wide number.
-/
import ASV.Proofs.RegionExtractFinal
set_option linter.unusedSimpArgs false
namespace ASV.RegionExtract
open ASV

/-- the file of a region that does not run over the origin lists the kept features in the record's order -/
theorem plain_tags_sublist (rd : RegionData) (rec : BioRecord) (w : Written) (h : writeToGenbank rd rec = .ok w)
    (hc : rd.crossesOrigin = false) :
    (w.extract.features.map (·.tag)).Sublist (rec.features.map (·.tag)) := by
  obtain ⟨seq, ws, parent, adjusted, hb, ha, hfe⟩ := written_features rd rec w h
  have htags : w.extract.features.map (·.tag) = ws.map (·.f.tag) := by
    rw [hfe, List.map_map]
    unfold adjustFeatures at ha
    refine mapE_map_eq _ (·.f.tag) (fun x => x.f.tag) ?_ ws adjusted ha
    intro a b hab
    split at hab
    · cases hab
    · rename_i g hg
      injection hab with hab
      rw [← hab]
      exact (adjustFeature_same rd _ _ a.f g hg).1
  rw [htags]
  rcases base_shape rd rec seq ws parent hb with ⟨_, hws⟩ | ⟨hc', _⟩
  · rw [hws, List.map_map]
    exact slice_tags_sublist rec.features rd.start rd.end
  · rw [hc] at hc'; cases hc'

theorem ties_of_pairwise (num : BioFeature → Option Int) : ∀ l : List BioFeature,
    l.Pairwise (fun f g => loadKey f.loc ≠ loadKey g.loc ∨ ∃ a b, num f = some a ∧ num g = some b ∧ a < b) →
    tiesInFileOrder num l = true
  | [], _ => rfl
  | f :: rest, h => by
    obtain ⟨h1, h2⟩ := List.pairwise_cons.1 h
    simp only [tiesInFileOrder, Bool.and_eq_true, List.all_eq_true, Bool.or_eq_true, bne_iff_ne]
    refine ⟨fun g hg => ?_, ties_of_pairwise num rest h2⟩
    rcases h1 g hg with hne | ⟨a, b, ha, hb, hab⟩
    · exact .inl hne
    · right; rw [ha, hb]; simpa using hab

/-- the source feature of a feature of the region record, with tag and load key -/
theorem origin_source_tag (rd : RegionData) (rec : BioRecord) (hwf : wfInput rd rec = true) (g0 : BioFeature)
    (ho : Origin rd rec g0) :
    ∃ f ∈ rec.features, g0.tag = f.tag ∧ g0.type = f.type ∧ g0.q = f.q ∧
      (areaShape rec.length rd f.loc = true → loadKey g0.loc = posPair rd rec.length f.loc) := by
  obtain ⟨f, hf, h1, h2, h3⟩ := origin_source rd rec hwf g0 ho
  have htag : ∃ f' ∈ rec.features, g0.tag = f'.tag ∧ g0.type = f'.type ∧ g0.q = f'.q ∧
      (areaShape rec.length rd f'.loc = true → loadKey g0.loc = posPair rd rec.length f'.loc) := by
    obtain ⟨hL, hcross, hplain, _⟩ := wf_unpack rd rec hwf
    cases ho with
    | plain f hf hc h1 h2 hg =>
      refine ⟨f, hf, by rw [hg], by rw [hg], by rw [hg], fun hs => ?_⟩
      exact origin_loadKey rd rec hwf g0.loc f.loc hs (.inl ⟨hc, h1, h2, by rw [hg]⟩)
    | pre f hf hc h1 h2 hg =>
      refine ⟨f, hf, by rw [hg], by rw [hg], by rw [hg], fun hs => ?_⟩
      exact origin_loadKey rd rec hwf g0.loc f.loc hs (.inr (.inl ⟨hc, h1, h2, by rw [hg]⟩))
    | post f hf hc h1 h2 l hl hg =>
      refine ⟨f, hf, by rw [hg], by rw [hg], by rw [hg], fun hs => ?_⟩
      exact origin_loadKey rd rec hwf g0.loc f.loc hs (.inr (.inr (.inl ⟨hc, h1, h2, by rw [hg]; exact hl⟩)))
    | cross f hf hc hb l hl hk hnb hg =>
      refine ⟨f, hf, by rw [hg], by rw [hg], by rw [hg], fun hs => ?_⟩
      obtain ⟨he0, hes, hsL⟩ := hcross hc
      rw [cross_len rd rec he0 hes hsL] at hk
      exact origin_loadKey rd rec hwf g0.loc f.loc hs (.inr (.inr (.inr ⟨hc, hb, l, hl, hk, hnb, by rw [hg]⟩)))
  exact htag

/-- the generic argument for one kind of area -/
theorem ties_generic (rd : RegionData) (rec : BioRecord) (w : Written) (h : writeToGenbank rd rec = .ok w)
    (hwf : wfInput rd rec = true) (hc : rd.crossesOrigin = false) (htagnd : (rec.features.map (·.tag)).Nodup)
    (type : String) (num : BioFeature → Option Int) (areas : List (Int × Loc))
    (hnd : (areas.map (·.1)).Nodup) (hshape : ∀ a ∈ areas, areaShape rec.length rd a.2 = true)
    (hlink : linkedKind type num areas rec = true)
    (hnum : ∀ g0 g, adjustFeature rd rec.length (renumbering rd rec.length) g0 = .ok g → g0.type = type →
      ∀ m, num g = some m → ∃ n, num g0 = some n ∧ dictGet (numberByPosition areas rd rec.length) n = .ok m)
    (hq : ∀ a b : BioFeature, a.q = b.q → num a = num b)
    (hall : ∀ g ∈ w.extract.features, g.type = type → ∃ m, num g = some m)
    (hasc : rec.features.Pairwise (fun f1 f2 => f1.type = type → f2.type = type →
      ∀ a b, num f1 = some a → num f2 = some b → a < b)) :
    tiesInFileOrder num (ofType type w.extract.features) = true := by
  have hgood := numberByPosition_spec areas rd rec.length hnd
  have hties := good_ties hgood
  obtain ⟨_, hrange, _⟩ := hgood
  have same : ∀ f1 ∈ rec.features, ∀ f2 ∈ rec.features, f1.tag = f2.tag → f1 = f2 :=
    fun f1 h1 f2 h2 e => nodup_map_inj (·.tag) rec.features htagnd f1 f2 h1 h2 e
  -- everything known about one written feature of the kind
  have key : ∀ g ∈ w.extract.features, g.type = type → ∀ m, num g = some m →
      ∃ f ∈ rec.features, f.tag = g.tag ∧ f.type = type ∧ ∃ n, num f = some n ∧ (n, f.loc) ∈ areas ∧
        dictGet (numberByPosition areas rd rec.length) n = .ok m ∧ loadKey g.loc = posPair rd rec.length f.loc := by
    intro g hg ht m hm
    obtain ⟨g0, ho, hadj⟩ := written_origin rd rec w h g hg
    obtain ⟨htg, hty, hloc⟩ := adjustFeature_same rd _ _ g0 g hadj
    obtain ⟨f, hf, hftag, hft, hfq, hkey⟩ := origin_source_tag rd rec hwf g0 ho
    obtain ⟨n, hn0, hd⟩ := hnum g0 g hadj (by rw [← hty]; exact ht) m hm
    obtain ⟨_, _, la, hla⟩ := hrange n m hd
    have hnf : num f = some n := by rw [← hq g0 f hfq]; exact hn0
    have hftype : f.type = type := by rw [← hft, ← hty]; exact ht
    have hl := linkedKind_loc type num areas rec hlink f hf hftype n hnf la hla
    subst hl
    exact ⟨f, hf, by rw [htg, hftag], hftype, n, hnf, hla, hd, by rw [hloc]; exact hkey (hshape _ hla)⟩
  apply ties_of_pairwise
  -- the order of the record, seen through the tags
  have hrec : (rec.features.map (·.tag)).Pairwise (fun t1 t2 => ∀ f1 ∈ rec.features, ∀ f2 ∈ rec.features,
      f1.tag = t1 → f2.tag = t2 → f1.type = type → f2.type = type →
      ∀ a b, num f1 = some a → num f2 = some b → a < b) := by
    rw [List.pairwise_map]
    refine hasc.imp_of_mem ?_
    intro f1 f2 hf1 hf2 hS f1' hf1' f2' hf2' e1 e2
    have := same f1' hf1' f1 hf1 e1
    subst this
    have := same f2' hf2' f2 hf2 e2
    subst this
    exact hS
  have hfile := (hrec.sublist (plain_tags_sublist rd rec w h hc))
  rw [List.pairwise_map] at hfile
  have hfilt := hfile.sublist (List.filter_sublist (p := fun g => g.type == type) (l := w.extract.features))
  refine hfilt.imp_of_mem ?_
  intro g1 g2 hg1 hg2 hS
  simp only [ofType, List.mem_filter, beq_iff_eq] at hg1 hg2
  by_cases heq : loadKey g1.loc = loadKey g2.loc
  · right
    obtain ⟨m1, hm1⟩ := hall g1 hg1.1 hg1.2
    obtain ⟨m2, hm2⟩ := hall g2 hg2.1 hg2.2
    obtain ⟨f1, hf1, ht1, hty1, n1, hn1, ha1, hd1, hk1⟩ := key g1 hg1.1 hg1.2 m1 hm1
    obtain ⟨f2, hf2, ht2, hty2, n2, hn2, ha2, hd2, hk2⟩ := key g2 hg2.1 hg2.2 m2 hm2
    have hlt : n1 < n2 := hS f1 hf1 f2 hf2 ht1 ht2 hty1 hty2 n1 n2 hn1 hn2
    rw [hk1, hk2] at heq
    have e1 : (positionKey rd rec.length n1 f1.loc).1 = (positionKey rd rec.length n2 f2.loc).1 := by
      have := congrArg Prod.fst heq; exact this
    have e2 : (positionKey rd rec.length n1 f1.loc).2.1 = (positionKey rd rec.length n2 f2.loc).2.1 := by
      have := congrArg Prod.snd heq; exact this
    exact ⟨m1, m2, hm1, hm2, (hties n1 n2 f1.loc f2.loc m1 m2 ha1 ha2 hd1 hd2 e1 e2).2 hlt⟩
  · exact .inl heq

/-- protoclusters and subregions of a region that does not run over the origin: ties in file order -/
theorem written_ties (rd : RegionData) (rec : BioRecord) (w : Written) (h : writeToGenbank rd rec = .ok w)
    (hwf : wfInput rd rec = true) (hcons : consistent rd rec = true) (hc : rd.crossesOrigin = false)
    (hP : InNumberOrder "protocluster" (·.q.protoNumber) rec.features)
    (hS : InNumberOrder "subregion" (·.q.subNumber) rec.features) :
    tiesInFileOrder (·.q.protoNumber) (ofType "protocluster" w.extract.features) = true ∧
    tiesInFileOrder (·.q.subNumber) (ofType "subregion" w.extract.features) = true := by
  obtain ⟨htags, _⟩ := consistent_unpack rd rec hcons
  have hlink : linked rd rec = true := by
    unfold consistent at hcons; simp only [Bool.and_eq_true] at hcons; exact hcons.1.1.1.1.1.1.1.1
  obtain ⟨nP, _, nS, _, _⟩ := written_selfconsistent rd rec w h hwf hcons
  have hallOf : ∀ (type : String) (num : BioFeature → Option Int),
      numberedAsLoaded num (ofType type w.extract.features) = true →
      ∀ g ∈ w.extract.features, g.type = type → ∃ m, num g = some m := by
    intro type num hn g hg ht
    unfold numberedAsLoaded at hn
    simp only [Bool.and_eq_true, List.all_eq_true] at hn
    have := hn.1.1 g (by simp only [ofType, List.mem_filter, beq_iff_eq]; exact ⟨hg, ht⟩)
    exact Option.isSome_iff_exists.1 this
  unfold linked at hlink
  simp only [Bool.and_eq_true, List.all_eq_true, List.mem_append] at hlink
  obtain ⟨⟨⟨hl1, _⟩, hl3⟩, hshape⟩ := hlink
  refine ⟨?_, ?_⟩
  · refine ties_generic rd rec w h hwf hc htags "protocluster" (·.q.protoNumber) (protoAreas rd) ?_
      (fun a ha => hshape a (.inl (.inl ha))) hl1 ?_ (fun a b e => by rw [e]) (hallOf _ _ nP) hP
    · unfold protoAreas; rw [List.map_map]; exact protoDict_nodup rd
    · intro g0 g hadj ht m hm
      obtain ⟨n, m', hn, hm', hd⟩ := (adjustFeature_refs rd _ g0 g hadj).2.2.1 (.inl ht)
      rw [hm'] at hm; injection hm with hm; subst hm
      exact ⟨n, hn, hd⟩
  · refine ties_generic rd rec w h hwf hc htags "subregion" (·.q.subNumber) (subDict rd) (subDict_nodup rd)
      (fun a ha => hshape a (.inr ha)) hl3 ?_ (fun a b e => by rw [e]) (hallOf _ _ nS) hS
    intro g0 g hadj ht m hm
    obtain ⟨n, m', hn, hm', hd⟩ := (adjustFeature_refs rd _ g0 g hadj).2.2.2 ht
    rw [hm'] at hm; injection hm with hm; subst hm
    exact ⟨n, hn, hd⟩

theorem inNumberOrder_of_B (type : String) (num : BioFeature → Option Int) : ∀ fs : List BioFeature,
    inNumberOrderB type num fs = true → InNumberOrder type num fs
  | [], _ => List.Pairwise.nil
  | f :: rest, h => by
    simp only [inNumberOrderB, Bool.and_eq_true, List.all_eq_true] at h
    refine List.pairwise_cons.2 ⟨?_, inNumberOrder_of_B type num rest h.2⟩
    intro g hg ht1 ht2 a b ha hb
    have := h.1 g hg
    simp only [ht1, ht2, beq_self_eq_true, Bool.not_true, Bool.false_or, ha, hb, decide_eq_true_eq] at this
    exact this

end ASV.RegionExtract
