/-
  C12: ties in file order for a region over the origin.  Areas (one forward part, or a forward pair over the
  origin) with the same position and size in the region file have the same location, so they fall into the same of
  the three groups of features (before / over / after the origin) the file is put together from.
-/
import ASV.Proofs.RegionExtractTies
set_option linter.unusedSimpArgs false
namespace ASV.RegionExtract
open ASV

theorem startKey_inj (x y st L : Int) (hx0 : 0 ≤ x) (hxL : x < L) (hy0 : 0 ≤ y) (hyL : y < L)
    (h : (if x - st < 0 then x - st + L else x - st) = (if y - st < 0 then y - st + L else y - st)) : x = y := by
  split at h <;> split at h <;> omega

theorem posPair_simple (rd : RegionData) (L : Int) (p : Part) (hc : rd.crossesOrigin = true) (hs : p.strand = .fwd) :
    posPair rd L (.simple p) = ((if p.lo - rd.start < 0 then p.lo - rd.start + L else p.lo - rd.start), -(p.hi - p.lo)) := by
  simp [posPair, positionKey, areaStart, Loc.strand, hs, Loc.parts, Loc.len, Part.len, hc, bridgesOrigin]

theorem posPair_pair (rd : RegionData) (L : Int) (a b : Part) (hc : rd.crossesOrigin = true) (ha : a.strand = .fwd)
    (hb : b.strand = .fwd) :
    posPair rd L (.compound [a, b]) =
      ((if a.lo - rd.start < 0 then a.lo - rd.start + L else a.lo - rd.start), -((a.hi - a.lo) + (b.hi - b.lo))) := by
  simp [posPair, positionKey, areaStart, Loc.strand, ha, hb, Loc.parts, Loc.len, Part.len, hc]

/-- areas with the same position and size in the file of a region over the origin are the same location -/
theorem area_posPair_inj (rd : RegionData) (L : Int) (l1 l2 : Loc) (hc : rd.crossesOrigin = true)
    (h1 : areaShape L rd l1 = true) (h2 : areaShape L rd l2 = true)
    (hp1 : ∀ p ∈ l1.parts, PartIn L p) (hp2 : ∀ p ∈ l2.parts, PartIn L p)
    (h : posPair rd L l1 = posPair rd L l2) : l1 = l2 := by
  unfold areaShape at h1 h2
  split at h1
  · rename_i p1
    have hs1 : p1.strand = .fwd := by simpa using h1
    have b1 := hp1 p1 (by simp [Loc.parts])
    split at h2
    · rename_i p2
      have hs2 : p2.strand = .fwd := by simpa using h2
      have b2 := hp2 p2 (by simp [Loc.parts])
      rw [posPair_simple rd L p1 hc hs1, posPair_simple rd L p2 hc hs2] at h
      have e1 := congrArg Prod.fst h
      have e2 := congrArg Prod.snd h
      simp only at e1 e2
      unfold PartIn at b1 b2
      have := startKey_inj p1.lo p2.lo rd.start L (by omega) (by omega) (by omega) (by omega) e1
      obtain ⟨lo1, hi1, s1⟩ := p1
      obtain ⟨lo2, hi2, s2⟩ := p2
      simp only at *
      subst hs1 hs2
      have : hi1 = hi2 := by omega
      subst this
      subst lo2
      rfl
    · rename_i a b
      simp only [Bool.and_eq_true, beq_iff_eq, decide_eq_true_eq] at h2
      obtain ⟨⟨⟨⟨⟨⟨⟨ha, hb⟩, haL⟩, hb0⟩, hbpos⟩, hble⟩, halt⟩, _⟩ := h2
      rw [posPair_simple rd L p1 hc hs1, posPair_pair rd L a b hc ha hb] at h
      have e1 := congrArg Prod.fst h
      have e2 := congrArg Prod.snd h
      simp only at e1 e2
      unfold PartIn at b1
      have := startKey_inj p1.lo a.lo rd.start L (by omega) (by omega) (by omega) (by omega) e1
      omega
    · cases h2
  · rename_i a1 b1'
    simp only [Bool.and_eq_true, beq_iff_eq, decide_eq_true_eq] at h1
    obtain ⟨⟨⟨⟨⟨⟨⟨ha1, hb1⟩, haL1⟩, hb01⟩, hbpos1⟩, hble1⟩, halt1⟩, _⟩ := h1
    split at h2
    · rename_i p2
      have hs2 : p2.strand = .fwd := by simpa using h2
      have b2 := hp2 p2 (by simp [Loc.parts])
      rw [posPair_pair rd L a1 b1' hc ha1 hb1, posPair_simple rd L p2 hc hs2] at h
      have e1 := congrArg Prod.fst h
      have e2 := congrArg Prod.snd h
      simp only at e1 e2
      unfold PartIn at b2
      have := startKey_inj a1.lo p2.lo rd.start L (by omega) (by omega) (by omega) (by omega) e1
      omega
    · rename_i a2 b2'
      simp only [Bool.and_eq_true, beq_iff_eq, decide_eq_true_eq] at h2
      obtain ⟨⟨⟨⟨⟨⟨⟨ha2, hb2⟩, haL2⟩, hb02⟩, hbpos2⟩, hble2⟩, halt2⟩, _⟩ := h2
      rw [posPair_pair rd L a1 b1' hc ha1 hb1, posPair_pair rd L a2 b2' hc ha2 hb2] at h
      have e1 := congrArg Prod.fst h
      have e2 := congrArg Prod.snd h
      simp only at e1 e2
      have := startKey_inj a1.lo a2.lo rd.start L (by omega) (by omega) (by omega) (by omega) e1
      obtain ⟨alo1, ahi1, as1⟩ := a1
      obtain ⟨blo1, bhi1, bs1⟩ := b1'
      obtain ⟨alo2, ahi2, as2⟩ := a2
      obtain ⟨blo2, bhi2, bs2⟩ := b2'
      simp only at *
      subst ha1 hb1 ha2 hb2 haL1 haL2 hb01 hb02
      subst alo2
      have : bhi1 = bhi2 := by omega
      subst this
      rfl
    · cases h2
  · cases h1

/-- the file of a region over the origin keeps the record's order among features with the same location -/
theorem cross_file_order (rd : RegionData) (rec : BioRecord) (w : Written) (h : writeToGenbank rd rec = .ok w)
    (hwf : wfInput rd rec = true) (hc : rd.crossesOrigin = true) (hnd : (rec.features.map (·.tag)).Nodup)
    (hspan : ∀ f ∈ rec.features, bridgesOrigin f.loc = true → f.loc.start = 0 ∧ f.loc.end = rec.length)
    (R : BioFeature → BioFeature → Prop) (hrec : rec.features.Pairwise R) :
    (w.extract.features.map (·.tag)).Pairwise (fun t1 t2 => ∀ f1 ∈ rec.features, ∀ f2 ∈ rec.features,
      f1.tag = t1 → f2.tag = t2 → f1.loc = f2.loc → R f1 f2) := by
  obtain ⟨hL, hcross, _, hfeat⟩ := wf_unpack rd rec hwf
  obtain ⟨seq, ws, parent, adjusted, hb, ha, hfe⟩ := written_features rd rec w h
  have htags : w.extract.features.map (·.tag) = ws.map (·.f.tag) := by
    rw [hfe, List.map_map]
    unfold adjustFeatures at ha
    refine mapE_map_eq _ (·.f.tag) (fun x => x.f.tag) ?_ ws adjusted ha
    intro a b hab
    split at hab
    · cases hab
    · rename_i g hg
      injection hab with hab
      rw [← hab]
      exact (adjustFeature_same rd _ _ a.f g hg).1
  rw [htags]
  have same : ∀ f1 ∈ rec.features, ∀ f2 ∈ rec.features, f1.tag = f2.tag → f1 = f2 :=
    fun f1 h1 f2 h2 e => nodup_map_inj (·.tag) rec.features hnd f1 f2 h1 h2 e
  -- the record's order seen through the tags
  have hrecT : (rec.features.map (·.tag)).Pairwise (fun t1 t2 => ∀ f1 ∈ rec.features, ∀ f2 ∈ rec.features,
      f1.tag = t1 → f2.tag = t2 → f1.loc = f2.loc → R f1 f2) := by
    rw [List.pairwise_map]
    refine hrec.imp_of_mem ?_
    intro f1 f2 hf1 hf2 hS f1' hf1' f2' hf2' e1 e2 _
    have := same f1' hf1' f1 hf1 e1
    subst this
    have := same f2' hf2' f2 hf2 e2
    subst this
    exact hS
  rcases base_shape rd rec seq ws parent hb with ⟨hc', _⟩ | ⟨_, post, steps, hpost, hsteps, hws⟩
  · rw [hc] at hc'; cases hc'
  · obtain ⟨he0, hes, hsL⟩ := hcross hc
    rw [hws]
    simp only [List.map_append, List.map_map]
    have hposttags : post.map (·.tag) = (sliceFeatures rec.features 0 rd.end).map (·.tag) :=
      mapE_map_eq _ (·.tag) (·.tag) (fun a b hab => postStep_tag rd _ a b hab) _ post hpost
    have fromPre : ∀ t ∈ (sliceFeatures rec.features rd.start rec.length).map (·.tag),
        ∃ f ∈ rec.features, f.tag = t ∧ rd.start ≤ f.loc.start := by
      intro t ht
      obtain ⟨g, hg, rfl⟩ := List.mem_map.1 ht
      obtain ⟨f, hf, h1, _, hgf⟩ := slice_from _ _ _ g hg
      exact ⟨f, hf, by rw [hgf], h1⟩
    have fromPost : ∀ t ∈ post.map (·.tag), ∃ f ∈ rec.features, f.tag = t ∧ f.loc.end ≤ rd.end := by
      intro t ht
      rw [hposttags] at ht
      obtain ⟨g, hg, rfl⟩ := List.mem_map.1 ht
      obtain ⟨f, hf, _, h2, hgf⟩ := slice_from _ _ _ g hg
      exact ⟨f, hf, by rw [hgf], h2⟩
    have fromCross : ∀ t ∈ (collectCross 0 steps).map (·.f.tag), ∃ f ∈ rec.features, f.tag = t ∧ bridgesOrigin f.loc = true := by
      intro t ht
      obtain ⟨w0, hw0, rfl⟩ := List.mem_map.1 ht
      obtain ⟨f, hf, p, hstep⟩ := collectCross_mem rd _ _ rec.features steps 0 w0 hsteps hw0
      obtain ⟨hb', l, _, _, _, hg⟩ := crossStep_some rd _ _ f p w0.f hstep
      exact ⟨f, hf, by rw [hg], hb'⟩
    have hfun : (fun (x : BioFeature) => x.tag) = (fun x => (Working.f (⟨x, none⟩ : Working)).tag) := rfl
    have hlt : ∀ f ∈ rec.features, f.loc.start < f.loc.end := fun f hf =>
      start_lt_end rec.length f.loc (hfeat f hf).1.1 (hfeat f hf).1.2
    refine List.pairwise_append.2 ⟨List.pairwise_append.2 ⟨?_, ?_, ?_⟩, ?_, ?_⟩
    · exact hrecT.sublist (slice_tags_sublist _ _ _)
    · exact hrecT.sublist (collectCross_tags_sublist rd _ _ rec.features steps 0 hsteps)
    · intro a ha b hb' f1 hf1 f2 hf2 e1 e2 hloc
      exfalso
      obtain ⟨f1', hf1', ht1, hs1⟩ := fromPre a ha
      obtain ⟨f2', hf2', ht2, hbr⟩ := fromCross b hb'
      have := same f1 hf1 f1' hf1' (by rw [e1, ht1]); subst this
      have := same f2 hf2 f2' hf2' (by rw [e2, ht2]); subst this
      have := (hspan f2 hf2 hbr).1
      rw [hloc] at hs1
      omega
    · have := hrecT.sublist (slice_tags_sublist rec.features 0 rd.end)
      rw [← hposttags] at this
      exact this
    · intro a ha b hb' f1 hf1 f2 hf2 e1 e2 hloc
      exfalso
      obtain ⟨f2', hf2', ht2, hend⟩ := fromPost b hb'
      have := same f2 hf2 f2' hf2' (by rw [e2, ht2]); subst this
      rcases List.mem_append.1 ha with ha | ha
      · obtain ⟨f1', hf1', ht1, hs1⟩ := fromPre a ha
        have := same f1 hf1 f1' hf1' (by rw [e1, ht1]); subst this
        have := hlt f1 hf1
        rw [← hloc] at hend
        omega
      · obtain ⟨f1', hf1', ht1, hbr⟩ := fromCross a ha
        have := same f1 hf1 f1' hf1' (by rw [e1, ht1]); subst this
        have := (hspan f1 hf1 hbr).2
        rw [← hloc] at hend
        omega

/-- the generic argument for one kind of area -/
theorem ties_generic_cross (rd : RegionData) (rec : BioRecord) (w : Written) (h : writeToGenbank rd rec = .ok w)
    (hwf : wfInput rd rec = true) (hc : rd.crossesOrigin = true) (htagnd : (rec.features.map (·.tag)).Nodup)
    (hspan : ∀ f ∈ rec.features, bridgesOrigin f.loc = true → f.loc.start = 0 ∧ f.loc.end = rec.length)
    (type : String) (num : BioFeature → Option Int) (areas : List (Int × Loc))
    (hnd : (areas.map (·.1)).Nodup) (hshape : ∀ a ∈ areas, areaShape rec.length rd a.2 = true)
    (hlink : linkedKind type num areas rec = true)
    (hnum : ∀ g0 g, adjustFeature rd rec.length (renumbering rd rec.length) g0 = .ok g → g0.type = type →
      ∀ m, num g = some m → ∃ n, num g0 = some n ∧ dictGet (numberByPosition areas rd rec.length) n = .ok m)
    (hq : ∀ a b : BioFeature, a.q = b.q → num a = num b)
    (hall : ∀ g ∈ w.extract.features, g.type = type → ∃ m, num g = some m)
    (hasc : rec.features.Pairwise (fun f1 f2 => f1.type = type → f2.type = type →
      ∀ a b, num f1 = some a → num f2 = some b → a < b)) :
    tiesInFileOrder num (ofType type w.extract.features) = true := by
  have hgood := numberByPosition_spec areas rd rec.length hnd
  have hties := good_ties hgood
  obtain ⟨_, hrange, _⟩ := hgood
  have same : ∀ f1 ∈ rec.features, ∀ f2 ∈ rec.features, f1.tag = f2.tag → f1 = f2 :=
    fun f1 h1 f2 h2 e => nodup_map_inj (·.tag) rec.features htagnd f1 f2 h1 h2 e
  -- everything known about one written feature of the kind
  have key : ∀ g ∈ w.extract.features, g.type = type → ∀ m, num g = some m →
      ∃ f ∈ rec.features, f.tag = g.tag ∧ f.type = type ∧ ∃ n, num f = some n ∧ (n, f.loc) ∈ areas ∧
        dictGet (numberByPosition areas rd rec.length) n = .ok m ∧ loadKey g.loc = posPair rd rec.length f.loc := by
    intro g hg ht m hm
    obtain ⟨g0, ho, hadj⟩ := written_origin rd rec w h g hg
    obtain ⟨htg, hty, hloc⟩ := adjustFeature_same rd _ _ g0 g hadj
    obtain ⟨f, hf, hftag, hft, hfq, hkey⟩ := origin_source_tag rd rec hwf g0 ho
    obtain ⟨n, hn0, hd⟩ := hnum g0 g hadj (by rw [← hty]; exact ht) m hm
    obtain ⟨_, _, la, hla⟩ := hrange n m hd
    have hnf : num f = some n := by rw [← hq g0 f hfq]; exact hn0
    have hftype : f.type = type := by rw [← hft, ← hty]; exact ht
    have hl := linkedKind_loc type num areas rec hlink f hf hftype n hnf la hla
    subst hl
    exact ⟨f, hf, by rw [htg, hftag], hftype, n, hnf, hla, hd, by rw [hloc]; exact hkey (hshape _ hla)⟩
  apply ties_of_pairwise
  have hfile := cross_file_order rd rec w h hwf hc htagnd hspan _ hasc
  rw [List.pairwise_map] at hfile
  have hfilt := hfile.sublist (List.filter_sublist (p := fun g => g.type == type) (l := w.extract.features))
  obtain ⟨_, _, _, hfeat⟩ := wf_unpack rd rec hwf
  refine hfilt.imp_of_mem ?_
  intro g1 g2 hg1 hg2 hS
  simp only [ofType, List.mem_filter, beq_iff_eq] at hg1 hg2
  by_cases heq : loadKey g1.loc = loadKey g2.loc
  · right
    obtain ⟨m1, hm1⟩ := hall g1 hg1.1 hg1.2
    obtain ⟨m2, hm2⟩ := hall g2 hg2.1 hg2.2
    obtain ⟨f1, hf1, ht1, hty1, n1, hn1, ha1, hd1, hk1⟩ := key g1 hg1.1 hg1.2 m1 hm1
    obtain ⟨f2, hf2, ht2, hty2, n2, hn2, ha2, hd2, hk2⟩ := key g2 hg2.1 hg2.2 m2 hm2
    rw [hk1, hk2] at heq
    have hloc : f1.loc = f2.loc := area_posPair_inj rd rec.length f1.loc f2.loc hc (hshape _ ha1) (hshape _ ha2)
      (hfeat f1 hf1).1.2 (hfeat f2 hf2).1.2 heq
    have hlt : n1 < n2 := hS f1 hf1 f2 hf2 ht1 ht2 hloc hty1 hty2 n1 n2 hn1 hn2
    have e1 : (positionKey rd rec.length n1 f1.loc).1 = (positionKey rd rec.length n2 f2.loc).1 := by
      have := congrArg Prod.fst heq; exact this
    have e2 : (positionKey rd rec.length n1 f1.loc).2.1 = (positionKey rd rec.length n2 f2.loc).2.1 := by
      have := congrArg Prod.snd heq; exact this
    exact ⟨m1, m2, hm1, hm2, (hties n1 n2 f1.loc f2.loc m1 m2 ha1 ha2 hd1 hd2 e1 e2).2 hlt⟩
  · exact .inl heq

/-- protoclusters and subregions of a region over the origin: ties in file order -/
theorem written_ties_cross (rd : RegionData) (rec : BioRecord) (w : Written) (h : writeToGenbank rd rec = .ok w)
    (hwf : wfInput rd rec = true) (hcons : consistent rd rec = true) (hc : rd.crossesOrigin = true)
    (hP : InNumberOrder "protocluster" (·.q.protoNumber) rec.features)
    (hS : InNumberOrder "subregion" (·.q.subNumber) rec.features) :
    tiesInFileOrder (·.q.protoNumber) (ofType "protocluster" w.extract.features) = true ∧
    tiesInFileOrder (·.q.subNumber) (ofType "subregion" w.extract.features) = true := by
  obtain ⟨htags, hspan, _⟩ := consistent_unpack rd rec hcons
  have hlink : linked rd rec = true := by
    unfold consistent at hcons; simp only [Bool.and_eq_true] at hcons; exact hcons.1.1.1.1.1.1.1.1
  obtain ⟨nP, _, nS, _, _⟩ := written_selfconsistent rd rec w h hwf hcons
  have hallOf : ∀ (type : String) (num : BioFeature → Option Int),
      numberedAsLoaded num (ofType type w.extract.features) = true →
      ∀ g ∈ w.extract.features, g.type = type → ∃ m, num g = some m := by
    intro type num hn g hg ht
    unfold numberedAsLoaded at hn
    simp only [Bool.and_eq_true, List.all_eq_true] at hn
    have := hn.1.1 g (by simp only [ofType, List.mem_filter, beq_iff_eq]; exact ⟨hg, ht⟩)
    exact Option.isSome_iff_exists.1 this
  unfold linked at hlink
  simp only [Bool.and_eq_true, List.all_eq_true, List.mem_append] at hlink
  obtain ⟨⟨⟨hl1, _⟩, hl3⟩, hshape⟩ := hlink
  refine ⟨?_, ?_⟩
  · refine ties_generic_cross rd rec w h hwf hc htags hspan "protocluster" (·.q.protoNumber) (protoAreas rd) ?_
      (fun a ha => hshape a (.inl (.inl ha))) hl1 ?_ (fun a b e => by rw [e]) (hallOf _ _ nP) hP
    · unfold protoAreas; rw [List.map_map]; exact protoDict_nodup rd
    · intro g0 g hadj ht m hm
      obtain ⟨n, m', hn, hm', hd⟩ := (adjustFeature_refs rd _ g0 g hadj).2.2.1 (.inl ht)
      rw [hm'] at hm; injection hm with hm; subst hm
      exact ⟨n, hn, hd⟩
  · refine ties_generic_cross rd rec w h hwf hc htags hspan "subregion" (·.q.subNumber) (subDict rd) (subDict_nodup rd)
      (fun a ha => hshape a (.inr ha)) hl3 ?_ (fun a b e => by rw [e]) (hallOf _ _ nS) hS
    intro g0 g hadj ht m hm
    obtain ⟨n, m', hn, hm', hd⟩ := (adjustFeature_refs rd _ g0 g hadj).2.2.2 ht
    rw [hm'] at hm; injection hm with hm; subst hm
    exact ⟨n, hn, hd⟩

end ASV.RegionExtract
