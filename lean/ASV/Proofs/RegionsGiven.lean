/-
  C06 helper lemmas, part 12: `create_regions(candidate_clusters=…, subregions=…)` with explicitly passed lists
  builds its regions from exactly the given areas (an explicitly empty list is NOT replaced by the record's own
  areas), and behaves like a record that holds just those areas.
-/
import ASV.Proofs.RegionsRing
namespace ASV.Regions
open ASV ASV.Components

/-- `create_regions(candidate_clusters=cands, subregions=subs)` on a record without regions: the regions' children,
    concatenated, are a rearrangement of exactly the GIVEN areas — no area of the record that was not passed ends
    up in a region, every given area is in exactly one -/
theorem createRegionsOf_members_given {s s' : State} {cands subs : List Feat} (hreg : s.regions = [])
    (hnd : (ids (cands ++ subs)).Nodup) (h : createRegionsOf s cands subs = .ok s') :
    ((s'.regions.map memberIds).flatten).Perm (ids (cands ++ subs)) := by
  simp only [createRegionsOf] at h
  split at h
  · next hemp =>
    simp only [pure, Except.pure, Except.ok.injEq] at h
    subst h
    have h1 : cands = [] := by
      cases hc : cands with
      | nil => rfl
      | cons a b => simp [hc] at hemp
    have h2 : subs = [] := by
      cases hc : subs with
      | nil => rfl
      | cons a b => simp [hc, h1] at hemp
    simp [hreg, h1, h2, ids]
  · simp only [bind, Except.bind] at h
    split at h
    · cases h
    · next secs hsecs =>
      have hp := sectionsOf_perm hnd hsecs
      obtain ⟨f1, _⟩ := addSections_facts h
      refine f1.trans ?_
      simp only [hreg, List.map_nil, List.flatten_nil, List.nil_append]
      exact hp.map _

/-- the same for the operation as the harness drives it -/
theorem createRegionsWith_members_given {s s' : State} {cs ss : List Nat} (hreg : s.regions = [])
    (h : step s (.createRegionsWith cs ss) = .ok s') :
    ((s'.regions.map memberIds).flatten).Perm (cs ++ ss) := by
  simp only [step, bind, Except.bind] at h
  split at h
  · cases h
  · next cands hc =>
    split at h
    · cases h
    · next subs hs =>
      split at h
      · cases h
      · next hnd =>
        have hnd' : (cs ++ ss).Nodup := by simpa using hnd
        have e : ids (cands ++ subs) = cs ++ ss := by rw [ids_append, (findAll_ok hc).1, (findAll_ok hs).1]
        have := createRegionsOf_members_given hreg (by rw [e]; exact hnd') h
        rw [e] at this
        exact this

/-! `add_region(Region(…))` never looks at the record's own candidate cluster / subregion lists -/

def withAreas (c sb : List Feat) (t : State) : State := { t with cands := c, subs := sb }

theorem mkRegion_withAreas (s : State) (c sb cands subs : List Feat) :
    mkRegion (withAreas c sb s) cands subs = (mkRegion s cands subs).map (fun x => (withAreas c sb x.1, x.2)) := by
  simp only [mkRegion, bind, Except.bind, pure, Except.pure, withAreas]
  split
  · rfl
  · cases regionWrap (List.map (fun x => x.loc) (subs ++ cands)) with
    | error e => rfl
    | ok w =>
      simp only
      cases connect (List.map (fun x => x.loc) (subs ++ cands)) w with
      | error e => rfl
      | ok loc =>
        simp only
        cases collectionInitCheck loc with
        | error e => rfl
        | ok u =>
          simp only
          cases setParents s.parent { id := s.nextRid, kind := .region, loc := loc, kids := cands.map (·.id), subs := subs.map (·.id) } (subs ++ cands) with
          | error e => rfl
          | ok par => rfl

theorem addRegion_withAreas (s : State) (c sb : List Feat) (r : Feat) :
    addRegion (withAreas c sb s) r = (addRegion s r).map (withAreas c sb) := by
  have hci : checkInside (withAreas c sb s) r.loc = checkInside s r.loc := rfl
  have hreg : (withAreas c sb s).regions = s.regions := rfl
  simp only [addRegion, bind, Except.bind, hci, hreg]
  cases checkInside s r.loc with
  | error e => rfl
  | ok u =>
    simp only
    cases regionIndex r 0 s.regions with
    | error e => rfl
    | ok i => rfl

theorem addSections_withAreas (c sb : List Feat) (secs : List Sec) (s : State) :
    addSections (withAreas c sb s) secs = (addSections s secs).map (withAreas c sb) := by
  induction secs generalizing s with
  | nil => rfl
  | cons sec secs ih =>
    obtain ⟨l, areas⟩ := sec
    rw [addSections_cons', addSections_cons', mkRegion_withAreas]
    cases mkRegion s (areas.filter (·.kind == .cand)) (areas.filter (·.kind != .cand)) with
    | error e => rfl
    | ok v =>
      simp only [Except.map, bind, Except.bind]
      rw [addRegion_withAreas]
      cases addRegion v.1 v.2 with
      | error e => rfl
      | ok s2 =>
        simp only [Except.map]
        exact ih s2

/-- explicit lists behave exactly like a record holding just those areas -/
theorem createRegionsOf_eq (s : State) (cands subs : List Feat) :
    (createRegionsOf s cands subs).map (withAreas cands subs) = createRegions (withAreas cands subs s) := by
  have hw : State.wrap (withAreas cands subs s) = s.wrap := rfl
  have hc : (withAreas cands subs s).cands = cands := rfl
  have hs : (withAreas cands subs s).subs = subs := rfl
  unfold createRegions createRegionsOf
  rw [hw, hc, hs]
  by_cases hemp : (cands.isEmpty && subs.isEmpty) = true
  · rw [if_pos hemp, if_pos hemp]; rfl
  · rw [if_neg hemp, if_neg hemp]
    cases sectionsOf s.wrap cands subs with
    | error e => rfl
    | ok secs =>
      simp only [bind, Except.bind]
      rw [addSections_withAreas]

/-- **`create_regions(candidate_clusters=cands, subregions=subs)`** on a region-less record, linear or circular,
    whose GIVEN areas are non-empty single spans inside the record: it succeeds and the regions are exactly the
    connected components of the given areas — whatever other candidate clusters and subregions the record
    holds (they are in `s.cands` / `s.subs` and play no part) -/
theorem createRegionsOf_components (s : State) (cands subs : List Feat) (hreg : s.regions = [])
    (hareas : ∀ f ∈ cands ++ subs, LineArea s.len f.loc) :
    ∃ (s' : State) (groups : List (List Feat)), createRegionsOf s cands subs = .ok s' ∧
      IsComponents ((cands ++ subs).map toArea) (groups.map (·.map toArea)) ∧
      s'.regions.map view = groups.map expectedRegion ∧
      s'.regions.Pairwise (fun r r' => ¬ r.loc.SharesBase r'.loc) := by
  have hok : NoSpanOK (withAreas cands subs s) := ⟨hareas, hreg⟩
  obtain ⟨t', groups, h1, _, _, _, h5, h6, h7⟩ := createRegions_linear_components (withAreas cands subs s) hok
  rw [← createRegionsOf_eq] at h1
  cases hcr : createRegionsOf s cands subs with
  | error e => rw [hcr] at h1; cases h1
  | ok s' =>
    rw [hcr] at h1
    simp only [Except.map, Except.ok.injEq] at h1
    have hr : s'.regions = t'.regions := by rw [← h1]; rfl
    exact ⟨s', groups, rfl, h5, by rw [hr]; exact h6, by rw [hr]; exact h7⟩

end ASV.Regions
