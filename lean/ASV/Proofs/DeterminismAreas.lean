/-
  C17 helper lemmas for area formation: `_sorted_protoclusters` is a function of the multiset it is
  given (tie key separating the members), hence so is candidate formation; the final loop of
  formation does not depend on how the `singles` set iterates.
-/
import ASV.Proofs.Members
import ASV.Proofs.RegionsSort
import ASV.Proofs.RegionsRingOrder
import ASV.Model.DeterminismAreas
import ASV.Spec.Determinism
set_option linter.unusedSectionVars false
set_option linter.unusedVariables false
namespace ASV.Determinism
open ASV.CC

/-! ### C05's stable insertion sort with a strict linear key order -/

/-- a strict linear order on keys, as a Boolean `<` -/
structure StrictLinear {κ : Type} (ltK : κ → κ → Bool) : Prop where
  irrefl : ∀ a, ltK a a = false
  trans : ∀ a b c, ltK a b = true → ltK b c = true → ltK a c = true
  tri : ∀ a b, ltK a b = true ∨ a = b ∨ ltK b a = true

variable {α κ : Type} [DecidableEq α] {ltK : κ → κ → Bool}

theorem StrictLinear.asymm (h : StrictLinear ltK) {a b : κ} (hab : ltK a b = true) : ltK b a = false := by
  cases hba : ltK b a with
  | false => rfl
  | true => have := h.trans a b a hab hba; rw [h.irrefl] at this; cases this

/-- `¬ b < a` and `¬ c < b` give `¬ c < a` -/
theorem StrictLinear.le_trans (h : StrictLinear ltK) {a b c : κ} (hab : ltK b a = false) (hbc : ltK c b = false) :
    ltK c a = false := by
  rcases h.tri a b with h1 | h1 | h1
  · rcases h.tri b c with h2 | h2 | h2
    · exact h.asymm (h.trans a b c h1 h2)
    · subst h2; exact h.asymm h1
    · rw [hbc] at h2; cases h2
  · subst h1; exact hbc
  · rw [hab] at h1; cases h1

theorem ccInsertBy_sorted (key : α → κ) (h : StrictLinear ltK) (x : α) : ∀ l : List α,
    l.Pairwise (fun a b => ltK (key b) (key a) = false) →
    (CC.insertBy (fun a b => ltK (key a) (key b)) x l).Pairwise (fun a b => ltK (key b) (key a) = false)
  | [], _ => by simp [CC.insertBy]
  | y :: ys, hs => by
    rw [List.pairwise_cons] at hs
    simp only [CC.insertBy]
    split
    · rename_i hyx
      refine List.pairwise_cons.2 ⟨?_, ccInsertBy_sorted key h x ys hs.2⟩
      intro z hz
      rcases (mem_insertBy _ x z ys).1 hz with rfl | hz
      · exact h.asymm hyx
      · exact hs.1 z hz
    · rename_i hyx
      have hyx' : ltK (key y) (key x) = false := by simpa using hyx
      refine List.pairwise_cons.2 ⟨?_, List.pairwise_cons.2 hs⟩
      intro z hz
      rcases List.mem_cons.1 hz with rfl | hz
      · exact hyx'
      · exact h.le_trans hyx' (hs.1 z hz)

theorem ccSortBy_sorted (key : α → κ) (h : StrictLinear ltK) : ∀ l : List α,
    (CC.sortBy (fun a b => ltK (key a) (key b)) l).Pairwise (fun a b => ltK (key b) (key a) = false)
  | [] => by simp [CC.sortBy]
  | x :: xs => by
    have := ccSortBy_sorted key h xs
    simp only [CC.sortBy, List.foldr_cons] at this ⊢
    exact ccInsertBy_sorted key h x _ this

/-- `sorted(container, key)` in C05's model is one list for all enumerations when the key separates
    the members -/
theorem ccSortBy_eq_of_perm (key : α → κ) (h : StrictLinear ltK) {l₁ l₂ : List α}
    (inj : ∀ a ∈ l₁, ∀ b ∈ l₁, key a = key b → a = b) (hp : l₁.Perm l₂) :
    CC.sortBy (fun a b => ltK (key a) (key b)) l₁ = CC.sortBy (fun a b => ltK (key a) (key b)) l₂ := by
  apply List.Perm.eq_of_pairwise (le := fun a b => ltK (key b) (key a) = false)
  · intro a b ha hb hab hba
    have ha' : a ∈ l₁ := (mem_sortBy _ a l₁).1 ha
    have hb' : b ∈ l₁ := hp.mem_iff.2 ((mem_sortBy _ b l₂).1 hb)
    rcases h.tri (key a) (key b) with h1 | h1 | h1
    · rw [hba] at h1; cases h1
    · exact inj a ha' b hb' h1
    · rw [hab] at h1; cases h1
  · exact ccSortBy_sorted key h l₁
  · exact ccSortBy_sorted key h l₂
  · exact (perm_sortBy _ l₁).trans (hp.trans (perm_sortBy _ l₂).symm)

/-! ### the tie key of `_sorted_protoclusters` -/

/-- `(cluster.product, core_location.start, core_location.end)` -/
def tieKey (p : Proto) : String × Int × Int := (p.product, p.core.start, p.core.end)

def tieKeyLt (a b : String × Int × Int) : Bool :=
  decide (a.1 < b.1) || (a.1 == b.1 &&
    (decide (a.2.1 < b.2.1) || (a.2.1 == b.2.1 && decide (a.2.2 < b.2.2))))

theorem tieLt_eq : tieLt = fun a b => tieKeyLt (tieKey a) (tieKey b) := rfl

theorem tieKeyLt_linear : StrictLinear tieKeyLt where
  irrefl := by
    intro ⟨s, x, y⟩
    simp [tieKeyLt, String.lt_irrefl]
  trans := by
    intro ⟨s1, x1, y1⟩ ⟨s2, x2, y2⟩ ⟨s3, x3, y3⟩
    simp only [tieKeyLt, Bool.or_eq_true, Bool.and_eq_true, decide_eq_true_eq, beq_iff_eq]
    intro h1 h2
    rcases h1 with h1 | ⟨rfl, h1⟩
    · rcases h2 with h2 | ⟨rfl, h2⟩
      · exact Or.inl (String.lt_trans h1 h2)
      · exact Or.inl h1
    · rcases h2 with h2 | ⟨rfl, h2⟩
      · exact Or.inl h2
      · right; refine ⟨rfl, ?_⟩; omega
  tri := by
    intro ⟨s1, x1, y1⟩ ⟨s2, x2, y2⟩
    simp only [tieKeyLt, Bool.or_eq_true, Bool.and_eq_true, decide_eq_true_eq, beq_iff_eq, Prod.mk.injEq]
    rcases Std.lt_trichotomy s1 s2 with h | rfl | h
    · exact Or.inl (Or.inl h)
    · have : x1 < x2 ∨ (x1 = x2 ∧ y1 < y2) ∨ (x1 = x2 ∧ y1 = y2) ∨ x2 < x1 ∨ (x2 = x1 ∧ y2 < y1) := by omega
      rcases this with h | h | h | h | h
      · exact Or.inl (Or.inr ⟨rfl, Or.inl h⟩)
      · exact Or.inl (Or.inr ⟨rfl, Or.inr h⟩)
      · exact Or.inr (Or.inl ⟨rfl, h⟩)
      · exact Or.inr (Or.inr (Or.inr ⟨rfl, Or.inl h⟩))
      · exact Or.inr (Or.inr (Or.inr ⟨rfl, Or.inr h⟩))
    · exact Or.inr (Or.inr (Or.inl h))

/-- no two different protoclusters of the container agree on product and core coordinates -/
def TieInj (l : List Proto) : Prop := ∀ a ∈ l, ∀ b ∈ l, tieKey a = tieKey b → a = b

theorem TieInj.subset {l m : List Proto} (h : TieInj m) (hs : ∀ x, x ∈ l → x ∈ m) : TieInj l :=
  fun a ha b hb e => h a (hs a ha) b (hs b hb) e

theorem sortProtos_eq_of_perm {l₁ l₂ : List Proto} (inj : TieInj l₁) (hp : l₁.Perm l₂) :
    sortProtos l₁ = sortProtos l₂ := by
  simp only [sortProtos, tieLt_eq, ccSortBy_eq_of_perm tieKey tieKeyLt_linear inj hp]

/-! ### formation is a function of the multiset of protoclusters -/

theorem formationCore_is_sorted_singles : formationCoreWith singlesOrder = formationCore := rfl

theorem formation_is_sorted_singles : formationWith singlesOrder = formation := rfl

theorem formation_eq_of_perm {ps qs : List Proto} (wrap : Option Int) (inj : TieInj ps) (hp : ps.Perm qs) :
    formation ps wrap = formation qs wrap := by
  have h1 : sortProtos ps = sortProtos qs := sortProtos_eq_of_perm inj hp
  have h2 : ps.length = qs.length := hp.length_eq
  have h3 : ps.isEmpty = qs.isEmpty := by
    cases ps with
    | nil => rw [hp.symm.eq_nil]
    | cons a t =>
      cases qs with
      | nil => exact absurd hp.eq_nil (by simp)
      | cons b u => rfl
  unfold formation formationCore
  rw [h1, h2, h3]

/-! ### the final loop: the iteration order of the `singles` set does not matter -/

/-- two final-loop orders that agree on every (unassigned, singles) pair drawn from the input give
    the same candidates -/
theorem formationCoreWith_congr {f₁ f₂ : List Proto → List Proto → List Proto} {ps : List Proto} (wrap : Option Int)
    (hn : ps.Nodup)
    (hf : ∀ un2 s, (∀ p, p ∈ un2 → p ∈ ps) → (∀ p, p ∈ s → p ∈ ps) → f₁ un2 s = f₂ un2 s) :
    formationCoreWith f₁ ps wrap = formationCoreWith f₂ ps wrap := by
  unfold formationCoreWith
  by_cases hE : ps.isEmpty = true
  · simp only [hE, if_true]
  · simp only [hE]
    cases hH : findHybrids (sortProtos ps) wrap with
    | error e => rfl
    | ok v =>
      obtain ⟨hgroups, un1⟩ := v
      simp only
      cases hB1 : buildCandidates wrap .hybrid ⟨[], []⟩ hgroups with
      | error e => rfl
      | ok t1 =>
        simp only
        cases hI : findInterleaved un1 (sortCands t1.values) wrap with
        | error e => rfl
        | ok w =>
          obtain ⟨igroups, un2⟩ := w
          simp only
          cases hB2 : buildCandidates wrap .interleaved t1 igroups with
          | error e => rfl
          | ok t2 =>
            simp only
            cases hB3 : buildCandidates wrap .neighbouring t2 (findNeighbouring un2 (sortCands t2.values)) with
            | error e => rfl
            | ok t3 =>
              simp only
              have hun0 : (sortProtos ps).Nodup := nodup_sortProtos hn
              have hps0 : ∀ p, p ∈ sortProtos ps → p ∈ ps := fun p hp => mem_sortProtos.1 hp
              obtain ⟨hH1, hH2, hH3⟩ := findHybrids_wf hH hun0
              have ht0 : TableWF wrap ps ⟨[], []⟩ := ⟨fun c hc => by simp [Table.values] at hc, fun p hp => by cases hp⟩
              have ht1 : TableWF wrap ps t1 := buildCandidates_wf hB1 (by decide)
                (fun g hg => ⟨(hH1 g hg).1, fun p hp => hps0 p ((hH1 g hg).2.2 p hp)⟩) ht0
              have hbig1 : ∀ c, c ∈ sortCands t1.values → CandBig c := fun c hc =>
                ⟨(ht1.1 c (mem_sortCands.1 hc)).nodup, (ht1.1 c (mem_sortCands.1 hc)).big⟩
              obtain ⟨hI1, hI2, hI3⟩ := findInterleaved_wf hI hH2 hbig1
              have ht2 : TableWF wrap ps t2 := buildCandidates_wf hB2 (by decide)
                (fun g hg => ⟨(hI1 g hg).1, fun p hp => by
                  rcases (hI1 g hg).2.2 p hp with h1 | ⟨c, hc, hpc⟩
                  · exact hps0 p (hH3 p h1)
                  · exact (ht1.1 c (mem_sortCands.1 hc)).fromInput p hpc⟩) ht1
              have hbig2 : ∀ c, c ∈ sortCands t2.values → CandBig c := fun c hc =>
                ⟨(ht2.1 c (mem_sortCands.1 hc)).nodup, (ht2.1 c (mem_sortCands.1 hc)).big⟩
              have hN := findNeighbouring_wf hI2 hbig2
              have ht3 : TableWF wrap ps t3 := buildCandidates_wf hB3 (by decide)
                (fun g hg => ⟨(hN g hg).1, fun p hp => by
                  rcases (hN g hg).2.2 p hp with h1 | ⟨c, hc, hpc⟩
                  · exact hps0 p (hH3 p (hI3 p h1))
                  · exact (ht2.1 c (mem_sortCands.1 hc)).fromInput p hpc⟩) ht2
              rw [hf un2 t3.singles (fun p hp => hps0 p (hH3 p (hI3 p hp))) ht3.2]

theorem formationWith_congr {f₁ f₂ : List Proto → List Proto → List Proto} {ps : List Proto} (wrap : Option Int)
    (hn : ps.Nodup)
    (hf : ∀ un2 s, (∀ p, p ∈ un2 → p ∈ ps) → (∀ p, p ∈ s → p ∈ ps) → f₁ un2 s = f₂ un2 s) :
    formationWith f₁ ps wrap = formationWith f₂ ps wrap := by
  simp only [formationWith, formationCoreWith_congr wrap hn hf]

/-- `enum` iterates a set of protoclusters in some order -/
def EnumeratesProtos (enum : List Proto → List Proto) : Prop := ∀ s, (enum s).Perm s

theorem singlesOrder_eq_of_perm {un2 s₁ s₂ : List Proto} (inj : TieInj (un2 ++ s₁)) (hp : s₁.Perm s₂) :
    singlesOrder un2 s₁ = singlesOrder un2 s₂ := by
  unfold singlesOrder
  apply sortProtos_eq_of_perm
  · exact inj.subset (fun x hx => mem_dedup.1 hx)
  · apply (List.perm_ext_iff_of_nodup (nodup_dedup _) (nodup_dedup _)).2
    intro x
    simp only [mem_dedup, List.mem_append, hp.mem_iff]

theorem formationE_eq {e₁ e₂ : List Proto → List Proto} (h₁ : EnumeratesProtos e₁) (h₂ : EnumeratesProtos e₂)
    {ps : List Proto} (wrap : Option Int) (hn : ps.Nodup) (inj : TieInj ps) :
    formationE e₁ ps wrap = formationE e₂ ps wrap := by
  apply formationWith_congr wrap hn
  intro un2 s hu hs
  apply singlesOrder_eq_of_perm
  · apply inj.subset
    intro x hx
    rcases List.mem_append.1 hx with h | h
    · exact hu x h
    · exact hs x ((h₁ s).mem_iff.1 h)
  · exact (h₁ s).trans (h₂ s).symm

theorem formationE_id : formationE id = formation := rfl

/-! ### `create_regions`: the merge over the origin is a list operation, the sort a function of the multiset -/
section regions
open ASV.Regions

theorem appendNew_prefix (first last : List Feat) : ∃ t, appendNew first last = first ++ t := by
  unfold appendNew
  induction last generalizing first with
  | nil => exact ⟨[], by simp⟩
  | cons a rest ih =>
    simp only [List.foldl_cons]
    split
    · exact ih first
    · obtain ⟨t, ht⟩ := ih (first ++ [a])
      exact ⟨a :: t, by rw [ht]; simp⟩

/-- the code appends the new areas in the order of `last_areas` -/
theorem appendNew_is_list_order (first last : List Feat) : appendNewE id first last = appendNew first last := by
  obtain ⟨t, ht⟩ := appendNew_prefix first last
  simp only [appendNewE, newAreas, id, ht, List.drop_left]

theorem mergeFirstLast_is_list_order (wrap : Option Int) : ∀ (fuel : Nat) (secs : List Sec),
    mergeFirstLastE id wrap fuel secs = mergeFirstLast wrap fuel secs
  | 0, _ => rfl
  | fuel + 1, secs => by
    unfold mergeFirstLastE mergeFirstLast
    match secs with
    | first :: second :: more =>
      simp only
      cases hl : (second :: more).getLast? with
      | none => rfl
      | some last =>
        simp only
        by_cases ho : (!locationsOverlap first.1 last.1) = true
        · simp only [ho, if_true]
        · simp only [ho, appendNew_is_list_order, bind, Except.bind]
          cases connect [first.1, last.1] wrap with
          | error e => rfl
          | ok loc => exact mergeFirstLast_is_list_order wrap fuel _
    | [] => rfl
    | [_] => rfl

theorem sectionsOf_is_list_order (wrap : Option Int) (cands subs : List Feat) :
    sectionsOfE id wrap cands subs = sectionsOf wrap cands subs := by
  simp only [sectionsOfE, sectionsOf, mergeFirstLast_is_list_order]
  rfl

/-- uniqueness of the sorted area list: a comparison that is the strict order of a key separating
    the areas -/
theorem sortP_eq_of_perm {key : Feat → Int × Int} {lt : Feat → Feat → Bool} (hk : KeyOrder key lt) {l₁ l₂ : List Feat}
    (inj : ∀ a ∈ l₁, ∀ b ∈ l₁, key a = key b → a = b) (hp : l₁.Perm l₂) : sortP lt l₁ = sortP lt l₂ := by
  apply List.Perm.eq_of_pairwise (le := fun a b => keyLt (key b) (key a) = false)
  · intro a b ha hb hab hba
    have ha' : a ∈ l₁ := (sortP_perm lt l₁).mem_iff.1 ha
    have hb' : b ∈ l₁ := hp.mem_iff.2 ((sortP_perm lt l₂).mem_iff.1 hb)
    apply inj a ha' b hb'
    rw [keyLt_false_iff] at hab hba
    apply Prod.ext <;> omega
  · exact sortP_sorted hk l₁
  · exact sortP_sorted hk l₂
  · exact (sortP_perm lt l₁).trans (hp.trans (sortP_perm lt l₂).symm)

/-- `CDSCollection.__lt__` restricted to the areas of `l` is the strict order of the key, and the key
    separates them -/
structure SeparatingKey (key : Feat → Int × Int) (l : List Feat) : Prop where
  agrees : ∀ x ∈ l, ∀ y ∈ l, collectionLt y.loc x.loc = .ok (keyLt (key y) (key x))
  inj : ∀ a ∈ l, ∀ b ∈ l, key a = key b → a = b

theorem sortAreas_eq_of_perm {key : Feat → Int × Int} {l₁ l₂ : List Feat} (h : SeparatingKey key l₁) (hp : l₁.Perm l₂) :
    sortAreas l₁ = sortAreas l₂ := by
  have hk : KeyOrder key (fun a b => keyLt (key a) (key b)) := fun _ _ => rfl
  rw [sortAreas_eq (fun a b => keyLt (key a) (key b)) l₁ h.agrees,
    sortAreas_eq (fun a b => keyLt (key a) (key b)) l₂
      (fun x hx y hy => h.agrees x (hp.mem_iff.2 hx) y (hp.mem_iff.2 hy)),
    sortP_eq_of_perm hk h.inj hp]

theorem sectionsOfE_eq_of_perm (enum : List Feat → List Feat) (wrap : Option Int) {key : Feat → Int × Int}
    {c₁ s₁ c₂ s₂ : List Feat} (h : SeparatingKey key (c₁ ++ s₁)) (hp : (c₁ ++ s₁).Perm (c₂ ++ s₂)) :
    sectionsOfE enum wrap c₁ s₁ = sectionsOfE enum wrap c₂ s₂ := by
  simp only [sectionsOfE, sortAreas_eq_of_perm h hp]

/-- on a linear record `(start, −length)` is such a key as soon as no two areas have the same
    coordinates -/
theorem separatingKey_line {len : Int} {l : List Feat} (hl : ∀ a ∈ l, LineArea len a.loc)
    (hd : ∀ a ∈ l, ∀ b ∈ l, lineKey a.loc = lineKey b.loc → a = b) : SeparatingKey (fun a => lineKey a.loc) l :=
  ⟨fun x hx y hy => collectionLt_line (hl y hy) (hl x hx), hd⟩

/-- on a circular record (C06's `collectionLt_ring`): well-formed areas — single parts inside the record or
    origin-spanning two-part areas —, none of them a single part covering the whole record, no two with the same
    (first base going round from the origin, length) -/
theorem separatingKey_ring {L : Int} {l : List Feat} (hl : ∀ a ∈ l, RingArea L a.loc)
    (hfull : ∀ a ∈ l, ∀ p, a.loc = .simple p → ¬ (p.lo = 0 ∧ p.hi = L))
    (hd : ∀ a ∈ l, ∀ b ∈ l, ringKey L a.loc = ringKey L b.loc → a = b) : SeparatingKey (fun a => ringKey L a.loc) l :=
  ⟨fun x hx y hy => collectionLt_ring (hl y hy) (hl x hx) (hfull y hy), hd⟩

end regions

end ASV.Determinism
