/-
  C16 helper lemmas: option handling around the identifier sanitisation (`checking_required`,
  `--limit-to-record`) and `Record.has_name`.
-/
import ASV.Proofs.IdsMain
namespace ASV.Ids

theorem countP_le_one_of_nodup {t : Str} : ∀ {l : List Rec}, (l.map (·.id)).Nodup → l.countP (·.id == t) ≤ 1
  | [], _ => by simp
  | r :: rs, h => by
    simp only [List.map_cons, List.nodup_cons] at h
    have ih := countP_le_one_of_nodup (t := t) h.2
    by_cases hr : r.id = t
    · have hz : rs.countP (·.id == t) = 0 := by
        rw [List.countP_eq_zero]
        intro x hx hxt
        have : x.id = t := by simpa using hxt
        exact h.1 (hr ▸ this ▸ List.mem_map.mpr ⟨x, hx, rfl⟩)
      simp [hr, hz]
    · have : (r.id == t) = false := by simpa using hr
      simp only [List.countP_cons, this]
      simpa using ih

theorem filterByName_ok {recs : List Rec} {t : Str} {skips : List Bool} (h : filterByName recs t = .ok skips) :
    (t = [] → skips = recs.map fun _ => false) ∧
    (t ≠ [] → skips = recs.map (fun r => r.id != t) ∧ 1 ≤ recs.countP (·.id == t)) := by
  unfold filterByName at h
  split at h
  · rename_i ht
    have : t = [] := by simpa using ht
    simp only [Except.ok.injEq] at h
    exact ⟨fun _ => h.symm, fun hne => absurd this hne⟩
  · rename_i ht
    have hne : t ≠ [] := by simpa using ht
    split at h
    · simp at h
    · rename_i hc
      simp only [Except.ok.injEq] at h
      refine ⟨fun he => absurd he hne, fun _ => ⟨h.symm, ?_⟩⟩
      have : recs.countP (·.id == t) ≠ 0 := by simpa using hc
      omega

theorem filterByName_err {recs : List Rec} {t : Str} {e : Err} (h : filterByName recs t = .error e) :
    e = .noMatch ∧ t ≠ [] ∧ ∀ r ∈ recs, r.id ≠ t := by
  unfold filterByName at h
  split at h
  · simp at h
  · rename_i ht
    split at h
    · rename_i hc
      simp only [Except.error.injEq] at h
      refine ⟨h.symm, by simpa using ht, ?_⟩
      have : recs.countP (·.id == t) = 0 := by simpa using hc
      rw [List.countP_eq_zero] at this
      intro r hr heq
      exact this r hr (by simp [heq])
    · simp at h

theorem hasName_of_remembers {r : Rec} {i : Str} (h : r.orig = if r.id = i then none else some i) :
    hasName r i = true ∧ ∀ t, hasName r t = true → t = r.id ∨ t = i := by
  unfold hasName
  by_cases he : r.id = i
  · rw [if_pos he] at h
    refine ⟨by simp [he], fun t ht => ?_⟩
    rw [h] at ht
    by_cases hti : t = r.id
    · exact Or.inl hti
    · simp [hti] at ht
  · rw [if_neg he] at h
    refine ⟨by simp [h], fun t ht => ?_⟩
    rw [h] at ht
    by_cases hti : t = r.id
    · exact Or.inl hti
    · simp [hti] at ht
      exact Or.inr ht

end ASV.Ids
