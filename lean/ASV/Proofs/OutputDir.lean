/-
  Helper lemmas for C20, part 2: `prepare_output_directory`, the region-file pattern, and the tail
  of `_run_antismash`.
-/
import ASV.Proofs.WriteSafety
namespace ASV.WriteSafety

/-! ### the acceptance test -/

theorem ignorePatterns_eq (l : Option String) (e : Entry) : ignorePatterns l e = !allowed l e := by
  unfold ignorePatterns allowed
  by_cases h1 : (e.name == "input" && e.isDir) = true <;> by_cases h2 : (l == some e.name) = true <;>
    simp [h1, h2]

theorem others_empty_iff (l : Option String) (es : Dir) :
    (es.filter (ignorePatterns l)).isEmpty = es.all (allowed l) := by
  induction es with
  | nil => rfl
  | cons e es ih =>
    simp only [List.filter_cons, List.all_cons, ignorePatterns_eq]
    cases allowed l e <;> simp [← ih]

theorem prepare_dir (p : PrepIn) (es : Dir) (ht : p.target = .dir es) :
    prepareOutputDir p =
      if reuseMode p || es.all (allowed p.logName) then
        ⟨(es.filter fun e => isRegionGbk e.name).map (fun e => .remove e.name), none,
         .dir (es.filter fun e => !isRegionGbk e.name)⟩
      else ⟨[], some inputError, .dir es⟩ := by
  simp only [prepareOutputDir, ht, others_empty_iff]
  cases reuseMode p <;> cases es.all (allowed p.logName) <;> simp

theorem prepare_accepts_iff (p : PrepIn) : (prepareOutputDir p).err = none ↔ specAccepts p = true := by
  cases ht : p.target with
  | absent => simp [prepareOutputDir, specAccepts, ht]
  | file => simp [prepareOutputDir, specAccepts, ht]
  | dir es =>
    rw [prepare_dir p es ht]
    simp only [specAccepts, ht]
    cases reuseMode p || es.all (allowed p.logName) <;> simp

theorem prepare_refused (p : PrepIn) (h : specAccepts p = false) :
    prepareOutputDir p = ⟨[], some inputError, p.target⟩ := by
  cases ht : p.target with
  | absent => simp [specAccepts, ht] at h
  | file => simp [prepareOutputDir, ht]
  | dir es =>
    rw [prepare_dir p es ht]
    simp only [specAccepts, ht] at h
    simp [h]

theorem prepare_accepted (p : PrepIn) (h : specAccepts p = true) :
    (prepareOutputDir p).err = none ∧ (prepareOutputDir p).target = .dir (preparedDir p) ∧
      ∀ ev ∈ (prepareOutputDir p).trace, ev = .mkdir ∨ ∃ n, ev = .remove n := by
  cases ht : p.target with
  | absent => simp [prepareOutputDir, preparedDir, ht]
  | file => simp [specAccepts, ht] at h
  | dir es =>
    rw [prepare_dir p es ht]
    simp only [specAccepts, ht] at h
    simp only [h, if_true, preparedDir, ht, true_and]
    intro ev hev
    simp only [List.mem_map] at hev
    obtain ⟨e, _, rfl⟩ := hev
    exact Or.inr ⟨e.name, rfl⟩

theorem prepare_meets_spec (p : PrepIn) : specPrepare p (prepareOutputDir p) = true := by
  unfold specPrepare
  cases ha : specAccepts p with
  | false =>
    rw [prepare_refused p ha]
    simp [refusedUntouched]
  | true =>
    simp only [if_true]
    cases ht : p.target with
    | absent => simp [acceptedCleanup, prepareOutputDir, ht]
    | file => simp [specAccepts, ht] at ha
    | dir es =>
      simp only [specAccepts, ht] at ha
      rw [prepare_dir p es ht]
      simp [acceptedCleanup, ht, ha]

/-! ### the region-file pattern -/

theorem isRegionGbk_iff (n : String) : isRegionGbk n = true ↔ RegionGbkName n := by
  unfold isRegionGbk RegionGbkName
  generalize n.toList = cs
  simp only [Bool.and_eq_true, Bool.not_eq_true', beq_eq_false_iff_ne, decide_eq_true_eq, beq_iff_eq, ne_eq]
  constructor
  · rintro ⟨⟨⟨hh, hk⟩, h7⟩, h4⟩
    refine ⟨hh, cs.take (cs.length - 14), (cs.drop (cs.length - 7)).take 3, ?_, ?_⟩
    · have e1 : cs = cs.take (cs.length - 14) ++ cs.drop (cs.length - 14) := (List.take_append_drop _ _).symm
      have e2 : cs.drop (cs.length - 14) =
          (cs.drop (cs.length - 14)).take 7 ++ (cs.drop (cs.length - 14)).drop 7 :=
        (List.take_append_drop _ _).symm
      have e3 : (cs.drop (cs.length - 14)).drop 7 = cs.drop (cs.length - 7) := by
        rw [List.drop_drop]; congr 1; omega
      have e4 : cs.drop (cs.length - 7) = (cs.drop (cs.length - 7)).take 3 ++ (cs.drop (cs.length - 7)).drop 3 :=
        (List.take_append_drop _ _).symm
      have e5 : (cs.drop (cs.length - 7)).drop 3 = cs.drop (cs.length - 4) := by
        rw [List.drop_drop]; congr 1; omega
      rw [e3, h7] at e2
      rw [e5, h4] at e4
      rw [e4] at e2
      conv => lhs; rw [e1, e2]
      simp [List.append_assoc]
    · simp only [List.length_take, List.length_drop]
      omega
  · rintro ⟨hh, pre, mid, rfl, hm⟩
    have hl : (pre ++ ".region".toList ++ mid ++ ".gbk".toList).length = pre.length + 14 := by
      simp [hm]
    refine ⟨⟨⟨hh, by omega⟩, ?_⟩, ?_⟩
    · rw [hl]
      have : pre.length + 14 - 14 = pre.length := by omega
      rw [this]
      simp [List.append_assoc]
    · rw [hl]
      have : pre.length + 14 - 4 = (pre ++ ".region".toList ++ mid).length := by simp [hm]
      rw [this, List.drop_left]


/-! ### the tail of `_run_antismash` -/

theorem dropWhile_prefix {α} (q : α → Bool) (a b : List α) (h : ∀ x ∈ a, q x = true) :
    (a ++ b).dropWhile q = b.dropWhile q := by
  induction a with
  | nil => rfl
  | cons x a ih =>
    have hx := h x (List.mem_cons_self ..)
    simp only [List.cons_append, List.dropWhile_cons, hx, if_true]
    exact ih fun y hy => h y (List.mem_cons_of_mem _ hy)

theorem pipeline_refused (p : PipeIn) (h : specAccepts p.prep = false) :
    runPipeline p = ⟨[], some inputError, p.prep.target⟩ := by
  simp [runPipeline, prepare_refused p.prep h]

theorem pipeline_fault (p : PipeIn) (ha : specAccepts p.prep = true) (hf : p.results.hasFault = true) :
    ∃ e, runPipeline p =
      ⟨(prepareOutputDir p.prep).trace ++
        .prepared :: (writeToFile p.results (.path p.jsonName) (preparedDir p.prep)).trace,
       some e, .dir (preparedDir p.prep)⟩ := by
  obtain ⟨h1, h2, _⟩ := prepare_accepted p.prep ha
  obtain ⟨w1, w2, _⟩ := writeToFile_fault p.results (.path p.jsonName) (preparedDir p.prep) hf
  obtain ⟨e, he⟩ := Option.isSome_iff_exists.1 w1
  exact ⟨e, by simp [runPipeline, h1, h2, he, w2]⟩

theorem pipeline_clean (p : PipeIn) (ha : specAccepts p.prep = true) (hf : p.results.hasFault = false) :
    runPipeline p =
      ⟨(prepareOutputDir p.prep).trace ++
        .prepared :: (convertRecords 0 p.results.records p.results.results).trace ++
          [.openW p.jsonName, .write p.jsonName, .annotated, .outputsWritten],
       none, .dir ((preparedDir p.prep).withFile p.jsonName (expectedFull p.results))⟩ := by
  obtain ⟨h1, h2, _⟩ := prepare_accepted p.prep ha
  have hw := writeToFile_clean p.results (.path p.jsonName) (preparedDir p.prep) hf
  simp [runPipeline, h1, h2, hw, emit, expectedAfter]


/-- everything that happens in an accepted run before `write_to_file` opens the results file (or
    fails): directory clean-up, the stage marker, conversions, an error log -/
theorem pipeline_prefix_events (p : PipeIn) (ha : specAccepts p.prep = true) (tr : List Ev)
    (htr : ∀ ev ∈ tr, ev.isConversion = true ∨ ev = .logErr) :
    ∀ ev ∈ (prepareOutputDir p.prep).trace ++ Ev.prepared :: tr,
      ev ≠ .annotated ∧ ev ≠ .outputsWritten ∧ (∀ n, ev ≠ .openW n) ∧ (∀ n, ev ≠ .write n) := by
  obtain ⟨_, _, hp⟩ := prepare_accepted p.prep ha
  intro ev hev
  simp only [List.mem_append, List.mem_cons] at hev
  rcases hev with hev | rfl | hev
  · rcases hp _ hev with rfl | ⟨n, rfl⟩ <;> simp
  · simp
  · rcases htr _ hev with h1 | rfl
    · cases ev <;> simp_all [Ev.isConversion]
    · simp

/-! ### fault plans -/

theorem setFault_faulty (f : ModSpec) (hf : f.faulty = true) :
    ∀ (m : ModDict) (j : Nat), j < m.length → dictFaulty (setFault m j f) = true
  | [], _, h => by simp at h
  | (k, s) :: rest, 0, _ => by simp [setFault, dictFaulty_cons, hf]
  | (k, s) :: rest, j + 1, h => by
      have := setFault_faulty f hf rest j (by simpa using h)
      simp [setFault, dictFaulty_cons, this]

theorem injectAt_fault (f : ModSpec) (hf : f.faulty = true) :
    ∀ (rs : List RecSpec) (ress : List ModDict) (i j : Nat) (_ : i < rs.length) (hi : i < ress.length),
      j < ress[i].length → conversionFault rs (injectAt ress i j f) = true
  | [], _, _, _, h, _, _ => by simp at h
  | _ :: _, [], _, _, _, h, _ => by simp at h
  | r :: rs, m :: ms, 0, j, _, _, hj => by
      simp only [injectAt, conversionFault_cons_cons]
      simp [setFault_faulty f hf m j (by simpa using hj)]
  | r :: rs, m :: ms, i + 1, j, h1, h2, hj => by
      have := injectAt_fault f hf rs ms i j (by simpa using h1) (by simpa using h2) (by simpa using hj)
      simp [injectAt, conversionFault_cons_cons, this]

/-! ### contents -/

theorem contentOf_withFile (d : Dir) (n : String) (t : Bytes) : (d.withFile n t).contentOf n = some t := by
  unfold Dir.withFile Dir.contentOf
  cases hany : d.any (fun e => e.name == n) with
  | true =>
    simp only [if_true]
    induction d with
    | nil => simp at hany
    | cons e d ih =>
      cases hb : e.name == n with
      | true =>
        have he : e.name = n := by simpa using hb
        simp [he]
      | false =>
        have hany' : d.any (fun e => e.name == n) = true := by simpa [hb] using hany
        simp only [List.map_cons, hb, Bool.false_eq_true, if_false, List.find?_cons]
        exact ih hany'
  | false =>
    simp only [Bool.false_eq_true, if_false]
    rw [List.any_eq_false] at hany
    have : d.find? (fun e => e.name == n) = none := by
      rw [List.find?_eq_none]; intro e he; simpa using hany e he
    simp [List.find?_append, this]

theorem contentOf_filter (d : Dir) (q : Entry → Bool) (n : String) (h : ∀ e ∈ d, e.name = n → q e = true) :
    Dir.contentOf (d.filter q) n = Dir.contentOf d n := by
  unfold Dir.contentOf
  induction d with
  | nil => rfl
  | cons e d ih =>
    have ih' := ih fun x hx => h x (List.mem_cons_of_mem _ hx)
    cases hb : e.name == n with
    | true =>
      have := h e (List.mem_cons_self ..) (by simpa using hb)
      simp [this, hb]
    | false =>
      cases hq : q e with
      | true =>
        simp only [List.filter_cons, hq, if_true, List.find?_cons, hb]
        exact ih'
      | false =>
        simp only [List.filter_cons, hq, Bool.false_eq_true, if_false, List.find?_cons, hb]
        exact ih'

theorem json_not_region (n : String) (pre : List Char) (h : n.toList = pre ++ ".json".toList) :
    isRegionGbk n = false := by
  cases hr : isRegionGbk n with
  | false => rfl
  | true =>
    obtain ⟨_, a, b, hab, _⟩ := (isRegionGbk_iff n).1 hr
    rw [h] at hab
    have := congrArg List.reverse hab
    simp at this

end ASV.WriteSafety
