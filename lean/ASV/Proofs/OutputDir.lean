/-
  Helper lemmas for C20, part 2: `prepare_output_directory`, the region-file pattern, and the tail
  of `_run_antismash`.
-/
import ASV.Proofs.WriteSafety
import ASV.Proofs.PosixPath
namespace ASV.WriteSafety
open ASV.PosixPath (Path Plain)

/-! ### the acceptance test -/

theorem plainName_iff (n : Path) : plainName n = true ↔ Plain n := by
  simp [plainName, Plain, and_assoc]

/-- the invariants of `PrepIn.WF`, unpacked -/
theorem wf_unpack (p : PrepIn) (wf : p.WF = true) :
    PosixPath.isabs p.cwd.toList = true ∧ p.name.toList ≠ [] ∧
      ∀ es, p.target = .dir es → ∀ e ∈ es, Plain e.name.toList := by
  simp only [PrepIn.WF, Bool.and_eq_true, Bool.not_eq_true', List.isEmpty_eq_false_iff] at wf
  refine ⟨wf.1.1, wf.1.2, ?_⟩
  intro es ht e he
  have h := wf.2
  rw [ht] at h
  simp only [List.all_eq_true] at h
  exact (plainName_iff _).1 (h e he)

/-- `entry.endswith('/input')` is a test on the entry's own name -/
theorem input_clause (p : PrepIn) (e : Entry) (hname : p.name.toList ≠ []) (hn : Plain e.name.toList) :
    "/input".toList.isSuffixOf (entryPath p e) = (e.name == "input") := by
  have h := PosixPath.join_endswith_iff p.name.toList e.name.toList "input".toList hname hn (by decide)
  have e1 : "/input".toList = '/' :: "input".toList := by decide
  rw [entryPath, e1]
  by_cases hc : e.name = "input"
  · have : e.name.toList = "input".toList := by rw [hc]
    rw [h.2 this]
    exact (beq_iff_eq.2 hc).symm
  · have : ¬ e.name.toList = "input".toList := fun x => hc (String.toList_inj.1 x)
    have h' : ('/' :: "input".toList).isSuffixOf (PosixPath.join p.name.toList e.name.toList) = false := by
      cases hb : ('/' :: "input".toList).isSuffixOf (PosixPath.join p.name.toList e.name.toList) with
      | false => rfl
      | true => exact absurd (h.1 hb) this
    rw [h']
    exact (beq_eq_false_iff_ne.2 hc).symm

/-- the path-equality test of the own-log clause is the identity of what the paths denote -/
theorem log_clause (p : PrepIn) (e : Entry) (hcwd : PosixPath.isabs p.cwd.toList = true) :
    (p.logfile != "" && PosixPath.abspath p.cwd.toList (entryPath p e) ==
        PosixPath.abspath p.cwd.toList p.logfile.toList) = isLogFile p e := by
  unfold isLogFile
  congr 1
  have : PosixPath.abspath p.cwd.toList (entryPath p e) = PosixPath.abspath p.cwd.toList p.logfile.toList ↔
      denotes p.cwd.toList (entryPath p e) = denotes p.cwd.toList p.logfile.toList := by
    unfold PosixPath.abspath
    rw [PosixPath.normpath_abs_eq_iff _ _ (PosixPath.isabs_absArg _ _ hcwd) (PosixPath.isabs_absArg _ _ hcwd)]
    simp [denotes, Prod.ext_iff]
  by_cases h : denotes p.cwd.toList (entryPath p e) = denotes p.cwd.toList p.logfile.toList
  · simp [h, this.2 h]
  · have : ¬ PosixPath.abspath p.cwd.toList (entryPath p e) = PosixPath.abspath p.cwd.toList p.logfile.toList :=
      fun x => h (this.1 x)
    simp [h, this]

theorem ignorePatterns_eq (p : PrepIn) (e : Entry) (hcwd : PosixPath.isabs p.cwd.toList = true)
    (hname : p.name.toList ≠ []) (hn : Plain e.name.toList) : ignorePatterns p e = !allowed p e := by
  unfold ignorePatterns allowed
  rw [input_clause p e hname hn, log_clause p e hcwd]
  by_cases h1 : (e.name == "input" && e.isDir) = true <;> by_cases h2 : isLogFile p e = true <;>
    simp [h1, h2]

/-- the log file sits directly in the output directory under the plain name `m`: an entry is the log
    file exactly when its name *is* `m` (a name that merely begins `m`, or that `m` begins with, is not) -/
theorem isLogFile_sibling (p : PrepIn) (e : Entry) (m : Path) (hcwd : PosixPath.isabs p.cwd.toList = true)
    (hname : p.name.toList ≠ []) (hn : Plain e.name.toList) (hm : Plain m)
    (hl : p.logfile.toList = PosixPath.join p.name.toList m) :
    isLogFile p e = true ↔ e.name.toList = m := by
  have hne : (p.logfile != "") = true := by
    rw [bne_iff_ne]
    intro h0
    have hj : PosixPath.join p.name.toList m ≠ [] := by
      rw [PosixPath.join_plain _ m hname hm]; split <;> simp [hname]
    exact hj (by rw [← hl, h0]; rfl)
  rw [← log_clause p e hcwd, hne, Bool.true_and, beq_iff_eq, hl, entryPath]
  exact PosixPath.abspath_entry_eq_iff _ _ _ _ hcwd hname hn hm

/-- the log file sits one level further down, inside the entry: the entry (the directory logging
    created for it, or any directory above the log file) is not the log file -/
theorem isLogFile_above (p : PrepIn) (e : Entry) (m : Path) (hcwd : PosixPath.isabs p.cwd.toList = true)
    (hname : p.name.toList ≠ []) (hn : Plain e.name.toList) (hm : Plain m)
    (hl : p.logfile.toList = PosixPath.join (entryPath p e) m) :
    isLogFile p e = false := by
  cases h : isLogFile p e with
  | false => rfl
  | true =>
    rw [← log_clause p e hcwd] at h
    simp only [Bool.and_eq_true, beq_iff_eq] at h
    rw [hl, entryPath] at h
    exact absurd h.2 (PosixPath.abspath_entry_ne_deeper _ _ _ _ hcwd hname hn hm)

theorem others_empty_iff (p : PrepIn) (hcwd : PosixPath.isabs p.cwd.toList = true)
    (hname : p.name.toList ≠ []) : ∀ (es : Dir), (∀ e ∈ es, Plain e.name.toList) →
    (es.filter (ignorePatterns p)).isEmpty = es.all (allowed p)
  | [], _ => rfl
  | e :: es, h => by
      have ih := others_empty_iff p hcwd hname es fun x hx => h x (List.mem_cons_of_mem _ hx)
      simp only [List.filter_cons, List.all_cons,
        ignorePatterns_eq p e hcwd hname (h e (List.mem_cons_self ..))]
      cases allowed p e <;> simp [← ih]

theorem prepare_dir (p : PrepIn) (wf : p.WF = true) (es : Dir) (ht : p.target = .dir es) :
    prepareOutputDir p =
      if reuseMode p || es.all (allowed p) then
        ⟨(es.filter fun e => isRegionGbk e.name).map (fun e => .remove e.name), none,
         .dir (es.filter fun e => !isRegionGbk e.name)⟩
      else ⟨[], some inputError, .dir es⟩ := by
  obtain ⟨hcwd, hname, hpl⟩ := wf_unpack p wf
  simp only [prepareOutputDir, ht, others_empty_iff p hcwd hname es (hpl es ht)]
  cases reuseMode p <;> cases es.all (allowed p) <;> simp

theorem prepare_accepts_iff (p : PrepIn) (wf : p.WF = true) : (prepareOutputDir p).err = none ↔ specAccepts p = true := by
  cases ht : p.target with
  | absent => simp [prepareOutputDir, specAccepts, ht]
  | file => simp [prepareOutputDir, specAccepts, ht]
  | dir es =>
    rw [prepare_dir p wf es ht]
    simp only [specAccepts, ht]
    cases reuseMode p || es.all (allowed p) <;> simp

theorem prepare_refused (p : PrepIn) (wf : p.WF = true) (h : specAccepts p = false) :
    prepareOutputDir p = ⟨[], some inputError, p.target⟩ := by
  cases ht : p.target with
  | absent => simp [specAccepts, ht] at h
  | file => simp [prepareOutputDir, ht]
  | dir es =>
    rw [prepare_dir p wf es ht]
    simp only [specAccepts, ht] at h
    simp [h]

theorem prepare_accepted (p : PrepIn) (wf : p.WF = true) (h : specAccepts p = true) :
    (prepareOutputDir p).err = none ∧ (prepareOutputDir p).target = .dir (preparedDir p) ∧
      ∀ ev ∈ (prepareOutputDir p).trace, ev = .mkdir ∨ ∃ n, ev = .remove n := by
  cases ht : p.target with
  | absent => simp [prepareOutputDir, preparedDir, ht]
  | file => simp [specAccepts, ht] at h
  | dir es =>
    rw [prepare_dir p wf es ht]
    simp only [specAccepts, ht] at h
    simp only [h, if_true, preparedDir, ht, true_and]
    intro ev hev
    simp only [List.mem_map] at hev
    obtain ⟨e, _, rfl⟩ := hev
    exact Or.inr ⟨e.name, rfl⟩

theorem prepare_meets_spec (p : PrepIn) (wf : p.WF = true) : specPrepare p (prepareOutputDir p) = true := by
  unfold specPrepare
  cases ha : specAccepts p with
  | false =>
    rw [prepare_refused p wf ha]
    simp [refusedUntouched]
  | true =>
    simp only [if_true]
    cases ht : p.target with
    | absent => simp [acceptedCleanup, prepareOutputDir, ht]
    | file => simp [specAccepts, ht] at ha
    | dir es =>
      simp only [specAccepts, ht] at ha
      rw [prepare_dir p wf es ht]
      simp [acceptedCleanup, ht, ha]

/-! ### the region-file pattern -/

theorem isRegionGbk_iff (n : String) : isRegionGbk n = true ↔ RegionGbkName n := by
  unfold isRegionGbk RegionGbkName
  generalize n.toList = cs
  simp only [Bool.and_eq_true, Bool.not_eq_true', beq_eq_false_iff_ne, decide_eq_true_eq, beq_iff_eq, ne_eq]
  constructor
  · rintro ⟨⟨⟨hh, hk⟩, h7⟩, h4⟩
    refine ⟨hh, cs.take (cs.length - 14), (cs.drop (cs.length - 7)).take 3, ?_, ?_⟩
    · have e1 : cs = cs.take (cs.length - 14) ++ cs.drop (cs.length - 14) := (List.take_append_drop _ _).symm
      have e2 : cs.drop (cs.length - 14) =
          (cs.drop (cs.length - 14)).take 7 ++ (cs.drop (cs.length - 14)).drop 7 :=
        (List.take_append_drop _ _).symm
      have e3 : (cs.drop (cs.length - 14)).drop 7 = cs.drop (cs.length - 7) := by
        rw [List.drop_drop]; congr 1; omega
      have e4 : cs.drop (cs.length - 7) = (cs.drop (cs.length - 7)).take 3 ++ (cs.drop (cs.length - 7)).drop 3 :=
        (List.take_append_drop _ _).symm
      have e5 : (cs.drop (cs.length - 7)).drop 3 = cs.drop (cs.length - 4) := by
        rw [List.drop_drop]; congr 1; omega
      rw [e3, h7] at e2
      rw [e5, h4] at e4
      rw [e4] at e2
      conv => lhs; rw [e1, e2]
      simp [List.append_assoc]
    · simp only [List.length_take, List.length_drop]
      omega
  · rintro ⟨hh, pre, mid, rfl, hm⟩
    have hl : (pre ++ ".region".toList ++ mid ++ ".gbk".toList).length = pre.length + 14 := by
      simp [hm]
    refine ⟨⟨⟨hh, by omega⟩, ?_⟩, ?_⟩
    · rw [hl]
      have : pre.length + 14 - 14 = pre.length := by omega
      rw [this]
      simp [List.append_assoc]
    · rw [hl]
      have : pre.length + 14 - 4 = (pre ++ ".region".toList ++ mid).length := by simp [hm]
      rw [this, List.drop_left]


/-! ### the tail of `_run_antismash` -/

theorem dropWhile_prefix {α} (q : α → Bool) (a b : List α) (h : ∀ x ∈ a, q x = true) :
    (a ++ b).dropWhile q = b.dropWhile q := by
  induction a with
  | nil => rfl
  | cons x a ih =>
    have hx := h x (List.mem_cons_self ..)
    simp only [List.cons_append, List.dropWhile_cons, hx, if_true]
    exact ih fun y hy => h y (List.mem_cons_of_mem _ hy)

theorem pipeline_refused (p : PipeIn) (wf : p.prep.WF = true) (h : specAccepts p.prep = false) :
    runPipeline p = ⟨[], some inputError, p.prep.target⟩ := by
  simp [runPipeline, prepare_refused p.prep wf h]

theorem pipeline_fault (p : PipeIn) (wf : p.prep.WF = true) (ha : specAccepts p.prep = true) (hf : p.results.hasFault = true) :
    ∃ e, runPipeline p =
      ⟨(prepareOutputDir p.prep).trace ++
        .prepared :: (writeToFile p.results (.path p.jsonName) (preparedDir p.prep)).trace,
       some e, .dir (preparedDir p.prep)⟩ := by
  obtain ⟨h1, h2, _⟩ := prepare_accepted p.prep wf ha
  obtain ⟨w1, w2, _⟩ := writeToFile_fault p.results (.path p.jsonName) (preparedDir p.prep) hf
  obtain ⟨e, he⟩ := Option.isSome_iff_exists.1 w1
  exact ⟨e, by simp [runPipeline, h1, h2, he, w2]⟩

theorem pipeline_clean (p : PipeIn) (wf : p.prep.WF = true) (ha : specAccepts p.prep = true) (hf : p.results.hasFault = false) :
    runPipeline p =
      ⟨(prepareOutputDir p.prep).trace ++
        .prepared :: (convertRecords 0 p.results.records p.results.results).trace ++
          [.openW p.jsonName, .write p.jsonName, .annotated, .outputsWritten],
       none, .dir ((preparedDir p.prep).withFile p.jsonName (expectedFull p.results))⟩ := by
  obtain ⟨h1, h2, _⟩ := prepare_accepted p.prep wf ha
  have hw := writeToFile_clean p.results (.path p.jsonName) (preparedDir p.prep) hf
  simp [runPipeline, h1, h2, hw, emit, expectedAfter]


/-- everything that happens in an accepted run before `write_to_file` opens the results file (or
    fails): directory clean-up, the stage marker, conversions, an error log -/
theorem pipeline_prefix_events (p : PipeIn) (wf : p.prep.WF = true) (ha : specAccepts p.prep = true) (tr : List Ev)
    (htr : ∀ ev ∈ tr, ev.isConversion = true ∨ ev = .logErr) :
    ∀ ev ∈ (prepareOutputDir p.prep).trace ++ Ev.prepared :: tr,
      ev ≠ .annotated ∧ ev ≠ .outputsWritten ∧ (∀ n, ev ≠ .openW n) ∧ (∀ n, ev ≠ .write n) := by
  obtain ⟨_, _, hp⟩ := prepare_accepted p.prep wf ha
  intro ev hev
  simp only [List.mem_append, List.mem_cons] at hev
  rcases hev with hev | rfl | hev
  · rcases hp _ hev with rfl | ⟨n, rfl⟩ <;> simp
  · simp
  · rcases htr _ hev with h1 | rfl
    · cases ev <;> simp_all [Ev.isConversion]
    · simp

/-! ### fault plans -/

theorem setFault_faulty (f : ModSpec) (hf : f.faulty = true) :
    ∀ (m : ModDict) (j : Nat), j < m.length → dictFaulty (setFault m j f) = true
  | [], _, h => by simp at h
  | (k, s) :: rest, 0, _ => by simp [setFault, dictFaulty_cons, hf]
  | (k, s) :: rest, j + 1, h => by
      have := setFault_faulty f hf rest j (by simpa using h)
      simp [setFault, dictFaulty_cons, this]

theorem injectAt_fault (f : ModSpec) (hf : f.faulty = true) :
    ∀ (rs : List RecSpec) (ress : List ModDict) (i j : Nat) (_ : i < rs.length) (hi : i < ress.length),
      j < ress[i].length → conversionFault rs (injectAt ress i j f) = true
  | [], _, _, _, h, _, _ => by simp at h
  | _ :: _, [], _, _, _, h, _ => by simp at h
  | r :: rs, m :: ms, 0, j, _, _, hj => by
      simp only [injectAt, conversionFault_cons_cons]
      simp [setFault_faulty f hf m j (by simpa using hj)]
  | r :: rs, m :: ms, i + 1, j, h1, h2, hj => by
      have := injectAt_fault f hf rs ms i j (by simpa using h1) (by simpa using h2) (by simpa using hj)
      simp [injectAt, conversionFault_cons_cons, this]

/-! ### contents -/

theorem contentOf_withFile (d : Dir) (n : String) (t : Bytes) : (d.withFile n t).contentOf n = some t := by
  unfold Dir.withFile Dir.contentOf
  cases hany : d.any (fun e => e.name == n) with
  | true =>
    simp only [if_true]
    induction d with
    | nil => simp at hany
    | cons e d ih =>
      cases hb : e.name == n with
      | true =>
        have he : e.name = n := by simpa using hb
        simp [he]
      | false =>
        have hany' : d.any (fun e => e.name == n) = true := by simpa [hb] using hany
        simp only [List.map_cons, hb, Bool.false_eq_true, if_false, List.find?_cons]
        exact ih hany'
  | false =>
    simp only [Bool.false_eq_true, if_false]
    rw [List.any_eq_false] at hany
    have : d.find? (fun e => e.name == n) = none := by
      rw [List.find?_eq_none]; intro e he; simpa using hany e he
    simp [List.find?_append, this]

theorem contentOf_filter (d : Dir) (q : Entry → Bool) (n : String) (h : ∀ e ∈ d, e.name = n → q e = true) :
    Dir.contentOf (d.filter q) n = Dir.contentOf d n := by
  unfold Dir.contentOf
  induction d with
  | nil => rfl
  | cons e d ih =>
    have ih' := ih fun x hx => h x (List.mem_cons_of_mem _ hx)
    cases hb : e.name == n with
    | true =>
      have := h e (List.mem_cons_self ..) (by simpa using hb)
      simp [this, hb]
    | false =>
      cases hq : q e with
      | true =>
        simp only [List.filter_cons, hq, if_true, List.find?_cons, hb]
        exact ih'
      | false =>
        simp only [List.filter_cons, hq, Bool.false_eq_true, if_false, List.find?_cons, hb]
        exact ih'

theorem json_not_region (n : String) (pre : List Char) (h : n.toList = pre ++ ".json".toList) :
    isRegionGbk n = false := by
  cases hr : isRegionGbk n with
  | false => rfl
  | true =>
    obtain ⟨_, a, b, hab, _⟩ := (isRegionGbk_iff n).1 hr
    rw [h] at hab
    have := congrArg List.reverse hab
    simp at this

end ASV.WriteSafety
