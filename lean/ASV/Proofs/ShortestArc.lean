/-
  `shortestArc L (canon ps)` — the record length minus the largest gap between consecutive canonical
  intervals going round the ring — is the length of the shortest well-formed span covering `ps`
  (spec-level lemmas for C04).
-/
import ASV.Proofs.CanonIvs
import ASV.Proofs.LocOffset
set_option linter.unusedSimpArgs false
set_option linter.unusedVariables false
namespace ASV

theorem go_single (L : Int) (f x : Iv) : ringGaps.go L f [x] = [f.1 + L - x.2] := by simp [ringGaps.go]
theorem go_cons (L : Int) (f x y : Iv) (r : List Iv) :
    ringGaps.go L f (x :: y :: r) = (y.1 - x.2) :: ringGaps.go L f (y :: r) := by simp [ringGaps.go]

/-- the gap over the origin is one of the gaps -/
theorem go_origin_gap (L : Int) (f x : Iv) (rest : List Iv) :
    ∃ z ∈ x :: rest, (f.1 + L - z.2) ∈ ringGaps.go L f (x :: rest) := by
  induction rest generalizing x with
  | nil => exact ⟨x, by simp, by simp [go_single]⟩
  | cons y r ih =>
    obtain ⟨z, hz, hg⟩ := ih y
    exact ⟨z, List.mem_cons_of_mem _ hz, by rw [go_cons]; exact List.mem_cons_of_mem _ hg⟩

/-- when every interval lies in `[0, b)` or in `[a, L)` with `b < a`, some gap is at least `a - b` -/
theorem go_gap_ge (L a b : Int) (f : Iv) (hf0 : 0 ≤ f.1) (hb0 : 0 ≤ b) (haL : a ≤ L) (hba : b < a)
    (x : Iv) (rest : List Iv) (hsep : IvSep (x :: rest))
    (hin : ∀ z ∈ x :: rest, z.1 < z.2 ∧ z.2 ≤ L)
    (hside : ∀ z ∈ x :: rest, z.2 ≤ b ∨ a ≤ z.1)
    (hx : x.2 ≤ b ∨ (a ≤ x.1 ∧ a ≤ f.1)) :
    ∃ g ∈ ringGaps.go L f (x :: rest), a - b ≤ g := by
  induction rest generalizing x with
  | nil =>
    refine ⟨f.1 + L - x.2, by simp [go_single], ?_⟩
    have := hin x (by simp)
    rcases hx with h | ⟨h1, h2⟩ <;> omega
  | cons y r ih =>
    have hs := List.pairwise_cons.1 hsep
    have hxy : x.2 < y.1 := hs.1 y (by simp)
    have hxin := hin x (by simp)
    have hyin := hin y (by simp)
    rw [go_cons]
    rcases hx with hlow | ⟨hhigh, hfh⟩
    · rcases hside y (by simp) with hy | hy
      · obtain ⟨g, hg, hge⟩ := ih y hs.2 (fun z hz => hin z (List.mem_cons_of_mem _ hz))
          (fun z hz => hside z (List.mem_cons_of_mem _ hz)) (Or.inl hy)
        exact ⟨g, List.mem_cons_of_mem _ hg, hge⟩
      · exact ⟨y.1 - x.2, by simp, by omega⟩
    · have hy : a ≤ y.1 := by omega
      obtain ⟨g, hg, hge⟩ := ih y hs.2 (fun z hz => hin z (List.mem_cons_of_mem _ hz))
        (fun z hz => hside z (List.mem_cons_of_mem _ hz)) (Or.inr ⟨hy, hfh⟩)
      exact ⟨g, List.mem_cons_of_mem _ hg, hge⟩

/-- where a gap comes from: the origin gap behind the last interval, or two consecutive intervals -/
theorem go_mem (L : Int) (f x : Iv) (rest : List Iv) (hsep : IvSep (x :: rest))
    (hne : ∀ z ∈ x :: rest, z.1 < z.2) (g : Int) (hg : g ∈ ringGaps.go L f (x :: rest)) :
    (∃ z ∈ x :: rest, g = f.1 + L - z.2 ∧ ∀ z' ∈ x :: rest, z'.2 ≤ z.2) ∨
    (∃ l1 u v l2, x :: rest = l1 ++ u :: v :: l2 ∧ g = v.1 - u.2) := by
  induction rest generalizing x with
  | nil =>
    simp only [go_single, List.mem_singleton] at hg
    exact Or.inl ⟨x, by simp, hg, by simp⟩
  | cons y r ih =>
    have hs := List.pairwise_cons.1 hsep
    rw [go_cons] at hg
    rcases List.mem_cons.1 hg with rfl | hg
    · exact Or.inr ⟨[], x, y, r, rfl, rfl⟩
    · rcases ih y hs.2 (fun z hz => hne z (List.mem_cons_of_mem _ hz)) hg with ⟨z, hz, e, hmax⟩ | ⟨l1, u, v, l2, e, eg⟩
      · refine Or.inl ⟨z, List.mem_cons_of_mem _ hz, e, ?_⟩
        intro z' hz'
        rcases List.mem_cons.1 hz' with rfl | hz'
        · have h1 : z'.2 < y.1 := hs.1 y (by simp)
          have h2 := hne y (by simp)
          have h3 := hmax y (by simp)
          omega
        · exact hmax z' hz'
      · exact Or.inr ⟨x :: l1, u, v, l2, by rw [e]; rfl, eg⟩

/-- for every gap there is a well-formed span that covers all intervals and leaves out that gap -/
theorem span_of_gap (L : Int) (hL : 0 < L) (c : List Iv) (hsep : IvSep c)
    (hin : ∀ z ∈ c, 0 ≤ z.1 ∧ z.1 < z.2 ∧ z.2 ≤ L) (g : Int) (hg : g ∈ ringGaps L c) :
    ∃ w : Loc, areaWF L L w = true ∧ w.len = L - g ∧ ∀ z ∈ c, ∀ i, z.1 ≤ i → i < z.2 → w.mem i = true := by
  cases c with
  | nil => simp [ringGaps] at hg
  | cons f rest =>
    have hg' : g ∈ ringGaps.go L f (f :: rest) := hg
    have hs := List.pairwise_cons.1 hsep
    rcases go_mem L f f rest hsep (fun z hz => (hin z hz).2.1) g hg' with ⟨z, hz, e, hmax⟩ | ⟨l1, u, v, l2, e, eg⟩
    · have hfin := hin f (by simp)
      have hzin := hin z hz
      have hfz := hmax f (by simp)
      refine ⟨.simple ⟨f.1, z.2, .fwd⟩, ?_, ?_, ?_⟩
      · simp only [areaWF, Loc.parts, Bool.and_eq_true, decide_eq_true_eq]; omega
      · simp [Loc.len, Loc.parts, Part.len]; omega
      · intro z' hz' i h1 h2
        have hle := hmax z' hz'
        have hfz' : f.1 ≤ z'.1 := by
          rcases List.mem_cons.1 hz' with rfl | h
          · exact Int.le_refl _
          · have := hs.1 z' h; omega
        rw [mem_simple]; dsimp only; omega
    · have hsep' := hsep
      rw [e] at hsep'
      have hpa := List.pairwise_append.1 hsep'
      have hu := List.pairwise_cons.1 hpa.2.1
      have hv := List.pairwise_cons.1 hu.2
      have huin := hin u (by rw [e]; simp)
      have hvin := hin v (by rw [e]; simp)
      have huv : u.2 < v.1 := hu.1 v (by simp)
      refine ⟨.compound [⟨v.1, L, .fwd⟩, ⟨0, u.2, .fwd⟩], ?_, ?_, ?_⟩
      · have hL0 : L ≠ 0 := by omega
        simp [areaWF, Loc.parts, hL0]; omega
      · simp [Loc.len, Loc.parts, Part.len]; omega
      · intro z' hz' i h1 h2
        have hz'in := hin z' hz'
        rw [e] at hz'
        rw [mem_two]; dsimp only
        rcases List.mem_append.1 hz' with h | h
        · have := hpa.2.2 z' h u (by simp); right; omega
        · rcases List.mem_cons.1 h with rfl | h
          · right; omega
          · rcases List.mem_cons.1 h with rfl | h
            · left; omega
            · have := hv.1 z' h; left; omega

/-- a well-formed span that covers all intervals leaves out at most one gap's worth of bases -/
theorem gap_of_span (L : Int) (hL : 0 < L) (c : List Iv) (hc : c ≠ []) (hsep : IvSep c)
    (hin : ∀ z ∈ c, 0 ≤ z.1 ∧ z.1 < z.2 ∧ z.2 ≤ L) (w : Loc) (hwf : areaWF L L w = true)
    (hcov : ∀ z ∈ c, ∀ i, z.1 ≤ i → i < z.2 → w.mem i = true) :
    ∃ g ∈ ringGaps L c, L - w.len ≤ g := by
  cases c with
  | nil => exact absurd rfl hc
  | cons f rest =>
    show ∃ g ∈ ringGaps.go L f (f :: rest), L - w.len ≤ g
    have hfin := hin f (by simp)
    obtain ⟨zo, hzo, hgo⟩ := go_origin_gap L f f rest
    have hzoin := hin zo hzo
    match hp : w.parts with
    | [] => simp [areaWF, hp] at hwf
    | [p] =>
      simp only [areaWF, hp, Bool.and_eq_true, decide_eq_true_eq] at hwf
      have hm : ∀ i, w.mem i = true ↔ (p.lo ≤ i ∧ i < p.hi) := by intro i; simp [Loc.mem, hp, Part.mem_iff]
      have h1 := (hm _).1 (hcov f (by simp) f.1 (by omega) (by omega))
      have h2 := (hm _).1 (hcov zo hzo (zo.2 - 1) (by omega) (by omega))
      have hl : w.len = p.hi - p.lo := by simp [Loc.len, hp, Part.len]
      exact ⟨_, hgo, by omega⟩
    | [p, q] =>
      simp only [areaWF, hp, Bool.and_eq_true, decide_eq_true_eq] at hwf
      have hm : ∀ i, w.mem i = true ↔ ((p.lo ≤ i ∧ i < p.hi) ∨ (q.lo ≤ i ∧ i < q.hi)) := by
        intro i; simp [Loc.mem, hp, Part.mem_iff]
      have hl : w.len = (p.hi - p.lo) + (q.hi - q.lo) := by simp [Loc.len, hp, Part.len]
      by_cases hfull : q.hi = p.lo
      · exact ⟨_, hgo, by omega⟩
      · have hside : ∀ z ∈ f :: rest, z.2 ≤ q.hi ∨ p.lo ≤ z.1 := by
          intro z hz
          have hzin := hin z hz
          have m1 := (hm _).1 (hcov z hz z.1 (by omega) (by omega))
          have m2 := (hm _).1 (hcov z hz (z.2 - 1) (by omega) (by omega))
          by_cases hx : z.1 < q.hi ∧ p.lo ≤ z.2 - 1
          · have m3 := (hm _).1 (hcov z hz q.hi (by omega) (by omega))
            omega
          · omega
        obtain ⟨g, hg, hge⟩ := go_gap_ge L p.lo q.hi f hfin.1 (by omega) (by omega) (by omega) f rest hsep
          (fun z hz => (hin z hz).2) hside (by
            rcases hside f (by simp) with h | h
            · exact Or.inl h
            · exact Or.inr ⟨h, h⟩)
        exact ⟨g, hg, by omega⟩
    | _ :: _ :: _ :: _ => simp [areaWF, hp] at hwf

/-- a well-formed span `r` that covers the parts `ps` and is not longer than any covering span
    shorter than half the record has exactly the length `shortestArc L (canon ps)` whenever that is
    less than half the record -/
theorem len_eq_shortestArc (ps : List Part) (L : Int) (hL : 0 < L) (hne : ps ≠ [])
    (hps : ∀ p ∈ ps, 0 ≤ p.lo ∧ p.lo < p.hi ∧ p.hi ≤ L)
    (r : Loc) (hwf : areaWF L L r = true) (hcov : ∀ p ∈ ps, ∀ i, p.mem i = true → r.mem i = true)
    (hmin : ∀ c : Loc, areaWF L L c = true → 2 * c.len < L → (∀ p ∈ ps, ∀ i, p.mem i = true → c.mem i = true) →
      r.len ≤ c.len)
    (hshort : 2 * shortestArc L (canon ps) < L) : r.len = shortestArc L (canon ps) := by
  obtain ⟨hsep, hnonempty, hmem⟩ := canon_spec ps
  have hin : ∀ z ∈ canon ps, 0 ≤ z.1 ∧ z.1 < z.2 ∧ z.2 ≤ L := by
    intro z hz
    have hz1 := hnonempty z hz
    obtain ⟨p1, hp1, m1⟩ := (hmem z.1).1 ((ivsMem_iff _ _).2 ⟨z, hz, by omega, by omega⟩)
    obtain ⟨p2, hp2, m2⟩ := (hmem (z.2 - 1)).1 ((ivsMem_iff _ _).2 ⟨z, hz, by omega, by omega⟩)
    rw [Part.mem_iff] at m1 m2
    have := hps p1 hp1
    have := hps p2 hp2
    omega
  have hc : canon ps ≠ [] := by
    obtain ⟨p, hp⟩ := List.exists_mem_of_ne_nil _ hne
    have hb := hps p hp
    have := (hmem p.lo).2 ⟨p, hp, by rw [Part.mem_iff]; omega⟩
    intro e; rw [e] at this; simp [ivsMem] at this
  have hcovc : ∀ z ∈ canon ps, ∀ i, z.1 ≤ i → i < z.2 → r.mem i = true := by
    intro z hz i h1 h2
    obtain ⟨p, hp, m⟩ := (hmem i).1 ((ivsMem_iff _ _).2 ⟨z, hz, h1, h2⟩)
    exact hcov p hp i m
  have hgne : ringGaps L (canon ps) ≠ [] := by
    obtain ⟨g, hg, _⟩ := gap_of_span L hL _ hc hsep hin r hwf hcovc
    exact List.ne_nil_of_mem hg
  -- upper bound: the span that leaves out the largest gap
  obtain ⟨w, hwwf, hwlen, hwcov⟩ := span_of_gap L hL _ hsep hin _ (maxList_mem hgne)
  have hle : r.len ≤ w.len := by
    apply hmin w hwwf
    · rw [hwlen]; exact hshort
    · intro p hp i hi
      obtain ⟨z, hz, h1, h2⟩ := (ivsMem_iff _ _).1 ((hmem i).2 ⟨p, hp, hi⟩)
      exact hwcov z hz i h1 h2
  -- lower bound
  obtain ⟨g, hg, hge⟩ := gap_of_span L hL _ hc hsep hin r hwf hcovc
  have := le_maxList_of_mem hg
  unfold shortestArc
  omega

end ASV
