/- C18: Record pickling facts over the regenerated tables. -/
import ASV.Model.ParallelPickle
namespace ASV.Parallel
open ASV.Generated.RecordPickle

theorem rebuildSlots_id {V : Type} (st : SlotState V) (h : ∀ kv ∈ st, storedInSlot kv.1 = true) :
    rebuildSlots st = st := by
  unfold rebuildSlots
  exact List.filter_eq_self.mpr h

end ASV.Parallel
