/-
  C14 helper lemmas, part 6: `build_modules_for_cds` as a whole, and the JSON round trip.
-/
import ASV.Proofs.ModulesBuild
namespace ASV.Modules
open T Spec

/-- the Component built from a domain of the gene `name` -/
def toComp (name : String) (d : Domain) : Comp := ⟨d.label, d.subtypes, d.start, d.stop, name⟩

/-- a constructed Component: classified label, non-empty locus -/
def Known (c : Comp) : Prop := (classify c.label).isSome = true ∧ c.locus.isEmpty = false

theorem classify_key_nonempty (l key : String) (h : classify l = some key) : key.isEmpty = false := by
  unfold classify at h
  cases hf : classifications.find? (fun kv => kv.2.contains l) with
  | none => rw [hf] at h; cases h
  | some kv =>
    rw [hf] at h; simp at h; subst h
    exact class_keys_nonempty kv (List.mem_of_find?_eq_some hf)

theorem mkComp_ok (name : String) (d : Domain) (hn : name.isEmpty = false)
    (hc : (classify d.label).isSome = true) : mkComp name d = .ok (toComp name d) := by
  unfold mkComp
  cases hk : classify d.label with
  | none => rw [hk] at hc; cases hc
  | some key => simp [hn, classify_key_nonempty _ _ hk, toComp]

theorem mkComps_ok (name : String) (ds : List Domain) (hn : name.isEmpty = false)
    (hc : ∀ d ∈ ds, (classify d.label).isSome = true) :
    mkComps (mkComp name) ds = .ok (ds.map (toComp name)) := by
  induction ds with
  | nil => rfl
  | cons d ds ih =>
    simp only [mkComps, List.map_cons]
    rw [mkComp_ok name d hn (hc d (List.mem_cons_self)), ih (fun x hx => hc x (List.mem_cons_of_mem _ hx))]

theorem mem_sortDomains (ds : List Domain) (d : Domain) : d ∈ sortDomains ds ↔ d ∈ ds :=
  (List.mergeSort_perm ds _).mem_iff

/-- only the first module of a gene is flagged first-in-gene -/
def FirstFlags (ms : List Module) : Prop :=
  match ms with
  | [] => True
  | m :: rest => m.firstInCds = true ∧ ∀ x ∈ rest, x.firstInCds = false

/-- everything the property says about one gene, in terms of `Sound` -/
theorem build_spec (ds : List Domain) (name : String) (hn : name.isEmpty = false)
    (hc : ∀ d ∈ ds, (classify d.label).isSome = true) :
    ∃ ms, build ds name = .ok ms ∧ (∀ m ∈ ms, Sound m ∧ m.components ≠ []) ∧
      ms.flatMap (·.components) = ((sortDomains ds).map (toComp name)).filter notIgnored ∧
      FirstFlags ms := by
  have hc' : ∀ d ∈ sortDomains ds, (classify d.label).isSome = true :=
    fun d hd => hc d ((mem_sortDomains ds d).mp hd)
  obtain ⟨done, cur, hgo, hB⟩ := buildGo_spec _ _ [] (Module.new true)
    (BInv.init ((sortDomains ds).map (toComp name)))
  unfold build
  rw [mkComps_ok name _ hn hc']
  simp only [hgo]
  have hpart := hB.part
  simp only [List.filter_nil, List.append_nil] at hpart
  obtain ⟨f, fs, hfe, hf1, hf2⟩ := hB.firsts
  cases hE : cur.isEmpty with
  | true =>
    have hce : cur.components = [] := by simpa [Module.isEmpty] using hE
    have hany : done.any Module.isEmpty = false := by
      rw [Bool.eq_false_iff]; intro ha
      rw [List.any_eq_true] at ha
      obtain ⟨m, hm, he⟩ := ha
      exact (hB.doneSound m hm).2 (by simpa [Module.isEmpty] using he)
    simp only [if_true, hany, Bool.false_eq_true, if_false]
    refine ⟨done, rfl, hB.doneSound, ?_, ?_⟩
    · rw [← hpart]; simp [List.flatMap_append, hce]
    · cases done with
      | nil => trivial
      | cons d ds' =>
        simp at hfe; obtain ⟨e1, e2⟩ := hfe; subst e1
        show _ ∧ _
        exact ⟨hf1, fun x hx => hf2 x (by rw [← e2]; exact List.mem_append_left _ hx)⟩
  | false =>
    have hce : cur.components ≠ [] := by
      intro h; simp [Module.isEmpty, h] at hE
    have hall : ∀ m ∈ done ++ [cur], Sound m ∧ m.components ≠ [] := by
      intro m hm
      rcases List.mem_append.mp hm with hm | hm
      · exact hB.doneSound m hm
      · simp at hm; subst hm; exact ⟨hB.close hB.pend.nil, hce⟩
    have hany : (done ++ [cur]).any Module.isEmpty = false := by
      rw [Bool.eq_false_iff]; intro ha
      rw [List.any_eq_true] at ha
      obtain ⟨m, hm, he⟩ := ha
      exact (hall m hm).2 (by simpa [Module.isEmpty] using he)
    simp only [Bool.false_eq_true, if_false, hany]
    refine ⟨done ++ [cur], rfl, hall, hpart, ?_⟩
    rw [hfe]; exact ⟨hf1, hf2⟩

/-- without domains nothing is constructed and nothing is asserted (whatever the name) -/
theorem build_nil (name : String) : build [] name = .ok [] := by
  simp [build, sortDomains, mkComps, buildGo, Module.isEmpty, Module.new]

theorem comp_eta (c : Comp) : (⟨c.label, c.subtypes, c.start, c.stop, c.locus⟩ : Comp) = c := by
  cases c; rfl

theorem mkComps_toJson (cs : List Comp) (hk : ∀ c ∈ cs, Known c) :
    mkComps (fun cj => mkComp cj.locus cj.domain) (cs.map Comp.toJson) = .ok cs := by
  induction cs with
  | nil => rfl
  | cons c cs ih =>
    simp only [List.map_cons, mkComps]
    have := mkComp_ok c.locus c.domain (hk c (List.mem_cons_self)).2 (hk c (List.mem_cons_self)).1
    simp only [Comp.toJson]
    rw [this, ih (fun x hx => hk x (List.mem_cons_of_mem _ hx))]
    simp [toComp, Comp.domain, comp_eta]

/-- the saved form of a sound module rebuilds the identical module -/
theorem fromJson_toJson {m : Module} (h : Sound m) (hk : ∀ c ∈ m.components, Known c) :
    Module.fromJson m.toJson = .ok m := by
  unfold Module.fromJson Module.toJson
  simp only [mkComps_toJson m.components hk, Option.getD_some]
  exact h.reload

end ASV.Modules
