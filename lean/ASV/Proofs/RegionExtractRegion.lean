/-
  C12: the written record has exactly one region feature, the image of the region's own feature, and it spans
  the whole file (`oneRegion`).
-/
import ASV.Proofs.RegionExtractWrite
set_option linter.unusedSimpArgs false
namespace ASV.RegionExtract
open ASV

theorem canon_simple (a b : Int) (s : Strand) (h : a < b) : (Loc.simple ⟨a, b, s⟩).canon = [(a, b)] := by
  simp [Loc.canon, canon, Loc.parts, canonIvs, h, sortIvs, insertIv, mergeSorted]

theorem eq_singleton_of_nodup {α} (l : List α) (g : α) (hn : l.Nodup) (hg : g ∈ l) (hall : ∀ x ∈ l, x = g) : l = [g] := by
  match l, hn, hg, hall with
  | [x], _, _, hall => rw [hall x (by simp)]
  | x :: y :: rest, hn, _, hall =>
    exfalso
    have h1 := hall x (by simp)
    have h2 := hall y (by simp)
    have := (List.nodup_cons.1 hn).1
    rw [h1, ← h2] at this
    exact this (by simp)

/-- the written record has exactly one region feature, and it spans the file -/
theorem written_oneRegion (rd : RegionData) (rec : BioRecord) (w : Written) (h : writeToGenbank rd rec = .ok w)
    (hwf : wfInput rd rec = true) (htags : (rec.features.map (·.tag)).Nodup)
    (hspan : ∀ f ∈ rec.features, bridgesOrigin f.loc = true → f.loc.start = 0 ∧ f.loc.end = rec.length)
    (hreg : regionFeatureOK rd rec = true) : oneRegion rec.length rd w.extract.features = true := by
  obtain ⟨hL, hcross, hplain, hfeat⟩ := wf_unpack rd rec hwf
  unfold regionFeatureOK at hreg
  simp only at hreg
  generalize hfilter : (rec.features.filter fun f => f.type == "region" && mayBeWritten rd rec.length f) = cands at hreg
  match cands, hfilter, hreg with
  | [], _, hreg => cases hreg
  | _ :: _ :: _, _, hreg => cases hreg
  | [fr], hfilter, hreg =>
    -- `fr` is the only region feature that can be written
    have hfr : fr ∈ rec.features ∧ fr.type = "region" ∧ mayBeWritten rd rec.length fr = true := by
      have : fr ∈ rec.features.filter fun f => f.type == "region" && mayBeWritten rd rec.length f := by rw [hfilter]; simp
      simpa [List.mem_filter] using this
    have honly : ∀ f ∈ rec.features, f.type = "region" → mayBeWritten rd rec.length f = true → f = fr := by
      intro f hf ht hm
      have : f ∈ rec.features.filter fun f => f.type == "region" && mayBeWritten rd rec.length f := by
        simp [List.mem_filter, hf, ht, hm]
      rw [hfilter] at this
      simpa using this
    have hextags := written_tags_nodup rd rec w h hwf htags hspan
    -- every written region feature is the image of `fr`, with a known location
    have himage : ∀ g ∈ w.extract.features, g.type = "region" →
        g.tag = fr.tag ∧ g.loc.canon = [(0, regionLen rec.length rd)] := by
      intro g hg ht
      obtain ⟨g0, ho, hadj⟩ := written_origin rd rec w h g hg
      obtain ⟨htg, hty, hloc⟩ := adjustFeature_same rd _ _ g0 g hadj
      have ht0 : g0.type = "region" := by rw [← hty]; exact ht
      cases ho with
      | plain f hf hc h1 h2 hg0 =>
        have hft : f.type = "region" := by rw [← ht0, hg0]
        have := honly f hf hft (by simp [mayBeWritten, hc, h1, h2])
        subst this
        have hw : wraps rd = false := by rw [wraps_eq, hc]
        rw [hc] at hreg
        simp only [Bool.false_eq_true, if_false, beq_iff_eq] at hreg
        refine ⟨by rw [htg, hg0], ?_⟩
        rw [hloc, hg0, hreg]
        simp only [shiftLoc, regionLen, hw, Bool.false_eq_true, if_false]
        have hpi := (hfeat f hf).1.2 ⟨rd.start, rd.end, .fwd⟩ (by rw [hreg]; simp [Loc.parts])
        unfold PartIn at hpi
        simp only at hpi
        rw [canon_simple _ _ _ (by omega)]
        simp; omega
      | pre f hf hc h1 h2 hg0 =>
        exfalso
        have hft : f.type = "region" := by rw [← ht0, hg0]
        have := honly f hf hft (by simp [mayBeWritten, hc, h1, h2])
        subst this
        rw [hc] at hreg
        simp only [if_true, beq_iff_eq] at hreg
        rw [hreg, start_two] at h1
        simp only at h1
        have := hcross hc
        omega
      | post f hf hc h1 h2 l hl hg0 =>
        exfalso
        have hft : f.type = "region" := by rw [← ht0, hg0]
        have := honly f hf hft (by simp [mayBeWritten, hc, h1, h2])
        subst this
        rw [hc] at hreg
        simp only [if_true, beq_iff_eq] at hreg
        rw [hreg, end_two] at h2
        simp only at h2
        have := hcross hc
        omega
      | cross f hf hc hb l hl hk hnb hg0 =>
        have hft : f.type = "region" := by rw [← ht0, hg0]
        have := honly f hf hft (by simp [mayBeWritten, hc, hb])
        subst this
        obtain ⟨he0, hes, hsL⟩ := hcross hc
        have hw : wraps rd = true := by rw [wraps_eq, hc]
        rw [hc] at hreg
        simp only [if_true, beq_iff_eq] at hreg
        refine ⟨by rw [htg, hg0], ?_⟩
        rw [hreg] at hl
        obtain ⟨r, hr, hcase⟩ := cross_two_fwd_exact rd.start rd.end rd.start rec.length .fwd he0 hes hsL (by omega) hsL
        rw [hr] at hl; injection hl with hl; subst hl
        rw [hloc, hg0]
        simp only [regionLen, hw, if_true]
        rcases hcase with ⟨hlt, _, _, hr', hwf'⟩ | ⟨heq, _, hwf'⟩ | ⟨hno, _⟩
        · rw [hwf', hr', canon_simple _ _ _ (by omega)]
          simp; omega
        · rw [hwf', canon_simple _ _ _ hL]
          simp; omega
        · exfalso; omega
    -- `fr` is written
    have hfrin : insideRegion rec.length rd fr.loc = true := by
      unfold insideRegion
      cases hc : rd.crossesOrigin with
      | false =>
        have hw : wraps rd = false := by rw [wraps_eq, hc]
        rw [hc] at hreg
        simp only [Bool.false_eq_true, if_false, beq_iff_eq] at hreg
        simp [hw, hreg, Loc.parts]
      | true =>
        obtain ⟨he0, hes, hsL⟩ := hcross hc
        have hw : wraps rd = true := by rw [wraps_eq, hc]
        rw [hc] at hreg
        simp only [if_true, beq_iff_eq] at hreg
        have hbr := bridges_two_fwd rd.start rd.end rec.length .fwd (by decide) (by omega)
        simp [hw, hreg, Loc.parts, hbr]
    obtain ⟨g, hg, hgt⟩ := written_contains_inside rd rec w h (fun hc => ⟨(hcross hc).1, (hcross hc).2.2⟩) fr hfr.1
      (hfeat fr hfr.1).1.1 hfrin (fun hc hb => by
        rw [hc] at hreg
        simp only [if_true, beq_iff_eq] at hreg
        obtain ⟨he0, hes, hsL⟩ := hcross hc
        rw [hreg]
        simp [twoPart]
        omega)
    have hgty : g.type = "region" := by
      obtain ⟨f', hf', ht', hty', _⟩ := written_refs rd rec w h g hg
      have : f' = fr := nodup_map_inj (·.tag) rec.features htags f' fr hf' hfr.1 (by rw [← ht', hgt])
      rw [hty', this, hfr.2.1]
    -- so the list of written region features is `[g]`
    have hlist : ofType "region" w.extract.features = [g] := by
      apply eq_singleton_of_nodup
      · have h1 : (w.extract.features).Nodup :=
          List.Pairwise.of_map (fun (x : BioFeature) => x.tag) (fun a b hab e => hab (by rw [e])) hextags
        exact List.Nodup.sublist List.filter_sublist h1
      · simp [ofType, List.mem_filter, hg, hgty]
      · intro x hx
        have hx' : x ∈ w.extract.features ∧ x.type = "region" := by simpa [ofType, List.mem_filter] using hx
        exact nodup_map_inj (·.tag) _ hextags x g hx'.1 hg (by rw [(himage x hx'.1 hx'.2).1, hgt])
    unfold oneRegion
    rw [hlist]
    simp only [beq_iff_eq]
    exact (himage g hg hgty).2

end ASV.RegionExtract
