/-
  C15 helper lemmas: the coordinate arithmetic of `scan_orfs` (mirroring, the two modular
  reductions with the `end - 1` trick, the wrap test) in normal form, and what the reported
  location extracts to.
-/
import ASV.Spec.Orf
namespace ASV.Orf
open ASV

theorem emod_of_decomp (x L r q : Int) (hx : x = r + L * q) (h0 : 0 ≤ r) (h1 : r < L) : x % L = r := by
  subst hx; rw [Int.add_mul_emod_self_left]; exact Int.emod_eq_of_lt h0 h1

theorem emod_shift (x k L : Int) (h0 : 0 ≤ x % L + k) (h1 : x % L + k < L) :
    (x + k) % L = x % L + k := by
  apply emod_of_decomp _ _ _ (x / L) ?_ h0 h1
  have := Int.emod_add_mul_ediv x L
  omega

theorem emod_shift_wrap (x k L : Int) (h0 : L ≤ x % L + k) (h1 : x % L + k < 2 * L) :
    (x + k) % L = x % L + k - L := by
  apply emod_of_decomp _ _ _ (x / L + 1) ?_ (by omega) (by omega)
  have := Int.emod_add_mul_ediv x L
  rw [Int.mul_add, Int.mul_one]
  omega

/-- record coordinate (before reduction) of the ORF's lowest base -/
def orfBase (fwd : Bool) (n : Nat) (offset : Int) (s e : Nat) : Int :=
  if fwd then (s : Int) + offset else (n : Int) + offset - ((e : Int) + 2) - 1

/-- `scan_orfs`' location on a ring, in normal form: lowest coordinate `a`, length `m`;
    one part when `a + m ≤ L`, otherwise the part up to the origin and the part after it
    (in transcription order) -/
theorem orfLoc_ring (fwd : Bool) (n : Nat) (offset L : Int) (s e : Nat) (hL : 0 < L) (hs : s < e)
    (hlen : orfLen s e ≤ L) :
    orfLoc fwd n offset (some L) s e =
      if orfBase fwd n offset s e % L + orfLen s e ≤ L then
        .simple ⟨orfBase fwd n offset s e % L, orfBase fwd n offset s e % L + orfLen s e, dirStrand fwd⟩
      else .compound (if fwd then
          [⟨orfBase fwd n offset s e % L, L, dirStrand fwd⟩, ⟨0, orfBase fwd n offset s e % L + orfLen s e - L, dirStrand fwd⟩]
        else
          [⟨0, orfBase fwd n offset s e % L + orfLen s e - L, dirStrand fwd⟩, ⟨orfBase fwd n offset s e % L, L, dirStrand fwd⟩]) := by
  have hnn : 0 ≤ orfBase fwd n offset s e % L := Int.emod_nonneg _ (by omega)
  have hlt : orfBase fwd n offset s e % L < L := Int.emod_lt_of_pos _ hL
  have hstart : ∀ x : Int, (x + L) % L = x % L := fun x => Int.add_emod_right x L
  have hm : 0 < orfLen s e := by simp only [orfLen]; omega
  -- the two raw coordinates in terms of base and length
  have hS : (if fwd then (s : Int) + offset else (n : Int) + offset - ((e : Int) + 2) - 1)
      = orfBase fwd n offset s e := rfl
  have hE : (if fwd then ((e : Int) + 2) + offset + 1 else (n : Int) + offset - (s : Int)) - 1 + L
      = (orfBase fwd n offset s e + (orfLen s e - 1)) + L := by
    cases fwd <;> simp only [orfBase, orfLen, Bool.false_eq_true, ↓reduceIte] <;> omega
  unfold orfLoc
  simp only [hS, hE, hstart]
  by_cases hc : orfBase fwd n offset s e % L + orfLen s e ≤ L
  · rw [emod_shift _ _ _ (by omega) (by omega)]
    simp only [hc, if_true]
    rw [if_neg (by omega)]
    rw [show orfBase fwd n offset s e % L + (orfLen s e - 1) + 1
      = orfBase fwd n offset s e % L + orfLen s e by omega]
  · rw [emod_shift_wrap _ _ _ (by omega) (by omega)]
    simp only [hc, if_false]
    rw [if_pos (by omega)]
    cases fwd
    · simp only [Bool.false_eq_true, if_false, List.reverse_cons, List.reverse_nil, List.nil_append,
        List.cons_append]
      rw [show orfBase false n offset s e % L + (orfLen s e - 1) - L + 1
        = orfBase false n offset s e % L + orfLen s e - L by omega]
    · simp only [if_true]
      rw [show orfBase true n offset s e % L + (orfLen s e - 1) - L + 1
        = orfBase true n offset s e % L + orfLen s e - L by omega]

/-- without a record length the location is always a single part -/
theorem orfLoc_line (fwd : Bool) (n : Nat) (offset : Int) (s e : Nat) (hs : s < e) :
    orfLoc fwd n offset none s e =
      .simple ⟨orfBase fwd n offset s e, orfBase fwd n offset s e + orfLen s e, dirStrand fwd⟩ := by
  unfold orfLoc
  cases fwd <;> simp only [orfBase, orfLen, Bool.false_eq_true, ↓reduceIte]
  · rw [if_neg (by omega)]; congr 2; omega
  · rw [if_neg (by omega)]; congr 2; omega

/-- shape facts about the reported location on a ring: every part is a non-empty stretch of
    `[0, L]` on the scan's strand, the parts' lengths add up to the ORF's length, there are two
    parts exactly when the ORF runs over the origin, and then `location_bridges_origin` holds -/
theorem orfLoc_shape (fwd : Bool) (n : Nat) (offset L : Int) (s e : Nat) (hL : 0 < L) (hs : s < e)
    (hlen : orfLen s e ≤ L) :
    (∀ p ∈ (orfLoc fwd n offset (some L) s e).parts,
        0 ≤ p.lo ∧ p.lo < p.hi ∧ p.hi ≤ L ∧ p.strand = dirStrand fwd)
    ∧ (orfLoc fwd n offset (some L) s e).len = orfLen s e
    ∧ ((orfLoc fwd n offset (some L) s e).isCompound = true ↔
        L < orfBase fwd n offset s e % L + orfLen s e)
    ∧ ((orfLoc fwd n offset (some L) s e).isCompound = true →
        (orfLoc fwd n offset (some L) s e).parts.length = 2)
    ∧ bridgesOrigin (orfLoc fwd n offset (some L) s e) = (orfLoc fwd n offset (some L) s e).isCompound := by
  rw [orfLoc_ring fwd n offset L s e hL hs hlen]
  have hnn : 0 ≤ orfBase fwd n offset s e % L := Int.emod_nonneg _ (by omega)
  have hlt : orfBase fwd n offset s e % L < L := Int.emod_lt_of_pos _ hL
  have hm : 0 < orfLen s e := by simp only [orfLen]; omega
  generalize orfBase fwd n offset s e % L = a at *
  generalize orfLen s e = m at *
  by_cases hc : a + m ≤ L
  · rw [if_pos hc]
    refine ⟨?_, ?_, ?_, ?_, ?_⟩
    · intro p hp
      simp only [Loc.parts, List.mem_singleton] at hp
      subst hp
      exact ⟨hnn, by simp only; omega, hc, rfl⟩
    · simp only [Loc.len, Loc.parts, Part.len, List.map_cons, List.map_nil, List.sum_cons, List.sum_nil]; omega
    · simp only [Loc.isCompound, Bool.false_eq_true, false_iff]; omega
    · intro h; simp only [Loc.isCompound, Bool.false_eq_true] at h
    · simp only [bridgesOrigin, Loc.isCompound]
  · rw [if_neg hc]
    cases fwd
    · simp only [Bool.false_eq_true, if_false]
      refine ⟨?_, ?_, ?_, ?_, ?_⟩
      · intro p hp
        simp only [Loc.parts, List.mem_cons, List.not_mem_nil, or_false] at hp
        rcases hp with rfl | rfl
        · exact ⟨Int.le_refl _, by simp only; omega, by simp only; omega, rfl⟩
        · exact ⟨hnn, hlt, Int.le_refl _, rfl⟩
      · simp only [Loc.len, Loc.parts, Part.len, List.map_cons, List.map_nil, List.sum_cons, List.sum_nil]; omega
      · simp only [Loc.isCompound, true_iff]; omega
      · intro _; rfl
      · have ha : (0 : Int) < a := by omega
        simp only [bridgesOrigin, Loc.strand, dirStrand, Bool.false_eq_true, if_false, List.all_cons,
          List.all_nil, Bool.and_true, beq_self_eq_true, if_true, orderInvalid, Loc.isCompound,
          Bool.or_false, decide_eq_true_eq, ha]
    · simp only [if_true]
      refine ⟨?_, ?_, ?_, ?_, ?_⟩
      · intro p hp
        simp only [Loc.parts, List.mem_cons, List.not_mem_nil, or_false] at hp
        rcases hp with rfl | rfl
        · exact ⟨hnn, hlt, Int.le_refl _, rfl⟩
        · exact ⟨Int.le_refl _, by simp only; omega, by simp only; omega, rfl⟩
      · simp only [Loc.len, Loc.parts, Part.len, List.map_cons, List.map_nil, List.sum_cons, List.sum_nil]; omega
      · simp only [Loc.isCompound, true_iff]; omega
      · intro _; rfl
      · have ha : (0 : Int) < a := by omega
        simp only [bridgesOrigin, Loc.strand, dirStrand, if_true, List.all_cons,
          List.all_nil, Bool.and_true, beq_self_eq_true, orderInvalid, Loc.isCompound,
          Bool.or_false, gt_iff_lt, ha, Bool.false_eq_true, if_false, decide_true]

end ASV.Orf
