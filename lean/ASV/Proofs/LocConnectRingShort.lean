/-
  The closed form of `connect_locations` on a ring lies inside every covering arc that is shorter
  than half the record — so it is the shortest covering arc whenever such an arc exists (C04).
-/
import ASV.Proofs.LocConnectRingHull
set_option linter.unusedSimpArgs false
set_option linter.unusedVariables false
namespace ASV

/-- `r` lies inside the arc `[a, b)` -/
def InArc1 (r : Loc) (a b : Int) : Prop := ∃ p, r = .simple p ∧ a ≤ p.lo ∧ p.hi ≤ b
/-- `r` lies inside the origin-crossing arc `[a, L) + [0, b)` -/
def InArc2 (r : Loc) (a b L : Int) : Prop :=
  (∃ p, r = .simple p ∧ ((a ≤ p.lo ∧ p.hi ≤ L) ∨ (0 ≤ p.lo ∧ p.hi ≤ b))) ∨
  (∃ p q, r = .compound [p, q] ∧ a ≤ p.lo ∧ p.hi ≤ L ∧ 0 ≤ q.lo ∧ q.hi ≤ b)

theorem one_chunk {L : Int} {rs : List RLoc} {p : Part} (hr : RLoc.one p ∈ rs) :
    fl p.lo p.hi ∈ preOf L rs ∨ fl p.lo p.hi ∈ postOf L rs := by
  by_cases hc : p.lo < L - p.hi
  · right; simp only [postOf, List.mem_flatMap]; exact ⟨_, hr, by simp [RLoc.post, hc]⟩
  · left; simp only [preOf, List.mem_flatMap]; exact ⟨_, hr, by simp [RLoc.pre, hc]⟩

theorem all_one_mem {rs : List RLoc} (h : ¬ rs.any RLoc.isTwo = true) {r : RLoc} (hr : r ∈ rs) : ∃ p, r = .one p := by
  cases r with
  | one p => exact ⟨p, rfl⟩
  | two x y => exact absurd (List.any_eq_true.2 ⟨_, hr, rfl⟩) h

/-- the ends of the hull of all locations are ends of locations -/
theorem hullOf_attained (L : Int) (rs : List RLoc) (hne : rs ≠ []) :
    ∃ r1 ∈ rs, ∃ r2 ∈ rs, hullOf (rs.map (RLoc.toLoc L)) =
      .simple ⟨(r1.toLoc L).start, (r2.toLoc L).end, commonStrand (rs.map (RLoc.toLoc L))⟩ := by
  have h1 : (rs.map (RLoc.toLoc L)).map (·.start) ≠ [] := by simpa using hne
  have h2 : (rs.map (RLoc.toLoc L)).map (·.end) ≠ [] := by simpa using hne
  obtain ⟨l1, hl1, e1⟩ := List.mem_map.1 (minList_mem h1)
  obtain ⟨l2, hl2, e2⟩ := List.mem_map.1 (maxList_mem h2)
  obtain ⟨r1, hr1, rfl⟩ := List.mem_map.1 hl1
  obtain ⟨r2, hr2, rfl⟩ := List.mem_map.1 hl2
  exact ⟨r1, hr1, r2, hr2, by rw [hullOf, ← e1, ← e2]⟩

/-! ### a covering arc that does not cross the origin -/

theorem connR_inArc1 (rs : List RLoc) (L : Int) (hL : 0 < L) (hne : rs ≠ []) (hok : ∀ r ∈ rs, r.OK L)
    (a b : Int) (hab : 2 * (b - a) < L)
    (hch : ∀ q, q ∈ preOf L rs ∨ q ∈ postOf L rs → a ≤ q.lo ∧ q.hi ≤ b) :
    InArc1 (connR rs L) a b := by
  unfold connR
  by_cases htwo : rs.any RLoc.isTwo = true
  · exfalso
    obtain ⟨hpre, hpost, hhi, hlo⟩ := hull_two_ends L _ hok htwo
    obtain ⟨_, ⟨q2, hq2, e2⟩⟩ := hullP_attained _ hpre
    obtain ⟨⟨q1, hq1, e1⟩, _⟩ := hullP_attained _ hpost
    have := hch q1 (Or.inr hq1)
    have := hch q2 (Or.inl hq2)
    omega
  · rw [if_neg htwo]
    unfold connA
    split
    · split
      · next hpost =>
        have hpre : preOf L rs ≠ [] := fun h => chunks_ne L rs hne h hpost
        obtain ⟨⟨q1, hq1, e1⟩, ⟨q2, hq2, e2⟩⟩ := hullP_attained _ hpre
        have := hch q1 (Or.inl hq1)
        have := hch q2 (Or.inl hq2)
        exact ⟨_, rfl, by omega, by omega⟩
      · split
        · next hpost hpre =>
          obtain ⟨⟨q1, hq1, e1⟩, ⟨q2, hq2, e2⟩⟩ := hullP_attained _ hpost
          have := hch q1 (Or.inr hq1)
          have := hch q2 (Or.inr hq2)
          exact ⟨_, rfl, by omega, by omega⟩
        · next hpost hpre =>
          obtain ⟨⟨q1, hq1, e1⟩, ⟨q2, hq2, e2⟩⟩ := hullP_attained _ hpre
          obtain ⟨⟨q3, hq3, e3⟩, ⟨q4, hq4, e4⟩⟩ := hullP_attained _ hpost
          have := hch q1 (Or.inl hq1)
          have := hch q2 (Or.inl hq2)
          have := hch q3 (Or.inr hq3)
          have := hch q4 (Or.inr hq4)
          obtain ⟨hu0, hu1, hu2, hu3⟩ := hull_pre hok hpre
          obtain ⟨hl0, hl1, hl2, hl3⟩ := hull_post hok hpost
          split
          · exfalso; omega
          · exact ⟨_, rfl, by dsimp only; omega, by dsimp only; omega⟩
    · obtain ⟨r1, hr1, r2, hr2, e⟩ := hullOf_attained L rs hne
      obtain ⟨p1, rfl⟩ := all_one_mem htwo hr1
      obtain ⟨p2, rfl⟩ := all_one_mem htwo hr2
      have := hch _ (one_chunk (L := L) hr1)
      have := hch _ (one_chunk (L := L) hr2)
      simp only [fl] at *
      exact ⟨_, e, by simp only [RLoc.toLoc, Loc.start]; omega, by simp only [RLoc.toLoc, Loc.end]; omega⟩

/-! ### a covering arc over the origin -/

/-- when locations lie on both sides of an origin-crossing arc shorter than half the record,
    going over the origin is judged shorter -/
theorem wrap_of_sides (rs : List RLoc) (L : Int) (hL : 0 < L) (hok : ∀ r ∈ rs, r.OK L)
    (hone : ¬ rs.any RLoc.isTwo = true) (a b : Int) (hb : b < a) (hab : 2 * (L - a + b) < L)
    (hside : ∀ p, RLoc.one p ∈ rs → a ≤ p.lo ∨ p.hi ≤ b)
    (p1 p2 : Part) (h1 : RLoc.one p1 ∈ rs) (h2 : RLoc.one p2 ∈ rs) (hd : p1.hi ≤ b) (hu : a ≤ p2.lo) :
    isWrappingShorter (rs.map (RLoc.toLoc L)) L = true := by
  have hne' : rs.map (RLoc.toLoc L) ≠ [] := by
    intro e; rw [List.map_eq_nil_iff] at e; subst e; cases h1
  have hnb : (rs.map (RLoc.toLoc L)).any bridgesOrigin = false := by
    rw [any_bridges_toLoc L rs hok]; simpa using hone
  have hpos : ∀ l ∈ rs.map (RLoc.toLoc L), l.start ≤ l.end := by
    intro l hl
    obtain ⟨r, hr, rfl⟩ := List.mem_map.1 hl
    have := toLoc_bounds (hok r hr); omega
  obtain ⟨f, rest, _, hf, hmin, _⟩ := sortLocs_head _ hne'
  rw [isWrappingShorter_iff _ L (by omega) hnb hpos f hf hmin]
  obtain ⟨rf, hrf, rfl⟩ := List.mem_map.1 hf
  obtain ⟨pf, rfl⟩ := all_one_mem hone hrf
  have hk := hmin _ (List.mem_map.2 ⟨_, h1, rfl⟩)
  have hokf : (RLoc.one pf).OK L := hok _ hrf
  have hok1 : (RLoc.one p1).OK L := hok _ h1
  simp only [RLoc.OK] at hokf hok1
  simp only [KeyLe, RLoc.toLoc, Loc.start, Loc.end] at hk
  have hsf := hside pf hrf
  refine ⟨_, List.mem_map.2 ⟨_, h2, rfl⟩, ?_⟩
  simp only [RLoc.toLoc, Loc.start, Loc.end]
  omega

theorem connR_inArc2 (rs : List RLoc) (L : Int) (hL : 0 < L) (hne : rs ≠ []) (hok : ∀ r ∈ rs, r.OK L)
    (a b : Int) (hb0 : 0 < b) (hb : b < a) (haL : a < L) (hab : 2 * (L - a + b) < L)
    (hpreC : ∀ q ∈ preOf L rs, a ≤ q.lo) (hpostC : ∀ q ∈ postOf L rs, q.hi ≤ b) :
    InArc2 (connR rs L) a b L := by
  unfold connR
  by_cases htwo : rs.any RLoc.isTwo = true
  · rw [if_pos htwo]
    obtain ⟨hpre, hpost, hhi, hlo⟩ := hull_two_ends L _ hok htwo
    obtain ⟨⟨q1, hq1, e1⟩, _⟩ := hullP_attained _ hpre
    obtain ⟨_, ⟨q4, hq4, e4⟩⟩ := hullP_attained _ hpost
    have := hpreC q1 hq1
    have := hpostC q4 hq4
    match rs, hok, htwo, hq1, hq4, e1, e4 with
    | [], _, htwo, _, _, _, _ => simp at htwo
    | [r1], hok, htwo, hq1, hq4, e1, e4 =>
      cases r1 with
      | one p => simp [RLoc.isTwo] at htwo
      | two x y =>
        simp only [preOf, postOf, List.flatMap_cons, List.flatMap_nil, List.append_nil, RLoc.pre, RLoc.post,
          List.mem_singleton] at hq1 hq4
        subst hq1; subst hq4
        simp only [fl] at *
        exact Or.inr ⟨_, _, rfl, by simp only [fl]; omega, by simp only [fl]; omega, by simp only [fl]; omega,
          by simp only [fl]; omega⟩
    | r1 :: r2 :: rest, hok, htwo, hq1, hq4, e1, e4 =>
      simp only [connB]
      rw [if_pos ⟨by omega, by omega⟩]
      exact Or.inr ⟨_, _, rfl, by dsimp only; omega, by dsimp only; omega, by dsimp only; omega, by dsimp only; omega⟩
  · rw [if_neg htwo]
    unfold connA
    split
    · split
      · next hpost =>
        have hpre : preOf L rs ≠ [] := fun h => chunks_ne L rs hne h hpost
        obtain ⟨hu0, hu1, hu2, hu3⟩ := hull_pre hok hpre
        obtain ⟨⟨q1, hq1, e1⟩, _⟩ := hullP_attained _ hpre
        have := hpreC q1 hq1
        exact Or.inl ⟨_, rfl, Or.inl ⟨by omega, by omega⟩⟩
      · split
        · next hpost hpre =>
          obtain ⟨hl0, hl1, hl2, hl3⟩ := hull_post hok hpost
          obtain ⟨_, ⟨q4, hq4, e4⟩⟩ := hullP_attained _ hpost
          have := hpostC q4 hq4
          exact Or.inl ⟨_, rfl, Or.inr ⟨by omega, by omega⟩⟩
        · next hpost hpre =>
          obtain ⟨hu0, hu1, hu2, hu3⟩ := hull_pre hok hpre
          obtain ⟨hl0, hl1, hl2, hl3⟩ := hull_post hok hpost
          obtain ⟨⟨q1, hq1, e1⟩, _⟩ := hullP_attained _ hpre
          obtain ⟨_, ⟨q4, hq4, e4⟩⟩ := hullP_attained _ hpost
          have := hpreC q1 hq1
          have := hpostC q4 hq4
          split
          · exact Or.inr ⟨_, _, rfl, by simp only [fl]; omega, by simp only [fl]; omega, by simp only [fl]; omega,
              by simp only [fl]; omega⟩
          · exfalso; omega
    · next hw =>
      obtain ⟨r1, hr1, r2, hr2, e⟩ := hullOf_attained L rs hne
      obtain ⟨p1, rfl⟩ := all_one_mem htwo hr1
      obtain ⟨p2, rfl⟩ := all_one_mem htwo hr2
      have hside : ∀ p, RLoc.one p ∈ rs → a ≤ p.lo ∨ p.hi ≤ b := by
        intro p hp
        by_cases hc : p.lo < L - p.hi
        · right
          have := hpostC (fl p.lo p.hi) (by simp only [postOf, List.mem_flatMap]; exact ⟨_, hp, by simp [RLoc.post, hc]⟩)
          simpa [fl] using this
        · left
          have := hpreC (fl p.lo p.hi) (by simp only [preOf, List.mem_flatMap]; exact ⟨_, hp, by simp [RLoc.pre, hc]⟩)
          simpa [fl] using this
      have hok1 : (RLoc.one p1).OK L := hok _ hr1
      have hok2 : (RLoc.one p2).OK L := hok _ hr2
      simp only [RLoc.OK] at hok1 hok2
      have hmin : (RLoc.toLoc L (.one p1)).start ≤ (RLoc.toLoc L (.one p2)).start := by
        have h3 : minList ((rs.map (RLoc.toLoc L)).map (·.start)) ≤ (RLoc.toLoc L (.one p2)).start :=
          minList_le_of_mem (List.mem_map.2 ⟨_, List.mem_map.2 ⟨_, hr2, rfl⟩, rfl⟩)
        have e' := e
        simp only [hullOf, Loc.simple.injEq, Part.mk.injEq] at e'
        omega
      simp only [RLoc.toLoc, Loc.start] at hmin
      rcases hside p1 hr1 with s1 | s1 <;> rcases hside p2 hr2 with s2 | s2
      · exact Or.inl ⟨_, e, Or.inl ⟨by simp only [RLoc.toLoc, Loc.start]; omega, by simp only [RLoc.toLoc, Loc.end]; omega⟩⟩
      · exfalso; omega
      · exfalso
        exact hw (wrap_of_sides rs L hL hok htwo a b hb hab hside p1 p2 hr1 hr2 s1 s2)
      · exact Or.inl ⟨_, e, Or.inr ⟨by simp only [RLoc.toLoc, Loc.start]; omega, by simp only [RLoc.toLoc, Loc.end]; omega⟩⟩

/-! ### from a covering span to the two arc shapes -/

theorem arc_cases (c : Loc) (L : Int) (hwf : areaWF L L c = true) (hlen : 2 * c.len < L) :
    (∃ a b, 0 ≤ a ∧ a < b ∧ b ≤ L ∧ c.len = b - a ∧ ∀ i, c.mem i = true ↔ (a ≤ i ∧ i < b)) ∨
    (∃ a b, 0 < b ∧ b < a ∧ a < L ∧ c.len = L - a + b ∧
      ∀ i, c.mem i = true ↔ ((a ≤ i ∧ i < L) ∨ (0 ≤ i ∧ i < b))) := by
  match hp : c.parts with
  | [] => simp [areaWF, hp] at hwf
  | [p] =>
    simp only [areaWF, hp, Bool.and_eq_true, decide_eq_true_eq] at hwf
    left
    refine ⟨p.lo, p.hi, by omega, by omega, by omega, ?_, ?_⟩
    · simp [Loc.len, hp, Part.len]
    · intro i; simp [Loc.mem, hp, Part.mem_iff]
  | [p, q] =>
    simp only [areaWF, hp, Bool.and_eq_true, decide_eq_true_eq] at hwf
    have hl : c.len = (p.hi - p.lo) + (q.hi - q.lo) := by simp [Loc.len, hp, Part.len]
    right
    refine ⟨p.lo, q.hi, by omega, by omega, by omega, by omega, ?_⟩
    intro i
    simp only [Loc.mem, hp, List.any_cons, List.any_nil, Bool.or_false, Bool.or_eq_true, Part.mem_iff]
    omega
  | _ :: _ :: _ :: _ => simp [areaWF, hp] at hwf

theorem chunk_covered {L : Int} {rs : List RLoc} {c : Loc}
    (hcov : ∀ r ∈ rs, ∀ i, (r.toLoc L).mem i = true → c.mem i = true) {q : Part}
    (hq : q ∈ preOf L rs ∨ q ∈ postOf L rs) (i : Int) (h1 : q.lo ≤ i) (h2 : i < q.hi) : c.mem i = true := by
  rcases hq with hq | hq
  · simp only [preOf, List.mem_flatMap] at hq
    obtain ⟨r, hr, hq⟩ := hq
    apply hcov r hr
    cases r with
    | one p =>
      simp only [RLoc.pre] at hq
      split at hq
      · cases hq
      · simp only [List.mem_singleton] at hq; subst hq
        simp only [fl] at h1 h2
        simp only [RLoc.toLoc, mem_simple]; omega
    | two x y =>
      simp only [RLoc.pre, List.mem_singleton] at hq; subst hq
      simp only [fl] at h1 h2
      simp only [RLoc.toLoc, mem_two, fl]; omega
  · simp only [postOf, List.mem_flatMap] at hq
    obtain ⟨r, hr, hq⟩ := hq
    apply hcov r hr
    cases r with
    | one p =>
      simp only [RLoc.post] at hq
      split at hq
      · simp only [List.mem_singleton] at hq; subst hq
        simp only [fl] at h1 h2
        simp only [RLoc.toLoc, mem_simple]; omega
      · cases hq
    | two x y =>
      simp only [RLoc.post, List.mem_singleton] at hq; subst hq
      simp only [fl] at h1 h2
      simp only [RLoc.toLoc, mem_two, fl]; omega

/-- the closed form lies inside every well-formed span `c` that covers all the locations and is
    shorter than half the record: it has no base outside `c` and is not longer than `c` -/
theorem connR_shortest (rs : List RLoc) (L : Int) (hL : 0 < L) (hne : rs ≠ []) (hok : ∀ r ∈ rs, r.OK L)
    (c : Loc) (hwf : areaWF L L c = true) (hlen : 2 * c.len < L)
    (hcov : ∀ r ∈ rs, ∀ i, (r.toLoc L).mem i = true → c.mem i = true) :
    (connR rs L).len ≤ c.len ∧ ∀ i, (connR rs L).mem i = true → c.mem i = true := by
  rcases arc_cases c L hwf hlen with ⟨a, b, ha0, hab, hbL, hcl, hmem⟩ | ⟨a, b, hb0, hba, haL, hcl, hmem⟩
  · have hch : ∀ q, q ∈ preOf L rs ∨ q ∈ postOf L rs → a ≤ q.lo ∧ q.hi ≤ b := by
      intro q hq
      have hne' : q.lo < q.hi := by
        rcases hq with h | h
        · exact (mem_preOf hok h).2.2.1
        · exact (mem_postOf hok h).2.2.1
      have m1 := (hmem _).1 (chunk_covered hcov hq q.lo (by omega) hne')
      have m2 := (hmem _).1 (chunk_covered hcov hq (q.hi - 1) (by omega) (by omega))
      omega
    obtain ⟨p, hp, h1, h2⟩ := connR_inArc1 rs L hL hne hok a b (by omega) hch
    rw [hp]
    refine ⟨by rw [len_simple]; omega, ?_⟩
    intro i hi
    rw [mem_simple] at hi
    exact (hmem i).2 (by omega)
  · have hside : ∀ q, q ∈ preOf L rs ∨ q ∈ postOf L rs → (a ≤ q.lo ∧ q.hi ≤ L) ∨ (0 ≤ q.lo ∧ q.hi ≤ b) := by
      intro q hq
      have hb' : 0 ≤ q.lo ∧ q.lo < q.hi ∧ q.hi ≤ L := by
        rcases hq with h | h
        · have := mem_preOf hok h; omega
        · have := mem_postOf hok h; omega
      have m1 := (hmem _).1 (chunk_covered hcov hq q.lo (by omega) hb'.2.1)
      have m2 := (hmem _).1 (chunk_covered hcov hq (q.hi - 1) (by omega) (by omega))
      by_cases hx : q.lo < b ∧ a ≤ q.hi - 1
      · have m3 := (hmem _).1 (chunk_covered hcov hq b (by omega) (by omega))
        omega
      · omega
    have hpreC : ∀ q ∈ preOf L rs, a ≤ q.lo := by
      intro q hq
      have := mem_preOf hok hq
      have := hside q (Or.inl hq)
      omega
    have hpostC : ∀ q ∈ postOf L rs, q.hi ≤ b := by
      intro q hq
      have := mem_postOf hok hq
      have := hside q (Or.inr hq)
      omega
    rcases connR_inArc2 rs L hL hne hok a b hb0 hba haL (by omega) hpreC hpostC with
      ⟨p, hp, hs⟩ | ⟨p, q, hp, h1, h2, h3, h4⟩
    · rw [hp]
      refine ⟨by rw [len_simple]; omega, ?_⟩
      intro i hi
      rw [mem_simple] at hi
      exact (hmem i).2 (by omega)
    · rw [hp]
      refine ⟨by rw [len_two]; omega, ?_⟩
      intro i hi
      rw [mem_two] at hi
      exact (hmem i).2 (by omega)

end ASV
