/-
  C19 helper lemmas, part 8: from the region's children to the drawing — whatever order
  `get_unique_protoclusters` delivers the region's protoclusters in, the statements about
  `build_area_rows` transfer to "the protoclusters of the region's candidate clusters".
-/
import ASV.Proofs.PackingUnique
import ASV.Proofs.PackingBuild
namespace ASV.Packing
open ASV ASV.Packing.Spec

theorem uniqueProtoclusters_perm (c : Ctx) (cands : List Cand)
    (hid : idsConsistent (cands.flatMap (·.members)) = true) :
    (uniqueProtoclusters c cands).Perm (regionProtos cands) :=
  (sortByKey_perm c _).trans (gather_perm_regionProtos cands hid)

/-- well-formedness only looks at membership, so it transfers along a permutation -/
theorem inputOK_of_perm {c : Ctx} {subs cs : List Feat} {ps qs : List Feat} (hp : ps.Perm qs)
    (h : inputOK c ⟨subs, cs, qs⟩ = true) : inputOK c ⟨subs, cs, ps⟩ = true := by
  simp only [inputOK, Bool.and_eq_true, List.all_eq_true] at h ⊢
  exact ⟨h.1, fun x hx => h.2 x (hp.subset hx)⟩

theorem toDraw_perm {subs cs ps qs : List Feat} (hp : ps.Perm qs) :
    (toDraw ⟨subs, cs, ps⟩).Perm (toDraw ⟨subs, cs, qs⟩) := by
  simp only [toDraw]
  exact List.Perm.append_left _ hp

theorem complete_of_perm {L : Int} {subs cs ps qs : List Feat} {out : List Area} (hp : ps.Perm qs)
    (h : Complete L ⟨subs, cs, ps⟩ out) : Complete L ⟨subs, cs, qs⟩ out := by
  obtain ⟨ds, h1, ⟨ss, h2, h3⟩, h4⟩ := h
  exact ⟨ds, h1, ⟨ss, h2, h3.trans ((toDraw_perm hp).map _)⟩, h4⟩

end ASV.Packing
