/-
  C14 helper lemmas, part 3: `addComponent` — what a successful step establishes (`StepOK`),
  and that a failing step is always an `IncompatibleComponentError` on a non-empty module with
  no pending look-ahead acceptance.
-/
import ASV.Proofs.ModulesStep
namespace ASV.Modules
open T Spec

/-- what one accepted `add_component` call establishes -/
structure StepOK (m : Module) (c : Comp) (la : List Comp) (m' : Module) : Prop where
  inv : StateInv m'
  comps : m'.components = m.components ++ [c]
  first : m'.firstInCds = m.firstInCds
  unamb : m'.unambiguous = (if m.unambiguous > 0 then m.unambiguous - 1
                            else if c.isCarrierProtein && m.carrier.isSome then 2 else 0)
  valid : m.unambiguous = 0 → c.isCarrierProtein = true → m.carrier.isSome = true →
            dtValid (la.map (·.label)) = true
  pos : positionOK m.components c la = true

/-- slot-wise description of a step that keeps the invariant -/
theorem stateInv_snoc {m m' : Module} {c : Comp} (hI : StateInv m) (hc : c.isIgnored = false)
    (h1 : m'.components = m.components ++ [c])
    (h2 : m'.starter = orSnoc m.starter c.isStarter c)
    (h3 : m'.loader = orSnoc m.loader c.isLoader c)
    (h4 : m'.carrier = orSnoc m.carrier c.isCarrierProtein c)
    (h5 : m'.end_ = orSnoc m.end_ c.isEnd c)
    (h6 : m'.modifications = m.modifications ++ (if c.isModification then [c] else []))
    (h7 : m'.others.any (fun c => c.label == transAtDocking)
          = (m.others.any (fun c => c.label == transAtDocking) || c.label == transAtDocking))
    (h8 : m'.starterIsLoader = (m.starterIsLoader || (m.starter.isNone && c.isStarter && c.isLoader)))
    (h9 : m'.unambiguous = 2 → c.isCarrierProtein = true ∧ m.carrier.isSome = true)
    (h10 : m'.unambiguous = 1 → m.unambiguous = 2)
    (h11 : m'.unambiguous ≤ 2)
    (h12 : m'.unambiguous > 0 → m'.end_ = none) : StateInv m' := by
  constructor
  · rw [h2, h1, hI.starter]; unfold starterOf; rw [find?_snoc]
  · rw [h3, h1, hI.loader]; unfold loaderOf; rw [find?_snoc]
  · rw [h4, h1, hI.carrier]; unfold carrierOf; rw [find?_snoc]
  · rw [h5, h1, hI.end_]; unfold endOf; rw [find?_snoc]
  · rw [h6, h1, hI.mods, List.filter_append]
    cases hm : c.isModification <;> simp [List.filter_cons, hm]
  · rw [h7, h1, hI.docking]; simp
  · rw [h8, h1, hI.starter, hI.sil]; unfold starterOf; rw [find?_snoc]
    cases List.find? Comp.isStarter m.components with
    | some s => simp [orSnoc]
    | none => cases c.isStarter <;> simp [orSnoc]
  · intro x hx; rw [h1] at hx
    rcases List.mem_append.mp hx with hx | hx
    · exact hI.noIgn x hx
    · simp at hx; rw [hx]; exact hc
  · intro h; rw [h1, extraCarrierAt_snoc0]
    obtain ⟨a, b⟩ := h9 h
    rw [a, Bool.true_and]
    have := hI.carrier_isSome; rw [b] at this; exact this.symm
  · intro h; rw [h1, extraCarrierAt_snoc]; exact hI.pend2 (h10 h)
  · exact h11
  · exact h12

def push (c : Comp) (m2 : Module) : Module := { m2 with components := m2.components ++ [c] }

def andThen {α β} (r : Except Err α) (f : α → Except Err β) : Except Err β :=
  match r with
  | .ok a => f a
  | .error e => .error e

/-- without a pending acceptance `addComponent` is the suitability check followed by `place` -/
theorem add_unfold0 (m : Module) (c : Comp) (la : List Comp) (h0 : m.unambiguous = 0)
    (hc : c.isIgnored = false) :
    addComponent m c la =
      andThen (ensureSuitable m c la) fun _ => andThen (place m c la) fun m2 => .ok (push c m2) := by
  unfold addComponent
  simp only [hc, h0, Nat.lt_irrefl, gt_iff_lt, if_false, Bool.false_eq_true]
  cases ensureSuitable m c la with
  | ok u => cases u; dsimp only [andThen]; cases place m c la <;> rfl
  | error e => rfl

/-- with a pending acceptance the check is skipped -/
theorem add_unfold1 (m : Module) (c : Comp) (la : List Comp) (h0 : m.unambiguous > 0)
    (hc : c.isIgnored = false) :
    addComponent m c la =
      andThen (place { m with unambiguous := m.unambiguous - 1 } c la) fun m2 => .ok (push c m2) := by
  unfold addComponent
  simp only [hc, h0, if_true, Bool.false_eq_true, if_false]
  dsimp only [andThen]
  cases place { m with unambiguous := m.unambiguous - 1 } c la <;> rfl

theorem add_ignored (m : Module) (c : Comp) (la : List Comp) (hc : c.isIgnored = true) :
    addComponent m c la = .ok m := by
  unfold addComponent; simp [hc]


@[simp] theorem orSnoc_false {α} (o : Option α) (a : α) : orSnoc o false a = o := by
  cases o <;> rfl
@[simp] theorem orSnoc_none_true {α} (a : α) : orSnoc none true a = some a := rfl
@[simp] theorem orSnoc_some {α} (x : α) (b : Bool) (a : α) : orSnoc (some x) b a = some x := rfl

theorem isSome_false_iff {α} (o : Option α) : o.isSome = false ↔ o = none := by
  cases o <;> simp

/-- the common shape of the per-kind lemmas -/
def StepResult (m : Module) (c : Comp) (la : List Comp) : Prop :=
  (addComponent m c la = .error .incompatible ∧ m.unambiguous = 0 ∧ m.components ≠ [])
  ∨ ∃ m', addComponent m c la = .ok m' ∧ StepOK m c la m'

theorem add_special {m : Module} {c : Comp} {la : List Comp} (hI : StateInv m)
    (hk : kindOf c = .special) (h0 : m.unambiguous = 0) : StepResult m c la := by
  obtain ⟨b1, b2, b3, b4, b5, b6, b7⟩ := cls c _ hk
  simp only [Kind.bits] at b1 b2 b3 b4 b5 b6 b7
  have he : ensureSuitable m c la = .ok () := by simp [ensureSuitable, b1, b2]
  have hp : place m c la = .ok { m with others := m.others ++ [c] } := by
    simp [place, b3, b4, b5, b6, b7]
  refine Or.inr ⟨_, by rw [add_unfold0 m c la h0 b1, he, hp]; rfl, ?_⟩
  constructor
  · apply stateInv_snoc hI b1 <;> simp [push, b3, b4, b5, b6, b7, h0]
  · rfl
  · rfl
  · simp [push, h0, b6]
  · intro _ h; rw [b6] at h; cases h
  · simp [positionOK, b1, b2]


/-- the suitability check never trips its own assertion -/
theorem ensure_err (m : Module) (c : Comp) (la : List Comp) (e : Err)
    (h : ensureSuitable m c la = .error e) : e = .incompatible := by
  unfold ensureSuitable at h
  repeat' split at h
  all_goals first
    | (injection h with h; exact h.symm)
    | (cases h)
    | simp_all

theorem StateInv.empty_slots {m : Module} (hI : StateInv m) (h : m.components = []) :
    m.starter = none ∧ m.loader = none ∧ m.carrier = none ∧ m.end_ = none ∧ m.modifications = [] := by
  refine ⟨?_, ?_, ?_, ?_, ?_⟩
  · rw [hI.starter, h]; rfl
  · rw [hI.loader, h]; rfl
  · rw [hI.carrier, h]; rfl
  · rw [hI.end_, h]; rfl
  · rw [hI.mods, h]; rfl

/-- nothing is refused by an empty module -/
theorem ensure_empty {m : Module} (hI : StateInv m) (h : m.components = []) (c : Comp) (la : List Comp) :
    ensureSuitable m c la = .ok () := by
  obtain ⟨h1, h2, h3, h4, h5⟩ := hI.empty_slots h
  unfold ensureSuitable
  simp [h, h1, h2, h3, h4, h5]


theorem not_docking (c : Comp) (h : kindOf c ≠ .special) : (c.label == transAtDocking) = false := by
  cases hd : (c.label == transAtDocking) with
  | false => rfl
  | true => exact absurd (docking_special c hd) h

theorem any_false_of_filter_nil {α} (p : α → Bool) (l : List α) (h : l.filter p = []) : l.any p = false := by
  rw [Bool.eq_false_iff]; intro ha
  rw [List.any_eq_true] at ha
  obtain ⟨x, hx, hp⟩ := ha
  have : x ∈ l.filter p := List.mem_filter.mpr ⟨hx, hp⟩
  rw [h] at this; cases this

theorem any_or3 {α} (a b d : α → Bool) (l : List α) :
    l.any (fun p => a p || b p || d p) = (l.any a || l.any b || l.any d) := by
  induction l with
  | nil => rfl
  | cons x l ih =>
    simp only [List.any_cons, ih]
    cases a x <;> cases b x <;> cases d x <;> cases l.any a <;> cases l.any b <;> cases l.any d <;> rfl

theorem stepResult_of {m : Module} {c : Comp} {la : List Comp} (hI : StateInv m)
    (h0 : m.unambiguous = 0) (hc : c.isIgnored = false)
    (H : ensureSuitable m c la = .ok () → ∃ m2, place m c la = .ok m2 ∧ StepOK m c la (push c m2)) :
    StepResult m c la := by
  cases he : ensureSuitable m c la with
  | error e =>
    have := ensure_err m c la e he; subst this
    refine Or.inl ⟨by rw [add_unfold0 m c la h0 hc, he]; rfl, h0, ?_⟩
    intro hcs; rw [ensure_empty hI hcs] at he; cases he
  | ok u =>
    cases u
    obtain ⟨m2, hp, hs⟩ := H he
    exact Or.inr ⟨_, by rw [add_unfold0 m c la h0 hc, he, hp]; rfl, hs⟩

/-- an accepted non-special component means the module has no terminating domain yet -/
theorem ensure_ok_end {m : Module} {c : Comp} {la : List Comp} (he : ensureSuitable m c la = .ok ())
    (b1 : c.isIgnored = false) (b2 : c.isSpecial = false) : m.end_ = none := by
  cases hE : m.end_ with
  | none => rfl
  | some e => simp [ensureSuitable, b1, b2, hE] at he

theorem add_pureStarter {m : Module} {c : Comp} {la : List Comp} (hI : StateInv m)
    (hk : kindOf c = .pureStarter) (h0 : m.unambiguous = 0) : StepResult m c la := by
  obtain ⟨b1, b2, b3, b4, b5, b6, b7⟩ := cls c _ hk
  simp only [Kind.bits] at b1 b2 b3 b4 b5 b6 b7
  apply stepResult_of hI h0 b1
  intro he
  have hE := ensure_ok_end he b1 b2
  have he2 : m.components = [] := by
    cases hC : m.components with
    | nil => rfl
    | cons x xs => simp [ensureSuitable, b1, b2, b3, b4, hE, hC] at he
  obtain ⟨s1, s2, s3, s4, s5⟩ := hI.empty_slots he2
  refine ⟨{ m with starter := some c }, by simp [place, b3, b4, s1], ?_⟩
  have hd := not_docking c (by rw [hk]; decide)
  constructor
  · apply stateInv_snoc hI b1 <;> simp [push, b3, b4, b5, b6, b7, h0, s1, hd]
  · rfl
  · rfl
  · simp [push, h0, b6]
  · intro _ h; rw [b6] at h; cases h
  · simp [positionOK, b1, b2, b4, b5, b6, he2]

theorem add_other {m : Module} {c : Comp} {la : List Comp} (hI : StateInv m)
    (hk : kindOf c = .other) (h0 : m.unambiguous = 0) : StepResult m c la := by
  obtain ⟨b1, b2, b3, b4, b5, b6, b7⟩ := cls c _ hk
  simp only [Kind.bits] at b1 b2 b3 b4 b5 b6 b7
  apply stepResult_of hI h0 b1
  intro he
  have hE := ensure_ok_end he b1 b2
  refine ⟨{ m with others := m.others ++ [c] }, by simp [place, b3, b4, b5, b6, b7], ?_⟩
  have hend : m.components.any Comp.isEnd = false := by rw [← hI.end_isSome, hE]; rfl
  constructor
  · apply stateInv_snoc hI b1 <;> simp [push, b3, b4, b5, b6, b7, h0]
  · rfl
  · rfl
  · simp [push, h0, b6]
  · intro _ h; rw [b6] at h; cases h
  · simp only [positionOK, b1, b2, b4, b5, b6, pureStarter, b3, hend]; rfl

theorem add_end {m : Module} {c : Comp} {la : List Comp} (hI : StateInv m)
    (hk : kindOf c = .end_) (h0 : m.unambiguous = 0) : StepResult m c la := by
  obtain ⟨b1, b2, b3, b4, b5, b6, b7⟩ := cls c _ hk
  simp only [Kind.bits] at b1 b2 b3 b4 b5 b6 b7
  apply stepResult_of hI h0 b1
  intro he
  have hE := ensure_ok_end he b1 b2
  refine ⟨{ m with end_ := some c }, by simp [place, b3, b4, b5, b6, b7, hE], ?_⟩
  have hend : m.components.any Comp.isEnd = false := by rw [← hI.end_isSome, hE]; rfl
  have hd := not_docking c (by rw [hk]; decide)
  constructor
  · apply stateInv_snoc hI b1 <;> simp [push, b3, b4, b5, b6, b7, h0, hE, hd]
  · rfl
  · rfl
  · simp [push, h0, b6]
  · intro _ h; rw [b6] at h; cases h
  · simp only [positionOK, b1, b2, b4, b5, b6, pureStarter, b3, hend]; rfl


theorem add_loader {m : Module} {c : Comp} {la : List Comp} (hI : StateInv m)
    (hk : kindOf c = .loader) (h0 : m.unambiguous = 0) : StepResult m c la := by
  obtain ⟨b1, b2, b3, b4, b5, b6, b7⟩ := cls c _ hk
  simp only [Kind.bits] at b1 b2 b3 b4 b5 b6 b7
  apply stepResult_of hI h0 b1
  intro he
  have hE := ensure_ok_end he b1 b2
  have hL : m.loader = none := by
    cases hL : m.loader with
    | none => rfl
    | some l => simp [ensureSuitable, b1, b2, b3, b4, hE, hL] at he
  have hmix : noMix m.components c = true := by
    unfold noMix; rw [← hI.starter]
    cases hS : m.starter with
    | none => rfl
    | some s =>
      cases h1 : (s.isPksSpecific && c.isNrpsSpecific) with
      | true => simp [ensureSuitable, b1, b2, b3, b4, hE, hL, hS, h1] at he
      | false =>
        cases h2 : (s.isNrpsSpecific && c.isPksSpecific) with
        | true => simp [ensureSuitable, b1, b2, b3, b4, hE, hL, hS, h1, h2] at he
        | false => simp [h1, h2]
  have hC : m.carrier = none := by
    cases hC : m.carrier with
    | none => rfl
    | some x =>
      unfold noMix at hmix; rw [← hI.starter] at hmix
      cases hS : m.starter with
      | none => simp [ensureSuitable, b1, b2, b3, b4, hE, hL, hS, hC] at he
      | some s =>
        rw [hS] at hmix; simp at hmix
        simp [ensureSuitable, b1, b2, b3, b4, hE, hL, hS, hC, hmix] at he
  have hM : m.modifications = [] := by
    cases hM : m.modifications with
    | nil => rfl
    | cons x xs =>
      unfold noMix at hmix; rw [← hI.starter] at hmix
      cases hS : m.starter with
      | none => simp [ensureSuitable, b1, b2, b3, b4, hE, hL, hS, hC, hM] at he
      | some s =>
        rw [hS] at hmix; simp at hmix
        simp [ensureSuitable, b1, b2, b3, b4, hE, hL, hS, hC, hM, hmix] at he
  have hend : m.components.any Comp.isEnd = false := by rw [← hI.end_isSome, hE]; rfl
  have hlo : m.components.any Comp.isLoader = false := by rw [← hI.loader_isSome, hL]; rfl
  have hcp : m.components.any Comp.isCarrierProtein = false := by
    have := hI.carrier_isSome; rw [hC] at this; exact this.symm
  have hmd : m.components.any Comp.isModification = false :=
    any_false_of_filter_nil _ _ (by rw [← hI.mods, hM])
  have hd := not_docking c (by rw [hk]; decide)
  have hpos : positionOK m.components c la = true := by
    simp only [positionOK, b1, b2, b4, b5, b6, pureStarter, b3, hend, hlo, hmix, any_or3, hcp, hmd]; rfl
  cases hS : m.starter with
  | none =>
    refine ⟨{ m with starter := some c, loader := some c, starterIsLoader := true },
            by simp [place, b3, b4, hS, hL], ?_⟩
    constructor
    · apply stateInv_snoc hI b1 <;> simp [push, b3, b4, b5, b6, b7, h0, hS, hL, hd, hE]
    · rfl
    · rfl
    · simp [push, h0, b6]
    · intro _ h; rw [b6] at h; cases h
    · exact hpos
  | some s =>
    refine ⟨{ m with loader := some c }, by simp [place, b3, b4, hS, hL], ?_⟩
    constructor
    · apply stateInv_snoc hI b1 <;> simp [push, b3, b4, b5, b6, b7, h0, hS, hL, hd, hE]
    · rfl
    · rfl
    · simp [push, h0, b6]
    · intro _ h; rw [b6] at h; cases h
    · exact hpos


theorem add_mod {m : Module} {c : Comp} {la : List Comp} (hI : StateInv m)
    (hk : kindOf c = .modification) (h0 : m.unambiguous = 0) : StepResult m c la := by
  obtain ⟨b1, b2, b3, b4, b5, b6, b7⟩ := cls c _ hk
  simp only [Kind.bits] at b1 b2 b3 b4 b5 b6 b7
  apply stepResult_of hI h0 b1
  intro he
  have hE := ensure_ok_end he b1 b2
  have hK : (m.carrier.isSome && !(m.isTransAt && c.label == transAtKrLabel)) = false := by
    cases hK : (m.carrier.isSome && !(m.isTransAt && c.label == transAtKrLabel)) with
    | false => rfl
    | true =>
      simp [ensureSuitable, b1, b2, b3, b4, b5, hE] at he
      simp at hK
      obtain ⟨h1, h2⟩ := he hK.1
      rcases hK.2 with h | h
      · rw [h1] at h; cases h
      · exact absurd h2 h
  refine ⟨{ m with modifications := m.modifications ++ [c] }, by simp [place, b3, b4, b5], ?_⟩
  have hend : m.components.any Comp.isEnd = false := by rw [← hI.end_isSome, hE]; rfl
  have hd := not_docking c (by rw [hk]; decide)
  constructor
  · apply stateInv_snoc hI b1 <;> simp [push, b3, b4, b5, b6, b7, h0, hd]
  · rfl
  · rfl
  · simp [push, h0, b6]
  · intro _ h; rw [b6] at h; cases h
  · rw [hI.carrier_isSome, hI.isTransAt_eq] at hK
    simp only [positionOK, b1, b2, b4, b5, b6, pureStarter, b3, hend]
    cases hc : hasCarrier m.components with
    | false => simp
    | true =>
      rw [hc] at hK; simp at hK
      simp [hK]

theorem add_mod_pending {m : Module} {c : Comp} {la : List Comp} (hI : StateInv m)
    (hk : kindOf c = .modification) (h0 : m.unambiguous > 0) :
    ∃ m', addComponent m c la = .ok m' ∧ StepOK m c la m' := by
  obtain ⟨b1, b2, b3, b4, b5, b6, b7⟩ := cls c _ hk
  simp only [Kind.bits] at b1 b2 b3 b4 b5 b6 b7
  have hp : place { m with unambiguous := m.unambiguous - 1 } c la
      = .ok { m with unambiguous := m.unambiguous - 1, modifications := m.modifications ++ [c] } := by
    simp [place, b3, b4, b5]
  refine ⟨_, by rw [add_unfold1 m c la h0 b1, hp]; rfl, ?_⟩
  have hE := hI.pendEnd h0
  have hle := hI.pendLe
  have hend : m.components.any Comp.isEnd = false := by rw [← hI.end_isSome, hE]; rfl
  have hd := not_docking c (by rw [hk]; decide)
  constructor
  · apply stateInv_snoc hI b1 <;> simp [push, b3, b4, b5, b6, b7, hd, hE] <;> omega
  · rfl
  · rfl
  · simp [push, h0]
  · intro h; omega
  · simp only [positionOK, b1, b2, b4, b5, b6, pureStarter, b3, hend, followsExtraCarrier]
    have : m.unambiguous = 1 ∨ m.unambiguous = 2 := by omega
    rcases this with h | h
    · simp [hI.pend1 h]
    · simp [hI.pend2 h]

theorem add_carrier {m : Module} {c : Comp} {la : List Comp} (hI : StateInv m)
    (hk : kindOf c = .carrier) (h0 : m.unambiguous = 0) : StepResult m c la := by
  obtain ⟨b1, b2, b3, b4, b5, b6, b7⟩ := cls c _ hk
  simp only [Kind.bits] at b1 b2 b3 b4 b5 b6 b7
  apply stepResult_of hI h0 b1
  intro he
  have hE := ensure_ok_end he b1 b2
  have hend : m.components.any Comp.isEnd = false := by rw [← hI.end_isSome, hE]; rfl
  have hd := not_docking c (by rw [hk]; decide)
  cases hC : m.carrier with
  | none =>
    have hcp : hasCarrier m.components = false := by rw [← hI.carrier_isSome, hC]; rfl
    refine ⟨{ m with carrier := some c }, by simp [place, b3, b4, b5, b6, hC], ?_⟩
    constructor
    · apply stateInv_snoc hI b1 <;> simp [push, b3, b4, b5, b6, b7, h0, hd, hC]
    · rfl
    · rfl
    · simp [push, h0, b6, hC]
    · intro _ _ h; rw [hC] at h; cases h
    · simp only [positionOK, b1, b2, b4, b5, b6, pureStarter, b3, hend, hcp]; rfl
  | some x =>
    have hV : dtValid (la.map (·.label)) = true := by
      cases hV : dtValid (la.map (·.label)) with
      | true => rfl
      | false => simp [ensureSuitable, b1, b2, b3, b4, b5, b6, hE, hC, hV] at he
    have hcp : hasCarrier m.components = true := by rw [← hI.carrier_isSome, hC]; rfl
    refine ⟨{ m with unambiguous := 2, others := m.others ++ [c] },
            by simp [place, b3, b4, b5, b6, hC, dtLongest_eq, hV], ?_⟩
    constructor
    · apply stateInv_snoc hI b1 <;> simp [push, b3, b4, b5, b6, b7, hd, hC, hE]
    · rfl
    · rfl
    · simp [push, h0, b6, hC]
    · intro _ _ _; exact hV
    · simp only [positionOK, b1, b2, b4, b5, b6, pureStarter, b3, hend, hcp, dtPair_eq, hV]; rfl

/-- one `add_component` call on a module in a consistent state: either the component is a
    docking domain (nothing happens), or it is refused with IncompatibleComponentError by a
    non-empty module without pending acceptance, or it is accepted (`StepOK`).
    In particular no assertion is reachable. -/
theorem add_cases {m : Module} {c : Comp} (la : List Comp) (hI : StateInv m)
    (hp : m.unambiguous > 0 → kindOf c = .modification) :
    (kindOf c = .ignored ∧ addComponent m c la = .ok m)
    ∨ (kindOf c ≠ .ignored ∧ StepResult m c la) := by
  by_cases h0 : m.unambiguous > 0
  · right
    have hk := hp h0
    exact ⟨by rw [hk]; decide, Or.inr (add_mod_pending hI hk h0)⟩
  · have h0 : m.unambiguous = 0 := by omega
    cases hk : kindOf c with
    | ignored =>
      left
      exact ⟨rfl, add_ignored m c la (by rw [isIgnored_eq, hk]; rfl)⟩
    | special => exact Or.inr ⟨by decide, add_special hI hk h0⟩
    | pureStarter => exact Or.inr ⟨by decide, add_pureStarter hI hk h0⟩
    | loader => exact Or.inr ⟨by decide, add_loader hI hk h0⟩
    | modification => exact Or.inr ⟨by decide, add_mod hI hk h0⟩
    | carrier => exact Or.inr ⟨by decide, add_carrier hI hk h0⟩
    | end_ => exact Or.inr ⟨by decide, add_end hI hk h0⟩
    | other => exact Or.inr ⟨by decide, add_other hI hk h0⟩

end ASV.Modules
