/-
  C05: the coordinate key of the reference (`skey`: `coords` of the span of the group sorted by id)
  and the key of the model (`gkey`: `locKey` of the candidate built from the group in collection
  order) come from the same location — `connect` does not depend on the order of its arguments
  (C04: `connect_line_perm`, `connect_ring_perm`).
-/
import ASV.Proofs.SpecAddGroups
import ASV.Props.C04
set_option linter.unusedSectionVars false
set_option linter.unusedVariables false
set_option linter.unusedSimpArgs false
namespace ASV.CC
open ASV.CC.Spec

theorem perm_sortById (l : List Proto) : (sortById l).Perm l := by
  induction l with
  | nil => exact List.Perm.refl _
  | cons x rest ih =>
    show ((sortById rest).filter (·.id < x.id) ++ [x] ++ (sortById rest).filter (fun y => !(y.id < x.id))).Perm (x :: rest)
    have h1 : ((sortById rest).filter (·.id < x.id) ++ [x] ++ (sortById rest).filter (fun y => !(y.id < x.id))).Perm
        (x :: ((sortById rest).filter (·.id < x.id) ++ (sortById rest).filter (fun y => !(y.id < x.id)))) := by
      rw [List.append_assoc]
      exact List.perm_middle
    refine h1.trans (List.Perm.cons x ?_)
    exact (List.filter_append_perm _ _).trans ih

/-- the locations the reference connects are a permutation of those the model connects -/
theorem perm_span_locs (g : List Proto) : ((sortById g).map (·.loc)).Perm ((sortProtos g).map (·.loc)) :=
  ((perm_sortById g).trans (perm_sortProtos g).symm).map _

/-- whenever `connect` gives the same result for the two orders, the two keys are read off the same
    location -/
theorem keys_agree_of_connect_eq {wrap : Option Int} {kind : Kind} {g : List Proto} {k : Int × Int}
    (hc : connect ((sortById g).map (·.loc)) wrap = connect ((sortProtos g).map (·.loc)) wrap)
    (hk : gkey wrap kind g = some k) : ∃ l, skey wrap g = some (coords l) ∧ k = locKey l := by
  simp only [gkey] at hk
  cases hm : mkCand wrap kind (sortProtos g) with
  | error e => rw [hm] at hk; cases hk
  | ok c =>
    rw [hm] at hk
    simp only [Option.some.injEq] at hk
    obtain ⟨_, hmem, hok⟩ := mkCand_ok hm
    have hl := hok.loc_eq
    rw [hmem] at hl
    refine ⟨c.loc, ?_, hk.symm⟩
    simp only [skey, span, hc, hl]

/-- a group on a linear record -/
def LineGroup (g : List Proto) : Prop := g ≠ [] ∧ ∀ p, p ∈ g → p.loc.parts ≠ [] ∧ bridgesOrigin p.loc = false

theorem lineGroup_input {g l : List Proto} (h : LineGroup g) (hp : l.Perm g) : ASV.C04.LineInput (l.map (·.loc)) := by
  refine ⟨?_, ?_⟩
  · intro e
    have : l = [] := by simpa using e
    subst this
    exact h.1 (List.perm_nil.1 hp.symm) 
  · intro x hx
    obtain ⟨p, hp', e⟩ := List.mem_map.1 hx
    subst e
    exact h.2 p (hp.mem_iff.1 hp')

/-- on a linear record: the model's key `k` and the reference's key `[k]` -/
theorem keys_agree_line {kind : Kind} {g : List Proto} {k : Int × Int} (h : LineGroup g)
    (hk : gkey none kind g = some k) : skey none g = some [k] := by
  have hin := lineGroup_input h (perm_sortById g)
  have hc := ASV.C04.connect_line_perm _ _ (perm_span_locs g) hin
  simp only [gkey] at hk
  cases hm : mkCand none kind (sortProtos g) with
  | error e => rw [hm] at hk; cases hk
  | ok c =>
    rw [hm] at hk
    simp only [Option.some.injEq] at hk
    obtain ⟨_, hmem, hok⟩ := mkCand_ok hm
    have hl := hok.loc_eq
    rw [hmem, ASV.C04.connect_line_is_hull _ (lineGroup_input h (perm_sortProtos g))] at hl
    injection hl with hl
    have hsk : skey none g = some (coords c.loc) := by
      simp only [skey, span, hc, ← hmem, hok.loc_eq]
    rw [hsk, ← hk, ← hl, locKey_simple]
    rfl

/-- on a linear record two groups fall into the same table slot of the model exactly when they fall
    into the same entry of the reference -/
theorem same_slot_iff_same_entry_line {kind : Kind} {g1 g2 : List Proto} {k1 k2 : Int × Int}
    (h1 : LineGroup g1) (h2 : LineGroup g2) (hk1 : gkey none kind g1 = some k1) (hk2 : gkey none kind g2 = some k2) :
    gkey none kind g1 = gkey none kind g2 ↔ skey none g1 = skey none g2 := by
  rw [hk1, hk2, keys_agree_line h1 hk1, keys_agree_line h2 hk2]
  constructor
  · intro e; injection e with e; rw [e]
  · intro e
    injection e with e
    injection e with e
    rw [e]

theorem gkey_iff_skey_line {kind : Kind} {g : List Proto} (h : LineGroup g) (hd : ∃ k, gkey none kind g = some k)
    (k : Int × Int) : gkey none kind g = some k ↔ skey none g = some [k] := by
  constructor
  · exact keys_agree_line h
  · intro hs
    obtain ⟨k', hk'⟩ := hd
    have := keys_agree_line h hk'
    rw [hs] at this
    injection this with this
    injection this with this
    rw [hk', this]

/-- One table step of the model and one of the reference with the same groups keep the two tables in
    step on a linear record: if slot `k` of the model and entry `[k]` of the reference had the same
    members, the same kinds and the same key sets before, they have them after. -/
theorem table_steps_agree_line {kind : Kind} {t t' : Table} {st st' : State} {gs : List (List Proto)}
    (hg : ∀ g, g ∈ gs → LineGroup g ∧ ∃ k, gkey none kind g = some k)
    (hM : PassDesc none kind t t' gs) (hS : SpecPassDesc none kind st st' gs)
    (hmem : ∀ k x, memOf t k x ↔ sMem st [k] x) (hkind : ∀ k kd, kindOf t k kd ↔ sKind st [k] kd)
    (hkeys : ∀ k, k ∈ keys t.existing ↔ [k] ∈ sKeys st) :
    (∀ k x, memOf t' k x ↔ sMem st' [k] x) ∧ (∀ k kd, kindOf t' k kd ↔ sKind st' [k] kd) ∧
    (∀ k, k ∈ keys t'.existing ↔ [k] ∈ sKeys st') := by
  have hex : ∀ k (P : List Proto → Prop), (∃ g, g ∈ gs ∧ gkey none kind g = some k ∧ P g) ↔
      ∃ g, g ∈ gs ∧ skey none g = some [k] ∧ P g := by
    intro k P
    constructor
    · rintro ⟨g, hg', hk, hp⟩
      exact ⟨g, hg', (gkey_iff_skey_line (hg g hg').1 (hg g hg').2 k).1 hk, hp⟩
    · rintro ⟨g, hg', hk, hp⟩
      exact ⟨g, hg', (gkey_iff_skey_line (hg g hg').1 (hg g hg').2 k).2 hk, hp⟩
  have hex' : ∀ k, (∃ g, g ∈ gs ∧ gkey none kind g = some k) ↔ ∃ g, g ∈ gs ∧ skey none g = some [k] := by
    intro k
    have := hex k (fun _ => True)
    simpa using this
  refine ⟨?_, ?_, ?_⟩
  · intro k x
    rw [hM.members, hS.members, hmem, hex k (fun g => x ∈ g)]
  · intro k kd
    rw [hM.kinds, hS.kinds, hkind, hkeys, hex']
  · intro k
    rw [hM.keysOf, hS.keysOf, hkeys, hex']

/-- on a circular record (every extent a valid feature location of the record): the two keys are read
    off the same location -/
theorem keys_agree_ring {L : Int} {kind : Kind} {g : List Proto} {k : Int × Int} (hL : 0 < L) (hne : g ≠ [])
    (hin : ∀ p, p ∈ g → RingIn L p.loc) (hk : gkey (some L) kind g = some k) :
    ∃ l, skey (some L) g = some (coords l) ∧ k = locKey l := by
  apply keys_agree_of_connect_eq _ hk
  apply ASV.C04.connect_ring_perm _ _ (perm_span_locs g) L _ hL
  · intro l hl
    obtain ⟨p, hp, e⟩ := List.mem_map.1 hl
    subst e
    exact hin p ((perm_sortById g).mem_iff.1 hp)
  · intro e
    have : sortById g = [] := by simpa using e
    exact hne (List.perm_nil.1 ((perm_sortById g).symm.trans (this ▸ List.Perm.refl _)))

end ASV.CC
