/-
  C05: every protocluster ends up in a candidate (coverage through the three passes and the
  singles pass).
-/
import ASV.Proofs.Candidates
set_option linter.unusedSectionVars false
set_option linter.unusedVariables false
namespace ASV.CC
open ASV.CC.Spec

/-! ### `_merge_sets` on protoclusters -/

theorem mem_mergeSets {G : List (List Proto)} {r : List Proto} :
    r ∈ mergeSets G ↔ ∃ r0, r0 ∈ mergeSetsCore groupKey G ∧ r = sortProtos r0 := by
  simp only [mergeSets, List.mem_map]
  constructor
  · rintro ⟨r0, h, e⟩; exact ⟨r0, h, e.symm⟩
  · rintro ⟨r0, h, e⟩; exact ⟨r0, h, e.symm⟩

theorem mergeSets_union (G : List (List Proto)) (x : Proto) :
    (∃ r, r ∈ mergeSets G ∧ x ∈ r) ↔ ∃ g, g ∈ G ∧ x ∈ g := by
  rw [← mergeSetsCore_union groupKey G x]
  constructor
  · rintro ⟨r, hr, hx⟩
    obtain ⟨r0, h0, e⟩ := mem_mergeSets.1 hr
    subst e
    exact ⟨r0, h0, mem_sortProtos.1 hx⟩
  · rintro ⟨r0, h0, hx⟩
    exact ⟨sortProtos r0, mem_mergeSets.2 ⟨r0, h0, rfl⟩, mem_sortProtos.2 hx⟩

/-! ### `_find_hybrids` -/

theorem scanContained_sub (core : Loc) (limit : Int) (group cs : List Proto) :
    ∀ p, p ∈ group → p ∈ scanContained core limit group cs := by
  induction cs generalizing group with
  | nil => intro p hp; simpa [scanContained] using hp
  | cons c rest ih =>
    intro p hp
    simp only [scanContained]
    split
    · exact hp
    · split
      · exact ih _ p (List.mem_append.2 (Or.inl hp))
      · exact ih _ p hp

theorem extendGroup_sub {wrap : Option Int} {byCore g g' : List Proto} (h : extendGroup wrap byCore g = .ok g') :
    ∀ p, p ∈ g → p ∈ g' := by
  unfold extendGroup at h
  split at h
  · cases h
  · dsimp only at h
    injection h with h
    subst h
    intro p hp
    split
    · exact scanContained_sub _ _ _ _ p (scanContained_sub _ _ _ _ p hp)
    · exact scanContained_sub _ _ _ _ p hp

theorem extendGroups_sub {wrap : Option Int} {byCore : List Proto} {gs gs' : List (List Proto)}
    (h : extendGroups wrap byCore gs = .ok gs') :
    ∀ g, g ∈ gs → ∃ g', g' ∈ gs' ∧ ∀ p, p ∈ g → p ∈ g' := by
  induction gs generalizing gs' with
  | nil => intro g hg; cases hg
  | cons g0 rest ih =>
    simp only [extendGroups] at h
    split at h
    · cases h
    · rename_i g0' h0
      split at h
      · cases h
      · rename_i rest' hr
        injection h with h; subst h
        intro g hg
        rcases List.mem_cons.1 hg with e | e
        · subst e; exact ⟨g0', List.mem_cons_self, extendGroup_sub h0⟩
        · obtain ⟨g', hg', hs⟩ := ih hr g e
          exact ⟨g', List.mem_cons_of_mem _ hg', hs⟩

theorem findHybrids_cover {clusters : List Proto} {wrap : Option Int} {hg : List (List Proto)} {un : List Proto}
    (h : findHybrids clusters wrap = .ok (hg, un)) :
    ∀ p, p ∈ clusters → (∃ g, g ∈ hg ∧ p ∈ g) ∨ p ∈ un := by
  unfold findHybrids at h
  split at h
  · cases h
  · dsimp only at h
    split at h
    · cases h
    · rename_i extended hext
      injection h with h
      injection h with h1 h2
      subst h1; subst h2
      intro p hp
      -- names for the pieces
      generalize hgroups : (pairsWhere shares (fun a b => [a, b]) (sortBy coreKeyLt clusters) ++
        match (sortBy coreKeyLt clusters).head?, (sortBy coreKeyLt clusters).getLast? with
        | some f, some l => if (f != l && shares f l) = true then [[f, l]] else []
        | x, x_1 => []) = groups at hext ⊢
      by_cases hpaired : p ∈ groups.flatten
      · left
        obtain ⟨g, hg, hpg⟩ := List.mem_flatten.1 hpaired
        obtain ⟨m, hm, hpm⟩ := (mergeSets_union groups p).2 ⟨g, hg, hpg⟩
        obtain ⟨e, he, hsub⟩ := extendGroups_sub hext m hm
        exact ⟨sortProtos e, List.mem_map.2 ⟨e, he, rfl⟩, mem_sortProtos.2 (hsub p hpm)⟩
      · by_cases habs : p ∈ extended.flatten
        · left
          obtain ⟨e, he, hpe⟩ := List.mem_flatten.1 habs
          exact ⟨sortProtos e, List.mem_map.2 ⟨e, he, rfl⟩, mem_sortProtos.2 hpe⟩
        · right
          apply mem_sortProtos.2
          simp only [List.mem_filter, Bool.not_eq_true', List.contains_eq_mem, decide_eq_false_iff_not]
          exact ⟨⟨hp, hpaired⟩, habs⟩

/-! ### `_find_interleaved` -/

theorem withCores_fst {wrap : Option Int} {cands : List Cand} {cc : List CandC} (h : withCores wrap cands = .ok cc) :
    ∀ x, x ∈ cc → x.1 ∈ cands := by
  induction cands generalizing cc with
  | nil => simp only [withCores] at h; injection h with h; subst h; intro x hx; cases hx
  | cons c cs ih =>
    simp only [withCores] at h
    split at h
    · cases h
    · split at h
      · cases h
      · rename_i r hr
        injection h with h; subst h
        intro x hx
        rcases List.mem_cons.1 hx with e | e
        · subst e; exact List.mem_cons_self
        · exact List.mem_cons_of_mem _ (ih hr x e)

theorem walk_spec (core : Loc) (total : Nat) (l cg f : List Proto) :
    (∀ p, p ∈ cg → p ∈ (walk core total l cg f).1) ∧
    ((∀ p, p ∈ f → p ∈ cg) → ∀ p, p ∈ (walk core total l cg f).2 → p ∈ (walk core total l cg f).1) := by
  induction l generalizing cg f with
  | nil => simp only [walk]; exact ⟨fun p hp => hp, fun h => h⟩
  | cons c rest ih =>
    simp only [walk]
    split
    · exact ⟨fun p hp => hp, fun h => h⟩
    · split
      · exact ⟨fun p hp => hp, fun h => h⟩
      · obtain ⟨a, b⟩ := ih (if cg.contains c = true then cg else cg ++ [c]) (if f.contains c = true then f else f ++ [c])
        refine ⟨?_, ?_⟩
        · intro p hp
          apply a
          split
          · exact hp
          · exact List.mem_append.2 (Or.inl hp)
        · intro hf
          apply b
          intro p hp
          have hc : c ∈ (if cg.contains c = true then cg else cg ++ [c]) := by
            split
            · rename_i hcc; simpa using hcc
            · simp
          have hsub : ∀ q, q ∈ cg → q ∈ (if cg.contains c = true then cg else cg ++ [c]) := by
            intro q hq; split
            · exact hq
            · exact List.mem_append.2 (Or.inl hq)
          split at hp
          · exact hsub p (hf p hp)
          · rcases List.mem_append.1 hp with h1 | h1
            · exact hsub p (hf p h1)
            · have : p = c := by simpa using h1
              rw [this]; exact hc

theorem length_le_one_eq {α : Type} {l : List α} (h : ¬ l.length > 1) {a b : α} (ha : a ∈ l) (hb : b ∈ l) : a = b := by
  match l, h with
  | [], _ => cases ha
  | [x], _ =>
    have h1 : a = x := by simpa using ha
    have h2 : b = x := by simpa using hb
    rw [h1, h2]
  | x :: y :: r, h => simp at h

theorem findCross_spec {cc : List CandC} {un : List Proto} {groups groups' : List (List Proto)} {wrap : Option Int}
    {found : List Proto} (h : findCrossOriginInterleaved cc un groups wrap = .ok (found, groups')) :
    (∀ g, g ∈ groups → g ∈ groups') ∧
    ∀ p, p ∈ found → (∃ g, g ∈ groups' ∧ p ∈ g) ∨ ∃ c, c ∈ cc ∧ p ∈ c.1.members := by
  unfold findCrossOriginInterleaved at h
  split at h
  · injection h with h; injection h with h1 h2; subst h1; subst h2
    exact ⟨fun g hg => hg, fun p hp => by cases hp⟩
  · split at h
    · injection h with h; injection h with h1 h2; subst h1; subst h2
      exact ⟨fun g hg => hg, fun p hp => by cases hp⟩
    · dsimp only at h
      split at h
      · cases h
      · rename_i core hcore
        split at h
        · cases h
        · rename_i hcg0
          -- the two walks
          generalize hcg0def : dedup (List.flatMap (fun c =>
              if (List.filter (fun p => bridgesOrigin p.core) c.1.members).isEmpty = true then c.1.members
              else List.filter (fun p => bridgesOrigin p.core) c.1.members)
              (List.filter (fun c => twoParts c.2) cc)) = cg0 at h hcg0
          generalize hback : walk core un.length (List.drop 1 un).reverse cg0 [] = back at h
          generalize hfwd : walk core un.length un back.1 back.2 = fwd at h
          have hb := walk_spec core un.length (List.drop 1 un).reverse cg0 []
          rw [hback] at hb
          have hf := walk_spec core un.length un back.1 back.2
          rw [hfwd] at hf
          have hfound_in : ∀ p, p ∈ fwd.2 → p ∈ fwd.1 :=
            hf.2 (hb.2 (fun p hp => by cases hp))
          have hcg0_in : ∀ p, p ∈ cg0 → p ∈ fwd.1 := fun p hp => hf.1 p (hb.1 p hp)
          have hcg0_from : ∀ q, q ∈ cg0 → ∃ c, c ∈ cc ∧ q ∈ c.1.members := by
            intro q hq
            rw [← hcg0def] at hq
            have hq := mem_dedup.1 hq
            obtain ⟨c, hc, hqc⟩ := List.mem_flatMap.1 hq
            refine ⟨c, (List.mem_filter.1 hc).1, ?_⟩
            split at hqc
            · exact hqc
            · exact (List.mem_filter.1 hqc).1
          split at h
          · injection h with h; injection h with h1 h2; subst h1; subst h2
            exact ⟨fun g hg => hg, fun p hp => by cases hp⟩
          · split at h
            · injection h with h; injection h with h1 h2; subst h1; subst h2
              exact ⟨fun g hg => hg, fun p hp => by cases hp⟩
            · split at h
              · injection h with h; injection h with h1 h2; subst h1; subst h2
                refine ⟨fun g hg => List.mem_append.2 (Or.inl hg), ?_⟩
                intro p hp
                exact Or.inl ⟨fwd.1, List.mem_append.2 (Or.inr (by simp)), hfound_in p hp⟩
              · rename_i hlen
                injection h with h; injection h with h1 h2; subst h1; subst h2
                refine ⟨fun g hg => hg, ?_⟩
                intro p hp
                right
                have hne : cg0 ≠ [] := by simpa using hcg0
                obtain ⟨q, hq⟩ := List.exists_mem_of_ne_nil cg0 hne
                have : p = q := length_le_one_eq hlen (hfound_in p hp) (hcg0_in q hq)
                rw [this]; exact hcg0_from q hq

theorem findInterleaved_cover {clusters : List Proto} {cands : List Cand} {wrap : Option Int}
    {ig : List (List Proto)} {un : List Proto} (h : findInterleaved clusters cands wrap = .ok (ig, un)) :
    ∀ p, p ∈ clusters → (∃ g, g ∈ ig ∧ p ∈ g) ∨ p ∈ un ∨ ∃ c, c ∈ cands ∧ p ∈ c.members := by
  unfold findInterleaved at h
  dsimp only at h
  split at h
  · cases h
  · rename_i cc hcc
    have hccfst : ∀ x, x ∈ cc → x.1 ∈ cands := by
      split at hcc
      · exact withCores_fst hcc
      · injection hcc with hcc; subst hcc; intro x hx; cases hx
    split at h
    · cases h
    · rename_i found1 groups hx
      obtain ⟨hgsub, hf1⟩ := findCross_spec hx
      injection h with h; injection h with h1 h2; subst h1; subst h2
      intro p hp
      by_cases hfound : p ∈ ((interleavedPairs (sortBy coreStartLt clusters)).flatten ++
          List.filter (fun cluster => cc.any fun c => locationsOverlap c.2 cluster.core) (sortBy coreStartLt clusters)) ++ found1
      · rcases List.mem_append.1 hfound with h0 | h1
        · rcases List.mem_append.1 h0 with ha | hb
          · left
            obtain ⟨g, hg, hpg⟩ := List.mem_flatten.1 ha
            apply (mergeSets_union groups p).2
            exact ⟨g, hgsub g (List.mem_append.2 (Or.inl (List.mem_append.2 (Or.inr hg)))), hpg⟩
          · left
            obtain ⟨hpc, hany⟩ := List.mem_filter.1 hb
            obtain ⟨c, hc, hov⟩ := List.any_eq_true.1 hany
            apply (mergeSets_union groups p).2
            refine ⟨dedup (c.1.members ++ [p]), hgsub _ (List.mem_append.2 (Or.inr ?_)), mem_dedup.2 (by simp)⟩
            apply List.mem_flatMap.2
            exact ⟨p, hpc, List.mem_map.2 ⟨c, List.mem_filter.2 ⟨hc, hov⟩, rfl⟩⟩
        · rcases hf1 p h1 with ⟨g, hg, hpg⟩ | ⟨c, hc, hpc⟩
          · left; exact (mergeSets_union groups p).2 ⟨g, hg, hpg⟩
          · right; right; exact ⟨c.1, hccfst c hc, hpc⟩
      · right; left
        apply mem_sortProtos.2
        simp only [List.mem_filter, Bool.not_eq_true', List.contains_eq_mem, decide_eq_false_iff_not]
        exact ⟨hp, hfound⟩

/-! ### the singles pass -/

theorem addSingles_cover {wrap : Option Int} {t : Table} {l : List Proto} {ss : List Cand}
    (h : addSingles wrap t l = .ok ss) :
    ∀ p, p ∈ l → (∃ c, c ∈ ss ∧ p ∈ c.members) ∨ Covers t p := by
  induction l generalizing ss with
  | nil => intro p hp; cases hp
  | cons q rest ih =>
    simp only [addSingles] at h
    cases hrest : addSingles wrap t rest with
    | error e => rw [hrest] at h; cases h
    | ok cs =>
      rw [hrest] at h
      dsimp only at h
      have hrec := ih hrest
      have single : ∀ ss', (match mkCand wrap Kind.single [q] with
            | Except.error e => Except.error e
            | Except.ok c => Except.ok (c :: cs)) = Except.ok ss' →
          ∀ p, p ∈ q :: rest → (∃ c, c ∈ ss' ∧ p ∈ c.members) ∨ Covers t p := by
        intro ss' h
        split at h
        · cases h
        · rename_i c hc
          injection h with h; subst h
          obtain ⟨_, hm, _⟩ := mkCand_ok hc
          intro p hp
          rcases List.mem_cons.1 hp with e | e
          · subst e; exact Or.inl ⟨c, List.mem_cons_self, by rw [hm]; simp⟩
          · rcases hrec p e with ⟨c', hc', hpc'⟩ | h2
            · exact Or.inl ⟨c', List.mem_cons_of_mem _ hc', hpc'⟩
            · exact Or.inr h2
      cases hget : t.get (locKey q.loc) with
      | none =>
        simp only [hget, Bool.false_eq_true, if_false] at h
        exact single ss h
      | some ex =>
        simp only [hget] at h
        by_cases hm : ex.members.contains q = true
        · simp only [hm, if_true] at h
          injection h with h; subst h
          intro p hp
          rcases List.mem_cons.1 hp with e | e
          · subst e
            exact Or.inr ⟨ex, mem_values.2 ⟨_, getGo_mem hget⟩, by simpa using hm⟩
          · exact hrec p e
        · simp only [hm, Bool.false_eq_true, if_false] at h
          exact single ss h

/-! ### the whole formation -/

theorem formationCore_cover {ps : List Proto} {wrap : Option Int} {cs : List Cand}
    (h : formationCore ps wrap = .ok cs) : ∀ p, p ∈ ps → ∃ c, c ∈ cs ∧ p ∈ c.members := by
  unfold formationCore at h
  split at h
  · rename_i he
    have : ps = [] := by simpa using he
    subst this; intro p hp; cases hp
  · dsimp only at h
    split at h
    · cases h
    · rename_i hgroups un1 hH
      split at h
      · cases h
      · rename_i t1 hB1
        split at h
        · cases h
        · rename_i igroups un2 hI
          split at h
          · cases h
          · rename_i t2 hB2
            split at h
            · cases h
            · rename_i t3 hB3
              split at h
              · cases h
              · rename_i singles hS
                injection h with h; subst h
                obtain ⟨a1, b1, c1⟩ := buildCandidates_spec hB1
                obtain ⟨a2, b2, c2⟩ := buildCandidates_spec hB2
                obtain ⟨a3, b3, c3⟩ := buildCandidates_spec hB3
                have fin : ∀ p, Covers t3 p → ∃ c, c ∈ sortCands t3.values ++ singles ∧ p ∈ c.members := by
                  rintro p ⟨c, hc, hpc⟩
                  exact ⟨c, List.mem_append.2 (Or.inl (mem_sortCands.2 hc)), hpc⟩
                intro p hp
                rcases findHybrids_cover hH p (mem_sortProtos.2 hp) with ⟨g, hg, hpg⟩ | hun1
                · exact fin p (b3 p (b2 p (a1 g hg p hpg)))
                · rcases findInterleaved_cover hI p hun1 with ⟨g, hg, hpg⟩ | hun2 | ⟨c, hc, hpc⟩
                  · exact fin p (b3 p (a2 g hg p hpg))
                  · have hl : p ∈ sortProtos (dedup (un2 ++ t3.singles)) :=
                      mem_sortProtos.2 (mem_dedup.2 (List.mem_append.2 (Or.inl hun2)))
                    rcases addSingles_cover hS p hl with ⟨c, hc, hpc⟩ | hcov
                    · exact ⟨c, List.mem_append.2 (Or.inr hc), hpc⟩
                    · exact fin p hcov
                  · exact fin p (b3 p (b2 p ⟨c, mem_sortCands.1 hc, hpc⟩))

end ASV.CC
