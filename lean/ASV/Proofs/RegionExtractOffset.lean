/-
  Helper lemmas for C12: what `offset_location` (shared model `offsetLocation`) does to the locations
  region extraction feeds it — the branch that needs no wrapping, for any number of parts, and
  origin-spanning locations with one part on each side of the origin (both part orders), which are
  rotated part by part, split at the origin and merged where the pieces meet.
-/
import ASV.Proofs.RegionExtractNumbering
import ASV.Proofs.LocOffset
set_option linter.unusedSimpArgs false
namespace ASV.RegionExtract
open ASV

theorem mapM_ok_of_forall {α β} (f : α → E β) (g : α → β) : ∀ (ps : List α), (∀ p ∈ ps, f p = .ok (g p)) →
    ps.mapM f = .ok (ps.map g)
  | [], _ => rfl
  | p :: ps, h => by
    have ih := mapM_ok_of_forall f g ps (fun q hq => h q (by simp [hq]))
    rw [List.mapM_cons, h p (by simp), ih]
    rfl

theorem shiftedParts_ok (l : Loc) (k : Int) (h : ∀ p ∈ l.parts, p.lo < p.hi) :
    shiftedParts l k true = .ok (l.parts.map fun p => ⟨p.lo + k, p.hi + k, p.strand⟩) := by
  unfold shiftedParts
  apply mapM_ok_of_forall
  intro p hp
  have := h p hp
  have h2 : ¬ p.hi ≤ p.lo := by omega
  simp [h2, pure, Except.pure]

theorem rebuild_shift (l : Loc) (k : Int) :
    rebuild l (l.parts.map fun p => ⟨p.lo + k, p.hi + k, p.strand⟩) = shiftLoc l k := by
  cases l <;> simp [rebuild, shiftLoc, Loc.parts]

/-- the branch of `offset_location` that needs no wrapping: every part is moved by the offset -/
theorem offset_no_wrap (l : Loc) (k L : Int) (hne : l.parts ≠ []) (hp : ∀ p ∈ l.parts, p.lo < p.hi)
    (hk : k ≠ 0) (hL : 0 < L) (hlen : l.len ≠ L) (h1 : 0 < l.start + k) (h2 : l.end + k < L) :
    offsetLocation l k L = .ok (shiftLoc l k) := by
  have hL0 : L ≠ 0 := by omega
  have hlt : ¬ L < 1 := by omega
  obtain ⟨p, hpm⟩ := List.exists_mem_of_ne_nil _ hne
  have hb := start_le_part l p hpm
  have hpp := hp p hpm
  have h3 : l.start + k < l.end + k := by omega
  simp [offsetLocation, offsetTrivial, hL0, hk, hlen, hlt, h1, h2, h3, shiftedParts_ok l k hp, rebuild_shift,
    bind, Except.bind, pure, Except.pure]

/-- the rest of `offset_location` after the parts were brought back into the record -/
def finishOffset (L : Int) (newParts : List Part) : E Loc := do
  if !(newParts.all fun p => 0 ≤ p.lo && p.lo < p.hi && p.hi ≤ L) then throw "assertion"
  match newParts with
  | [] => throw "assertion"
  | first :: rest =>
    let merged ← mergeAdjacent [first] first rest
    pure (Loc.ofParts merged)

theorem offsetLocation_general (l : Loc) (k L : Int) (parts : List Part) (hL : 0 < L) (hk : k ≠ 0)
    (hlen : l.len ≠ L) (hnt : ¬ (0 < l.start + k ∧ l.start + k < l.end + k ∧ l.end + k < L))
    (hsp : shiftedParts l k true = .ok parts) :
    offsetLocation l k L = finishOffset L (parts.flatMap (wrapPart L)) := by
  have hL0 : L ≠ 0 := by omega
  have hlt : ¬ L < 1 := by omega
  have hnt' : offsetTrivial l k L = false := by
    simp only [offsetTrivial, Bool.and_eq_false_iff, decide_eq_false_iff_not]
    omega
  unfold offsetLocation wrapParts finishOffset
  simp only [hL0, hk, hlen, hlt, hnt', hsp, bind, Except.bind, pure, Except.pure, Bool.or_self, decide_false,
    if_false, Bool.false_eq_true]
  rfl


theorem emod_neg' (a L : Int) (h1 : -L ≤ a) (h2 : a < 0) : a % L = a + L := by
  have : a = (a + L) + (-1) * L := by omega
  rw [this, Int.add_mul_emod_self_right, Int.emod_eq_of_lt (by omega) (by omega)]
  omega
theorem emod_small' (a L : Int) (h1 : 0 ≤ a) (h2 : a < L) : a % L = a := Int.emod_eq_of_lt h1 h2

theorem wrapPart_inside (L : Int) (p : Part) (h0 : 0 ≤ p.lo) (h1 : p.lo < p.hi) (h2 : p.hi ≤ L) :
    wrapPart L p = [p] := by
  unfold wrapPart
  have e1 : p.lo % L = p.lo := emod_small' _ L h0 (by omega)
  have e2 : (p.hi - 1) % L = p.hi - 1 := emod_small' _ L (by omega) (by omega)
  simp only [e1, e2]
  have c : (decide (0 ≤ p.lo) && decide (p.lo < p.hi - 1 + 1) && decide (p.hi - 1 + 1 ≤ L)) = true := by
    simp; omega
  rw [if_pos c]
  cases p; simp

theorem wrapPart_below (L : Int) (p : Part) (h0 : -L ≤ p.lo) (h1 : p.lo < p.hi) (h2 : p.hi ≤ 0) :
    wrapPart L p = [⟨p.lo + L, p.hi + L, p.strand⟩] := by
  unfold wrapPart
  have e1 : p.lo % L = p.lo + L := emod_neg' _ L h0 (by omega)
  have e2 : (p.hi - 1) % L = p.hi - 1 + L := emod_neg' _ L (by omega) (by omega)
  simp only [e1, e2]
  have c : (decide (0 ≤ p.lo + L) && decide (p.lo + L < p.hi - 1 + L + 1) && decide (p.hi - 1 + L + 1 ≤ L)) = true := by
    simp; omega
  rw [if_pos c]
  simp; omega

theorem wrapPart_straddle (L : Int) (p : Part) (h0 : -L ≤ p.lo) (h1 : p.lo < 0) (h2 : 0 < p.hi) (h3 : p.hi - p.lo ≤ L) :
    wrapPart L p = [⟨p.lo + L, L, p.strand⟩, ⟨0, p.hi, p.strand⟩] := by
  unfold wrapPart
  have e1 : p.lo % L = p.lo + L := emod_neg' _ L h0 (by omega)
  have e2 : (p.hi - 1) % L = p.hi - 1 := emod_small' _ L (by omega) (by omega)
  simp only [e1, e2]
  have c : ¬ (decide (0 ≤ p.lo + L) && decide (p.lo + L < p.hi - 1 + 1) && decide (p.hi - 1 + 1 ≤ L)) = true := by
    simp; omega
  rw [if_neg c]
  simp

theorem shiftedParts_two (a b : Part) (k : Int) (ha : a.lo < a.hi) (hb : b.lo < b.hi) :
    shiftedParts (.compound [a, b]) k true = .ok [⟨a.lo + k, a.hi + k, a.strand⟩, ⟨b.lo + k, b.hi + k, b.strand⟩] := by
  have h1 : ¬ a.hi ≤ a.lo := by omega
  have h2 : ¬ b.hi ≤ b.lo := by omega
  simp [shiftedParts, Loc.parts, h1, h2, pure, Except.pure, bind, Except.bind]

theorem len_two (a b : Part) : (Loc.compound [a, b]).len = (a.hi - a.lo) + (b.hi - b.lo) := by
  simp [Loc.len, Loc.parts, Part.len]
theorem start_two (a b : Part) : (Loc.compound [a, b]).start = min a.lo b.lo := by
  simp [Loc.start, minList]
theorem end_two (a b : Part) : (Loc.compound [a, b]).end = max a.hi b.hi := by
  simp [Loc.end, maxList]

def PartIn (L : Int) (p : Part) : Prop := 0 ≤ p.lo ∧ p.lo < p.hi ∧ p.hi ≤ L

theorem allIn_of (L : Int) (ps : List Part) (h : ∀ p ∈ ps, PartIn L p) :
    (ps.all fun p => decide (0 ≤ p.lo) && decide (p.lo < p.hi) && decide (p.hi ≤ L)) = true := by
  simp only [List.all_eq_true, Bool.and_eq_true, decide_eq_true_eq]
  intro p hp
  obtain ⟨h1, h2, h3⟩ := h p hp
  exact ⟨⟨h1, h2⟩, h3⟩

theorem finishOffset_two_adj (L : Int) (a b : Part) (ha : PartIn L a) (hb : PartIn L b) (hadj : a.hi = b.lo)
    (hs : a.strand = b.strand) : finishOffset L [a, b] = .ok (.simple ⟨a.lo, b.hi, b.strand⟩) := by
  have hall := allIn_of L [a, b] (by intro p hp; simp at hp; rcases hp with rfl | rfl <;> assumption)
  unfold finishOffset
  simp only [hall, Bool.not_true, Bool.false_eq_true, if_false, bind, Except.bind, pure, Except.pure]
  simp [mergeAdjacent, hadj, hs, Loc.ofParts, pure, Except.pure]

theorem finishOffset_two_sep (L : Int) (a b : Part) (ha : PartIn L a) (hb : PartIn L b) (hadj : a.hi ≠ b.lo) :
    finishOffset L [a, b] = .ok (.compound [a, b]) := by
  have hall := allIn_of L [a, b] (by intro p hp; simp at hp; rcases hp with rfl | rfl <;> assumption)
  unfold finishOffset
  simp only [hall, Bool.not_true, Bool.false_eq_true, if_false, bind, Except.bind, pure, Except.pure]
  simp [mergeAdjacent, hadj, Loc.ofParts, pure, Except.pure]

theorem finishOffset_three_first (L : Int) (a b c : Part) (ha : PartIn L a) (hb : PartIn L b) (hc : PartIn L c)
    (h1 : a.hi = b.lo) (hs : a.strand = b.strand) (h2 : b.hi ≠ c.lo) :
    finishOffset L [a, b, c] = .ok (.compound [⟨a.lo, b.hi, b.strand⟩, c]) := by
  have hall := allIn_of L [a, b, c] (by intro p hp; simp at hp; rcases hp with rfl | rfl | rfl <;> assumption)
  unfold finishOffset
  simp only [hall, Bool.not_true, Bool.false_eq_true, if_false, bind, Except.bind, pure, Except.pure]
  simp [mergeAdjacent, h1, hs, h2, Loc.ofParts, pure, Except.pure]

theorem finishOffset_three_last (L : Int) (a b c : Part) (ha : PartIn L a) (hb : PartIn L b) (hc : PartIn L c)
    (h1 : a.hi ≠ b.lo) (h2 : b.hi = c.lo) (hs : b.strand = c.strand) :
    finishOffset L [a, b, c] = .ok (.compound [a, ⟨b.lo, c.hi, c.strand⟩]) := by
  have hall := allIn_of L [a, b, c] (by intro p hp; simp at hp; rcases hp with rfl | rfl | rfl <;> assumption)
  unfold finishOffset
  simp only [hall, Bool.not_true, Bool.false_eq_true, if_false, bind, Except.bind, pure, Except.pure]
  simp [mergeAdjacent, h1, h2, hs, Loc.ofParts, pure, Except.pure]

theorem finishOffset_three_sep (L : Int) (a b c : Part) (ha : PartIn L a) (hb : PartIn L b) (hc : PartIn L c)
    (h1 : a.hi ≠ b.lo) (h2 : b.hi ≠ c.lo) :
    finishOffset L [a, b, c] = .ok (.compound [a, b, c]) := by
  have hall := allIn_of L [a, b, c] (by intro p hp; simp at hp; rcases hp with rfl | rfl | rfl <;> assumption)
  unfold finishOffset
  simp only [hall, Bool.not_true, Bool.false_eq_true, if_false, bind, Except.bind, pure, Except.pure]
  simp [mergeAdjacent, h1, h2, Loc.ofParts, pure, Except.pure]


theorem emod_big' (a L : Int) (h1 : L ≤ a) (h2 : a < 2 * L) : a % L = a - L := by
  have : a = (a - L) + 1 * L := by omega
  rw [this, Int.add_mul_emod_self_right, Int.emod_eq_of_lt (by omega) (by omega)]
  omega

theorem mem_three (a b c : Part) (i : Int) :
    (Loc.compound [a, b, c]).mem i = true ↔ (a.lo ≤ i ∧ i < a.hi) ∨ (b.lo ≤ i ∧ i < b.hi) ∨ (c.lo ≤ i ∧ i < c.hi) := by
  simp [Loc.mem, Loc.parts, Part.mem_iff]

/-- position `i` of the rotated record is position `(st + i) % L` of the record: case split used below -/
theorem rot_cases (st i L : Int) (hst0 : 0 < st) (hstL : st < L) (hi0 : 0 ≤ i) (hiL : i < L) :
    (st + i < L ∧ (st + i) % L = st + i) ∨ (L ≤ st + i ∧ (st + i) % L = st + i - L) := by
  by_cases h : st + i < L
  · exact .inl ⟨h, emod_small' _ L (by omega) h⟩
  · exact .inr ⟨by omega, emod_big' _ L (by omega) (by omega)⟩

/-- an origin-spanning location with one part on each side of the origin, forward part order,
    moved back by `st`: the result (after the whole-record adjustment) covers exactly the rotated bases -/
theorem cross_two_fwd (x y st L : Int) (s : Strand) (hy0 : 0 < y) (hyx : y ≤ x) (hxL : x < L)
    (hst0 : 0 < st) (hstL : st < L) :
    ∃ r, offsetLocation (.compound [⟨x, L, s⟩, ⟨0, y, s⟩]) (-st) L = .ok r ∧
      ∀ i, (wholeFix L r).mem i = true ↔
        (0 ≤ i ∧ i < L ∧ (Loc.compound [⟨x, L, s⟩, ⟨0, y, s⟩]).mem ((st + i) % L) = true) := by
  have hL0 : L ≠ 0 := by omega
  by_cases hwhole : y = x
  · -- covers the whole record: returned as it is, then replaced by [0, L)
    subst hwhole
    have hlen : (Loc.compound [⟨y, L, s⟩, ⟨0, y, s⟩]).len = L := by rw [len_two]; simp
    refine ⟨.compound [⟨y, L, s⟩, ⟨0, y, s⟩], ?_, ?_⟩
    · have hk : -st ≠ 0 := by omega
      have hlt : ¬ L < 1 := by omega
      simp [offsetLocation, hL0, hk, hlt, hlen, pure, Except.pure, bind, Except.bind]
    · intro i
      simp only [wholeFix, hlen, if_true, mem_simple, mem_two]
      constructor
      · rintro ⟨h0, h1⟩
        refine ⟨h0, h1, ?_⟩
        rcases rot_cases st i L hst0 hstL h0 h1 with ⟨_, e⟩ | ⟨_, e⟩ <;> rw [e] <;> omega
      · rintro ⟨h0, h1, _⟩; exact ⟨h0, h1⟩
  · have hyx' : y < x := by omega
    have hgen := offsetLocation_general (.compound [⟨x, L, s⟩, ⟨0, y, s⟩]) (-st) L _ (by omega) (by omega)
      (by rw [len_two]; simp; omega) (by rw [start_two, end_two]; simp; omega)
      (shiftedParts_two _ _ _ (by simp; omega) (by simp; omega))
    simp only [List.flatMap_cons, List.flatMap_nil, List.append_nil] at hgen
    by_cases h1 : st ≤ x
    · rw [wrapPart_inside L ⟨x + -st, L + -st, s⟩ (by simp; omega) (by simp; omega) (by simp; omega)] at hgen
      by_cases h2 : y ≤ st
      · rw [wrapPart_below L ⟨0 + -st, y + -st, s⟩ (by simp; omega) (by simp; omega) (by simp; omega)] at hgen
        simp only [List.cons_append, List.nil_append] at hgen
        rw [finishOffset_two_adj L ⟨x + -st, L + -st, s⟩ ⟨0 + -st + L, y + -st + L, s⟩ (by simp [PartIn]; omega) (by simp [PartIn]; omega) (by simp; omega) rfl] at hgen
        refine ⟨_, hgen, ?_⟩
        intro i
        have hl : ¬ (Loc.simple ⟨x + -st, y + -st + L, s⟩).len = L := by simp [Loc.len, Loc.parts, Part.len]; omega
        simp only [wholeFix, hl, if_false, mem_simple, mem_two]
        constructor
        · rintro ⟨a, b⟩
          refine ⟨by omega, by omega, ?_⟩
          rcases rot_cases st i L hst0 hstL (by omega) (by omega) with ⟨_, e⟩ | ⟨_, e⟩ <;> rw [e] <;> omega
        · rintro ⟨h0, hL', h⟩
          rcases rot_cases st i L hst0 hstL h0 hL' with ⟨_, e⟩ | ⟨_, e⟩ <;> rw [e] at h <;> omega
      · rw [wrapPart_straddle L ⟨0 + -st, y + -st, s⟩ (by simp; omega) (by simp; omega) (by simp; omega) (by simp; omega)] at hgen
        simp only [List.cons_append, List.nil_append] at hgen
        rw [finishOffset_three_first L ⟨x + -st, L + -st, s⟩ ⟨0 + -st + L, L, s⟩ ⟨0, y + -st, s⟩ (by simp [PartIn]; omega) (by simp [PartIn]; omega) (by simp [PartIn]; omega)
          (by simp; omega) rfl (by simp; omega)] at hgen
        refine ⟨_, hgen, ?_⟩
        intro i
        have hl : ¬ (Loc.compound [⟨x + -st, L, s⟩, ⟨0, y + -st, s⟩]).len = L := by rw [len_two]; simp; omega
        simp only [wholeFix, hl, if_false, mem_two]
        constructor
        · intro h
          refine ⟨by omega, by omega, ?_⟩
          rcases rot_cases st i L hst0 hstL (by omega) (by omega) with ⟨_, e⟩ | ⟨_, e⟩ <;> rw [e] <;> omega
        · rintro ⟨h0, hL', h⟩
          rcases rot_cases st i L hst0 hstL h0 hL' with ⟨_, e⟩ | ⟨_, e⟩ <;> rw [e] at h <;> omega
    · rw [wrapPart_straddle L ⟨x + -st, L + -st, s⟩ (by simp; omega) (by simp; omega) (by simp; omega) (by simp; omega),
        wrapPart_below L ⟨0 + -st, y + -st, s⟩ (by simp; omega) (by simp; omega) (by simp; omega)] at hgen
      simp only [List.cons_append, List.nil_append] at hgen
      rw [finishOffset_three_last L ⟨x + -st + L, L, s⟩ ⟨0, L + -st, s⟩ ⟨0 + -st + L, y + -st + L, s⟩ (by simp [PartIn]; omega) (by simp [PartIn]; omega) (by simp [PartIn]; omega)
        (by simp; omega) (by simp; omega) rfl] at hgen
      refine ⟨_, hgen, ?_⟩
      intro i
      have hl : ¬ (Loc.compound [⟨x + -st + L, L, s⟩, ⟨0, y + -st + L, s⟩]).len = L := by rw [len_two]; simp; omega
      simp only [wholeFix, hl, if_false, mem_two]
      constructor
      · intro h
        refine ⟨by omega, by omega, ?_⟩
        rcases rot_cases st i L hst0 hstL (by omega) (by omega) with ⟨_, e⟩ | ⟨_, e⟩ <;> rw [e] <;> omega
      · rintro ⟨h0, hL', h⟩
        rcases rot_cases st i L hst0 hstL h0 hL' with ⟨_, e⟩ | ⟨_, e⟩ <;> rw [e] at h <;> omega


/-- the same with the parts in reverse-strand order (`[0,y)` first) -/
theorem cross_two_rev (x y st L : Int) (s : Strand) (hy0 : 0 < y) (hyx : y ≤ x) (hxL : x < L)
    (hst0 : 0 < st) (hstL : st < L) :
    ∃ r, offsetLocation (.compound [⟨0, y, s⟩, ⟨x, L, s⟩]) (-st) L = .ok r ∧
      ∀ i, (wholeFix L r).mem i = true ↔
        (0 ≤ i ∧ i < L ∧ (Loc.compound [⟨0, y, s⟩, ⟨x, L, s⟩]).mem ((st + i) % L) = true) := by
  have hL0 : L ≠ 0 := by omega
  by_cases hwhole : y = x
  · subst hwhole
    have hlen : (Loc.compound [⟨0, y, s⟩, ⟨y, L, s⟩]).len = L := by rw [len_two]; simp; omega
    refine ⟨.compound [⟨0, y, s⟩, ⟨y, L, s⟩], ?_, ?_⟩
    · have hk : -st ≠ 0 := by omega
      have hlt : ¬ L < 1 := by omega
      simp [offsetLocation, hL0, hk, hlt, hlen, pure, Except.pure, bind, Except.bind]
    · intro i
      simp only [wholeFix, hlen, if_true, mem_simple, mem_two]
      constructor
      · rintro ⟨h0, h1⟩
        refine ⟨h0, h1, ?_⟩
        rcases rot_cases st i L hst0 hstL h0 h1 with ⟨_, e⟩ | ⟨_, e⟩ <;> rw [e] <;> omega
      · rintro ⟨h0, h1, _⟩; exact ⟨h0, h1⟩
  · have hyx' : y < x := by omega
    have hgen := offsetLocation_general (.compound [⟨0, y, s⟩, ⟨x, L, s⟩]) (-st) L _ (by omega) (by omega)
      (by rw [len_two]; simp; omega) (by rw [start_two, end_two]; simp; omega)
      (shiftedParts_two _ _ _ (by simp; omega) (by simp; omega))
    simp only [List.flatMap_cons, List.flatMap_nil, List.append_nil] at hgen
    by_cases h1 : st ≤ x
    · rw [wrapPart_inside L ⟨x + -st, L + -st, s⟩ (by simp; omega) (by simp; omega) (by simp; omega)] at hgen
      by_cases h2 : y ≤ st
      · rw [wrapPart_below L ⟨0 + -st, y + -st, s⟩ (by simp; omega) (by simp; omega) (by simp; omega)] at hgen
        simp only [List.cons_append, List.nil_append] at hgen
        rw [finishOffset_two_sep L ⟨0 + -st + L, y + -st + L, s⟩ ⟨x + -st, L + -st, s⟩ (by simp [PartIn]; omega)
          (by simp [PartIn]; omega) (by simp; omega)] at hgen
        refine ⟨_, hgen, ?_⟩
        intro i
        have hl : ¬ (Loc.compound [⟨0 + -st + L, y + -st + L, s⟩, ⟨x + -st, L + -st, s⟩]).len = L := by
          rw [len_two]; simp; omega
        simp only [wholeFix, hl, if_false, mem_two]
        constructor
        · intro h
          refine ⟨by omega, by omega, ?_⟩
          rcases rot_cases st i L hst0 hstL (by omega) (by omega) with ⟨_, e⟩ | ⟨_, e⟩ <;> rw [e] <;> omega
        · rintro ⟨h0, hL', h⟩
          rcases rot_cases st i L hst0 hstL h0 hL' with ⟨_, e⟩ | ⟨_, e⟩ <;> rw [e] at h <;> omega
      · rw [wrapPart_straddle L ⟨0 + -st, y + -st, s⟩ (by simp; omega) (by simp; omega) (by simp; omega) (by simp; omega)] at hgen
        simp only [List.cons_append, List.nil_append] at hgen
        rw [finishOffset_three_sep L ⟨0 + -st + L, L, s⟩ ⟨0, y + -st, s⟩ ⟨x + -st, L + -st, s⟩ (by simp [PartIn]; omega)
          (by simp [PartIn]; omega) (by simp [PartIn]; omega) (by simp; omega) (by simp; omega)] at hgen
        refine ⟨_, hgen, ?_⟩
        intro i
        have hl : ¬ (Loc.compound [⟨0 + -st + L, L, s⟩, ⟨0, y + -st, s⟩, ⟨x + -st, L + -st, s⟩]).len = L := by
          simp [Loc.len, Loc.parts, Part.len]; omega
        simp only [wholeFix, hl, if_false, mem_three, mem_two]
        constructor
        · intro h
          refine ⟨by omega, by omega, ?_⟩
          rcases rot_cases st i L hst0 hstL (by omega) (by omega) with ⟨_, e⟩ | ⟨_, e⟩ <;> rw [e] <;> omega
        · rintro ⟨h0, hL', h⟩
          rcases rot_cases st i L hst0 hstL h0 hL' with ⟨_, e⟩ | ⟨_, e⟩ <;> rw [e] at h <;> omega
    · rw [wrapPart_straddle L ⟨x + -st, L + -st, s⟩ (by simp; omega) (by simp; omega) (by simp; omega) (by simp; omega),
        wrapPart_below L ⟨0 + -st, y + -st, s⟩ (by simp; omega) (by simp; omega) (by simp; omega)] at hgen
      simp only [List.cons_append, List.nil_append] at hgen
      rw [finishOffset_three_sep L ⟨0 + -st + L, y + -st + L, s⟩ ⟨x + -st + L, L, s⟩ ⟨0, L + -st, s⟩ (by simp [PartIn]; omega)
        (by simp [PartIn]; omega) (by simp [PartIn]; omega) (by simp; omega) (by simp; omega)] at hgen
      refine ⟨_, hgen, ?_⟩
      intro i
      have hl : ¬ (Loc.compound [⟨0 + -st + L, y + -st + L, s⟩, ⟨x + -st + L, L, s⟩, ⟨0, L + -st, s⟩]).len = L := by
        simp [Loc.len, Loc.parts, Part.len]; omega
      simp only [wholeFix, hl, if_false, mem_three, mem_two]
      constructor
      · intro h
        refine ⟨by omega, by omega, ?_⟩
        rcases rot_cases st i L hst0 hstL (by omega) (by omega) with ⟨_, e⟩ | ⟨_, e⟩ <;> rw [e] <;> omega
      · rintro ⟨h0, hL', h⟩
        rcases rot_cases st i L hst0 hstL h0 hL' with ⟨_, e⟩ | ⟨_, e⟩ <;> rw [e] at h <;> omega

end ASV.RegionExtract
