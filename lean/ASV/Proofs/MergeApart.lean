/-
  C07: the merge loop of `merge_over_origin` for one product when no two of its protoclusters are within
  the cutoff of each other — it changes nothing (identity up to the sort by start).
-/
import ASV.Proofs.RuleOrderPerm
set_option linter.unusedVariables false
namespace ASV.Proto
open ASV ASV.Rules

/-- no protocluster of the group reaches another one: the core of the one does not share a base with the
    cutoff-extended core of the other (both ways, so the condition does not depend on the order) -/
def Apart (g : List (PC × Loc)) : Prop :=
  g.Pairwise fun x y => locationsOverlap y.1.core x.2 = false ∧ locationsOverlap x.1.core y.2 = false

theorem Apart.of_perm {g g' : List (PC × Loc)} (h : Apart g) (hp : g.Perm g') : Apart g' :=
  (hp.pairwise_iff (fun {x y} hxy => ⟨hxy.2, hxy.1⟩)).1 h

/-- one round of the loop finds nothing to merge -/
theorem mergeStep_none_of_apart (r : Rec) (rules : List RuleM) (cutoff : Int) :
    ∀ (g : List (PC × Loc)), Apart g → mergeStep r rules cutoff g = .ok none := by
  intro g
  induction g with
  | nil => intro _; rfl
  | cons x rest ih =>
    intro h
    obtain ⟨first, ext⟩ := x
    have hp := List.pairwise_cons.1 h
    have hnone : rest.findIdx? (fun y => locationsOverlap y.1.core ext) = none := by
      rw [List.findIdx?_eq_none_iff]
      intro y hy
      simpa using (hp.1 y hy).1
    simp only [mergeStep, hnone, ih hp.2, bind, Except.bind, pure, Except.pure]

/-- … so the loop returns the group as it is, whatever the fuel -/
theorem mergeFix_id_of_apart (r : Rec) (rules : List RuleM) (cutoff : Int) (fuel : Nat) (g : List (PC × Loc))
    (h : Apart g) : mergeFix r rules cutoff fuel g = .ok g := by
  cases fuel with
  | zero => rfl
  | succ n => simp only [mergeFix, mergeStep_none_of_apart r rules cutoff g h, bind, Except.bind, pure, Except.pure]

end ASV.Proto

namespace ASV.Proto
open ASV ASV.Rules

/-! ### the outer bookkeeping of `merge_over_origin` -/

theorem nodup_eraseDups_aux : ∀ (n : Nat) (l : List String), l.length ≤ n → l.eraseDups.Nodup := by
  intro n
  induction n with
  | zero =>
    intro l hl
    have : l = [] := List.eq_nil_of_length_eq_zero (by omega)
    subst this
    simp
  | succ n ih =>
    intro l hl
    cases l with
    | nil => simp
    | cons a as =>
      rw [List.eraseDups_cons, List.nodup_cons]
      refine ⟨?_, ih _ ?_⟩
      · intro hmem
        rw [List.mem_eraseDups, List.mem_filter] at hmem
        simp at hmem
      · have := List.length_filter_le (fun b => !b == a) as
        simp only [List.length_cons] at hl
        omega

theorem nodup_eraseDups (l : List String) : l.eraseDups.Nodup := nodup_eraseDups_aux l.length l (Nat.le_refl _)

theorem flatMap_congr_mem {α β : Type} {f g : α → List β} : ∀ (l : List α), (∀ x ∈ l, f x = g x) →
    l.flatMap f = l.flatMap g := by
  intro l
  induction l with
  | nil => intro _; rfl
  | cons a t ih =>
    intro h
    simp only [List.flatMap_cons, h a (by simp), ih (fun x hx => h x (by simp [hx]))]

/-- one more element `a` whose key is among the (distinct) keys -/
theorem flatMap_insert_perm {α : Type} (a : α) (y : String) (f : String → List α) :
    ∀ (keys : List String), keys.Nodup → y ∈ keys →
      (keys.flatMap fun x => if y == x then a :: f x else f x).Perm (a :: keys.flatMap f) := by
  intro keys
  induction keys with
  | nil => intro _ h; cases h
  | cons x ks ih =>
    intro hn hy
    have hn' := List.nodup_cons.1 hn
    simp only [List.flatMap_cons]
    by_cases e : y = x
    · subst e
      have hrest : (ks.flatMap fun x => if y == x then a :: f x else f x) = ks.flatMap f := by
        apply flatMap_congr_mem
        intro x hx
        have : y ≠ x := fun e => hn'.1 (e ▸ hx)
        simp [this]
      simp only [beq_self_eq_true, if_true, hrest, List.cons_append]
      exact List.Perm.refl _
    · have hy' : y ∈ ks := by
        rcases List.mem_cons.1 hy with h | h
        · exact absurd h e
        · exact h
      have hne : (y == x) = false := by simpa using e
      simp only [hne, Bool.false_eq_true, if_false]
      exact ((ih hn'.2 hy').append_left (f x)).trans List.perm_middle

/-- grouping a list by a key, for distinct keys that include every key of the list, is a rearrangement -/
theorem group_by_key_perm {α : Type} (k : α → String) :
    ∀ (l : List α) (keys : List String), keys.Nodup → (∀ a ∈ l, k a ∈ keys) →
      (keys.flatMap fun x => l.filter fun a => k a == x).Perm l := by
  intro l
  induction l with
  | nil =>
    intro keys _ _
    have : (keys.flatMap fun x => ([] : List α).filter fun a => k a == x) = [] := by
      induction keys with
      | nil => rfl
      | cons x ks ih => simp [List.flatMap_cons, ih]
    rw [this]
  | cons a t ih =>
    intro keys hn hk
    have e : (keys.flatMap fun x => (a :: t).filter fun b => k b == x) =
        keys.flatMap fun x => if k a == x then a :: (t.filter fun b => k b == x) else t.filter fun b => k b == x := by
      apply flatMap_congr_mem
      intro x _
      simp only [List.filter_cons]
    rw [e]
    exact (flatMap_insert_perm a (k a) (fun x => t.filter fun b => k b == x) keys hn (hk a (by simp))).trans
      ((ih keys hn (fun b hb => hk b (by simp [hb]))).cons a)

theorem mapM_fst {α β : Type} (f : α → E (α × β)) (hf : ∀ a b, f a = .ok b → b.1 = a) :
    ∀ (l : List α) (out : List (α × β)), l.mapM f = .ok out → out.map (·.1) = l := by
  intro l
  induction l with
  | nil => intro out h; simp [List.mapM_nil, pure, Except.pure] at h; subst h; rfl
  | cons a l ih =>
    intro out h
    obtain ⟨b, bs, h1, h2, rfl⟩ := (mapM_cons_ok f a l out).1 h
    simp only [List.map_cons, hf a b h1, ih bs h2]

theorem mapM_flatten_perm {α β : Type} (f : α → E (List β)) (g : α → List β) :
    ∀ (l : List α), (∀ a ∈ l, ∀ b, f a = .ok b → b.Perm (g a)) →
      ∀ out, l.mapM f = .ok out → out.flatten.Perm (l.flatMap g) := by
  intro l
  induction l with
  | nil => intro _ out h; simp [List.mapM_nil, pure, Except.pure] at h; subst h; exact List.Perm.refl _
  | cons a l ih =>
    intro hall out h
    obtain ⟨b, bs, h1, h2, rfl⟩ := (mapM_cons_ok f a l out).1 h
    simp only [List.flatten_cons, List.flatMap_cons]
    exact (hall a (by simp) b h1).append (ih (fun x hx => hall x (by simp [hx])) bs h2)

/-- the first step of `merge_over_origin`: every protocluster paired with its cutoff-extended core -/
def withExtOf (r : Rec) (rules : List RuleM) (clusters : List PC) : E (List (PC × Loc)) :=
  clusters.mapM fun pc => do
    let rule ← findRule rules pc.rule
    let e ← extendLocation pc.core rule.cutoff r.len r.circular
    pure (pc, e)

/-- **`merge_over_origin` is the identity up to order when the protoclusters of each product stay apart** -/
theorem mergeOverOrigin_apart_perm (r : Rec) (rules : List RuleM) (clusters merged : List PC)
    (hap : ∀ withExt, withExtOf r rules clusters = .ok withExt → ∀ prod, Apart (withExt.filter (·.1.rule == prod)))
    (h : mergeOverOrigin r rules clusters = .ok merged) : merged.Perm clusters := by
  unfold mergeOverOrigin at h
  obtain ⟨withExt, hw, h⟩ := bind_ok h
  obtain ⟨groups, hg, h⟩ := bind_ok h
  simp only [pure, Except.pure, Except.ok.injEq] at h
  subst h
  have hap' := hap withExt hw
  have hfst : withExt.map (·.1) = clusters := by
    refine mapM_fst _ ?_ clusters withExt hw
    intro a b hb
    obtain ⟨rule, _, hb⟩ := bind_ok hb
    obtain ⟨e, _, hb⟩ := bind_ok hb
    simp only [pure, Except.pure, Except.ok.injEq] at hb
    rw [← hb]
  have hgroups := mapM_flatten_perm _ (fun prod => withExt.filter (·.1.rule == prod))
    ((clusters.map (·.rule)).eraseDups) (by
      intro prod _ grp hs
      simp only at hs
      split at hs
      · simp only [pure, Except.pure, Except.ok.injEq] at hs
        rw [← hs]
      · obtain ⟨rule, _, hs⟩ := bind_ok hs
        rw [mergeFix_id_of_apart r rules rule.cutoff _ _ ((hap' prod).of_perm (sortByStart_perm _).symm)] at hs
        simp only [Except.ok.injEq] at hs
        rw [← hs]
        exact sortByStart_perm _) groups hg
  have hpart := group_by_key_perm (fun x : PC × Loc => x.1.rule) withExt ((clusters.map (·.rule)).eraseDups)
    (nodup_eraseDups _) (by
      intro a ha
      rw [List.mem_eraseDups, ← hfst, List.map_map]
      exact List.mem_map.2 ⟨a, ha, rfl⟩)
  have := (hgroups.trans hpart).map (·.1)
  rw [hfst] at this
  exact this

end ASV.Proto
