/-
  C07: the merge loop of `merge_over_origin` for one product when no two of its protoclusters are within
  the cutoff of each other — it changes nothing (identity up to the sort by start).
-/
import ASV.Proofs.RuleOrderPerm
set_option linter.unusedVariables false
namespace ASV.Proto
open ASV ASV.Rules

/-- no protocluster of the group reaches another one: the core of the one does not share a base with the
    cutoff-extended core of the other (both ways, so the condition does not depend on the order) -/
def Apart (g : List (PC × Loc)) : Prop :=
  g.Pairwise fun x y => locationsOverlap y.1.core x.2 = false ∧ locationsOverlap x.1.core y.2 = false

theorem Apart.of_perm {g g' : List (PC × Loc)} (h : Apart g) (hp : g.Perm g') : Apart g' :=
  (hp.pairwise_iff (fun {x y} hxy => ⟨hxy.2, hxy.1⟩)).1 h

/-- one round of the loop finds nothing to merge -/
theorem mergeStep_none_of_apart (r : Rec) (rules : List RuleM) (cutoff : Int) :
    ∀ (g : List (PC × Loc)), Apart g → mergeStep r rules cutoff g = .ok none := by
  intro g
  induction g with
  | nil => intro _; rfl
  | cons x rest ih =>
    intro h
    obtain ⟨first, ext⟩ := x
    have hp := List.pairwise_cons.1 h
    have hnone : rest.findIdx? (fun y => locationsOverlap y.1.core ext) = none := by
      rw [List.findIdx?_eq_none_iff]
      intro y hy
      simpa using (hp.1 y hy).1
    simp only [mergeStep, hnone, ih hp.2, bind, Except.bind, pure, Except.pure]

/-- … so the loop returns the group as it is, whatever the fuel -/
theorem mergeFix_id_of_apart (r : Rec) (rules : List RuleM) (cutoff : Int) (fuel : Nat) (g : List (PC × Loc))
    (h : Apart g) : mergeFix r rules cutoff fuel g = .ok g := by
  cases fuel with
  | zero => rfl
  | succ n => simp only [mergeFix, mergeStep_none_of_apart r rules cutoff g h, bind, Except.bind, pure, Except.pure]

end ASV.Proto
