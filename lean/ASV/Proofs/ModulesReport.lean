/-
  C14 helper lemmas, part 15: every component the caller loop reports comes from the gene whose
  name it carries, so the look-up of `add_to_record` finds, for each component, the domain
  feature of the component's own gene.
-/
import ASV.Proofs.ModulesLine
import ASV.Proofs.ModulesFeature
namespace ASV.Modules
open T Spec

theorem mem_lineGo : ∀ (l : List (Bool × List Comp)) (acc : List Comp) (c : Comp),
    c ∈ lineGo l acc → c ∈ acc ∨ ∃ e ∈ l, c ∈ e.2
  | [], _, _, h => Or.inl h
  | (true, cs) :: rest, acc, c, h => by
    simp only [lineGo] at h
    rcases mem_lineGo rest _ c h with h | ⟨e, he, hc⟩
    · rcases List.mem_append.mp h with h | h
      · exact Or.inr ⟨(true, cs), List.mem_cons_self, h⟩
      · exact Or.inl h
    · exact Or.inr ⟨e, List.mem_cons_of_mem _ he, hc⟩
  | (false, cs) :: rest, acc, c, h => by
    simp only [lineGo] at h
    rcases List.mem_append.mp h with h | h
    · rcases List.mem_append.mp h with h | h
      · exact Or.inl h
      · exact Or.inr ⟨(false, cs), List.mem_cons_self, h⟩
    · rcases mem_lineGo rest [] c h with h | ⟨e, he, hc⟩
      · cases h
      · exact Or.inr ⟨e, List.mem_cons_of_mem _ he, hc⟩

theorem mem_keptComps (name : String) (ds : List Domain) (c : Comp) (h : c ∈ keptComps name ds) :
    c.locus = name ∧ c.domain ∈ ds := by
  unfold keptComps at h
  obtain ⟨d, hd, rfl⟩ := List.mem_map.mp h
  refine ⟨rfl, ?_⟩
  have := (List.mem_filter.mp hd).1
  have hd' : d ∈ ds := (mem_sortDomains ds d).mp this
  cases d; exact hd'

theorem find?_unique : ∀ (genes : List Gene), (genes.map (·.name)).Nodup → ∀ g ∈ genes,
    genes.find? (fun x => x.name == g.name) = some g
  | [], _, _, h => by cases h
  | x :: xs, hn, g, h => by
    rw [List.map_cons, List.nodup_cons] at hn
    rcases List.mem_cons.mp h with h | h
    · subst h; simp [List.find?_cons]
    · have hne : (x.name == g.name) = false := by
        rw [beq_eq_false_iff_ne]; intro he
        exact hn.1 (by rw [he]; exact List.mem_map.mpr ⟨g, h, rfl⟩)
      simp only [List.find?_cons, hne]
      exact find?_unique xs hn.2 g h

/-- provenance of what the loop keeps -/
theorem chain_provenance (genes : List Gene)
    (hg : ∀ g ∈ genes, g.name.isEmpty = false ∧ ∀ d ∈ g.domains, (classify d.label).isSome = true)
    (R : List GeneResult) (hR : chainGo genes [] false = .ok R) :
    ∀ r ∈ R, ∀ m ∈ r.modules, ∀ c ∈ m.components, ∃ g ∈ genes, c.locus = g.name ∧ c.domain ∈ g.domains := by
  obtain ⟨R', hR', _, _, hline, _⟩ := chain_line_spec genes hg
  rw [hR] at hR'; injection hR' with hR'; subst hR'
  intro r hr m hm c hc
  obtain ⟨a, b, hab⟩ := comps_infix_flatMap m r.modules hm
  have he : entry r ∈ R.map entry := List.mem_map.mpr ⟨r, hr, rfl⟩
  obtain ⟨a2, b2, hab2⟩ := lineGo_infix (R.map entry) [] (entry r) he
  have hcl : c ∈ assemblyLine (R.map entry) := by
    unfold assemblyLine; rw [hab2]
    show c ∈ a2 ++ r.modules.flatMap (·.components) ++ b2
    rw [hab]; simp [hc]
  rw [hline] at hcl
  unfold geneLine assemblyLine at hcl
  rcases mem_lineGo _ [] c hcl with h | ⟨e, he, hce⟩
  · cases h
  · obtain ⟨g, hgm, rfl⟩ := List.mem_map.mp he
    have hgg : g ∈ genes := (List.mem_filter.mp hgm).1
    obtain ⟨h1, h2⟩ := mem_keptComps g.name g.domains c hce
    exact ⟨g, hgg, h1, h2⟩

/-- the look-up of `add_to_record` on a reported module: succeeds, and the domains found are, in
    order, those of the components' own genes -/
theorem report_domains (genes : List Gene) (hn : (genes.map (·.name)).Nodup)
    (hg : ∀ g ∈ genes, g.name.isEmpty = false ∧ ∀ d ∈ g.domains, (classify d.label).isSome = true)
    (R : List GeneResult) (hR : chainGo genes [] false = .ok R) (holder : String) :
    ∀ r ∈ R, ∀ m ∈ r.modules, ∃ ds, lookupDomains (geneTables genes) holder m.components = .ok ds
      ∧ ds.map some = m.components.map (fun c => geneTables genes c.locus c.domain)
      ∧ ds.map (·.locus) = m.components.map (·.locus) := by
  intro r hr m hm
  apply lookupDomains_spec _ holder (geneTables_locus genes)
  intro c hc
  obtain ⟨g, hgg, h1, h2⟩ := chain_provenance genes hg R hR r hr m hm c hc
  unfold geneTables
  rw [h1, find?_unique genes hn g hgg]
  exact tableOf_isSome _ _ (domainFeatures_mem g.name g.strand g.domains [] _ h2)

end ASV.Modules
