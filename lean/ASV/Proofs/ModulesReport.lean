/-
  C14 helper lemmas, part 15: every component the caller loop reports comes from the gene whose
  name it carries, so the look-up of `add_to_record` finds, for each component, the domain
  feature of the component's own gene.
-/
import ASV.Proofs.ModulesLine
import ASV.Proofs.ModulesFeature
namespace ASV.Modules
open T Spec

theorem mem_lineGo : ∀ (l : List (Bool × List Comp)) (acc : List Comp) (c : Comp),
    c ∈ lineGo l acc → c ∈ acc ∨ ∃ e ∈ l, c ∈ e.2
  | [], _, _, h => Or.inl h
  | (true, cs) :: rest, acc, c, h => by
    simp only [lineGo] at h
    rcases mem_lineGo rest _ c h with h | ⟨e, he, hc⟩
    · rcases List.mem_append.mp h with h | h
      · exact Or.inr ⟨(true, cs), List.mem_cons_self, h⟩
      · exact Or.inl h
    · exact Or.inr ⟨e, List.mem_cons_of_mem _ he, hc⟩
  | (false, cs) :: rest, acc, c, h => by
    simp only [lineGo] at h
    rcases List.mem_append.mp h with h | h
    · rcases List.mem_append.mp h with h | h
      · exact Or.inl h
      · exact Or.inr ⟨(false, cs), List.mem_cons_self, h⟩
    · rcases mem_lineGo rest [] c h with h | ⟨e, he, hc⟩
      · cases h
      · exact Or.inr ⟨e, List.mem_cons_of_mem _ he, hc⟩

theorem mem_keptComps (name : String) (ds : List Domain) (c : Comp) (h : c ∈ keptComps name ds) :
    c.locus = name ∧ c.domain ∈ ds := by
  unfold keptComps at h
  obtain ⟨d, hd, rfl⟩ := List.mem_map.mp h
  refine ⟨rfl, ?_⟩
  have := (List.mem_filter.mp hd).1
  have hd' : d ∈ ds := (mem_sortDomains ds d).mp this
  cases d; exact hd'

theorem find?_unique : ∀ (genes : List Gene), (genes.map (·.name)).Nodup → ∀ g ∈ genes,
    genes.find? (fun x => x.name == g.name) = some g
  | [], _, _, h => by cases h
  | x :: xs, hn, g, h => by
    rw [List.map_cons, List.nodup_cons] at hn
    rcases List.mem_cons.mp h with h | h
    · subst h; simp [List.find?_cons]
    · have hne : (x.name == g.name) = false := by
        rw [beq_eq_false_iff_ne]; intro he
        exact hn.1 (by rw [he]; exact List.mem_map.mpr ⟨g, h, rfl⟩)
      simp only [List.find?_cons, hne]
      exact find?_unique xs hn.2 g h

/-- provenance of what the loop keeps -/
theorem chain_provenance (genes : List Gene)
    (hg : ∀ g ∈ genes, g.name.isEmpty = false ∧ ∀ d ∈ g.domains, (classify d.label).isSome = true)
    (R : List GeneResult) (hR : chainGo genes [] false = .ok R) :
    ∀ r ∈ R, ∀ m ∈ r.modules, ∀ c ∈ m.components, ∃ g ∈ genes, c.locus = g.name ∧ c.domain ∈ g.domains := by
  obtain ⟨R', hR', _, _, hline, _⟩ := chain_line_spec genes hg
  rw [hR] at hR'; injection hR' with hR'; subst hR'
  intro r hr m hm c hc
  obtain ⟨a, b, hab⟩ := comps_infix_flatMap m r.modules hm
  have he : entry r ∈ R.map entry := List.mem_map.mpr ⟨r, hr, rfl⟩
  obtain ⟨a2, b2, hab2⟩ := lineGo_infix (R.map entry) [] (entry r) he
  have hcl : c ∈ assemblyLine (R.map entry) := by
    unfold assemblyLine; rw [hab2]
    show c ∈ a2 ++ r.modules.flatMap (·.components) ++ b2
    rw [hab]; simp [hc]
  rw [hline] at hcl
  unfold geneLine assemblyLine at hcl
  rcases mem_lineGo _ [] c hcl with h | ⟨e, he, hce⟩
  · cases h
  · obtain ⟨g, hgm, rfl⟩ := List.mem_map.mp he
    have hgg : g ∈ genes := (List.mem_filter.mp hgm).1
    obtain ⟨h1, h2⟩ := mem_keptComps g.name g.domains c hce
    exact ⟨g, hgg, h1, h2⟩

/-- the look-up of `add_to_record` on a reported module: succeeds, and the domains found are, in
    order, those of the components' own genes -/
theorem report_domains (genes : List Gene) (hn : (genes.map (·.name)).Nodup)
    (hg : ∀ g ∈ genes, g.name.isEmpty = false ∧ ∀ d ∈ g.domains, (classify d.label).isSome = true)
    (R : List GeneResult) (hR : chainGo genes [] false = .ok R) (holder : String) :
    ∀ r ∈ R, ∀ m ∈ r.modules, ∃ ds, lookupDomains (geneTables genes) holder m.components = .ok ds
      ∧ ds.map some = m.components.map (fun c => geneTables genes c.locus c.domain)
      ∧ ds.map (·.locus) = m.components.map (·.locus) := by
  intro r hr m hm
  apply lookupDomains_spec _ holder (geneTables_locus genes)
  intro c hc
  obtain ⟨g, hgg, h1, h2⟩ := chain_provenance genes hg R hR r hr m hm c hc
  unfold geneTables
  rw [h1, find?_unique genes hn g hgg]
  exact tableOf_isSome _ _ (domainFeatures_mem g.name g.strand g.domains [] _ h2)


/-! ### `Module.start` / `Module.end` -/

theorem startPos_eq (m : Module) (hne : m.components ≠ []) :
    (m.startPos.toOption = moduleStart m.components) ∧ ∃ s, m.startPos = .ok s := by
  unfold Module.startPos moduleStart
  cases hc : m.components with
  | nil => exact absurd hc hne
  | cons c cs => exact ⟨rfl, c.start, rfl⟩

theorem endPos_eq (m : Module) (hI : StateInv m) (hne : m.components ≠ []) :
    (m.endPos.toOption = moduleEnd m.components) ∧ ∃ e, m.endPos = .ok e := by
  unfold Module.endPos moduleEnd
  rw [hI.end_]
  cases hr : m.components.reverse with
  | nil => exact absurd (List.reverse_eq_nil_iff.mp hr) hne
  | cons last rest =>
    simp only
    cases endOf m.components with
    | none => exact ⟨rfl, _, rfl⟩
    | some e =>
      cases rest with
      | nil => exact ⟨rfl, _, rfl⟩
      | cons second more =>
        simp only
        cases endTrimLabels.contains e.label with
        | true => exact ⟨rfl, _, rfl⟩
        | false => exact ⟨rfl, _, rfl⟩


/-! ### `add_to_record` never fails when all genes lie on one strand -/

theorem geneTables_strand (genes : List Gene) (l : String) (hit : Domain) (d : FDomain)
    (h : geneTables genes l hit = some d) : ∃ g ∈ genes, d.strand = g.strand := by
  unfold geneTables at h
  cases hf : genes.find? (fun g => g.name == l) with
  | none => rw [hf] at h; cases h
  | some g =>
    rw [hf] at h
    obtain ⟨e, he, hd⟩ := tableOf_mem _ _ _ h
    have := (domainFeatures_locus g.name g.strand g.domains [] e he).2
    exact ⟨g, List.mem_of_find?_eq_some hf, by rw [← hd, this]⟩

theorem construct_same_strand (ds : List FDomain) (s : Int) (hne : ds ≠ []) (hs : ∀ d ∈ ds, d.strand = s)
    (t : ModType) (c st fi it : Bool) :
    ModFeature.construct ds t c st fi it = .ok ⟨ds, t, c, st, fi, it⟩ := by
  unfold ModFeature.construct
  cases ds with
  | nil => exact absurd rfl hne
  | cons d rest =>
    simp only
    have : rest.all (fun x => x.strand == d.strand) = true := by
      rw [List.all_eq_true]; intro x hx
      rw [hs x (List.mem_cons_of_mem _ hx), hs d (List.mem_cons_self)]; simp
    rw [if_pos this]

/-- the whole `add_to_record` step for every module `generate_domains` reports, for genes that all
    lie on one strand: the domain look-up and the feature constructor both succeed -/
theorem report_total (genes : List Gene) (hn : (genes.map (·.name)).Nodup)
    (hg : ∀ g ∈ genes, g.name.isEmpty = false ∧ ∀ d ∈ g.domains, (classify d.label).isSome = true)
    (s : Int) (hs : ∀ g ∈ genes, g.strand = s) (out : List GeneResult) (ho : chain genes = .ok out) :
    ∀ r ∈ out, ∀ m ∈ r.modules, ∃ f, m.report (geneTables genes) r.name = .ok f
      ∧ f.domains.map (·.locus) = m.components.map (·.locus)
      ∧ f.complete = m.isComplete ∧ f.starter = m.isStarterModule ∧ f.final = m.isTerminationModule
      ∧ f.iterative = m.isIterative ∧ f.type = m.featureType := by
  unfold chain at ho
  cases hR : chainGo genes [] false with
  | error e => rw [hR] at ho; cases ho
  | ok R =>
    rw [hR] at ho
    injection ho with ho; subst ho
    intro r hr m hm
    obtain ⟨r0, hr0, rfl⟩ := List.mem_map.mp hr
    simp only at hm
    obtain ⟨hm0, hbig⟩ := List.mem_filter.mp hm
    obtain ⟨ds, hl, hsome, hloc⟩ := report_domains genes hn hg R hR r0.name r0 hr0 m hm0
    have hlen : ds.length = m.components.length := by
      have := congrArg List.length hloc; simpa using this
    have hne : ds ≠ [] := by
      intro h; rw [h] at hlen; simp at hbig; simp at hlen; omega
    have hstr : ∀ d ∈ ds, d.strand = s := by
      intro d hd
      have : some d ∈ ds.map some := List.mem_map.mpr ⟨d, hd, rfl⟩
      rw [hsome] at this
      obtain ⟨c, _, hc⟩ := List.mem_map.mp this
      obtain ⟨g, hgm, hgs⟩ := geneTables_strand genes _ _ _ hc
      rw [hgs, hs g hgm]
    refine ⟨⟨ds, m.featureType, m.isComplete, m.isStarterModule, m.isTerminationModule, m.isIterative⟩,
            ?_, hloc, rfl, rfl, rfl, rfl, rfl⟩
    unfold Module.report Module.toFeature
    simp only [hl]
    exact construct_same_strand ds s hne hstr _ _ _ _ _

end ASV.Modules

namespace ASV.Modules
open T Spec

/-! ### merged modules only ever hold domains of genes on one strand -/

/-- the strand of the gene a locus names -/
def strandOfLocus (genes : List Gene) (l : String) : Int :=
  match genes.find? fun g => g.name == l with
  | some g => g.strand
  | none => 0

theorem geneTables_strandOf (genes : List Gene) (l : String) (hit : Domain) (d : FDomain)
    (h : geneTables genes l hit = some d) : d.strand = strandOfLocus genes l := by
  unfold geneTables at h
  unfold strandOfLocus
  cases hf : genes.find? (fun g => g.name == l) with
  | none => rw [hf] at h; cases h
  | some g =>
    rw [hf] at h
    obtain ⟨e, he, hd⟩ := tableOf_mem _ _ _ h
    have := (domainFeatures_locus g.name g.strand g.domains [] e he).2
    rw [← hd, this]

/-- loop invariant: every component kept in a gene's module list comes from a gene on that gene's strand -/
theorem chainGo_strand (all : List Gene) (hn : (all.map (·.name)).Nodup) :
    ∀ (genes : List Gene) (results : List GeneResult) (live : Bool),
    (∀ g ∈ genes, g ∈ all) →
    (∀ g ∈ genes, g.name.isEmpty = false ∧ ∀ d ∈ g.domains, (classify d.label).isSome = true) →
    (∀ r ∈ results, ∀ m ∈ r.modules, Good m) →
    (∀ r ∈ results, ∀ m ∈ r.modules, ∀ c ∈ m.components, strandOfLocus all c.locus = r.strand) →
    ∃ out, chainGo genes results live = .ok out ∧ (∀ r ∈ out, ∀ m ∈ r.modules, Good m)
      ∧ ∀ r ∈ out, ∀ m ∈ r.modules, ∀ c ∈ m.components, strandOfLocus all c.locus = r.strand := by
  intro genes
  induction genes with
  | nil => intro results live _ _ hr hs; exact ⟨results, rfl, hr, hs⟩
  | cons g rest ih =>
    intro results live hall hg hr hs
    have hrest : ∀ g ∈ rest, g.name.isEmpty = false ∧ ∀ d ∈ g.domains, (classify d.label).isSome = true :=
      fun x hx => hg x (List.mem_cons_of_mem _ hx)
    have hall' : ∀ g ∈ rest, g ∈ all := fun x hx => hall x (List.mem_cons_of_mem _ hx)
    simp only [chainGo]
    cases hskip : (g.domains.isEmpty && !g.hasMotifs) with
    | true => simp only [if_true]; exact ih results false hall' hrest hr hs
    | false =>
      simp only [Bool.false_eq_true, if_false]
      obtain ⟨ms, hb, hsp, hflat, _⟩ := build_spec g.domains g.name (hg g (List.mem_cons_self)).1 (hg g (List.mem_cons_self)).2
      obtain ⟨ms', hb', hms⟩ := build_good g.domains g.name (hg g (List.mem_cons_self)).1 (hg g (List.mem_cons_self)).2
      rw [hb] at hb'; injection hb' with hb'; subst hb'
      rw [hb]
      simp only
      have hgs : strandOfLocus all g.name = g.strand := by
        unfold strandOfLocus; rw [find?_unique all hn g (hall g (List.mem_cons_self))]
      have hown : ∀ m ∈ ms, ∀ c ∈ m.components, strandOfLocus all c.locus = g.strand := by
        intro m hm c hc
        have hmem : c ∈ ms.flatMap (·.components) := List.mem_flatMap.mpr ⟨m, hm, hc⟩
        rw [hflat, kept_eq] at hmem
        rw [(mem_keptComps g.name g.domains c hmem).1]; exact hgs
      have plainG : ∀ r ∈ results ++ [(⟨g.name, g.strand, g.region, ms, g.index, ms.isEmpty⟩ : GeneResult)],
          ∀ m ∈ r.modules, Good m := by
        intro r hrm
        rcases List.mem_append.mp hrm with h | h
        · exact hr r h
        · simp at h; subst h; exact hms
      have plainS : ∀ r ∈ results ++ [(⟨g.name, g.strand, g.region, ms, g.index, ms.isEmpty⟩ : GeneResult)],
          ∀ m ∈ r.modules, ∀ c ∈ m.components, strandOfLocus all c.locus = r.strand := by
        intro r hrm
        rcases List.mem_append.mp hrm with h | h
        · exact hs r h
        · simp at h; subst h; exact hown
      cases hprev : (if live = true then results.getLast? else none) with
      | none => exact ih _ true hall' hrest plainG plainS
      | some prev =>
        simp only
        have hpm : prev ∈ results := by
          cases live with
          | false => simp at hprev
          | true => simp at hprev; exact List.mem_of_getLast? hprev
        have hpg := hr prev hpm
        have hps := hs prev hpm
        cases hcond : (!prev.modules.isEmpty && !ms.isEmpty && prev.region == g.region) with
        | false => simp only [Bool.false_eq_true, if_false]; exact ih _ true hall' hrest plainG plainS
        | true =>
          simp only [if_true]
          have hdlG : ∀ r ∈ results.dropLast, ∀ m ∈ r.modules, Good m := fun r h => hr r (mem_dropLast h)
          have hdlS : ∀ r ∈ results.dropLast, ∀ m ∈ r.modules, ∀ c ∈ m.components,
              strandOfLocus all c.locus = r.strand := fun r h => hs r (mem_dropLast h)
          -- both new lists only hold components of the two old lists; if anything changed the strands are equal
          have finish : ∀ (pm im : List Module), (∀ m ∈ pm, Good m) → (∀ m ∈ im, Good m) →
              ((pm = prev.modules ∧ im = ms) ∨
               (prev.strand = g.strand ∧ (pm ++ im).flatMap (·.components) ⊆ (prev.modules ++ ms).flatMap (·.components))) →
              ∃ out, chainGo rest (results.dropLast ++ [{ prev with modules := pm },
                  { (⟨g.name, g.strand, g.region, ms, g.index, ms.isEmpty⟩ : GeneResult) with modules := im }]) true = .ok out
                ∧ (∀ r ∈ out, ∀ m ∈ r.modules, Good m)
                ∧ ∀ r ∈ out, ∀ m ∈ r.modules, ∀ c ∈ m.components, strandOfLocus all c.locus = r.strand := by
            intro pm im hpmg himg hcase
            have hold : ∀ c ∈ (prev.modules ++ ms).flatMap (·.components), prev.strand = g.strand →
                strandOfLocus all c.locus = g.strand := by
              intro c hc he
              obtain ⟨m, hm, hcm⟩ := List.mem_flatMap.mp hc
              rcases List.mem_append.mp hm with h | h
              · rw [← he]; exact hps m h c hcm
              · exact hown m h c hcm
            apply ih _ true hall' hrest
            · intro x hx
              rcases List.mem_append.mp hx with h | h
              · exact hdlG x h
              · simp at h
                rcases h with h | h
                · subst h; exact hpmg
                · subst h; exact himg
            · intro x hx
              rcases List.mem_append.mp hx with h | h
              · exact hdlS x h
              · simp at h
                rcases hcase with ⟨e1, e2⟩ | ⟨he, hsub⟩
                · rcases h with h | h
                  · subst h; subst e1; exact hps
                  · subst h; subst e2; exact hown
                · rcases h with h | h
                  · subst h
                    intro m hm c hc
                    show strandOfLocus all c.locus = prev.strand
                    rw [he]
                    exact hold c (hsub (List.mem_flatMap.mpr ⟨m, List.mem_append_left _ hm, hc⟩)) he
                  · subst h
                    intro m hm c hc
                    exact hold c (hsub (List.mem_flatMap.mpr ⟨m, List.mem_append_right _ hm, hc⟩)) he
          cases hstr : (g.strand == -1) with
          | true =>
            simp only [if_true]
            obtain ⟨r, hc, h1, h2, _, h4⟩ := combine_good prev.strand g.strand prev.modules ms hms hpg
            rw [hc]
            simp only
            apply finish r.cur r.prev h2 h1
            by_cases hse : prev.strand = g.strand
            · right
              refine ⟨hse, ?_⟩
              have hflat2 := combineOK_flat h4
              intro c hcm
              simp only [List.flatMap_append, List.mem_append] at hcm ⊢
              have : c ∈ (r.prev ++ r.cur).flatMap (·.components) := by
                simp only [List.flatMap_append, List.mem_append]; exact hcm.symm
              rw [hflat2] at this
              simp only [List.flatMap_append, List.mem_append] at this
              exact this.symm
            · left
              rw [combine_diff_strand _ _ _ _ hse] at hc
              injection hc with hc; subst hc
              exact ⟨rfl, rfl⟩
          | false =>
            simp only [Bool.false_eq_true, if_false]
            obtain ⟨r, hc, h1, h2, _, h4⟩ := combine_good g.strand prev.strand ms prev.modules hpg hms
            rw [hc]
            simp only
            apply finish r.prev r.cur h1 h2
            by_cases hse : g.strand = prev.strand
            · right
              refine ⟨hse.symm, ?_⟩
              have hflat2 := combineOK_flat h4
              intro c hcm
              rw [hflat2] at hcm
              exact hcm
            · left
              rw [combine_diff_strand _ _ _ _ hse] at hc
              injection hc with hc; subst hc
              exact ⟨rfl, rfl⟩

end ASV.Modules

namespace ASV.Modules
open T Spec

/-- `add_to_record` for every reported module, any mixture of strands -/
theorem report_total_mixed (genes : List Gene) (hn : (genes.map (·.name)).Nodup)
    (hg : ∀ g ∈ genes, g.name.isEmpty = false ∧ ∀ d ∈ g.domains, (classify d.label).isSome = true)
    (out : List GeneResult) (ho : chain genes = .ok out) :
    ∀ r ∈ out, ∀ m ∈ r.modules, ∃ f, m.report (geneTables genes) r.name = .ok f
      ∧ f.domains.map (·.locus) = m.components.map (·.locus)
      ∧ (∀ d ∈ f.domains, d.strand = r.strand)
      ∧ f.complete = m.isComplete ∧ f.starter = m.isStarterModule ∧ f.final = m.isTerminationModule
      ∧ f.iterative = m.isIterative ∧ f.type = m.featureType := by
  unfold chain at ho
  cases hR : chainGo genes [] false with
  | error e => rw [hR] at ho; cases ho
  | ok R =>
    rw [hR] at ho
    injection ho with ho; subst ho
    obtain ⟨R', hR', _, hstrand⟩ := chainGo_strand genes hn genes [] false (fun g h => h) hg
      (fun r hr => by cases hr) (fun r hr => by cases hr)
    rw [hR] at hR'; injection hR' with hR'; subst hR'
    intro r hr m hm
    obtain ⟨r0, hr0, rfl⟩ := List.mem_map.mp hr
    simp only at hm
    obtain ⟨hm0, hbig⟩ := List.mem_filter.mp hm
    obtain ⟨ds, hl, hsome, hloc⟩ := report_domains genes hn hg R hR r0.name r0 hr0 m hm0
    have hlen : ds.length = m.components.length := by
      have := congrArg List.length hloc; simpa using this
    have hne : ds ≠ [] := by
      intro h; rw [h] at hlen; simp at hbig; simp at hlen; omega
    have hstr : ∀ d ∈ ds, d.strand = r0.strand := by
      intro d hd
      have : some d ∈ ds.map some := List.mem_map.mpr ⟨d, hd, rfl⟩
      rw [hsome] at this
      obtain ⟨c, hcm, hc⟩ := List.mem_map.mp this
      rw [geneTables_strandOf genes _ _ _ hc]
      exact hstrand r0 hr0 m hm0 c hcm
    refine ⟨⟨ds, m.featureType, m.isComplete, m.isStarterModule, m.isTerminationModule, m.isIterative⟩,
            ?_, hloc, hstr, rfl, rfl, rfl, rfl, rfl⟩
    unfold Module.report Module.toFeature
    simp only [hl]
    exact construct_same_strand ds r0.strand hne hstr _ _ _ _ _

end ASV.Modules
