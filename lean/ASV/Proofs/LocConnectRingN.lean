/-
  `connect_locations` on a circular record for any number of reduced locations, in closed form (C04).
  Case A: no origin-spanning input (`connA`);  Case B: at least one (`connB`).
-/
import ASV.Proofs.LocRingMerge
set_option linter.unusedSimpArgs false
set_option linter.unusedVariables false
namespace ASV

/-! ### closed forms -/

/-- no origin-spanning input -/
def connA (rs : List RLoc) (L : Int) : Loc :=
  if isWrappingShorter (rs.map (RLoc.toLoc L)) L = true then
    if postOf L rs = [] then .simple (hullP (preOf L rs))
    else if preOf L rs = [] then .simple (hullP (postOf L rs))
    else if (hullP (postOf L rs)).hi ≤ (hullP (preOf L rs)).lo ∧
        (hullP (postOf L rs)).lo + L - (hullP (preOf L rs)).hi < (hullP (preOf L rs)).lo - (hullP (postOf L rs)).hi then
      .compound [fl (hullP (preOf L rs)).lo L, fl 0 (hullP (postOf L rs)).hi]
    else .simple ⟨min (hullP (preOf L rs)).lo (hullP (postOf L rs)).lo,
                  max (hullP (preOf L rs)).hi (hullP (postOf L rs)).hi, .fwd⟩
  else hullOf (rs.map (RLoc.toLoc L))

/-- at least one origin-spanning input -/
def connB (rs : List RLoc) (L : Int) : Loc :=
  match rs with
  | [r] => r.toLoc L
  | _ =>
    if 0 < (hullP (preOf L rs)).lo ∧ (hullP (postOf L rs)).hi ≤ (hullP (preOf L rs)).lo then
      .compound [⟨(hullP (preOf L rs)).lo, L, .fwd⟩, ⟨0, (hullP (postOf L rs)).hi, .fwd⟩]
    else .simple ⟨0, L, .fwd⟩

def connR (rs : List RLoc) (L : Int) : Loc :=
  if rs.any RLoc.isTwo = true then connB rs L else connA rs L

/-! ### reduced locations are fixed points of `_reduce_parts_to_location` -/

theorem reduce_two (x y L : Int) (hL : 0 < L) (hy0 : 0 < y) (hyx : y ≤ x) (hxL : x < L) :
    reduceParts [fl x L, fl 0 y] (some L) = .ok (.compound [fl x L, fl 0 y]) := by
  have hb := bridges_two x y L hy0 hyx
  have hsb := splitBridging_two x y L .fwd (by decide) hy0 hyx hxL
  have hL' : ¬ L ≤ 0 := by omega
  simp only [fl] at hb hsb
  simp only [reduceParts, fl, hb, if_true, hsb, hL', if_false, List.map, minList, maxList, List.foldl, bind, Except.bind,
    pure, Except.pure]

theorem reduce_toLoc (L : Int) (hL : 0 < L) (r : RLoc) (h : r.OK L) :
    reduceParts (r.toLoc L).parts (some L) = .ok (r.toLoc L) := by
  cases r with
  | one p => exact reduce_simple p _
  | two x y => exact reduce_two x y L hL h.1 h.2.1 h.2.2

theorem mapM_reduce_toLoc (L : Int) (hL : 0 < L) (rs : List RLoc) (h : ∀ r ∈ rs, r.OK L) :
    (rs.map (RLoc.toLoc L)).mapM (fun l => reduceParts l.parts (some L)) = .ok (rs.map (RLoc.toLoc L)) := by
  induction rs with
  | nil => rfl
  | cons r rs ih =>
    rw [List.map_cons, List.mapM_cons, reduce_toLoc L hL r (h r (by simp)),
      ih (fun x hx => h x (List.mem_cons_of_mem _ hx))]
    rfl

theorem any_bridges_toLoc (L : Int) (rs : List RLoc) (h : ∀ r ∈ rs, r.OK L) :
    (rs.map (RLoc.toLoc L)).any bridgesOrigin = rs.any RLoc.isTwo := by
  induction rs with
  | nil => rfl
  | cons r rs ih =>
    rw [List.map_cons, List.any_cons, List.any_cons, bridges_toLoc L r (h r (by simp)),
      ih (fun x hx => h x (List.mem_cons_of_mem _ hx))]

theorem map_one_toLoc (L : Int) (ps : List Part) : (ps.map RLoc.one).map (RLoc.toLoc L) = ps.map Loc.simple := by
  rw [List.map_map]; rfl

theorem all_one (rs : List RLoc) (h : rs.any RLoc.isTwo = false) : ∃ ps : List Part, rs = ps.map RLoc.one := by
  induction rs with
  | nil => exact ⟨[], rfl⟩
  | cons r rs ih =>
    rw [List.any_cons, Bool.or_eq_false_iff] at h
    obtain ⟨ps, rfl⟩ := ih h.2
    cases r with
    | one p => exact ⟨p :: ps, rfl⟩
    | two x y => exact absurd h.1 (by simp [RLoc.isTwo])

theorem one_ok {L : Int} {ps : List Part} (h : ∀ r ∈ ps.map RLoc.one, r.OK L) :
    ∀ p ∈ ps, 0 ≤ p.lo ∧ p.lo < p.hi ∧ p.hi ≤ L :=
  fun p hp => h (.one p) (List.mem_map.2 ⟨p, hp, rfl⟩)

/-- something is always contributed to one of the two sides -/
theorem chunks_ne (L : Int) (rs : List RLoc) (hne : rs ≠ []) (h1 : preOf L rs = []) : postOf L rs ≠ [] := by
  cases rs with
  | nil => exact absurd rfl hne
  | cons r rs =>
    intro h2
    simp only [preOf, postOf, List.flatMap_cons, List.append_eq_nil_iff] at h1 h2
    cases r with
    | one p =>
      by_cases hc : p.lo < L - p.hi
      · have := h2.1; simp [RLoc.post, hc] at this
      · have := h1.1; simp [RLoc.pre, hc] at this
    | two x y => have := h1.1; simp [RLoc.pre] at this

/-! ### neither side on its own is ever judged shorter over the origin -/

theorem nowrap_simples (qs : List Part) (L : Int) (hL : 0 < L)
    (hq : ∀ q ∈ qs, q.lo < q.hi)
    (hno : ∀ f ∈ qs, ∀ s ∈ qs, f.lo ≤ s.lo → ¬ (s.lo - f.hi > L / 2)) :
    isWrappingShorter (qs.map .simple) L = false := by
  by_cases hne : qs = []
  · subst hne; rfl
  · have hne' : qs.map Loc.simple ≠ [] := by simpa using hne
    have hnb : (qs.map Loc.simple).any bridgesOrigin = false := by
      rw [List.any_eq_false]; intro l hl
      obtain ⟨q, _, rfl⟩ := List.mem_map.1 hl
      simp [bridgesOrigin]
    have hpos : ∀ l ∈ qs.map Loc.simple, l.start ≤ l.end := by
      intro l hl
      obtain ⟨q, hq', rfl⟩ := List.mem_map.1 hl
      have := hq q hq'
      simp only [Loc.start, Loc.end]; omega
    obtain ⟨f, rest, _, hf, hmin, _⟩ := sortLocs_head _ hne'
    cases hw : isWrappingShorter (qs.map .simple) L
    · rfl
    · exfalso
      obtain ⟨s, hs, hgt⟩ := (isWrappingShorter_iff _ L (by omega) hnb hpos f hf hmin).1 hw
      obtain ⟨qf, hqf, rfl⟩ := List.mem_map.1 hf
      obtain ⟨qs', hqs', rfl⟩ := List.mem_map.1 hs
      have hk := hmin _ hs
      simp only [KeyLe, Loc.start, Loc.end] at hk hgt
      exact hno qf hqf qs' hqs' (by omega) hgt

theorem nowrap_pre {L : Int} (hL : 0 < L) {rs : List RLoc} (h : ∀ r ∈ rs, r.OK L) :
    isWrappingShorter ((preOf L rs).map .simple) L = false := by
  apply nowrap_simples _ L hL (fun q hq => (mem_preOf h hq).2.2.1)
  intro f hf s hs hle
  have a := mem_preOf h hf
  have b := mem_preOf h hs
  omega

theorem nowrap_post {L : Int} (hL : 0 < L) {rs : List RLoc} (h : ∀ r ∈ rs, r.OK L) :
    isWrappingShorter ((postOf L rs).map .simple) L = false := by
  apply nowrap_simples _ L hL (fun q hq => (mem_postOf h hq).2.2.1)
  intro f hf s hs hle
  have a := mem_postOf h hf
  have b := mem_postOf h hs
  omega

/-! ### Case A: no origin-spanning input -/

theorem splitSections_wrap' (L : Int) (rs : List RLoc) (h : ∀ r ∈ rs, r.OK L)
    (hw : isWrappingShorter (rs.map (RLoc.toLoc L)) L = true) :
    splitSections (rs.map (RLoc.toLoc L)) L = .ok ((preOf L rs).map .simple, (postOf L rs).map .simple) :=
  splitSections_wrap L rs h hw

theorem map_simple_ne {qs : List Part} (h : qs ≠ []) : qs.map Loc.simple ≠ [] :=
  fun e => h (List.map_eq_nil_iff.1 e)

theorem hullOf_two_fwd (u l : Part) (hu : u.strand = .fwd) (hl : l.strand = .fwd) :
    hullOf [.simple u, .simple l] = .simple ⟨min u.lo l.lo, max u.hi l.hi, .fwd⟩ := by
  simp [hullOf, minList, maxList, commonStrand, Loc.start, Loc.end, Loc.strand, hu, hl]

/-- not judged shorter over the origin: the hull, with a recursion budget of one -/
theorem connectLocations_A_nowrap (f : Nat) (ls : List Loc) (L : Int) (ps : List Part)
    (hne : ls ≠ []) (hps : ps ≠ []) (hL : 0 < L)
    (hred : ls.mapM (fun l => reduceParts l.parts (some L)) = .ok (ps.map .simple))
    (hany : ls.any bridgesOrigin = false)
    (hw : isWrappingShorter (ps.map .simple) L = false) :
    connectLocations (f + 1) ls (some L) = .ok (hullOf (ps.map .simple)) := by
  apply connectLocations_ring_one f ls L _ _ hne hL hred
  rw [hany]
  simp only [Bool.false_eq_true, if_false]
  exact mergeOverOrigin_upper _ L _ (splitSections_nowrap _ L hw) (map_simple_ne hps)

theorem connectLocations_A (f : Nat) (ls : List Loc) (L : Int) (ps : List Part)
    (hne : ls ≠ []) (hps : ps ≠ []) (hL : 0 < L)
    (hok : ∀ r ∈ ps.map RLoc.one, r.OK L)
    (hred : ls.mapM (fun l => reduceParts l.parts (some L)) = .ok (ps.map .simple))
    (hany : ls.any bridgesOrigin = false) :
    connectLocations (f + 2) ls (some L) = .ok (connA (ps.map .one) L) := by
  have hrs : ps.map RLoc.one ≠ [] := by simpa using hps
  unfold connA
  rw [map_one_toLoc]
  cases hw : isWrappingShorter (ps.map .simple) L
  · rw [if_neg (by simp)]
    exact connectLocations_A_nowrap (f + 1) ls L ps hne hps hL hred hany hw
  · rw [if_pos rfl]
    have hsp := splitSections_wrap' L (ps.map .one) hok (by rw [map_one_toLoc]; exact hw)
    rw [map_one_toLoc] at hsp
    have hpf : ∀ q ∈ preOf L (ps.map .one), q.strand = .fwd := fun q hq => (mem_preOf hok hq).1
    have hqf : ∀ q ∈ postOf L (ps.map .one), q.strand = .fwd := fun q hq => (mem_postOf hok hq).1
    by_cases hpost : postOf L (ps.map .one) = []
    · rw [if_pos hpost]
      have hpre : preOf L (ps.map .one) ≠ [] := by
        intro h; exact chunks_ne L _ hrs h hpost
      apply connectLocations_ring_one (f + 1) ls L _ _ hne hL hred
      rw [hany]
      simp only [Bool.false_eq_true, if_false]
      rw [← hullOf_fwd _ hpre hpf]
      apply mergeOverOrigin_upper _ L _ _ (map_simple_ne hpre)
      rw [hsp, hpost]; rfl
    · rw [if_neg hpost]
      by_cases hpre : preOf L (ps.map .one) = []
      · rw [if_pos hpre]
        apply connectLocations_ring_one (f + 1) ls L _ _ hne hL hred
        rw [hany]
        simp only [Bool.false_eq_true, if_false]
        rw [← hullOf_fwd _ hpost hqf]
        apply mergeOverOrigin_lower _ L _ _ (map_simple_ne hpost)
        rw [hsp, hpre]; rfl
      · rw [if_neg hpre]
        obtain ⟨hu0, hu1, hu2, hu3⟩ := hull_pre hok hpre
        obtain ⟨hl0, hl1, hl2, hl3⟩ := hull_post hok hpost
        have hmg := mergeOverOrigin_both (ps.map .simple) L _ _ (hullP (preOf L (ps.map .one)))
          (hullP (postOf L (ps.map .one))) hsp (map_simple_ne hpre) (map_simple_ne hpost)
          (hullOf_fwd _ hpre hpf) (hullOf_fwd _ hpost hqf)
        have hiff := over_lt_standard (hullP (preOf L (ps.map .one))) (hullP (postOf L (ps.map .one))) L hL
          hu0 hu1 hu2 hu3 hl0 hl1 hl2 hl3
        by_cases hc : (hullP (postOf L (ps.map .one))).hi ≤ (hullP (preOf L (ps.map .one))).lo ∧
            (hullP (postOf L (ps.map .one))).lo + L - (hullP (preOf L (ps.map .one))).hi <
              (hullP (preOf L (ps.map .one))).lo - (hullP (postOf L (ps.map .one))).hi
        · rw [if_pos hc]
          rw [if_pos (hiff.2 hc), if_pos (by omega)] at hmg
          apply connectLocations_ring_one (f + 1) ls L _ _ hne hL hred
          rw [hany]
          simp only [Bool.false_eq_true, if_false]
          exact hmg
        · rw [if_neg hc]
          rw [if_neg (fun h => hc (hiff.1 h))] at hmg
          have hdiv : 2 * (L / 2) ≤ L ∧ L < 2 * (L / 2) + 2 := by omega
          have hw2 : isWrappingShorter [.simple (hullP (preOf L (ps.map .one))),
              .simple (hullP (postOf L (ps.map .one)))] L = false := by
            rw [isWrappingShorter_two]
            split
            · simp only [decide_eq_false_iff_not]; omega
            · simp only [decide_eq_false_iff_not]; omega
          rw [connectLocations_ring_pre (f + 1) ls L _ _ _ [] _ hne hL hred (by rw [hany]; exact hmg)
            (splitSections_nowrap _ L hw2) (by simp)]
          rw [connectLocations_line f _ (by simp) (by
            intro l hl
            simp only [List.mem_cons, List.mem_nil_iff, or_false] at hl
            rcases hl with rfl | rfl <;> simp [Loc.parts, bridgesOrigin])]
          rw [hullOf_two_fwd _ _ rfl rfl]

/-! ### Case B: at least one origin-spanning input -/

/-- the final combination when the pre-origin side ends at the record end and the post-origin
    side starts at the origin -/
theorem combineSides_eval (f : Nat) (a b L : Int) (ha0 : 0 ≤ a) (haL : a < L) (hb0 : 0 < b) (hbL : b < L) :
    combineSides (f + 1) ⟨a, L, .fwd⟩ ⟨0, b, .fwd⟩ =
      .ok (if 0 < a ∧ b ≤ a then .compound [⟨a, L, .fwd⟩, ⟨0, b, .fwd⟩] else .simple ⟨0, L, .fwd⟩) := by
  by_cases h0 : a = 0
  · subst h0
    have c1 : locationContainsOther (.simple (⟨0, L, .fwd⟩ : Part)) (.simple (⟨0, b, .fwd⟩ : Part)) = true := by
      simp [locationContainsOther, Loc.parts, partContains]; omega
    have c2 : (⟨0, L, .fwd⟩ : Part).len > (⟨0, b, .fwd⟩ : Part).len := by simp [Part.len]; omega
    simp only [combineSides, c1, Bool.true_or, if_true, c2, pure, Except.pure]
    rw [if_neg (by omega)]
  · have c1 : locationContainsOther (.simple (⟨a, L, .fwd⟩ : Part)) (.simple (⟨0, b, .fwd⟩ : Part)) = false := by
      simp [locationContainsOther, Loc.parts, partContains]; omega
    have c2 : locationContainsOther (.simple (⟨0, b, .fwd⟩ : Part)) (.simple (⟨a, L, .fwd⟩ : Part)) = false := by
      simp [locationContainsOther, Loc.parts, partContains]; omega
    by_cases hov : b ≤ a
    · have c3 : locationsOverlap (.simple (⟨a, L, .fwd⟩ : Part)) (.simple (⟨0, b, .fwd⟩ : Part)) = false := by
        simp [locationsOverlap, Loc.parts, partsOverlap, Part.mem]; omega
      simp only [combineSides, c1, c2, c3, Bool.or_self, Bool.false_eq_true, if_false, pure, Except.pure]
      rw [if_pos ⟨by omega, hov⟩]
    · have c3 : locationsOverlap (.simple (⟨a, L, .fwd⟩ : Part)) (.simple (⟨0, b, .fwd⟩ : Part)) = true := by
        simp [locationsOverlap, Loc.parts, partsOverlap, Part.mem]; omega
      have hline := connectLocations_line f [.simple (⟨a, L, .fwd⟩ : Part), .simple (⟨0, b, .fwd⟩ : Part)] (by simp) (by
        intro l hl
        simp only [List.mem_cons, List.mem_nil_iff, or_false] at hl
        rcases hl with rfl | rfl <;> simp [Loc.parts, bridgesOrigin])
      rw [hullOf_two_fwd _ _ rfl rfl] at hline
      simp only [combineSides, c1, c2, c3, Bool.or_self, Bool.false_eq_true, if_false, if_true, hline, bind, Except.bind,
        Loc.strand, bne_self_eq_false, pure, Except.pure]
      rw [if_neg (by omega)]
      have e1 : min a 0 = 0 := by omega
      have e2 : max L b = L := by omega
      rw [e1, e2]

theorem part_eq_hi (p : Part) (L : Int) (h : p.hi = L) (hs : p.strand = .fwd) : p = ⟨p.lo, L, .fwd⟩ := by
  cases p; simp_all
theorem part_eq_lo (p : Part) (h : p.lo = 0) (hs : p.strand = .fwd) : p = ⟨0, p.hi, .fwd⟩ := by
  cases p; simp_all

theorem isWrapping_of_two (L : Int) (rs : List RLoc) (h : ∀ r ∈ rs, r.OK L) (htwo : rs.any RLoc.isTwo = true) :
    isWrappingShorter (rs.map (RLoc.toLoc L)) L = true := by
  unfold isWrappingShorter
  rw [any_bridges_toLoc L rs h, htwo]; rfl

/-- with an origin-spanning input the pre-origin hull ends at the record end and the post-origin
    hull starts at the origin -/
theorem hull_two_ends (L : Int) (rs : List RLoc) (h : ∀ r ∈ rs, r.OK L) (htwo : rs.any RLoc.isTwo = true) :
    preOf L rs ≠ [] ∧ postOf L rs ≠ [] ∧ (hullP (preOf L rs)).hi = L ∧ (hullP (postOf L rs)).lo = 0 := by
  rw [List.any_eq_true] at htwo
  obtain ⟨r, hr, ht⟩ := htwo
  cases r with
  | one p => cases ht
  | two x y =>
    have m1 : fl x L ∈ preOf L rs := by
      simp only [preOf, List.mem_flatMap]; exact ⟨_, hr, by simp [RLoc.pre]⟩
    have m2 : fl 0 y ∈ postOf L rs := by
      simp only [postOf, List.mem_flatMap]; exact ⟨_, hr, by simp [RLoc.post]⟩
    have n1 := List.ne_nil_of_mem m1
    have n2 := List.ne_nil_of_mem m2
    refine ⟨n1, n2, ?_, ?_⟩
    · have a := (hullP_bounds _ _ m1).2
      have b := (hull_pre h n1).2.2.1
      simp only [fl] at a; omega
    · have a := (hullP_bounds _ _ m2).1
      have b := (hull_post h n2).1
      simp only [fl] at a; omega

theorem connectLocations_B (f : Nat) (ls : List Loc) (L : Int) (rs : List RLoc)
    (hne : ls ≠ []) (hL : 0 < L) (hok : ∀ r ∈ rs, r.OK L)
    (hred : ls.mapM (fun l => reduceParts l.parts (some L)) = .ok (rs.map (RLoc.toLoc L)))
    (hany : ls.any bridgesOrigin = true) (htwo : rs.any RLoc.isTwo = true) :
    connectLocations (f + 3) ls (some L) = .ok (connB rs L) := by
  match rs, hok, hred, htwo with
  | [], _, _, htwo => simp at htwo
  | [r], _, hred, _ =>
    apply connectLocations_ring_one (f + 2) ls L _ _ hne hL hred
    rw [hany]; rfl
  | r1 :: r2 :: rest, hok, hred, htwo =>
    obtain ⟨hpre, hpost, hhi, hlo⟩ := hull_two_ends L _ hok htwo
    have hsp := splitSections_wrap' L _ hok (isWrapping_of_two L _ hok htwo)
    have hpf : ∀ q ∈ preOf L (r1 :: r2 :: rest), q.strand = .fwd := fun q hq => (mem_preOf hok hq).1
    have hqf : ∀ q ∈ postOf L (r1 :: r2 :: rest), q.strand = .fwd := fun q hq => (mem_postOf hok hq).1
    have anyS : ∀ qs : List Part, (qs.map Loc.simple).any bridgesOrigin = false := by
      intro qs; rw [List.any_eq_false]; intro l hl
      obtain ⟨q, _, rfl⟩ := List.mem_map.1 hl
      simp [bridgesOrigin]
    have redS : ∀ qs : List Part, (qs.map Loc.simple).mapM (fun l => reduceParts l.parts (some L)) = .ok (qs.map .simple) := by
      intro qs
      induction qs with
      | nil => rfl
      | cons q qs ih => rw [List.map_cons, List.mapM_cons, reduce_simple, ih]; rfl
    have hp := connectLocations_A_nowrap (f + 1) _ L (preOf L (r1 :: r2 :: rest)) (map_simple_ne hpre) hpre hL
      (redS _) (anyS _) (nowrap_pre hL hok)
    have hq := connectLocations_A_nowrap (f + 1) _ L (postOf L (r1 :: r2 :: rest)) (map_simple_ne hpost) hpost hL
      (redS _) (anyS _) (nowrap_post hL hok)
    rw [hullOf_fwd _ hpre hpf] at hp
    rw [hullOf_fwd _ hpost hqf] at hq
    rw [connectLocations_ring_both (f + 2) ls L _ _ _ _ _ _ _ _ hne hL hred (by rw [hany]; rfl) hsp
      (map_simple_ne hpre) (map_simple_ne hpost) hp hq]
    obtain ⟨hu0, hu1, hu2, hu3⟩ := hull_pre hok hpre
    obtain ⟨hl0, hl1, hl2, hl3⟩ := hull_post hok hpost
    have e1 : hullP (preOf L (r1 :: r2 :: rest)) = ⟨(hullP (preOf L (r1 :: r2 :: rest))).lo, L, .fwd⟩ :=
      part_eq_hi _ L hhi rfl
    have e2 : hullP (postOf L (r1 :: r2 :: rest)) = ⟨0, (hullP (postOf L (r1 :: r2 :: rest))).hi, .fwd⟩ :=
      part_eq_lo _ hlo rfl
    rw [e1, e2, combineSides_eval (f + 1) _ _ L hu0 (by omega) (by omega) (by omega)]
    rfl

end ASV
