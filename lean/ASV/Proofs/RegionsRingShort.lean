/-
  C06 helper lemmas, part 11: on a circular record a region with an origin-spanning member is the shortest
  covering arc of its members (when one shorter than half the record exists); the others are line hulls.
-/
import ASV.Proofs.RegionsRing
import ASV.Proofs.LocConnectRingShort
namespace ASV.Regions
open ASV ASV.Components

theorem RingArea.strict {L : Int} {l : Loc} (h : RingArea L l) : RingInStrict L l := by
  rcases h with ⟨p, rfl, h0, h1, h2⟩ | ⟨x, y, rfl, hy0, hyx, hxL⟩
  · exact Or.inl ⟨p, rfl, h0, h1, h2⟩
  · exact Or.inr (Or.inl ⟨x, y, .fwd, by decide, rfl, hy0, hyx, hxL⟩)

/-- a region with an origin-spanning child is the shortest covering arc of its children whenever a covering
    span shorter than half the record exists; without such a child it is the line hull of its children -/
theorem mkRegion_shortest {L : Int} (hL : 0 < L) {s s1 : State} {cands subs : List Feat} {r : Feat}
    (hch : ∀ f ∈ subs ++ cands, RingArea L f.loc) (h : mkRegion s cands subs = .ok (s1, r)) :
    (((subs ++ cands).map (·.loc)).any bridgesOrigin = true →
      ∀ c, areaWF L L c = true → 2 * c.len < L → (∀ f ∈ subs ++ cands, ∀ i, f.loc.mem i = true → c.mem i = true) →
        r.loc.len ≤ c.len ∧ ∀ i, r.loc.mem i = true → c.mem i = true) ∧
    (((subs ++ cands).map (·.loc)).any bridgesOrigin = false → r.loc = hullLoc (subs ++ cands)) := by
  obtain ⟨w, hw, hconn, hne⟩ := mkRegion_loc h
  have hlocs : ∀ l ∈ (subs ++ cands).map (·.loc), RingArea L l := by
    intro l hl
    obtain ⟨f, hf, rfl⟩ := List.mem_map.1 hl
    exact hch f hf
  constructor
  · intro hany c hwf hlen hcov
    rw [regionWrap_ring _ hlocs hany] at hw
    simp only [Except.ok.injEq] at hw
    subst hw
    have hin : ∀ l ∈ (subs ++ cands).map (·.loc), RingIn L l := fun l hl => (hlocs l hl).ringIn
    have hne' : (subs ++ cands).map (·.loc) ≠ [] := by simpa using hne
    rw [connect_ring_closed _ L hne' hL hin] at hconn
    simp only [Except.ok.injEq] at hconn
    rw [← hconn]
    apply connR_shortest _ L hL (by simpa using hne') (toR_ok L hL _ hin) c hwf hlen
    intro q hq i hi
    obtain ⟨l, hl, rfl⟩ := List.mem_map.1 hq
    obtain ⟨f, hf, rfl⟩ := List.mem_map.1 hl
    exact hcov f hf i ((toR_mem_iff L hL f.loc (hch f hf).strict i).1 hi)
  · intro hany
    have hline : ∀ f ∈ subs ++ cands, LineArea L f.loc := by
      intro f hf
      refine (hch f hf).line_of_not_bridging ?_
      have := List.any_eq_false.1 hany f.loc (List.mem_map.2 ⟨f, hf, rfl⟩)
      simpa using this
    have hmk := mkRegion_line (len := L) s cands subs hne hline
    rw [hmk] at h
    simp only [Except.ok.injEq, Prod.mk.injEq] at h
    rw [← h.2]; rfl

/-- the areas of the record a region lists -/
def membersOf (s : State) (r : Feat) : List Feat := (s.cands ++ s.subs).filter fun f => (memberIds r).contains f.id

/-- every region that lists an origin-spanning area is the shortest covering arc of the areas it lists, whenever
    a covering span shorter than half the record exists; the others are the line hull of theirs -/
def RegionsShortest (L : Int) (s : State) : Prop :=
  ∀ r ∈ s.regions,
    ((∃ f ∈ membersOf s r, bridgesOrigin f.loc = true) →
      ∀ c, areaWF L L c = true → 2 * c.len < L → (∀ f ∈ membersOf s r, ∀ i, f.loc.mem i = true → c.mem i = true) →
        r.loc.len ≤ c.len ∧ ∀ i, r.loc.mem i = true → c.mem i = true) ∧
    ((∀ f ∈ membersOf s r, bridgesOrigin f.loc = false) →
      ∃ fs, (∀ f, f ∈ fs ↔ f ∈ membersOf s r) ∧ r.loc = hullLoc fs)

theorem mem_membersOf {s : State} {r f : Feat} : f ∈ membersOf s r ↔ f ∈ s.cands ++ s.subs ∧ f.id ∈ memberIds r := by
  simp only [membersOf, List.mem_filter, List.contains_iff_mem]

theorem mkAddRegion_shortest {L : Int} (hL : 0 < L) {s s1 s2 : State} {cands subs : List Feat} {r : Feat} (hi : Inv s)
    (hc : ∀ f ∈ cands, f ∈ s.cands) (hs : ∀ f ∈ subs, f ∈ s.subs)
    (hring : ∀ f ∈ s.cands ++ s.subs, RingArea L f.loc) (hsh : RegionsShortest L s)
    (hmk : mkRegion s cands subs = .ok (s1, r)) (hadd : addRegion s1 r = .ok s2) : RegionsShortest L s2 := by
  have hch : ∀ f ∈ subs ++ cands, RingArea L f.loc := by
    intro f hf
    rcases List.mem_append.1 hf with h | h
    · exact hring f (List.mem_append.2 (Or.inr (hs f h)))
    · exact hring f (List.mem_append.2 (Or.inl (hc f h)))
  obtain ⟨hsh1, hsh2⟩ := mkRegion_shortest hL hch hmk
  obtain ⟨hrid, hrk, hrs, _, rfl⟩ := mkRegion_ok hmk
  obtain ⟨index, hle, hno, rfl⟩ := addRegion_ok hadd
  intro x hx
  have hx' : x = { r with cdses := cdsWithin s.cds r.loc } ∨ x ∈ s.regions := by
    have := (insertAt_perm _ _ _).mem_iff.1 hx
    simpa using this
  rcases hx' with rfl | hx'
  · -- the members of the new region are exactly the children
    have hmem : ∀ f, f ∈ membersOf s ({ r with cdses := cdsWithin s.cds r.loc } : Feat) ↔ f ∈ subs ++ cands := by
      intro f
      rw [mem_membersOf]
      have hids : memberIds ({ r with cdses := cdsWithin s.cds r.loc } : Feat) = ids cands ++ ids subs := by
        simp only [memberIds, hrk, hrs]
      rw [hids]
      constructor
      · rintro ⟨hf, hm⟩
        have hnd := nodup_areas hi
        rcases List.mem_append.1 hm with h | h
        · obtain ⟨g, hg, e⟩ := mem_ids.1 h
          have := ids_inj hnd hf (List.mem_append.2 (Or.inl (hc g hg))) e.symm
          rw [this]; exact List.mem_append.2 (Or.inr hg)
        · obtain ⟨g, hg, e⟩ := mem_ids.1 h
          have := ids_inj hnd hf (List.mem_append.2 (Or.inr (hs g hg))) e.symm
          rw [this]; exact List.mem_append.2 (Or.inl hg)
      · intro hf
        rcases List.mem_append.1 hf with h | h
        · exact ⟨List.mem_append.2 (Or.inr (hs f h)), List.mem_append.2 (Or.inr (mem_ids.2 ⟨f, h, rfl⟩))⟩
        · exact ⟨List.mem_append.2 (Or.inl (hc f h)), List.mem_append.2 (Or.inl (mem_ids.2 ⟨f, h, rfl⟩))⟩
    constructor
    · rintro ⟨f, hf, hb⟩ c hwf hlen hcov
      have hany : ((subs ++ cands).map (·.loc)).any bridgesOrigin = true := by
        rw [List.any_eq_true]
        exact ⟨f.loc, List.mem_map.2 ⟨f, (hmem f).1 hf, rfl⟩, hb⟩
      exact hsh1 hany c hwf hlen (fun g hg => hcov g ((hmem g).2 hg))
    · intro hnb
      have hany : ((subs ++ cands).map (·.loc)).any bridgesOrigin = false := by
        rw [List.any_eq_false]
        intro l hl
        obtain ⟨f, hf, rfl⟩ := List.mem_map.1 hl
        simp [hnb f ((hmem f).2 hf)]
      exact ⟨subs ++ cands, fun f => (hmem f).symm, hsh2 hany⟩
  · exact hsh x hx'

theorem addSections_shortest {L : Int} (hL : 0 < L) {s s' : State} {secs : List Sec} (hi : Inv s)
    (hsub : ∀ sec ∈ secs, ∀ a ∈ sec.2, a ∈ s.cands ++ s.subs)
    (hring : ∀ f ∈ s.cands ++ s.subs, RingArea L f.loc) (hsh : RegionsShortest L s)
    (h : addSections s secs = .ok s') : RegionsShortest L s' := by
  induction secs generalizing s with
  | nil => simp only [addSections, pure, Except.pure, Except.ok.injEq] at h; subst h; exact hsh
  | cons sec secs ih =>
    obtain ⟨l, areas⟩ := sec
    rw [addSections_cons'] at h
    simp only [bind, Except.bind] at h
    split at h
    · cases h
    · next v hmk =>
      obtain ⟨s1, r⟩ := v
      simp only at h
      split at h
      · cases h
      · next s2 hadd =>
        have hin := hsub (l, areas) (by simp)
        have hc : ∀ f ∈ areas.filter (·.kind == .cand), f ∈ s.cands := by
          intro f hf
          obtain ⟨hfa, hk⟩ := List.mem_filter.1 hf
          rcases List.mem_append.1 (hin f hfa) with h1 | h1
          · exact h1
          · have := hi.kindS f h1
            simp [this] at hk
        have hs : ∀ f ∈ areas.filter (·.kind != .cand), f ∈ s.subs := by
          intro f hf
          obtain ⟨hfa, hk⟩ := List.mem_filter.1 hf
          rcases List.mem_append.1 (hin f hfa) with h1 | h1
          · have := hi.kindC f h1
            simp [this] at hk
          · exact h1
        obtain ⟨hi2, hsame⟩ := mkAddRegion_inv hi (fun f hf => List.mem_append.2 (Or.inl (hc f hf))) hs hmk hadd
        have hsh2 := mkAddRegion_shortest hL hi hc hs hring hsh hmk hadd
        have hsh2' : RegionsShortest L s2 := by
          intro x hx
          have := hsh2 x hx
          simpa only [membersOf, hsame.2.1, hsame.2.2.1] using this
        exact ih hi2 (by intro sec hsec a ha; rw [hsame.2.1, hsame.2.2.1]; exact hsub sec (by simp [hsec]) a ha)
          (by rw [hsame.2.1, hsame.2.2.1]; exact hring) hsh2' h

/-- after `create_regions` on a circular record: every region listing an origin-spanning area is the shortest
    covering arc of its members whenever a covering span shorter than half the record exists; every other region
    is the line hull of its members -/
theorem createRegions_shortest (s s' : State) (hL : 0 < s.len) (hi : Inv s) (hreg : s.regions = [])
    (hring : ∀ f ∈ s.cands ++ s.subs, RingArea s.len f.loc) (h : createRegions s = .ok s') :
    RegionsShortest s.len s' := by
  simp only [createRegions, createRegionsOf] at h
  split at h
  · simp only [pure, Except.pure, Except.ok.injEq] at h
    subst h
    intro r hr; rw [hreg] at hr; cases hr
  · simp only [bind, Except.bind] at h
    split at h
    · cases h
    · next secs hsecs =>
      have hp := sections_perm (nodup_areas hi) hsecs
      exact addSections_shortest hL hi (fun sec hsec x hx =>
        hp.mem_iff.1 (List.mem_flatten.2 ⟨sec.2, List.mem_map.2 ⟨sec, hsec, rfl⟩, hx⟩)) hring
        (by intro r hr; rw [hreg] at hr; cases hr) h

end ASV.Regions
