/-
  C18: the model satisfies the executable spec (`poolAcceptable` / `acceptable`) for every valid
  event list — the same Boolean function the harness evaluates on the implementation's outcome.
-/
import ASV.Proofs.ParallelMain
namespace ASV.Parallel

variable {α ε β : Type}

theorem processed_mem_doneIdxs (ht : Bool) :
    ∀ (evs : List Event) (left : Nat) (i : Nat), i ∈ processed ht left evs → i ∈ doneIdxs evs
  | [], left, i, h => by cases left <;> simp [processed] at h
  | ev :: rest, 0, i, h => by simp [processed] at h
  | .done j :: rest, left + 1, i, h => by
    simp only [processed, List.mem_cons] at h
    rw [doneIdxs_done]
    rcases h with rfl | h
    · simp
    · exact List.mem_cons_of_mem _ (processed_mem_doneIdxs ht rest left i h)
  | .timeout :: rest, left + 1, i, h => by
    rw [doneIdxs_timeout]
    cases ht with
    | true => simp [processed] at h
    | false =>
      simp only [processed, Bool.false_eq_true, if_false] at h
      exact processed_mem_doneIdxs false rest (left + 1) i h
  | .died w :: rest, left + 1, i, h => by simp [processed] at h
  | .bystander p :: rest, left + 1, i, h => by
    rw [doneIdxs_bystander]
    simp only [processed] at h
    exact processed_mem_doneIdxs ht rest (left + 1) i h

theorem processed_of_no_interruption (ht : Bool) :
    ∀ (evs : List Event) (left : Nat), interruption (ε := ε) ht left evs = none →
      processed ht left evs = (doneIdxs evs).take left
  | [], left, _ => by cases left <;> simp [processed, doneIdxs]
  | ev :: rest, 0, _ => by simp [processed]
  | .done j :: rest, left + 1, h => by
    simp only [interruption] at h
    simp only [processed, doneIdxs_done, List.take_succ_cons,
      processed_of_no_interruption ht rest left h]
  | .timeout :: rest, left + 1, h => by
    cases ht with
    | true => simp [interruption] at h
    | false =>
      simp only [interruption, Bool.false_eq_true, if_false] at h
      simp only [processed, Bool.false_eq_true, if_false, doneIdxs_timeout,
        processed_of_no_interruption false rest (left + 1) h]
  | .died w :: rest, left + 1, h => by simp [interruption] at h
  | .bystander p :: rest, left + 1, h => by
    simp only [interruption] at h
    simp only [processed, doneIdxs_bystander, processed_of_no_interruption ht rest (left + 1) h]

/-- pigeonhole: `m` distinct numbers below `m` are all of them -/
theorem perm_range_of_nodup (m : Nat) (l : List Nat) (hnd : l.Nodup) (hlt : ∀ i ∈ l, i < m)
    (hlen : l.length = m) : l.Perm (List.range m) := by
  rw [List.perm_ext_iff_of_nodup hnd List.nodup_range]
  intro j
  constructor
  · intro hj; exact List.mem_range.mpr (hlt j hj)
  · intro hj
    have hjm : j < m := List.mem_range.mp hj
    apply Classical.byContradiction
    intro hnot
    have hsub : l ⊆ (List.range m).erase j := by
      intro x hx
      have hxj : x ≠ j := fun h => hnot (h ▸ hx)
      exact (List.mem_erase_of_ne hxj).mpr (List.mem_range.mpr (hlt x hx))
    have h1 := List.Nodup.length_le_of_subset hnd hsub
    rw [List.length_erase_of_mem hj, List.length_range] at h1
    omega

/-- the pool path of the model meets the spec's reading of its outcome, for every valid event
    list (interruptions anywhere, incomplete schedules, anything after completion) -/
theorem poolRun_acceptable [DecidableEq ε] [DecidableEq β] (f : α → Except ε β) (args : List α)
    (workers : Nat) (hw : 0 < workers) (ht : Bool) (evs : List Event)
    (hv : Valid (numChunks args.length workers) evs) :
    poolAcceptable f args workers ht evs (poolRun f args workers ht evs) = true := by
  obtain ⟨hnd, hlt⟩ := hv
  have hvalid : ∀ i ∈ processed ht (numChunks args.length workers) evs, i < numChunks args.length workers :=
    fun i hi => hlt i (processed_mem_doneIdxs ht evs _ i hi)
  have hrun := poolRun_spec f args workers hw ht evs hvalid
  unfold poolAcceptable
  simp only
  cases hint : interruption (ε := ε) ht (numChunks args.length workers) evs with
  | some err =>
    rw [hint] at hrun
    simp [hrun]
  | none =>
    rw [hint] at hrun
    have hproc := processed_of_no_interruption (ε := ε) ht evs _ hint
    rw [hproc] at hrun
    simp only [List.length_take] at hrun
    by_cases hshort : (doneIdxs evs).length < numChunks args.length workers
    · have : min (numChunks args.length workers) (doneIdxs evs).length < numChunks args.length workers := by
        omega
      simp only [this, if_true] at hrun
      simp [hshort, hrun]
    · have hmin : ¬ min (numChunks args.length workers) (doneIdxs evs).length < numChunks args.length workers := by
        omega
      simp only [hmin, if_false] at hrun
      simp only [hshort, if_false]
      -- the first m completions are a permutation of all chunks
      have hm := tasks_length_eq_numChunks args workers hw
      have hperm : ((doneIdxs evs).take (numChunks args.length workers)).Perm
          (List.range (getTasks (chunkSize args.length workers) args).length) := by
        rw [hm]
        apply perm_range_of_nodup
        · exact List.Nodup.sublist (List.take_sublist _ _) hnd
        · intro i hi; exact hlt i (List.mem_of_mem_take hi)
        · rw [List.length_take]; omega
      obtain ⟨_, hflat, _, _, _⟩ := init_facts (comprehension f) args workers
      have hout := outcome_complete f _ _ hperm
      rw [hflat, comprehension_eq_sequential] at hout
      cases hseq : sequential f args with
      | ok l =>
        rw [hrun, hout.1 l hseq]
        simp
      | error e₀ =>
        obtain ⟨e, he, a, ha, hfa⟩ := hout.2 e₀ hseq
        rw [hrun, he]
        simp only [List.any_eq_true]
        exact ⟨a, ha, by simp [hfa]⟩

end ASV.Parallel
