/-
  C11 ↔ C14 bridge (proof side): every module C14's construction produces (`Good`) satisfies the
  C11 class invariant under the concrete rules `c14Rules`, so the JSON round trip needs no
  abstract hypothesis about re-adding.
-/
import ASV.Proofs.Results
import ASV.Proofs.ModulesChain
import ASV.Model.ResultsModules
namespace ASV.Results
open ASV.Modules (Good Known)

/-- the stored module `mo` is the saved form of C14's module `m` -/
def ModuleOf (mo : Module) (m : Modules.Module) : Prop :=
  mo.components.map absC = m.components ∧ mo.firstInCds = m.firstInCds

theorem valid_of_good (mo : Module) (m : Modules.Module) (hg : Good m) (ho : ModuleOf mo m)
    (hv : ∀ c ∈ mo.components, c.domain.valid = true) : mo.valid c14Rules = true := by
  obtain ⟨hc, hf⟩ := ho
  simp only [Module.valid, Bool.and_eq_true, List.all_eq_true]
  constructor
  · intro c hcm
    have hk : Known (absC c) := hg.2 (absC c) (by rw [← hc]; exact List.mem_map_of_mem hcm)
    simp only [Component.valid, Bool.and_eq_true, Bool.not_eq_true']
    exact ⟨⟨hv c hcm, hk.1⟩, hk.2⟩
  · have hr : Modules.replayGo (Modules.Module.new m.firstInCds) m.components = .ok m := hg.1.reload
    simp only [c14Rules, hc, hf, hr]

end ASV.Results
