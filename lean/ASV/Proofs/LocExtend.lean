/-
  Helper lemmas for `Record.extend_location` on a circular record, single-part locations (C04).
-/
import ASV.Proofs.LocOffset
set_option linter.unusedSimpArgs false
set_option linter.unusedVariables false
namespace ASV


def ringAbs (L i j : Int) : Int := min (iabs (i - j)) (L - iabs (i - j))

/-- closed form of `extend_location` for a single-part location on a circular record -/
def extSimpleRing (p : Part) (d L : Int) : Loc :=
  if p.lo - d < 0 ∧ p.lo - d + L ≤ p.hi + d then .simple ⟨0, L, p.strand⟩
  else if p.lo - d < 0 then
    Loc.compound (if p.strand == .rev then [⟨0, p.hi + d, p.strand⟩, ⟨L + (p.lo - d), L, p.strand⟩]
                  else [⟨L + (p.lo - d), L, p.strand⟩, ⟨0, p.hi + d, p.strand⟩])
  else if p.hi + d > L then
    if p.hi + d - L > p.lo - d then .simple ⟨0, L, p.strand⟩
    else Loc.compound (if p.strand == .rev then [⟨0, p.hi + d - L, p.strand⟩, ⟨p.lo - d, L, p.strand⟩]
                       else [⟨p.lo - d, L, p.strand⟩, ⟨0, p.hi + d - L, p.strand⟩])
  else .simple ⟨p.lo - d, p.hi + d, p.strand⟩

theorem extend_simple_ring_eq (p : Part) (d L : Int) (h0 : 0 ≤ p.lo) (h1 : p.lo < p.hi) (h2 : p.hi ≤ L) (hd : 0 ≤ d) (hdL : d ≤ L) :
    extendLocation (.simple p) d L true = .ok (extSimpleRing p d L) := by
  unfold extSimpleRing
  by_cases hW : p.lo - d < 0 ∧ p.lo - d + L ≤ p.hi + d
  · simp only [hW, and_self, if_true]
    have hc1 : (((p.lo - d + L ≤ 0 ∧ 0 < L ∨ p.lo - d + L ≤ L - 1 ∧ L - 1 < L) ∨ 0 ≤ p.lo - d + L ∧ p.lo - d + L < L) ∨
        1 ≤ L ∧ L - 1 < L) := by omega
    have hc2 : (((0 < (p.hi + d) % L ∨ 1 ≤ L ∧ L - 1 < (p.hi + d) % L) ∨ 0 < L) ∨
        1 ≤ (p.hi + d) % L ∧ (p.hi + d) % L - 1 < L) := by omega
    have e5 : min 0 (p.lo - d + L) = 0 := by omega
    have hm := Int.emod_lt_of_pos (p.hi + d) (show 0 < L by omega)
    have hm0 := Int.emod_nonneg (p.hi + d) (show L ≠ 0 by omega)
    have e6 : max L ((p.hi + d) % L) = L := by omega
    cases hs : p.strand <;>
    simp [extendLocation, Loc.strand, Loc.parts, hs, setHead, setLast, pure, Except.pure, bind, Except.bind,
      hW.1, hW.2, popWhileUpper, popWhileLower, partsOverlap, Part.mem, hc1, e5, e6, hc2] <;> split <;> simp
  · simp only [hW, if_false]
    by_cases hA : p.lo - d < 0
    · have hB : ¬ (p.hi + d > L) := by omega
      simp only [hA, if_true]
      have hW' : ¬ (p.lo - d + L ≤ p.hi + d) := by omega
      have e1 : min (L + (p.lo - d)) L = L + (p.lo - d) := by omega
      have e2 : min (p.hi + d) L = p.hi + d := by omega
      have hcond : ¬ (((0 ≤ L + (p.lo - d) ∧ L + (p.lo - d) < p.hi + d ∨ 1 ≤ L ∧ L - 1 < p.hi + d) ∨ L + (p.lo - d) ≤ 0 ∧ 0 < L) ∨
          L + (p.lo - d) ≤ p.hi + d - 1 ∧ p.hi + d - 1 < L) := by omega
      cases hs : p.strand <;>
      simp [extendLocation, Loc.strand, Loc.parts, hs, mergeEnds, setHead, setLast, pure, Except.pure, bind, Except.bind,
        hA, hB, hW', partsOverlap, Part.mem, e1, e2, hcond]
    · simp only [hA, if_false]
      by_cases hB : p.hi + d > L
      · simp only [hB, if_true]
        have e1 : max 0 (p.lo - d) = p.lo - d := by omega
        have e2 : min (p.hi + d - L) L = p.hi + d - L := by omega
        by_cases hM : p.hi + d - L > p.lo - d
        · simp only [hM, if_true]
          have hcond : (((d ≤ p.lo ∧ p.lo - d < p.hi + d - L ∨ 1 ≤ L ∧ L - 1 < p.hi + d - L) ∨ p.lo - d ≤ 0 ∧ 0 < L) ∨
              p.lo - d ≤ p.hi + d - L - 1 ∧ p.hi + d - L - 1 < L) := by omega
          have e3 : min (p.lo - d) 0 = 0 := by omega
          have e4 : max L (p.hi + d - L) = L := by omega
          cases hs : p.strand <;>
          simp [extendLocation, Loc.strand, Loc.parts, hs, mergeEnds, setHead, setLast, pure, Except.pure, bind, Except.bind,
            hA, hB, e1, e2, partsOverlap, Part.mem, hcond, e3, e4]
        · simp only [hM, if_false]
          have hcond : ¬ (((d ≤ p.lo ∧ p.lo - d < p.hi + d - L ∨ 1 ≤ L ∧ L - 1 < p.hi + d - L) ∨ p.lo - d ≤ 0 ∧ 0 < L) ∨
              p.lo - d ≤ p.hi + d - L - 1 ∧ p.hi + d - L - 1 < L) := by omega
          cases hs : p.strand <;>
          simp [extendLocation, Loc.strand, Loc.parts, hs, mergeEnds, setHead, setLast, pure, Except.pure, bind, Except.bind,
            hA, hB, e1, e2, partsOverlap, Part.mem, hcond]
      · simp only [hB, if_false]
        have e1 : max 0 (p.lo - d) = p.lo - d := by omega
        have e2 : min (p.hi + d) L = p.hi + d := by omega
        cases hs : p.strand <;>
        simp [extendLocation, Loc.strand, Loc.parts, hs, mergeEnds, setHead, setLast, pure, Except.pure, bind, Except.bind,
          hA, hB, e1, e2]


theorem extSimpleRing_mem (p : Part) (d L : Int) (h0 : 0 ≤ p.lo) (h1 : p.lo < p.hi) (h2 : p.hi ≤ L) (hd : 0 ≤ d) (i : Int) :
    (extSimpleRing p d L).mem i = true ↔ (0 ≤ i ∧ i < L ∧ ∃ j, p.mem j = true ∧ ringAbs L i j ≤ d) := by
  have hmem : (extSimpleRing p d L).mem i = true ↔
      ((p.lo - d < 0 ∧ p.lo - d + L ≤ p.hi + d) ∧ 0 ≤ i ∧ i < L) ∨
      (¬(p.lo - d < 0 ∧ p.lo - d + L ≤ p.hi + d) ∧ p.lo - d < 0 ∧ ((L + (p.lo - d) ≤ i ∧ i < L) ∨ (0 ≤ i ∧ i < p.hi + d))) ∨
      (¬(p.lo - d < 0) ∧ p.hi + d > L ∧ p.hi + d - L > p.lo - d ∧ 0 ≤ i ∧ i < L) ∨
      (¬(p.lo - d < 0) ∧ p.hi + d > L ∧ ¬ (p.hi + d - L > p.lo - d) ∧ ((p.lo - d ≤ i ∧ i < L) ∨ (0 ≤ i ∧ i < p.hi + d - L))) ∨
      (¬(p.lo - d < 0) ∧ ¬ (p.hi + d > L) ∧ p.lo - d ≤ i ∧ i < p.hi + d) := by
    unfold extSimpleRing
    by_cases hW : p.lo - d < 0 ∧ p.lo - d + L ≤ p.hi + d
    · rw [if_pos hW, mem_simple]; dsimp only; omega
    · rw [if_neg hW]
      by_cases hA : p.lo - d < 0
      · rw [if_pos hA]
        by_cases hr : p.strand = .rev
        · rw [if_pos (by simp [hr]), mem_two]; dsimp only; omega
        · rw [if_neg (by simpa using hr), mem_two]; dsimp only; omega
      · rw [if_neg hA]
        by_cases hB : p.hi + d > L
        · rw [if_pos hB]
          by_cases hM : p.hi + d - L > p.lo - d
          · rw [if_pos hM, mem_simple]; dsimp only; omega
          · rw [if_neg hM]
            by_cases hr : p.strand = .rev
            · rw [if_pos (by simp [hr]), mem_two]; dsimp only; omega
            · rw [if_neg (by simpa using hr), mem_two]; dsimp only; omega
        · rw [if_neg hB, mem_simple]; dsimp only; omega
  rw [hmem]
  simp only [Part.mem_iff, ringAbs, iabs_def, Int.min_def]
  constructor
  · intro h
    have hi0 : 0 ≤ i := by omega
    have hi1 : i < L := by omega
    refine ⟨hi0, hi1, ?_⟩
    by_cases a : p.lo ≤ i ∧ i < p.hi
    · exact ⟨i, a, by grind⟩
    · by_cases b : i < p.lo ∧ p.lo - i ≤ d
      · exact ⟨p.lo, ⟨by omega, by omega⟩, by grind⟩
      · by_cases c : p.hi ≤ i ∧ i - (p.hi - 1) ≤ d
        · exact ⟨p.hi - 1, ⟨by omega, by omega⟩, by grind⟩
        · by_cases e : p.lo ≤ i ∧ L - (i - p.lo) ≤ d
          · exact ⟨p.lo, ⟨by omega, by omega⟩, by grind⟩
          · exact ⟨p.hi - 1, ⟨by omega, by omega⟩, by grind⟩
  · rintro ⟨hi0, hi1, j, ⟨hj0, hj1⟩, hr⟩
    grind


end ASV
