/-
  C05: where the defining genes come from.  `mkProto` models `Record.add_protocluster` →
  `Protocluster.add_cds` (which stores the CORE genes of the protocluster's product inside its core,
  also for a sideloaded protocluster) and the `definition_cdses` property (the stored set for a
  rule-detected protocluster, always empty for a sideloaded one).  The hybrid relation is over the
  property: a sideloaded protocluster shares a defining gene with nobody.
-/
import ASV.Proofs.SortLinear
set_option linter.unusedSectionVars false
set_option linter.unusedVariables false
namespace ASV.CC
open ASV.CC.Spec

theorem mkProto_sideloaded_defs (id : Nat) (loc core : Loc) (product : String) (genes : List Gene) :
    (mkProto id loc core product true genes).defs = [] := rfl

theorem mem_mkProto_defs {id : Nat} {loc core : Loc} {product : String} {genes : List Gene} {g : Nat} :
    g ∈ (mkProto id loc core product false genes).defs ↔
      ∃ x, x ∈ genes ∧ x.id = g ∧ locationContainsOther loc x.loc = true ∧ locationContainsOther core x.loc = true ∧
        product ∈ x.coreProducts := by
  simp only [mkProto, definitionCdses, Bool.false_eq_true, if_false, storedDefs, List.mem_map, List.mem_filter,
    Bool.and_eq_true, List.contains_eq_mem, decide_eq_true_eq]
  constructor
  · rintro ⟨x, ⟨hx, ⟨h1, h2⟩, h3⟩, e⟩; exact ⟨x, hx, e, h1, h2, h3⟩
  · rintro ⟨x, hx, e, h1, h2, h3⟩; exact ⟨x, ⟨hx, ⟨h1, h2⟩, h3⟩, e⟩

theorem shares_nil_left {a b : Proto} (h : a.defs = []) : shares a b = false := by
  simp [shares, h]

theorem shares_nil_right {a b : Proto} (h : b.defs = []) : shares a b = false := by
  rw [shares_comm]; exact shares_nil_left h

/-- every member of a gene-sharing chain has a defining gene -/
theorem linked_share_defs {clusters : List Proto} {a b : Proto} (h : Linked (shareGroups clusters) a b) :
    a.defs ≠ [] ∧ b.defs ≠ [] := by
  induction h with
  | base hg ha hb =>
    obtain ⟨x, y, _, hs, e⟩ := mem_shareGroups.1 hg
    subst e
    have hx : x.defs ≠ [] := fun e => by rw [shares_nil_left e] at hs; cases hs
    have hy : y.defs ≠ [] := fun e => by rw [shares_nil_right e] at hs; cases hs
    have : ∀ z, z ∈ [x, y] → z.defs ≠ [] := by
      intro z hz
      rcases List.mem_cons.1 hz with e | e
      · rw [e]; exact hx
      · have : z = y := by simpa using e
        rw [this]; exact hy
    exact ⟨this _ ha, this _ hb⟩
  | trans _ _ ih1 ih2 => exact ⟨ih1.1, ih2.2⟩

/-- a protocluster without defining genes (every sideloaded one) is in a hybrid group only as a
    protocluster whose core lies inside the group's connected core, never through a shared gene -/
theorem no_defs_only_contained {clusters : List Proto} {wrap : Option Int} {hg : List (List Proto)} {un : List Proto}
    (h : findHybrids clusters wrap = .ok (hg, un)) (hn : clusters.Nodup) {p : Proto} (hp : p.defs = []) :
    ∀ g, g ∈ hg → p ∈ g → ∃ (m : List Proto) (core : Loc), p ∉ m ∧ 2 ≤ m.length ∧ (∀ x, x ∈ m → x ∈ g) ∧
      (∀ a b, a ∈ m → b ∈ m → Linked (shareGroups clusters) a b) ∧
      connect (m.map (·.core)) wrap = .ok core ∧ locationContainsOther core p.core = true := by
  intro g hg' hpg
  obtain ⟨m, core, hsub, htwo, hlinked, hcore, hfrom⟩ := (findHybrids_classes h hn).2 g hg'
  refine ⟨m, core, ?_, two_le_length htwo, hsub, hlinked, hcore, ?_⟩
  · intro hpm
    exact (linked_share_defs (hlinked p p hpm hpm)).1 hp
  · rcases hfrom p hpg with hpm | ⟨_, _, hcont⟩
    · exact absurd hp (linked_share_defs (hlinked p p hpm hpm)).1
    · exact hcont

end ASV.CC
