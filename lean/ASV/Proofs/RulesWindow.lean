/-
  C01: `apply_cluster_rules` does not hand `rule.detect` the whole record but only the genes (and their hits) inside
  the gene's window (`get_cds_features_within_location` of the gene extended by the cutoff).  For conditions of the
  documented grammar the result is the same as over the whole record, as long as the window keeps every gene that is
  in range.
-/
import ASV.Proofs.Rules
namespace ASV.Rules
open Env

/-- the dictionaries `apply_cluster_rules` builds: `nearby_features` / `nearby_results` keep the genes `keep` accepts -/
def Env.restrict (e : Env) (keep : Gene → Bool) : Env :=
  { e with genes := e.genes.filter keep, withHits := e.withHits.filter keep }

theorem restrict_has (e : Env) (keep : Gene → Bool) (h : Gene) (p : Prof) :
    (e.restrict keep).has h p = e.has h p := rfl
theorem restrict_hasScore (e : Env) (keep : Gene → Bool) (h : Gene) (p : Prof) (s : Int) :
    (e.restrict keep).hasScore h p s = e.hasScore h p s := rfl
theorem restrict_inRange (e : Env) (keep : Gene → Bool) (g h : Gene) :
    (e.restrict keep).inRange g h = e.inRange g h := rfl

theorem restrict_nbrs (e : Env) (keep : Gene → Bool) (g : Gene)
    (hk : ∀ h, e.inRange g h = true → keep h = true) : (e.restrict keep).nbrs g = e.nbrs g := by
  simp only [Env.nbrs, Env.restrict, List.filter_filter]
  apply List.filter_congr
  intro h _
  cases hr : e.inRange g h
  · simp [show (Env.inRange { e with genes := e.genes.filter keep, withHits := e.withHits.filter keep } g h) = false from hr]
  · simp [show (Env.inRange { e with genes := e.genes.filter keep, withHits := e.withHits.filter keep } g h) = true from hr,
      hk h hr]

theorem restrict_nbrsHit (e : Env) (keep : Gene → Bool) (g : Gene)
    (hk : ∀ h, e.inRange g h = true → keep h = true) : (e.restrict keep).nbrsHit g = e.nbrsHit g := by
  simp only [Env.nbrsHit, Env.restrict, List.filter_filter]
  apply List.filter_congr
  intro h _
  cases hr : e.inRange g h
  · simp [show (Env.inRange { e with genes := e.genes.filter keep, withHits := e.withHits.filter keep } g h) = false from hr]
  · simp [show (Env.inRange { e with genes := e.genes.filter keep, withHits := e.withHits.filter keep } g h) = true from hr,
      hk h hr]

theorem restrict_inRangeHit (e : Env) (keep : Gene → Bool) (g : Gene)
    (hk : ∀ h, e.inRange g h = true → keep h = true) : (e.restrict keep).inRangeHit g = e.inRangeHit g := by
  simp only [Env.inRangeHit, Env.restrict, List.filter_filter]
  apply List.filter_congr
  intro h _
  cases hr : e.inRange g h
  · simp [show (Env.inRange { e with genes := e.genes.filter keep, withHits := e.withHits.filter keep } g h) = false from hr]
  · simp [show (Env.inRange { e with genes := e.genes.filter keep, withHits := e.withHits.filter keep } g h) = true from hr,
      hk h hr]

/-! ### a `cds(...)` body looks at one gene's own hits only -/
mutual
theorem evalC_local_restrict (e : Env) (keep : Gene → Bool) (h : Gene) :
    ∀ c, c.localWF = true → evalC (e.restrict keep) h true c = evalC e h true c
  | .single neg p, _ => by simp only [evalC, restrict_has, Bool.true_or, if_true]; all_goals rfl
  | .score _ _ _, hw => by simp [Cond.localWF] at hw
  | .minimum _ _ _, hw => by simp [Cond.localWF] at hw
  | .cds _ _, hw => by simp [Cond.localWF] at hw
  | .group neg subs, hw => by
      simp only [Cond.localWF] at hw
      simp only [evalC, evalOr_local_restrict e keep h subs hw]
  | .conj subs, hw => by
      simp only [Cond.localWF] at hw
      simp only [evalC, evalAnd_local_restrict e keep h subs hw]
theorem evalOr_local_restrict (e : Env) (keep : Gene → Bool) (h : Gene) :
    ∀ cs, localWFs cs = true → evalOr (e.restrict keep) h true cs = evalOr e h true cs
  | [], _ => by simp [evalOr]
  | c :: cs, hw => by
      simp only [localWFs, Bool.and_eq_true] at hw
      simp only [evalOr, evalC_local_restrict e keep h c hw.1, evalOr_local_restrict e keep h cs hw.2]
theorem evalAnd_local_restrict (e : Env) (keep : Gene → Bool) (h : Gene) :
    ∀ cs, localWFs cs = true → evalAnd (e.restrict keep) h true cs = evalAnd e h true cs
  | [], _ => by simp [evalAnd]
  | c :: cs, hw => by
      simp only [localWFs, Bool.and_eq_true] at hw
      simp only [evalAnd, evalC_local_restrict e keep h c hw.1, evalAnd_local_restrict e keep h cs hw.2]
end

/-! ### the whole condition -/
mutual
theorem evalC_restrict (e : Env) (keep : Gene → Bool) (g : Gene)
    (hk : ∀ h, e.inRange g h = true → keep h = true) (lo : Bool) :
    ∀ c, c.WF = true → evalC (e.restrict keep) g lo c = evalC e g lo c
  | .single neg p, _ => by
      simp only [evalC, restrict_has, restrict_nbrsHit e keep g hk]
      all_goals rfl
  | .score neg p s, _ => by
      simp only [evalC, restrict_hasScore, restrict_inRangeHit e keep g hk]
      all_goals rfl
  | .minimum neg n opts, _ => by
      simp only [evalC, restrict_nbrs e keep g hk]
      all_goals rfl
  | .cds neg subs, hw => by
      simp only [Cond.WF] at hw
      have hany : ((e.nbrs g).any fun h => (evalOr (e.restrict keep) h true subs).met)
          = ((e.nbrs g).any fun h => (evalOr e h true subs).met) := by
        congr 1; funext h; rw [evalOr_local_restrict e keep h subs hw]
      simp only [evalC, restrict_nbrs e keep g hk, evalOr_local_restrict e keep g subs hw, hany]
  | .group neg subs, hw => by
      simp only [Cond.WF] at hw
      simp only [evalC, evalOr_restrict e keep g hk lo subs hw]
  | .conj subs, hw => by
      simp only [Cond.WF] at hw
      simp only [evalC, evalAnd_restrict e keep g hk lo subs hw]
theorem evalOr_restrict (e : Env) (keep : Gene → Bool) (g : Gene)
    (hk : ∀ h, e.inRange g h = true → keep h = true) (lo : Bool) :
    ∀ cs, WFs cs = true → evalOr (e.restrict keep) g lo cs = evalOr e g lo cs
  | [], _ => by simp [evalOr]
  | c :: cs, hw => by
      simp only [WFs, Bool.and_eq_true] at hw
      simp only [evalOr, evalC_restrict e keep g hk lo c hw.1, evalOr_restrict e keep g hk lo cs hw.2]
theorem evalAnd_restrict (e : Env) (keep : Gene → Bool) (g : Gene)
    (hk : ∀ h, e.inRange g h = true → keep h = true) (lo : Bool) :
    ∀ cs, WFs cs = true → evalAnd (e.restrict keep) g lo cs = evalAnd e g lo cs
  | [], _ => by simp [evalAnd]
  | c :: cs, hw => by
      simp only [WFs, Bool.and_eq_true] at hw
      simp only [evalAnd, evalC_restrict e keep g hk lo c hw.1, evalAnd_restrict e keep g hk lo cs hw.2]
end

end ASV.Rules
