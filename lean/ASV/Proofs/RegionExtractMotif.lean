/-
  C12: `_adjust_motif` for leader/tail locations of one part: the rewritten text is the text of the moved part and
  the moved part covers the same bases.
-/
import ASV.Proofs.RegionExtractRegion
set_option linter.unusedSimpArgs false
namespace ASV.RegionExtract
open ASV

/-- `_adjust_motif` on a one-part leader/tail location: the new text is the text of the moved part, reads back to
    it, and the moved part covers the same bases -/
theorem adjustMotifLoc_single (t : String) (p : Part) (rd : RegionData) (L : Int) (ht : locFromString t = some (.simple p)) :
    adjustMotifLoc t rd L = .ok (locToString (.simple
      (if p.lo - rd.start < 0 then ⟨p.lo - rd.start + L, p.hi - rd.start + L, p.strand⟩ else ⟨p.lo - rd.start, p.hi - rd.start, p.strand⟩))) := by
  unfold adjustMotifLoc
  simp only [ht, Loc.parts, List.map_cons, List.map_nil, buildLocationFromOthers, List.foldl_nil, bind, Except.bind,
    pure, Except.pure]

theorem motif_single_sameBases (p : Part) (rd : RegionData) (L : Int) (hL : 0 < L)
    (hplain : rd.crossesOrigin = false → rd.start ≤ p.lo ∧ p.hi ≤ rd.end)
    (hcross : rd.crossesOrigin = true → 0 < rd.end ∧ rd.end ≤ rd.start ∧ rd.start < L ∧
      ((rd.start ≤ p.lo ∧ p.hi ≤ L) ∨ (0 ≤ p.lo ∧ p.hi ≤ rd.end ∧ p.lo < p.hi))) :
    SameBases L rd (.simple p) (.simple
      (if p.lo - rd.start < 0 then ⟨p.lo - rd.start + L, p.hi - rd.start + L, p.strand⟩ else ⟨p.lo - rd.start, p.hi - rd.start, p.strand⟩)) := by
  cases hc : rd.crossesOrigin with
  | false =>
    obtain ⟨h1, h2⟩ := hplain hc
    have hn : ¬ (p.lo - rd.start < 0) := by omega
    simp only [hn, if_false]
    have := sameBases_plain L rd (.simple p) hc (by simpa [Loc.start] using h1) (by simpa [Loc.end] using h2)
    have e : shiftLoc (.simple p) (-rd.start) = .simple ⟨p.lo - rd.start, p.hi - rd.start, p.strand⟩ := by
      simp [shiftLoc]; constructor <;> omega
    rw [e] at this; exact this
  | true =>
    obtain ⟨he0, hes, hsL, hside⟩ := hcross hc
    rcases hside with ⟨h1, h2⟩ | ⟨h1, h2, h3⟩
    · have hn : ¬ (p.lo - rd.start < 0) := by omega
      simp only [hn, if_false]
      have := sameBases_pre L rd (.simple p) hc hL he0 hes hsL (by simpa [Loc.start] using h1) (by simpa [Loc.end] using h2)
      have e : shiftLoc (.simple p) (-rd.start) = .simple ⟨p.lo - rd.start, p.hi - rd.start, p.strand⟩ := by
        simp [shiftLoc]; constructor <;> omega
      rw [e] at this; exact this
    · have hn : p.lo - rd.start < 0 := by omega
      simp only [hn, if_true]
      have := sameBases_post L rd (.simple p) hc hL he0 hes hsL (by simpa [Loc.start] using h1) (by simpa [Loc.end] using h2)
      have e : shiftLoc (.simple p) (L - rd.start) = .simple ⟨p.lo - rd.start + L, p.hi - rd.start + L, p.strand⟩ := by
        simp [shiftLoc]; constructor <;> omega
      rw [e] at this; exact this

/-! ### leader/tail locations of several parts -/

/-- one step of the loop of `build_location_from_others` with a one-part location -/
def bloStep (location : Loc) (p : Part) : Loc :=
  if (Loc.simple p).start = location.end then
    match location.parts.getLast?, (Loc.simple p).parts.head? with
    | some lastP, some firstP =>
      let newSub : Part := ⟨lastP.lo, firstP.hi, location.strand⟩
      if location.parts.length > 1 || (Loc.simple p).parts.length > 1 then
        .compound (location.parts.dropLast ++ [newSub] ++ (Loc.simple p).parts.drop 1)
      else .simple newSub
    | _, _ => location
  else .compound (location.parts ++ (Loc.simple p).parts)

theorem blo_fold (l : Loc) (ps : List Part) :
    buildLocationFromOthers (l :: ps.map Loc.simple) = .ok (ps.foldl bloStep l) := by
  simp only [buildLocationFromOthers, pure, Except.pure, List.foldl_map]
  rfl

/-- parts in ascending order, each after the previous one, none empty -/
def AscParts (ps : List Part) : Prop := ps.Pairwise (fun a b => a.hi ≤ b.lo) ∧ ∀ p ∈ ps, p.lo < p.hi

theorem maxList_asc : ∀ (ps : List Part) (q : Part), AscParts (ps ++ [q]) → maxList ((ps ++ [q]).map (·.hi)) = q.hi := by
  intro ps q h
  have hmem : q.hi ∈ (ps ++ [q]).map (·.hi) := by simp
  have hle : ∀ x ∈ (ps ++ [q]).map (·.hi), x ≤ q.hi := by
    intro x hx
    obtain ⟨p, hp, rfl⟩ := List.mem_map.1 hx
    rcases List.mem_append.1 hp with hp | hp
    · have h1 := (List.pairwise_append.1 h.1).2.2 p hp q (by simp)
      have h2 := h.2 q (by simp)
      omega
    · simp at hp; subst hp; omega
  have h1 := le_maxList_of_mem hmem
  have h2 := hle _ (maxList_mem (by simp))
  omega

theorem loc_end_of_parts (l : Loc) (ps : List Part) (q : Part) (hl : l.parts = ps ++ [q]) (ha : AscParts (ps ++ [q])) :
    l.end = q.hi := by
  cases l with
  | simple p =>
    simp only [Loc.parts] at hl
    have : ps = [] ∧ p = q := by
      cases ps with
      | nil => simpa using hl
      | cons x xs => simp at hl
    simp [Loc.end, this.2]
  | compound qs =>
    simp only [Loc.parts] at hl
    simp only [Loc.end, hl]
    exact maxList_asc ps q ha

theorem anyMem_eq (l : Loc) (i : Int) : l.mem i = anyMem l.parts i := rfl

theorem bloStep_eq (l : Loc) (p q : Part) (hlast : l.parts.getLast? = some q) :
    bloStep l p = if p.lo = l.end then
        (if l.parts.length > 1 then Loc.compound (l.parts.dropLast ++ [⟨q.lo, p.hi, l.strand⟩])
         else Loc.simple ⟨q.lo, p.hi, l.strand⟩)
      else Loc.compound (l.parts ++ [p]) := by
  unfold bloStep
  have e1 : (Loc.simple p).start = p.lo := rfl
  have e2 : (Loc.simple p).parts = [p] := rfl
  simp only [e1, e2, hlast, List.head?_cons, List.length_cons, List.length_nil, List.drop_one, List.tail_cons,
    List.append_nil]
  by_cases h : p.lo = l.end
  · simp only [h, if_true]
    by_cases h2 : l.parts.length > 1
    · simp [h2]
    · simp [h2]
  · simp only [h, if_false]

/-- the ascending case: pieces that follow each other are joined where they touch, nothing is lost or added -/
theorem bloStep_asc (l : Loc) (ps : List Part) (q p : Part) (hl : l.parts = ps ++ [q]) (ha : AscParts (ps ++ [q] ++ [p])) :
    ∃ ps' q', (bloStep l p).parts = ps' ++ [q'] ∧ AscParts (ps' ++ [q']) ∧ q'.hi = p.hi ∧
      ∀ i, (bloStep l p).mem i = (l.mem i || p.mem i) := by
  have ha1 : AscParts (ps ++ [q]) := ⟨(List.pairwise_append.1 ha.1).1, fun x hx => ha.2 x (by simp at hx ⊢; rcases hx with h | h; exact .inl h; exact .inr (.inl h))⟩
  have hend := loc_end_of_parts l ps q hl ha1
  have hqp : q.hi ≤ p.lo := (List.pairwise_append.1 ha.1).2.2 q (by simp) p (by simp)
  have hpne : p.lo < p.hi := ha.2 p (by simp)
  have hqne : q.lo < q.hi := ha.2 q (by simp)
  have hlast : l.parts.getLast? = some q := by rw [hl]; simp
  rw [bloStep_eq l p q hlast, hend]
  by_cases hadj : p.lo = q.hi
  · simp only [hadj, if_true]
    have hparts : (if l.parts.length > 1 then
        Loc.compound (l.parts.dropLast ++ [⟨q.lo, p.hi, l.strand⟩]) else Loc.simple ⟨q.lo, p.hi, l.strand⟩).parts
          = ps ++ [⟨q.lo, p.hi, l.strand⟩] := by
      split
      · rw [hl]; simp [Loc.parts]
      · rename_i hc
        have : ps = [] := by
          rw [hl] at hc
          simp at hc
          exact hc
        simp [Loc.parts, this]
    refine ⟨ps, ⟨q.lo, p.hi, l.strand⟩, hparts, ?_, rfl, ?_⟩
    · refine ⟨List.pairwise_append.2 ⟨(List.pairwise_append.1 ha1.1).1, by simp, ?_⟩, ?_⟩
      · intro x hx y hy
        simp at hy; subst hy
        exact (List.pairwise_append.1 ha1.1).2.2 x hx q (by simp)
      · intro x hx
        rcases List.mem_append.1 hx with hx | hx
        · exact ha1.2 x (by simp [hx])
        · simp at hx; subst hx; simp; omega
    · intro i
      rw [anyMem_eq, hparts, anyMem_eq l, hl]
      simp only [anyMem, List.any_append, List.any_cons, List.any_nil, Bool.or_false]
      have := Part.mem_merge q p l.strand (by omega) (by omega) hadj.symm i
      rw [this, Bool.or_assoc]
  · simp only [hadj, if_false]
    have hcp : (Loc.compound (l.parts ++ [p])).parts = ps ++ [q] ++ [p] := by
      show l.parts ++ [p] = ps ++ [q] ++ [p]
      rw [hl]
    refine ⟨ps ++ [q], p, hcp, ha, rfl, ?_⟩
    intro i
    rw [anyMem_eq, hcp, anyMem_eq l, hl]
    simp [anyMem, List.any_append, Bool.or_assoc]

theorem ascParts_prefix (a b : List Part) (h : AscParts (a ++ b)) : AscParts a :=
  ⟨(List.pairwise_append.1 h.1).1, fun x hx => h.2 x (by simp [hx])⟩

theorem blo_asc : ∀ (rest : List Part) (l : Loc) (ps : List Part) (q : Part), l.parts = ps ++ [q] →
    AscParts (ps ++ [q] ++ rest) →
    (rest.foldl bloStep l).parts ≠ [] ∧ ∀ i, (rest.foldl bloStep l).mem i = (l.mem i || anyMem rest i)
  | [], l, ps, q, hl, _ => ⟨by show l.parts ≠ []; rw [hl]; simp, fun i => by simp [anyMem]⟩
  | p :: rest, l, ps, q, hl, ha => by
    have ha' : AscParts (ps ++ [q] ++ [p]) := by
      have : ps ++ [q] ++ (p :: rest) = (ps ++ [q] ++ [p]) ++ rest := by simp
      rw [this] at ha
      exact ascParts_prefix _ _ ha
    obtain ⟨ps', q', hparts, hasc, hq', hmem⟩ := bloStep_asc l ps q p hl ha'
    have hnext : AscParts (ps' ++ [q'] ++ rest) := by
      have hall : ps ++ [q] ++ (p :: rest) = (ps ++ [q]) ++ ([p] ++ rest) := by simp
      rw [hall] at ha
      have hpr := (List.pairwise_append.1 ha.1).2.1
      have hprest : ∀ y ∈ rest, p.hi ≤ y.lo := fun y hy => (List.pairwise_cons.1 hpr).1 y hy
      refine ⟨List.pairwise_append.2 ⟨hasc.1, (List.pairwise_cons.1 hpr).2, ?_⟩, ?_⟩
      · intro x hx y hy
        have hy' := hprest y hy
        rcases List.mem_append.1 hx with hx | hx
        · have h1 := (List.pairwise_append.1 hasc.1).2.2 x hx q' (by simp)
          have h2 := hasc.2 q' (by simp)
          omega
        · simp at hx; subst hx; omega
      · intro x hx
        rcases List.mem_append.1 hx with hx | hx
        · exact hasc.2 x hx
        · exact ha.2 x (by simp [hx])
    obtain ⟨hne, hm⟩ := blo_asc rest (bloStep l p) ps' q' hparts hnext
    refine ⟨hne, fun i => ?_⟩
    simp only [List.foldl_cons]
    rw [hm i, hmem i]
    simp [anyMem, Bool.or_assoc]

/-- parts in descending order (the order of a reverse-strand location) -/
def DescParts (ps : List Part) : Prop := ps.Pairwise (fun a b => b.hi ≤ a.lo) ∧ ∀ p ∈ ps, p.lo < p.hi

theorem loc_end_desc (l : Loc) (q : Part) (ps : List Part) (hl : l.parts = q :: ps) (hd : DescParts (q :: ps)) : l.end = q.hi := by
  have hmax : maxList ((q :: ps).map (·.hi)) = q.hi := by
    have h1 := le_maxList_of_mem (show q.hi ∈ (q :: ps).map (·.hi) by simp)
    have h2 : ∀ x ∈ (q :: ps).map (·.hi), x ≤ q.hi := by
      intro x hx
      obtain ⟨p, hp, rfl⟩ := List.mem_map.1 hx
      rcases List.mem_cons.1 hp with rfl | hp
      · omega
      · have := (List.pairwise_cons.1 hd.1).1 p hp; have := hd.2 q (by simp); have := hd.2 p (by simp [hp]); omega
    have := h2 _ (maxList_mem (by simp))
    omega
  cases l with
  | simple p =>
    simp only [Loc.parts] at hl
    have : p = q := by simpa using (List.cons.inj hl).1
    simp [Loc.end, this]
  | compound qs =>
    simp only [Loc.parts] at hl
    simp only [Loc.end, hl]
    exact hmax

theorem blo_desc : ∀ (rest : List Part) (l : Loc) (q : Part) (ps : List Part), l.parts = q :: ps →
    DescParts (q :: ps ++ rest) →
    (rest.foldl bloStep l).parts ≠ [] ∧ ∀ i, (rest.foldl bloStep l).mem i = (l.mem i || anyMem rest i)
  | [], l, q, ps, hl, _ => ⟨by show l.parts ≠ []; rw [hl]; simp, fun i => by simp [anyMem]⟩
  | p :: rest, l, q, ps, hl, hd => by
    have hd1 : DescParts (q :: ps) := ⟨(List.pairwise_append.1 (by simpa using hd.1 : ((q :: ps) ++ (p :: rest)).Pairwise _)).1,
      fun x hx => hd.2 x (by simp at hx ⊢; rcases hx with h | h; exact .inl h; exact .inr (.inl h))⟩
    have hend := loc_end_desc l q ps hl hd1
    have hpq : p.hi ≤ q.lo := by
      have hp : (q :: (ps ++ p :: rest)).Pairwise (fun a b => b.hi ≤ a.lo) := by
        have := hd.1; simpa using this
      exact (List.pairwise_cons.1 hp).1 p (by simp)
    have hpne := hd.2 p (by simp)
    have hqne := hd.2 q (by simp)
    obtain ⟨ql, hlast⟩ : ∃ ql, l.parts.getLast? = some ql := by
      rw [hl]
      cases hg : (q :: ps).getLast? with
      | none => simp at hg
      | some x => exact ⟨x, rfl⟩
    have hstep : bloStep l p = Loc.compound (l.parts ++ [p]) := by
      rw [bloStep_eq l p ql hlast, hend]
      have : ¬ p.lo = q.hi := by omega
      simp [this]
    have hparts : (bloStep l p).parts = q :: (ps ++ [p]) := by rw [hstep]; show l.parts ++ [p] = _; rw [hl]; simp
    have hnext : DescParts (q :: (ps ++ [p]) ++ rest) := by
      have : q :: (ps ++ [p]) ++ rest = q :: ps ++ p :: rest := by simp
      rw [this]; exact hd
    obtain ⟨hne, hm⟩ := blo_desc rest (bloStep l p) q (ps ++ [p]) hparts hnext
    refine ⟨hne, fun i => ?_⟩
    simp only [List.foldl_cons]
    rw [hm i, anyMem_eq (bloStep l p), hparts, anyMem_eq l, hl]
    simp [anyMem, List.any_append, Bool.or_assoc]

/-- where `_adjust_motif` puts one part: behind the stretch of the file that comes from before the origin if the
    part lies after the origin -/
def motifPart (rd : RegionData) (L : Int) (p : Part) : Part :=
  if p.lo - rd.start < 0 then ⟨p.lo - rd.start + L, p.hi - rd.start + L, p.strand⟩ else ⟨p.lo - rd.start, p.hi - rd.start, p.strand⟩

/-- `_adjust_motif` on a leader/tail location of any number of parts: every part is placed by itself (the
    per-part decision), abutting parts are joined, the new text reads back and covers the same bases -/
theorem adjustMotifLoc_parts (t : String) (l : Loc) (rd : RegionData) (L : Int) (hL : 0 < L)
    (ht : locFromString t = some l) (hne : l.parts ≠ [])
    (hmono : AscParts (l.parts.map (motifPart rd L)) ∨ DescParts (l.parts.map (motifPart rd L)))
    (hplain : rd.crossesOrigin = false → ∀ p ∈ l.parts, rd.start ≤ p.lo ∧ p.hi ≤ rd.end)
    (hcross : rd.crossesOrigin = true → 0 < rd.end ∧ rd.end ≤ rd.start ∧ rd.start < L ∧
      ∀ p ∈ l.parts, (rd.start ≤ p.lo ∧ p.hi ≤ L) ∨ (0 ≤ p.lo ∧ p.hi ≤ rd.end ∧ p.lo < p.hi)) :
    ∃ l', adjustMotifLoc t rd L = .ok (locToString l') ∧ locFromString (locToString l') = some l' ∧
      SameBases L rd l l' := by
  obtain ⟨m, ms, hm⟩ := List.exists_cons_of_ne_nil (by simpa using hne : l.parts.map (motifPart rd L) ≠ [])
  have hfold : ∃ l', buildLocationFromOthers ((l.parts.map (motifPart rd L)).map Loc.simple) = .ok l' ∧ l'.parts ≠ [] ∧
      ∀ i, l'.mem i = anyMem (l.parts.map (motifPart rd L)) i := by
    rw [hm, List.map_cons, blo_fold]
    rcases hmono with ha | hd
    · rw [hm] at ha
      obtain ⟨h1, h2⟩ := blo_asc ms (.simple m) [] m rfl (by simpa using ha)
      exact ⟨_, rfl, h1, fun i => by rw [h2 i]; simp [anyMem, Loc.mem, Loc.parts]⟩
    · rw [hm] at hd
      obtain ⟨h1, h2⟩ := blo_desc ms (.simple m) m [] rfl (by simpa using hd)
      exact ⟨_, rfl, h1, fun i => by rw [h2 i]; simp [anyMem, Loc.mem, Loc.parts]⟩
  obtain ⟨l', hb, hl'ne, hmem⟩ := hfold
  refine ⟨l', ?_, locFromString_locToString l' hl'ne, ?_⟩
  · unfold adjustMotifLoc
    simp only [ht]
    have : (l.parts.map fun part =>
        let newStart := part.lo - rd.start
        let newEnd := part.hi - rd.start
        if newStart < 0 then (⟨newStart + L, newEnd + L, part.strand⟩ : Part) else ⟨newStart, newEnd, part.strand⟩)
        = l.parts.map (motifPart rd L) := rfl
    simp only [this, hb, bind, Except.bind, pure, Except.pure]
  · intro i
    rw [hmem i]
    simp only [anyMem, List.any_map, List.any_eq_true, Function.comp]
    constructor
    · rintro ⟨p, hp, hpi⟩
      have hsb := motif_single_sameBases p rd L hL (fun hc => hplain hc p hp)
        (fun hc => by obtain ⟨a, b, c, d⟩ := hcross hc; exact ⟨a, b, c, d p hp⟩) i
      have hpi' : (Loc.simple (motifPart rd L p)).mem i = true := by simpa [Loc.mem, Loc.parts] using hpi
      unfold motifPart at hpi'
      obtain ⟨h0, h1, h2⟩ := hsb.1 hpi'
      refine ⟨h0, h1, ?_⟩
      simp only [Loc.mem, List.any_eq_true]
      exact ⟨p, hp, by simpa [Loc.mem, Loc.parts] using h2⟩
    · rintro ⟨h0, h1, h2⟩
      simp only [Loc.mem, List.any_eq_true] at h2
      obtain ⟨p, hp, hpm⟩ := h2
      have hsb := motif_single_sameBases p rd L hL (fun hc => hplain hc p hp)
        (fun hc => by obtain ⟨a, b, c, d⟩ := hcross hc; exact ⟨a, b, c, d p hp⟩) i
      have := hsb.2 ⟨h0, h1, by simpa [Loc.mem, Loc.parts] using hpm⟩
      exact ⟨p, hp, by simpa [Loc.mem, Loc.parts, motifPart] using this⟩

end ASV.RegionExtract
