/-
  C12: `_adjust_motif` for leader/tail locations of one part: the rewritten text is the text of the moved part and
  the moved part covers the same bases.
-/
import ASV.Proofs.RegionExtractRegion
set_option linter.unusedSimpArgs false
namespace ASV.RegionExtract
open ASV

/-- `_adjust_motif` on a one-part leader/tail location: the new text is the text of the moved part, reads back to
    it, and the moved part covers the same bases -/
theorem adjustMotifLoc_single (t : String) (p : Part) (rd : RegionData) (L : Int) (ht : locFromString t = some (.simple p)) :
    adjustMotifLoc t rd L = .ok (locToString (.simple
      (if p.lo - rd.start < 0 then ⟨p.lo - rd.start + L, p.hi - rd.start + L, p.strand⟩ else ⟨p.lo - rd.start, p.hi - rd.start, p.strand⟩))) := by
  unfold adjustMotifLoc
  simp only [ht, Loc.parts, List.map_cons, List.map_nil, buildLocationFromOthers, List.foldl_nil, bind, Except.bind,
    pure, Except.pure]

theorem motif_single_sameBases (p : Part) (rd : RegionData) (L : Int) (hL : 0 < L)
    (hplain : rd.crossesOrigin = false → rd.start ≤ p.lo ∧ p.hi ≤ rd.end)
    (hcross : rd.crossesOrigin = true → 0 < rd.end ∧ rd.end ≤ rd.start ∧ rd.start < L ∧
      ((rd.start ≤ p.lo ∧ p.hi ≤ L) ∨ (0 ≤ p.lo ∧ p.hi ≤ rd.end ∧ p.lo < p.hi))) :
    SameBases L rd (.simple p) (.simple
      (if p.lo - rd.start < 0 then ⟨p.lo - rd.start + L, p.hi - rd.start + L, p.strand⟩ else ⟨p.lo - rd.start, p.hi - rd.start, p.strand⟩)) := by
  cases hc : rd.crossesOrigin with
  | false =>
    obtain ⟨h1, h2⟩ := hplain hc
    have hn : ¬ (p.lo - rd.start < 0) := by omega
    simp only [hn, if_false]
    have := sameBases_plain L rd (.simple p) hc (by simpa [Loc.start] using h1) (by simpa [Loc.end] using h2)
    have e : shiftLoc (.simple p) (-rd.start) = .simple ⟨p.lo - rd.start, p.hi - rd.start, p.strand⟩ := by
      simp [shiftLoc]; constructor <;> omega
    rw [e] at this; exact this
  | true =>
    obtain ⟨he0, hes, hsL, hside⟩ := hcross hc
    rcases hside with ⟨h1, h2⟩ | ⟨h1, h2, h3⟩
    · have hn : ¬ (p.lo - rd.start < 0) := by omega
      simp only [hn, if_false]
      have := sameBases_pre L rd (.simple p) hc hL he0 hes hsL (by simpa [Loc.start] using h1) (by simpa [Loc.end] using h2)
      have e : shiftLoc (.simple p) (-rd.start) = .simple ⟨p.lo - rd.start, p.hi - rd.start, p.strand⟩ := by
        simp [shiftLoc]; constructor <;> omega
      rw [e] at this; exact this
    · have hn : p.lo - rd.start < 0 := by omega
      simp only [hn, if_true]
      have := sameBases_post L rd (.simple p) hc hL he0 hes hsL (by simpa [Loc.start] using h1) (by simpa [Loc.end] using h2)
      have e : shiftLoc (.simple p) (L - rd.start) = .simple ⟨p.lo - rd.start + L, p.hi - rd.start + L, p.strand⟩ := by
        simp [shiftLoc]; constructor <;> omega
      rw [e] at this; exact this

end ASV.RegionExtract
