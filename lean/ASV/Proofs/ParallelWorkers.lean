/- C18: facts about the worker functions `sanitise_sequence` / `ensure_cds_info`. -/
import ASV.Model.ParallelWorkers
namespace ASV.Parallel

theorem sanitiseChars_alphabet : ∀ (s : List Char) (c : Char), c ∈ (sanitiseChars s).1 →
    c ∈ ['A', 'C', 'G', 'T', 'N']
  | [], c, h => by simp [sanitiseChars] at h
  | x :: rest, c, h => by
    have ih := sanitiseChars_alphabet rest c
    simp only [sanitiseChars] at h
    split at h
    · exact ih h
    · split at h
      · rename_i hmem
        rcases List.mem_cons.mp h with rfl | h
        · simp only [List.contains_eq_mem, List.mem_cons, decide_eq_true_eq] at hmem
          simp only [List.mem_cons]
          rcases hmem with h | h | h | h | h
          · exact Or.inl h
          · exact Or.inr (Or.inl h)
          · exact Or.inr (Or.inr (Or.inl h))
          · exact Or.inr (Or.inr (Or.inr (Or.inl h)))
          · simp at h
        · exact ih h
      · rcases List.mem_cons.mp h with rfl | h
        · simp
        · exact ih h

theorem sanitiseChars_length_le : ∀ (s : List Char), (sanitiseChars s).1.length ≤ s.length
  | [] => by simp [sanitiseChars]
  | x :: rest => by
    have ih := sanitiseChars_length_le rest
    simp only [sanitiseChars]
    split
    · simp only [List.length_cons]; omega
    · split <;> simp only [List.length_cons] <;> omega

def isRealBase (c : Char) : Bool := ['A', 'C', 'G', 'T'].contains c

theorem sanitiseChars_real (s : List Char) : (sanitiseChars s).2 = (sanitiseChars s).1.any isRealBase := by
  induction s with
  | nil => simp [sanitiseChars]
  | cons x rest ih =>
    simp only [sanitiseChars]
    split
    · exact ih
    · split
      · rename_i hmem
        have : isRealBase x.toUpper = true := hmem
        simp [this]
      · simp only [List.any_cons, ih]
        have : isRealBase 'N' = false := by decide
        simp [this]

theorem sanitiseChars_fixed : ∀ (s : List Char), (∀ c ∈ s, c ∈ ['A', 'C', 'G', 'T', 'N']) →
    (sanitiseChars s).1 = s
  | [], _ => by simp [sanitiseChars]
  | x :: rest, h => by
    have ih := sanitiseChars_fixed rest (fun c hc => h c (by simp [hc]))
    have hx := h x (by simp)
    simp only [List.mem_cons, List.not_mem_nil, or_false] at hx
    rcases hx with rfl | rfl | rfl | rfl | rfl <;> simp [sanitiseChars, ih]

/-- sanitising twice is sanitising once (sequence and skip flag) -/
theorem sanitiseSequence_idempotent (r : SeqRec) :
    sanitiseSequence (sanitiseSequence r) = sanitiseSequence r := by
  have hfix := sanitiseChars_fixed (sanitiseChars r.seq).1 (sanitiseChars_alphabet r.seq)
  have hreal₁ := sanitiseChars_real r.seq
  have hreal₂ := sanitiseChars_real (sanitiseChars r.seq).1
  rw [hfix] at hreal₂
  unfold sanitiseSequence
  simp only [hfix]
  rw [hreal₂, ← hreal₁]
  cases (sanitiseChars r.seq).2 <;> simp

theorem ensureCdsInfo_skipped (gff3 toolNone : Bool) (gf : GeneFinder) (r : CdsRec)
    (h : truthy r.skip = true) : ensureCdsInfo gff3 toolNone gf r = .ok r := by
  simp [ensureCdsInfo, h]

/-- "records without CDS features will have their skip flag marked" -/
theorem ensureCdsInfo_post (gff3 toolNone : Bool) (gf : GeneFinder) (r r' : CdsRec)
    (h : ensureCdsInfo gff3 toolNone gf r = .ok r') : truthy r'.skip = true ∨ 0 < r'.cds := by
  unfold ensureCdsInfo at h
  split at h
  · rename_i hs; cases h; exact Or.inl hs
  · split at h
    · cases hf : runGeneFinder gff3 toolNone gf with
      | error e => rw [hf] at h; cases h
      | ok n =>
        rw [hf] at h
        simp only at h
        split at h
        · cases h; exact Or.inl (by decide)
        · cases h; exact Or.inr (by simp only; omega)
    · cases h; exact Or.inr (by omega)

end ASV.Parallel
