/-
  Helper lemmas for C13: `filter_result_multiple` keeps, per profile, the earliest best-scoring
  hit (if it scores above −1).
-/
import ASV.Proofs.Sort
import ASV.Spec.HitFilter
namespace ASV.HitFilter
open ASV.Refine

abbrev QS := List (Int × Nat × FHit)

/-- `x` sits in `hits` after `l1` and is the earliest best of its profile there -/
def FirstBest (hits l1 : List FHit) (x : FHit) (l2 : List FHit) : Prop :=
  hits = l1 ++ x :: l2 ∧ -10 < x.sc ∧ (∀ g ∈ l1, g.prof = x.prof → g.sc < x.sc) ∧
    (∀ g ∈ l2, g.prof = x.prof → g.sc ≤ x.sc)

theorem entry_unique : ∀ {q : QS}, (q.map (·.1)).Nodup → ∀ {e e' : Int × Nat × FHit},
    e ∈ q → e' ∈ q → e.1 = e'.1 → e = e'
  | [], _, _, _, he, _, _ => by simp at he
  | a :: t, hn, e, e', he, he', hk => by
    have hn' := List.nodup_cons.mp hn
    rcases List.mem_cons.mp he with rfl | h1
    · rcases List.mem_cons.mp he' with rfl | h2
      · rfl
      · exfalso; apply hn'.1; exact List.mem_map.mpr ⟨e', h2, hk.symm⟩
    · rcases List.mem_cons.mp he' with rfl | h2
      · exfalso; apply hn'.1; exact List.mem_map.mpr ⟨e, h1, hk⟩
      · exact entry_unique hn'.2 h1 h2 hk

theorem setScore_keys (p : Int) (v : Nat × FHit) : ∀ q : QS,
    (setScore q p v).map (·.1) = if p ∈ q.map (·.1) then q.map (·.1) else q.map (·.1) ++ [p]
  | [] => by simp [setScore]
  | (p', v') :: t => by
    simp only [setScore]
    split
    · rename_i h; subst h; simp
    · rename_i h
      simp only [List.map_cons, List.mem_cons, setScore_keys p v t]
      have : ¬ p = p' := fun e => h e.symm
      simp only [this, false_or]
      split <;> simp

theorem mem_setScore_iff (p : Int) (v : Nat × FHit) : ∀ (q : QS), (q.map (·.1)).Nodup → ∀ e,
    e ∈ setScore q p v ↔ e = (p, v) ∨ (e ∈ q ∧ e.1 ≠ p)
  | [], _, e => by simp [setScore]
  | (p', v') :: t, hn, e => by
    have hn' := List.nodup_cons.mp hn
    simp only [setScore]
    split
    · rename_i h; subst h
      simp only [List.mem_cons]
      constructor
      · rintro (h | h)
        · exact Or.inl h
        · right
          refine ⟨Or.inr h, ?_⟩
          intro he
          apply hn'.1
          rw [← he]
          exact List.mem_map.mpr ⟨e, h, rfl⟩
      · rintro (h | ⟨h | h, hne⟩)
        · exact Or.inl h
        · subst h; simp at hne
        · exact Or.inr h
    · rename_i h
      simp only [List.mem_cons, mem_setScore_iff p v t hn'.2 e]
      constructor
      · rintro (h1 | h1 | ⟨h1, h2⟩)
        · subst h1; exact Or.inr ⟨Or.inl rfl, h⟩
        · exact Or.inl h1
        · exact Or.inr ⟨Or.inr h1, h2⟩
      · rintro (h1 | ⟨h1 | h1, h2⟩)
        · exact Or.inr (Or.inl h1)
        · exact Or.inl h1
        · exact Or.inr (Or.inr ⟨h1, h2⟩)

theorem getScore_eq_some {q : QS} (hn : (q.map (·.1)).Nodup) {p : Int} {v : Nat × FHit} :
    getScore q p = some v ↔ (p, v) ∈ q := by
  induction q with
  | nil => simp [getScore]
  | cons e t ih =>
    have hn' := List.nodup_cons.mp hn
    obtain ⟨p', v'⟩ := e
    simp only [getScore, List.find?_cons]
    by_cases h : p' = p
    · subst h
      simp only [beq_self_eq_true, List.mem_cons, Prod.mk.injEq, true_and]
      constructor
      · intro h1; simp only [Option.some.injEq] at h1; exact Or.inl h1.symm
      · rintro (h1 | h1)
        · simp [h1]
        · exfalso; exact hn'.1 (List.mem_map.mpr ⟨(p', v), h1, rfl⟩)
    · have hb : (p' == p) = false := by simpa using h
      simp only [hb, List.mem_cons, Prod.mk.injEq]
      have := ih hn'.2
      simp only [getScore] at this
      rw [this]
      constructor
      · exact Or.inr
      · rintro (⟨h1, _⟩ | h1)
        · exact absurd h1.symm h
        · exact h1

theorem getScore_eq_none {q : QS} {p : Int} : getScore q p = none ↔ p ∉ q.map (·.1) := by
  simp only [getScore]
  cases h : q.find? (fun e => e.1 == p) with
  | none =>
    simp only [true_iff]
    rw [List.find?_eq_none] at h
    intro hm
    obtain ⟨e, he, rfl⟩ := List.mem_map.mp hm
    exact h e he (by simp)
  | some e =>
    simp only [reduceCtorEq, false_iff]
    intro hn
    have := List.find?_some h
    have hm := List.mem_of_find?_eq_some h
    exact hn (List.mem_map.mpr ⟨e, hm, by simpa using this⟩)

/-- invariant of the `enumerate` loop after the prefix `pre` -/
structure Inv (q : QS) (pre : List FHit) : Prop where
  keys : (q.map (·.1)).Nodup
  sound : ∀ e ∈ q, ∃ l1 l2, FirstBest pre l1 e.2.2 l2 ∧ l1.length = e.2.1 ∧ e.2.2.prof = e.1
  complete : ∀ g ∈ pre, -10 < g.sc → g.prof ∈ q.map (·.1)

theorem Inv.step {q : QS} {pre : List FHit} (inv : Inv q pre) (h : FHit) :
    Inv (if improves q h then setScore q h.prof (pre.length, h) else q) (pre ++ [h]) := by
  -- extending the split of an entry of another profile, or of the same profile when `h` is not better
  have extend : ∀ e ∈ q, (e.1 = h.prof → h.sc ≤ e.2.2.sc) →
      ∃ l1 l2, FirstBest (pre ++ [h]) l1 e.2.2 l2 ∧ l1.length = e.2.1 ∧ e.2.2.prof = e.1 := by
    intro e he hsc
    obtain ⟨l1, l2, ⟨hsplit, hpos, hl1, hl2⟩, hlen, hprof⟩ := inv.sound e he
    refine ⟨l1, l2 ++ [h], ⟨by rw [hsplit]; simp, hpos, hl1, ?_⟩, hlen, hprof⟩
    intro g hg hgp
    rcases List.mem_append.mp hg with hg | hg
    · exact hl2 g hg hgp
    · simp at hg; subst hg
      exact hsc (by rw [← hprof, hgp])
  split
  · rename_i himp
    -- every earlier hit of `h`'s profile scores strictly less
    have hless : -10 < h.sc ∧ ∀ g ∈ pre, g.prof = h.prof → g.sc < h.sc := by
      simp only [improves] at himp
      split at himp
      · rename_i hnone
        have hnk := getScore_eq_none.mp hnone
        simp only [decide_eq_true_eq] at himp
        refine ⟨himp, ?_⟩
        intro g hg hgp
        by_cases hgs : -10 < g.sc
        · exact absurd (hgp ▸ inv.complete g hg hgs) hnk
        · omega
      · rename_i i b hsome
        simp only [decide_eq_true_eq] at himp
        have hmem := (getScore_eq_some inv.keys).mp hsome
        obtain ⟨l1, l2, ⟨hsplit, hpos, hl1, hl2⟩, _, hprof⟩ := inv.sound _ hmem
        simp only at hsplit hpos hl1 hl2 hprof
        refine ⟨by omega, ?_⟩
        intro g hg hgp
        rw [hsplit] at hg
        rcases List.mem_append.mp hg with hg | hg
        · have := hl1 g hg (by rw [hgp, hprof]); omega
        · rcases List.mem_cons.mp hg with rfl | hg
          · exact himp
          · have := hl2 g hg (by rw [hgp, hprof]); omega
    refine ⟨?_, ?_, ?_⟩
    · rw [setScore_keys]
      split
      · exact inv.keys
      · rename_i hnk
        rw [List.nodup_append]
        refine ⟨inv.keys, by simp, ?_⟩
        intro a ha b hb
        simp at hb; subst hb
        intro e; subst e; exact hnk ha
    · intro e he
      rcases (mem_setScore_iff _ _ q inv.keys e).mp he with rfl | ⟨heq, hne⟩
      · exact ⟨pre, [], ⟨by simp, hless.1, hless.2, by simp⟩, rfl, rfl⟩
      · exact extend e heq (fun h' => absurd h' hne)
    · intro g hg hgs
      rw [setScore_keys]
      rcases List.mem_append.mp hg with hg | hg
      · have := inv.complete g hg hgs
        split
        · exact this
        · exact List.mem_append_left _ this
      · simp at hg; subst hg
        split
        · assumption
        · simp
  · rename_i himp
    refine ⟨inv.keys, ?_, ?_⟩
    · intro e he
      apply extend e he
      intro hep
      simp only [improves] at himp
      split at himp
      · rename_i hnone
        exact absurd (List.mem_map.mpr ⟨e, he, hep⟩) (getScore_eq_none.mp hnone)
      · rename_i i b hsome
        have hmem := (getScore_eq_some inv.keys).mp hsome
        -- the entry found is `e` (keys are distinct)
        have : e = (h.prof, i, b) := entry_unique inv.keys he hmem hep
        subst this
        simp only [decide_eq_true_eq] at himp
        simp only
        omega
    · intro g hg hgs
      rcases List.mem_append.mp hg with hg | hg
      · exact inv.complete g hg hgs
      · simp at hg; subst hg
        simp only [improves] at himp
        split at himp
        · simp only [decide_eq_true_eq] at himp; omega
        · rename_i i b hsome
          exact List.mem_map.mpr ⟨_, (getScore_eq_some inv.keys).mp hsome, rfl⟩

theorem scan_inv : ∀ (t : List FHit) (q : QS) (pre : List FHit), Inv q pre →
    Inv (scanMultiple q pre.length t) (pre ++ t)
  | [], q, pre, inv => by simpa [scanMultiple] using inv
  | h :: t, q, pre, inv => by
    have st := inv.step h
    have e1 : (pre ++ [h]).length = pre.length + 1 := by simp
    have e2 : (pre ++ [h]) ++ t = pre ++ h :: t := by simp
    simp only [scanMultiple]
    split
    · rename_i himp
      simp only [himp, if_true] at st
      have := scan_inv t _ (pre ++ [h]) st
      rw [e1, e2] at this
      exact this
    · rename_i himp
      simp only [himp, Bool.false_eq_true, if_false] at st
      have := scan_inv t _ (pre ++ [h]) st
      rw [e1, e2] at this
      exact this

theorem firstBest_unique {hits l1 l2 l1' l2' : List FHit} {x y : FHit}
    (hx : FirstBest hits l1 x l2) (hy : FirstBest hits l1' y l2') (hp : x.prof = y.prof) : x = y := by
  obtain ⟨ex, _, hx1, hx2⟩ := hx
  obtain ⟨ey, _, hy1, hy2⟩ := hy
  rw [ex] at ey
  rcases List.append_eq_append_iff.mp ey with ⟨a', e1, e2⟩ | ⟨c', e1, e2⟩
  · cases a' with
    | nil => simp at e2; exact e2.1
    | cons z a'' =>
      simp only [List.cons_append, List.cons.injEq] at e2
      obtain ⟨rfl, e3⟩ := e2
      have hx_in : x ∈ l1' := by rw [e1]; simp
      have hy_in : y ∈ l2 := by rw [e3]; simp
      have h1 := hy1 x hx_in hp
      have h2 := hx2 y hy_in hp.symm
      omega
  · cases c' with
    | nil => simp at e2; exact e2.1.symm
    | cons z c'' =>
      simp only [List.cons_append, List.cons.injEq] at e2
      obtain ⟨rfl, e3⟩ := e2
      have hy_in : y ∈ l1 := by rw [e1]; simp
      have hx_in : x ∈ l2' := by rw [e3]; simp
      have h1 := hx1 y hy_in hp.symm
      have h2 := hy2 x hx_in hp
      omega

theorem final_inv (hits : List FHit) : Inv (scanMultiple [] 0 hits) hits := by
  have := scan_inv hits [] [] ⟨by simp, by simp, by simp⟩
  simpa using this

theorem mem_filterMultiple {hits : List FHit} {x : FHit} :
    x ∈ filterMultiple hits ↔ ∃ l1 l2, FirstBest hits l1 x l2 := by
  have inv := final_inv hits
  simp only [filterMultiple, List.mem_map, mem_sortBy]
  constructor
  · rintro ⟨⟨i, y⟩, ⟨e, he, hev⟩, rfl⟩
    obtain ⟨l1, l2, hfb, _, _⟩ := inv.sound e he
    rw [hev] at hfb
    exact ⟨l1, l2, hfb⟩
  · rintro ⟨l1, l2, hfb⟩
    have hx : x ∈ hits := by rw [hfb.1]; simp
    obtain ⟨e, he, hk⟩ := List.mem_map.mp (inv.complete x hx hfb.2.1)
    obtain ⟨l1', l2', hfb', _, hp⟩ := inv.sound e he
    have : e.2.2 = x := firstBest_unique hfb' hfb (by rw [hp, hk])
    exact ⟨e.2, ⟨e, he, rfl⟩, this⟩

end ASV.HitFilter
