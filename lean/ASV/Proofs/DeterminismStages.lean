/-
  C17 helper lemmas, per stage: each modelled stage gives the same result for every enumeration of
  the hash-ordered containers it reads.
-/
import ASV.Proofs.DeterminismSort
import ASV.Proofs.RefineOrder
import ASV.Proofs.HitFilterEquiv
namespace ASV.Determinism
open ASV.Refine ASV.HitFilter

/-! ### executable spec ↔ propositions -/

theorem isPermB_iff {α : Type} [DecidableEq α] (a b : List α) : isPermB a b = true ↔ a.Perm b := by
  rw [List.perm_iff_count]
  simp only [isPermB, Bool.and_eq_true, List.all_eq_true, beq_iff_eq]
  constructor
  · rintro ⟨h1, h2⟩ x
    by_cases ha : x ∈ a
    · exact h1 x ha
    · by_cases hb : x ∈ b
      · exact h2 x hb
      · rw [List.count_eq_zero_of_not_mem ha, List.count_eq_zero_of_not_mem hb]
  · intro h
    exact ⟨fun x _ => h x, fun x _ => h x⟩

theorem pairwiseAll_iff {α : Type} (r : α → α → Bool) : ∀ l : List α,
    pairwiseAll r l = true ↔ l.Pairwise (fun a b => r a b = true)
  | [] => by simp [pairwiseAll]
  | a :: l => by simp [pairwiseAll, pairwiseAll_iff r l, List.all_eq_true]

theorem hasKeyTie_false_iff {α κ : Type} [DecidableEq α] [DecidableEq κ] (key : α → κ) : ∀ l : List α,
    l.Nodup → (hasKeyTie key l = false ↔ ∀ a ∈ l, ∀ b ∈ l, key a = key b → a = b)
  | [], _ => by simp [hasKeyTie]
  | a :: l, hn => by
    rw [List.nodup_cons] at hn
    simp only [hasKeyTie, Bool.or_eq_false_iff, hasKeyTie_false_iff key l hn.2, List.any_eq_false,
      Bool.and_eq_true, decide_eq_true_eq, not_and, List.mem_cons]
    constructor
    · rintro ⟨h1, h2⟩ x hx y hy hk
      rcases hx with rfl | hx <;> rcases hy with rfl | hy
      · rfl
      · exact absurd hk (h1 y hy (fun e => hn.1 (e ▸ hy)))
      · exact absurd hk.symm (h1 x hx (fun e => hn.1 (e ▸ hx)))
      · exact h2 x hx y hy hk
    · intro h
      refine ⟨fun b hb hne hk => hne (h _ (Or.inl rfl) b (Or.inr hb) hk), fun x hx y hy hk => h x (Or.inr hx) y (Or.inr hy) hk⟩

theorem tripleLt_false_iff (a b : Int × Int × Int × Int × Int) : tripleLt b a = false ↔ keyLe a b = true := by
  obtain ⟨a1, a2, a3, a4, a5⟩ := a; obtain ⟨b1, b2, b3, b4, b5⟩ := b
  simp only [tripleLt, keyLe, Bool.or_eq_false_iff, Bool.and_eq_false_iff, decide_eq_false_iff_not, decide_eq_true_eq]
  omega

/-- a listing that meets `canonicalBy` is the keyed sort of any enumeration of the members -/
theorem canonical_unique {α κ : Type} [DecidableEq α] (key : α → κ) (ltK leK : κ → κ → Bool)
    (hlt : ∀ a b, ltK b a = false ↔ leK a b = true)
    (total : ∀ a b, leK a b = true ∨ leK b a = true)
    (trans : ∀ a b c, leK a b = true → leK b c = true → leK a c = true)
    (antisymm : ∀ a b, leK a b = true → leK b a = true → a = b) {members out : List α}
    (inj : ∀ a ∈ members, ∀ b ∈ members, key a = key b → a = b)
    (h : canonicalBy key ltK members out = true) :
    out = sortBy (fun a b => leK (key a) (key b)) members := by
  simp only [canonicalBy, Bool.and_eq_true, isPermB_iff, pairwiseAll_iff] at h
  obtain ⟨hp, hs⟩ := h
  apply List.Perm.eq_of_pairwise (le := fun x y => leK (key x) (key y) = true)
  · intro a b ha hb hab hba
    exact inj a (hp.mem_iff.mpr ha) b ((mem_sortBy _).mp hb) (antisymm _ _ hab hba)
  · exact hs.imp (fun {a b} hab => by
      have := (hlt (key a) (key b)).mp (by simpa using hab)
      exact this)
  · exact sortBy_pairwise (fun a b => total (key a) (key b)) (fun a b c => trans (key a) (key b) (key c)) members
  · exact hp.symm.trans (sortBy_perm _ members).symm

theorem sortBy_canonical {α κ : Type} [DecidableEq α] (key : α → κ) (ltK leK : κ → κ → Bool)
    (hlt : ∀ a b, ltK b a = false ↔ leK a b = true)
    (total : ∀ a b, leK a b = true ∨ leK b a = true)
    (trans : ∀ a b c, leK a b = true → leK b c = true → leK a c = true) (members : List α) :
    canonicalBy key ltK members (sortBy (fun a b => leK (key a) (key b)) members) = true := by
  simp only [canonicalBy, Bool.and_eq_true, isPermB_iff, pairwiseAll_iff]
  refine ⟨(sortBy_perm _ members).symm, ?_⟩
  exact (sortBy_pairwise (fun a b => total (key a) (key b)) (fun a b c => trans (key a) (key b) (key c)) members).imp
    (fun {a b} hab => by simpa using (hlt (key a) (key b)).mpr hab)

/-! ### `get_unique_protoclusters` -/

/-- no two members of the container agree on the sort key -/
def KeyInj (cross : Bool) (L : Int) (l : List Proto) : Prop :=
  ∀ a ∈ l, ∀ b ∈ l, protoKey cross L a = protoKey cross L b → a = b

theorem uniqueProtoclusters_perm {cross : Bool} {L : Int} {l₁ l₂ : List Proto} (inj : KeyInj cross L l₁)
    (h : l₁.Perm l₂) : uniqueProtoclusters cross L l₁ = uniqueProtoclusters cross L l₂ :=
  sortBy_key_eq_of_perm (protoKey cross L) keyLe_total keyLe_trans keyLe_antisymm inj h

/-! ### dicts of sets -/

theorem flatMap_perm_of_sameDict {κ α : Type} : ∀ {d₁ d₂ : List (κ × List α)}, SameDictOfSets d₁ d₂ →
    (d₁.flatMap (·.2)).Perm (d₂.flatMap (·.2))
  | _, _, .nil => List.Perm.refl _
  | _, _, .cons h t => by
    simp only [List.flatMap_cons]
    exact h.2.append (flatMap_perm_of_sameDict t)

theorem contains_eq_of_perm {α : Type} [BEq α] [LawfulBEq α] {l₁ l₂ : List α} (h : l₁.Perm l₂) (x : α) :
    l₁.contains x = l₂.contains x := by
  rw [Bool.eq_iff_iff]
  simp only [List.contains_iff_mem, h.mem_iff]

theorem definitionDomainsJson_same {d₁ d₂ : List (Int × List Int)} (h : SameDictOfSets d₁ d₂) :
    definitionDomainsJson d₁ = definitionDomainsJson d₂ :=
  map_eq_of_forall₂ (fun a b hab => by rw [hab.1, sortedNames_perm hab.2]) h

theorem foldSorted_perm {α β : Type} {le : α → α → Bool} (total : ∀ a b, le a b = true ∨ le b a = true)
    (trans : ∀ a b c, le a b = true → le b c = true → le a c = true) (f : β → α → β) (init : β) {l₁ l₂ : List α}
    (antisymm : ∀ a ∈ l₁, ∀ b ∈ l₁, le a b = true → le b a = true → a = b) (h : l₁.Perm l₂) :
    foldSorted le f init l₁ = foldSorted le f init l₂ := by
  simp only [foldSorted, sortBy_eq_of_perm_on total trans antisymm h]

theorem annotate_core_same (existing : List GeneFn) : ∀ {d₁ d₂ : List (Int × List Int)}, SameDictOfSets d₁ d₂ →
    d₁.foldl (fun acc kv => foldSorted leInt (fun acc d => addNew acc ⟨true, d, some kv.1⟩) acc kv.2) existing =
    d₂.foldl (fun acc kv => foldSorted leInt (fun acc d => addNew acc ⟨true, d, some kv.1⟩) acc kv.2) existing
  | _, _, .nil => rfl
  | _, _, .cons (a := a) (b := b) h t => by
    simp only [List.foldl_cons]
    have : foldSorted leInt (fun acc d => addNew acc ⟨true, d, some a.1⟩) existing a.2 =
        foldSorted leInt (fun acc d => addNew acc ⟨true, d, some b.1⟩) existing b.2 := by
      rw [h.1]
      exact foldSorted_perm leInt_total leInt_trans _ _ (fun x _ y _ => leInt_antisymm x y) h.2
    rw [this]
    exact annotate_core_same _ t

theorem annotate_same (existing : List GeneFn) (prevIds domains : List Int) {d₁ d₂ : List (Int × List Int)}
    (h : SameDictOfSets d₁ d₂) : annotate existing prevIds d₁ domains = annotate existing prevIds d₂ domains := by
  simp only [annotate, annotate_core_same existing h]
  have hc : ∀ d, (prevIds ++ d₁.flatMap (·.2)).contains d = (prevIds ++ d₂.flatMap (·.2)).contains d :=
    fun d => contains_eq_of_perm ((List.Perm.refl prevIds).append (flatMap_perm_of_sameDict h)) d
  have : (fun (acc : List GeneFn) (d : Int) =>
        if (prevIds ++ d₁.flatMap (·.2)).contains d then acc else addNew acc ⟨false, d, none⟩) =
      (fun acc d => if (prevIds ++ d₂.flatMap (·.2)).contains d then acc else addNew acc ⟨false, d, none⟩) := by
    funext acc d; rw [hc d]
  rw [this]

/-! ### `filter_results` -/

theorem leNat_total (a b : Nat) : leNat a b = true ∨ leNat b a = true := by
  simp only [leNat, decide_eq_true_eq]; omega
theorem leNat_trans (a b c : Nat) : leNat a b = true → leNat b c = true → leNat a c = true := by
  simp only [leNat, decide_eq_true_eq]; omega
theorem leNat_antisymm (a b : Nat) : leNat a b = true → leNat b a = true → a = b := by
  simp only [leNat, decide_eq_true_eq]; omega

theorem bestOfGroup_perm {l₁ l₂ : List FHit} (inj : ∀ a ∈ l₁, ∀ b ∈ l₁, a.uid = b.uid → a = b) (h : l₁.Perm l₂) :
    bestOfGroup l₁ = bestOfGroup l₂ := by
  simp only [bestOfGroup, sortBy_key_eq_of_perm (fun x : FHit => x.uid) leNat_total leNat_trans leNat_antisymm inj h]

/-- `enum` iterates each group set in some order -/
def Enumerates (enum : List FHit → List FHit) : Prop := ∀ g, (enum g).Perm g

theorem removedByE_mem_iff {e₁ e₂ : List FHit → List FHit} (h₁ : Enumerates e₁) (h₂ : Enumerates e₂)
    {gs : List (List FHit)} (inj : ∀ g ∈ gs, ∀ a ∈ g, ∀ b ∈ g, a.uid = b.uid → a = b) (u : Nat) :
    u ∈ removedByE e₁ gs ↔ u ∈ removedByE e₂ gs := by
  simp only [removedByE, List.mem_flatMap]
  have key : ∀ g ∈ gs, (u ∈ (match bestOfGroup (e₁ g) with
        | none => []
        | some best => ((e₁ g).filter (fun (h : FHit) => h.uid != best.uid)).map FHit.uid)) ↔
      (u ∈ (match bestOfGroup (e₂ g) with
        | none => []
        | some best => ((e₂ g).filter (fun (h : FHit) => h.uid != best.uid)).map FHit.uid)) := by
    intro g hg
    have hp : (e₁ g).Perm (e₂ g) := (h₁ g).trans (h₂ g).symm
    have hb : bestOfGroup (e₁ g) = bestOfGroup (e₂ g) :=
      bestOfGroup_perm (fun a ha b hb => inj g hg a ((h₁ g).mem_iff.mp ha) b ((h₁ g).mem_iff.mp hb)) hp
    rw [hb]
    cases bestOfGroup (e₂ g) with
    | none => exact Iff.rfl
    | some best => exact ((hp.filter _).map _).mem_iff
  constructor
  · rintro ⟨g, hg, hu⟩; exact ⟨g, hg, (key g hg).mp hu⟩
  · rintro ⟨g, hg, hu⟩; exact ⟨g, hg, (key g hg).mpr hu⟩

theorem filterPassE_same {e₁ e₂ : List FHit → List FHit} (h₁ : Enumerates e₁) (h₂ : Enumerates e₂)
    (hits : List FHit) (hu : UidInj hits) (eq : List Int) : filterPassE e₁ hits eq = filterPassE e₂ hits eq := by
  simp only [filterPassE]
  split
  · rfl
  · apply List.filter_congr
    intro h _
    have inj : ∀ g ∈ overlappingGroups hits, ∀ a ∈ g, ∀ b ∈ g, a.uid = b.uid → a = b :=
      fun g hg a ha b hb => hu a (overlappingGroups_within hits g hg a ha) b (overlappingGroups_within hits g hg b hb)
    congr 1
    rw [Bool.eq_iff_iff]
    simp only [List.contains_iff_mem]
    exact removedByE_mem_iff h₁ h₂ inj h.uid

theorem filterPassE_sublist (e : List FHit → List FHit) (hits : List FHit) (eq : List Int) :
    (filterPassE e hits eq).Sublist hits := by
  simp only [filterPassE]
  split
  · exact List.Sublist.refl _
  · exact List.filter_sublist

theorem foldl_filterPassE_same {e₁ e₂ : List FHit → List FHit} (h₁ : Enumerates e₁) (h₂ : Enumerates e₂) :
    ∀ (eqs : List (List Int)) (hits : List FHit), UidInj hits →
      eqs.foldl (filterPassE e₁) hits = eqs.foldl (filterPassE e₂) hits
  | [], _, _ => rfl
  | eq :: eqs, hits, hu => by
    simp only [List.foldl_cons, filterPassE_same h₁ h₂ hits hu eq]
    exact foldl_filterPassE_same h₁ h₂ eqs _ (hu.sublist (filterPassE_sublist e₂ hits eq))

/-! ### `refine_hmmscan_results`, all genes -/

theorem refine_perm (env : Env) (nb : Bool) {l₁ l₂ : List Hit} (h : l₁.Perm l₂) : refine env nb l₁ = refine env nb l₂ := by
  simp only [refine, beforeIncomplete, sortHits_eq_of_same_set (fun _ => h.mem_iff)]

theorem refineAll_same (env : Env) (nb : Bool) : ∀ {g₁ g₂ : List (Int × List Hit)}, SameDictOfSets g₁ g₂ →
    refineAll env nb g₁ = refineAll env nb g₂
  | _, _, .nil => rfl
  | _, _, .cons (a := a) (b := b) h t => by
    have ih := refineAll_same env nb t
    simp only [refineAll] at ih ⊢
    simp only [List.filterMap_cons, h.1, refine_perm env nb h.2, ih]

/-! ### writing a record -/

/-- qualifier keys are unique (a dict) and the notes are kept outside the dict -/
def QualsWF (f : Feat) : Prop := (f.quals.map (·.1)).Nodup ∧ noteKey ∉ f.quals.map (·.1)

/-- the same feature with its qualifier dict filled in another order and its notes collected in
    another order -/
def SameFeature (f f' : Feat) : Prop :=
  f.start = f'.start ∧ f.len = f'.len ∧ f.source = f'.source ∧ f.quals.Perm f'.quals ∧ f.notes.Perm f'.notes ∧
  QualsWF f

theorem emitQuals_same {q q' : List (Int × List Int)} {n n' : List Int} (hq : q.Perm q') (hn : n.Perm n')
    (hk : (q.map (·.1)).Nodup) (hnote : noteKey ∉ q.map (·.1)) : emitQuals q n = emitQuals q' n' := by
  have hinj : ∀ (l : List (Int × List Int)), (l.map (·.1)).Nodup → ∀ a ∈ l, ∀ b ∈ l, a.1 = b.1 → a = b := by
    intro l
    induction l with
    | nil => intro _ a ha; simp at ha
    | cons x t ih =>
      intro hl a ha b hb hab
      simp only [List.map_cons, List.nodup_cons, List.mem_map, not_exists, not_and] at hl
      rcases List.mem_cons.mp ha with ha' | ha' <;> rcases List.mem_cons.mp hb with hb' | hb'
      · rw [ha', hb']
      · subst ha'; exact absurd hab.symm (hl.1 b hb')
      · subst hb'; exact absurd hab (hl.1 a ha')
      · exact ih hl.2 a ha' b hb' hab
  have he : n.isEmpty = n'.isEmpty := by
    rw [Bool.eq_iff_iff, List.isEmpty_iff, List.isEmpty_iff]
    constructor
    · rintro rfl; exact hn.symm.eq_nil
    · rintro rfl; exact hn.eq_nil
  simp only [emitQuals, ← he, sortedNames_perm hn.symm]
  split
  · exact sortBy_key_eq_of_perm (fun x : Int × List Int => x.1) leInt_total leInt_trans leInt_antisymm (hinj q hk) hq
  · apply sortBy_key_eq_of_perm (fun x : Int × List Int => x.1) leInt_total leInt_trans leInt_antisymm
    · apply hinj
      simp only [List.map_cons, List.nodup_cons]
      exact ⟨hnote, hk⟩
    · exact hq.cons _

theorem emitFeature_same {f f' : Feat} (h : SameFeature f f') : emitFeature f = emitFeature f' := by
  obtain ⟨h1, h2, h3, h4, h5, h6, h7⟩ := h
  simp only [emitFeature, h1, h2, h3, emitQuals_same h4 h5 h6 h7]

theorem featBefore_same {a a' b b' : Feat} (ha : SameFeature a a') (hb : SameFeature b b') :
    featBefore a b = featBefore a' b' := by
  obtain ⟨a1, a2, a3, _⟩ := ha
  obtain ⟨b1, b2, b3, _⟩ := hb
  simp only [featBefore, featLt, a1, a2, b1, b2, b3]

theorem writeRecord_same {g₁ g₂ : List (List Feat)} (h : Pointwise (Pointwise SameFeature) g₁ g₂) :
    writeRecord g₁ = writeRecord g₂ := by
  simp only [writeRecord]
  exact map_eq_of_forall₂ (fun a b hab => emitFeature_same hab)
    (sortBy_forall₂ (R := SameFeature) (fun a a' b b' ha hb => featBefore_same ha hb) (flatten_forall₂ h))

/-! ### `get_unique_protoclusters`: the key separates whatever the fields separate -/

/-- no two members agree on start, length, product and core -/
def FieldsInj (l : List Proto) : Prop :=
  ∀ a ∈ l, ∀ b ∈ l, a.start = b.start → a.len = b.len → a.product = b.product → a.coreStart = b.coreStart →
    a.coreEnd = b.coreEnd → a = b

theorem keyInj_of_fieldsInj {cross : Bool} {L : Int} {l : List Proto} (h : FieldsInj l)
    (hr : cross = true → ∀ p ∈ l, 0 ≤ p.start ∧ p.start < L) : KeyInj cross L l := by
  intro a ha b hb hk
  apply h a ha b hb
  all_goals
    simp only [protoKey] at hk
    cases cross with
    | false => simp at hk; omega
    | true =>
      have ra := hr rfl a ha
      have rb := hr rfl b hb
      by_cases h1 : 2 * a.start < L <;> by_cases h2 : 2 * b.start < L <;>
        simp [h1, h2] at hk <;> omega

/-! ### `_merge_domain_list`: the walk over the profiles -/

theorem mergeDomainListE_eq_of_perm {e₁ e₂ : List Int → List Int} (h₁ : ∀ l, (e₁ l).Perm l) (h₂ : ∀ l, (e₂ l).Perm l)
    (env : Env) (domains : List Hit)
    (hd : ∀ a ∈ (firstOcc (domains.map (·.prof))).flatMap (mergedOfProfile env domains),
          ∀ b ∈ (firstOcc (domains.map (·.prof))).flatMap (mergedOfProfile env domains), a.qs = b.qs → a = b) :
    mergeDomainListE e₁ env domains = mergeDomainListE e₂ env domains := by
  unfold mergeDomainListE
  have hp₁ := (h₁ (firstOcc (domains.map (·.prof)))).flatMap_right (mergedOfProfile env domains)
  have hp₂ := (h₂ (firstOcc (domains.map (·.prof)))).flatMap_right (mergedOfProfile env domains)
  apply sortBy_eq_of_perm_on Hit.leStart_total Hit.leStart_trans
  · intro a ha b hb hab hba
    apply hd a (hp₁.mem_iff.1 ha) b (hp₁.mem_iff.1 hb)
    simp only [Hit.leStart, decide_eq_true_eq] at hab hba
    omega
  · exact hp₁.trans hp₂.symm

/-! ### `build_results`: the set of annotated genes is asked for membership only -/

theorem outsideGo_congr (hasDomains : Int → Bool) : ∀ (sub a₁ a₂ acc : List Int), (∀ x, x ∈ a₁ ↔ x ∈ a₂) →
    (outsideGo hasDomains a₁ acc sub).2 = (outsideGo hasDomains a₂ acc sub).2 ∧
    (∀ x, x ∈ (outsideGo hasDomains a₁ acc sub).1 ↔ x ∈ (outsideGo hasDomains a₂ acc sub).1)
  | [], a₁, a₂, acc, h => ⟨rfl, h⟩
  | cds :: rest, a₁, a₂, acc, h => by
    have hc : a₁.contains cds = a₂.contains cds := by
      rw [Bool.eq_iff_iff]; simp only [List.contains_iff_mem]; exact h cds
    simp only [outsideGo, hc]
    split
    · exact outsideGo_congr hasDomains rest a₁ a₂ acc h
    · split
      · apply outsideGo_congr hasDomains rest
        intro x
        simp only [List.mem_append, h x]
      · exact outsideGo_congr hasDomains rest a₁ a₂ acc h

theorem outsideResults_congr (hasDomains : Int → Bool) (subs : List (List Int)) {a₁ a₂ : List Int}
    (h : ∀ x, x ∈ a₁ ↔ x ∈ a₂) : outsideResults hasDomains a₁ subs = outsideResults hasDomains a₂ subs := by
  unfold outsideResults
  suffices H : ∀ (subs : List (List Int)) (s₁ s₂ : List Int × List Int), s₁.2 = s₂.2 → (∀ x, x ∈ s₁.1 ↔ x ∈ s₂.1) →
      (subs.foldl (fun st sub => outsideGo hasDomains st.1 st.2 sub) s₁).2 =
      (subs.foldl (fun st sub => outsideGo hasDomains st.1 st.2 sub) s₂).2 from H subs _ _ rfl h
  intro subs
  induction subs with
  | nil => intro s₁ s₂ e _; exact e
  | cons sub rest ih =>
    intro s₁ s₂ e hm
    simp only [List.foldl_cons]
    have := outsideGo_congr hasDomains sub s₁.1 s₂.1 s₁.2 hm
    apply ih
    · rw [this.1, e]
    · rw [← e]; exact this.2

/-! ### `--sideload-by-cds`: one subregion per known tag, in the order of the tags -/

theorem byCdsArea_label (circular : Bool) (L pad : Int) (g : Int × Int) (n : Int) : (byCdsArea circular L pad g n).2.2 = n := by
  unfold byCdsArea; split <;> rfl

theorem subregionsByCds_labels (circular : Bool) (L pad : Int) (lookup : Int → Option (Int × Int)) (markers : List Int) :
    (subregionsByCds circular L pad lookup markers).map (·.2.2) = markers.filter fun n => (lookup n).isSome := by
  induction markers with
  | nil => rfl
  | cons n rest ih =>
    unfold subregionsByCds at ih ⊢
    cases hl : lookup n with
    | none => simp only [List.filterMap_cons, hl, Option.map_none, List.filter_cons, Option.isSome_none]; exact ih
    | some g =>
      simp only [List.filterMap_cons, hl, Option.map_some, List.map_cons, byCdsArea_label, List.filter_cons,
        Option.isSome_some, if_true, ih]

/-! ### `get_ruleset`: the option sets are asked for membership only -/

theorem isEmpty_eq_of_same_members {a₁ a₂ : List Int} (h : ∀ x, x ∈ a₁ ↔ x ∈ a₂) : a₁.isEmpty = a₂.isEmpty := by
  cases a₁ with
  | nil => cases a₂ with
    | nil => rfl
    | cons b t => exact absurd ((h b).2 (by simp)) (by simp)
  | cons a t => cases a₂ with
    | nil => exact absurd ((h a).1 (by simp)) (by simp)
    | cons b u => rfl

theorem restrictRules_congr (rules : List (Int × Int)) {n₁ n₂ c₁ c₂ : List Int} (hn : ∀ x, x ∈ n₁ ↔ x ∈ n₂)
    (hc : ∀ x, x ∈ c₁ ↔ x ∈ c₂) : restrictRules rules n₁ c₁ = restrictRules rules n₂ c₂ := by
  have e1 : ∀ x, n₁.contains x = n₂.contains x := fun x => by
    rw [Bool.eq_iff_iff]; simp only [List.contains_iff_mem]; exact hn x
  have e2 : ∀ x, c₁.contains x = c₂.contains x := fun x => by
    rw [Bool.eq_iff_iff]; simp only [List.contains_iff_mem]; exact hc x
  simp only [restrictRules, isEmpty_eq_of_same_members hn, isEmpty_eq_of_same_members hc, e1, e2]

theorem restrictRules_sublist (rules : List (Int × Int)) (n c : List Int) : (restrictRules rules n c).Sublist rules := by
  unfold restrictRules
  have h1 : (if n.isEmpty then rules else rules.filter fun r => n.contains r.1).Sublist rules := by
    split
    · exact List.Sublist.refl _
    · exact List.filter_sublist
  simp only
  split
  · exact h1
  · exact List.filter_sublist.trans h1

/-! ### before D1705: the first maximum in the set's own iteration order -/

theorem bestIn_ge : ∀ (b : FHit) (l : List FHit), ∀ o ∈ b :: l, o.sc ≤ (bestIn b l).sc
  | b, [], o, ho => by simp at ho; simp [bestIn, ho]
  | b, h :: t, o, ho => by
    simp only [bestIn]
    split
    · rename_i hgt
      rcases List.mem_cons.mp ho with rfl | ho'
      · have := bestIn_ge h t h (by simp); omega
      · exact bestIn_ge h t o ho'
    · rename_i hle
      rcases List.mem_cons.mp ho with rfl | ho'
      · exact bestIn_ge o t o (by simp)
      · rcases List.mem_cons.mp ho' with rfl | ho''
        · have := bestIn_ge b t b (by simp); omega
        · exact bestIn_ge b t o (List.mem_cons_of_mem _ ho'')

/-- no two different members of the group have the same bitscore -/
def NoScoreTies (l : List FHit) : Prop := ∀ a ∈ l, ∀ b ∈ l, a.sc = b.sc → a = b

theorem groupBest_perm_of_no_ties {l₁ l₂ : List FHit} (hn : NoScoreTies l₁) (h : l₁.Perm l₂) :
    groupBest l₁ = groupBest l₂ := by
  cases l₁ with
  | nil => rw [h.symm.eq_nil]
  | cons b₁ t₁ =>
    cases l₂ with
    | nil => exact absurd h.eq_nil (by simp)
    | cons b₂ t₂ =>
      simp only [groupBest, Option.some.injEq]
      have hmem := bestIn_mem b₁ t₁
      have hmax : ∀ o ∈ b₁ :: t₁, o ≠ bestIn b₁ t₁ → o.sc < (bestIn b₁ t₁).sc := by
        intro o ho hne
        have h1 := bestIn_ge b₁ t₁ o ho
        have h2 : o.sc ≠ (bestIn b₁ t₁).sc := fun e => hne (hn o ho _ hmem e)
        omega
      exact (bestIn_strict_max (bestIn b₁ t₁) b₂ t₂ (h.mem_iff.mp hmem)
        (fun o ho hne => hmax o (h.mem_iff.mpr ho) hne)).symm

end ASV.Determinism
