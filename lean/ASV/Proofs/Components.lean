/-
  C03: the executable chain computation of the spec (`Chains.components`) produces a chain
  partition, and chain partitions are unique — so the groups the theorems speak about are the groups
  the driver computes.
-/
import ASV.Proofs.ChainLinked
namespace ASV.Chains
open ASV

variable {α : Type}

def AllLinked (rel : α → α → Prop) (g : List α) : Prop := ∀ a ∈ g, ∀ b ∈ g, Linked rel g a b

theorem AllLinked.append {rel : α → α → Prop} {grp inn : List α} (h : AllLinked rel grp)
    (hin : ∀ x ∈ inn, ∃ m ∈ grp, rel m x ∨ rel x m) : AllLinked rel (grp ++ inn) := by
  have hsub : ∀ x ∈ grp, x ∈ grp ++ inn := fun x hx => by simp [hx]
  -- every element is linked to a member of the old group
  have toOld : ∀ a ∈ grp ++ inn, ∃ m ∈ grp, Linked rel (grp ++ inn) m a := by
    intro a ha
    simp only [List.mem_append] at ha
    rcases ha with ha | ha
    · exact ⟨a, ha, Linked.refl (hsub a ha)⟩
    · obtain ⟨m, hm, hr⟩ := hin a ha
      exact ⟨m, hm, Linked.step (Linked.refl (hsub m hm)) (by simp [ha]) hr⟩
  intro a ha b hb
  obtain ⟨m, hm, hma⟩ := toOld a ha
  obtain ⟨n, hn, hnb⟩ := toOld b hb
  exact (hma.symm.trans ((h m hm n hn).mono hsub)).trans hnb

section grow
variable (s : α → α → Bool)

theorem grow_perm : ∀ (n : Nat) (grp rest : List α),
    ((grow s n grp rest).1 ++ (grow s n grp rest).2).Perm (grp ++ rest)
  | 0, grp, rest => by simp [grow]
  | n + 1, grp, rest => by
    simp only [grow]
    split
    · exact List.Perm.refl _
    · refine (grow_perm n _ _).trans ?_
      rw [List.append_assoc]
      refine List.Perm.append_left grp ?_
      have := List.filter_append_perm (fun x => grp.any fun m => s m x) rest
      simpa using this

theorem grow_length : ∀ (n : Nat) (grp rest : List α), (grow s n grp rest).2.length ≤ rest.length
  | 0, grp, rest => by simp [grow]
  | n + 1, grp, rest => by
    simp only [grow]
    split
    · exact Nat.le_refl _
    · exact Nat.le_trans (grow_length n _ _) (List.length_filter_le _ _)

theorem grow_sub : ∀ (n : Nat) (grp rest : List α), ∀ x ∈ grp, x ∈ (grow s n grp rest).1
  | 0, grp, rest => by simp [grow]
  | n + 1, grp, rest => by
    intro x hx
    simp only [grow]
    split
    · exact hx
    · exact grow_sub n _ _ x (by simp [hx])

theorem grow_linked : ∀ (n : Nat) (grp rest : List α),
    AllLinked (fun a b => s a b = true) grp → AllLinked (fun a b => s a b = true) (grow s n grp rest).1
  | 0, grp, rest => by simp [grow]
  | n + 1, grp, rest => by
    intro h
    simp only [grow]
    split
    · exact h
    · refine grow_linked n _ _ (h.append ?_)
      intro x hx
      simp only [List.mem_filter, List.any_eq_true] at hx
      obtain ⟨_, m, hm, hr⟩ := hx
      exact ⟨m, hm, Or.inl hr⟩

/-- with enough fuel nothing left over is related to a member of the group -/
theorem grow_closed : ∀ (n : Nat) (grp rest : List α), rest.length ≤ n →
    ∀ a ∈ (grow s n grp rest).1, ∀ b ∈ (grow s n grp rest).2, s a b = false
  | 0, grp, rest => by
    intro hn a _ b hb
    have : rest = [] := List.eq_nil_of_length_eq_zero (by omega)
    subst this
    simp [grow] at hb
  | n + 1, grp, rest => by
    intro hn
    simp only [grow]
    split
    · next hemp =>
      intro a ha b hb
      have : b ∉ rest.filter fun x => grp.any fun m => s m x := by
        rw [List.isEmpty_iff.1 hemp]; simp
      simp only [List.mem_filter, hb, true_and, List.any_eq_true, not_exists, not_and] at this
      cases h : s a b
      · rfl
      · exact absurd h (this a ha)
    · next hne =>
      refine grow_closed n _ _ ?_
      have hlt : (rest.filter fun x => !(grp.any fun m => s m x)).length < rest.length := by
        have hp := List.filter_append_perm (fun x => grp.any fun m => s m x) rest
        have hl := hp.length_eq
        simp only [List.length_append] at hl
        have : 0 < (rest.filter fun x => grp.any fun m => s m x).length := by
          cases hfl : (rest.filter fun x => grp.any fun m => s m x) with
          | nil => rw [hfl] at hne; simp at hne
          | cons _ _ => simp
        omega
      omega

end grow

section comps
variable (s : α → α → Bool)

theorem comps_perm : ∀ (n : Nat) (xs : List α), xs.length ≤ n → (comps s n xs).flatten.Perm xs
  | 0, xs => by
    intro h
    have : xs = [] := List.eq_nil_of_length_eq_zero (by omega)
    subst this; simp [comps]
  | n + 1, [] => by intro _; simp [comps]
  | n + 1, x :: xs => by
    intro h
    simp only [comps, List.flatten_cons]
    have h1 := grow_perm s xs.length [x] xs
    have h2 := grow_length s xs.length [x] xs
    have h3 := comps_perm n (grow s xs.length [x] xs).2 (by simp at h; omega)
    exact (List.Perm.append_left _ h3).trans (by simpa using h1)

theorem comps_nonempty : ∀ (n : Nat) (xs : List α), ∀ g ∈ comps s n xs, g ≠ []
  | 0, xs => by simp [comps]
  | n + 1, [] => by simp [comps]
  | n + 1, x :: xs => by
    intro g hg
    simp only [comps, List.mem_cons] at hg
    rcases hg with rfl | hg
    · intro e
      have := grow_sub s xs.length [x] xs x (by simp)
      rw [e] at this; cases this
    · exact comps_nonempty n _ g hg

theorem comps_linked : ∀ (n : Nat) (xs : List α), ∀ g ∈ comps s n xs, AllLinked (fun a b => s a b = true) g
  | 0, xs => by simp [comps]
  | n + 1, [] => by simp [comps]
  | n + 1, x :: xs => by
    intro g hg
    simp only [comps, List.mem_cons] at hg
    rcases hg with rfl | hg
    · refine grow_linked s _ _ _ ?_
      intro a ha b hb
      simp at ha hb; subst ha; subst hb
      exact Linked.refl (by simp)
    · exact comps_linked n _ g hg

theorem comps_separated : ∀ (n : Nat) (xs : List α), xs.length ≤ n →
    ∀ gs₁ g gs₂, comps s n xs = gs₁ ++ g :: gs₂ → ∀ a ∈ g, ∀ g' ∈ gs₂, ∀ b ∈ g', s a b = false
  | 0, xs => by intro _ gs₁ g gs₂ h; simp [comps] at h
  | n + 1, [] => by intro _ gs₁ g gs₂ h; simp [comps] at h
  | n + 1, x :: xs => by
    intro hn gs₁ g gs₂ h
    simp only [comps] at h
    have hlen := grow_length s xs.length [x] xs
    have hn' : (grow s xs.length [x] xs).2.length ≤ n := by simp at hn; omega
    cases gs₁ with
    | nil =>
      simp only [List.nil_append, List.cons.injEq] at h
      obtain ⟨rfl, hrest⟩ := h
      intro a ha g' hg' b hb
      have hb2 : b ∈ (grow s xs.length [x] xs).2 := by
        rw [← (comps_perm s n _ hn').mem_iff, hrest]
        simp only [List.mem_flatten]
        exact ⟨g', hg', hb⟩
      exact grow_closed s xs.length [x] xs (Nat.le_refl _) a ha b hb2
    | cons g₀ t =>
      simp only [List.cons_append, List.cons.injEq] at h
      exact comps_separated n _ hn' t g gs₂ h.2

end comps

/-- the executable `components` computes a chain partition -/
theorem components_isChainPartition (rel : α → α → Bool) (xs : List α) :
    IsChainPartition (fun a b => rel a b = true) xs (components rel xs) := by
  refine ⟨comps_perm _ _ _ (Nat.le_refl _), comps_nonempty _ _ _, ?_, ?_⟩
  · intro g hg a ha b hb
    -- a symmetrised step is a step one way or the other; `Linked` accepts both
    have key : ∀ {a b : α}, Linked (fun a b => (rel a b || rel b a) = true) g a b →
        Linked (fun a b => rel a b = true) g a b := by
      intro a b h
      induction h with
      | refl ha => exact Linked.refl ha
      | step _ hc hr ih =>
        refine Linked.step ih hc ?_
        simp only [Bool.or_eq_true] at hr
        rcases hr with (h | h) | (h | h)
        · exact Or.inl h
        · exact Or.inr h
        · exact Or.inr h
        · exact Or.inl h
    exact key (comps_linked _ _ _ g hg a ha b hb)
  · intro gs₁ g gs₂ h a ha g' hg' b hb
    have := comps_separated _ _ _ (Nat.le_refl _) gs₁ g gs₂ h a ha g' hg' b hb
    simp only [Bool.or_eq_false_iff] at this
    exact ⟨by simp [this.1], by simp [this.2]⟩

/-! ### chain partitions are unique -/

/-- in a chain partition, two members of different positions are not related; hence a step out of a
    group's member stays in that group -/
theorem IsChainPartition.step_stays {rel : α → α → Prop} {xs : List α} {G : List (List α)}
    (h : IsChainPartition rel xs G) (gs₁ : List (List α)) (g : List α) (gs₂ : List (List α))
    (hsplit : G = gs₁ ++ g :: gs₂) (b c : α) (hb : b ∈ g) (hc : c ∈ xs) (hr : rel b c ∨ rel c b) : c ∈ g := by
  have hc' : c ∈ G.flatten := h.perm.mem_iff.2 hc
  rw [hsplit] at hc'
  simp only [List.flatten_append, List.flatten_cons, List.mem_append] at hc'
  rcases hc' with hc1 | hc2 | hc3
  · -- c in an earlier group: that group is separated from g
    simp only [List.mem_flatten] at hc1
    obtain ⟨k, hk, hck⟩ := hc1
    obtain ⟨t₁, t₂, rfl⟩ := List.append_of_mem hk
    have hs := h.separated t₁ k (t₂ ++ g :: gs₂) (by rw [hsplit]; simp) c hck g (by simp) b hb
    rcases hr with hr | hr
    · exact absurd hr hs.2
    · exact absurd hr hs.1
  · exact hc2
  · simp only [List.mem_flatten] at hc3
    obtain ⟨k, hk, hck⟩ := hc3
    have hs := h.separated gs₁ g gs₂ hsplit b hb k hk c hck
    rcases hr with hr | hr
    · exact absurd hr hs.1
    · exact absurd hr hs.2

theorem IsChainPartition.linked_stays {rel : α → α → Prop} {xs : List α} {G : List (List α)}
    (h : IsChainPartition rel xs G) (gs₁ : List (List α)) (g : List α) (gs₂ : List (List α))
    (hsplit : G = gs₁ ++ g :: gs₂) (k : List α) (hk : ∀ x ∈ k, x ∈ xs) (a b : α) (ha : a ∈ g)
    (hl : Linked rel k a b) : b ∈ g := by
  induction hl with
  | refl _ => exact ha
  | step _ hc hr ih => exact h.step_stays gs₁ g gs₂ hsplit _ _ ih (hk _ hc) hr

/-- two chain partitions of the same list have the same groups (as sets of members) -/
theorem chain_partition_unique {rel : α → α → Prop} {xs : List α} {G G' : List (List α)}
    (h : IsChainPartition rel xs G) (h' : IsChainPartition rel xs G') :
    ∀ g ∈ G, ∃ g' ∈ G', ∀ x, x ∈ g ↔ x ∈ g' := by
  intro g hg
  have hmem : ∀ {H : List (List α)}, IsChainPartition rel xs H → ∀ k ∈ H, ∀ x ∈ k, x ∈ xs := by
    intro H hH k hk x hx
    rw [← hH.perm.mem_iff]
    simp only [List.mem_flatten]
    exact ⟨k, hk, hx⟩
  obtain ⟨a, ha⟩ := List.exists_mem_of_ne_nil g (h.nonempty g hg)
  have ha' : a ∈ G'.flatten := h'.perm.mem_iff.2 (hmem h g hg a ha)
  simp only [List.mem_flatten] at ha'
  obtain ⟨g', hg', hag'⟩ := ha'
  obtain ⟨s₁, s₂, hs⟩ := List.append_of_mem hg'
  obtain ⟨t₁, t₂, ht⟩ := List.append_of_mem hg
  refine ⟨g', hg', fun x => ⟨fun hx => ?_, fun hx => ?_⟩⟩
  · exact h'.linked_stays s₁ g' s₂ hs g (hmem h g hg) a x hag' (h.linked g hg a ha x hx)
  · exact h.linked_stays t₁ g t₂ ht g' (hmem h' g' hg') a x ha (h'.linked g' hg' a hag' x hx)

end ASV.Chains
