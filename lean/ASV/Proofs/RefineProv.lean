/-
  Helper lemmas for C13: every refined hit is an input hit or the span of close same-profile
  input fragments.
-/
import ASV.Proofs.RefineOrder
namespace ASV.Refine

/-- `isMergeOf` unfolded into a `Prop` -/
structure IsMerge (env : Env) (F : List Hit) (o : Hit) : Prop where
  prof : ∀ f ∈ F, f.prof = o.prof
  lo : ∀ f ∈ F, o.qs ≤ f.qs
  hi : ∀ f ∈ F, f.qe ≤ o.qe
  ev : ∀ f ∈ F, o.ev ≤ f.ev
  sc : ∀ f ∈ F, f.sc ≤ o.sc
  hiAtt : ∃ f ∈ F, f.qe = o.qe
  evAtt : ∃ f ∈ F, f.ev = o.ev
  scAtt : ∃ f ∈ F, f.sc = o.sc
  first : ∃ f₀ rest, F = f₀ :: rest ∧ f₀.qs = o.qs ∧
    ∀ f ∈ rest, 2 * (f.qe - o.qs) < 3 * env.len o.prof

theorem isMergeOf_of (env : Env) {F : List Hit} {o : Hit} (h : IsMerge env F o) : isMergeOf env F o = true := by
  obtain ⟨f₀, rest, hF, hq, hc⟩ := h.first
  obtain ⟨f1, hf1, e1⟩ := h.hiAtt
  obtain ⟨f2, hf2, e2⟩ := h.evAtt
  obtain ⟨f3, hf3, e3⟩ := h.scAtt
  have hall : ∀ f ∈ F, (f.prof == o.prof && decide (o.qs ≤ f.qs) && decide (f.qe ≤ o.qe)
      && decide (o.ev ≤ f.ev) && decide (f.sc ≤ o.sc)) = true := by
    intro f hf
    simp [h.prof f hf, h.lo f hf, h.hi f hf, h.ev f hf, h.sc f hf]
  have hne : F.isEmpty = false := by rw [hF]; rfl
  have a0 : (F.any fun f => f.qs == o.qs) = true :=
    List.any_eq_true.mpr ⟨f₀, by rw [hF]; simp, by simp [hq]⟩
  have a1 : (F.any fun f => f.qe == o.qe) = true := List.any_eq_true.mpr ⟨f1, hf1, by simp [e1]⟩
  have a2 : (F.any fun f => f.ev == o.ev) = true := List.any_eq_true.mpr ⟨f2, hf2, by simp [e2]⟩
  have a3 : (F.any fun f => f.sc == o.sc) = true := List.any_eq_true.mpr ⟨f3, hf3, by simp [e3]⟩
  have hc' : closeEnough env F o = true := by
    rw [hF]
    simp only [closeEnough, Bool.and_eq_true, beq_iff_eq, List.all_eq_true, decide_eq_true_eq]
    exact ⟨hq, hc⟩
  simp only [isMergeOf, isSpanOf, hne, Bool.not_false, List.all_eq_true.mpr hall, a0, a1, a2, a3, hc',
    Bool.and_self]

theorem IsMerge.single (env : Env) (o : Hit) : IsMerge env [o] o := by
  refine ⟨?_, ?_, ?_, ?_, ?_, ⟨o, by simp, rfl⟩, ⟨o, by simp, rfl⟩, ⟨o, by simp, rfl⟩, ⟨o, [], rfl, rfl, by simp⟩⟩ <;>
    intro f hf <;> simp at hf <;> subst hf <;> simp

theorem IsMerge.snoc {env : Env} {F : List Hit} {m o : Hit} (h : IsMerge env F m)
    (hq : m.qs ≤ o.qs) (hp : o.prof = m.prof) (hc : 2 * (o.qe - m.qs) < 3 * env.len m.prof) :
    IsMerge env (F ++ [o]) (m.merge o) := by
  have eqs : (m.merge o).qs = m.qs := merge_qs_of_le hq
  have epr : (m.merge o).prof = m.prof := rfl
  obtain ⟨f₀, rest, hF, hq0, hcl⟩ := h.first
  refine ⟨?_, ?_, ?_, ?_, ?_, ?_, ?_, ?_, ?_⟩
  · intro f hf
    rcases List.mem_append.mp hf with hf | hf
    · exact h.prof f hf
    · simp at hf; subst hf; exact hp
  · intro f hf
    rw [eqs]
    rcases List.mem_append.mp hf with hf | hf
    · exact h.lo f hf
    · simp at hf; subst hf; exact hq
  · intro f hf
    simp only [Hit.merge]
    rcases List.mem_append.mp hf with hf | hf
    · have := h.hi f hf; omega
    · simp at hf; subst hf; omega
  · intro f hf
    simp only [Hit.merge]
    rcases List.mem_append.mp hf with hf | hf
    · have := h.ev f hf; omega
    · simp at hf; subst hf; omega
  · intro f hf
    simp only [Hit.merge]
    rcases List.mem_append.mp hf with hf | hf
    · have := h.sc f hf; omega
    · simp at hf; subst hf; omega
  · obtain ⟨f, hf, e⟩ := h.hiAtt
    by_cases hle : o.qe ≤ m.qe
    · exact ⟨f, List.mem_append_left _ hf, by simp only [Hit.merge]; omega⟩
    · exact ⟨o, by simp, by simp only [Hit.merge]; omega⟩
  · obtain ⟨f, hf, e⟩ := h.evAtt
    by_cases hle : m.ev ≤ o.ev
    · exact ⟨f, List.mem_append_left _ hf, by simp only [Hit.merge]; omega⟩
    · exact ⟨o, by simp, by simp only [Hit.merge]; omega⟩
  · obtain ⟨f, hf, e⟩ := h.scAtt
    by_cases hle : o.sc ≤ m.sc
    · exact ⟨f, List.mem_append_left _ hf, by simp only [Hit.merge]; omega⟩
    · exact ⟨o, by simp, by simp only [Hit.merge]; omega⟩
  · refine ⟨f₀, rest ++ [o], by rw [hF]; rfl, by rw [eqs]; exact hq0, ?_⟩
    intro f hf
    rw [eqs, epr]
    rcases List.mem_append.mp hf with hf | hf
    · exact hcl f hf
    · simp at hf; subst hf; exact hc

/-- provenance of one hit relative to the stage input `l` -/
def FromInput (env : Env) (l : List Hit) (o : Hit) : Prop :=
  ∃ F, (∀ f ∈ F, f ∈ l) ∧ IsMerge env F o

theorem FromInput.of_mem (env : Env) {l : List Hit} {o : Hit} (h : o ∈ l) : FromInput env l o :=
  ⟨[o], by intro f hf; simp at hf; subst hf; exact h, IsMerge.single env o⟩

theorem FromInput.mono {env : Env} {l l' : List Hit} {o : Hit} (h : FromInput env l o)
    (sub : ∀ x ∈ l, x ∈ l') : FromInput env l' o := by
  obtain ⟨F, hF, hm⟩ := h
  exact ⟨F, fun f hf => sub f (hF f hf), hm⟩

theorem mergeImmFrom_from (env : Env) (l : List Hit) : ∀ (last : Hit) (rest F : List Hit),
    IsMerge env F last → (∀ f ∈ F, f ∈ l) → (∀ r ∈ rest, r ∈ l) → Sorted (last :: rest) →
    ∀ o ∈ mergeImmFrom env last rest, FromInput env l o
  | last, [], F, hm, hF, _, _ => by
    intro o ho
    simp [mergeImmFrom] at ho
    subst ho
    exact ⟨F, hF, hm⟩
  | last, d :: rest, F, hm, hF, hr, hs => by
    have hsp := List.pairwise_cons.mp hs
    have hld : last.qs ≤ d.qs := hsp.1 d (by simp)
    have hd : d ∈ l := hr d (by simp)
    have hrest : ∀ r ∈ rest, r ∈ l := fun r h => hr r (List.mem_cons_of_mem _ h)
    have keep : ∀ o ∈ last :: mergeImmFrom env d rest, FromInput env l o := by
      intro o ho
      rcases List.mem_cons.mp ho with rfl | ho
      · exact ⟨F, hF, hm⟩
      · exact mergeImmFrom_from env l d rest [d] (IsMerge.single env d)
          (by intro f hf; simp at hf; subst hf; exact hd) hrest hsp.2 o ho
    simp only [mergeImmFrom]
    split
    · exact keep
    · rename_i hpe
      have hpe' : d.prof = last.prof := by simpa using hpe
      split
      · rename_i hc
        refine mergeImmFrom_from env l (last.merge d) rest (F ++ [d])
          (hm.snoc hld hpe' (by rw [← hpe']; exact hc)) ?_ hrest ?_
        · intro f hf
          rcases List.mem_append.mp hf with hf | hf
          · exact hF f hf
          · simp at hf; subst hf; exact hd
        · refine List.Pairwise.cons ?_ (List.pairwise_cons.mp hsp.2).2
          intro x hx
          rw [merge_qs_of_le hld]
          exact hsp.1 x (List.mem_cons_of_mem _ hx)
      · exact keep

/-- on the fragments of one profile `_merge_domain_list`'s inner loop is the neighbour merge -/
theorem mergeCat_eq_mergeImmFrom (env : Env) (p : Int) : ∀ (m : Hit) (rest : List Hit),
    m.prof = p → (∀ r ∈ rest, r.prof = p) → mergeCat (3 * env.len p) m rest = mergeImmFrom env m rest
  | m, [], _, _ => by simp [mergeCat, mergeImmFrom]
  | m, o :: rest, hm, hr => by
    have ho : o.prof = p := hr o (by simp)
    have hrest : ∀ r ∈ rest, r.prof = p := fun r h => hr r (List.mem_cons_of_mem _ h)
    have hne : (o.prof != m.prof) = false := by simp [ho, hm]
    simp only [mergeCat, mergeImmFrom, hne, Bool.false_eq_true, if_false]
    rw [ho]
    split
    · exact mergeCat_eq_mergeImmFrom env p (m.merge o) rest hm hrest
    · rw [mergeCat_eq_mergeImmFrom env p o rest ho hrest]

theorem mem_firstOcc : ∀ {ps : List Int} {p : Int}, p ∈ firstOcc ps ↔ p ∈ ps
  | [], p => by simp [firstOcc]
  | q :: ps, p => by
    simp only [firstOcc, List.mem_cons, List.mem_filter, mem_firstOcc (ps := ps)]
    by_cases h : p = q
    · simp [h]
    · simp [h]

/-- the hits `_merge_domain_list` appends for the category of profile `p` -/
theorem mem_mergeDomainList {env : Env} {l : List Hit} {o : Hit} :
    o ∈ mergeDomainList env l ↔ ∃ h t, (∃ p, l.filter (fun d => d.prof == p) = h :: t) ∧ o ∈ mergeImmFrom env h t := by
  unfold mergeDomainList
  rw [mem_sortBy, List.mem_flatMap]
  constructor
  · rintro ⟨p, _, hp⟩
    split at hp
    · simp at hp
    · rename_i h t hfil
      have hmem : ∀ x ∈ h :: t, x.prof = p := by
        intro x hx
        rw [← hfil, List.mem_filter] at hx
        simpa using hx.2
      rw [mergeCat_eq_mergeImmFrom env h.prof h t rfl
        (fun r hr => by rw [hmem r (List.mem_cons_of_mem _ hr), hmem h (by simp)])] at hp
      exact ⟨h, t, ⟨p, hfil⟩, hp⟩
  · rintro ⟨h, t, ⟨p, hfil⟩, ho⟩
    have hmem : ∀ x ∈ h :: t, x ∈ l ∧ x.prof = p := by
      intro x hx
      rw [← hfil, List.mem_filter] at hx
      exact ⟨hx.1, by simpa using hx.2⟩
    have hh := hmem h (by simp)
    refine ⟨p, ?_, ?_⟩
    · rw [mem_firstOcc, List.mem_map]; exact ⟨h, hh.1, hh.2⟩
    · rw [hfil]
      simp only
      rw [mergeCat_eq_mergeImmFrom env h.prof h t rfl
        (fun r hr => by rw [(hmem r (List.mem_cons_of_mem _ hr)).2, hh.2])]
      exact ho

theorem mergeDomainList_from (env : Env) {l : List Hit} (hs : Sorted l) :
    ∀ o ∈ mergeDomainList env l, FromInput env l o := by
  intro o ho
  obtain ⟨h, t, ⟨p, hfil⟩, ho⟩ := mem_mergeDomainList.mp ho
  have hsub : (h :: t).Sublist l := by rw [← hfil]; exact List.filter_sublist
  exact mergeImmFrom_from env l h t [h] (IsMerge.single env h)
    (by intro f hf; simp at hf; subst hf; exact hsub.subset (by simp))
    (fun r hr => hsub.subset (List.mem_cons_of_mem _ hr)) (hs.sublist hsub) o ho

theorem mergeImmediate_from (env : Env) {l : List Hit} (hs : Sorted l) :
    ∀ o ∈ mergeImmediate env l, FromInput env l o := by
  cases l with
  | nil => simp [mergeImmediate, mergeImmediate?]
  | cons a t =>
    simp only [mergeImmediate, mergeImmediate?, Option.getD_some]
    exact mergeImmFrom_from env (a :: t) a t [a] (IsMerge.single env a)
      (by intro f hf; simp at hf; subst hf; simp) (fun r hr => List.mem_cons_of_mem _ hr) hs

theorem refine_from (env : Env) (nb : Bool) (l : List Hit) : ∀ o ∈ refine env nb l, FromInput env l o := by
  intro o ho
  simp only [refine, beforeIncomplete] at ho
  have ho' := (removeIncomplete_sublist env _).subset ho
  have toL : ∀ x ∈ sortHits l, x ∈ l := fun x hx => mem_sortHits.mp hx
  cases nb with
  | true =>
    simp only [if_true] at ho'
    have sub := removeOverlapping_sublist env (sortHits l)
    exact (mergeImmediate_from env ((sortHits_sorted l).sublist sub) o ho').mono
      (fun x hx => toL x (sub.subset hx))
  | false =>
    simp only [Bool.false_eq_true, if_false] at ho'
    have h1 := (removeOverlapping_sublist env _).subset ho'
    exact (mergeDomainList_from env (sortHits_sorted l) o h1).mono toL

end ASV.Refine
