/-
  C10, groundwork for a feature-level CDS theorem (NOT finished: the decode lemma `cdsFromBio_spec` and the theorem
  `bio_roundtrip_cds_partial` are not in the build): lookups of the qualifiers `CDSFeature.to_biopython` writes
  (`get?_cds_mine`), the hypotheses (`Cds.WF`), the sec_met qualifier round trip in the form the reader uses.
-/
import ASV.Model.SerialCds
import ASV.Proofs.SerialModule
import ASV.Proofs.SerialQual
namespace ASV.Serial
open ASV

def cdsPopped : List String :=
  ["protein_id", "locus_tag", "gene", "transl_table", "translation", "product", "sec_met_domain", "gene_functions", "NRPS_PKS"]
def cdsKeys : List String := cdsPopped ++ ["gene_kind"]

def fnsQ (l : List Annot) : Option (List String) := if l.isEmpty then none else some (l.map Annot.toStr)
def kindQ (l : List Annot) : Option (List String) := if l.isEmpty then none else some [(classification l).label]
def smQ (l : List SMDom) : Option (List String) := if l.isEmpty then none else some (l.map SMDom.toStr)

theorem nodup_cds_mine (c : Cds) : Q.Nodup c.mine := by
  unfold Cds.mine
  have h0 : Q.Nodup ([("translation", [c.translation])] : Quals) := by simp [Q.Nodup, Q.keys]
  have h1 := nodup_setOpt h0 "gene" c.gene
  have h2 : Q.Nodup (if c.translTable = 0 then setOpt [("translation", [c.translation])] "gene" c.gene
      else Q.set (setOpt [("translation", [c.translation])] "gene" c.gene) "transl_table" [strOfInt c.translTable]) := by
    split
    · exact h1
    · exact Q.nodup_set h1 _ _
  have h3 := nodup_setOpt (nodup_setOpt (nodup_setOpt h2 "locus_tag" c.locusTag) "protein_id" c.proteinId) "product" (some c.product)
  simp only
  split <;> split <;> first | exact h3 | exact Q.nodup_set h3 _ _ | exact Q.nodup_set (Q.nodup_set h3 _ _) _ _ | exact Q.nodup_set (Q.nodup_set (Q.nodup_set h3 _ _) _ _) _ _

theorem get?_cds_mine (c : Cds) (ht : c.translTable ≠ 0) (k : String) :
    Q.get? c.mine k =
      if k = "sec_met_domain" then smQ c.secMet
      else if k = "gene_kind" then kindQ c.geneFns
      else if k = "gene_functions" then fnsQ c.geneFns
      else if k = "product" then optV (some c.product)
      else if k = "protein_id" then optV c.proteinId
      else if k = "locus_tag" then optV c.locusTag
      else if k = "transl_table" then some [strOfInt c.translTable]
      else if k = "gene" then optV c.gene
      else if k = "translation" then some [c.translation]
      else none := by
  unfold Cds.mine smQ kindQ fnsQ
  simp only [ht, if_false]
  by_cases a1 : k = "sec_met_domain"
  · subst a1; cases c.secMet.isEmpty <;> cases c.geneFns.isEmpty <;> simp [Q.get?_set, get?_setOpt, Q.get?, optV]
  by_cases a2 : k = "gene_kind"
  · subst a2; cases c.secMet.isEmpty <;> cases c.geneFns.isEmpty <;> simp [Q.get?_set, get?_setOpt, Q.get?, optV]
  by_cases a3 : k = "gene_functions"
  · subst a3; cases c.secMet.isEmpty <;> cases c.geneFns.isEmpty <;> simp [Q.get?_set, get?_setOpt, Q.get?, optV]
  by_cases a4 : k = "product"
  · subst a4; cases c.secMet.isEmpty <;> cases c.geneFns.isEmpty <;> cases hq : optV (some c.product) <;> simp [Q.get?_set, get?_setOpt, Q.get?, hq]
  by_cases a5 : k = "protein_id"
  · subst a5; cases c.secMet.isEmpty <;> cases c.geneFns.isEmpty <;> cases hq : optV c.proteinId <;> simp [Q.get?_set, get?_setOpt, Q.get?, hq]
  by_cases a6 : k = "locus_tag"
  · subst a6; cases c.secMet.isEmpty <;> cases c.geneFns.isEmpty <;> cases hq : optV c.locusTag <;> simp [Q.get?_set, get?_setOpt, Q.get?, hq]
  by_cases a7 : k = "transl_table"
  · subst a7; cases c.secMet.isEmpty <;> cases c.geneFns.isEmpty <;> simp [Q.get?_set, get?_setOpt, Q.get?, optV]
  by_cases a8 : k = "gene"
  · subst a8; cases c.secMet.isEmpty <;> cases c.geneFns.isEmpty <;> cases hq : optV c.gene <;> simp [Q.get?_set, get?_setOpt, Q.get?, hq]
  by_cases a9 : k = "translation"
  · subst a9; cases c.secMet.isEmpty <;> cases c.geneFns.isEmpty <;> simp [Q.get?_set, get?_setOpt, Q.get?, optV]
  have a9' : ¬ "translation" = k := fun e => a9 e.symm
  cases c.secMet.isEmpty <;> cases c.geneFns.isEmpty <;> simp [Q.get?_set, get?_setOpt, Q.get?, a1, a2, a3, a4, a5, a6, a7, a8, a9, a9']

theorem popOpt_erase (q : Quals) (a k : String) (h : k ≠ a) : popOpt (Q.erase q a) k = popOpt q k := by
  unfold popOpt; rw [Q.get?_erase_other q a k h]

theorem popOpt_of {q : Quals} {k : String} {o : Option String} (h : Q.get? q k = optV o) (ho : o ≠ some "") : popOpt q k = .ok o := by
  unfold popOpt
  rw [h]
  cases o with
  | none => rfl
  | some s =>
    have : s ≠ "" := fun e => ho (by rw [e])
    rw [optV_some_ne this]; rfl

structure Cds.WF (trOK : String → Loc → Bool) (c : Cds) : Prop where
  feat : c.feat.WF
  byAS : c.feat.byAS = true
  codon : c.feat.codon = none
  type : c.feat.type = "CDS"
  reserved : ∀ k ∈ cdsKeys, Q.get? c.feat.quals k = none
  strand : (c.feat.loc.strand == .fwd || c.feat.loc.strand == .rev) = true
  named : (!((c.gene.getD "").isEmpty) || !((c.proteinId.getD "").isEmpty) || !((c.locusTag.getD "").isEmpty)) = true
  tag : c.locusTag ≠ some "" ∧ c.locusTag.map noSpaces = c.locusTag ∧ c.locusTag.map sanitiseId = c.locusTag
  pid : c.proteinId ≠ some "" ∧ c.proteinId.map sanitiseId = c.proteinId
  gene : c.gene ≠ some "" ∧ c.gene.map sanitiseId = c.gene
  table : c.translTable ≠ 0
  tr : c.translation ≠ "" ∧ startWithM c.translation = c.translation ∧ trOK c.translation c.feat.loc = true
  sm : (c.secMet.map (·.name)).Nodup ∧ ∀ d ∈ c.secMet, d.textSafe = true
  fns : c.geneFns.Nodup ∧ ∀ a ∈ c.geneFns, a.wf = true ∧ a.textSafe = true

theorem smFromQualifier_roundtrip (ds : List SMDom) (hn : (ds.map (·.name)).Nodup) (h : ∀ d ∈ ds, d.textSafe = true) :
    smFromQualifier (ds.map SMDom.toStr) = .ok ds := by
  unfold smFromQualifier
  rw [smParseAll_roundtrip ds h]
  simp only [bind, Except.bind, pure, Except.pure]
  rw [smAdd_distinct ds [] (by simpa using hn)]
  simp

theorem readSecMet_erase (q : Quals) (a : String) (h : "sec_met_domain" ≠ a) : readSecMet (Q.erase q a) = readSecMet q := by
  unfold readSecMet; rw [Q.get?_erase_other q a _ h]
theorem readGeneFns_erase (q : Quals) (a : String) (h : "gene_functions" ≠ a) : readGeneFns (Q.erase q a) = readGeneFns q := by
  unfold readGeneFns; rw [Q.get?_erase_other q a _ h]
theorem readTable_erase (dt : Int) (q : Quals) (a : String) (h : "transl_table" ≠ a) : readTable dt (Q.erase q a) = readTable dt q := by
  unfold readTable; rw [Q.get?_erase_other q a _ h]
theorem readShifted_erase (loc : Loc) (q : Quals) (a : String) (h : "codon_start" ≠ a) : readShifted loc (Q.erase q a) = readShifted loc q := by
  unfold readShifted; rw [Q.get?_erase_other q a _ h]

theorem readSecMet_of (q : Quals) (ds : List SMDom) (hq : Q.get? q "sec_met_domain" = smQ ds) (hn : (ds.map (·.name)).Nodup)
    (h : ∀ d ∈ ds, d.textSafe = true) : readSecMet q = .ok ds := by
  unfold readSecMet
  rw [hq]
  unfold smQ
  cases ds with
  | nil => rfl
  | cons d rest =>
    have := smFromQualifier_roundtrip (d :: rest) hn h
    simpa using this

theorem readGeneFns_of (q : Quals) (l : List Annot) (hq : Q.get? q "gene_functions" = fnsQ l) (hn : l.Nodup)
    (h : ∀ a ∈ l, a.wf = true ∧ a.textSafe = true) : readGeneFns q = .ok l := by
  unfold readGeneFns
  rw [hq]
  unfold fnsQ
  cases l with
  | nil => rfl
  | cons a rest =>
    have := annFromQualifier_roundtrip (a :: rest) [] h (by simpa using hn)
    simpa using this

set_option maxHeartbeats 1600000 in
theorem cdsFromBio_spec (dt : Int) (trOK : String → Loc → Bool) (c : Cds) (h : c.WF trOK) (W : Quals)
    (hlook : ∀ k ∈ cdsPopped, Q.get? W k = Q.get? c.mine k) (hcod : Q.get? W "codon_start" = none) :
    Cds.fromBio dt trOK ⟨c.feat.loc, "CDS", W⟩ =
      (applyLeftovers ⟨c.feat.loc, "CDS", [], [], false, none⟩ (cdsPopped.foldl Q.erase W)).map fun feat => { c with feat := feat } := by
  have lk : ∀ k, k ∈ cdsPopped → Q.get? W k = _ := fun k hk => (hlook k hk).trans (get?_cds_mine c h.table k)
  have l1 : Q.get? W "protein_id" = optV c.proteinId := by rw [lk _ (by simp [cdsPopped])]; simp
  have l2 : Q.get? W "locus_tag" = optV c.locusTag := by rw [lk _ (by simp [cdsPopped])]; simp
  have l3 : Q.get? W "gene" = optV c.gene := by rw [lk _ (by simp [cdsPopped])]; simp
  have l4 : Q.get? W "transl_table" = some [strOfInt c.translTable] := by rw [lk _ (by simp [cdsPopped])]; simp
  have l5 : Q.get? W "translation" = some [c.translation] := by rw [lk _ (by simp [cdsPopped])]; simp
  have l6 : Q.get? W "product" = optV (some c.product) := by rw [lk _ (by simp [cdsPopped])]; simp
  have l7 : Q.get? W "sec_met_domain" = smQ c.secMet := by rw [lk _ (by simp [cdsPopped])]; simp
  have l8 : Q.get? W "gene_functions" = fnsQ c.geneFns := by rw [lk _ (by simp [cdsPopped])]; simp
  have l9 : Q.get? W "NRPS_PKS" = none := by rw [lk _ (by simp [cdsPopped])]; simp
  have htag : (if (c.locusTag.getD "").isEmpty then none else some (noSpaces (c.locusTag.getD ""))) = c.locusTag := by
    cases hl : c.locusTag with
    | none => rfl
    | some s =>
      have hs : s ≠ "" := fun e => h.tag.1 (by rw [hl, e])
      have h2 := h.tag.2.1
      rw [hl] at h2
      simp only [Option.map_some, Option.some.injEq] at h2
      simp [isEmpty_false_of_ne hs, h2]
  have htab : readTable dt W = .ok c.translTable := by unfold readTable; rw [l4]; simp [intOfStr_strOfInt, pure, Except.pure]
  have hshift : readShifted c.feat.loc W = .ok c.feat.loc := by unfold readShifted; rw [hcod]; rfl
  have htr : firstOr W "translation" = .ok c.translation := by unfold firstOr; rw [l5]; rfl
  have hsm := readSecMet_of W c.secMet l7 h.sm.1 h.sm.2
  have hfn := readGeneFns_of W c.geneFns l8 h.fns.1 h.fns.2
  unfold Cds.fromBio
  simp (config := { maxSteps := 2000000 }) (disch := decide) only [firstOr_erase, popOpt_erase, Q.get?_erase_other, readSecMet_erase,
    readGeneFns_erase, readTable_erase, readShifted_erase]
  simp only [popOpt_of l1 h.pid.1, firstOr_of l2, popOpt_of l3 h.gene.1, bind, Except.bind, htab, hshift, htr, hsm, hfn, firstOr_of l6]
  simp only [htag, h.named, h.strand, Bool.not_true, Bool.false_eq_true, if_false, isEmpty_false_of_ne h.tr.1, h.tr.2.2, Bool.or_self,
    Option.getD_some, l9, Option.getD_none, List.isEmpty_nil, h.tag.2.2, h.pid.2, h.gene.2, h.tr.2.1, pure, Except.pure]
  simp only [cdsPopped, List.foldl_cons, List.foldl_nil]
  cases applyLeftovers ⟨c.feat.loc, "CDS", [], [], false, none⟩ _ <;> rfl

theorem cds_mine_other (c : Cds) (h : c.translTable ≠ 0) (k : String) (hk : k ∉ cdsKeys) : Q.get? c.mine k = none := by
  rw [get?_cds_mine c h]
  simp only [cdsKeys, cdsPopped, List.cons_append, List.nil_append, List.mem_cons, List.mem_nil_iff, or_false, not_or] at hk
  simp [hk]

theorem cds_roundtrip (t : Bool) (dt : Int) (trOK : String → Loc → Bool) (c : Cds) (h : c.WF trOK) (b : Bio) (hb : c.toBio = .ok b) :
    ∃ c', Cds.fromBio dt trOK b = .ok c' ∧ c' = { c with feat := c'.feat } ∧
      Q.get? c'.feat.quals "gene_kind" = kindQ c.geneFns ∧
      ({ c'.feat with quals := Q.erase c'.feat.quals "gene_kind" } : Feat).view t = c.feat.view t ∧
      c'.feat.loc = c.feat.loc := by
  have hX := nodup_cds_mine c
  have hFQ := nodup_finalQuals c.feat c.mine h.feat.quals
  unfold Cds.toBio at hb
  rw [toBio_eq, h.codon] at hb
  simp only [Except.ok.injEq] at hb
  subst hb
  obtain ⟨W, hWdef⟩ : ∃ W, W = Q.sortKeys (finalQuals c.feat c.mine) := ⟨_, rfl⟩
  have look : ∀ k, Q.get? W k = Q.get? (finalQuals c.feat c.mine) k := by
    intro k; rw [hWdef]; exact Q.get?_sortKeys hFQ k
  have hW : ∀ k ∈ cdsKeys, Q.get? W k = Q.get? c.mine k := by
    intro k hk
    have h2 : k ≠ "tool" := by intro e; subst e; simp [cdsKeys, cdsPopped] at hk
    have h3 : k ≠ "note" := by intro e; subst e; simp [cdsKeys, cdsPopped] at hk
    rw [look]
    cases hm : Q.get? c.mine k with
    | none => rw [get?_FQ_rest c.feat _ hX k h.codon h2 h3 hm]; exact h.reserved k hk
    | some v => exact get?_FQ_extra c.feat _ hX k v h.codon h2 h3 hm
  have hKX := cds_mine_other c h.table
  have hcodW : Q.get? W "codon_start" = none := by
    rw [look, get?_FQ_rest c.feat _ hX _ h.codon (by decide) (by decide) (hKX _ (by simp [cdsKeys, cdsPopped]))]
    exact h.feat.noCodonKey
  have hspec := cdsFromBio_spec dt trOK c h W (fun k hk => hW k (by simp [cdsKeys, hk])) hcodW
  rw [h.type, ← hWdef, hspec]
  -- the leftovers: everything popped is gone, `gene_kind` stays
  obtain ⟨L, hLdef⟩ : ∃ L, L = cdsPopped.foldl Q.erase W := ⟨_, rfl⟩
  rw [← hLdef]
  have hnL : Q.Nodup L := by rw [hLdef, hWdef]; exact nodup_eraseAll _ (Q.nodup_sortKeys hFQ)
  have hL : ∀ k, Q.get? L k = if k ∈ cdsPopped then none else Q.get? W k := by intro k; rw [hLdef]; exact get?_eraseAll _ _ _
  have hL0 : ∀ k, Q.get? (Q.erase L "gene_kind") k = if k ∈ cdsKeys then none else Q.get? (Q.sortKeys (finalQuals c.feat c.mine)) k := by
    intro k
    rw [Q.get?_erase, hL, ← hWdef]
    by_cases a0 : k = "gene_kind"
    · subst a0; simp [cdsKeys]
    · by_cases a1 : k ∈ cdsPopped
      · have : k ∈ cdsKeys := by simp [cdsKeys, a1]
        simp [a0, a1, this]
      · have : k ∉ cdsKeys := by simp [cdsKeys, a0, a1]
        simp [a0, a1, this]
  obtain ⟨f0, e1, e2, _, _, _, _, _, _, _, _⟩ := class_leftovers_roundtrip t c.feat c.mine cdsKeys (Q.erase L "gene_kind") h.feat h.byAS
    h.codon hX hKX (by simp [cdsKeys, cdsPopped]) h.reserved (Q.nodup_erase hnL _) hL0
  have hcod0 : Q.get? (Q.erase L "gene_kind") "codon_start" = none := by
    rw [hL0]; simp only [cdsKeys, cdsPopped]; simp; rw [← hWdef]; exact hcodW
  have hcod : Q.get? L "codon_start" = none := by
    have := hcod0; rw [Q.get?_erase] at this; simpa using this
  have htool0 : Q.get? (Q.erase L "gene_kind") "tool" = some ["antismash"] := by
    rw [hL0]; simp only [cdsKeys, cdsPopped]; simp
    rw [Q.get?_sortKeys hFQ, get?_FQ_toolX c.feat _ hX h.byAS h.codon]
  have htool : Q.get? L "tool" = some ["antismash"] := by
    have := htool0; rw [Q.get?_erase] at this; simpa using this
  rw [h.type, applyLeftovers_plain _ _ rfl (Q.nodup_erase hnL _) hcod0] at e1
  rw [applyLeftovers_plain _ _ rfl hnL hcod]
  have hkind : Q.get? L "gene_kind" = kindQ c.geneFns := by
    rw [hL]
    simp only [cdsPopped]; simp
    rw [hW _ (by simp [cdsKeys]), get?_cds_mine c h.table]; simp
  simp only [Except.map]
  refine ⟨_, rfl, rfl, hkind, ?_, rfl⟩
  have hf0 : f0 = { (⟨c.feat.loc, "CDS", [], [], true, none⟩ : Feat) with
      byAS := !(Q.erase L "gene_kind").isEmpty && (Q.get? (Q.erase L "gene_kind") "tool" == some ["antismash"]),
      quals := Q.erase L "gene_kind" } := by
    cases e1; rfl
  rw [← e2, hf0]
  simp only [htool0, htool, Q.isEmpty_of_get? htool0, Q.isEmpty_of_get? htool]

end ASV.Serial
