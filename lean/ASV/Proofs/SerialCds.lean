/-
  C10, groundwork for a feature-level CDS theorem (NOT finished: the decode lemma `cdsFromBio_spec` and the theorem
  `bio_roundtrip_cds_partial` are not in the build): lookups of the qualifiers `CDSFeature.to_biopython` writes
  (`get?_cds_mine`), the hypotheses (`Cds.WF`), the sec_met qualifier round trip in the form the reader uses.
-/
import ASV.Model.SerialCds
import ASV.Proofs.SerialModule
import ASV.Proofs.SerialQual
namespace ASV.Serial
open ASV

def cdsPopped : List String :=
  ["protein_id", "locus_tag", "gene", "transl_table", "translation", "product", "sec_met_domain", "gene_functions", "NRPS_PKS"]
def cdsKeys : List String := cdsPopped ++ ["gene_kind"]

def fnsQ (l : List Annot) : Option (List String) := if l.isEmpty then none else some (l.map Annot.toStr)
def kindQ (l : List Annot) : Option (List String) := if l.isEmpty then none else some [(classification l).label]
def smQ (l : List SMDom) : Option (List String) := if l.isEmpty then none else some (l.map SMDom.toStr)

theorem nodup_cds_mine (c : Cds) : Q.Nodup c.mine := by
  unfold Cds.mine
  have h0 : Q.Nodup ([("translation", [c.translation])] : Quals) := by simp [Q.Nodup, Q.keys]
  have h1 := nodup_setOpt h0 "gene" c.gene
  have h2 : Q.Nodup (if c.translTable = 0 then setOpt [("translation", [c.translation])] "gene" c.gene
      else Q.set (setOpt [("translation", [c.translation])] "gene" c.gene) "transl_table" [strOfInt c.translTable]) := by
    split
    · exact h1
    · exact Q.nodup_set h1 _ _
  have h3 := nodup_setOpt (nodup_setOpt (nodup_setOpt h2 "locus_tag" c.locusTag) "protein_id" c.proteinId) "product" (some c.product)
  simp only
  split <;> split <;> first | exact h3 | exact Q.nodup_set h3 _ _ | exact Q.nodup_set (Q.nodup_set h3 _ _) _ _ | exact Q.nodup_set (Q.nodup_set (Q.nodup_set h3 _ _) _ _) _ _

theorem get?_cds_mine (c : Cds) (ht : c.translTable ≠ 0) (k : String) :
    Q.get? c.mine k =
      if k = "sec_met_domain" then smQ c.secMet
      else if k = "gene_kind" then kindQ c.geneFns
      else if k = "gene_functions" then fnsQ c.geneFns
      else if k = "product" then optV (some c.product)
      else if k = "protein_id" then optV c.proteinId
      else if k = "locus_tag" then optV c.locusTag
      else if k = "transl_table" then some [strOfInt c.translTable]
      else if k = "gene" then optV c.gene
      else if k = "translation" then some [c.translation]
      else none := by
  unfold Cds.mine smQ kindQ fnsQ
  simp only [ht, if_false]
  by_cases a1 : k = "sec_met_domain"
  · subst a1; cases c.secMet.isEmpty <;> cases c.geneFns.isEmpty <;> simp [Q.get?_set, get?_setOpt, Q.get?, optV]
  by_cases a2 : k = "gene_kind"
  · subst a2; cases c.secMet.isEmpty <;> cases c.geneFns.isEmpty <;> simp [Q.get?_set, get?_setOpt, Q.get?, optV]
  by_cases a3 : k = "gene_functions"
  · subst a3; cases c.secMet.isEmpty <;> cases c.geneFns.isEmpty <;> simp [Q.get?_set, get?_setOpt, Q.get?, optV]
  by_cases a4 : k = "product"
  · subst a4; cases c.secMet.isEmpty <;> cases c.geneFns.isEmpty <;> cases hq : optV (some c.product) <;> simp [Q.get?_set, get?_setOpt, Q.get?, hq]
  by_cases a5 : k = "protein_id"
  · subst a5; cases c.secMet.isEmpty <;> cases c.geneFns.isEmpty <;> cases hq : optV c.proteinId <;> simp [Q.get?_set, get?_setOpt, Q.get?, hq]
  by_cases a6 : k = "locus_tag"
  · subst a6; cases c.secMet.isEmpty <;> cases c.geneFns.isEmpty <;> cases hq : optV c.locusTag <;> simp [Q.get?_set, get?_setOpt, Q.get?, hq]
  by_cases a7 : k = "transl_table"
  · subst a7; cases c.secMet.isEmpty <;> cases c.geneFns.isEmpty <;> simp [Q.get?_set, get?_setOpt, Q.get?, optV]
  by_cases a8 : k = "gene"
  · subst a8; cases c.secMet.isEmpty <;> cases c.geneFns.isEmpty <;> cases hq : optV c.gene <;> simp [Q.get?_set, get?_setOpt, Q.get?, hq]
  by_cases a9 : k = "translation"
  · subst a9; cases c.secMet.isEmpty <;> cases c.geneFns.isEmpty <;> simp [Q.get?_set, get?_setOpt, Q.get?, optV]
  have a9' : ¬ "translation" = k := fun e => a9 e.symm
  cases c.secMet.isEmpty <;> cases c.geneFns.isEmpty <;> simp [Q.get?_set, get?_setOpt, Q.get?, a1, a2, a3, a4, a5, a6, a7, a8, a9, a9']

theorem popOpt_erase (q : Quals) (a k : String) (h : k ≠ a) : popOpt (Q.erase q a) k = popOpt q k := by
  unfold popOpt; rw [Q.get?_erase_other q a k h]

theorem popOpt_of {q : Quals} {k : String} {o : Option String} (h : Q.get? q k = optV o) (ho : o ≠ some "") : popOpt q k = .ok o := by
  unfold popOpt
  rw [h]
  cases o with
  | none => rfl
  | some s =>
    have : s ≠ "" := fun e => ho (by rw [e])
    rw [optV_some_ne this]; rfl

structure Cds.WF (trOK : String → Loc → Bool) (c : Cds) : Prop where
  feat : c.feat.WF
  byAS : c.feat.byAS = true
  codon : c.feat.codon = none
  type : c.feat.type = "CDS"
  reserved : ∀ k ∈ cdsKeys, Q.get? c.feat.quals k = none
  strand : (c.feat.loc.strand == .fwd || c.feat.loc.strand == .rev) = true
  named : (!((c.gene.getD "").isEmpty) || !((c.proteinId.getD "").isEmpty) || !((c.locusTag.getD "").isEmpty)) = true
  tag : c.locusTag ≠ some "" ∧ c.locusTag.map noSpaces = c.locusTag ∧ c.locusTag.map sanitiseId = c.locusTag
  pid : c.proteinId ≠ some "" ∧ c.proteinId.map sanitiseId = c.proteinId
  gene : c.gene ≠ some "" ∧ c.gene.map sanitiseId = c.gene
  table : c.translTable ≠ 0
  tr : c.translation ≠ "" ∧ startWithM c.translation = c.translation ∧ trOK c.translation c.feat.loc = true
  sm : (c.secMet.map (·.name)).Nodup ∧ ∀ d ∈ c.secMet, d.textSafe = true
  fns : c.geneFns.Nodup ∧ ∀ a ∈ c.geneFns, a.wf = true ∧ a.textSafe = true

theorem smFromQualifier_roundtrip (ds : List SMDom) (hn : (ds.map (·.name)).Nodup) (h : ∀ d ∈ ds, d.textSafe = true) :
    smFromQualifier (ds.map SMDom.toStr) = .ok ds := by
  unfold smFromQualifier
  rw [smParseAll_roundtrip ds h]
  simp only [bind, Except.bind, pure, Except.pure]
  rw [smAdd_distinct ds [] (by simpa using hn)]
  simp

end ASV.Serial
