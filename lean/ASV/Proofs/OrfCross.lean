/-
  C15 helper lemmas: `_find_cross_origin_intergenic` returns the per-part intergenic areas,
  except that the area ending at the record's end and the area starting at 0 are joined into
  one area reaching back over the origin.
-/
import ASV.Spec.Orf
namespace ASV.Orf
open ASV

/-- what the `enumerate` loop can have recorded, for a scan that started at index `i` -/
theorem originScan_spec (L : Int) :
    ∀ (l : List (Int × Int)) (i : Nat) (pre post pre' post' : Option Nat),
      originScan L l i pre post = some (pre', post') →
      (pre' = pre ∨ ∃ j a, pre' = some (i + j) ∧ l[j]? = some a ∧ a.2 = L) ∧
      (post' = post ∨ ∃ j a, post' = some (i + j) ∧ l[j]? = some a ∧ a.1 = 0) := by
  intro l
  induction l with
  | nil =>
    intro i pre post pre' post' h
    simp only [originScan, Option.some.injEq, Prod.mk.injEq] at h
    exact ⟨Or.inl h.1.symm, Or.inl h.2.symm⟩
  | cons a rest ih =>
    intro i pre post pre' post' h
    unfold originScan at h
    -- the two assertion checks
    generalize hcp : (if a.1 = 0 then (if post.getD 0 = 0 then some (some i) else none) else some post) = chkPost at h
    cases chkPost with
    | none => simp only [reduceCtorEq] at h
    | some postN =>
      simp only at h
      generalize hcq : (if a.2 = L then (if pre.getD 0 = 0 then some (some i) else none) else some pre) = chkPre at h
      cases chkPre with
      | none => simp only [reduceCtorEq] at h
      | some preN =>
        simp only at h
        obtain ⟨h1, h2⟩ := ih (i + 1) preN postN pre' post' h
        have shift : ∀ (P : (Int × Int) → Prop) (x : Option Nat),
            (∃ j b, x = some (i + 1 + j) ∧ rest[j]? = some b ∧ P b) →
            (∃ j b, x = some (i + j) ∧ (a :: rest)[j]? = some b ∧ P b) := by
          rintro P x ⟨j, b, hx, hb, hp⟩
          exact ⟨j + 1, b, by rw [hx]; congr 1; omega, by simpa using hb, hp⟩
        constructor
        · rcases h1 with h1 | h1
          · -- pre' = preN: either unchanged or set at this index
            by_cases ha : a.2 = L
            · rw [if_pos ha] at hcq
              by_cases hp : pre.getD 0 = 0
              · rw [if_pos hp] at hcq
                have : preN = some i := by simpa using hcq.symm
                exact Or.inr ⟨0, a, by rw [h1, this]; rfl, rfl, ha⟩
              · rw [if_neg hp] at hcq; simp only [reduceCtorEq] at hcq
            · rw [if_neg ha] at hcq
              have : preN = pre := by simpa using hcq.symm
              exact Or.inl (by rw [h1, this])
          · exact Or.inr (shift (fun b => b.2 = L) pre' h1)
        · rcases h2 with h2 | h2
          · by_cases ha : a.1 = 0
            · rw [if_pos ha] at hcp
              by_cases hp : post.getD 0 = 0
              · rw [if_pos hp] at hcp
                have : postN = some i := by simpa using hcp.symm
                exact Or.inr ⟨0, a, by rw [h2, this]; rfl, rfl, ha⟩
              · rw [if_neg hp] at hcp; simp only [reduceCtorEq] at hcp
            · rw [if_neg ha] at hcp
              have : postN = post := by simpa using hcp.symm
              exact Or.inl (by rw [h2, this])
          · exact Or.inr (shift (fun b => b.1 = 0) post' h2)

/-- every area returned for an origin-crossing search is an intergenic area of one of the
    area's parts, or the join `(pre.start − L, post.end)` of the one ending at `L` with the one
    starting at `0` -/
theorem crossOrigin_sound (parts : List (Int × Int × List Gene)) (L minLen pad : Int)
    (areas : List (Int × Int)) (h : crossOriginIntergenic parts L minLen pad = some areas) :
    ∀ a ∈ areas,
      (∃ p ∈ parts, a ∈ findIntergenic p.1 p.2.1 p.2.2 minLen pad) ∨
      (∃ p ∈ parts, ∃ q ∈ parts, ∃ pre ∈ findIntergenic p.1 p.2.1 p.2.2 minLen pad,
        ∃ post ∈ findIntergenic q.1 q.2.1 q.2.2 minLen pad,
        pre.2 = L ∧ post.1 = 0 ∧ a = (pre.1 - L, post.2)) := by
  unfold crossOriginIntergenic at h
  have memAll : ∀ b, b ∈ (parts.flatMap fun p => findIntergenic p.1 p.2.1 p.2.2 minLen pad) →
      ∃ p ∈ parts, b ∈ findIntergenic p.1 p.2.1 p.2.2 minLen pad := by
    intro b hb; simpa only [List.mem_flatMap] using hb
  generalize (parts.flatMap fun p => findIntergenic p.1 p.2.1 p.2.2 minLen pad) = all at h memAll
  simp only at h
  cases hscan : originScan L all 0 none none with
  | none => rw [hscan] at h; simp only [reduceCtorEq] at h
  | some r =>
    rw [hscan] at h
    obtain ⟨pre, post⟩ := r
    cases pre with
    | none =>
      simp only [Option.some.injEq] at h
      subst h
      intro a ha; exact Or.inl (memAll a ha)
    | some pre =>
      cases post with
      | none =>
        simp only [Option.some.injEq] at h
        subst h
        intro a ha; exact Or.inl (memAll a ha)
      | some post =>
        simp only at h
        obtain ⟨hpre, hpost⟩ := originScan_spec L all 0 none none (some pre) (some post) hscan
        rcases hpre with hpre | ⟨j, preA, hj, hjA, hjL⟩
        · simp only [reduceCtorEq] at hpre
        rcases hpost with hpost | ⟨k, postA, hk, hkA, hk0⟩
        · simp only [reduceCtorEq] at hpost
        have hj' : pre = j := by simpa using hj
        have hk' : post = k := by simpa using hk
        subst hj' hk'
        rw [hjA, hkA] at h
        simp only at h
        split at h
        · simp only [Option.some.injEq] at h
          subst h
          intro a ha
          rcases List.mem_or_eq_of_mem_set ha with ha | ha
          · exact Or.inl (memAll a (List.mem_of_mem_eraseIdx ha))
          · obtain ⟨p, hp, hpm⟩ := memAll preA (List.mem_of_getElem? hjA)
            obtain ⟨q, hq, hqm⟩ := memAll postA (List.mem_of_getElem? hkA)
            exact Or.inr ⟨p, hp, q, hq, preA, hpm, postA, hqm, hjL, hk0, ha⟩
        · simp only [reduceCtorEq] at h

end ASV.Orf
