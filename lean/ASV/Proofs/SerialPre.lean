/-
  C10 helper lemmas: the location of a prepeptide survives being written as leader / core / tail and
  rebuilt (`_combine_sections`, fixes/D107): the rebuilt location has exactly the gene's translated
  bases, in transcription order.  Uses C09's `bases` spec and its `subLocation_slice`.
-/
import ASV.Proofs.ProtDna
import ASV.Proofs.SerialString
import ASV.Spec.Serial
namespace ASV.Serial
open ASV ASV.ProtDna

theorem upRange_append (lo : Int) (a b : Nat) : upRange lo (a + b) = upRange lo a ++ upRange (lo + a) b := by
  induction a generalizing lo with
  | zero => simp [upRange]
  | succ a ih =>
    have : a + 1 + b = (a + b) + 1 := by omega
    rw [this]
    have e : lo + ((a + 1 : Nat) : Int) = lo + 1 + (a : Int) := by push_cast; omega
    simp only [upRange, List.cons_append, ih (lo + 1), e]

theorem downRange_append (hi : Int) (a b : Nat) : downRange hi (a + b) = downRange hi a ++ downRange (hi - a) b := by
  induction a generalizing hi with
  | zero => simp [downRange]
  | succ a ih =>
    have : a + 1 + b = (a + b) + 1 := by omega
    rw [this]
    have e : hi - ((a + 1 : Nat) : Int) = hi - 1 - (a : Int) := by push_cast; omega
    simp only [downRange, List.cons_append, ih (hi - 1), e]

/-- a valid part: not inverted -/
def validPart (p : Part) : Prop := p.lo ≤ p.hi

theorem merge_rev (prev part : Part) (hs : prev.strand = .rev) (hp : part.strand = .rev)
    (h : part.hi = prev.lo) (v1 : validPart prev) (v2 : validPart part) :
    partBases ⟨part.lo, prev.hi, .rev⟩ = partBases prev ++ partBases part := by
  unfold validPart at v1 v2
  simp only [partBases, hs, hp, beq_self_eq_true, if_true]
  have : (prev.hi - part.lo).toNat = (prev.hi - prev.lo).toNat + (part.hi - part.lo).toNat := by omega
  rw [this, downRange_append]
  congr 2
  omega

theorem merge_fwd (prev part : Part) (hs : prev.strand = part.strand) (hp : part.strand ≠ .rev)
    (h : part.lo = prev.hi) (v1 : validPart prev) (v2 : validPart part) :
    partBases ⟨prev.lo, part.hi, part.strand⟩ = partBases prev ++ partBases part := by
  unfold validPart at v1 v2
  have h1 : (part.strand == Strand.rev) = false := beq_eq_false_iff_ne.2 hp
  have h2 : (prev.strand == Strand.rev) = false := by rw [hs]; exact h1
  simp only [partBases, h1, h2, Bool.false_eq_true, if_false]
  have : (part.hi - prev.lo).toNat = (prev.hi - prev.lo).toNat + (part.hi - part.lo).toNat := by omega
  rw [this, upRange_append]
  congr 2
  omega

theorem mergeStep_bases (accRev : List Part) (part : Part) (hv : ∀ p ∈ accRev, validPart p) (hp : validPart part) :
    (mergeStep accRev part).reverse.flatMap partBases = accRev.reverse.flatMap partBases ++ partBases part ∧
    ∀ p ∈ mergeStep accRev part, validPart p := by
  cases accRev with
  | nil => simp [mergeStep, hp]
  | cons prev rest =>
    have hprev := hv prev (by simp)
    have hrest : ∀ p ∈ rest, validPart p := fun p h => hv p (List.mem_cons_of_mem _ h)
    unfold mergeStep
    by_cases c1 : (prev.strand == part.strand && part.strand == .rev && part.hi == prev.lo) = true
    · simp only [c1, if_true]
      simp only [Bool.and_eq_true, beq_iff_eq] at c1
      obtain ⟨⟨e1, e2⟩, e3⟩ := c1
      constructor
      · rw [e2, List.reverse_cons, List.reverse_cons, List.flatMap_append, List.flatMap_append,
          List.flatMap_singleton, List.flatMap_singleton, merge_rev prev part (e1.trans e2) e2 e3 hprev hp,
          List.append_assoc]
      · intro p hm
        rcases List.mem_cons.1 hm with rfl | hm
        · unfold validPart at *; simp only; omega
        · exact hrest p hm
    · simp only [c1, Bool.false_eq_true, if_false]
      by_cases c2 : (prev.strand == part.strand && part.strand != .rev && part.lo == prev.hi) = true
      · simp only [c2, if_true]
        simp only [Bool.and_eq_true, beq_iff_eq, bne_iff_ne] at c2
        obtain ⟨⟨e1, e2⟩, e3⟩ := c2
        constructor
        · rw [List.reverse_cons, List.reverse_cons, List.flatMap_append, List.flatMap_append,
            List.flatMap_singleton, List.flatMap_singleton, merge_fwd prev part e1 e2 e3 hprev hp,
            List.append_assoc]
        · intro p hm
          rcases List.mem_cons.1 hm with rfl | hm
          · unfold validPart at *; simp only; omega
          · exact hrest p hm
      · simp only [c2, Bool.false_eq_true, if_false]
        constructor
        · simp [List.reverse_cons, List.flatMap_append]
        · intro p hm
          rcases List.mem_cons.1 hm with rfl | hm
          · exact hp
          · exact hv p hm

theorem foldl_merge_bases : ∀ (ps accRev : List Part), (∀ p ∈ accRev, validPart p) → (∀ p ∈ ps, validPart p) →
    (ps.foldl mergeStep accRev).reverse.flatMap partBases = accRev.reverse.flatMap partBases ++ ps.flatMap partBases := by
  intro ps
  induction ps with
  | nil => intro accRev _ _; simp
  | cons p ps ih =>
    intro accRev hv hps
    obtain ⟨h1, h2⟩ := mergeStep_bases accRev p hv (hps p (by simp))
    rw [List.foldl_cons, ih _ h2 (fun q hq => hps q (List.mem_cons_of_mem _ hq)), h1]
    simp [List.flatMap_cons]

theorem ofParts_parts (ps : List Part) : (Loc.ofParts ps).parts = ps := by
  unfold Loc.ofParts
  split <;> simp [Loc.parts]

/-- the normal form has the same bases in the same order -/
theorem mergeAdjoining_bases (l : Loc) (hv : ∀ p ∈ l.parts, validPart p) : bases (mergeAdjoining l) = bases l := by
  unfold mergeAdjoining
  rw [bases_of_parts _ _ (ofParts_parts _)]
  have := foldl_merge_bases l.parts [] (by simp) hv
  simpa [bases] using this

/-- appending a section, its first part possibly merged into the last kept part, appends its bases -/
theorem combineSection_bases (accRev ps : List Part) (hv : ∀ p ∈ accRev, validPart p) (hp : ∀ p ∈ ps, validPart p) :
    (combineSection accRev ps).reverse.flatMap partBases = accRev.reverse.flatMap partBases ++ ps.flatMap partBases ∧
    ∀ p ∈ combineSection accRev ps, validPart p := by
  have plain : (ps.reverse ++ accRev).reverse.flatMap partBases = accRev.reverse.flatMap partBases ++ ps.flatMap partBases ∧
      ∀ p ∈ ps.reverse ++ accRev, validPart p := by
    constructor
    · simp [List.reverse_append, List.flatMap_append]
    · intro p hm
      rcases List.mem_append.1 hm with hm | hm
      · exact hp p (List.mem_reverse.1 hm)
      · exact hv p hm
  cases accRev with
  | nil => cases ps <;> simpa [combineSection] using plain
  | cons prev rest =>
    cases ps with
    | nil => simpa [combineSection] using plain
    | cons first more =>
      have hprev := hv prev (by simp)
      have hfirst := hp first (by simp)
      have hrest : ∀ p ∈ rest, validPart p := fun p h => hv p (List.mem_cons_of_mem _ h)
      have hmore : ∀ p ∈ more, validPart p := fun p h => hp p (List.mem_cons_of_mem _ h)
      unfold combineSection
      by_cases c1 : (prev.strand == first.strand && first.strand == .rev && first.hi == prev.lo) = true
      · simp only [c1, if_true]
        simp only [Bool.and_eq_true, beq_iff_eq] at c1
        obtain ⟨⟨e1, e2⟩, e3⟩ := c1
        constructor
        · rw [e2]
          simp only [List.reverse_append, List.reverse_reverse, List.reverse_cons, List.flatMap_append, List.flatMap_cons,
            List.flatMap_nil, List.append_nil, List.append_assoc]
          rw [merge_rev prev first (e1.trans e2) e2 e3 hprev hfirst]
          simp [List.append_assoc]
        · intro p hm
          rcases List.mem_append.1 hm with hm | hm
          · exact hmore p (List.mem_reverse.1 hm)
          · rcases List.mem_cons.1 hm with rfl | hm
            · unfold validPart at *; simp only; omega
            · exact hrest p hm
      · simp only [c1, Bool.false_eq_true, if_false]
        by_cases c2 : (prev.strand == first.strand && first.strand != .rev && first.lo == prev.hi) = true
        · simp only [c2, if_true]
          simp only [Bool.and_eq_true, beq_iff_eq, bne_iff_ne] at c2
          obtain ⟨⟨e1, e2⟩, e3⟩ := c2
          constructor
          · simp only [List.reverse_append, List.reverse_reverse, List.reverse_cons, List.flatMap_append, List.flatMap_cons,
              List.flatMap_nil, List.append_nil, List.append_assoc]
            rw [merge_fwd prev first e1 e2 e3 hprev hfirst]
            simp [List.append_assoc]
          · intro p hm
            rcases List.mem_append.1 hm with hm | hm
            · exact hmore p (List.mem_reverse.1 hm)
            · rcases List.mem_cons.1 hm with rfl | hm
              · unfold validPart at *; simp only; omega
              · exact hrest p hm
        · simp only [c2, Bool.false_eq_true, if_false]
          exact plain

theorem foldl_combine_bases : ∀ (sections : List Loc) (accRev : List Part), (∀ p ∈ accRev, validPart p) →
    (∀ s ∈ sections, ∀ p ∈ s.parts, validPart p) →
    (sections.foldl (fun acc s => combineSection acc s.parts) accRev).reverse.flatMap partBases
      = accRev.reverse.flatMap partBases ++ sections.flatMap bases := by
  intro sections
  induction sections with
  | nil => intro accRev _ _; simp
  | cons s rest ih =>
    intro accRev hv hs
    obtain ⟨h1, h2⟩ := combineSection_bases accRev s.parts hv (hs s (by simp))
    rw [List.foldl_cons, ih _ h2 (fun t ht => hs t (List.mem_cons_of_mem _ ht)), h1]
    simp [List.flatMap_cons, bases, List.append_assoc]

theorem combineSections_bases (sections : List Loc) (hv : ∀ s ∈ sections, ∀ p ∈ s.parts, validPart p) :
    bases (combineSections sections) = sections.flatMap bases := by
  unfold combineSections
  rw [bases_of_parts _ _ (ofParts_parts _)]
  have := foldl_combine_bases sections [] (by simp) hv
  simpa using this

/-- the three sections exist, are slices of the gene, and consist of valid non-empty parts -/
theorem sections_with_parts (l : Loc) (hwf : geneWF l = true) (ld tl : Nat) (h : (ld : Int) + tl < l.len / 3) :
    ∃ a c b, prepeptideSections l ld tl = .ok (a, c, b) ∧
      optBases a ++ bases c ++ optBases b = (bases l).take (3 * (l.len / 3).toNat) ∧
      (∀ s ∈ optList a ++ [c] ++ optList b, s.parts ≠ [] ∧ ∀ p ∈ s.parts, validPart p) := by
  have hpos := len_nonneg l hwf
  generalize hT : (l.len / 3).toNat = T
  have hTi : l.len / 3 = (T : Int) := by omega
  obtain ⟨a, c, b, hsec, ha0, hb0, hab, hcb, hbb, _⟩ := prepeptide_sections l hwf ld tl h
  rw [hT] at hcb hbb
  refine ⟨a, c, b, hsec, ?_, ?_⟩
  · rw [hab, hcb, hbb, sliceL_append _ _ _ _ (by omega) (by omega), sliceL_append _ _ _ _ (by omega) (by omega),
      sliceL_zero]
  · -- each section is what `subLocation` returns for its residue range
    have part_ok : ∀ (s e : Nat) (r : Loc), s < e → (e : Int) ≤ l.len / 3 → subLocation l s e = .ok r →
        r.parts ≠ [] ∧ ∀ p ∈ r.parts, validPart p := by
      intro s e r hse he hr
      obtain ⟨r', hr', hb', hp'⟩ := subLocation_slice l hwf s e hse he
      rw [hr] at hr'; cases hr'
      refine ⟨?_, fun p hp => ?_⟩
      · intro hnil
        have hlen : (bases r).length = 3 * e - 3 * s := by
          rw [hb']; unfold sliceL
          rw [List.length_take, List.length_drop]
          have := len_eq_bases_length l (fun p hp => Int.le_of_lt (((geneWF_iff l).mp hwf).2 p hp).1)
          omega
        rw [bases, hnil] at hlen
        simp at hlen; omega
      · obtain ⟨_, _, _, hlt, _, _⟩ := hp' p hp
        unfold validPart; omega
    unfold prepeptideSections at hsec
    rw [hTi] at hsec
    intro s hs
    simp only [List.mem_append, List.mem_singleton] at hs
    -- unfold the three calls
    have e1 : (T : Int) - (tl : Int) = ((T - tl : Nat) : Int) := by omega
    simp only [e1] at hsec
    -- leader
    have hA : ∀ a', (if (ld : Int) ≠ 0 then (subLocation l 0 ld).bind fun r => Res.ok (some r) else Res.ok none) = .ok a' →
        ∀ s ∈ optList a', s.parts ≠ [] ∧ ∀ p ∈ s.parts, validPart p := by
      intro a' ha' s hs
      by_cases h0 : (ld : Int) ≠ 0
      · rw [if_pos h0] at ha'
        cases hsub : subLocation l 0 (ld : Int) with
        | ok r =>
          rw [hsub] at ha'; simp only [Res.bind] at ha'; cases ha'
          simp only [optList, List.mem_singleton] at hs; subst hs
          exact part_ok 0 ld _ (by omega) (by omega) (by simpa using hsub)
        | valueError => rw [hsub] at ha'; simp [Res.bind] at ha'
        | assertion => rw [hsub] at ha'; simp [Res.bind] at ha'
      · rw [if_neg h0] at ha'; cases ha'; simp [optList] at hs
    have hB : ∀ b', (if (tl : Int) ≠ 0 then (subLocation l ((T - tl : Nat) : Int) T).bind fun r => Res.ok (some r) else Res.ok none) = .ok b' →
        ∀ s ∈ optList b', s.parts ≠ [] ∧ ∀ p ∈ s.parts, validPart p := by
      intro b' hb' s hs
      by_cases h0 : (tl : Int) ≠ 0
      · rw [if_pos h0] at hb'
        cases hsub : subLocation l ((T - tl : Nat) : Int) (T : Int) with
        | ok r =>
          rw [hsub] at hb'; simp only [Res.bind] at hb'; cases hb'
          simp only [optList, List.mem_singleton] at hs; subst hs
          exact part_ok (T - tl) T _ (by omega) (by omega) hsub
        | valueError => rw [hsub] at hb'; simp [Res.bind] at hb'
        | assertion => rw [hsub] at hb'; simp [Res.bind] at hb'
      · rw [if_neg h0] at hb'; cases hb'; simp [optList] at hs
    have bok : ∀ {α β : Type} (x : α) (f : α → Res β), (Res.ok x).bind f = f x := fun _ _ => rfl
    cases hla : (if (ld : Int) ≠ 0 then (subLocation l 0 ld).bind fun r => Res.ok (some r) else Res.ok none) with
    | ok a' =>
      rw [hla] at hsec; simp only [bok] at hsec
      cases hc : subLocation l (ld : Int) ((T - tl : Nat) : Int) with
      | ok c' =>
        rw [hc] at hsec; simp only [bok] at hsec
        cases hlb : (if (tl : Int) ≠ 0 then (subLocation l ((T - tl : Nat) : Int) T).bind fun r => Res.ok (some r) else Res.ok none) with
        | ok b' =>
          rw [hlb] at hsec; simp only [bok] at hsec; cases hsec
          rcases hs with (hs | hs) | hs
          · exact hA _ hla s hs
          · subst hs; exact part_ok ld (T - tl) _ (by omega) (by omega) hc
          · exact hB _ hlb s hs
        | valueError => rw [hlb] at hsec; simp [Res.bind] at hsec
        | assertion => rw [hlb] at hsec; simp [Res.bind] at hsec
      | valueError => rw [hc] at hsec; simp [Res.bind] at hsec
      | assertion => rw [hc] at hsec; simp [Res.bind] at hsec
    | valueError => rw [hla] at hsec; simp [Res.bind] at hsec
    | assertion => rw [hla] at hsec; simp [Res.bind] at hsec

theorem flatMap_bases_sections (a : Option Loc) (c : Loc) (b : Option Loc) :
    (optList a ++ [c] ++ optList b).flatMap bases = optBases a ++ bases c ++ optBases b := by
  cases a <;> cases b <;> simp [optList, optBases]

/-- the written location of a prepeptide (core location, leader and tail as text) is read back as a
    location with exactly the translated bases of the gene, in transcription order -/
theorem preRead_preWrite (l : Loc) (hwf : geneWF l = true) (ld tl : Nat) (h : (ld : Int) + tl < l.len / 3) :
    ∃ w, preWrite l ld tl = .ok w ∧ ∃ r, preRead w = some r ∧
      bases r = (bases l).take (3 * (l.len / 3).toNat) := by
  obtain ⟨a, c, b, hsec, hb, hparts⟩ := sections_with_parts l hwf ld tl h
  refine ⟨⟨c, a.map locToString, b.map locToString⟩, by simp [preWrite, hsec, Res.bind], ?_⟩
  refine ⟨combineSections (optList a ++ [c] ++ optList b), ?_, ?_⟩
  · unfold preRead
    cases a with
    | none =>
      cases b with
      | none => rfl
      | some y =>
        have hy := (hparts y (by simp [optList])).1
        simp [locFromString_locToString y hy, bind, pure]
    | some x =>
      have hx := (hparts x (by simp [optList])).1
      cases b with
      | none => simp [locFromString_locToString x hx, bind, pure]
      | some y =>
        have hy := (hparts y (by simp [optList])).1
        simp [locFromString_locToString x hx, locFromString_locToString y hy, bind, pure]
  · rw [combineSections_bases _ (fun s hs => (hparts s hs).2), flatMap_bases_sections, hb]

end ASV.Serial
