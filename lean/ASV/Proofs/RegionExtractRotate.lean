/-
  C12: `offset_location` rotates any location whose parts lie in the record, for every offset `0 < |k| < L`:
  every part is shifted and brought back into the record (`wrapPart`), abutting pieces are merged
  (`mergeAdjacent`, which keeps all bases as long as no piece abuts both neighbours), and the result covers
  exactly the bases `i` with `(i - k) mod L` in the location.
-/
import ASV.Proofs.RegionExtractBases
set_option linter.unusedSimpArgs false
namespace ASV.RegionExtract
open ASV
def anyMem (ps : List Part) (i : Int) : Bool := ps.any (·.mem i)

/-- total length of a list of parts -/
def lenSum (ps : List Part) : Int := (ps.map Part.len).sum

theorem lenSum_cons (p : Part) (ps : List Part) : lenSum (p :: ps) = p.len + lenSum ps := by simp [lenSum]

theorem chainFree_tail (a : Part) (rest : List Part) (h : chainFree (a :: rest) = true) : chainFree rest = true := by
  match rest with
  | [] => rfl
  | [_] => rfl
  | b :: c :: r => simp [chainFree] at h; exact h.2

theorem Part.mem_merge (a b : Part) (s : Strand) (ha : a.lo ≤ a.hi) (hb : b.lo ≤ b.hi) (hadj : a.hi = b.lo) (i : Int) :
    (⟨a.lo, b.hi, s⟩ : Part).mem i = (a.mem i || b.mem i) := by
  simp only [Part.mem]
  by_cases h1 : a.lo ≤ i <;> by_cases h2 : i < a.hi <;> by_cases h3 : b.lo ≤ i <;> by_cases h4 : i < b.hi <;>
    simp [h1, h2, h3, h4] <;> omega

/-- `mergeAdjacent` keeps the union of the bases and the validity of the parts, provided no piece abuts
    both neighbours (otherwise the code itself loses bases) and abutting pieces share their strand -/
theorem mergeAdjacent_mem (L : Int) (s : Strand) : ∀ (rest more : List Part) (previous m : Part),
    m.hi = previous.hi → PartIn L previous → PartIn L m → (∀ p ∈ more, PartIn L p) → (∀ p ∈ rest, PartIn L p) →
    previous.strand = s → (∀ p ∈ rest, p.strand = s) →
    chainFree (previous :: rest) = true →
    (m = previous ∨ (∀ q, rest.head? = some q → previous.hi ≠ q.lo)) →
    ∃ r, mergeAdjacent (m :: more) previous rest = .ok r ∧
      (∀ i, anyMem r i = (anyMem (m :: more) i || anyMem rest i)) ∧ (∀ p ∈ r, PartIn L p) ∧
      lenSum r = lenSum (m :: more) + lenSum rest
  | [], more, previous, m, _, _, hm, hmore, _, _, _, _, _ => by
    refine ⟨(m :: more).reverse, by simp [mergeAdjacent, pure, Except.pure], ?_, ?_, by simp [lenSum, List.sum_reverse]; omega⟩
    · intro i; simp [anyMem, List.any_reverse, Bool.or_comm]
    · intro p hp
      rcases List.mem_cons.1 (List.mem_reverse.1 hp) with rfl | hp
      · exact hm
      · exact hmore p hp
  | part :: rest, more, previous, m, hmh, hprev, hm, hmore, hrest, hs, hsr, hcf, hinv => by
    have hpart : PartIn L part := hrest part (by simp)
    have hps : part.strand = s := hsr part (by simp)
    have hcf' := chainFree_tail previous (part :: rest) hcf
    by_cases hadj : previous.hi = part.lo
    · -- merge: by the invariant `m` is `previous` itself
      have hmp : m = previous := by
        rcases hinv with h | h
        · exact h
        · exact absurd hadj (h part rfl)
      subst hmp
      have hnext : ∀ q, rest.head? = some q → part.hi ≠ q.lo := by
        intro q hq
        match rest, hq with
        | c :: r, hq =>
          simp at hq; subst hq
          simp [chainFree, hadj] at hcf
          exact hcf.1
      obtain ⟨r, hr, hmem, hin, hsum⟩ := mergeAdjacent_mem L s rest more part ⟨m.lo, part.hi, part.strand⟩ rfl hpart
        ⟨hm.1, by show m.lo < part.hi; have := hpart.2.1; have := hm.2.1; omega, hpart.2.2⟩ hmore (fun p hp => hrest p (by simp [hp])) hps
        (fun p hp => hsr p (by simp [hp])) hcf' (.inr hnext)
      refine ⟨r, ?_, ?_, hin, by rw [hsum]; simp only [lenSum_cons, Part.len]; omega⟩
      · have hse : ¬ (m.strand != part.strand) = true := by simp [hs, hps]
        simp only [mergeAdjacent, hadj, if_true, hse, if_false, Bool.false_eq_true]
        exact hr
      · intro i
        rw [hmem i]
        have := Part.mem_merge m part part.strand (by have := hm.2.1; omega) (by have := hpart.2.1; omega) hadj i
        simp only [anyMem, List.any_cons, this]
        cases m.mem i <;> cases part.mem i <;> simp
    · obtain ⟨r, hr, hmem, hin, hsum⟩ := mergeAdjacent_mem L s rest (m :: more) part part rfl hpart hpart
        (by intro p hp; rcases List.mem_cons.1 hp with rfl | hp; exact hm; exact hmore p hp)
        (fun p hp => hrest p (by simp [hp])) hps (fun p hp => hsr p (by simp [hp])) hcf' (.inl rfl)
      refine ⟨r, ?_, ?_, hin, by rw [hsum]; simp only [lenSum_cons]; omega⟩
      · simp only [mergeAdjacent, hadj, if_false]
        exact hr
      · intro i
        rw [hmem i]
        simp only [anyMem, List.any_cons]
        cases part.mem i <;> cases m.mem i <;> simp

theorem wrapPart_above (L : Int) (p : Part) (h0 : L ≤ p.lo) (h1 : p.lo < p.hi) (h2 : p.hi ≤ 2 * L) (hL : 0 < L) :
    wrapPart L p = [⟨p.lo - L, p.hi - L, p.strand⟩] := by
  unfold wrapPart
  have e1 : p.lo % L = p.lo - L := emod_big' _ L h0 (by omega)
  have e2 : (p.hi - 1) % L = p.hi - 1 - L := emod_big' _ L (by omega) (by omega)
  simp only [e1, e2]
  have c : (decide (0 ≤ p.lo - L) && decide (p.lo - L < p.hi - 1 - L + 1) && decide (p.hi - 1 - L + 1 ≤ L)) = true := by
    simp; omega
  rw [if_pos c]
  simp; omega

theorem wrapPart_straddle_high (L : Int) (p : Part) (h0 : 0 ≤ p.lo) (h1 : p.lo < L) (h2 : L < p.hi) (h3 : p.hi - p.lo ≤ L) :
    wrapPart L p = [⟨p.lo, L, p.strand⟩, ⟨0, p.hi - L, p.strand⟩] := by
  unfold wrapPart
  have e1 : p.lo % L = p.lo := emod_small' _ L h0 h1
  have e2 : (p.hi - 1) % L = p.hi - 1 - L := emod_big' _ L (by omega) (by omega)
  simp only [e1, e2]
  have c : ¬ (decide (0 ≤ p.lo) && decide (p.lo < p.hi - 1 - L + 1) && decide (p.hi - 1 - L + 1 ≤ L)) = true := by
    simp; omega
  rw [if_neg c]
  simp; omega

/-- position `(i - k) % L` for `-L < k < L`, `0 ≤ i < L` -/
theorem rot_cases3 (k i L : Int) (hk0 : -L < k) (hk1 : k < L) (hi0 : 0 ≤ i) (hiL : i < L) :
    (i - k < 0 ∧ (i - k) % L = i - k + L) ∨ (0 ≤ i - k ∧ i - k < L ∧ (i - k) % L = i - k) ∨
    (L ≤ i - k ∧ (i - k) % L = i - k - L) := by
  by_cases h1 : i - k < 0
  · exact .inl ⟨h1, emod_neg' _ L (by omega) h1⟩
  · by_cases h2 : i - k < L
    · exact .inr (.inl ⟨by omega, h2, emod_small' _ L (by omega) h2⟩)
    · exact .inr (.inr ⟨by omega, emod_big' _ L (by omega) (by omega)⟩)

/-- one part, shifted by `k` and brought back into the record: valid pieces of the same strand covering
    exactly the rotated bases -/
theorem wrapPart_shift (L k : Int) (p : Part) (hp : PartIn L p) (hk0 : -L < k) (hk1 : k < L) :
    (∀ q ∈ wrapPart L (shiftPart k p), PartIn L q ∧ q.strand = p.strand) ∧
    (∀ i, (wrapPart L (shiftPart k p)).any (·.mem i) = true ↔ (0 ≤ i ∧ i < L ∧ p.mem ((i - k) % L) = true)) ∧
    lenSum (wrapPart L (shiftPart k p)) = p.len := by
  obtain ⟨h0, h1, h2⟩ := hp
  have hL : 0 < L := by omega
  have key : ∀ i, 0 ≤ i → i < L → ((p.lo ≤ (i - k) % L ∧ (i - k) % L < p.hi) ↔
      ((p.lo + k ≤ i ∧ i < p.hi + k) ∨ (p.lo + k + L ≤ i ∧ i < p.hi + k + L) ∨ (p.lo + k - L ≤ i ∧ i < p.hi + k - L))) := by
    intro i hi0 hiL
    rcases rot_cases3 k i L hk0 hk1 hi0 hiL with ⟨_, e⟩ | ⟨_, _, e⟩ | ⟨_, e⟩ <;> rw [e] <;> omega
  by_cases c1 : 0 ≤ p.lo + k
  · by_cases c2 : p.hi + k ≤ L
    · rw [wrapPart_inside L (shiftPart k p) (by simp [shiftPart]; omega) (by simp [shiftPart]; omega) (by simp [shiftPart]; omega)]
      refine ⟨by intro q hq; simp at hq; subst hq; simp [shiftPart, PartIn]; omega, fun i => ?_, by simp [lenSum, Part.len, shiftPart]; omega⟩
      simp only [List.any_cons, List.any_nil, Bool.or_false, Part.mem_iff, shiftPart]
      constructor
      · intro h; exact ⟨by omega, by omega, (key i (by omega) (by omega)).2 (.inl h)⟩
      · rintro ⟨a, b, h⟩; have := (key i a b).1 h; omega
    · by_cases c3 : L ≤ p.lo + k
      · rw [wrapPart_above L (shiftPart k p) (by simp [shiftPart]; omega) (by simp [shiftPart]; omega) (by simp [shiftPart]; omega) hL]
        refine ⟨by intro q hq; simp at hq; subst hq; simp [shiftPart, PartIn]; omega, fun i => ?_, by simp [lenSum, Part.len, shiftPart]; omega⟩
        simp only [List.any_cons, List.any_nil, Bool.or_false, Part.mem_iff, shiftPart]
        constructor
        · intro h; exact ⟨by omega, by omega, (key i (by omega) (by omega)).2 (.inr (.inr h))⟩
        · rintro ⟨a, b, h⟩; have := (key i a b).1 h; omega
      · rw [wrapPart_straddle_high L (shiftPart k p) (by simp [shiftPart]; omega) (by simp [shiftPart]; omega) (by simp [shiftPart]; omega) (by simp [shiftPart]; omega)]
        refine ⟨by intro q hq; simp at hq; rcases hq with rfl | rfl <;> (simp [shiftPart, PartIn]; omega), fun i => ?_, by simp [lenSum, Part.len, shiftPart]; omega⟩
        simp only [List.any_cons, List.any_nil, Bool.or_false, Bool.or_eq_true, Part.mem_iff, shiftPart]
        constructor
        · intro h; exact ⟨by omega, by omega, (key i (by omega) (by omega)).2 (by omega)⟩
        · rintro ⟨a, b, h⟩; have := (key i a b).1 h; omega
  · by_cases c2 : p.hi + k ≤ 0
    · rw [wrapPart_below L (shiftPart k p) (by simp [shiftPart]; omega) (by simp [shiftPart]; omega) (by simp [shiftPart]; omega)]
      refine ⟨by intro q hq; simp at hq; subst hq; simp [shiftPart, PartIn]; omega, fun i => ?_, by simp [lenSum, Part.len, shiftPart]; omega⟩
      simp only [List.any_cons, List.any_nil, Bool.or_false, Part.mem_iff, shiftPart]
      constructor
      · intro h; exact ⟨by omega, by omega, (key i (by omega) (by omega)).2 (.inr (.inl h))⟩
      · rintro ⟨a, b, h⟩; have := (key i a b).1 h; omega
    · rw [wrapPart_straddle L (shiftPart k p) (by simp [shiftPart]; omega) (by simp [shiftPart]; omega) (by simp [shiftPart]; omega) (by simp [shiftPart]; omega)]
      refine ⟨by intro q hq; simp at hq; rcases hq with rfl | rfl <;> (simp [shiftPart, PartIn]; omega), fun i => ?_, by simp [lenSum, Part.len, shiftPart]; omega⟩
      simp only [List.any_cons, List.any_nil, Bool.or_false, Bool.or_eq_true, Part.mem_iff, shiftPart]
      constructor
      · intro h; exact ⟨by omega, by omega, (key i (by omega) (by omega)).2 (by omega)⟩
      · rintro ⟨a, b, h⟩; have := (key i a b).1 h; omega

theorem emod_emod_shift (a L : Int) (hL : 0 < L) : (a + L) % L = a % L := by
  have : a + L = a + 1 * L := by omega
  rw [this, Int.add_mul_emod_self_right]

/-- `offset_location` rotates: for parts inside the record of one strand, an offset `k` with `0 < |k| < L`, a
    location not as long as the record, and pieces of which none abuts both neighbours, the result is made of
    valid parts and covers exactly the bases `i` with `(i - k) mod L` in the location -/
theorem offset_rotates_general (l : Loc) (k L : Int) (s : Strand) (hne : l.parts ≠ [])
    (hparts : ∀ p ∈ l.parts, PartIn L p) (hs : ∀ p ∈ l.parts, p.strand = s)
    (hk : k ≠ 0) (hk0 : -L < k) (hk1 : k < L) (hlen : l.len ≠ L) (hcf : chainFree (rotPieces L k l) = true) :
    ∃ r, offsetLocation l k L = .ok r ∧ (∀ p ∈ r.parts, PartIn L p) ∧ r.len = l.len ∧
      ∀ i, r.mem i = true ↔ (0 ≤ i ∧ i < L ∧ l.mem ((i - k) % L) = true) := by
  obtain ⟨p0, hp0⟩ := List.exists_mem_of_ne_nil _ hne
  have hL : 0 < L := by have := hparts p0 hp0; unfold PartIn at this; omega
  have hnonempty : ∀ p ∈ l.parts, p.lo < p.hi := fun p hp => (hparts p hp).2.1
  by_cases htriv : 0 < l.start + k ∧ l.start + k < l.end + k ∧ l.end + k < L
  · -- no wrapping: every part moved
    refine ⟨shiftLoc l k, offset_no_wrap l k L hne hnonempty hk hL hlen htriv.1 htriv.2.2, ?_, ?_, ?_⟩
    · intro p hp
      have : p ∈ l.parts.map (shiftPart k) := by
        cases l <;> simpa [shiftLoc, Loc.parts, shiftPart] using hp
      obtain ⟨q, hq, rfl⟩ := List.mem_map.1 this
      have hb := start_le_part l q hq
      have := hparts q hq
      unfold PartIn at this ⊢
      simp only [shiftPart]
      omega
    · cases l with
      | simple p => simp [shiftLoc, Loc.len, Loc.parts, Part.len]; omega
      | compound ps =>
        simp only [shiftLoc, Loc.len, Loc.parts, List.map_map]
        congr 1
        apply List.map_congr_left
        intro p _
        simp [Part.len]; omega
    · intro i
      rw [mem_shiftLoc]
      constructor
      · intro h
        have hb := mem_bounds l _ h
        obtain ⟨p, hp, hpm⟩ := (by simpa [Loc.mem] using h : ∃ p ∈ l.parts, p.mem (i - k) = true)
        rw [Part.mem_iff] at hpm
        have hpi := hparts p hp
        unfold PartIn at hpi
        have e : (i - k) % L = i - k := emod_small' _ L (by omega) (by omega)
        rw [e]
        exact ⟨by omega, by omega, h⟩
      · rintro ⟨hi0, hiL, h⟩
        have hb := mem_bounds l _ h
        rcases rot_cases3 k i L hk0 hk1 hi0 hiL with ⟨_, e⟩ | ⟨_, _, e⟩ | ⟨_, e⟩ <;> rw [e] at h hb
        · omega
        · exact h
        · omega
  · -- general branch
    have hsp := shiftedParts_ok l k hnonempty
    rw [offsetLocation_general l k L _ hL hk hlen htriv hsp, List.flatMap_map]
    have hpieces : (l.parts.flatMap fun p => wrapPart L ⟨p.lo + k, p.hi + k, p.strand⟩) = rotPieces L k l := rfl
    rw [hpieces]
    have hall : ∀ q ∈ rotPieces L k l, PartIn L q ∧ q.strand = s := by
      intro q hq
      obtain ⟨p, hp, hqp⟩ := List.mem_flatMap.1 hq
      have := (wrapPart_shift L k p (hparts p hp) hk0 hk1).1 q hqp
      exact ⟨this.1, by rw [this.2, hs p hp]⟩
    have hmemP : ∀ i, anyMem (rotPieces L k l) i = true ↔ (0 ≤ i ∧ i < L ∧ l.mem ((i - k) % L) = true) := by
      intro i
      simp only [anyMem, rotPieces, List.any_flatMap, List.any_eq_true, Loc.mem]
      constructor
      · rintro ⟨p, hp, h⟩
        have := (wrapPart_shift L k p (hparts p hp) hk0 hk1).2.1 i
        simp only [List.any_eq_true] at this
        obtain ⟨a, b, c⟩ := this.1 h
        exact ⟨a, b, p, hp, c⟩
      · rintro ⟨a, b, p, hp, c⟩
        have := (wrapPart_shift L k p (hparts p hp) hk0 hk1).2.1 i
        simp only [List.any_eq_true] at this
        exact ⟨p, hp, this.2 ⟨a, b, c⟩⟩
    cases hpc : rotPieces L k l with
    | nil =>
      exfalso
      have h0 := hparts p0 hp0
      -- the first base of the rotated first part is covered
      have hm : p0.mem p0.lo = true := by rw [Part.mem_iff]; unfold PartIn at h0; omega
      obtain ⟨i, hi0, hiL, hrot⟩ : ∃ i, 0 ≤ i ∧ i < L ∧ (i - k) % L = p0.lo := by
        refine ⟨(p0.lo + k) % L, Int.emod_nonneg _ (by omega), Int.emod_lt_of_pos _ hL, ?_⟩
        unfold PartIn at h0
        rw [Int.sub_emod, Int.emod_emod_of_dvd _ (Int.dvd_refl L), ← Int.sub_emod]
        have : p0.lo + k - k = p0.lo := by omega
        rw [this]
        exact emod_small' _ L (by omega) (by omega)
      have := (hmemP i).2 ⟨hi0, hiL, by simp only [Loc.mem, List.any_eq_true]; exact ⟨p0, hp0, by rw [hrot]; exact hm⟩⟩
      rw [hpc] at this
      simp [anyMem] at this
    | cons first rest =>
      rw [hpc] at hall hcf hmemP
      obtain ⟨r, hr, hmem, hin, hsum⟩ := mergeAdjacent_mem L s rest [] first first rfl (hall first (by simp)).1
        (hall first (by simp)).1 (by simp) (fun p hp => (hall p (by simp [hp])).1) (hall first (by simp)).2
        (fun p hp => (hall p (by simp [hp])).2) hcf (.inl rfl)
      have hallB := allIn_of L (first :: rest) (fun p hp => (hall p hp).1)
      have hparts_r : (Loc.ofParts r).parts = r := by
        unfold Loc.ofParts; split <;> simp [Loc.parts]
      refine ⟨Loc.ofParts r, ?_, ?_, ?_, ?_⟩
      · unfold finishOffset
        simp only [hallB, Bool.not_true, Bool.false_eq_true, if_false, bind, Except.bind, pure, Except.pure, hr]
      · rw [hparts_r]; exact hin
      · have hls : lenSum (rotPieces L k l) = l.len := by
          unfold rotPieces Loc.len
          have : ∀ ps : List Part, (∀ p ∈ ps, PartIn L p) →
              lenSum (ps.flatMap fun p => wrapPart L (shiftPart k p)) = (ps.map Part.len).sum := by
            intro ps
            induction ps with
            | nil => intro _; rfl
            | cons p ps ih =>
              intro h
              have h1 := (wrapPart_shift L k p (h p (by simp)) hk0 hk1).2.2
              have h2 := ih (fun q hq => h q (by simp [hq]))
              simp only [List.flatMap_cons, lenSum, List.map_append, List.sum_append, List.map_cons, List.sum_cons] at h1 h2 ⊢
              rw [h1, h2]
          exact this l.parts hparts
        show ((Loc.ofParts r).parts.map Part.len).sum = l.len
        rw [hparts_r, ← hls, hpc]
        show lenSum r = lenSum (first :: rest)
        rw [hsum]; simp [lenSum]
      · intro i
        have : (Loc.ofParts r).mem i = anyMem r i := by
          unfold Loc.ofParts anyMem Loc.mem; split <;> simp [Loc.parts]
        rw [this, hmem i, ← hmemP i]
        simp [anyMem, Bool.or_comm]

theorem finishOffset_one (L : Int) (a : Part) (ha : PartIn L a) : finishOffset L [a] = .ok (.simple a) := by
  have hall := allIn_of L [a] (by intro p hp; simp at hp; subst hp; exact ha)
  unfold finishOffset
  simp only [hall, Bool.not_true, Bool.false_eq_true, if_false, bind, Except.bind, pure, Except.pure]
  simp [mergeAdjacent, Loc.ofParts, pure, Except.pure]

/-- a single part moved by `k` that stays inside the record (its end may land exactly on the record's end) is
    just moved -/
theorem offset_simple_shift (p : Part) (k L : Int) (hk : k ≠ 0) (hL : 0 < L) (hp : p.lo < p.hi)
    (h1 : 0 < p.lo + k) (h2 : p.hi + k ≤ L) (hlen : p.hi - p.lo ≠ L) :
    offsetLocation (.simple p) k L = .ok (.simple (shiftPart k p)) := by
  have hlen' : (Loc.simple p).len ≠ L := by simpa [Loc.len, Loc.parts, Part.len] using hlen
  by_cases h3 : p.hi + k < L
  · have := offset_no_wrap (.simple p) k L (by simp [Loc.parts]) (by intro q hq; simp [Loc.parts] at hq; subst hq; exact hp)
      hk hL hlen' (by simpa [Loc.start] using h1) (by simpa [Loc.end] using h3)
    rw [this]; rfl
  · rw [offsetLocation_general (.simple p) k L [shiftPart k p] hL hk hlen' (by simp [Loc.start, Loc.end]; omega)
      (by have := shiftedParts_ok (.simple p) k (by intro q hq; simp [Loc.parts] at hq; subst hq; exact hp)
          simpa [Loc.parts, shiftPart] using this)]
    simp only [List.flatMap_cons, List.flatMap_nil, List.append_nil]
    rw [wrapPart_inside L (shiftPart k p) (by simp [shiftPart]; omega) (by simp [shiftPart]; omega) (by simp [shiftPart]; omega)]
    exact finishOffset_one L _ (by simp [PartIn, shiftPart]; omega)

end ASV.RegionExtract
