/-
  C08 helper lemmas, part 5: the invariant of every history of calls on a record
  (`add_cds_feature`, `add_<area>`, `clear_*`, the observing calls).
-/
import ASV.Proofs.LookupTree
namespace ASV.Lookup
open ASV

/-- gene `g` reaches collection `d`, which files it under section `s`: some collection among `areas` contains
    `g` and passes it down to `d` (`d` is that collection itself or a descendant all of whose ancestors below
    it contain `g`) -/
def LinkedS (areas : List AreaT) (g : Gene) (d : AreaT) (s : Section) : Prop :=
  ∃ a ∈ areas, containedBy g.loc a.loc = true ∧ (d, s) ∈ downNodes g none a

def Linked (areas : List AreaT) (g : Gene) (d : AreaT) : Prop := ∃ s, LinkedS areas g d s

theorem LinkedS.mono {l₁ l₂ : List AreaT} (h : ∀ a ∈ l₁, a ∈ l₂) {g : Gene} {d : AreaT} {s : Section}
    (hl : LinkedS l₁ g d s) : LinkedS l₂ g d s := by
  obtain ⟨a, ha, hc, hd⟩ := hl; exact ⟨a, h a ha, hc, hd⟩

theorem Linked.mono {l₁ l₂ : List AreaT} (h : ∀ a ∈ l₁, a ∈ l₂) {g : Gene} {d : AreaT}
    (hl : Linked l₁ g d) : Linked l₂ g d := by
  obtain ⟨s, hs⟩ := hl; exact ⟨s, hs.mono h⟩

/-! ### inserting a gene keeps the list sorted -/

theorem insert_sorted {fs : List Gene} (hs : Sorted fs) (g : Gene) :
    Sorted (fs.takeWhile (fun f => !locLt g.loc f.loc) ++ g :: fs.dropWhile (fun f => !locLt g.loc f.loc)) := by
  have hsplit : fs = fs.takeWhile (fun f => !locLt g.loc f.loc) ++ fs.dropWhile (fun f => !locLt g.loc f.loc) :=
    (List.takeWhile_append_dropWhile).symm
  have hs' := hs
  rw [hsplit] at hs'
  unfold Sorted at hs' ⊢
  rw [List.pairwise_append] at hs' ⊢
  obtain ⟨h1, h2, h3⟩ := hs'
  refine ⟨h1, ?_, ?_⟩
  · rw [List.pairwise_cons]
    refine ⟨?_, h2⟩
    intro b hb
    -- the head of the `dropWhile` is above `g`; everything after it is not below the head
    match hd : fs.dropWhile (fun f => !locLt g.loc f.loc) with
    | [] => rw [hd] at hb; simp at hb
    | y :: rest =>
      have hy : locLt g.loc y.loc = true := by
        have := List.head_dropWhile_not (fun f : Gene => !locLt g.loc f.loc) (l := fs) (by rw [hd]; simp)
        simpa [hd] using this
      rw [hd] at hb h2
      rcases List.mem_cons.1 hb with rfl | hbr
      · rw [locLt_true_iff] at hy
        rw [locLt_false_iff]
        omega
      · have hby := (List.pairwise_cons.1 h2).1 b hbr
        rw [locLt_true_iff] at hy
        rw [locLt_false_iff] at hby ⊢
        omega
  · intro a ha b hb
    rcases List.mem_cons.1 hb with rfl | hbr
    · have := mem_takeWhile_imp' (fun f : Gene => !locLt b.loc f.loc) _ a ha
      simpa using this
    · exact h3 a ha b hbr

theorem mem_insert {fs : List Gene} (p : Gene → Bool) (g x : Gene) :
    x ∈ fs.takeWhile p ++ g :: fs.dropWhile p ↔ x ∈ fs ∨ x = g := by
  have hm : x ∈ fs ↔ x ∈ fs.takeWhile p ∨ x ∈ fs.dropWhile p := by
    rw [← List.mem_append, List.takeWhile_append_dropWhile]
  rw [List.mem_append, List.mem_cons, hm]
  constructor
  · rintro (h | h | h)
    · exact Or.inl (Or.inl h)
    · exact Or.inr h
    · exact Or.inl (Or.inr h)
  · rintro ((h | h) | h)
    · exact Or.inl h
    · exact Or.inr (Or.inr h)
    · exact Or.inr (Or.inl h)

theorem pairwise_insert {fs : List Gene} (p : Gene → Bool) (g : Gene) (h : fs.Pairwise fun a b => a.id ≠ b.id)
    (hg : ∀ f ∈ fs, f.id ≠ g.id) :
    (fs.takeWhile p ++ g :: fs.dropWhile p).Pairwise fun a b => a.id ≠ b.id := by
  have hsplit : fs = fs.takeWhile p ++ fs.dropWhile p := (List.takeWhile_append_dropWhile).symm
  have h' := h
  rw [hsplit, List.pairwise_append] at h'
  obtain ⟨h1, h2, h3⟩ := h'
  rw [List.pairwise_append]
  refine ⟨h1, ?_, ?_⟩
  · rw [List.pairwise_cons]
    exact ⟨fun b hb => (hg b ((List.dropWhile_sublist _).subset hb)).symm, h2⟩
  · intro a ha b hb
    rcases List.mem_cons.1 hb with rfl | hbr
    · exact hg a ((List.takeWhile_sublist _).subset ha)
    · exact h3 a ha b hbr

/-- `features.insert(bisect_right(features, cds), cds)` -/
def ins (fs : List Gene) (g : Gene) : List Gene :=
  fs.takeWhile (fun f => !locLt g.loc f.loc) ++ g :: fs.dropWhile (fun f => !locLt g.loc f.loc)

/-! ### the newest-first list of `cds.region = …` assignments -/

/-- the value the newest assignment for `gid` gives -/
def ptr (l : List (Nat × Option Nat)) (gid : Nat) : Option Nat := ((l.find? fun x => x.1 == gid).map (·.2)).join

theorem regionOfGene_eq (r : Rec) (gid : Nat) : r.regionOfGene gid = ptr r.regionOf gid := rfl

theorem ptr_skip {pre old : List (Nat × Option Nat)} {gid : Nat} (h : ∀ x ∈ pre, x.1 ≠ gid) :
    ptr (pre ++ old) gid = ptr old gid := by
  induction pre with
  | nil => rfl
  | cons x pre ih =>
    have hx : (x.1 == gid) = false := by simpa using h x (by simp)
    simp only [ptr, List.cons_append, List.find?_cons, hx] at ih ⊢
    exact ih (fun y hy => h y (by simp [hy]))

theorem ptr_hit {pre old : List (Nat × Option Nat)} {gid : Nat} {v : Option Nat}
    (hex : ∃ x ∈ pre, x.1 = gid) (hall : ∀ x ∈ pre, x.1 = gid → x.2 = v) : ptr (pre ++ old) gid = v := by
  induction pre with
  | nil => obtain ⟨x, hx, _⟩ := hex; simp at hx
  | cons x pre ih =>
    by_cases hx : x.1 = gid
    · have : (x.1 == gid) = true := by simpa using hx
      simp only [ptr, List.cons_append, List.find?_cons, this, Option.map_some, Option.join_some]
      exact hall x (by simp) hx
    · have hx' : (x.1 == gid) = false := by simpa using hx
      simp only [ptr, List.cons_append, List.find?_cons, hx'] at ih ⊢
      apply ih
      · obtain ⟨y, hy, e⟩ := hex
        rcases List.mem_cons.1 hy with rfl | hy'
        · exact absurd e hx
        · exact ⟨y, hy', e⟩
      · exact fun y hy => hall y (by simp [hy])

/-! ### the invariant -/

/-- what an area handed to the record must satisfy: a well-formed location, and regions only at the top -/
def AreaOK (a : AreaT) : Prop := QueryOK a.loc ∧ ∀ d ∈ nodes a, d.kind = .region → d = a

/-- the part of the invariant that does not involve caches or the log.  `L` is what the spec says is alive
    (`liveAfter` of the calls so far), `ever` every collection handed to the record so far. -/
structure InvCore (S : Prop) (L : Live) (ever : List AreaT) (r : Rec) : Prop where
  genesLive : ∀ g, g ∈ r.genes ↔ g ∈ L.genes
  regionsEq : r.regions = L.regions
  protosEq : r.protos = L.protos
  candsEq : r.cands = L.cands
  subsEq : r.subs = L.subs
  liveEver : ∀ a ∈ registered r, a ∈ ever
  sorted : Sorted r.genes
  ok : GenesOK r.genes
  ids : r.genes.Pairwise fun a b => a.id ≠ b.id
  byName : ∀ x, x ∈ r.byName ↔ ∃ g ∈ r.genes, x = (g.id, g)
  byLoc : ∀ l, l ∈ r.byLoc ↔ ∃ g ∈ r.genes, g.loc = l
  areasOK : ∀ a ∈ ever, AreaOK a
  kindsR : ∀ a ∈ r.regions, a.kind = .region
  kindsO : ∀ a ∈ r.protos ++ r.cands ++ r.subs, a.kind ≠ .region
  disjoint : r.regions.Pairwise fun x y => overlapsWith y.loc x.loc = false
  membersSound : ∀ x ∈ r.members, ∃ g ∈ r.genes, ∃ d, Linked ever g d ∧ x = (d.id, g.id)
  membersComplete : ∀ g ∈ r.genes, ∀ d, Linked (registered r) g d → (d.id, g.id) ∈ r.members
  sectionsSound : ∀ x ∈ r.sections, ∃ g ∈ r.genes, ∃ d s, LinkedS ever g d s ∧ x = ((d.id, s), g.id)
  sectionsComplete : ∀ g ∈ r.genes, ∀ d s, LinkedS (registered r) g d s → ((d.id, s), g.id) ∈ r.sections
  cover : ∀ aid gid, (aid, gid) ∈ r.members ↔ ∃ s, ((aid, s), gid) ∈ r.sections
  defsSub : ∀ x ∈ r.defs, x ∈ r.members
  defsSound : S → ∀ x ∈ r.defs, ∃ g ∈ r.genes, ∃ d, Linked ever g d ∧ defines g d = true ∧ x = (d.id, g.id)
  defsComplete : S → ∀ g ∈ r.genes, ∀ d, Linked (registered r) g d → defines g d = true → (d.id, g.id) ∈ r.defs
  regionKeys : ∀ x ∈ r.regionOf, ∃ g ∈ r.genes, g.id = x.1
  regionPtr : ∀ g ∈ r.genes,
    (∀ a ∈ r.regions, containedBy g.loc a.loc = true → r.regionOfGene g.id = some a.id) ∧
    ((∀ a ∈ r.regions, containedBy g.loc a.loc = false) → r.regionOfGene g.id = none)

/-- the caches: whatever is marked clean holds the current value -/
structure InvCache (r : Rec) : Prop where
  cds : r.cdsCacheDirty = false → r.cdsCache = r.genes
  slot : ∀ x ∈ r.slotClean, ((r.slotVal.find? fun y => y.1 == x).map (·.2)) = some (r.section x.1 x.2)
  tuple : ∀ aid ∈ r.clean, ((r.tupleVal.find? fun y => y.1 == aid).map (·.2))
    = some [r.section aid .pre, r.section aid .cross, r.section aid .post]

structure Inv (S : Prop) (L : Live) (ever : List AreaT) (r : Rec) : Prop where
  core : InvCore S L ever r
  cache : InvCache r

theorem Inv.init (S : Prop) (len : Int) : Inv S {} [] { len := len } := by
  constructor
  · constructor <;> simp [registered, Sorted, GenesOK, Linked, LinkedS, Live.genes, Live.regions]
  · constructor <;> simp

/-- every gene of a collection sits in one of its sections, and only its genes do -/
theorem Eff2.cover {P Q : List (Gene × AreaT × Section)} {r r' : Rec} (h : Eff2 P Q r r')
    (hc : ∀ aid gid, (aid, gid) ∈ r.members ↔ ∃ s, ((aid, s), gid) ∈ r.sections) :
    ∀ aid gid, (aid, gid) ∈ r'.members ↔ ∃ s, ((aid, s), gid) ∈ r'.sections := by
  intro aid gid
  rw [h.members]
  simp only [h.sections, hc]
  constructor
  · rintro (⟨s, hs⟩ | ⟨t, ht, e⟩)
    · exact ⟨s, Or.inl hs⟩
    · injection e with e1 e2
      exact ⟨t.2.2, Or.inr ⟨t, ht, by rw [e1, e2]⟩⟩
  · rintro ⟨s, hs | ⟨t, ht, e⟩⟩
    · exact Or.inl ⟨s, hs⟩
    · injection e with e1 e2
      injection e1 with e1 _
      exact Or.inr ⟨t, ht, by rw [e1, e2]⟩

/-- a defining gene is a listed gene -/
theorem Eff2.defsSub {P : List (Gene × AreaT × Section)} {r r' : Rec} (h : Eff2 P P r r')
    (hc : ∀ x ∈ r.defs, x ∈ r.members) : ∀ x ∈ r'.defs, x ∈ r'.members := by
  intro x hx
  rcases (h.defs x).1 hx with hx | ⟨t, ht, _, e⟩
  · exact (h.members x).2 (Or.inl (hc x hx))
  · exact (h.members x).2 (Or.inr ⟨t, ht, e⟩)

/-- adding entries never invalidates a clean cache: clean ones were not touched -/
theorem Eff2.cache {P Q : List (Gene × AreaT × Section)} {r r' : Rec} (h : Eff2 P Q r r') (c : InvCache r) : InvCache r' := by
  constructor
  · rw [h.cdsCacheDirty, h.cdsCache, h.genes]; exact c.cds
  · intro x hx
    obtain ⟨h1, h2⟩ := (h.slotClean x).1 hx
    rw [h.slotVal, c.slot x h1, h.sectionSame x.1 x.2 (fun t ht => h2 t ht)]
  · intro aid ha
    obtain ⟨h1, h2⟩ := (h.clean aid).1 ha
    have e : ∀ s, r'.section aid s = r.section aid s := fun s =>
      h.sectionSame aid s (fun t ht e => h2 t ht (by injection e))
    rw [h.tupleVal, c.tuple aid h1, e, e, e]

end ASV.Lookup
