/-
  C08 helper lemmas, part 5: the invariant of every history of `add_cds_feature` / `add_<area>` calls.
-/
import ASV.Proofs.LookupRec
namespace ASV.Lookup
open ASV

/-- gene `g` reaches collection `d`: some collection among `areas` contains `g` and passes it down to `d`
    (`d` is that collection itself or a descendant all of whose ancestors below it contain `g`) -/
def Linked (areas : List AreaT) (g : Gene) (d : AreaT) : Prop :=
  ∃ a ∈ areas, containedBy g.loc a.loc = true ∧ d ∈ downNodes g a

theorem Linked.congr {l₁ l₂ : List AreaT} (h : ∀ a, a ∈ l₁ ↔ a ∈ l₂) (g : Gene) (d : AreaT) :
    Linked l₁ g d ↔ Linked l₂ g d := by
  simp only [Linked, h]

/-! ### inserting a gene keeps the list sorted -/

theorem insert_sorted {fs : List Gene} (hs : Sorted fs) (g : Gene) :
    Sorted (fs.takeWhile (fun f => !locLt g.loc f.loc) ++ g :: fs.dropWhile (fun f => !locLt g.loc f.loc)) := by
  have hsplit : fs = fs.takeWhile (fun f => !locLt g.loc f.loc) ++ fs.dropWhile (fun f => !locLt g.loc f.loc) :=
    (List.takeWhile_append_dropWhile).symm
  have hs' := hs
  rw [hsplit] at hs'
  unfold Sorted at hs' ⊢
  rw [List.pairwise_append] at hs' ⊢
  obtain ⟨h1, h2, h3⟩ := hs'
  refine ⟨h1, ?_, ?_⟩
  · rw [List.pairwise_cons]
    refine ⟨?_, h2⟩
    intro b hb
    -- the head of the `dropWhile` is above `g`; everything after it is not below the head
    match hd : fs.dropWhile (fun f => !locLt g.loc f.loc) with
    | [] => rw [hd] at hb; simp at hb
    | y :: rest =>
      have hy : locLt g.loc y.loc = true := by
        have := List.head_dropWhile_not (fun f : Gene => !locLt g.loc f.loc) (l := fs) (by rw [hd]; simp)
        simpa [hd] using this
      rw [hd] at hb h2
      rcases List.mem_cons.1 hb with rfl | hbr
      · rw [locLt_true_iff] at hy
        rw [locLt_false_iff]
        omega
      · have hby := (List.pairwise_cons.1 h2).1 b hbr
        rw [locLt_true_iff] at hy
        rw [locLt_false_iff] at hby ⊢
        omega
  · intro a ha b hb
    rcases List.mem_cons.1 hb with rfl | hbr
    · have := mem_takeWhile_imp' (fun f : Gene => !locLt b.loc f.loc) _ a ha
      simpa using this
    · exact h3 a ha b hbr

theorem mem_insert {fs : List Gene} (p : Gene → Bool) (g x : Gene) :
    x ∈ fs.takeWhile p ++ g :: fs.dropWhile p ↔ x ∈ fs ∨ x = g := by
  have hm : x ∈ fs ↔ x ∈ fs.takeWhile p ∨ x ∈ fs.dropWhile p := by
    rw [← List.mem_append, List.takeWhile_append_dropWhile]
  rw [List.mem_append, List.mem_cons, hm]
  constructor
  · rintro (h | h | h)
    · exact Or.inl (Or.inl h)
    · exact Or.inr h
    · exact Or.inl (Or.inr h)
  · rintro ((h | h) | h)
    · exact Or.inl h
    · exact Or.inr (Or.inr h)
    · exact Or.inr (Or.inl h)

/-! ### the invariant -/

/-- what holds after every successful history; `seen` is the list of calls made so far -/
structure Inv (seen : List Op) (r : Rec) : Prop where
  genesSeen : ∀ g, g ∈ r.genes ↔ Op.cds g ∈ seen
  areasSeen : ∀ a, a ∈ registered r ↔ Op.area a ∈ seen
  regionsSeen : ∀ a, a ∈ r.regions ↔ (Op.area a ∈ seen ∧ a.kind = .region)
  sorted : Sorted r.genes
  ok : GenesOK r.genes
  ids : r.genes.Pairwise fun a b => a.id ≠ b.id
  areasOK : ∀ a ∈ registered r, QueryOK a.loc
  disjoint : r.regions.Pairwise fun x y => overlapsWith y.loc x.loc = false
  members : ∀ x, x ∈ r.members ↔ ∃ g ∈ r.genes, ∃ d, Linked (registered r) g d ∧ x = (d.id, g.id)
  defs : ∀ x, x ∈ r.defs ↔ ∃ g ∈ r.genes, ∃ d, Linked (registered r) g d ∧ defines g d = true ∧ x = (d.id, g.id)
  regionOf : ∀ x, x ∈ r.regionOf ↔ ∃ g ∈ r.genes, ∃ d, Linked (registered r) g d ∧ d.kind = .region ∧ x = (g.id, d.id)

/-- the inputs a call must have: a well-formed gene location, a well-formed area location -/
def OpOK : Op → Prop
  | .cds g => LocOK g.loc
  | .area a => QueryOK a.loc

theorem Inv.init (len : Int) : Inv [] { len := len } := by
  constructor <;> simp [registered, Sorted, GenesOK, Linked]

theorem pairwise_insert {fs : List Gene} (p : Gene → Bool) (g : Gene) (h : fs.Pairwise fun a b => a.id ≠ b.id)
    (hg : ∀ f ∈ fs, f.id ≠ g.id) :
    (fs.takeWhile p ++ g :: fs.dropWhile p).Pairwise fun a b => a.id ≠ b.id := by
  have hsplit : fs = fs.takeWhile p ++ fs.dropWhile p := (List.takeWhile_append_dropWhile).symm
  have h' := h
  rw [hsplit, List.pairwise_append] at h'
  obtain ⟨h1, h2, h3⟩ := h'
  rw [List.pairwise_append]
  refine ⟨h1, ?_, ?_⟩
  · rw [List.pairwise_cons]
    exact ⟨fun b hb => (hg b ((List.dropWhile_sublist _).subset hb)).symm, h2⟩
  · intro a ha b hb
    rcases List.mem_cons.1 hb with rfl | hbr
    · exact hg a ((List.takeWhile_sublist _).subset ha)
    · exact h3 a ha b hbr

/-- `features.insert(bisect_right(features, cds), cds)` -/
def ins (fs : List Gene) (g : Gene) : List Gene :=
  fs.takeWhile (fun f => !locLt g.loc f.loc) ++ g :: fs.dropWhile (fun f => !locLt g.loc f.loc)

theorem addCds_ok {r r' : Rec} {g : Gene} (h : addCds r g = .ok r') :
    (∀ f ∈ r.genes, f.id ≠ g.id) ∧ r' = linkCdsToParent { r with genes := ins r.genes g } g := by
  unfold Lookup.addCds at h
  cases h1 : keyExists g.loc with
  | false => simp [h1, throw, throwThe, MonadExceptOf.throw] at h
  | true =>
    simp only [h1, Bool.not_true, Bool.false_eq_true, if_false] at h
    cases h2 : (r.genes.any fun f => f.loc == g.loc) with
    | true => simp [h2, throw, throwThe, MonadExceptOf.throw] at h
    | false =>
      simp only [h2, Bool.false_eq_true, if_false] at h
      cases h3 : (r.genes.any fun f => f.id == g.id) with
      | true => simp [h3, throw, throwThe, MonadExceptOf.throw] at h
      | false =>
        simp only [h3, Bool.false_eq_true, if_false, pure, Except.pure] at h
        injection h with h
        refine ⟨?_, h.symm⟩
        intro f hf e
        have : (r.genes.any fun f => f.id == g.id) = true := by
          rw [List.any_eq_true]
          exact ⟨f, hf, by simp [e]⟩
        rw [h3] at this
        exact absurd this (by simp)

theorem Inv.addCds {seen : List Op} {r r' : Rec} (h : Inv seen r) (g : Gene) (hg : LocOK g.loc)
    (hstep : addCds r g = .ok r') : Inv (seen ++ [.cds g]) r' := by
  obtain ⟨hidne, hr'⟩ := addCds_ok hstep
  have hstep : linkCdsToParent { r with genes := ins r.genes g } g = r' := hr'.symm
  clear hr'
  have eff := linkCdsToParent_eff { r with genes := ins r.genes g } g
  rw [hstep] at eff
  have hreg : registered r' = registered r := by
    simp only [registered, eff.regions, eff.protos, eff.cands, eff.subs]
  have hgenes : ∀ x, x ∈ r'.genes ↔ x ∈ r.genes ∨ x = g := by
    intro x; rw [eff.genes]; exact mem_insert (fun f => !locLt g.loc f.loc) g x
  have hlink : ∀ d, d ∈ downAll g (registered r) ↔ Linked (registered r) g d := fun d => mem_downAll g _ d
  constructor
  · intro x; rw [hgenes, h.genesSeen]; simp
  · intro a; rw [hreg, h.areasSeen]; simp
  · intro a; rw [eff.regions]; simp only []; rw [h.regionsSeen]; simp
  · rw [eff.genes]; exact insert_sorted h.sorted g
  · intro x hx
    rcases (hgenes x).1 hx with hx | rfl
    · exact h.ok x hx
    · exact hg
  · rw [eff.genes]; exact pairwise_insert (fun f => !locLt g.loc f.loc) g h.ids hidne
  · rw [hreg]; exact h.areasOK
  · rw [eff.regions]; exact h.disjoint
  · intro x
    rw [eff.members, hreg]
    simp only [h.members, hgenes, List.mem_map, registered] at *
    constructor
    · rintro (⟨g', hg', d, hl, rfl⟩ | ⟨gd, ⟨d, hd, rfl⟩, rfl⟩)
      · exact ⟨g', Or.inl hg', d, hl, rfl⟩
      · exact ⟨g, Or.inr rfl, d, (hlink d).1 hd, rfl⟩
    · rintro ⟨g', hg' | rfl, d, hl, rfl⟩
      · exact Or.inl ⟨g', hg', d, hl, rfl⟩
      · exact Or.inr ⟨(g', d), ⟨d, (hlink d).2 hl, rfl⟩, rfl⟩
  · intro x
    rw [eff.defs, hreg]
    simp only [h.defs, hgenes, List.mem_map, registered] at *
    constructor
    · rintro (⟨g', hg', d, hl, hdf, rfl⟩ | ⟨gd, ⟨d, hd, rfl⟩, hdf, rfl⟩)
      · exact ⟨g', Or.inl hg', d, hl, hdf, rfl⟩
      · exact ⟨g, Or.inr rfl, d, (hlink d).1 hd, hdf, rfl⟩
    · rintro ⟨g', hg' | rfl, d, hl, hdf, rfl⟩
      · exact Or.inl ⟨g', hg', d, hl, hdf, rfl⟩
      · exact Or.inr ⟨(g', d), ⟨d, (hlink d).2 hl, rfl⟩, hdf, rfl⟩
  · intro x
    rw [eff.regionOf, hreg]
    simp only [h.regionOf, hgenes, List.mem_map, registered] at *
    constructor
    · rintro (⟨g', hg', d, hl, hdf, rfl⟩ | ⟨gd, ⟨d, hd, rfl⟩, hdf, rfl⟩)
      · exact ⟨g', Or.inl hg', d, hl, hdf, rfl⟩
      · exact ⟨g, Or.inr rfl, d, (hlink d).1 hd, hdf, rfl⟩
    · rintro ⟨g', hg' | rfl, d, hl, hdf, rfl⟩
      · exact Or.inl ⟨g', hg', d, hl, hdf, rfl⟩
      · exact Or.inr ⟨(g', d), ⟨d, (hlink d).2 hl, rfl⟩, hdf, rfl⟩

/-! ### adding an area -/

/-- the record right after the collection has been put into its list -/
def reg (r : Rec) (a : AreaT) : Rec :=
  match a.kind with
  | .proto => { r with protos := r.protos ++ [a] }
  | .cand => { r with cands := r.cands ++ [a] }
  | .sub => { r with subs := r.subs ++ [a] }
  | .region => { r with regions := r.regions ++ [a] }

theorem reg_frame (r : Rec) (a : AreaT) :
    (reg r a).len = r.len ∧ (reg r a).genes = r.genes ∧ (reg r a).members = r.members ∧ (reg r a).defs = r.defs
    ∧ (reg r a).regionOf = r.regionOf
    ∧ (∀ x, x ∈ registered (reg r a) ↔ x ∈ registered r ∨ x = a)
    ∧ (reg r a).regions = (if a.kind = .region then r.regions ++ [a] else r.regions) := by
  unfold reg
  cases a.kind <;> simp [registered] <;> grind

theorem addArea_ok {r r' : Rec} {a : AreaT} (h : addArea r a = .ok r') :
    (a.kind = .region → ∀ x ∈ r.regions, overlapsWith a.loc x.loc = false) ∧ addFound (reg r a) a = .ok r' := by
  unfold addArea at h
  by_cases h1 : a.loc.start < 0
  · simp [h1, throw, throwThe, MonadExceptOf.throw] at h
  · simp only [h1, if_false] at h
    by_cases h2 : a.loc.end > r.len
    · simp [h2, throw, throwThe, MonadExceptOf.throw] at h
    · simp only [h2, if_false] at h
      unfold reg
      cases hk : a.kind with
      | proto => simp only [hk] at h; exact ⟨by simp, h⟩
      | cand => simp only [hk] at h; exact ⟨by simp, h⟩
      | sub => simp only [hk] at h; exact ⟨by simp, h⟩
      | region =>
        simp only [hk] at h
        cases h3 : (r.regions.any fun x => overlapsWith a.loc x.loc) with
        | true => simp [h3, throw, throwThe, MonadExceptOf.throw] at h
        | false =>
          simp only [h3, Bool.false_eq_true, if_false] at h
          refine ⟨?_, h⟩
          intro _ x hx
          cases ho : overlapsWith a.loc x.loc
          · rfl
          · have : (r.regions.any fun x => overlapsWith a.loc x.loc) = true := by
              rw [List.any_eq_true]; exact ⟨x, hx, ho⟩
            rw [h3] at this; exact absurd this (by simp)

theorem Linked.or {areas : List AreaT} {areas' : List AreaT} {a : AreaT}
    (h : ∀ x, x ∈ areas' ↔ x ∈ areas ∨ x = a) (g : Gene) (d : AreaT) :
    Linked areas' g d ↔ Linked areas g d ∨ (containedBy g.loc a.loc = true ∧ d ∈ downNodes g a) := by
  simp only [Linked, h]
  constructor
  · rintro ⟨x, hx | rfl, hc, hd⟩
    · exact Or.inl ⟨x, hx, hc, hd⟩
    · exact Or.inr ⟨hc, hd⟩
  · rintro (⟨x, hx, hc, hd⟩ | ⟨hc, hd⟩)
    · exact ⟨x, Or.inl hx, hc, hd⟩
    · exact ⟨a, Or.inr rfl, hc, hd⟩

theorem Inv.addArea {seen : List Op} {r r' : Rec} (h : Inv seen r) (a : AreaT) (ha : QueryOK a.loc)
    (hstep : addArea r a = .ok r') : Inv (seen ++ [.area a]) r' := by
  obtain ⟨hdis, hfound⟩ := addArea_ok hstep
  obtain ⟨f1, f2, f3, f4, f5, f6, f7⟩ := reg_frame r a
  -- what the lookup finds
  have hL : ∀ g, g ∈ within r.genes a.loc false ↔ g ∈ r.genes ∧ containedBy g.loc a.loc = true := by
    intro g
    rw [mem_within h.sorted h.ok a.loc false ha]
    constructor
    · rintro ⟨hg, hk⟩
      have hle : ∀ p ∈ g.loc.parts, p.lo ≤ p.hi := fun p hp => by have := ((h.ok g hg).2.1 p hp).2; omega
      exact ⟨hg, by rw [containedBy_eq_spec hle]; simpa [specKeeps] using hk⟩
    · rintro ⟨hg, hk⟩
      have hle : ∀ p ∈ g.loc.parts, p.lo ≤ p.hi := fun p hp => by have := ((h.ok g hg).2.1 p hp).2; omega
      exact ⟨hg, by rw [containedBy_eq_spec hle] at hk; simpa [specKeeps] using hk⟩
  obtain ⟨r'', hrun, eff⟩ := addAll_eff a (within r.genes a.loc false) (reg r a) (fun g hg => ((hL g).1 hg).2)
  have : r'' = r' := by
    unfold addFound at hfound
    rw [f2, hrun] at hfound
    injection hfound
  subst this
  have hreg : ∀ x, x ∈ registered r'' ↔ x ∈ registered r ∨ x = a := by
    intro x
    have : registered r'' = registered (reg r a) := by
      simp only [registered, eff.regions, eff.protos, eff.cands, eff.subs]
    rw [this, f6]
  have hlinked := fun g d => Linked.or (areas := registered r) hreg g d
  have hP : ∀ gd : Gene × AreaT, gd ∈ ((within r.genes a.loc false).flatMap fun g => (downNodes g a).map fun d => (g, d))
      ↔ (gd.1 ∈ r.genes ∧ containedBy gd.1.loc a.loc = true ∧ gd.2 ∈ downNodes gd.1 a) := by
    intro gd
    simp only [List.mem_flatMap, List.mem_map, hL]
    constructor
    · rintro ⟨g, ⟨hg, hc⟩, d, hd, rfl⟩; exact ⟨hg, hc, hd⟩
    · rintro ⟨hg, hc, hd⟩; exact ⟨gd.1, ⟨hg, hc⟩, gd.2, hd, rfl⟩
  constructor
  · intro g; rw [eff.genes, f2, h.genesSeen]; simp
  · intro x; rw [hreg, h.areasSeen]; simp <;> grind
  · intro x
    rw [eff.regions, f7]
    by_cases hk : a.kind = .region
    · simp only [hk, if_true, List.mem_append, List.mem_singleton, h.regionsSeen]
      simp <;> grind
    · simp only [hk, if_false, h.regionsSeen]
      simp <;> grind
  · rw [eff.genes, f2]; exact h.sorted
  · rw [eff.genes, f2]; exact h.ok
  · rw [eff.genes, f2]; exact h.ids
  · intro x hx
    rcases (hreg x).1 hx with hx | rfl
    · exact h.areasOK x hx
    · exact ha
  · rw [eff.regions, f7]
    by_cases hk : a.kind = .region
    · simp only [hk, if_true]
      rw [List.pairwise_append]
      refine ⟨h.disjoint, by simp, ?_⟩
      intro x hx y hy
      simp only [List.mem_singleton] at hy
      subst hy
      exact hdis hk x hx
    · simp only [hk, if_false]; exact h.disjoint
  · intro x
    rw [eff.members, f3, eff.genes, f2, h.members]
    simp only [hlinked, hP]
    constructor
    · rintro (⟨g, hg, d, hl, rfl⟩ | ⟨gd, ⟨hg, hc, hd⟩, rfl⟩)
      · exact ⟨g, hg, d, Or.inl hl, rfl⟩
      · exact ⟨gd.1, hg, gd.2, Or.inr ⟨hc, hd⟩, rfl⟩
    · rintro ⟨g, hg, d, hl | ⟨hc, hd⟩, rfl⟩
      · exact Or.inl ⟨g, hg, d, hl, rfl⟩
      · exact Or.inr ⟨(g, d), ⟨hg, hc, hd⟩, rfl⟩
  · intro x
    rw [eff.defs, f4, eff.genes, f2, h.defs]
    simp only [hlinked, hP]
    constructor
    · rintro (⟨g, hg, d, hl, hdf, rfl⟩ | ⟨gd, ⟨hg, hc, hd⟩, hdf, rfl⟩)
      · exact ⟨g, hg, d, Or.inl hl, hdf, rfl⟩
      · exact ⟨gd.1, hg, gd.2, Or.inr ⟨hc, hd⟩, hdf, rfl⟩
    · rintro ⟨g, hg, d, hl | ⟨hc, hd⟩, hdf, rfl⟩
      · exact Or.inl ⟨g, hg, d, hl, hdf, rfl⟩
      · exact Or.inr ⟨(g, d), ⟨hg, hc, hd⟩, hdf, rfl⟩
  · intro x
    rw [eff.regionOf, f5, eff.genes, f2, h.regionOf]
    simp only [hlinked, hP]
    constructor
    · rintro (⟨g, hg, d, hl, hdf, rfl⟩ | ⟨gd, ⟨hg, hc, hd⟩, hdf, rfl⟩)
      · exact ⟨g, hg, d, Or.inl hl, hdf, rfl⟩
      · exact ⟨gd.1, hg, gd.2, Or.inr ⟨hc, hd⟩, hdf, rfl⟩
    · rintro ⟨g, hg, d, hl | ⟨hc, hd⟩, hdf, rfl⟩
      · exact Or.inl ⟨g, hg, d, hl, hdf, rfl⟩
      · exact Or.inr ⟨(g, d), ⟨hg, hc, hd⟩, hdf, rfl⟩

/-! ### whole histories -/

theorem Inv.step {seen : List Op} {r r' : Rec} (h : Inv seen r) (op : Op) (hop : OpOK op)
    (hstep : step r op = .ok r') : Inv (seen ++ [op]) r' := by
  cases op with
  | cds g => exact h.addCds g hop hstep
  | area a => exact h.addArea a hop hstep

theorem foldlM_inv : ∀ (ops seen : List Op) (r0 r : Rec), Inv seen r0 → (∀ op ∈ ops, OpOK op) →
    ops.foldlM step r0 = .ok r → Inv (seen ++ ops) r
  | [], seen, r0, r, h, _, hrun => by
    simp only [List.foldlM_nil, pure, Except.pure] at hrun
    injection hrun with hrun
    subst hrun
    simpa using h
  | op :: ops, seen, r0, r, h, hok, hrun => by
    simp only [List.foldlM_cons, bind, Except.bind] at hrun
    cases hs : step r0 op with
    | error e => rw [hs] at hrun; cases hrun
    | ok r1 =>
      rw [hs] at hrun
      have h1 := h.step op (hok op (by simp)) hs
      have := foldlM_inv ops (seen ++ [op]) r1 r h1 (fun o ho => hok o (by simp [ho])) hrun
      simpa using this

/-- every successful history ends in a state satisfying the invariant -/
theorem run_inv {len : Int} {ops : List Op} {r : Rec} (hok : ∀ op ∈ ops, OpOK op) (hrun : run len ops = .ok r) :
    Inv ops r := by
  have := foldlM_inv ops [] { len := len } r (Inv.init len) hok hrun
  simpa using this

end ASV.Lookup
