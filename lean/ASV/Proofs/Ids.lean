/-
  Helper lemmas for C16 (identifier sanitisation): sets-as-lists, generate_unique_id
  (freshness, termination of the counter loop), cleanliness and length facts.
-/
import ASV.Model.Ids
import ASV.Spec.Ids
import Mathlib.Data.List.Nodup
namespace ASV.Ids
open ASV.Generated.Ids

/-! ### sets as lists -/

theorem contains_iff {x : Str} {s : List Str} : s.contains x = true ↔ x ∈ s := by
  simp

theorem mem_setAdd {x y : Str} {s : List Str} : y ∈ setAdd x s ↔ y = x ∨ y ∈ s := by
  unfold setAdd
  split
  · rename_i h
    have hx : x ∈ s := by simpa using h
    constructor
    · exact fun h => Or.inr h
    · rintro (rfl | h)
      · exact hx
      · exact h
  · simp

theorem setAdd_nodup {x : Str} {s : List Str} (h : s.Nodup) : (setAdd x s).Nodup := by
  unfold setAdd
  split
  · exact h
  · rename_i hx
    have : x ∉ s := by simpa using hx
    exact List.nodup_cons.mpr ⟨this, h⟩

theorem setAdd_length_of_not_mem {x : Str} {s : List Str} (h : x ∉ s) : (setAdd x s).length = s.length + 1 := by
  unfold setAdd
  simp [h]

/-! ### generate_unique_id -/

theorem toDigits_inj {a b : Nat} (h : Nat.toDigits 10 a = Nat.toDigits 10 b) : a = b := by
  have := congrArg (fun l => Nat.ofDigitChars 10 l 0) h
  simpa [Nat.ofDigitChars_ten_toDigits] using this

theorem mkName_inj {pre : Str} {a b : Nat} (h : mkName pre a = mkName pre b) : a = b := by
  unfold mkName at h
  have := List.append_cancel_left h
  simp only [List.cons.injEq, true_and] at this
  exact toDigits_inj this

theorem mkName_ne_nil (pre : Str) (c : Nat) : mkName pre c ≠ [] := by
  unfold mkName; simp

theorem genLoop_some {pre : Str} {taken : List Str} :
    ∀ {fuel c : Nat} {n : Str} {k : Nat}, genLoop pre taken fuel c = some (n, k) →
      n = mkName pre k ∧ n ∉ taken ∧ c ≤ k
  | 0, _, _, _, h => by simp [genLoop] at h
  | fuel + 1, c, n, k, h => by
    unfold genLoop at h
    split at h
    · have := genLoop_some h
      exact ⟨this.1, this.2.1, by omega⟩
    · rename_i hc
      simp only [Option.some.injEq, Prod.mk.injEq] at h
      obtain ⟨rfl, rfl⟩ := h
      exact ⟨rfl, by simpa using hc, Nat.le_refl _⟩

theorem genLoop_none {pre : Str} {taken : List Str} :
    ∀ {fuel c : Nat}, genLoop pre taken fuel c = none → ∀ i, i < fuel → mkName pre (c + i) ∈ taken
  | 0, _, _, i, hi => by omega
  | fuel + 1, c, h, i, hi => by
    unfold genLoop at h
    split at h
    · rename_i hc
      cases i with
      | zero => simpa using hc
      | succ j =>
        have := genLoop_none h j (by omega)
        have e : c + 1 + j = c + (j + 1) := by omega
        rwa [e] at this
    · simp at h

/-- the counter loop stops within `|taken| + 1` steps (pigeonhole on the distinct names) -/
theorem genLoop_total (pre : Str) (taken : List Str) (c : Nat) :
    genLoop pre taken (taken.length + 1) c ≠ none := by
  intro h
  have hall := genLoop_none h
  let names := (List.range (taken.length + 1)).map fun i => mkName pre (c + i)
  have hnd : names.Nodup := by
    refine (List.nodup_map_iff_inj_on List.nodup_range).mpr ?_
    intro a _ b _ hab
    have := mkName_inj hab
    omega
  have hsub : names ⊆ taken := by
    intro x hx
    obtain ⟨i, hi, rfl⟩ := List.mem_map.mp hx
    exact hall i (List.mem_range.mp hi)
  have := hnd.length_le_of_subset hsub
  simp [names] at this
  omega

theorem generateUniqueId_ok {pre : Str} {taken : List Str} {start : Nat} {maxLength : Int} {n : Str} {k : Nat}
    (h : generateUniqueId pre taken start maxLength = .ok (n, k)) :
    n = mkName pre k ∧ n ∉ taken ∧ (0 < maxLength → (n.length : Int) ≤ maxLength) := by
  unfold generateUniqueId at h
  split at h
  · simp at h
  · rename_i name c hg
    split at h
    · simp at h
    · rename_i hlen
      simp only [Except.ok.injEq, Prod.mk.injEq] at h
      obtain ⟨rfl, rfl⟩ := h
      have := genLoop_some hg
      refine ⟨this.1, this.2.1, fun hpos => ?_⟩
      by_contra hgt
      exact hlen ⟨hpos, by omega⟩

/-- the only way `generate_unique_id` fails is the RuntimeError for `max_length` -/
theorem generateUniqueId_err {pre : Str} {taken : List Str} {start : Nat} {maxLength : Int} {e : Err}
    (h : generateUniqueId pre taken start maxLength = .error e) : e = .runtime ∧ 0 < maxLength := by
  unfold generateUniqueId at h
  split at h
  · rename_i hg
    exact absurd hg (genLoop_total pre taken start)
  · split at h
    · rename_i hc
      simp only [Except.error.injEq] at h
      exact ⟨h.symm, hc.1⟩
    · simp at h

/-- without a length limit `generate_unique_id` always succeeds -/
theorem generateUniqueId_total {pre : Str} {taken : List Str} {start : Nat} {maxLength : Int} (hm : maxLength ≤ 0) :
    ∃ n k, generateUniqueId pre taken start maxLength = .ok (n, k) := by
  cases h : generateUniqueId pre taken start maxLength with
  | error e => have := (generateUniqueId_err h).2; omega
  | ok r => exact ⟨r.1, r.2, rfl⟩

end ASV.Ids
