/-
  C15 helper lemmas: completeness of `find_intergenic_areas` (with the monotone cursor):
  every stretch of `[start, end)` that lies entirely on one side of every padded gene is
  contained in one returned area; with genes longer than twice the padding the returned areas
  are exactly the maximal gaps.
-/
import ASV.Proofs.OrfGaps
namespace ASV.Orf
open ASV

/-- `[a, b)` lies entirely before or entirely after the core of `g` (for a non-empty core this
    is the same as not touching it; for an empty core it also forbids straddling the point
    `g.start + pad ≥ g.end − pad` where the loop cuts its areas) -/
def Beside (g : Gene) (pad a b : Int) : Prop := b ≤ g.start + pad ∨ g.end - pad ≤ a

theorem intergenicLoop_complete (start «end» pad a b : Int) (h1 : start ≤ a) (h2 : a < b)
    (h3 : b ≤ «end») :
    ∀ (gs : List Gene) (last : Int), last ≤ a → (∀ g ∈ gs, Beside g pad a b) →
      ∃ area ∈ intergenicLoop start «end» pad gs last, area.1 ≤ a ∧ b ≤ area.2 := by
  intro gs
  induction gs with
  | nil =>
    intro last hl _
    unfold intergenicLoop
    rw [if_pos (by omega)]
    exact ⟨_, List.mem_singleton.2 rfl, by simp only; omega, by simp only; omega⟩
  | cons g gs ih =>
    intro last hl hb
    have hg := hb g List.mem_cons_self
    have hrest : ∀ h ∈ gs, Beside h pad a b := fun h hh => hb h (List.mem_cons_of_mem _ hh)
    unfold intergenicLoop
    split
    · rename_i hgap
      rcases hg with hg | hg
      · exact ⟨_, List.mem_cons_self, by simp only; omega, by simp only; omega⟩
      · obtain ⟨area, hm, hc⟩ := ih (max last (g.end - pad)) (by omega) hrest
        exact ⟨area, List.mem_cons_of_mem _ hm, hc⟩
    · rename_i hgap
      split
      · obtain ⟨area, hm, hc⟩ := ih (max last (g.end - pad)) (by rcases hg with hg | hg <;> omega) hrest
        exact ⟨area, hm, hc⟩
      · exact ih last hl hrest

/-- `find_intergenic_areas`: completeness -/
theorem findIntergenic_complete (start «end» minLen pad : Int) (genes : List Gene) (a b : Int)
    (h1 : start ≤ a) (h2 : a < b) (h3 : b ≤ «end») (hlen : minLen ≤ b - a)
    (hb : ∀ g ∈ genes, Beside g pad a b) :
    ∃ area ∈ findIntergenic start «end» genes minLen pad, area.1 ≤ a ∧ b ≤ area.2 := by
  obtain ⟨area, hm, hc⟩ := intergenicLoop_complete start «end» pad a b h1 h2 h3 (sortGenes genes) start h1
    (fun g hg => hb g ((mem_sortGenes genes g).1 hg))
  refine ⟨area, ?_, hc⟩
  unfold findIntergenic
  rw [List.mem_filter]
  exact ⟨hm, by simp only [decide_eq_true_eq]; omega⟩

/-- a stretch clear of a gene with a non-empty core lies beside it -/
theorem beside_of_clear (g : Gene) (pad a b : Int) (hab : a < b) (hlong : g.start + pad < g.end - pad)
    (hclear : ∀ i, a ≤ i → i < b → ¬ g.core pad i) : Beside g pad a b := by
  unfold Beside
  by_cases h1 : b ≤ g.start + pad
  · exact Or.inl h1
  · by_cases h2 : g.end - pad ≤ a
    · exact Or.inr h2
    · exfalso
      by_cases h3 : a ≤ g.start + pad
      · exact hclear (g.start + pad) h3 (by omega) ⟨by omega, by omega⟩
      · exact hclear a (by omega) hab ⟨by omega, by omega⟩

/-- every maximal gap that does not straddle an empty core is returned as it is -/
theorem findIntergenic_gap_mem (start «end» minLen pad : Int) (genes : List Gene) (hpad : 0 ≤ pad)
    (a b : Int) (hgap : IsGap start «end» genes pad a b)
    (hb : ∀ g ∈ genes, Beside g pad a b) (hlen : minLen ≤ b - a) :
    (a, b) ∈ findIntergenic start «end» genes minLen pad := by
  obtain ⟨area, hm, hc1, hc2⟩ :=
    findIntergenic_complete start «end» minLen pad genes a b hgap.lo hgap.ne hgap.hi hlen hb
  obtain ⟨s1, s2, _, s4⟩ := findIntergenic_sound start «end» minLen pad genes hpad area hm
  have e1 : area.1 = a := by
    by_cases h : area.1 = a
    · exact h
    · exfalso
      rcases hgap.maxL with h0 | ⟨g, hg, hcore⟩
      · omega
      · exact s4 g hg (a - 1) (by omega) (by have := hgap.ne; omega) hcore
  have e2 : area.2 = b := by
    by_cases h : area.2 = b
    · exact h
    · exfalso
      rcases hgap.maxR with h0 | ⟨g, hg, hcore⟩
      · omega
      · exact s4 g hg b (by have := hgap.ne; omega) (by omega) hcore
  have : area = (a, b) := by rw [← e1, ← e2]
  rw [← this]; exact hm

/-- where the loop's areas begin and end, for genes with non-empty cores -/
theorem intergenicLoop_maximal (start «end» pad : Int) :
    ∀ (gs : List Gene) (last : Int), start ≤ last → (∀ g ∈ gs, g.start + pad < g.end - pad) →
    ∀ area ∈ intergenicLoop start «end» pad gs last,
      (area.1 = last ∨ ∃ g ∈ gs, g.core pad (area.1 - 1)) ∧
      (area.2 = «end» ∨ ∃ g ∈ gs, g.core pad area.2) := by
  intro gs
  induction gs with
  | nil =>
    intro last hl _ area ha
    unfold intergenicLoop at ha
    split at ha
    · rw [List.mem_singleton] at ha; subst ha
      exact ⟨Or.inl (by simp only; omega), Or.inl rfl⟩
    · exact absurd ha List.not_mem_nil
  | cons g gs ih =>
    intro last hl hlong area ha
    have hg := hlong g List.mem_cons_self
    have hrest : ∀ h ∈ gs, h.start + pad < h.end - pad := fun h hh => hlong h (List.mem_cons_of_mem _ hh)
    have tail : area ∈ intergenicLoop start «end» pad gs (max last (g.end - pad)) →
        (area.1 = last ∨ ∃ h ∈ g :: gs, h.core pad (area.1 - 1)) ∧
        (area.2 = «end» ∨ ∃ h ∈ g :: gs, h.core pad area.2) := by
      intro hm
      obtain ⟨b1, b2⟩ := ih (max last (g.end - pad)) (by omega) hrest area hm
      constructor
      · rcases b1 with b1 | ⟨h, hh, hc⟩
        · by_cases hle : g.end - pad ≤ last
          · exact Or.inl (by omega)
          · exact Or.inr ⟨g, List.mem_cons_self, by unfold Gene.core; omega⟩
        · exact Or.inr ⟨h, List.mem_cons_of_mem _ hh, hc⟩
      · rcases b2 with b2 | ⟨h, hh, hc⟩
        · exact Or.inl b2
        · exact Or.inr ⟨h, List.mem_cons_of_mem _ hh, hc⟩
    unfold intergenicLoop at ha
    split at ha
    · rename_i hgap
      rcases List.mem_cons.1 ha with rfl | ha
      · refine ⟨Or.inl (by simp only; omega), ?_⟩
        by_cases he : «end» ≤ g.start + pad
        · exact Or.inl (by simp only; omega)
        · exact Or.inr ⟨g, List.mem_cons_self, by unfold Gene.core; simp only; omega⟩
      · exact tail ha
    · split at ha
      · exact tail ha
      · obtain ⟨b1, b2⟩ := ih last hl hrest area ha
        constructor
        · rcases b1 with b1 | ⟨h, hh, hc⟩
          · exact Or.inl b1
          · exact Or.inr ⟨h, List.mem_cons_of_mem _ hh, hc⟩
        · rcases b2 with b2 | ⟨h, hh, hc⟩
          · exact Or.inl b2
          · exact Or.inr ⟨h, List.mem_cons_of_mem _ hh, hc⟩

/-- the gap search returns exactly the maximal gaps of sufficient length -/
theorem findIntergenic_iff_gap (start «end» minLen pad : Int) (genes : List Gene) (hpad : 0 ≤ pad)
    (hmin : 0 < minLen)
    (hlong : ∀ g ∈ genes, g.start + pad < g.end - pad) (a b : Int) :
    (a, b) ∈ findIntergenic start «end» genes minLen pad ↔
      IsGap start «end» genes pad a b ∧ minLen ≤ b - a := by
  constructor
  · intro hm
    obtain ⟨s1, s2, s3, s4⟩ := findIntergenic_sound start «end» minLen pad genes hpad (a, b) hm
    simp only at s1 s2 s3 s4
    have hloop : (a, b) ∈ intergenicLoop start «end» pad (sortGenes genes) start := by
      unfold findIntergenic at hm; exact (List.mem_filter.1 hm).1
    obtain ⟨m1, m2⟩ := intergenicLoop_maximal start «end» pad (sortGenes genes) start (Int.le_refl _)
      (fun g hg => hlong g ((mem_sortGenes genes g).1 hg)) (a, b) hloop
    refine ⟨⟨s1, by omega, s2, s4, ?_, ?_⟩, s3⟩
    · rcases m1 with m1 | ⟨g, hg, hc⟩
      · exact Or.inl m1
      · exact Or.inr ⟨g, (mem_sortGenes genes g).1 hg, hc⟩
    · rcases m2 with m2 | ⟨g, hg, hc⟩
      · exact Or.inl m2
      · exact Or.inr ⟨g, (mem_sortGenes genes g).1 hg, hc⟩
  · rintro ⟨hgap, hlen⟩
    exact findIntergenic_gap_mem start «end» minLen pad genes hpad a b hgap
      (fun g hg => beside_of_clear g pad a b hgap.ne (hlong g hg) (hgap.clear g hg)) hlen

end ASV.Orf
