/-
  C10 helper theory: CPython's small-list sort (`pySort`: initial run + binary insertion) and
  `bisect_left/right` under a comparison that is a strict weak order on the elements involved.
    * `bisectR_partition` / `bisectL_partition`: the binary search finds the partition point
    * `pySort_perm`, `pySort_sorted`, `pySort_stable`: the result is a rearrangement, in
      non-descending order, and keeps the relative order of elements that compare equal
    * `sorted_unique`: a list is determined by its order-equivalence classes (each in its own order)
      once it is sorted — so any two sorted arrangements with the same tie order are equal
-/
import ASV.Model.Serial
namespace ASV.Serial
open ASV

variable {α : Type}

/-- non-descending for `lt`: no later element is smaller than an earlier one -/
def Sorted (lt : α → α → Bool) (l : List α) : Prop := l.Pairwise (fun a b => lt b a = false)

/-- strict weak order on the elements satisfying `S` -/
structure SWO (lt : α → α → Bool) (S : α → Prop) : Prop where
  asymm : ∀ a b, S a → S b → lt a b = true → lt b a = false
  negTrans : ∀ a b c, S a → S b → S c → lt a b = false → lt b c = false → lt a c = false

/-- neither is smaller: the two compare equal -/
def eqv (lt : α → α → Bool) (a b : α) : Bool := !lt a b && !lt b a

namespace SWO
variable {lt : α → α → Bool} {S : α → Prop}

theorem irrefl (h : SWO lt S) {a : α} (ha : S a) : lt a a = false := by
  cases hlt : lt a a
  · rfl
  · have := h.asymm a a ha ha hlt; rw [hlt] at this; cases this

theorem trans (h : SWO lt S) {a b c : α} (ha : S a) (hb : S b) (hc : S c)
    (h1 : lt a b = true) (h2 : lt b c = true) : lt a c = true := by
  cases hac : lt a c
  · have := h.negTrans a c b ha hc hb hac (h.asymm b c hb hc h2)
    rw [h1] at this; cases this
  · rfl

theorem mono (h : SWO lt S) {T : α → Prop} (hsub : ∀ a, T a → S a) : SWO lt T :=
  ⟨fun a b ha hb => h.asymm a b (hsub a ha) (hsub b hb),
   fun a b c ha hb hc => h.negTrans a b c (hsub a ha) (hsub b hb) (hsub c hc)⟩

theorem eqv_refl (h : SWO lt S) {a : α} (ha : S a) : eqv lt a a = true := by
  simp [eqv, h.irrefl ha]

theorem eqv_symm (a b : α) : eqv lt a b = eqv lt b a := by
  simp [eqv, Bool.and_comm]

theorem eqv_trans (h : SWO lt S) {a b c : α} (ha : S a) (hb : S b) (hc : S c)
    (h1 : eqv lt a b = true) (h2 : eqv lt b c = true) : eqv lt a c = true := by
  simp only [eqv, Bool.and_eq_true, Bool.not_eq_true'] at h1 h2 ⊢
  exact ⟨h.negTrans a b c ha hb hc h1.1 h2.1, h.negTrans c b a hc hb ha h2.2 h1.2⟩

end SWO

/-! ### bisection -/

theorem bisectGo_partition (lt : α → α → Bool) (x : α) (l1 l2 : List α)
    (h1 : ∀ e ∈ l1, lt x e = false) (h2 : ∀ e ∈ l2, lt x e = true) :
    ∀ fuel lo hi, lo ≤ l1.length → l1.length ≤ hi → hi ≤ (l1 ++ l2).length → hi - lo < fuel →
      bisectGo lt x (l1 ++ l2) fuel lo hi = l1.length := by
  intro fuel
  induction fuel with
  | zero => intro lo hi _ _ _ hf; omega
  | succ fuel ih =>
    intro lo hi hlo hhi hlen hf
    unfold bisectGo
    by_cases hlt : lo < hi
    · simp only [hlt, if_true]
      have hm : (lo + hi) / 2 < (l1 ++ l2).length := by omega
      by_cases hmid : (lo + hi) / 2 < l1.length
      · have he : (l1 ++ l2)[(lo + hi) / 2]? = some (l1[(lo + hi) / 2]) := by
          rw [List.getElem?_append_left hmid, List.getElem?_eq_getElem hmid]
        have hf' := h1 _ (List.getElem_mem hmid)
        simp only [he, hf']
        exact ih _ _ (by omega) hhi hlen (by omega)
      · have hr : (lo + hi) / 2 - l1.length < l2.length := by
          rw [List.length_append] at hm; omega
        have he : (l1 ++ l2)[(lo + hi) / 2]? = some (l2[(lo + hi) / 2 - l1.length]) := by
          rw [List.getElem?_append_right (by omega), List.getElem?_eq_getElem hr]
        have ht := h2 _ (List.getElem_mem hr)
        simp only [he, ht, if_true]
        exact ih _ _ hlo (by omega) (by omega) (by omega)
    · simp only [hlt, if_false]; omega

/-- `bisect_right` returns the boundary between the elements `x` is not smaller than and those it is smaller than -/
theorem bisectR_partition (lt : α → α → Bool) (x : α) (l1 l2 : List α)
    (h1 : ∀ e ∈ l1, lt x e = false) (h2 : ∀ e ∈ l2, lt x e = true) :
    bisectR lt x (l1 ++ l2) = l1.length :=
  bisectGo_partition lt x l1 l2 h1 h2 _ 0 _ (Nat.zero_le _) (by simp) (Nat.le_refl _) (by omega)

theorem bisectLGo_partition (lt : α → α → Bool) (x : α) (l1 l2 : List α)
    (h1 : ∀ e ∈ l1, lt e x = true) (h2 : ∀ e ∈ l2, lt e x = false) :
    ∀ fuel lo hi, lo ≤ l1.length → l1.length ≤ hi → hi ≤ (l1 ++ l2).length → hi - lo < fuel →
      bisectLGo lt x (l1 ++ l2) fuel lo hi = l1.length := by
  intro fuel
  induction fuel with
  | zero => intro lo hi _ _ _ hf; omega
  | succ fuel ih =>
    intro lo hi hlo hhi hlen hf
    unfold bisectLGo
    by_cases hlt : lo < hi
    · simp only [hlt, if_true]
      have hm : (lo + hi) / 2 < (l1 ++ l2).length := by omega
      by_cases hmid : (lo + hi) / 2 < l1.length
      · have he : (l1 ++ l2)[(lo + hi) / 2]? = some (l1[(lo + hi) / 2]) := by
          rw [List.getElem?_append_left hmid, List.getElem?_eq_getElem hmid]
        have ht := h1 _ (List.getElem_mem hmid)
        simp only [he, ht, if_true]
        exact ih _ _ (by omega) hhi hlen (by omega)
      · have hr : (lo + hi) / 2 - l1.length < l2.length := by
          rw [List.length_append] at hm; omega
        have he : (l1 ++ l2)[(lo + hi) / 2]? = some (l2[(lo + hi) / 2 - l1.length]) := by
          rw [List.getElem?_append_right (by omega), List.getElem?_eq_getElem hr]
        have hf' := h2 _ (List.getElem_mem hr)
        simp only [he, hf']
        exact ih _ _ hlo (by omega) (by omega) (by omega)
    · simp only [hlt, if_false]; omega

/-- `bisect_left` returns the boundary between the elements smaller than `x` and the others -/
theorem bisectL_partition (lt : α → α → Bool) (x : α) (l1 l2 : List α)
    (h1 : ∀ e ∈ l1, lt e x = true) (h2 : ∀ e ∈ l2, lt e x = false) :
    bisectL lt x (l1 ++ l2) = l1.length :=
  bisectLGo_partition lt x l1 l2 h1 h2 _ 0 _ (Nat.zero_le _) (by simp) (Nat.le_refl _) (by omega)

theorem insertAt_append (l1 l2 : List α) (x : α) : insertAt (l1 ++ l2) l1.length x = l1 ++ x :: l2 := by
  simp [insertAt]

/-- an element that is smaller than nothing present goes to the end (`bisect_right`) -/
theorem bisectR_end (lt : α → α → Bool) (x : α) (l : List α) (h : ∀ e ∈ l, lt x e = false) :
    insertAt l (bisectR lt x l) x = l ++ [x] := by
  have := bisectR_partition lt x l [] h (by simp)
  rw [List.append_nil] at this
  rw [this]; simpa using insertAt_append l [] x

/-- an element that nothing present is smaller than goes to the front (`bisect_left`) -/
theorem bisectL_front (lt : α → α → Bool) (x : α) (l : List α) (h : ∀ e ∈ l, lt e x = false) :
    insertAt l (bisectL lt x l) x = x :: l := by
  have := bisectL_partition lt x [] l (by simp) h
  rw [List.nil_append] at this
  rw [this]; simp [insertAt]

end ASV.Serial

namespace ASV.Serial
open ASV
variable {α : Type} {lt : α → α → Bool} {S : α → Prop}

/-! ### insertion at the partition point keeps the list sorted and stable -/

/-- a sorted list splits around any `x` into the elements `x` is not smaller than and those it is smaller than -/
theorem sorted_split (h : SWO lt S) (x : α) (hx : S x) :
    ∀ l : List α, Sorted lt l → (∀ e ∈ l, S e) →
      ∃ l1 l2, l = l1 ++ l2 ∧ (∀ e ∈ l1, lt x e = false) ∧ (∀ e ∈ l2, lt x e = true) := by
  intro l
  induction l with
  | nil => intro _ _; exact ⟨[], [], rfl, by simp, by simp⟩
  | cons e t ih =>
    intro hs hS
    have hs' := List.pairwise_cons.1 hs
    cases hxe : lt x e
    · obtain ⟨l1, l2, e1, p1, p2⟩ := ih hs'.2 (fun z hz => hS z (List.mem_cons_of_mem _ hz))
      refine ⟨e :: l1, l2, by rw [e1]; rfl, ?_, p2⟩
      intro z hz
      rcases List.mem_cons.1 hz with rfl | hz
      · exact hxe
      · exact p1 z hz
    · refine ⟨[], e :: t, rfl, by simp, ?_⟩
      intro z hz
      rcases List.mem_cons.1 hz with rfl | hz
      · exact hxe
      · cases hxz : lt x z
        · have := h.negTrans x z e hx (hS z (List.mem_cons_of_mem _ hz)) (hS e (by simp)) hxz (hs'.1 z hz)
          rw [hxe] at this; cases this
        · rfl

theorem sorted_insert (h : SWO lt S) (x : α) (hx : S x) (l1 l2 : List α) (hs : Sorted lt (l1 ++ l2))
    (hS : ∀ e ∈ l1 ++ l2, S e) (p1 : ∀ e ∈ l1, lt x e = false) (p2 : ∀ e ∈ l2, lt x e = true) :
    Sorted lt (l1 ++ x :: l2) := by
  unfold Sorted at *
  rw [List.pairwise_append] at hs ⊢
  refine ⟨hs.1, ?_, ?_⟩
  · rw [List.pairwise_cons]
    refine ⟨?_, hs.2.1⟩
    intro b hb
    exact h.asymm x b hx (hS b (List.mem_append_right _ hb)) (p2 b hb)
  · intro a ha b hb
    rcases List.mem_cons.1 hb with rfl | hb
    · exact p1 a ha
    · exact hs.2.2 a ha b hb

theorem filter_insert (h : SWO lt S) (x a : α) (hx : S x) (ha : S a) (l1 l2 : List α)
    (hS : ∀ e ∈ l2, S e) (p2 : ∀ e ∈ l2, lt x e = true) :
    (l1 ++ x :: l2).filter (eqv lt a) = ((l1 ++ l2) ++ [x]).filter (eqv lt a) := by
  simp only [List.filter_append, List.filter_cons, List.filter_nil]
  cases hax : eqv lt a x
  · simp
  · have hnil : l2.filter (eqv lt a) = [] := by
      rw [List.filter_eq_nil_iff]
      intro e he hae
      have hxa : eqv lt x a = true := by rw [SWO.eqv_symm]; exact hax
      have := h.eqv_trans hx ha (hS e he) hxa hae
      simp only [eqv, Bool.and_eq_true, Bool.not_eq_true'] at this
      rw [p2 e he] at this; cases this.1
    simp [hnil]

theorem foldl_binInsert (h : SWO lt S) :
    ∀ (rem acc : List α), Sorted lt acc → (∀ e ∈ acc, S e) → (∀ e ∈ rem, S e) →
      Sorted lt (rem.foldl (binInsert lt) acc) ∧ (rem.foldl (binInsert lt) acc).Perm (acc ++ rem) ∧
      ∀ a, S a → (rem.foldl (binInsert lt) acc).filter (eqv lt a) = (acc ++ rem).filter (eqv lt a) := by
  intro rem
  induction rem with
  | nil => intro acc hs _ _; simp [hs]
  | cons x rem ih =>
    intro acc hs hA hR
    have hx : S x := hR x (by simp)
    obtain ⟨l1, l2, e, p1, p2⟩ := sorted_split h x hx acc hs hA
    have hins : binInsert lt acc x = l1 ++ x :: l2 := by
      unfold binInsert
      rw [e, bisectR_partition lt x l1 l2 p1 p2, insertAt_append]
    have hA' : ∀ z ∈ l1 ++ x :: l2, S z := by
      intro z hz
      rcases List.mem_append.1 hz with hz | hz
      · exact hA z (by rw [e]; exact List.mem_append_left _ hz)
      · rcases List.mem_cons.1 hz with rfl | hz
        · exact hx
        · exact hA z (by rw [e]; exact List.mem_append_right _ hz)
    have hs' : Sorted lt (l1 ++ x :: l2) :=
      sorted_insert h x hx l1 l2 (e ▸ hs) (fun z hz => hA z (e ▸ hz)) p1 p2
    obtain ⟨i1, i2, i3⟩ := ih (l1 ++ x :: l2) hs' hA' (fun z hz => hR z (List.mem_cons_of_mem _ hz))
    simp only [List.foldl_cons, hins]
    refine ⟨i1, ?_, ?_⟩
    · refine i2.trans ?_
      rw [e]
      have : (l1 ++ x :: l2).Perm (l1 ++ l2 ++ [x]) := by
        have := (List.perm_middle (a := x) (l₁ := l1) (l₂ := l2))
        exact this.trans (by simpa using (List.perm_append_singleton x (l1 ++ l2)).symm)
      simpa using this.append_right rem
    · intro a ha
      rw [i3 a ha, e]
      have := filter_insert h x a hx ha l1 l2 (fun z hz => hA z (by rw [e]; exact List.mem_append_right _ hz)) p2
      simp only [List.filter_append] at this ⊢
      rw [this]; simp only [List.filter_cons, List.filter_nil, List.append_assoc]; split <;> simp

/-! ### the initial run -/

theorem takeAsc_append (lt : α → α → Bool) : ∀ (l : List α) (prev : α), (takeAsc lt prev l).1 ++ (takeAsc lt prev l).2 = l := by
  intro l
  induction l with
  | nil => intro _; rfl
  | cons x rest ih =>
    intro prev
    unfold takeAsc
    by_cases hx : lt x prev = true
    · simp [hx]
    · simp [hx, ih x]

theorem takeDesc_append (lt : α → α → Bool) : ∀ (l : List α) (prev : α), (takeDesc lt prev l).1 ++ (takeDesc lt prev l).2 = l := by
  intro l
  induction l with
  | nil => intro _; rfl
  | cons x rest ih =>
    intro prev
    unfold takeDesc
    by_cases hx : lt x prev = true
    · simp [hx, ih x]
    · simp [hx]

theorem takeAsc_sorted (h : SWO lt S) : ∀ (l : List α) (prev : α), S prev → (∀ e ∈ l, S e) →
    Sorted lt (prev :: (takeAsc lt prev l).1) := by
  intro l
  induction l with
  | nil => intro prev _ _; simp [takeAsc, Sorted]
  | cons x rest ih =>
    intro prev hp hS
    unfold takeAsc
    by_cases hx : lt x prev = true
    · simp [hx, Sorted]
    · have hx' : lt x prev = false := by simpa using hx
      have hxS : S x := hS x (by simp)
      have hrS : ∀ e ∈ rest, S e := fun e he => hS e (List.mem_cons_of_mem _ he)
      have ihx := ih x hxS hrS
      simp only [hx', Bool.false_eq_true, if_false]
      unfold Sorted at *
      rw [List.pairwise_cons]
      refine ⟨?_, ihx⟩
      intro b hb
      rcases List.mem_cons.1 hb with rfl | hb
      · exact hx'
      · have hbS : S b := hrS b (by
          have := takeAsc_append lt rest x
          rw [← this]; exact List.mem_append_left _ hb)
        exact h.negTrans b x prev hbS hxS hp ((List.pairwise_cons.1 ihx).1 b hb) hx'

/-- a strictly descending run: every later element is smaller than every earlier one -/
theorem takeDesc_desc (h : SWO lt S) : ∀ (l : List α) (prev : α), S prev → (∀ e ∈ l, S e) →
    (prev :: (takeDesc lt prev l).1).Pairwise (fun a b => lt b a = true) := by
  intro l
  induction l with
  | nil => intro prev _ _; simp [takeDesc]
  | cons x rest ih =>
    intro prev hp hS
    unfold takeDesc
    by_cases hx : lt x prev = true
    · have hxS : S x := hS x (by simp)
      have hrS : ∀ e ∈ rest, S e := fun e he => hS e (List.mem_cons_of_mem _ he)
      have ihx := ih x hxS hrS
      simp only [hx, if_true]
      rw [List.pairwise_cons]
      refine ⟨?_, ihx⟩
      intro b hb
      rcases List.mem_cons.1 hb with rfl | hb
      · exact hx
      · have hbS : S b := hrS b (by
          have := takeDesc_append lt rest x
          rw [← this]; exact List.mem_append_left _ hb)
        exact h.trans hbS hxS hp ((List.pairwise_cons.1 ihx).1 b hb) hx
    · simp [hx]

theorem desc_reverse_sorted (h : SWO lt S) (l : List α) (hS : ∀ e ∈ l, S e)
    (hd : l.Pairwise (fun a b => lt b a = true)) : Sorted lt l.reverse := by
  unfold Sorted
  rw [List.pairwise_reverse]
  exact hd.imp_of_mem (fun {a b} ha hb hab => h.asymm b a (hS b hb) (hS a ha) hab)

theorem desc_filter_le_one (h : SWO lt S) (a : α) (ha : S a) : ∀ (l : List α), (∀ e ∈ l, S e) →
    l.Pairwise (fun u v => lt v u = true) → (l.filter (eqv lt a)).length ≤ 1 := by
  intro l
  induction l with
  | nil => intro _ _; simp
  | cons u t ih =>
    intro hS hd
    have hd' := List.pairwise_cons.1 hd
    have hu : S u := hS u (by simp)
    have htS : ∀ e ∈ t, S e := fun e he => hS e (List.mem_cons_of_mem _ he)
    rw [List.filter_cons]
    cases hau : eqv lt a u
    · simpa using ih htS hd'.2
    · have hnil : t.filter (eqv lt a) = [] := by
        rw [List.filter_eq_nil_iff]
        intro v hv hav
        have hua : eqv lt u a = true := by rw [SWO.eqv_symm]; exact hau
        have := h.eqv_trans hu ha (htS v hv) hua hav
        simp only [eqv, Bool.and_eq_true, Bool.not_eq_true'] at this
        rw [hd'.1 v hv] at this; cases this.2
      simp [hnil]

theorem reverse_of_length_le_one (l : List α) (h : l.length ≤ 1) : l.reverse = l := by
  match l, h with
  | [], _ => rfl
  | [_], _ => rfl

theorem desc_filter_reverse (h : SWO lt S) (a : α) (ha : S a) (l : List α) (hS : ∀ e ∈ l, S e)
    (hd : l.Pairwise (fun u v => lt v u = true)) : l.reverse.filter (eqv lt a) = l.filter (eqv lt a) := by
  rw [List.filter_reverse]
  exact reverse_of_length_le_one _ (desc_filter_le_one h a ha l hS hd)

/-! ### `pySort` -/

/-- on a strict weak order CPython's small-list sort returns a sorted rearrangement that keeps the
    relative order of elements comparing equal -/
theorem pySort_spec (l : List α) (h : SWO lt (· ∈ l)) :
    Sorted lt (pySort lt l) ∧ (pySort lt l).Perm l ∧
    ∀ a ∈ l, (pySort lt l).filter (eqv lt a) = l.filter (eqv lt a) := by
  match l, h with
  | [], _ => simp [pySort, Sorted]
  | [x], _ => simp [pySort, Sorted]
  | x :: y :: rest, h =>
    have hx : x ∈ x :: y :: rest := by simp
    have hy : y ∈ x :: y :: rest := by simp
    have hr : ∀ e ∈ rest, e ∈ x :: y :: rest := fun e he => by simp [he]
    unfold pySort
    by_cases hyx : lt y x = true
    · -- strictly descending start
      simp only [hyx, if_true]
      have happ := takeDesc_append lt rest y
      have hrun : ∀ e ∈ (takeDesc lt y rest).1, e ∈ x :: y :: rest := fun e he =>
        hr e (by rw [← happ]; exact List.mem_append_left _ he)
      have hrem : ∀ e ∈ (takeDesc lt y rest).2, e ∈ x :: y :: rest := fun e he =>
        hr e (by rw [← happ]; exact List.mem_append_right _ he)
      have hinit : ∀ e ∈ x :: y :: (takeDesc lt y rest).1, e ∈ x :: y :: rest := by
        intro e he
        rcases List.mem_cons.1 he with rfl | he
        · exact hx
        · rcases List.mem_cons.1 he with rfl | he
          · exact hy
          · exact hrun e he
      have hd : (x :: y :: (takeDesc lt y rest).1).Pairwise (fun a b => lt b a = true) := by
        have hyd := takeDesc_desc h rest y hy hr
        rw [List.pairwise_cons]
        refine ⟨?_, hyd⟩
        intro b hb
        rcases List.mem_cons.1 hb with rfl | hb
        · exact hyx
        · exact h.trans (hrun b hb) hy hx ((List.pairwise_cons.1 hyd).1 b hb) hyx
      have hsorted := desc_reverse_sorted h _ hinit hd
      have hinit' : ∀ e ∈ (x :: y :: (takeDesc lt y rest).1).reverse, e ∈ x :: y :: rest :=
        fun e he => hinit e (List.mem_reverse.1 he)
      obtain ⟨f1, f2, f3⟩ := foldl_binInsert h (takeDesc lt y rest).2 _ hsorted hinit' hrem
      refine ⟨f1, ?_, ?_⟩
      · refine f2.trans ?_
        have : ((x :: y :: (takeDesc lt y rest).1).reverse ++ (takeDesc lt y rest).2).Perm
            ((x :: y :: (takeDesc lt y rest).1) ++ (takeDesc lt y rest).2) :=
          (List.reverse_perm _).append_right _
        refine this.trans ?_
        simp only [List.cons_append, happ]; exact List.Perm.refl _
      · intro a ha
        rw [f3 a ha, List.filter_append, desc_filter_reverse h a ha _ hinit hd, ← List.filter_append]
        simp only [List.cons_append, happ]
    · -- non-descending start
      have hyx' : lt y x = false := by simpa using hyx
      simp only [hyx', Bool.false_eq_true, if_false]
      have happ := takeAsc_append lt rest y
      have hrun : ∀ e ∈ (takeAsc lt y rest).1, e ∈ x :: y :: rest := fun e he =>
        hr e (by rw [← happ]; exact List.mem_append_left _ he)
      have hrem : ∀ e ∈ (takeAsc lt y rest).2, e ∈ x :: y :: rest := fun e he =>
        hr e (by rw [← happ]; exact List.mem_append_right _ he)
      have hinit : ∀ e ∈ x :: y :: (takeAsc lt y rest).1, e ∈ x :: y :: rest := by
        intro e he
        rcases List.mem_cons.1 he with rfl | he
        · exact hx
        · rcases List.mem_cons.1 he with rfl | he
          · exact hy
          · exact hrun e he
      have hsorted : Sorted lt (x :: y :: (takeAsc lt y rest).1) := by
        have hys := takeAsc_sorted h rest y hy hr
        unfold Sorted at *
        rw [List.pairwise_cons]
        refine ⟨?_, hys⟩
        intro b hb
        rcases List.mem_cons.1 hb with rfl | hb
        · exact hyx'
        · exact h.negTrans b y x (hrun b hb) hy hx ((List.pairwise_cons.1 hys).1 b hb) hyx'
      obtain ⟨f1, f2, f3⟩ := foldl_binInsert h (takeAsc lt y rest).2 _ hsorted hinit hrem
      refine ⟨f1, ?_, ?_⟩
      · refine f2.trans ?_
        simp only [List.cons_append, happ]; exact List.Perm.refl _
      · intro a ha
        rw [f3 a ha]
        simp only [List.cons_append, happ]

/-! ### a sorted list is determined by its tie classes -/

theorem sorted_unique (h : SWO lt S) : ∀ (l1 l2 : List α), (∀ e ∈ l1, S e) → (∀ e ∈ l2, S e) →
    Sorted lt l1 → Sorted lt l2 → (∀ a, S a → l1.filter (eqv lt a) = l2.filter (eqv lt a)) → l1 = l2 := by
  intro l1
  induction l1 with
  | nil =>
    intro l2 _ h2 _ _ hf
    cases l2 with
    | nil => rfl
    | cons y t =>
      have hy : S y := h2 y (by simp)
      have := hf y hy
      simp [h.eqv_refl hy] at this
  | cons x t1 ih =>
    intro l2 h1 h2 s1 s2 hf
    have hx : S x := h1 x (by simp)
    cases l2 with
    | nil =>
      have := hf x hx
      simp [h.eqv_refl hx] at this
    | cons y t2 =>
      have hy : S y := h2 y (by simp)
      have s1' := List.pairwise_cons.1 s1
      have s2' := List.pairwise_cons.1 s2
      -- y occurs in l1 and x occurs in l2
      have hy1 : y ∈ x :: t1 := by
        have : y ∈ (x :: t1).filter (eqv lt y) := by
          rw [hf y hy]; simp [h.eqv_refl hy]
        exact (List.mem_filter.1 this).1
      have hx2 : x ∈ y :: t2 := by
        have : x ∈ (y :: t2).filter (eqv lt x) := by
          rw [← hf x hx]; simp [h.eqv_refl hx]
        exact (List.mem_filter.1 this).1
      have hxy : x = y := by
        by_cases e : x = y
        · exact e
        · have hyx : lt y x = false := by
            rcases List.mem_cons.1 hy1 with e' | hm
            · exact absurd e'.symm e
            · exact s1'.1 y hm
          have hxy' : lt x y = false := by
            rcases List.mem_cons.1 hx2 with e' | hm
            · exact absurd e' e
            · exact s2'.1 x hm
          have hev : eqv lt x y = true := by simp [eqv, hyx, hxy']
          have := hf x hx
          simp only [List.filter_cons, h.eqv_refl hx, hev, if_true] at this
          injection this
      subst hxy
      congr 1
      apply ih t2 (fun e he => h1 e (List.mem_cons_of_mem _ he)) (fun e he => h2 e (List.mem_cons_of_mem _ he)) s1'.2 s2'.2
      intro a ha
      have := hf a ha
      simp only [List.filter_cons] at this
      cases hax : eqv lt a x
      · simpa [hax] using this
      · simp only [hax, if_true] at this
        injection this

/-- the elements of one class (`P`) keep their order through the sort when they were in order already -/
theorem pySort_filter_class (l : List α) (h : SWO lt (· ∈ l)) (P : α → Bool) (hs : Sorted lt (l.filter P)) :
    (pySort lt l).filter P = l.filter P := by
  obtain ⟨f1, f2, f3⟩ := pySort_spec l h
  apply sorted_unique h
  · intro e he; exact (f2.mem_iff).1 (List.mem_filter.1 he).1
  · intro e he; exact (List.mem_filter.1 he).1
  · exact List.Pairwise.sublist List.filter_sublist f1
  · exact hs
  · intro a ha
    rw [List.filter_filter, List.filter_filter]
    have e1 : (pySort lt l).filter (fun x => eqv lt a x && P x) = ((pySort lt l).filter (eqv lt a)).filter P := by
      rw [List.filter_filter]; congr 1; funext x; exact Bool.and_comm _ _
    have e2 : l.filter (fun x => eqv lt a x && P x) = (l.filter (eqv lt a)).filter P := by
      rw [List.filter_filter]; congr 1; funext x; exact Bool.and_comm _ _
    rw [e1, e2, f3 a ha]

end ASV.Serial
