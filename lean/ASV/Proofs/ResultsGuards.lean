/-
  C11 helper lemmas, part 4: what a `reuse` decision implies about the stored JSON and the current
  settings (inversion of the guards), TTA and HMMer threshold semantics, run_module.
-/
import ASV.Proofs.ResultsDetect
import ASV.Proofs.ResultsOther
namespace ASV.Results
open ASV.Results.Spec

theorem isIntLit_some {o : Option J} {n : Int} (h : isIntLit o n = true) : o = some (.int n) := by
  unfold isIntLit at h
  split at h
  · rename_i i; simp at h; subst h; rfl
  · simp at h

theorem isStrLit_some {o : Option J} {s : String} (h : isStrLit o s = true) : o = some (.str s) := by
  unfold isStrLit at h
  split at h
  · rename_i t; simp at h; subst h; rfl
  · simp at h

theorem not_not_eq_true {b : Bool} (h : (!b) = false) : b = true := by cases b <;> simp_all

/-! ### NRPS/PKS -/

theorem NrpsPks.reuse_inv {r ctx j x} (h : NrpsPks.fromJson r ctx j = .reuse x) :
    Spec.nrpsPksMayReuse ctx j = true ∧ x.recordId = ctx.recordId := by
  cases j with
  | obj kv =>
    simp only [NrpsPks.fromJson] at h
    split at h
    · simp at h
    · rename_i h1
      split at h
      · simp at h
      · rename_i h2
        have h1' := isIntLit_some (not_not_eq_true (by simpa using h1))
        have h2' := isStrLit_some (not_not_eq_true (by simpa using h2))
        obtain ⟨_, _, h⟩ := bind_eq_reuse h
        obtain ⟨_, _, h⟩ := bind_eq_reuse h
        simp at h; subst h
        simp [Spec.nrpsPksMayReuse, Spec.intField, Spec.strField, Spec.field, h1', h2', NrpsPks.schemaVersion]
  | null => simp [NrpsPks.fromJson] at h
  | bool _ => simp [NrpsPks.fromJson] at h
  | int _ => simp [NrpsPks.fromJson] at h
  | num _ => simp [NrpsPks.fromJson] at h
  | str _ => simp [NrpsPks.fromJson] at h
  | arr _ => simp [NrpsPks.fromJson] at h

theorem NrpsPks.schema_guard {r ctx kv} (h : isIntLit (lookup "schema_version" kv) NrpsPks.schemaVersion = false) :
    NrpsPks.fromJson r ctx (.obj kv) = .discard := by
  simp [NrpsPks.fromJson, h]

theorem NrpsPks.record_guard {r ctx kv} (h : isStrLit (lookup "record_id" kv) ctx.recordId = false) :
    NrpsPks.fromJson r ctx (.obj kv) = .discard ∨ NrpsPks.fromJson r ctx (.obj kv) = .discard := by
  left
  simp only [NrpsPks.fromJson]
  split
  · rfl
  · simp [h]

/-! ### rule-based detection -/

theorem RuleRes.reuse_inv {ctx j x} (h : RuleRes.fromJson ctx j = .reuse x) :
    Spec.intField j "schema_version" = some 4 := by
  cases j with
  | obj kv =>
    simp only [RuleRes.fromJson] at h
    split at h
    · simp at h
    · rename_i h1
      have h1' := isIntLit_some (not_not_eq_true (by simpa using h1))
      simp [Spec.intField, Spec.field, h1', RuleRes.schemaVersion]
  | null => simp [RuleRes.fromJson] at h
  | bool _ => simp [RuleRes.fromJson] at h
  | int _ => simp [RuleRes.fromJson] at h
  | num _ => simp [RuleRes.fromJson] at h
  | str _ => simp [RuleRes.fromJson] at h
  | arr _ => simp [RuleRes.fromJson] at h

theorem RuleRes.schema_guard {ctx kv} (h : isIntLit (lookup "schema_version" kv) RuleRes.schemaVersion = false) :
    RuleRes.fromJson ctx (.obj kv) = .discard := by
  simp [RuleRes.fromJson, h]

theorem HmmDet.fromJson_inv {ctx j x} (h : HmmDet.fromJson ctx j = .reuse x) :
    Spec.intField j "schema_version" = some 2 ∧ Spec.strField j "record_id" = some ctx.recordId
    ∧ x.recordId = ctx.recordId
    ∧ (∃ rj, Spec.field j "rule_results" = some rj ∧ Spec.intField rj "schema_version" = some 4)
    ∧ strictnessLevels.contains x.strictness = true := by
  cases j with
  | obj kv =>
    simp only [HmmDet.fromJson] at h
    split at h
    · simp at h
    · rename_i sv hsv
      split at h
      · simp at h
      · rename_i h1
        have h1' := isIntLit_some (not_not_eq_true (by simpa using h1))
        split at h
        · simp at h
        · rename_i rid hrid
          split at h
          · simp at h
          · rename_i h2
            have h2' := isStrLit_some (not_not_eq_true (by simpa using h2))
            split at h
            · simp at h
            · rename_i rj hrj
              split at h
              · simp at h
              · simp at h
              · rename_i rr hrr
                obtain ⟨et, _, h⟩ := bind_eq_reuse h
                obtain ⟨st, _, h⟩ := bind_eq_reuse h
                split at h
                · simp at h
                · rename_i hs
                  simp at h; subst h
                  simp only [Option.some.injEq] at h1' h2'
                  subst h1' h2'
                  refine ⟨by simp [Spec.intField, Spec.field, hsv, HmmDet.schemaVersion],
                          by simp [Spec.strField, Spec.field, hrid], rfl,
                          ⟨rj, by simp [Spec.field, hrj], RuleRes.reuse_inv hrr⟩, ?_⟩
                  simpa using hs
  | null => simp [HmmDet.fromJson] at h
  | bool _ => simp [HmmDet.fromJson] at h
  | int _ => simp [HmmDet.fromJson] at h
  | num _ => simp [HmmDet.fromJson] at h
  | str _ => simp [HmmDet.fromJson] at h
  | arr _ => simp [HmmDet.fromJson] at h

theorem HmmDet.regenerate_inv {ctx o j x} (h : HmmDet.regenerate ctx o j = .reuse x) :
    HmmDet.fromJson ctx j = .reuse x ∧ setEq x.enabledTypes o.ruleNames = true
    ∧ (o.fungi = true → x.rules.cutoffMult = o.cutoffMult ∧ x.rules.neighMult = o.neighMult) := by
  unfold HmmDet.regenerate at h
  split at h
  · simp at h
  · cases hy : HmmDet.fromJson ctx j with
    | reuse y =>
      rw [hy] at h; simp only at h
      split at h
      · simp at h
      · rename_i h1
        split at h
        · simp at h
        · rename_i h2
          split at h
          · simp at h
          · rename_i h3
            simp at h; subst h
            refine ⟨rfl, by simpa using h1, fun hf => ?_⟩
            simp [hf] at h2 h3
            exact ⟨h2, h3⟩
    | discard => rw [hy] at h; simp at h
    | refuse e => rw [hy] at h; simp at h

/-! ### sideloader -/

theorem Sideloaded.reuse_inv {ctx j x} (h : Sideloaded.fromJson ctx j = .reuse x) :
    Spec.sideloadMayReuse ctx j = true ∧ x.recordId = ctx.recordId := by
  cases j with
  | obj kv =>
    simp only [Sideloaded.fromJson] at h
    split at h
    · simp at h
    · rename_i sv hsv
      split at h
      · simp at h
      · rename_i h1
        have h1' := isIntLit_some (not_not_eq_true (by simpa using h1))
        split at h
        · simp at h
        · rename_i rid hrid
          split at h
          · simp at h
          · rename_i h2
            have h2' := isStrLit_some (not_not_eq_true (by simpa using h2))
            obtain ⟨_, _, h⟩ := bind_eq_reuse h
            obtain ⟨_, _, h⟩ := bind_eq_reuse h
            obtain ⟨_, _, h⟩ := bind_eq_reuse h
            obtain ⟨_, _, h⟩ := bind_eq_reuse h
            simp at h; subst h
            simp only [Option.some.injEq] at h1' h2'
            subst h1' h2'
            simp [Spec.sideloadMayReuse, Spec.intField, Spec.strField, Spec.field, hsv, hrid, Sideloaded.schemaVersion]
  | null => simp [Sideloaded.fromJson] at h
  | bool _ => simp [Sideloaded.fromJson] at h
  | int _ => simp [Sideloaded.fromJson] at h
  | num _ => simp [Sideloaded.fromJson] at h
  | str _ => simp [Sideloaded.fromJson] at h
  | arr _ => simp [Sideloaded.fromJson] at h

/-! ### HMMer-based results -/

theorem HmmerRes.fromJson_inv {ctx j x} (h : HmmerRes.fromJson ctx j = .reuse x) :
    Spec.intField j "schema" = some 2 ∧ Spec.strField j "record id" = some ctx.recordId
    ∧ Spec.numField j "max evalue" = some x.evalue ∧ Spec.numField j "min score" = some x.score
    ∧ x.recordId = ctx.recordId := by
  cases j with
  | obj kv =>
    simp only [HmmerRes.fromJson] at h
    split at h
    · simp at h
    · rename_i h1
      have h1' := isStrLit_some (not_not_eq_true (by simpa using h1))
      split at h
      · simp at h
      · rename_i h2
        have h2' := isIntLit_some (not_not_eq_true (by simpa using h2))
        split at h
        · simp at h
        · simp at h
        · simp at h
        · simp at h
        · rename_i ev sc hev hsc
          split at h
          · rename_i hj hhits
            obtain ⟨_, _, h⟩ := bind_eq_reuse h
            obtain ⟨_, _, h⟩ := bind_eq_reuse h
            obtain ⟨_, _, h⟩ := bind_eq_reuse h
            simp at h; subst h
            simp [Spec.intField, Spec.strField, Spec.numField, Spec.field, h1', h2', hev, hsc, HmmerRes.schemaVersion]
          · simp at h
        · simp at h
  | null => simp [HmmerRes.fromJson] at h
  | bool _ => simp [HmmerRes.fromJson] at h
  | int _ => simp [HmmerRes.fromJson] at h
  | num _ => simp [HmmerRes.fromJson] at h
  | str _ => simp [HmmerRes.fromJson] at h
  | arr _ => simp [HmmerRes.fromJson] at h

theorem HmmerRes.refilter_inv {x y : HmmerRes} {maxE minS : Dec} (h : x.refilter maxE minS = .reuse y) :
    Dec.le maxE x.evalue = true ∧ Dec.le x.score minS = true
    ∧ y.hits = Spec.hmmerReference x.hits maxE minS ∧ y.evalue = maxE ∧ y.score = minS
    ∧ y.recordId = x.recordId := by
  unfold HmmerRes.refilter at h
  split at h
  · simp at h
  · rename_i h1
    split at h
    · simp at h
    · rename_i h2
      simp at h; subst h
      refine ⟨?_, ?_, rfl, rfl, rfl, rfl⟩
      · rw [Dec.le_eq_not_lt]; simpa using h1
      · rw [Dec.le_eq_not_lt]; simpa using h2

theorem HmmerRes.regenerate_inv {ctx maxE minS j y} (h : HmmerRes.regenerate ctx maxE minS j = .reuse y) :
    ∃ x, HmmerRes.fromJson ctx j = .reuse x ∧ x.refilter maxE minS = .reuse y := by
  unfold HmmerRes.regenerate at h
  split at h
  · simp at h
  · cases hx : HmmerRes.fromJson ctx j with
    | reuse x =>
      rw [hx] at h; simp only at h
      split at h
      · simp at h
      · exact ⟨x, rfl, h⟩
    | discard => rw [hx] at h; simp at h
    | refuse e => rw [hx] at h; simp at h

theorem Dec.le_total (a b : Dec) : Dec.le a b = true ∨ Dec.le b a = true := by
  have hs := Dec.scaled_swap a b
  simp only [Dec.le, decide_eq_true_eq]
  rw [hs]
  simp only
  omega

theorem Dec.le_of_lt {a b : Dec} (h : Dec.lt a b = true) : Dec.le a b = true := by
  rcases Dec.le_total a b with h1 | h1
  · exact h1
  · rw [Dec.lt_eq_not_le, h1] at h; simp at h

theorem Dec.strict_off_boundary {a b : Dec} (h : (Dec.le b a && Dec.le a b) = false) : Dec.le a b = Dec.lt a b := by
  rw [Dec.lt_eq_not_le a b]
  rcases Dec.le_total a b with h1 | h1
  · cases h2 : Dec.le b a
    · simp [h1]
    · simp [h1, h2] at h
  · cases h2 : Dec.le a b
    · simp [h1]
    · simp [h1, h2] at h

theorem filter_congr' {α} (p q : α → Bool) : ∀ l : List α, (∀ x ∈ l, p x = q x) → l.filter p = l.filter q
  | [], _ => rfl
  | x :: xs, h => by
    have hx := h x (by simp)
    have ih := filter_congr' p q xs (fun y hy => h y (by simp [hy]))
    simp [List.filter, hx, ih]

/-- off the boundary the inclusive filter of `refilter` and the exclusive one of `build_hits` agree -/
theorem hmmerReference_eq_fresh (hits : List HmmerHit) (maxE minS : Dec)
    (h : Spec.hmmerOnBoundary hits maxE minS = false) :
    Spec.hmmerReference hits maxE minS = Spec.hmmerFresh hits maxE minS := by
  unfold Spec.hmmerReference Spec.hmmerFresh
  apply filter_congr'
  intro x hx
  simp only [Spec.hmmerOnBoundary, List.any_eq_false] at h
  have hb := h x hx
  simp only [Bool.or_eq_true, not_or, Bool.not_eq_true] at hb
  rw [Dec.strict_off_boundary hb.1, Dec.strict_off_boundary (a := x.evalue) (b := maxE) (by
    have := hb.2; rw [Bool.and_comm]; exact this)]

/-! ### TTA -/

theorem TTA.fromJson_toJson_cases (x : TTA) (opt : Dec) (hl : TTA.locsOk x.codons = true) :
    TTA.fromJson opt x.toJson =
      if Dec.lt x.gc x.threshold && Dec.le opt x.gc then .discard
      else if Dec.le opt x.gc then .reuse ⟨x.recordId, x.gc, opt, x.codons⟩
      else .reuse ⟨x.recordId, x.gc, opt, []⟩ := by
  simp only [TTA.toJson, TTA.fromJson]
  simp [lookup, reqStr, reqNum, reqArr, isIntLit, TTA.schemaVersion, TTA.codons_roundtrip x.codons hl]

end ASV.Results
