/-
  Helper lemmas for C09: `convert_protein_position_to_dna` on compound locations (the sorted gap walk).
-/
import ASV.Proofs.ProtDna
import ASV.Proofs.Loc
import ASV.Proofs.LocConnect
namespace ASV.ProtDna
open ASV

/-- the `k`-th base (0-based) of a part list read in list order, each part upwards -/
def posAsc : List Part → Int → Int
  | [], k => k
  | p :: ps, k => if k < p.hi - p.lo then p.lo + k else posAsc ps (k - (p.hi - p.lo))

def totalLen (ps : List Part) : Int := (ps.map Part.len).sum

theorem totalLen_cons (p : Part) (ps : List Part) : totalLen (p :: ps) = (p.hi - p.lo) + totalLen ps := by
  simp [totalLen, Part.len]

theorem totalLen_nonneg (ps : List Part) (h : ∀ p ∈ ps, p.lo < p.hi) : 0 ≤ totalLen ps := by
  induction ps with
  | nil => simp [totalLen]
  | cons q qs ih =>
    have := h q (by simp)
    have := ih (fun x hx => h x (by simp [hx]))
    rw [totalLen_cons]; omega

theorem walk_done (rest : List Part) (w : Walk) (h : (w.sf && w.ef) = true) : rest.foldl walkStep w = w := by
  induction rest with
  | nil => rfl
  | cons p rest ih =>
    have hw : walkStep w p = w := by simp [walkStep, h]
    simp only [List.foldl_cons, hw, ih]

theorem walkStep_fields (w : Walk) (p : Part) (h : (w.sf && w.ef) = false) :
    walkStep w p =
      ⟨w.gap + (p.lo - w.lastEnd), p.hi,
        if !w.sf && p.mem (w.ds + (w.gap + (p.lo - w.lastEnd))) then w.ds + (w.gap + (p.lo - w.lastEnd)) else w.ds,
        if !w.ef && p.mem (w.de + (w.gap + (p.lo - w.lastEnd)) - 1) then w.de + (w.gap + (p.lo - w.lastEnd)) else w.de,
        if !w.sf && p.mem (w.ds + (w.gap + (p.lo - w.lastEnd))) then true else w.sf,
        if !w.ef && p.mem (w.de + (w.gap + (p.lo - w.lastEnd)) - 1) then true else w.ef⟩ := by
  simp only [walkStep, h, Bool.false_eq_true, if_false]
  split <;> split <;> simp_all

/-- one coordinate of the walk: the target offset `t` (0-based, in list order) -/
theorem mem_candidate (p : Part) (base cum t x gap lastEnd : Int) (hinv : lastEnd - gap = base + cum)
    (hx : x = base + t) (hct : cum ≤ t) :
    p.mem (x + (gap + (p.lo - lastEnd))) = decide (t - cum < p.hi - p.lo) := by
  simp only [Part.mem]
  by_cases h : t - cum < p.hi - p.lo
  · simp [h]; omega
  · simp [h]; omega


/-- state of the walk after the remaining parts, in closed form -/
theorem walk_fold (base a b : Int) :
    ∀ (rest : List Part) (w : Walk) (cum : Int),
      (∀ p ∈ rest, p.lo < p.hi) →
      ((w.sf && w.ef) = false → w.lastEnd - w.gap = base + cum) →
      (w.sf = false → w.ds = base + a ∧ cum ≤ a) →
      (w.ef = false → w.de = base + b ∧ cum ≤ b - 1) →
      ((rest.foldl walkStep w).ds
          = if w.sf then w.ds else if a - cum < totalLen rest then posAsc rest (a - cum) else w.ds) ∧
      ((rest.foldl walkStep w).de
          = if w.ef then w.de else if b - 1 - cum < totalLen rest then posAsc rest (b - 1 - cum) + 1 else w.de) ∧
      ((rest.foldl walkStep w).sf = (w.sf || decide (a - cum < totalLen rest))) ∧
      ((rest.foldl walkStep w).ef = (w.ef || decide (b - 1 - cum < totalLen rest))) := by
  intro rest
  induction rest with
  | nil =>
    intro w cum _ _ hs he
    simp only [List.foldl_nil, totalLen, List.map_nil, List.sum_nil]
    refine ⟨?_, ?_, ?_, ?_⟩
    · cases hsf : w.sf <;> simp
      intro h; have := (hs hsf).2; omega
    · cases hef : w.ef <;> simp
      intro h; have := (he hef).2; omega
    · cases hsf : w.sf <;> simp
      have := (hs hsf).2; omega
    · cases hef : w.ef <;> simp
      have := (he hef).2; omega
  | cons p rest ih =>
    intro w cum hpos hinv hs he
    have hp := hpos p (by simp)
    have hrest : ∀ q ∈ rest, q.lo < q.hi := fun q hq => hpos q (by simp [hq])
    by_cases hboth : (w.sf && w.ef) = true
    · rw [walk_done _ w hboth]
      simp only [Bool.and_eq_true] at hboth
      simp [hboth.1, hboth.2]
    · have hboth' : (w.sf && w.ef) = false := by simpa using hboth
      have hinv' := hinv hboth'
      simp only [List.foldl_cons]
      rw [totalLen_cons]
      have hstep := walkStep_fields w p hboth'
      have hnn : 0 ≤ totalLen rest := totalLen_nonneg rest hrest
      -- the two membership tests in closed form
      have hmS : w.sf = false → p.mem (w.ds + (w.gap + (p.lo - w.lastEnd))) = decide (a - cum < p.hi - p.lo) :=
        fun h => mem_candidate p base cum a w.ds w.gap w.lastEnd hinv' (hs h).1 (hs h).2
      have hmE : w.ef = false → p.mem (w.de + (w.gap + (p.lo - w.lastEnd)) - 1) = decide (b - 1 - cum < p.hi - p.lo) := by
        intro h
        have := mem_candidate p base cum (b - 1) (w.de - 1) w.gap w.lastEnd hinv' (by have := (he h).1; omega) (he h).2
        have e : w.de + (w.gap + (p.lo - w.lastEnd)) - 1 = w.de - 1 + (w.gap + (p.lo - w.lastEnd)) := by omega
        rw [e]; exact this
      -- fields of the new state
      have g1 : (walkStep w p).lastEnd - (walkStep w p).gap = base + (cum + (p.hi - p.lo)) := by
        rw [hstep]; show p.hi - (w.gap + (p.lo - w.lastEnd)) = _; omega
      have s1 : (walkStep w p).sf = (w.sf || decide (a - cum < p.hi - p.lo)) := by
        rw [hstep]; show (if _ then true else w.sf) = _
        cases hsf : w.sf
        · simp [hmS hsf]
        · simp
      have d1 : (walkStep w p).ds = if w.sf then w.ds else if a - cum < p.hi - p.lo then p.lo + (a - cum) else w.ds := by
        rw [hstep]; show (if _ then _ else w.ds) = _
        cases hsf : w.sf
        · simp only [Bool.not_false, Bool.true_and, hmS hsf, Bool.false_eq_true, if_false, decide_eq_true_eq]
          split
          · have h1 := (hs hsf).1
            show w.ds + (w.gap + (p.lo - w.lastEnd)) = p.lo + (a - cum)
            omega
          · rfl
        · simp
      have f1 : (walkStep w p).ef = (w.ef || decide (b - 1 - cum < p.hi - p.lo)) := by
        rw [hstep]; show (if _ then true else w.ef) = _
        cases hef : w.ef
        · simp [hmE hef]
        · simp
      have e1 : (walkStep w p).de = if w.ef then w.de else if b - 1 - cum < p.hi - p.lo then p.lo + (b - 1 - cum) + 1 else w.de := by
        rw [hstep]; show (if _ then _ else w.de) = _
        cases hef : w.ef
        · simp only [Bool.not_false, Bool.true_and, hmE hef, Bool.false_eq_true, if_false, decide_eq_true_eq]
          split
          · have h1 := (he hef).1
            show w.de + (w.gap + (p.lo - w.lastEnd)) = p.lo + (b - 1 - cum) + 1
            omega
          · rfl
        · simp
      obtain ⟨i1, i2, i3, i4⟩ := ih (walkStep w p) (cum + (p.hi - p.lo)) hrest (fun _ => g1)
        (by
          intro hsf1
          rw [s1] at hsf1
          simp only [Bool.or_eq_false_iff, decide_eq_false_iff_not] at hsf1
          rw [d1]; simp only [hsf1.1, Bool.false_eq_true, if_false, if_neg hsf1.2]
          have := hs hsf1.1; omega)
        (by
          intro hef1
          rw [f1] at hef1
          simp only [Bool.or_eq_false_iff, decide_eq_false_iff_not] at hef1
          rw [e1]; simp only [hef1.1, Bool.false_eq_true, if_false, if_neg hef1.2]
          have := he hef1.1; omega)
      have ea : a - (cum + (p.hi - p.lo)) = a - cum - (p.hi - p.lo) := by omega
      have eb : b - 1 - (cum + (p.hi - p.lo)) = b - 1 - cum - (p.hi - p.lo) := by omega
      rw [ea] at i1 i3
      rw [eb] at i2 i4
      refine ⟨?_, ?_, ?_, ?_⟩
      · rw [i1, s1, d1]
        cases hsf : w.sf
        · by_cases hc : a - cum < p.hi - p.lo
          · have ht : a - cum < p.hi - p.lo + totalLen rest := by omega
            simp [hc, ht, posAsc]
          · by_cases ht : a - cum - (p.hi - p.lo) < totalLen rest
            · have ht' : a - cum < p.hi - p.lo + totalLen rest := by omega
              simp [hc, ht, ht', posAsc]
            · have ht' : ¬ a - cum < p.hi - p.lo + totalLen rest := by omega
              simp [hc, ht, ht']
        · simp
      · rw [i2, f1, e1]
        cases hef : w.ef
        · by_cases hc : b - 1 - cum < p.hi - p.lo
          · have ht : b - 1 - cum < p.hi - p.lo + totalLen rest := by omega
            simp [hc, ht, posAsc]
          · by_cases ht : b - 1 - cum - (p.hi - p.lo) < totalLen rest
            · have ht' : b - 1 - cum < p.hi - p.lo + totalLen rest := by omega
              simp [hc, ht, ht', posAsc]
            · have ht' : ¬ b - 1 - cum < p.hi - p.lo + totalLen rest := by omega
              simp [hc, ht, ht']
        · simp
      · rw [i3, s1]
        cases w.sf <;> simp
        by_cases hc : a - cum < p.hi - p.lo
        · simp [hc]; omega
        · simp [hc]; constructor <;> intro h <;> omega
      · rw [i4, f1]
        cases w.ef <;> simp
        by_cases hc : b - 1 - cum < p.hi - p.lo
        · simp [hc]; omega
        · simp [hc]; constructor <;> intro h <;> omega

/-- exons listed upwards without overlap (what `ensure_valid_locations` lets through for a forward gene on a
    linear record, up to touching exons) -/
def ascDisjoint : List Part → Prop
  | [] => True
  | [_] => True
  | p :: q :: r => p.hi ≤ q.lo ∧ ascDisjoint (q :: r)

theorem insertPart_head (x : Part) (ys : List Part) (h : ∀ y ∈ ys.head?, x.lo ≤ y.lo) : insertPart x ys = x :: ys := by
  cases ys with
  | nil => rfl
  | cons y ys => simp [insertPart, h y (by simp)]

theorem sortParts_asc (ps : List Part) (hpos : ∀ p ∈ ps, p.lo < p.hi) (h : ascDisjoint ps) : sortParts ps = ps := by
  induction ps with
  | nil => rfl
  | cons p rest ih =>
    have hrest : sortParts rest = rest := by
      apply ih (fun q hq => hpos q (by simp [hq]))
      cases rest with
      | nil => trivial
      | cons q r => exact h.2
    show insertPart p (sortParts rest) = p :: rest
    rw [hrest]
    apply insertPart_head
    intro y hy
    cases rest with
    | nil => simp at hy
    | cons q r =>
      simp at hy; subst hy
      have := hpos p (by simp); have := h.1; omega

/-- where the `k`-th base lies -/
theorem posAsc_mem (ps : List Part) (hpos : ∀ p ∈ ps, p.lo < p.hi) (k : Int) (h0 : 0 ≤ k) (hk : k < totalLen ps) :
    ∃ p ∈ ps, p.lo ≤ posAsc ps k ∧ posAsc ps k < p.hi := by
  induction ps generalizing k with
  | nil => simp [totalLen] at hk; omega
  | cons p rest ih =>
    rw [totalLen_cons] at hk
    simp only [posAsc]
    split
    · exact ⟨p, by simp, by omega, by omega⟩
    · obtain ⟨q, hq, h1, h2⟩ := ih (fun q hq => hpos q (by simp [hq])) (k - (p.hi - p.lo)) (by omega) (by omega)
      exact ⟨q, by simp [hq], h1, h2⟩

theorem ascDisjoint_lo_le (p : Part) (rest : List Part) (hpos : ∀ q ∈ p :: rest, q.lo < q.hi)
    (h : ascDisjoint (p :: rest)) : ∀ q ∈ rest, p.hi ≤ q.lo := by
  induction rest generalizing p with
  | nil => intro q hq; cases hq
  | cons r rs ih =>
    intro q hq
    simp only [List.mem_cons] at hq
    rcases hq with rfl | hq
    · exact h.1
    · have := ih r (fun x hx => hpos x (List.mem_cons_of_mem _ hx)) h.2 q hq
      have := hpos r (by simp); have := h.1; omega

theorem posAsc_mono (ps : List Part) (hpos : ∀ p ∈ ps, p.lo < p.hi) (h : ascDisjoint ps) (j k : Int)
    (h0 : 0 ≤ j) (hjk : j ≤ k) (hk : k < totalLen ps) : posAsc ps j ≤ posAsc ps k := by
  induction ps generalizing j k with
  | nil => simp [posAsc]; omega
  | cons p rest ih =>
    rw [totalLen_cons] at hk
    have hrest : ∀ q ∈ rest, q.lo < q.hi := fun q hq => hpos q (by simp [hq])
    have hasc : ascDisjoint rest := by
      cases rest with
      | nil => trivial
      | cons q r => exact h.2
    simp only [posAsc]
    by_cases hj : j < p.hi - p.lo
    · by_cases hk' : k < p.hi - p.lo
      · simp [hj, hk']; omega
      · simp only [hj, hk', if_true, if_false]
        obtain ⟨q, hq, h1, _⟩ := posAsc_mem rest hrest (k - (p.hi - p.lo)) (by omega) (by omega)
        have := ascDisjoint_lo_le p rest hpos h q hq
        omega
    · have hk' : ¬ k < p.hi - p.lo := by omega
      simp only [hj, hk', if_false]
      exact ih hrest hasc _ _ (by omega) (by omega) (by omega)

theorem upRange_getElem? (lo : Int) (n k : Nat) : (upRange lo n)[k]? = if k < n then some (lo + k) else none := by
  induction n generalizing lo k with
  | zero => simp [upRange]
  | succ n ih =>
    cases k with
    | zero => simp [upRange]
    | succ k =>
      simp only [upRange, List.getElem?_cons_succ, ih]
      have : lo + 1 + (k : Int) = lo + ((k + 1 : Nat) : Int) := by push_cast; omega
      simp [this]

/-- on a non-reverse strand the `k`-th transcribed base is the `k`-th base in list order, read upwards -/
theorem bases_getElem_fwd (ps : List Part) (hpos : ∀ p ∈ ps, p.lo < p.hi ∧ (p.strand == .rev) = false) (k : Nat)
    (hk : (k : Int) < totalLen ps) : (ps.flatMap partBases)[k]? = some (posAsc ps k) := by
  induction ps generalizing k with
  | nil => simp [totalLen] at hk; omega
  | cons p rest ih =>
    have hp := hpos p (by simp)
    rw [totalLen_cons] at hk
    have hlen : (partBases p).length = (p.hi - p.lo).toNat := partBases_length p
    simp only [List.flatMap_cons, posAsc]
    by_cases hc : (k : Int) < p.hi - p.lo
    · rw [List.getElem?_append_left (by rw [hlen]; omega)]
      simp only [partBases, hp.2, Bool.false_eq_true, if_false, upRange_getElem?, hc, if_true]
      rw [if_pos (by omega)]
    · rw [List.getElem?_append_right (by rw [hlen]; omega), hlen]
      have := ih (fun q hq => hpos q (by simp [hq])) (k - (p.hi - p.lo).toNat) (by omega)
      rw [this]
      simp only [hc, if_false]
      congr 2; omega

/-- the sorted gap walk from the start of a non-empty ascending part list -/
theorem walk_result (p0 : Part) (rest : List Part) (hpos : ∀ p ∈ p0 :: rest, p.lo < p.hi) (a b : Int)
    (h0 : 0 ≤ a) (hab : a < b) (hb : b ≤ totalLen (p0 :: rest)) :
    let w := (p0 :: rest).foldl walkStep ⟨0, p0.lo, p0.lo + a, p0.lo + b, false, false⟩
    w.sf = true ∧ w.ef = true ∧ w.ds = posAsc (p0 :: rest) a ∧ w.de = posAsc (p0 :: rest) (b - 1) + 1 := by
  obtain ⟨h1, h2, h3, h4⟩ := walk_fold p0.lo a b (p0 :: rest) ⟨0, p0.lo, p0.lo + a, p0.lo + b, false, false⟩ 0
    hpos (fun _ => by show p0.lo - 0 = p0.lo + 0; omega) (fun _ => ⟨rfl, h0⟩) (fun _ => ⟨rfl, by omega⟩)
  have ha : a - 0 < totalLen (p0 :: rest) := by omega
  have hb' : b - 1 - 0 < totalLen (p0 :: rest) := by omega
  have e1 : a - 0 = a := by omega
  have e2 : b - 1 - 0 = b - 1 := by omega
  simp only [e1, e2] at h1 h2 h3 h4 ha hb'
  simp only [Bool.false_eq_true, if_false, ha, hb', if_true, Bool.false_or, decide_true] at h1 h2 h3 h4
  exact ⟨h3, h4, h1, h2⟩

theorem start_of_asc (p0 : Part) (rest : List Part) (hpos : ∀ p ∈ p0 :: rest, p.lo < p.hi)
    (h : ascDisjoint (p0 :: rest)) : (Loc.compound (p0 :: rest)).start = p0.lo := by
  have hle : ∀ q ∈ rest, p0.lo ≤ q.lo := fun q hq => by
    have := ascDisjoint_lo_le p0 rest hpos h q hq; have := hpos p0 (by simp); omega
  have hmem := minList_mem (l := (p0 :: rest).map (·.lo)) (by simp)
  have hlow := minList_le_of_mem (l := (p0 :: rest).map (·.lo)) (y := p0.lo) (by simp)
  show minList ((p0 :: rest).map (·.lo)) = p0.lo
  obtain ⟨q, hq, h1⟩ := List.mem_map.mp hmem
  rcases List.mem_cons.mp hq with rfl | hq
  · exact h1.symm
  · have := hle q hq; omega

/-- `convert_protein_position_to_dna` on a compound location of a non-reverse strand whose exons are listed
    upwards without overlap: the pair is (coordinate of base 3s, coordinate of base 3e-1, plus one) -/
theorem convert_compound_forward (ps : List Part) (hwf : geneWF (.compound ps) = true)
    (hnr : isRev (.compound ps) = false) (hasc : ascDisjoint ps) (s e : Nat) (hse : s < e)
    (he : (e : Int) ≤ (Loc.compound ps).len / 3) :
    ∃ ds de, convertProteinToDna s e (.compound ps) = .ok (ds, de) ∧
      (bases (.compound ps))[3 * s]? = some ds ∧ (bases (.compound ps))[3 * e - 1]? = some (de - 1) ∧ ds < de := by
  obtain ⟨hne, hparts⟩ := (geneWF_iff _).mp hwf
  match ps, hne with
  | p0 :: rest, _ =>
    have hpos : ∀ p ∈ p0 :: rest, p.lo < p.hi := fun p hp => (hparts p hp).1
    have hstr : ∀ p ∈ p0 :: rest, p.lo < p.hi ∧ (p.strand == .rev) = false := fun p hp =>
      ⟨(hparts p hp).1, by rw [(hparts p hp).2]; simpa [isRev] using hnr⟩
    have hlen : (Loc.compound (p0 :: rest)).len = totalLen (p0 :: rest) := rfl
    rw [hlen] at he
    have h3 : 3 * (e : Int) ≤ totalLen (p0 :: rest) := by omega
    obtain ⟨w1, w2, w3, w4⟩ := walk_result p0 rest hpos (3 * s) (3 * e) (by omega) (by omega) h3
    have hstart := start_of_asc p0 rest hpos hasc
    obtain ⟨pa, hpa, ha1, ha2⟩ := posAsc_mem (p0 :: rest) hpos (3 * s) (by omega) (by omega)
    obtain ⟨pb, hpb, hb1, hb2⟩ := posAsc_mem (p0 :: rest) hpos (3 * e - 1) (by omega) (by omega)
    have hmono := posAsc_mono (p0 :: rest) hpos hasc (3 * s) (3 * e - 1) (by omega) (by omega) (by omega)
    have hlo : (Loc.compound (p0 :: rest)).start ≤ pa.lo :=
      minList_le_of_mem (List.mem_map.mpr ⟨pa, hpa, rfl⟩)
    have hhi : pb.hi ≤ (Loc.compound (p0 :: rest)).end :=
      le_maxList_of_mem (List.mem_map.mpr ⟨pb, hpb, rfl⟩)
    refine ⟨posAsc (p0 :: rest) (3 * s), posAsc (p0 :: rest) (3 * e - 1) + 1, ?_, ?_, ?_, by omega⟩
    · have hg : (decide (0 ≤ (s : Int)) && decide ((s : Int) < e) && decide ((e : Int) ≤ (Loc.compound (p0 :: rest)).len / 3)) = true := by
        rw [hlen]; simp; omega
      have e1 : (Loc.compound (p0 :: rest)).start + (s : Int) * 3 = p0.lo + 3 * s := by rw [hstart]; omega
      have e2 : (Loc.compound (p0 :: rest)).start + (e : Int) * 3 = p0.lo + 3 * e := by rw [hstart]; omega
      simp only [convertProteinToDna, hg, Bool.not_true, Bool.false_eq_true, if_false, hnr, e1, e2,
        sortParts_asc (p0 :: rest) hpos hasc]
      simp only [w1, w2, w3, w4, Bool.not_true, Bool.false_eq_true, if_false]
      rw [if_neg]
      have c1 : (Loc.compound (p0 :: rest)).start ≤ posAsc (p0 :: rest) (3 * ↑s) := by omega
      have c2 : posAsc (p0 :: rest) (3 * ↑s) < posAsc (p0 :: rest) (3 * ↑e - 1) + 1 := by omega
      have c3 : posAsc (p0 :: rest) (3 * ↑e - 1) + 1 ≤ (Loc.compound (p0 :: rest)).end := by omega
      simp [c1, c2, c3]
    · have := bases_getElem_fwd (p0 :: rest) hstr (3 * s) (by push_cast; omega)
      simpa [bases, Loc.parts] using this
    · have := bases_getElem_fwd (p0 :: rest) hstr (3 * e - 1) (by omega)
      have e3 : ((3 * e - 1 : Nat) : Int) = 3 * (e : Int) - 1 := by omega
      rw [e3] at this
      simpa [bases, Loc.parts] using this

/-- exons listed downwards without overlap (the standard order of a reverse-strand gene) -/
def descDisjoint : List Part → Prop
  | [] => True
  | [_] => True
  | p :: q :: r => q.hi ≤ p.lo ∧ descDisjoint (q :: r)

theorem descDisjoint_tail (p : Part) (rest : List Part) (h : descDisjoint (p :: rest)) : descDisjoint rest := by
  cases rest with
  | nil => trivial
  | cons q r => exact h.2

theorem descDisjoint_hi_le (p : Part) (rest : List Part) (hpos : ∀ q ∈ p :: rest, q.lo < q.hi)
    (h : descDisjoint (p :: rest)) : ∀ q ∈ rest, q.hi ≤ p.lo := by
  induction rest generalizing p with
  | nil => intro q hq; cases hq
  | cons r rs ih =>
    intro q hq
    simp only [List.mem_cons] at hq
    rcases hq with rfl | hq
    · exact h.1
    · have := ih r (fun x hx => hpos x (List.mem_cons_of_mem _ hx)) h.2 q hq
      have := hpos r (by simp); have := h.1; omega

theorem insertPart_last (x : Part) (ys : List Part) (h : ∀ y ∈ ys, y.lo < x.lo) : insertPart x ys = ys ++ [x] := by
  induction ys with
  | nil => rfl
  | cons y ys ih =>
    have := h y (by simp)
    simp only [insertPart, List.cons_append]
    rw [if_neg (by omega), ih (fun z hz => h z (by simp [hz]))]

theorem sortParts_desc (ps : List Part) (hpos : ∀ p ∈ ps, p.lo < p.hi) (h : descDisjoint ps) :
    sortParts ps = ps.reverse := by
  induction ps with
  | nil => rfl
  | cons p rest ih =>
    have hrest := ih (fun q hq => hpos q (by simp [hq])) (descDisjoint_tail p rest h)
    show insertPart p (sortParts rest) = (p :: rest).reverse
    rw [hrest, List.reverse_cons]
    apply insertPart_last
    intro y hy
    have := descDisjoint_hi_le p rest hpos h y (by simpa using hy)
    have := hpos y (by simp at hy; simp [hy]); omega

theorem ascDisjoint_snoc (ys : List Part) (x : Part) (h : ascDisjoint ys) (hx : ∀ y ∈ ys, y.hi ≤ x.lo) :
    ascDisjoint (ys ++ [x]) := by
  induction ys with
  | nil => trivial
  | cons y ys ih =>
    cases ys with
    | nil => exact ⟨hx y (by simp), trivial⟩
    | cons z zs =>
      exact ⟨h.1, ih h.2 (fun w hw => hx w (List.mem_cons_of_mem _ hw))⟩

theorem ascDisjoint_reverse (ps : List Part) (hpos : ∀ p ∈ ps, p.lo < p.hi) (h : descDisjoint ps) :
    ascDisjoint ps.reverse := by
  induction ps with
  | nil => trivial
  | cons p rest ih =>
    rw [List.reverse_cons]
    apply ascDisjoint_snoc _ _ (ih (fun q hq => hpos q (by simp [hq])) (descDisjoint_tail p rest h))
    intro y hy
    exact descDisjoint_hi_le p rest hpos h y (by simpa using hy)

theorem totalLen_append (xs ys : List Part) : totalLen (xs ++ ys) = totalLen xs + totalLen ys := by
  simp [totalLen]

theorem totalLen_reverse (xs : List Part) : totalLen xs.reverse = totalLen xs := by
  induction xs with
  | nil => rfl
  | cons x xs ih => rw [List.reverse_cons, totalLen_append, ih, totalLen_cons, totalLen_cons]; simp [totalLen]; omega

theorem posAsc_append (xs ys : List Part) (hpos : ∀ p ∈ xs, p.lo < p.hi) (k : Int) (h0 : 0 ≤ k) :
    posAsc (xs ++ ys) k = if k < totalLen xs then posAsc xs k else posAsc ys (k - totalLen xs) := by
  induction xs generalizing k with
  | nil => simp [totalLen]; intro h; omega
  | cons x xs ih =>
    have hx := hpos x (by simp)
    have hnn := totalLen_nonneg xs (fun q hq => hpos q (by simp [hq]))
    simp only [List.cons_append, posAsc, totalLen_cons]
    by_cases hc : k < x.hi - x.lo
    · simp [hc]; intro h; omega
    · rw [if_neg hc, ih (fun q hq => hpos q (by simp [hq])) _ (by omega)]
      by_cases ht : k - (x.hi - x.lo) < totalLen xs
      · have : k < x.hi - x.lo + totalLen xs := by omega
        simp [hc, ht, this]
      · have : ¬ k < x.hi - x.lo + totalLen xs := by omega
        simp only [ht, this, if_false]
        congr 1; omega

theorem downRange_getElem? (hi : Int) (n k : Nat) : (downRange hi n)[k]? = if k < n then some (hi - 1 - k) else none := by
  induction n generalizing hi k with
  | zero => simp [downRange]
  | succ n ih =>
    cases k with
    | zero => simp [downRange]
    | succ k =>
      simp only [downRange, List.getElem?_cons_succ, ih]
      have : hi - 1 - 1 - (k : Int) = hi - 1 - ((k + 1 : Nat) : Int) := by push_cast; omega
      simp [this]

/-- on the reverse strand the `k`-th transcribed base is the `(len-1-k)`-th base of the exons read upwards in
    reversed list order -/
theorem bases_getElem_rev (ps : List Part) (hpos : ∀ p ∈ ps, p.lo < p.hi ∧ (p.strand == .rev) = true) (k : Nat)
    (hk : (k : Int) < totalLen ps) :
    (ps.flatMap partBases)[k]? = some (posAsc ps.reverse (totalLen ps - 1 - k)) := by
  induction ps generalizing k with
  | nil => simp [totalLen] at hk; omega
  | cons p rest ih =>
    have hp := hpos p (by simp)
    have hrest : ∀ q ∈ rest, q.lo < q.hi ∧ (q.strand == .rev) = true := fun q hq => hpos q (by simp [hq])
    have hnn := totalLen_nonneg rest (fun q hq => (hrest q hq).1)
    rw [totalLen_cons] at hk
    have hlen : (partBases p).length = (p.hi - p.lo).toNat := partBases_length p
    rw [List.reverse_cons, posAsc_append _ _ (fun q hq => (hrest q (by simpa using hq)).1) _ (by rw [totalLen_cons]; omega),
      totalLen_reverse, totalLen_cons]
    simp only [List.flatMap_cons]
    by_cases hc : (k : Int) < p.hi - p.lo
    · rw [List.getElem?_append_left (by rw [hlen]; omega)]
      simp only [partBases, hp.2, if_true, downRange_getElem?]
      rw [if_pos (by omega), if_neg (by omega)]
      simp only [posAsc]
      rw [if_pos (by omega)]
      congr 1; omega
    · rw [List.getElem?_append_right (by rw [hlen]; omega), hlen]
      have := ih hrest (k - (p.hi - p.lo).toNat) (by omega)
      rw [this, if_pos (by omega)]
      congr 2; omega

/-- `convert_protein_position_to_dna` on a compound reverse-strand location whose exons are listed downwards
    without overlap: `dna_start` is the coordinate of the LAST base of the range (base 3e-1 in transcription
    order), `dna_end` one past the coordinate of its FIRST base (base 3s) -/
theorem convert_compound_reverse (ps : List Part) (hwf : geneWF (.compound ps) = true)
    (hr : isRev (.compound ps) = true) (hdesc : descDisjoint ps) (s e : Nat) (hse : s < e)
    (he : (e : Int) ≤ (Loc.compound ps).len / 3) :
    ∃ ds de, convertProteinToDna s e (.compound ps) = .ok (ds, de) ∧
      (bases (.compound ps))[3 * e - 1]? = some ds ∧ (bases (.compound ps))[3 * s]? = some (de - 1) ∧ ds < de := by
  obtain ⟨hne, hparts⟩ := (geneWF_iff _).mp hwf
  have hpos : ∀ p ∈ ps, p.lo < p.hi := fun p hp => (hparts p hp).1
  have hstr : ∀ p ∈ ps, p.lo < p.hi ∧ (p.strand == .rev) = true := fun p hp =>
    ⟨(hparts p hp).1, by rw [(hparts p hp).2]; simpa [isRev] using hr⟩
  have hlen : (Loc.compound ps).len = totalLen ps := rfl
  rw [hlen] at he
  have h3 : 3 * (e : Int) ≤ totalLen ps := by omega
  have hsort := sortParts_desc ps hpos hdesc
  have hasc := ascDisjoint_reverse ps hpos hdesc
  have hposR : ∀ p ∈ ps.reverse, p.lo < p.hi := fun p hp => hpos p (by simpa using hp)
  have htotR := totalLen_reverse ps
  match hR : ps.reverse with
  | [] => exact absurd (List.reverse_eq_nil_iff.mp hR) hne
  | r0 :: rrest =>
    rw [hR] at hasc hposR htotR hsort
    obtain ⟨w1, w2, w3, w4⟩ := walk_result r0 rrest hposR (totalLen ps - 3 * e) (totalLen ps - 3 * s)
      (by omega) (by omega) (by omega)
    have hstart : (Loc.compound ps).start = r0.lo := by
      have h1 := start_of_asc r0 rrest hposR hasc
      have hperm : ((r0 :: rrest).map (·.lo)).Perm (ps.map (·.lo)) := by
        rw [← hR]; exact (List.reverse_perm ps).map _
      show minList (ps.map (·.lo)) = r0.lo
      rw [← minList_perm hperm]; exact h1
    obtain ⟨pa, hpa, ha1, ha2⟩ := posAsc_mem (r0 :: rrest) hposR (totalLen ps - 3 * e) (by omega) (by omega)
    obtain ⟨pb, hpb, hb1, hb2⟩ := posAsc_mem (r0 :: rrest) hposR (totalLen ps - 3 * s - 1) (by omega) (by omega)
    have hmono := posAsc_mono (r0 :: rrest) hposR hasc (totalLen ps - 3 * e) (totalLen ps - 3 * s - 1)
      (by omega) (by omega) (by omega)
    have hpa' : pa ∈ ps := List.mem_reverse.mp (by rw [hR]; exact hpa)
    have hpb' : pb ∈ ps := List.mem_reverse.mp (by rw [hR]; exact hpb)
    have hlo : (Loc.compound ps).start ≤ pa.lo := minList_le_of_mem (List.mem_map.mpr ⟨pa, hpa', rfl⟩)
    have hhi : pb.hi ≤ (Loc.compound ps).end := le_maxList_of_mem (List.mem_map.mpr ⟨pb, hpb', rfl⟩)
    refine ⟨posAsc (r0 :: rrest) (totalLen ps - 3 * e), posAsc (r0 :: rrest) (totalLen ps - 3 * s - 1) + 1,
      ?_, ?_, ?_, by omega⟩
    · have hg : (decide (0 ≤ (s : Int)) && decide ((s : Int) < e) && decide ((e : Int) ≤ (Loc.compound ps).len / 3)) = true := by
        rw [hlen]; simp; omega
      have e1 : (Loc.compound ps).start + (Loc.compound ps).len - (e : Int) * 3 = r0.lo + (totalLen ps - 3 * e) := by
        rw [hstart, hlen]; omega
      have e2 : (Loc.compound ps).start + (Loc.compound ps).len - (s : Int) * 3 = r0.lo + (totalLen ps - 3 * s) := by
        rw [hstart, hlen]; omega
      have e3 : totalLen ps - 3 * (s : Int) - 1 = totalLen ps - 3 * s - 1 := rfl
      simp only [convertProteinToDna, hg, Bool.not_true, Bool.false_eq_true, if_false, hr, if_true, e1, e2, hsort]
      simp only [w1, w2, w3, w4, Bool.not_true, Bool.false_eq_true, if_false]
      rw [if_neg]
      have c1 : (Loc.compound ps).start ≤ posAsc (r0 :: rrest) (totalLen ps - 3 * ↑e) := by omega
      have c2 : posAsc (r0 :: rrest) (totalLen ps - 3 * ↑e) < posAsc (r0 :: rrest) (totalLen ps - 3 * ↑s - 1) + 1 := by omega
      have c3 : posAsc (r0 :: rrest) (totalLen ps - 3 * ↑s - 1) + 1 ≤ (Loc.compound ps).end := by omega
      simp [c1, c2, c3]
    · have := bases_getElem_rev ps hstr (3 * e - 1) (by omega)
      rw [hR] at this
      have e4 : totalLen ps - 1 - ((3 * e - 1 : Nat) : Int) = totalLen ps - 3 * (e : Int) := by omega
      rw [e4] at this
      simpa [bases, Loc.parts] using this
    · have := bases_getElem_rev ps hstr (3 * s) (by push_cast; omega)
      rw [hR] at this
      have e5 : totalLen ps - 1 - ((3 * s : Nat) : Int) = totalLen ps - 3 * (s : Int) - 1 := by push_cast; omega
      rw [e5] at this
      simpa [bases, Loc.parts] using this


theorem ascDisjoint_of_B (ps : List Part) (h : ascDisjointB ps = true) : ascDisjoint ps := by
  induction ps with
  | nil => trivial
  | cons p rest ih =>
    cases rest with
    | nil => trivial
    | cons q r =>
      simp only [ascDisjointB, Bool.and_eq_true, decide_eq_true_eq] at h
      exact ⟨h.1, ih h.2⟩

theorem descDisjoint_of_B (ps : List Part) (h : descDisjointB ps = true) : descDisjoint ps := by
  induction ps with
  | nil => trivial
  | cons p rest ih =>
    cases rest with
    | nil => trivial
    | cons q r =>
      simp only [descDisjointB, Bool.and_eq_true, decide_eq_true_eq] at h
      exact ⟨h.1, ih h.2⟩

/-! ### standard-order genes are never refused by the Feature constructor -/

theorem hasDup_cons_false (x : Int) (xs : List Int) (h1 : x ∉ xs) (h2 : hasDup xs = false) : hasDup (x :: xs) = false := by
  simp [hasDup, h1, h2]

/-- forward walk over exons listed upwards without overlap: the new parts end at strictly increasing coordinates -/
theorem subParts_asc_nodup (st : Strand) : ∀ (ps : List Part) (off s e : Int),
    (∀ p ∈ ps, p.lo < p.hi) → ascDisjoint ps →
    hasDup ((subParts false st ps off s e).map (·.hi)) = false := by
  intro ps
  induction ps with
  | nil => intro off s e _ _; simp [subParts, hasDup]
  | cons p rest ih =>
    intro off s e hpos hasc
    have hp := hpos p (by simp)
    have hrest : ∀ q ∈ rest, q.lo < q.hi := fun q hq => hpos q (by simp [hq])
    have hasc' : ascDisjoint rest := by
      cases rest with
      | nil => trivial
      | cons q r => exact hasc.2
    have hle : ∀ q ∈ rest, (q.lo : Int) < q.hi := hrest
    have IH := ih (off + p.len) s e hrest hasc'
    -- every later new part ends beyond this exon
    have hlater : ∀ q' ∈ subParts false st rest (off + p.len) s e, p.hi < q'.hi := by
      intro q' hq'
      obtain ⟨p', hp', h1, h2, _, _⟩ := subParts_inside false st rest (off + p.len) s e
        (fun x hx => Int.le_of_lt (hrest x hx)) q' hq'
      have := ascDisjoint_lo_le p rest hpos hasc p' hp'
      omega
    simp only [subParts]
    by_cases hc : max (s - off) 0 < min (e - off) p.len
    · simp only [hc, if_true]
      have hq : (slicePart false st p (max (s - off) 0) (min (e - off) p.len)).hi ≤ p.hi := by
        simp only [slicePart, Bool.false_eq_true, if_false, Part.len]; omega
      split
      · simp [hasDup]
      · simp only [List.singleton_append, List.map_cons]
        apply hasDup_cons_false _ _ _ IH
        intro hmem
        obtain ⟨q', hq', heq⟩ := List.mem_map.mp hmem
        have := hlater q' hq'
        omega
    · simp only [hc, if_false, List.nil_append]
      split
      · simp [hasDup]
      · exact IH

theorem locOfNewParts_parts (ps : List Part) (r : Loc) (h : locOfNewParts ps = .ok r) : r.parts = ps := by
  match ps, h with
  | [p], h => simp [locOfNewParts] at h; subst h; rfl
  | p :: q :: rest, h => simp [locOfNewParts] at h; subst h; rfl

theorem subLocationFromOffsets_parts (l r : Loc) (s e : Int) (h : subLocationFromOffsets l s e = .ok r) :
    r.parts = subParts (isRev l) l.strand l.parts 0 s e := by
  unfold subLocationFromOffsets at h
  split at h
  · cases h
  · exact locOfNewParts_parts _ r h

/-- a forward gene in the standard exon order: no section of it is ever refused by the Feature constructor -/
theorem offsets_forward_standard_representable (l : Loc) (hwf : geneWF l = true) (hnr : isRev l = false)
    (hasc : ascDisjointB l.parts = true) (a b : Nat) (hab : a < b) (hb : (b : Int) ≤ l.len) :
    ∃ r, subLocationFromOffsets l a b = .ok r ∧ bases r = sliceL (bases l) a b ∧ containsOverlappingExons r = false := by
  obtain ⟨r, hr, hbs, _⟩ := subLocationFromOffsets_slice l hwf a b hab hb
  obtain ⟨_, hparts⟩ := (geneWF_iff l).mp hwf
  refine ⟨r, hr, hbs, ?_⟩
  have hp := subLocationFromOffsets_parts l r a b hr
  have := subParts_asc_nodup l.strand l.parts 0 a b (fun p hp => (hparts p hp).1) (ascDisjoint_of_B _ hasc)
  rw [hnr] at hp
  simp only [containsOverlappingExons, hp, this]
  split <;> rfl

/-- reverse walk over exons listed downwards without overlap: the new parts end at strictly decreasing coordinates -/
theorem subParts_desc_nodup (st : Strand) : ∀ (ps : List Part) (off s e : Int),
    (∀ p ∈ ps, p.lo < p.hi) → descDisjoint ps →
    hasDup ((subParts true st ps off s e).map (·.hi)) = false := by
  intro ps
  induction ps with
  | nil => intro off s e _ _; simp [subParts, hasDup]
  | cons p rest ih =>
    intro off s e hpos hdesc
    have hp := hpos p (by simp)
    have hrest : ∀ q ∈ rest, q.lo < q.hi := fun q hq => hpos q (by simp [hq])
    have IH := ih (off + p.len) s e hrest (descDisjoint_tail p rest hdesc)
    have hlater : ∀ q' ∈ subParts true st rest (off + p.len) s e, q'.hi ≤ p.lo := by
      intro q' hq'
      obtain ⟨p', hp', _, _, h3, _⟩ := subParts_inside true st rest (off + p.len) s e
        (fun x hx => Int.le_of_lt (hrest x hx)) q' hq'
      have := descDisjoint_hi_le p rest hpos hdesc p' hp'
      omega
    simp only [subParts]
    by_cases hc : max (s - off) 0 < min (e - off) p.len
    · simp only [hc, if_true]
      have hq : p.lo < (slicePart true st p (max (s - off) 0) (min (e - off) p.len)).hi := by
        simp only [slicePart, if_true, Part.len] at hc ⊢; omega
      split
      · simp [hasDup]
      · simp only [List.singleton_append, List.map_cons]
        apply hasDup_cons_false _ _ _ IH
        intro hmem
        obtain ⟨q', hq', heq⟩ := List.mem_map.mp hmem
        have := hlater q' hq'
        omega
    · simp only [hc, if_false, List.nil_append]
      split
      · simp [hasDup]
      · exact IH

theorem offsets_reverse_standard_representable (l : Loc) (hwf : geneWF l = true) (hr : isRev l = true)
    (hdesc : descDisjointB l.parts = true) (a b : Nat) (hab : a < b) (hb : (b : Int) ≤ l.len) :
    ∃ r, subLocationFromOffsets l a b = .ok r ∧ bases r = sliceL (bases l) a b ∧ containsOverlappingExons r = false := by
  obtain ⟨r, hrr, hbs, _⟩ := subLocationFromOffsets_slice l hwf a b hab hb
  obtain ⟨_, hparts⟩ := (geneWF_iff l).mp hwf
  refine ⟨r, hrr, hbs, ?_⟩
  have hp := subLocationFromOffsets_parts l r a b hrr
  have := subParts_desc_nodup l.strand l.parts 0 a b (fun p hp => (hparts p hp).1) (descDisjoint_of_B _ hdesc)
  rw [hr] at hp
  simp only [containsOverlappingExons, hp, this]
  split <;> rfl

theorem subLocation_compound_eq (ps : List Part) (s e : Nat) (hse : s < e)
    (he : (e : Int) ≤ (Loc.compound ps).len / 3) :
    subLocation (.compound ps) s e = subLocationFromOffsets (.compound ps) ((3 * s : Nat) : Int) ((3 * e : Nat) : Int) := by
  have c1 : (decide (0 ≤ (s : Int)) && decide ((s : Int) ≤ (Loc.compound ps).len / 3 - 1)) = true := by
    simp; omega
  have c2 : (decide (1 ≤ (e : Int)) && decide ((e : Int) ≤ (Loc.compound ps).len / 3)) = true := by
    simp; omega
  have c3 : ¬ ((s : Int) ≥ e) := by omega
  have e1 : (s : Int) * 3 = ((3 * s : Nat) : Int) := by push_cast; omega
  have e2 : (e : Int) * 3 = ((3 * e : Nat) : Int) := by push_cast; omega
  simp only [subLocation, c1, c2, c3, Bool.not_true, Bool.false_eq_true, if_false, e1, e2]

/-- a gene in the standard exon order of its strand: no annotation positioned by protein coordinates is refused -/
theorem annotation_standard_representable (l : Loc) (hwf : geneWF l = true)
    (hstd : (isRev l = false ∧ ascDisjointB l.parts = true) ∨ (isRev l = true ∧ descDisjointB l.parts = true))
    (s e : Nat) (hse : s < e) (he : (e : Int) ≤ l.len / 3) :
    ∃ r, subLocation l s e = .ok r ∧ featureAt (subLocation l s e) = .ok r ∧
      bases r = sliceL (bases l) (3 * s) (3 * e) := by
  obtain ⟨r, hr, hb, _⟩ := subLocation_slice l hwf s e hse he
  refine ⟨r, hr, ?_, hb⟩
  have hno : containsOverlappingExons r = false := by
    cases l with
    | simple p =>
      have hlen : (Loc.simple p).len = p.hi - p.lo := by simp [Loc.len, Loc.parts, Part.len]
      rw [hlen] at he
      rw [subLocation_simple p s e hse he] at hr
      cases hr; rfl
    | compound ps =>
      have hpos := len_nonneg (.compound ps) hwf
      rw [subLocation_compound_eq ps s e hse he] at hr
      rcases hstd with ⟨h1, h2⟩ | ⟨h1, h2⟩
      · obtain ⟨r', hr', _, hn⟩ := offsets_forward_standard_representable (.compound ps) hwf h1 h2 (3 * s) (3 * e)
          (by omega) (by push_cast; omega)
        rw [hr] at hr'; cases hr'; exact hn
      · obtain ⟨r', hr', _, hn⟩ := offsets_reverse_standard_representable (.compound ps) hwf h1 h2 (3 * s) (3 * e)
          (by omega) (by push_cast; omega)
        rw [hr] at hr'; cases hr'; exact hn
  simp [featureAt, hr, Res.bind, hno]

end ASV.ProtDna
