/-
  Helper lemmas for C13: `filter_results` — the competition between the hits of one gene.
-/
import ASV.Proofs.HitFilterHmmer
import ASV.Proofs.RefineProv
namespace ASV.HitFilter
open ASV.Refine

/-! ### generic fold lemmas -/

theorem foldl_preserves {α β} (f : β → α → β) (R : β → Prop) (l : List α)
    (h : ∀ acc x, x ∈ l → R acc → R (f acc x)) : ∀ init, R init → R (l.foldl f init) := by
  induction l with
  | nil => intro init h0; exact h0
  | cons a t ih =>
    intro init h0
    simp only [List.foldl_cons]
    exact ih (fun acc x hx => h acc x (List.mem_cons_of_mem _ hx)) _ (h init a (by simp) h0)

theorem foldl_establishes {α β} (f : β → α → β) (Q : β → α → Prop) (l : List α)
    (mono : ∀ acc x y, Q acc y → Q (f acc x) y) (est : ∀ acc x, Q (f acc x) x) :
    ∀ init, ∀ x ∈ l, Q (l.foldl f init) x := by
  induction l with
  | nil => intro _ x hx; simp at hx
  | cons a t ih =>
    intro init x hx
    simp only [List.foldl_cons]
    rcases List.mem_cons.mp hx with rfl | hx
    · exact foldl_preserves f (fun acc => Q acc x) t (fun acc y _ h => mono acc y x h) _ (est init x)
    · exact ih _ x hx

/-! ### the overlap groups -/

/-- some group holds both hits -/
def Cov (gs : List (List FHit)) (a b : FHit) : Prop := ∃ g ∈ gs, a ∈ g ∧ b ∈ g

/-- every member of every group comes from `S` -/
def Within (S : List FHit) (gs : List (List FHit)) : Prop := ∀ g ∈ gs, ∀ x ∈ g, x ∈ S

theorem mem_unionNew {acc g : List FHit} {x : FHit} : x ∈ unionNew acc g ↔ x ∈ acc ∨ x ∈ g := by
  unfold unionNew
  induction g generalizing acc with
  | nil => simp
  | cons a t ih =>
    simp only [List.foldl_cons, ih, mem_addNew, List.mem_cons]
    constructor
    · rintro ((h | h) | h)
      · exact Or.inl h
      · exact Or.inr (Or.inl h)
      · exact Or.inr (Or.inr h)
    · rintro (h | h | h)
      · exact Or.inl (Or.inl h)
      · exact Or.inl (Or.inr h)
      · exact Or.inr h

theorem mem_foldl_unionNew {gs : List (List FHit)} {init : List FHit} {x : FHit} :
    x ∈ gs.foldl unionNew init ↔ x ∈ init ∨ ∃ g ∈ gs, x ∈ g := by
  induction gs generalizing init with
  | nil => simp
  | cons g t ih =>
    simp only [List.foldl_cons, ih, mem_unionNew, List.mem_cons, exists_eq_or_imp]
    constructor
    · rintro ((h | h) | h)
      · exact Or.inl h
      · exact Or.inr (Or.inl h)
      · exact Or.inr (Or.inr h)
    · rintro (h | h | h)
      · exact Or.inl (Or.inl h)
      · exact Or.inl (Or.inr h)
      · exact Or.inr h

/-- the pair is processed: different objects sharing more than 20 residues -/
theorem addPair_skip {gs : List (List FHit)} {a b : FHit} (h : competes a b = false) : addPair gs a b = gs := by
  have : (a.uid == b.uid || decide (overlapSize a b ≤ 20)) = true := by
    simp only [competes, overlaps20, Bool.and_eq_false_iff, bne_eq_false_iff_eq, decide_eq_false_iff_not] at h
    simp only [Bool.or_eq_true, beq_iff_eq, decide_eq_true_eq]
    rcases h with h | h
    · exact Or.inl h
    · exact Or.inr (by omega)
  simp [addPair, this]

theorem addPair_eq {gs : List (List FHit)} {a b : FHit} (h : competes a b = true) :
    addPair gs a b = gs.filter (fun g => !touches a b g) ++ [(gs.filter (touches a b)).foldl unionNew [a, b]] := by
  have : (a.uid == b.uid || decide (overlapSize a b ≤ 20)) = false := by
    simp only [competes, overlaps20, Bool.and_eq_true, bne_iff_ne, decide_eq_true_eq] at h
    simp only [Bool.or_eq_false_iff, beq_eq_false_iff_ne, decide_eq_false_iff_not]
    exact ⟨h.1, by omega⟩
  simp [addPair, this]

/-- members of the united group -/
theorem mem_pairing {gs : List (List FHit)} {a b x : FHit} :
    x ∈ (gs.filter (touches a b)).foldl unionNew [a, b] ↔
      x = a ∨ x = b ∨ ∃ g ∈ gs, touches a b g = true ∧ x ∈ g := by
  rw [mem_foldl_unionNew]
  simp only [List.mem_cons, List.not_mem_nil, or_false, List.mem_filter]
  constructor
  · rintro ((h | h) | ⟨g, ⟨hg, ht⟩, hx⟩)
    · exact Or.inl h
    · exact Or.inr (Or.inl h)
    · exact Or.inr (Or.inr ⟨g, hg, ht, hx⟩)
  · rintro (h | h | ⟨g, hg, ht, hx⟩)
    · exact Or.inl (Or.inl h)
    · exact Or.inl (Or.inr h)
    · exact Or.inr ⟨g, ⟨hg, ht⟩, hx⟩

theorem addPair_within (S : List FHit) (gs : List (List FHit)) (a b : FHit) (ha : a ∈ S) (hb : b ∈ S)
    (h : Within S gs) : Within S (addPair gs a b) := by
  cases hc : competes a b with
  | false => rw [addPair_skip hc]; exact h
  | true =>
    rw [addPair_eq hc]
    intro g hg x hx
    rcases List.mem_append.mp hg with hg | hg
    · exact h g (List.mem_filter.mp hg).1 x hx
    · simp only [List.mem_singleton] at hg
      subst hg
      rcases mem_pairing.mp hx with rfl | rfl | ⟨g', hg', _, hx'⟩
      · exact ha
      · exact hb
      · exact h g' hg' x hx'

theorem overlappingGroups_within (hits : List FHit) : Within hits (overlappingGroups hits) := by
  unfold overlappingGroups
  apply foldl_preserves _ (Within hits) hits _ [] (by intro g hg; simp at hg)
  intro acc a ha hacc
  apply foldl_preserves _ (Within hits) hits _ acc hacc
  intro acc' b hb hacc'
  exact addPair_within hits acc' a b ha hb hacc'

/-! ### the groups are the connected components of the competition graph -/

/-- equivalence closure of an edge relation -/
inductive Eqv (E : FHit → FHit → Prop) : FHit → FHit → Prop
  | refl (x : FHit) : Eqv E x x
  | edge {x y : FHit} : E x y → Eqv E x y
  | symm {x y : FHit} : Eqv E x y → Eqv E y x
  | trans {x y z : FHit} : Eqv E x y → Eqv E y z → Eqv E x z

theorem Eqv.mono {E E' : FHit → FHit → Prop} (h : ∀ x y, E x y → E' x y) {x y : FHit} (e : Eqv E x y) : Eqv E' x y := by
  induction e with
  | refl x => exact Eqv.refl x
  | edge hxy => exact Eqv.edge (h _ _ hxy)
  | symm _ ih => exact Eqv.symm ih
  | trans _ _ ih1 ih2 => exact Eqv.trans ih1 ih2

/-- no hit is in two groups -/
def Disj (g1 g2 : List FHit) : Prop := ∀ x ∈ g1, x ∉ g2

/-- invariant of the pair loop: the groups partition the hits touched so far into the classes
    of the edges `E` processed so far -/
structure GInv (E : FHit → FHit → Prop) (gs : List (List FHit)) : Prop where
  disj : gs.Pairwise Disj
  sound : ∀ g ∈ gs, ∀ x ∈ g, ∀ y ∈ g, Eqv E x y
  complete : ∀ a b, E a b → ∃ g ∈ gs, a ∈ g ∧ b ∈ g

theorem pairwise_mem {α} {R : α → α → Prop} : ∀ {l : List α}, l.Pairwise R → ∀ a ∈ l, ∀ b ∈ l, a = b ∨ R a b ∨ R b a
  | [], _, a, ha, _, _ => by simp at ha
  | x :: t, h, a, ha, b, hb => by
    have hp := List.pairwise_cons.mp h
    rcases List.mem_cons.mp ha with rfl | ha'
    · rcases List.mem_cons.mp hb with rfl | hb'
      · exact Or.inl rfl
      · exact Or.inr (Or.inl (hp.1 b hb'))
    · rcases List.mem_cons.mp hb with rfl | hb'
      · exact Or.inr (Or.inr (hp.1 a ha'))
      · exact pairwise_mem hp.2 a ha' b hb'

theorem GInv.same_group {E : FHit → FHit → Prop} {gs : List (List FHit)} (inv : GInv E gs) {g g' : List FHit}
    (hg : g ∈ gs) (hg' : g' ∈ gs) {y : FHit} (hy : y ∈ g) (hy' : y ∈ g') : g = g' := by
  rcases pairwise_mem inv.disj g hg g' hg' with h | h | h
  · exact h
  · exact absurd hy' (h y hy)
  · exact absurd hy (h y hy')

/-- linked hits are equal or share a group -/
theorem GInv.of_eqv {E : FHit → FHit → Prop} {gs : List (List FHit)} (inv : GInv E gs) {x y : FHit}
    (e : Eqv E x y) : x = y ∨ ∃ g ∈ gs, x ∈ g ∧ y ∈ g := by
  induction e with
  | refl x => exact Or.inl rfl
  | edge h => exact Or.inr (inv.complete _ _ h)
  | symm _ ih =>
    rcases ih with h | ⟨g, hg, hx, hy⟩
    · exact Or.inl h.symm
    · exact Or.inr ⟨g, hg, hy, hx⟩
  | trans _ _ ih1 ih2 =>
    rcases ih1 with rfl | ⟨g, hg, hx, hy⟩
    · exact ih2
    · rcases ih2 with rfl | ⟨g', hg', hy', hz⟩
      · exact Or.inr ⟨g, hg, hx, hy⟩
      · have := inv.same_group hg hg' hy hy'
        subst this
        exact Or.inr ⟨g, hg, hx, hz⟩

theorem GInv.congr {E E' : FHit → FHit → Prop} {gs : List (List FHit)} (inv : GInv E gs)
    (h : ∀ x y, E x y ↔ E' x y) : GInv E' gs :=
  ⟨inv.disj, fun g hg x hx y hy => (inv.sound g hg x hx y hy).mono (fun a b => (h a b).mp),
   fun a b hab => inv.complete a b ((h a b).mpr hab)⟩

theorem touches_iff {a b : FHit} {g : List FHit} : touches a b g = true ↔ a ∈ g ∨ b ∈ g := by
  simp [touches]

/-- processing one competing pair keeps the invariant, for the edges plus that pair -/
theorem GInv.step {E : FHit → FHit → Prop} {gs : List (List FHit)} (inv : GInv E gs) (a b : FHit)
    (hc : competes a b = true) : GInv (fun x y => E x y ∨ (x = a ∧ y = b)) (addPair gs a b) := by
  rw [addPair_eq hc]
  have hsep : ∀ g ∈ gs.filter (fun g => !touches a b g), g ∈ gs ∧ a ∉ g ∧ b ∉ g := by
    intro g hg
    have := List.mem_filter.mp hg
    have ht : ¬ (a ∈ g ∨ b ∈ g) := by
      rw [← touches_iff]; simpa using this.2
    exact ⟨this.1, fun h => ht (Or.inl h), fun h => ht (Or.inr h)⟩
  -- every member of the united group is linked to `a`
  have toA : ∀ x ∈ (gs.filter (touches a b)).foldl unionNew [a, b],
      Eqv (fun x y => E x y ∨ (x = a ∧ y = b)) x a := by
    intro x hx
    have hab : Eqv (fun x y => E x y ∨ (x = a ∧ y = b)) a b := Eqv.edge (Or.inr ⟨rfl, rfl⟩)
    rcases mem_pairing.mp hx with rfl | rfl | ⟨g, hg, ht, hxg⟩
    · exact Eqv.refl _
    · exact Eqv.symm hab
    · rcases touches_iff.mp ht with h | h
      · exact (inv.sound g hg x hxg a h).mono (fun _ _ => Or.inl)
      · exact Eqv.trans ((inv.sound g hg x hxg b h).mono (fun _ _ => Or.inl)) (Eqv.symm hab)
  refine ⟨?_, ?_, ?_⟩
  · rw [List.pairwise_append]
    refine ⟨inv.disj.sublist List.filter_sublist, by simp, ?_⟩
    intro g hg p hp
    simp only [List.mem_singleton] at hp
    subst hp
    obtain ⟨hgs, ha, hb⟩ := hsep g hg
    intro x hx hxp
    rcases mem_pairing.mp hxp with rfl | rfl | ⟨g', hg', ht, hxg'⟩
    · exact ha hx
    · exact hb hx
    · have := inv.same_group hgs hg' hx hxg'
      subst this
      rcases touches_iff.mp ht with h | h
      · exact ha h
      · exact hb h
  · intro g hg x hx y hy
    rcases List.mem_append.mp hg with hg | hg
    · exact (inv.sound g (hsep g hg).1 x hx y hy).mono (fun _ _ => Or.inl)
    · simp only [List.mem_singleton] at hg
      subst hg
      exact Eqv.trans (toA x hx) (Eqv.symm (toA y hy))
  · intro x y hxy
    rcases hxy with hxy | ⟨rfl, rfl⟩
    · obtain ⟨g, hg, hx, hy⟩ := inv.complete x y hxy
      by_cases ht : touches a b g = true
      · exact ⟨_, List.mem_append_right _ (List.mem_singleton.mpr rfl),
          mem_pairing.mpr (Or.inr (Or.inr ⟨g, hg, ht, hx⟩)), mem_pairing.mpr (Or.inr (Or.inr ⟨g, hg, ht, hy⟩))⟩
      · exact ⟨g, List.mem_append_left _ (List.mem_filter.mpr ⟨hg, by simpa using ht⟩), hx, hy⟩
    · exact ⟨_, List.mem_append_right _ (List.mem_singleton.mpr rfl), mem_pairing.mpr (Or.inl rfl),
        mem_pairing.mpr (Or.inr (Or.inl rfl))⟩

/-- the edges of the whole gene: competing pairs of its hits -/
def GeneEdge (hits : List FHit) (x y : FHit) : Prop := x ∈ hits ∧ y ∈ hits ∧ competes x y = true

theorem foldl_pairs_inv (hits : List FHit) : ∀ (ps done : List (FHit × FHit)) (gs : List (List FHit)),
    GInv (fun x y => (x, y) ∈ done ∧ competes x y = true) gs →
    GInv (fun x y => (x, y) ∈ done ++ ps ∧ competes x y = true) (ps.foldl (fun gs p => addPair gs p.1 p.2) gs)
  | [], done, gs, inv => by simpa using inv
  | p :: ps, done, gs, inv => by
    simp only [List.foldl_cons]
    have e : done ++ p :: ps = (done ++ [p]) ++ ps := by simp
    rw [e]
    apply foldl_pairs_inv hits ps (done ++ [p])
    cases hc : competes p.1 p.2 with
    | false =>
      rw [addPair_skip hc]
      refine inv.congr ?_
      intro x y
      simp only [List.mem_append, List.mem_singleton]
      constructor
      · rintro ⟨h, hxy⟩; exact ⟨Or.inl h, hxy⟩
      · rintro ⟨h | h, hxy⟩
        · exact ⟨h, hxy⟩
        · rw [← h] at hc; simp only at hc; rw [hc] at hxy; exact absurd hxy (by simp)
    | true =>
      refine (inv.step p.1 p.2 hc).congr ?_
      intro x y
      simp only [List.mem_append, List.mem_singleton]
      constructor
      · rintro (⟨h, hxy⟩ | ⟨rfl, rfl⟩)
        · exact ⟨Or.inl h, hxy⟩
        · exact ⟨Or.inr rfl, hc⟩
      · rintro ⟨h | h, hxy⟩
        · exact Or.inl ⟨h, hxy⟩
        · right; rw [← h]; exact ⟨rfl, rfl⟩

theorem overlappingGroups_eq_foldl (hits : List FHit) :
    overlappingGroups hits =
      (hits.flatMap fun a => hits.map fun b => (a, b)).foldl (fun gs p => addPair gs p.1 p.2) [] := by
  unfold overlappingGroups
  rw [List.foldl_flatMap]
  congr 1
  funext gs a
  rw [List.foldl_map]

/-- the groups of a gene are exactly the classes of its competition graph -/
theorem overlappingGroups_inv (hits : List FHit) : GInv (GeneEdge hits) (overlappingGroups hits) := by
  rw [overlappingGroups_eq_foldl]
  have := foldl_pairs_inv hits (hits.flatMap fun a => hits.map fun b => (a, b)) [] []
    ⟨List.Pairwise.nil, by intro g hg; simp at hg, by intro a b h; simp at h⟩
  refine this.congr ?_
  intro x y
  simp only [List.nil_append, List.mem_flatMap, List.mem_map, Prod.mk.injEq, GeneEdge]
  constructor
  · rintro ⟨⟨a, ha, b, hb, rfl, rfl⟩, hc⟩; exact ⟨ha, hb, hc⟩
  · rintro ⟨hx, hy, hc⟩; exact ⟨⟨x, hx, y, hy, rfl, rfl⟩, hc⟩

theorem overlappingGroups_covers (hits : List FHit) : ∀ a ∈ hits, ∀ b ∈ hits,
    a.uid ≠ b.uid → 20 < overlapSize a b → Cov (overlappingGroups hits) a b := by
  intro a ha b hb hu ho
  apply (overlappingGroups_inv hits).complete a b
  exact ⟨ha, hb, by simp [competes, overlaps20, hu, ho]⟩

/-! ### `Linked` (the spec's overlapping group) is that closure -/

theorem overlapSize_comm (a b : FHit) : overlapSize a b = overlapSize b a := by
  simp only [overlapSize, Int.min_comm, Int.max_comm]

theorem competes_symm {a b : FHit} (h : competes a b = true) : competes b a = true := by
  simp only [competes, overlaps20, Bool.and_eq_true, bne_iff_ne, decide_eq_true_eq] at h ⊢
  rw [overlapSize_comm b a]
  exact ⟨fun e => h.1 e.symm, h.2⟩

theorem Linked.trans {hits : List FHit} {x y z : FHit} (h1 : Linked hits x y) (h2 : Linked hits y z) : Linked hits x z := by
  induction h1 with
  | refl _ => exact h2
  | step ha hb hc _ ih => exact Linked.step ha hb hc (ih h2)

theorem Linked.symm {hits : List FHit} {x y : FHit} (h : Linked hits x y) : Linked hits y x := by
  induction h with
  | refl _ => exact Linked.refl _
  | step ha hb hc _ ih => exact ih.trans (Linked.step hb ha (competes_symm hc) (Linked.refl _))

theorem linked_iff_eqv {hits : List FHit} {x y : FHit} : Linked hits x y ↔ Eqv (GeneEdge hits) x y := by
  constructor
  · intro h
    induction h with
    | refl _ => exact Eqv.refl _
    | step ha hb hc _ ih => exact Eqv.trans (Eqv.edge ⟨ha, hb, hc⟩) ih
  · intro h
    induction h with
    | refl _ => exact Linked.refl _
    | edge h => exact Linked.step h.1 h.2.1 h.2.2 (Linked.refl _)
    | symm _ ih => exact ih.symm
    | trans _ _ ih1 ih2 => exact ih1.trans ih2

/-! ### the best of a group -/

theorem bestIn_mem : ∀ (b : FHit) (l : List FHit), bestIn b l ∈ b :: l
  | b, [] => by simp [bestIn]
  | b, h :: t => by
    simp only [bestIn]
    split
    · exact List.mem_cons_of_mem _ (bestIn_mem h t)
    · rcases List.mem_cons.mp (bestIn_mem b t) with h1 | h1
      · rw [h1]; simp
      · exact List.mem_cons_of_mem _ (List.mem_cons_of_mem _ h1)

/-- a strict maximum is the best wherever it stands -/
theorem bestIn_strict_max (t : FHit) : ∀ (b : FHit) (l : List FHit), t ∈ b :: l →
    (∀ o ∈ b :: l, o ≠ t → o.sc < t.sc) → bestIn b l = t
  | b, [], ht, _ => by simp at ht; simp [bestIn, ht]
  | b, h :: l, ht, hmax => by
    simp only [bestIn]
    split
    · rename_i hgt
      apply bestIn_strict_max t h l
      · rcases List.mem_cons.mp ht with rfl | ht'
        · by_cases hh : h = t
          · rw [hh]; simp
          · have := hmax h (by simp) hh; omega
        · exact ht'
      · intro o ho hne; exact hmax o (List.mem_cons_of_mem _ ho) hne
    · rename_i hle
      apply bestIn_strict_max t b l
      · rcases List.mem_cons.mp ht with rfl | ht'
        · simp
        · rcases List.mem_cons.mp ht' with rfl | ht''
          · by_cases hb : b = t
            · rw [hb]; simp
            · have := hmax b (by simp) hb; omega
          · exact List.mem_cons_of_mem _ ht''
      · intro o ho hne
        rcases List.mem_cons.mp ho with rfl | ho'
        · exact hmax o (by simp) hne
        · exact hmax o (List.mem_cons_of_mem _ (List.mem_cons_of_mem _ ho')) hne

/-- nothing in the list scores higher than the best … -/
theorem bestIn_max : ∀ (b : FHit) (l : List FHit), ∀ o ∈ b :: l, o.sc ≤ (bestIn b l).sc
  | b, [], o, ho => by simp at ho; simp [bestIn, ho]
  | b, h :: t, o, ho => by
    simp only [bestIn]
    split
    · rcases List.mem_cons.mp ho with rfl | ho'
      · have := bestIn_max h t h (by simp); omega
      · exact bestIn_max h t o ho'
    · rcases List.mem_cons.mp ho with rfl | ho'
      · exact bestIn_max o t o (by simp)
      · rcases List.mem_cons.mp ho' with rfl | ho''
        · have := bestIn_max b t b (by simp); omega
        · exact bestIn_max b t o (List.mem_cons_of_mem _ ho'')

/-- … and it is the first of the best: everything before it scores strictly less -/
theorem bestIn_split : ∀ (b : FHit) (l : List FHit), ∃ l1 l2, b :: l = l1 ++ bestIn b l :: l2 ∧
    (∀ o ∈ l1, o.sc < (bestIn b l).sc) ∧ (∀ o ∈ l2, o.sc ≤ (bestIn b l).sc)
  | b, [] => ⟨[], [], by simp [bestIn], by simp, by simp⟩
  | b, h :: t => by
    simp only [bestIn]
    split
    · rename_i hgt
      obtain ⟨l1, l2, e, h1, h2⟩ := bestIn_split h t
      refine ⟨b :: l1, l2, by rw [e]; rfl, ?_, h2⟩
      intro o ho
      rcases List.mem_cons.mp ho with rfl | ho
      · have := bestIn_max h t h (by simp); omega
      · exact h1 o ho
    · rename_i hle
      obtain ⟨l1, l2, e, h1, h2⟩ := bestIn_split b t
      cases l1 with
      | nil =>
        simp only [List.nil_append, List.cons.injEq] at e
        refine ⟨[], h :: l2, by rw [← e.1, ← e.2]; rfl, by simp, ?_⟩
        intro o ho
        rcases List.mem_cons.mp ho with rfl | ho
        · rw [← e.1]; omega
        · exact h2 o ho
      | cons x l1' =>
        simp only [List.cons_append, List.cons.injEq] at e
        obtain ⟨rfl, e2⟩ := e
        refine ⟨b :: h :: l1', l2, by simp only [List.cons_append]; exact congrArg (fun z => b :: h :: z) e2, ?_, h2⟩
        intro o ho
        have hb := h1 b (by simp)
        rcases List.mem_cons.mp ho with rfl | ho
        · exact hb
        · rcases List.mem_cons.mp ho with rfl | ho
          · omega
          · exact h1 o (List.mem_cons_of_mem _ ho)

/-- in a duplicate-free list, what stands before `x` (as a two-element sub-list) is in the prefix -/
theorem mem_prefix_of_pair_sublist {l1 l2 : List FHit} {o x : FHit} (hn : (l1 ++ x :: l2).Nodup)
    (hs : [o, x].Sublist (l1 ++ x :: l2)) : o ∈ l1 := by
  have hx1 : x ∉ l1 := by
    intro h
    have := List.nodup_append.mp hn
    exact this.2.2 x h x (by simp) rfl
  have hx2 : x ∉ l2 := by
    have := (List.nodup_append.mp hn).2.1
    exact (List.nodup_cons.mp this).1
  obtain ⟨s1, s2, e, hs1, hs2⟩ := List.sublist_append_iff.mp hs
  cases s1 with
  | nil =>
    simp only [List.nil_append] at e
    subst e
    exfalso
    cases hs2 with
    | cons _ h => exact hx2 (h.subset (by simp))
    | cons_cons _ h => exact hx2 (h.subset (by simp))
  | cons a s1' =>
    cases s1' with
    | nil =>
      simp only [List.cons_append, List.nil_append, List.cons.injEq] at e
      rw [e.1]; exact hs1.subset (by simp)
    | cons c s1'' =>
      simp only [List.cons_append, List.cons.injEq] at e
      exfalso
      apply hx1
      rw [e.2.1]
      exact hs1.subset (by simp)

theorem mem_removedBy {hits : List FHit} {groups : List (List FHit)} {u : Nat} :
    u ∈ removedBy hits groups ↔ ∃ g ∈ groups, ∃ best, groupBest (inHitOrder hits g) = some best ∧
      ∃ h ∈ inHitOrder hits g, h.uid ≠ best.uid ∧ h.uid = u := by
  simp only [removedBy, List.mem_flatMap]
  constructor
  · rintro ⟨g, hg, hu⟩
    split at hu
    · simp at hu
    · rename_i best hb
      simp only [List.mem_map, List.mem_filter, bne_iff_ne] at hu
      obtain ⟨h, ⟨hh, hne⟩, rfl⟩ := hu
      exact ⟨g, hg, best, hb, h, hh, hne, rfl⟩
  · rintro ⟨g, hg, best, hb, h, hh, hne, rfl⟩
    refine ⟨g, hg, ?_⟩
    rw [hb]
    simp only [List.mem_map, List.mem_filter, bne_iff_ne]
    exact ⟨h, ⟨hh, hne⟩, rfl⟩

theorem mem_inHitOrder {hits g : List FHit} {x : FHit} : x ∈ inHitOrder hits g ↔ x ∈ hits ∧ x ∈ g := by
  simp [inHitOrder, List.mem_filter]

/-- distinct objects -/
def UidInj (hits : List FHit) : Prop := ∀ a ∈ hits, ∀ b ∈ hits, a.uid = b.uid → a = b

theorem UidInj.sublist {l m : List FHit} (h : UidInj m) (s : l.Sublist m) : UidInj l :=
  fun a ha b hb e => h a (s.subset ha) b (s.subset hb) e

/-- … each listed once -/
def UidNodup (hits : List FHit) : Prop := (hits.map (·.uid)).Nodup

theorem UidNodup.nodup {hits : List FHit} (h : UidNodup hits) : hits.Nodup := by
  unfold UidNodup at h
  rw [List.Nodup, List.pairwise_map] at h
  exact h.imp (fun hne e => hne (by rw [e]))

theorem UidNodup.inj {hits : List FHit} (h : UidNodup hits) : UidInj hits := by
  unfold UidNodup at h
  rw [List.Nodup, List.pairwise_map] at h
  intro a ha b hb e
  rcases pairwise_mem h a ha b hb with h1 | h1 | h1
  · exact h1
  · exact absurd e h1
  · exact absurd e.symm h1

theorem UidNodup.sublist {l m : List FHit} (h : UidNodup m) (s : l.Sublist m) : UidNodup l :=
  List.Nodup.sublist (s.map _) h

/-! ### one pass -/

theorem filterPass_sublist (hits : List FHit) (eq : List Int) : (filterPass hits eq).Sublist hits := by
  simp only [filterPass]
  split
  · exact List.Sublist.refl _
  · exact List.filter_sublist

/-- membership after a pass that ran -/
theorem mem_filterPass_ran {hits : List FHit} {eq : List Int}
    (hq : ¬ ((firstOcc (hits.map (·.prof))).filter (fun p => eq.contains p)).length < 2) {h : FHit} :
    h ∈ filterPass hits eq ↔ h ∈ hits ∧ h.uid ∉ removedBy hits (overlappingGroups hits) := by
  unfold filterPass
  simp only []
  rw [if_neg hq]
  simp [List.mem_filter]

/-- **what one competition keeps**: a hit survives exactly when no hit of its overlapping group
    (`Linked`) is preferred to it (`prefers`: higher score, or equal score and earlier in the list) -/
theorem filterPass_mem_iff (hits : List FHit) (eq : List Int) (hu : UidNodup hits)
    (hq : ¬ ((firstOcc (hits.map (·.prof))).filter (fun p => eq.contains p)).length < 2) (h : FHit) :
    h ∈ filterPass hits eq ↔ h ∈ hits ∧ ∀ o ∈ hits, Linked hits h o → prefers hits o h = false := by
  have inv := overlappingGroups_inv hits
  have hw := overlappingGroups_within hits
  have hnd : ∀ g, (inHitOrder hits g).Nodup := fun g => hu.nodup.sublist List.filter_sublist
  rw [mem_filterPass_ran hq]
  constructor
  · rintro ⟨hh, hnr⟩
    refine ⟨hh, ?_⟩
    intro o ho hl
    cases hp : prefers hits o h with
    | false => rfl
    | true =>
      exfalso
      -- `o ≠ h`, so they share a group
      have hne : o ≠ h := by
        intro e
        subst e
        simp only [prefers, Bool.or_eq_true, decide_eq_true_eq, Bool.and_eq_true, beq_iff_eq,
          List.isSublist_iff_sublist] at hp
        rcases hp with hp | ⟨_, hp⟩
        · omega
        · have := hu.nodup.sublist hp
          simp at this
      rcases inv.of_eqv (linked_iff_eqv.mp hl) with e | ⟨g, hg, hhg, hog⟩
      · exact hne e.symm
      · have hhL : h ∈ inHitOrder hits g := mem_inHitOrder.mpr ⟨hh, hhg⟩
        have hoL : o ∈ inHitOrder hits g := mem_inHitOrder.mpr ⟨ho, hog⟩
        cases hL : inHitOrder hits g with
        | nil => rw [hL] at hhL; simp at hhL
        | cons b l =>
          have hbest : groupBest (inHitOrder hits g) = some (bestIn b l) := by rw [hL]; rfl
          -- `h` was not removed, so it is the best of its group
          have hbm : bestIn b l ∈ hits := by
            have := bestIn_mem b l
            rw [← hL] at this
            exact (mem_inHitOrder.mp this).1
          have heq : h = bestIn b l := by
            by_cases e : h.uid = (bestIn b l).uid
            · exact hu.inj h hh _ hbm e
            · exact absurd (mem_removedBy.mpr ⟨g, hg, _, hbest, h, hhL, e, rfl⟩) hnr
          obtain ⟨l1, l2, esplit, h1, h2⟩ := bestIn_split b l
          simp only [prefers, Bool.or_eq_true, decide_eq_true_eq, Bool.and_eq_true, beq_iff_eq,
            List.isSublist_iff_sublist] at hp
          rw [hL] at hoL
          rcases hp with hp | ⟨hsc, hsub⟩
          · have := bestIn_max b l o hoL
            rw [← heq] at this; omega
          · -- equal scores and `o` first: then `o` stands before the best in the group's order
            have hsub' : [o, h].Sublist (inHitOrder hits g) := by
              have := hsub.filter (fun x => g.contains x)
              simpa [inHitOrder, hog, hhg] using this
            rw [hL, esplit, heq] at hsub'
            have hnd' := hnd g
            rw [hL, esplit] at hnd'
            have := h1 o (mem_prefix_of_pair_sublist hnd' hsub')
            rw [← heq] at this; omega
  · rintro ⟨hh, hall⟩
    refine ⟨hh, ?_⟩
    intro hrem
    obtain ⟨g, hg, best, hb, h', hh', hne, he⟩ := mem_removedBy.mp hrem
    have hh'm := mem_inHitOrder.mp hh'
    have : h' = h := hu.inj h' hh'm.1 h hh he
    subst this
    cases hL : inHitOrder hits g with
    | nil => rw [hL] at hh'; simp at hh'
    | cons b l =>
      rw [hL] at hb hh'
      simp only [groupBest, Option.some.injEq] at hb
      subst hb
      have hbL : bestIn b l ∈ inHitOrder hits g := by rw [hL]; exact bestIn_mem b l
      have hbm := mem_inHitOrder.mp hbL
      have hlink : Linked hits h' (bestIn b l) :=
        linked_iff_eqv.mpr (inv.sound g hg h' hh'm.2 _ hbm.2)
      have hnp := hall _ hbm.1 hlink
      obtain ⟨l1, l2, esplit, h1, h2⟩ := bestIn_split b l
      simp only [prefers, Bool.or_eq_false_iff, decide_eq_false_iff_not, Bool.and_eq_false_iff,
        beq_eq_false_iff_ne] at hnp
      rw [esplit] at hh'
      rcases List.mem_append.mp hh' with hin | hin
      · exact hnp.1 (h1 h' hin)
      · rcases List.mem_cons.mp hin with e | hin
        · exact hne (by rw [e])
        · have hle := h2 h' hin
          rcases hnp.2 with hsc | hsub
          · omega
          · rw [← Bool.not_eq_true, List.isSublist_iff_sublist] at hsub
            apply hsub
            have : [bestIn b l, h'].Sublist (inHitOrder hits g) := by
              rw [hL, esplit]
              exact ((List.singleton_sublist.mpr hin).cons_cons _).trans (List.sublist_append_right _ _)
            exact this.trans List.filter_sublist

/-- after a pass that ran, no two different survivors overlap by more than 20 -/
theorem filterPass_separated (hits : List FHit) (eq : List Int) (hu : UidInj hits)
    (hq : ¬ ((firstOcc (hits.map (·.prof))).filter (fun p => eq.contains p)).length < 2) :
    ∀ a ∈ filterPass hits eq, ∀ b ∈ filterPass hits eq, a ≠ b → overlaps20 a b = false := by
  intro a ha b hb hne
  rw [mem_filterPass_ran hq] at ha hb
  have huid : a.uid ≠ b.uid := fun e => hne (hu a ha.1 b hb.1 e)
  cases hov : overlaps20 a b with
  | false => rfl
  | true =>
    exfalso
    simp only [overlaps20, decide_eq_true_eq] at hov
    obtain ⟨g, hg, hag, hbg⟩ := overlappingGroups_covers hits a ha.1 b hb.1 huid hov
    have haL : a ∈ inHitOrder hits g := mem_inHitOrder.mpr ⟨ha.1, hag⟩
    have hbL : b ∈ inHitOrder hits g := mem_inHitOrder.mpr ⟨hb.1, hbg⟩
    cases hgb : groupBest (inHitOrder hits g) with
    | none =>
      cases hL : inHitOrder hits g with
      | nil => rw [hL] at haL; simp at haL
      | cons x l => rw [hL] at hgb; simp [groupBest] at hgb
    | some best =>
      by_cases h1 : a.uid = best.uid
      · have : b.uid ≠ best.uid := fun e => huid (h1.trans e.symm)
        exact hb.2 (mem_removedBy.mpr ⟨g, hg, best, hgb, b, hbL, this, rfl⟩)
      · exact ha.2 (mem_removedBy.mpr ⟨g, hg, best, hgb, a, haL, h1, rfl⟩)

/-- the first of the best-scoring hits of the gene survives a pass -/
theorem filterPass_keeps_first_best (hits : List FHit) (eq : List Int) (hu : UidNodup hits) (t : FHit)
    (l1 l2 : List FHit) (e : hits = l1 ++ t :: l2) (h1 : ∀ o ∈ l1, o.sc < t.sc) (h2 : ∀ o ∈ l2, o.sc ≤ t.sc) :
    t ∈ filterPass hits eq := by
  have ht : t ∈ hits := by rw [e]; simp
  by_cases hq : ((firstOcc (hits.map (·.prof))).filter (fun p => eq.contains p)).length < 2
  · unfold filterPass; simp only []; rw [if_pos hq]; exact ht
  · rw [filterPass_mem_iff hits eq hu hq]
    refine ⟨ht, ?_⟩
    intro o ho _
    simp only [prefers, Bool.or_eq_false_iff, decide_eq_false_iff_not, Bool.and_eq_false_iff,
      beq_eq_false_iff_ne]
    have hsc : o.sc ≤ t.sc := by
      rw [e] at ho
      rcases List.mem_append.mp ho with h | h
      · have := h1 o h; omega
      · rcases List.mem_cons.mp h with rfl | h
        · omega
        · exact h2 o h
    refine ⟨by omega, ?_⟩
    by_cases hs : o.sc = t.sc
    · right
      rw [← Bool.not_eq_true]
      intro hsub
      rw [List.isSublist_iff_sublist, e] at hsub
      have hnd := hu.nodup
      rw [e] at hnd
      have := h1 o (mem_prefix_of_pair_sublist hnd hsub)
      omega
    · exact Or.inl hs

/-- special case kept from the first round: the strictly best hit survives -/
theorem filterPass_keeps_best (hits : List FHit) (eq : List Int) (hu : UidNodup hits) (t : FHit) (ht : t ∈ hits)
    (hmax : ∀ o ∈ hits, o ≠ t → o.sc < t.sc) : t ∈ filterPass hits eq := by
  obtain ⟨l1, l2, e⟩ := List.append_of_mem ht
  have hnd := hu.nodup
  rw [e] at hnd
  have hx1 : t ∉ l1 := fun h => (List.nodup_append.mp hnd).2.2 t h t (by simp) rfl
  have hx2 : t ∉ l2 := (List.nodup_cons.mp (List.nodup_append.mp hnd).2.1).1
  apply filterPass_keeps_first_best hits eq hu t l1 l2 e
  · intro o ho
    exact hmax o (by rw [e]; simp [ho]) (fun h => hx1 (h ▸ ho))
  · intro o ho
    have := hmax o (by rw [e]; simp [ho]) (fun h => hx2 (h ▸ ho))
    omega

/-! ### counting the profiles of an equivalence group that hit the gene -/

theorem firstOcc_nodup : ∀ ps : List Int, (firstOcc ps).Nodup
  | [] => by simp [firstOcc]
  | p :: ps => by
    simp only [firstOcc]
    rw [List.nodup_cons]
    refine ⟨by simp [List.mem_filter], (firstOcc_nodup ps).sublist List.filter_sublist⟩

/-- the code's count (`len(hits & equivalence_group)`) -/
def presentCount (hits : List FHit) (eq : List Int) : Nat :=
  ((firstOcc (hits.map (·.prof))).filter (fun p => eq.contains p)).length

/-- the spec's count -/
def specCount (eq : List Int) (hits : List FHit) : Nat :=
  ((firstOcc eq).filter fun p => hits.any fun h => h.prof == p).length

theorem specCount_le_presentCount {out L : List FHit} (eq : List Int) (hsub : ∀ x ∈ out, x ∈ L) :
    specCount eq out ≤ presentCount L eq := by
  apply List.Nodup.length_le_of_subset ((firstOcc_nodup eq).sublist List.filter_sublist)
  intro p hp
  simp only [List.mem_filter, mem_firstOcc, List.any_eq_true, beq_iff_eq] at hp
  obtain ⟨hpe, h, hh, hhp⟩ := hp
  simp only [List.mem_filter, mem_firstOcc, List.mem_map, List.contains_eq_mem, decide_eq_true_eq]
  exact ⟨⟨h, hsub h hh, hhp⟩, hpe⟩

theorem presentCount_le_specCount (hits : List FHit) (eq : List Int) : presentCount hits eq ≤ specCount eq hits := by
  apply List.Nodup.length_le_of_subset ((firstOcc_nodup _).sublist List.filter_sublist)
  intro p hp
  simp only [List.mem_filter, mem_firstOcc, List.mem_map, List.contains_eq_mem, decide_eq_true_eq] at hp
  obtain ⟨⟨h, hh, hhp⟩, hpe⟩ := hp
  simp only [List.mem_filter, mem_firstOcc, List.any_eq_true, beq_iff_eq]
  exact ⟨hpe, h, hh, hhp⟩

theorem qualifies_iff (eq : List Int) (hits : List FHit) : qualifies eq hits = true ↔ 2 ≤ specCount eq hits := by
  simp [qualifies, specCount]

/-! ### all passes -/

theorem foldl_filterPass_sublist : ∀ (eqs : List (List Int)) (hits : List FHit),
    (eqs.foldl filterPass hits).Sublist hits
  | [], hits => by simp
  | g :: eqs, hits => by
    simp only [List.foldl_cons]
    exact (foldl_filterPass_sublist eqs _).trans (filterPass_sublist hits g)

theorem foldl_filterPass_keeps_best : ∀ (eqs : List (List Int)) (hits : List FHit), UidNodup hits → ∀ t ∈ hits,
    (∀ o ∈ hits, o ≠ t → o.sc < t.sc) → t ∈ eqs.foldl filterPass hits
  | [], hits, _, t, ht, _ => by simpa using ht
  | g :: eqs, hits, hu, t, ht, hmax => by
    simp only [List.foldl_cons]
    have hs := filterPass_sublist hits g
    exact foldl_filterPass_keeps_best eqs _ (hu.sublist hs) t (filterPass_keeps_best hits g hu t ht hmax)
      (fun o ho hne => hmax o (hs.subset ho) hne)

theorem foldl_filterPass_separated : ∀ (eqs : List (List Int)) (hits : List FHit), UidInj hits →
    ∀ g ∈ eqs, qualifies g (eqs.foldl filterPass hits) = true →
    ∀ a ∈ eqs.foldl filterPass hits, ∀ b ∈ eqs.foldl filterPass hits, a ≠ b → overlaps20 a b = false
  | [], hits, _, g, hg, _ => by simp at hg
  | g0 :: eqs, hits, hu, g, hg, hq => by
    simp only [List.foldl_cons] at hq ⊢
    have hs0 := filterPass_sublist hits g0
    rcases List.mem_cons.mp hg with rfl | hg'
    · -- the pass of `g` itself ran on `hits` and separated its survivors; later passes only remove
      have hsub := foldl_filterPass_sublist eqs (filterPass hits g)
      have hcount : ¬ presentCount hits g < 2 := by
        have h1 := (qualifies_iff g _).mp hq
        have h2 := specCount_le_presentCount g (out := eqs.foldl filterPass (filterPass hits g)) (L := hits)
          (fun x hx => hs0.subset (hsub.subset hx))
        omega
      intro a ha b hb hne
      exact filterPass_separated hits g hu hcount a (hsub.subset ha) b (hsub.subset hb) hne
    · exact foldl_filterPass_separated eqs _ (hu.sublist hs0) g hg' hq

theorem foldl_filterPass_untouched : ∀ (eqs : List (List Int)) (hits : List FHit),
    (∀ g ∈ eqs, qualifies g hits = false) → eqs.foldl filterPass hits = hits
  | [], hits, _ => by simp
  | g :: eqs, hits, hq => by
    simp only [List.foldl_cons]
    have hg : filterPass hits g = hits := by
      have h1 : ¬ 2 ≤ specCount g hits := by
        rw [← qualifies_iff]; simp [hq g (by simp)]
      have h2 := presentCount_le_specCount hits g
      have h3 : presentCount hits g < 2 := by omega
      unfold filterPass
      simp only []
      exact if_pos h3
    rw [hg]
    exact foldl_filterPass_untouched eqs hits (fun g' hg' => hq g' (List.mem_cons_of_mem _ hg'))

/-! ### the gene never loses all its hits; the survivors do not depend on the order of the hits -/

theorem filterPass_eq_filter (hits : List FHit) (eq : List Int) : ∃ p : FHit → Bool, filterPass hits eq = hits.filter p := by
  unfold filterPass
  simp only []
  split
  · exact ⟨fun _ => true, (List.filter_eq_self.mpr (fun _ _ => rfl)).symm⟩
  · exact ⟨_, rfl⟩

theorem foldl_filterPass_keeps_first_best : ∀ (eqs : List (List Int)) (hits : List FHit), UidNodup hits →
    ∀ (t : FHit) (l1 l2 : List FHit), hits = l1 ++ t :: l2 → (∀ o ∈ l1, o.sc < t.sc) → (∀ o ∈ l2, o.sc ≤ t.sc) →
    t ∈ eqs.foldl filterPass hits
  | [], hits, _, t, l1, l2, e, _, _ => by rw [e]; simp
  | g :: eqs, hits, hu, t, l1, l2, e, h1, h2 => by
    simp only [List.foldl_cons]
    have ht := filterPass_keeps_first_best hits g hu t l1 l2 e h1 h2
    obtain ⟨p, hp⟩ := filterPass_eq_filter hits g
    have hpt : p t = true := by
      rw [hp, List.mem_filter] at ht; exact ht.2
    apply foldl_filterPass_keeps_first_best eqs _ (hu.sublist (filterPass_sublist hits g)) t
      (l1.filter p) (l2.filter p)
    · rw [hp, e, List.filter_append, List.filter_cons, if_pos hpt]
    · intro o ho; exact h1 o (List.mem_filter.mp ho).1
    · intro o ho; exact h2 o (List.mem_filter.mp ho).1

theorem foldl_filterPass_ne_nil (eqs : List (List Int)) (hits : List FHit) (hu : UidNodup hits) (hne : hits ≠ []) :
    eqs.foldl filterPass hits ≠ [] := by
  cases hits with
  | nil => exact absurd rfl hne
  | cons b l =>
    obtain ⟨l1, l2, e, h1, h2⟩ := bestIn_split b l
    have := foldl_filterPass_keeps_first_best eqs (b :: l) hu (bestIn b l) l1 l2 e h1 h2
    intro hnil
    rw [hnil] at this
    simp at this

/-- no two different hits of the gene have the same bitscore -/
def NoTies (hits : List FHit) : Prop := ∀ a ∈ hits, ∀ b ∈ hits, a.sc = b.sc → a = b

theorem Linked.of_subset {l₁ l₂ : List FHit} (h : ∀ x ∈ l₁, x ∈ l₂) {x y : FHit} (hl : Linked l₁ x y) : Linked l₂ x y := by
  induction hl with
  | refl _ => exact Linked.refl _
  | step ha hb hc _ ih => exact Linked.step (h _ ha) (h _ hb) hc ih

theorem prefers_of_noTies {hits : List FHit} (hn : NoTies hits) (hd : hits.Nodup) {o h : FHit}
    (ho : o ∈ hits) (hh : h ∈ hits) : prefers hits o h = decide (h.sc < o.sc) := by
  simp only [prefers]
  by_cases e : o.sc = h.sc
  · have : o = h := hn o ho h hh e
    subst this
    have : [o, o].isSublist hits = false := by
      rw [← Bool.not_eq_true, List.isSublist_iff_sublist]
      intro hs
      have := hd.sublist hs
      simp at this
    simp [this]
  · simp [e]

theorem presentCount_perm {l₁ l₂ : List FHit} (h : l₁.Perm l₂) (eq : List Int) : presentCount l₁ eq = presentCount l₂ eq := by
  have aux : ∀ {a b : List FHit}, (∀ x ∈ a, x ∈ b) → presentCount a eq ≤ presentCount b eq := by
    intro a b hab
    apply List.Nodup.length_le_of_subset ((firstOcc_nodup _).sublist List.filter_sublist)
    intro p hp
    simp only [List.mem_filter, mem_firstOcc, List.mem_map] at hp ⊢
    obtain ⟨⟨x, hx, hxp⟩, hpe⟩ := hp
    exact ⟨⟨x, hab x hx, hxp⟩, hpe⟩
  exact Nat.le_antisymm (aux fun x hx => h.mem_iff.mp hx) (aux fun x hx => h.mem_iff.mpr hx)

theorem filterPass_perm {l₁ l₂ : List FHit} (h : l₁.Perm l₂) (hu : UidNodup l₁) (hn : NoTies l₁) (eq : List Int) :
    (filterPass l₁ eq).Perm (filterPass l₂ eq) := by
  have hu2 : UidNodup l₂ := (h.map _).nodup_iff.mp hu
  have hn2 : NoTies l₂ := fun a ha b hb => hn a (h.mem_iff.mpr ha) b (h.mem_iff.mpr hb)
  have hcount := presentCount_perm h eq
  unfold presentCount at hcount
  by_cases hq : ((firstOcc (l₁.map (·.prof))).filter (fun p => eq.contains p)).length < 2
  · have hq2 : ((firstOcc (l₂.map (·.prof))).filter (fun p => eq.contains p)).length < 2 := by omega
    unfold filterPass
    simp only []
    rw [if_pos hq, if_pos hq2]
    exact h
  · have hq2 : ¬ ((firstOcc (l₂.map (·.prof))).filter (fun p => eq.contains p)).length < 2 := by omega
    rw [List.perm_ext_iff_of_nodup (hu.nodup.sublist (filterPass_sublist l₁ eq))
      (hu2.nodup.sublist (filterPass_sublist l₂ eq))]
    intro x
    rw [filterPass_mem_iff l₁ eq hu hq, filterPass_mem_iff l₂ eq hu2 hq2]
    constructor
    · rintro ⟨hx, hall⟩
      refine ⟨h.mem_iff.mp hx, ?_⟩
      intro o ho hl
      have ho1 := h.mem_iff.mpr ho
      have := hall o ho1 (hl.of_subset fun y hy => h.mem_iff.mpr hy)
      rw [prefers_of_noTies hn hu.nodup ho1 hx] at this
      rw [prefers_of_noTies hn2 hu2.nodup ho (h.mem_iff.mp hx)]
      exact this
    · rintro ⟨hx, hall⟩
      refine ⟨h.mem_iff.mpr hx, ?_⟩
      intro o ho hl
      have ho2 := h.mem_iff.mp ho
      have := hall o ho2 (hl.of_subset fun y hy => h.mem_iff.mp hy)
      rw [prefers_of_noTies hn2 hu2.nodup ho2 hx] at this
      rw [prefers_of_noTies hn hu.nodup ho (h.mem_iff.mpr hx)]
      exact this

theorem NoTies.sublist {l m : List FHit} (h : NoTies m) (s : l.Sublist m) : NoTies l :=
  fun a ha b hb => h a (s.subset ha) b (s.subset hb)

theorem foldl_filterPass_perm : ∀ (eqs : List (List Int)) {l₁ l₂ : List FHit}, l₁.Perm l₂ → UidNodup l₁ → NoTies l₁ →
    (eqs.foldl filterPass l₁).Perm (eqs.foldl filterPass l₂)
  | [], _, _, h, _, _ => by simpa using h
  | g :: eqs, l₁, l₂, h, hu, hn => by
    simp only [List.foldl_cons]
    exact foldl_filterPass_perm eqs (filterPass_perm h hu hn g)
      (hu.sublist (filterPass_sublist l₁ g)) (hn.sublist (filterPass_sublist l₁ g))

end ASV.HitFilter
