/-
  Helper lemmas for C13: `filter_results` — the competition between the hits of one gene.
-/
import ASV.Proofs.HitFilterHmmer
import ASV.Proofs.RefineProv
namespace ASV.HitFilter
open ASV.Refine

/-! ### generic fold lemmas -/

theorem foldl_preserves {α β} (f : β → α → β) (R : β → Prop) (l : List α)
    (h : ∀ acc x, x ∈ l → R acc → R (f acc x)) : ∀ init, R init → R (l.foldl f init) := by
  induction l with
  | nil => intro init h0; exact h0
  | cons a t ih =>
    intro init h0
    simp only [List.foldl_cons]
    exact ih (fun acc x hx => h acc x (List.mem_cons_of_mem _ hx)) _ (h init a (by simp) h0)

theorem foldl_establishes {α β} (f : β → α → β) (Q : β → α → Prop) (l : List α)
    (mono : ∀ acc x y, Q acc y → Q (f acc x) y) (est : ∀ acc x, Q (f acc x) x) :
    ∀ init, ∀ x ∈ l, Q (l.foldl f init) x := by
  induction l with
  | nil => intro _ x hx; simp at hx
  | cons a t ih =>
    intro init x hx
    simp only [List.foldl_cons]
    rcases List.mem_cons.mp hx with rfl | hx
    · exact foldl_preserves f (fun acc => Q acc x) t (fun acc y _ h => mono acc y x h) _ (est init x)
    · exact ih _ x hx

/-! ### the overlap groups -/

/-- some group holds both hits -/
def Cov (gs : List (List FHit)) (a b : FHit) : Prop := ∃ g ∈ gs, a ∈ g ∧ b ∈ g

/-- every member of every group comes from `S` -/
def Within (S : List FHit) (gs : List (List FHit)) : Prop := ∀ g ∈ gs, ∀ x ∈ g, x ∈ S

theorem joinGroups_need (a b : FHit) : ∀ gs : List (List FHit),
    (joinGroups a b gs).2 = false → Cov (joinGroups a b gs).1 a b
  | [], h => by simp [joinGroups] at h
  | g :: gs, h => by
    simp only [joinGroups] at h ⊢
    split at h
    · rename_i hc
      simp only [hc, if_true]
      exact ⟨addNew (addNew g a) b, by simp, mem_addNew.mpr (Or.inl (mem_addNew.mpr (Or.inr rfl))),
        mem_addNew.mpr (Or.inr rfl)⟩
    · rename_i hc
      simp only [hc, if_false, Bool.false_eq_true] at h ⊢
      obtain ⟨g', hg', ha, hb⟩ := joinGroups_need a b gs h
      exact ⟨g', List.mem_cons_of_mem _ hg', ha, hb⟩

theorem joinGroups_mono (a b : FHit) (x y : FHit) : ∀ gs : List (List FHit),
    Cov gs x y → Cov (joinGroups a b gs).1 x y
  | [], h => by simpa [joinGroups] using h
  | g :: gs, ⟨g', hg', hx, hy⟩ => by
    simp only [joinGroups]
    rcases List.mem_cons.mp hg' with rfl | hg''
    · split
      · exact ⟨addNew (addNew g' a) b, by simp, mem_addNew.mpr (Or.inl (mem_addNew.mpr (Or.inl hx))),
          mem_addNew.mpr (Or.inl (mem_addNew.mpr (Or.inl hy)))⟩
      · exact ⟨g', by simp, hx, hy⟩
    · obtain ⟨g2, hg2, hx2, hy2⟩ := joinGroups_mono a b x y gs ⟨g', hg'', hx, hy⟩
      split
      · exact ⟨g2, List.mem_cons_of_mem _ hg2, hx2, hy2⟩
      · exact ⟨g2, List.mem_cons_of_mem _ hg2, hx2, hy2⟩

theorem joinGroups_within (a b : FHit) (S : List FHit) (ha : a ∈ S) (hb : b ∈ S) : ∀ gs : List (List FHit),
    Within S gs → Within S (joinGroups a b gs).1
  | [], h => by simpa [joinGroups] using h
  | g :: gs, h => by
    have hg : ∀ x ∈ g, x ∈ S := h g (by simp)
    have ih := joinGroups_within a b S ha hb gs (fun g' hg' => h g' (List.mem_cons_of_mem _ hg'))
    simp only [joinGroups]
    split
    · intro g' hg' x hx
      rcases List.mem_cons.mp hg' with rfl | hg''
      · rcases mem_addNew.mp hx with h1 | rfl
        · rcases mem_addNew.mp h1 with h2 | rfl
          · exact hg x h2
          · exact ha
        · exact hb
      · exact ih g' hg'' x hx
    · intro g' hg' x hx
      rcases List.mem_cons.mp hg' with rfl | hg''
      · exact hg x hx
      · exact ih g' hg'' x hx

theorem addPair_mono (gs : List (List FHit)) (a b x y : FHit) (h : Cov gs x y) : Cov (addPair gs a b) x y := by
  simp only [addPair]
  split
  · exact h
  · have hm := joinGroups_mono a b x y gs h
    cases hj : joinGroups a b gs with
    | mk gs' need =>
      rw [hj] at hm
      simp only
      split
      · obtain ⟨g, hg, hx, hy⟩ := hm
        exact ⟨g, List.mem_append_left _ hg, hx, hy⟩
      · exact hm

theorem addPair_covers (gs : List (List FHit)) (a b : FHit) (hu : a.uid ≠ b.uid) (ho : 20 < overlapSize a b) :
    Cov (addPair gs a b) a b := by
  have hcond : (a.uid == b.uid || decide (overlapSize a b ≤ 20)) = false := by
    simp only [Bool.or_eq_false_iff, beq_eq_false_iff_ne, decide_eq_false_iff_not]
    exact ⟨hu, by omega⟩
  simp only [addPair, hcond, Bool.false_eq_true, if_false]
  have hn := joinGroups_need a b gs
  cases hj : joinGroups a b gs with
  | mk gs' need =>
    rw [hj] at hn
    simp only
    cases need with
    | true => exact ⟨[a, b], by simp, by simp, by simp⟩
    | false => simpa using hn rfl

theorem addPair_within (S : List FHit) (gs : List (List FHit)) (a b : FHit) (ha : a ∈ S) (hb : b ∈ S)
    (h : Within S gs) : Within S (addPair gs a b) := by
  simp only [addPair]
  split
  · exact h
  · have hw := joinGroups_within a b S ha hb gs h
    cases hj : joinGroups a b gs with
    | mk gs' need =>
      rw [hj] at hw
      simp only
      split
      · intro g hg x hx
        rcases List.mem_append.mp hg with hg | hg
        · exact hw g hg x hx
        · simp at hg; subst hg
          simp at hx
          rcases hx with rfl | rfl
          · exact ha
          · exact hb
      · exact hw

theorem overlappingGroups_within (hits : List FHit) : Within hits (overlappingGroups hits) := by
  unfold overlappingGroups
  apply foldl_preserves _ (Within hits) hits _ [] (by intro g hg; simp at hg)
  intro acc a ha hacc
  apply foldl_preserves _ (Within hits) hits _ acc hacc
  intro acc' b hb hacc'
  exact addPair_within hits acc' a b ha hb hacc'

theorem overlappingGroups_covers (hits : List FHit) : ∀ a ∈ hits, ∀ b ∈ hits,
    a.uid ≠ b.uid → 20 < overlapSize a b → Cov (overlappingGroups hits) a b := by
  unfold overlappingGroups
  intro a ha
  have inner_mono : ∀ (a' : FHit) (acc : List (List FHit)) (x y : FHit), Cov acc x y →
      Cov (hits.foldl (fun gs b => addPair gs a' b) acc) x y := by
    intro a' acc x y h
    exact foldl_preserves _ (fun acc => Cov acc x y) hits (fun acc b _ h => addPair_mono acc a' b x y h) acc h
  exact foldl_establishes (fun gs a => hits.foldl (fun gs b => addPair gs a b) gs)
    (fun acc a => ∀ b ∈ hits, a.uid ≠ b.uid → 20 < overlapSize a b → Cov acc a b) hits
    (by
      intro acc x y h b hb hu ho
      exact inner_mono x acc y b (h b hb hu ho))
    (by
      intro acc x b hb hu ho
      exact foldl_establishes (fun gs b => addPair gs x b)
        (fun acc b => x.uid ≠ b.uid → 20 < overlapSize x b → Cov acc x b) hits
        (fun acc y z h hu ho => addPair_mono acc x y x z (h hu ho))
        (fun acc y hu ho => addPair_covers acc x y hu ho) acc b hb hu ho)
    [] a ha

/-! ### the best of a group -/

theorem bestIn_mem : ∀ (b : FHit) (l : List FHit), bestIn b l ∈ b :: l
  | b, [] => by simp [bestIn]
  | b, h :: t => by
    simp only [bestIn]
    split
    · exact List.mem_cons_of_mem _ (bestIn_mem h t)
    · rcases List.mem_cons.mp (bestIn_mem b t) with h1 | h1
      · rw [h1]; simp
      · exact List.mem_cons_of_mem _ (List.mem_cons_of_mem _ h1)

/-- a strict maximum is the best wherever it stands -/
theorem bestIn_strict_max (t : FHit) : ∀ (b : FHit) (l : List FHit), t ∈ b :: l →
    (∀ o ∈ b :: l, o ≠ t → o.sc < t.sc) → bestIn b l = t
  | b, [], ht, _ => by simp at ht; simp [bestIn, ht]
  | b, h :: l, ht, hmax => by
    simp only [bestIn]
    split
    · rename_i hgt
      apply bestIn_strict_max t h l
      · rcases List.mem_cons.mp ht with rfl | ht'
        · -- `t = b` cannot be beaten by `h`
          by_cases hh : h = t
          · rw [hh]; simp
          · have := hmax h (by simp) hh; omega
        · exact ht'
      · intro o ho hne; exact hmax o (List.mem_cons_of_mem _ ho) hne
    · rename_i hle
      apply bestIn_strict_max t b l
      · rcases List.mem_cons.mp ht with rfl | ht'
        · simp
        · rcases List.mem_cons.mp ht' with rfl | ht''
          · -- `t = h` would have beaten `b`
            by_cases hb : b = t
            · rw [hb]; simp
            · have := hmax b (by simp) hb; omega
          · exact List.mem_cons_of_mem _ ht''
      · intro o ho hne
        rcases List.mem_cons.mp ho with rfl | ho'
        · exact hmax o (by simp) hne
        · exact hmax o (List.mem_cons_of_mem _ (List.mem_cons_of_mem _ ho')) hne

theorem mem_removedBy {groups : List (List FHit)} {u : Nat} :
    u ∈ removedBy groups ↔ ∃ g ∈ groups, ∃ best, groupBest g = some best ∧ ∃ h ∈ g, h.uid ≠ best.uid ∧ h.uid = u := by
  simp only [removedBy, List.mem_flatMap]
  constructor
  · rintro ⟨g, hg, hu⟩
    split at hu
    · simp at hu
    · rename_i best hb
      simp only [List.mem_map, List.mem_filter, bne_iff_ne] at hu
      obtain ⟨h, ⟨hh, hne⟩, rfl⟩ := hu
      exact ⟨g, hg, best, hb, h, hh, hne, rfl⟩
  · rintro ⟨g, hg, best, hb, h, hh, hne, rfl⟩
    refine ⟨g, hg, ?_⟩
    rw [hb]
    simp only [List.mem_map, List.mem_filter, bne_iff_ne]
    exact ⟨h, ⟨hh, hne⟩, rfl⟩

/-- distinct objects -/
def UidInj (hits : List FHit) : Prop := ∀ a ∈ hits, ∀ b ∈ hits, a.uid = b.uid → a = b

theorem UidInj.sublist {l m : List FHit} (h : UidInj m) (s : l.Sublist m) : UidInj l :=
  fun a ha b hb e => h a (s.subset ha) b (s.subset hb) e

/-! ### one pass -/

theorem filterPass_sublist (hits : List FHit) (eq : List Int) : (filterPass hits eq).Sublist hits := by
  simp only [filterPass]
  split
  · exact List.Sublist.refl _
  · exact List.filter_sublist

/-- the strict best of the gene survives a pass -/
theorem filterPass_keeps_best (hits : List FHit) (eq : List Int) (hu : UidInj hits) (t : FHit) (ht : t ∈ hits)
    (hmax : ∀ o ∈ hits, o ≠ t → o.sc < t.sc) : t ∈ filterPass hits eq := by
  simp only [filterPass]
  split
  · exact ht
  · rw [List.mem_filter]
    refine ⟨ht, ?_⟩
    simp only [Bool.not_eq_true', List.contains_eq_mem, decide_eq_false_iff_not]
    intro hrem
    obtain ⟨g, hg, best, hb, h, hh, hne, he⟩ := mem_removedBy.mp hrem
    have hw := overlappingGroups_within hits g hg
    have hht : h = t := hu h (hw h hh) t ht he
    subst hht
    cases g with
    | nil => simp at hh
    | cons b l =>
      simp only [groupBest, Option.some.injEq] at hb
      have : bestIn b l = h := bestIn_strict_max h b l hh
        (fun o ho hne' => hmax o (hw o ho) hne')
      rw [this] at hb
      exact hne (by rw [hb])

/-- after a pass that ran, no two different survivors overlap by more than 20 -/
theorem filterPass_separated (hits : List FHit) (eq : List Int) (hu : UidInj hits)
    (hq : ¬ ((firstOcc (hits.map (·.prof))).filter (fun p => eq.contains p)).length < 2) :
    ∀ a ∈ filterPass hits eq, ∀ b ∈ filterPass hits eq, a ≠ b → overlaps20 a b = false := by
  intro a ha b hb hne
  unfold filterPass at ha hb
  simp only [] at ha hb
  rw [if_neg hq] at ha hb
  simp only [List.mem_filter, Bool.not_eq_true', List.contains_eq_mem, decide_eq_false_iff_not] at ha hb
  have huid : a.uid ≠ b.uid := fun e => hne (hu a ha.1 b hb.1 e)
  cases hov : overlaps20 a b with
  | false => rfl
  | true =>
    exfalso
    simp only [overlaps20, decide_eq_true_eq] at hov
    obtain ⟨g, hg, hag, hbg⟩ := overlappingGroups_covers hits a ha.1 b hb.1 huid hov
    cases hgb : groupBest g with
    | none => cases g with
      | nil => simp at hag
      | cons x l => simp [groupBest] at hgb
    | some best =>
      by_cases h1 : a.uid = best.uid
      · have : b.uid ≠ best.uid := fun e => huid (h1.trans e.symm)
        exact hb.2 (mem_removedBy.mpr ⟨g, hg, best, hgb, b, hbg, this, rfl⟩)
      · exact ha.2 (mem_removedBy.mpr ⟨g, hg, best, hgb, a, hag, h1, rfl⟩)

/-! ### counting the profiles of an equivalence group that hit the gene -/

theorem firstOcc_nodup : ∀ ps : List Int, (firstOcc ps).Nodup
  | [] => by simp [firstOcc]
  | p :: ps => by
    simp only [firstOcc]
    rw [List.nodup_cons]
    refine ⟨by simp [List.mem_filter], (firstOcc_nodup ps).sublist List.filter_sublist⟩

/-- the code's count (`len(hits & equivalence_group)`) -/
def presentCount (hits : List FHit) (eq : List Int) : Nat :=
  ((firstOcc (hits.map (·.prof))).filter (fun p => eq.contains p)).length

/-- the spec's count -/
def specCount (eq : List Int) (hits : List FHit) : Nat :=
  ((firstOcc eq).filter fun p => hits.any fun h => h.prof == p).length

theorem specCount_le_presentCount {out L : List FHit} (eq : List Int) (hsub : ∀ x ∈ out, x ∈ L) :
    specCount eq out ≤ presentCount L eq := by
  apply List.Nodup.length_le_of_subset ((firstOcc_nodup eq).sublist List.filter_sublist)
  intro p hp
  simp only [List.mem_filter, mem_firstOcc, List.any_eq_true, beq_iff_eq] at hp
  obtain ⟨hpe, h, hh, hhp⟩ := hp
  simp only [List.mem_filter, mem_firstOcc, List.mem_map, List.contains_eq_mem, decide_eq_true_eq]
  exact ⟨⟨h, hsub h hh, hhp⟩, hpe⟩

theorem presentCount_le_specCount (hits : List FHit) (eq : List Int) : presentCount hits eq ≤ specCount eq hits := by
  apply List.Nodup.length_le_of_subset ((firstOcc_nodup _).sublist List.filter_sublist)
  intro p hp
  simp only [List.mem_filter, mem_firstOcc, List.mem_map, List.contains_eq_mem, decide_eq_true_eq] at hp
  obtain ⟨⟨h, hh, hhp⟩, hpe⟩ := hp
  simp only [List.mem_filter, mem_firstOcc, List.any_eq_true, beq_iff_eq]
  exact ⟨hpe, h, hh, hhp⟩

theorem qualifies_iff (eq : List Int) (hits : List FHit) : qualifies eq hits = true ↔ 2 ≤ specCount eq hits := by
  simp [qualifies, specCount]

/-! ### all passes -/

theorem foldl_filterPass_sublist : ∀ (eqs : List (List Int)) (hits : List FHit),
    (eqs.foldl filterPass hits).Sublist hits
  | [], hits => by simp
  | g :: eqs, hits => by
    simp only [List.foldl_cons]
    exact (foldl_filterPass_sublist eqs _).trans (filterPass_sublist hits g)

theorem foldl_filterPass_keeps_best : ∀ (eqs : List (List Int)) (hits : List FHit), UidInj hits → ∀ t ∈ hits,
    (∀ o ∈ hits, o ≠ t → o.sc < t.sc) → t ∈ eqs.foldl filterPass hits
  | [], hits, _, t, ht, _ => by simpa using ht
  | g :: eqs, hits, hu, t, ht, hmax => by
    simp only [List.foldl_cons]
    have hs := filterPass_sublist hits g
    exact foldl_filterPass_keeps_best eqs _ (hu.sublist hs) t (filterPass_keeps_best hits g hu t ht hmax)
      (fun o ho hne => hmax o (hs.subset ho) hne)

theorem foldl_filterPass_separated : ∀ (eqs : List (List Int)) (hits : List FHit), UidInj hits →
    ∀ g ∈ eqs, qualifies g (eqs.foldl filterPass hits) = true →
    ∀ a ∈ eqs.foldl filterPass hits, ∀ b ∈ eqs.foldl filterPass hits, a ≠ b → overlaps20 a b = false
  | [], hits, _, g, hg, _ => by simp at hg
  | g0 :: eqs, hits, hu, g, hg, hq => by
    simp only [List.foldl_cons] at hq ⊢
    have hs0 := filterPass_sublist hits g0
    rcases List.mem_cons.mp hg with rfl | hg'
    · -- the pass of `g` itself ran on `hits` and separated its survivors; later passes only remove
      have hsub := foldl_filterPass_sublist eqs (filterPass hits g)
      have hcount : ¬ presentCount hits g < 2 := by
        have h1 := (qualifies_iff g _).mp hq
        have h2 := specCount_le_presentCount g (out := eqs.foldl filterPass (filterPass hits g)) (L := hits)
          (fun x hx => hs0.subset (hsub.subset hx))
        omega
      intro a ha b hb hne
      exact filterPass_separated hits g hu hcount a (hsub.subset ha) b (hsub.subset hb) hne
    · exact foldl_filterPass_separated eqs _ (hu.sublist hs0) g hg' hq

theorem foldl_filterPass_untouched : ∀ (eqs : List (List Int)) (hits : List FHit),
    (∀ g ∈ eqs, qualifies g hits = false) → eqs.foldl filterPass hits = hits
  | [], hits, _ => by simp
  | g :: eqs, hits, hq => by
    simp only [List.foldl_cons]
    have hg : filterPass hits g = hits := by
      have h1 : ¬ 2 ≤ specCount g hits := by
        rw [← qualifies_iff]; simp [hq g (by simp)]
      have h2 := presentCount_le_specCount hits g
      have h3 : presentCount hits g < 2 := by omega
      unfold filterPass
      simp only []
      exact if_pos h3
    rw [hg]
    exact foldl_filterPass_untouched eqs hits (fun g' hg' => hq g' (List.mem_cons_of_mem _ hg'))

end ASV.HitFilter
