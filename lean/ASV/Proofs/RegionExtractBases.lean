/-
  Helper lemmas for C12: where every feature of the region record comes from (`Origin`) and that
  its new location covers the same bases as the original (`SameBases`).
-/
import ASV.Proofs.RegionExtractOffset
set_option linter.unusedSimpArgs false
namespace ASV.RegionExtract
open ASV

theorem adjustFeature_same (rd : RegionData) (L : Int) (rn : Renumbering) (f g : BioFeature)
    (h : adjustFeature rd L rn f = .ok g) : g.tag = f.tag ∧ g.type = f.type ∧ g.loc = f.loc := by
  unfold adjustFeature at h
  simp only [adjustProtocluster] at h
  repeat' split at h
  all_goals (cases h)
  all_goals exact ⟨rfl, rfl, rfl⟩

theorem shiftLoc_zero (l : Loc) : shiftLoc l 0 = l := by
  cases l with
  | simple p => simp [shiftLoc]
  | compound ps =>
    simp only [shiftLoc, Int.add_zero]
    congr 1
    induction ps with
    | nil => rfl
    | cons p ps ih => simp [ih]

theorem slice_from (fs : List BioFeature) (a b : Int) (g : BioFeature) (hg : g ∈ sliceFeatures fs a b) :
    ∃ f ∈ fs, a ≤ f.loc.start ∧ f.loc.end ≤ b ∧ g = { f with loc := shiftLoc f.loc (-a) } := by
  unfold sliceFeatures at hg
  obtain ⟨f, hf, h⟩ := List.mem_filterMap.1 hg
  split at h
  · rename_i hc
    simp only [Bool.and_eq_true, decide_eq_true_eq] at hc
    injection h with h
    exact ⟨f, hf, hc.1, hc.2, h.symm⟩
  · cases h

theorem slice_to (fs : List BioFeature) (a b : Int) (f : BioFeature) (hf : f ∈ fs) (h1 : a ≤ f.loc.start)
    (h2 : f.loc.end ≤ b) : { f with loc := shiftLoc f.loc (-a) } ∈ sliceFeatures fs a b := by
  unfold sliceFeatures
  refine List.mem_filterMap.2 ⟨f, hf, ?_⟩
  simp [h1, h2]

/-- where a feature of the region record (before renumbering) comes from -/
inductive Origin (rd : RegionData) (rec : BioRecord) (g : BioFeature) : Prop
  | plain (f : BioFeature) (hf : f ∈ rec.features) (hc : rd.crossesOrigin = false)
      (h1 : rd.start ≤ f.loc.start) (h2 : f.loc.end ≤ rd.end)
      (hg : g = { f with loc := shiftLoc f.loc (-rd.start) })
  | pre (f : BioFeature) (hf : f ∈ rec.features) (hc : rd.crossesOrigin = true)
      (h1 : rd.start ≤ f.loc.start) (h2 : f.loc.end ≤ rec.length)
      (hg : g = { f with loc := shiftLoc f.loc (-rd.start) })
  | post (f : BioFeature) (hf : f ∈ rec.features) (hc : rd.crossesOrigin = true)
      (h1 : 0 ≤ f.loc.start) (h2 : f.loc.end ≤ rd.end) (l : Loc)
      (hl : offsetLocation f.loc (rec.length - rd.start) rec.length = .ok l)
      (hg : g = { f with loc := l })
  | cross (f : BioFeature) (hf : f ∈ rec.features) (hc : rd.crossesOrigin = true)
      (hb : bridgesOrigin f.loc = true) (l : Loc)
      (hl : offsetLocation f.loc (-rd.start) rec.length = .ok l)
      (hk : (wholeFix rec.length l).end ≤ (sliceSeq rec.seq rd.start rec.length ++ sliceSeq rec.seq 0 rd.end).length)
      (hnb : bridgesOrigin (wholeFix rec.length l) = false)
      (hg : g = { f with loc := wholeFix rec.length l })

theorem collectCross_mem (rd : RegionData) (L n : Int) :
    ∀ (fs : List BioFeature) (steps : List (BioFeature × Option BioFeature)) (i : Nat) (w : Working),
      mapE (crossStep rd L n) fs = .ok steps → w ∈ collectCross i steps →
      ∃ f ∈ fs, ∃ p, crossStep rd L n f = .ok (p, some w.f)
  | [], steps, i, w, h, hw => by
    simp [mapE] at h; subst h; simp [collectCross] at hw
  | f :: fs, steps, i, w, h, hw => by
    obtain ⟨b, bs, hb, hbs, rfl⟩ := (mapE_cons_ok _ f fs steps).1 h
    obtain ⟨p, o⟩ := b
    cases o with
    | none =>
      simp only [collectCross] at hw
      obtain ⟨f', hf', h'⟩ := collectCross_mem rd L n fs bs (i + 1) w hbs hw
      exact ⟨f', by simp [hf'], h'⟩
    | some g =>
      simp only [collectCross, List.mem_cons] at hw
      rcases hw with rfl | hw
      · exact ⟨f, by simp, p, hb⟩
      · obtain ⟨f', hf', h'⟩ := collectCross_mem rd L n fs bs (i + 1) w hbs hw
        exact ⟨f', by simp [hf'], h'⟩

theorem crossStep_some (rd : RegionData) (L n : Int) (f p g : BioFeature) (h : crossStep rd L n f = .ok (p, some g)) :
    bridgesOrigin f.loc = true ∧ ∃ l, offsetLocation f.loc (-rd.start) L = .ok l ∧ (wholeFix L l).end ≤ n ∧
      bridgesOrigin (wholeFix L l) = false ∧ g = { f with loc := wholeFix L l } := by
  unfold crossStep at h
  split at h
  · rename_i hb
    split at h
    · cases h
    · rename_i l hl
      split at h
      · injection h with h; injection h with h1 h2; cases h2
      · rename_i hk
        injection h with h; injection h with h1 h2; injection h2 with h2
        simp only [Bool.or_eq_true, decide_eq_true_eq, not_or] at hk
        exact ⟨hb, l, hl, by omega, by simpa using hk.2, h2.symm⟩
  · injection h with h; injection h with h1 h2; cases h2

theorem base_origin (rd : RegionData) (rec : BioRecord) (seq : List Char) (ws : List Working)
    (parent : List BioFeature) (h : buildBaseRecord rd rec = .ok (seq, ws, parent)) (w : Working) (hw : w ∈ ws) :
    Origin rd rec w.f := by
  unfold buildBaseRecord at h
  split at h
  · rename_i hc
    unfold buildRecordFromCrossOrigin at h
    simp only [bind, Except.bind, pure, Except.pure] at h
    split at h
    · cases h
    · split at h
      · cases h
      · rename_i post hpost
        split at h
        · cases h
        · rename_i v hg
          obtain ⟨par, cr⟩ := v
          injection h with h; injection h with h1 h2; injection h2 with h2 h3
          subst h2
          rcases List.mem_append.1 hw with hw | hw
          · rcases List.mem_append.1 hw with hw | hw
            · obtain ⟨g, hg1, rfl⟩ := List.mem_map.1 hw
              obtain ⟨f, hf, h1, h2, hgf⟩ := slice_from _ _ _ g hg1
              exact .pre f hf hc h1 h2 hgf
            · unfold gatherCrossOrigin at hg
              split at hg
              · cases hg
              · rename_i steps hs
                injection hg with hg; injection hg with hg1 hg2
                subst hg2
                obtain ⟨f, hf, p, hstep⟩ := collectCross_mem rd _ _ _ steps 0 w hs hw
                obtain ⟨hb, l, hl, hk, hnb, hgf⟩ := crossStep_some rd _ _ f p w.f hstep
                exact .cross f hf hc hb l hl hk hnb hgf
          · obtain ⟨g, hg1, rfl⟩ := List.mem_map.1 hw
            obtain ⟨g0, hg0, hoff⟩ := mapE_mem _ _ post hpost g hg1
            obtain ⟨f, hf, h1, h2, hgf⟩ := slice_from _ _ _ g0 hg0
            subst hgf
            simp only [Int.neg_zero, shiftLoc_zero] at hoff
            split at hoff
            · cases hoff
            · rename_i l hl
              injection hoff with hoff
              exact .post f hf hc h1 h2 l hl hoff.symm
  · rename_i hc
    injection h with h; injection h with h1 h2; injection h2 with h2 h3
    subst h2
    obtain ⟨g, hg1, rfl⟩ := List.mem_map.1 hw
    obtain ⟨f, hf, h1, h2, hgf⟩ := slice_from _ _ _ g hg1
    exact .plain f hf (by simpa using hc) h1 h2 hgf

theorem mem_shiftLoc (l : Loc) (k i : Int) : (shiftLoc l k).mem i = l.mem (i - k) := by
  cases l with
  | simple p =>
    simp only [shiftLoc, Loc.mem, Loc.parts, List.any_cons, List.any_nil, Bool.or_false, Part.mem]
    congr 1 <;> (apply decide_eq_decide.2; constructor <;> intro h <;> omega)
  | compound ps =>
    simp only [shiftLoc, Loc.mem, Loc.parts, List.any_map]
    congr 1
    funext p
    simp only [Function.comp, Part.mem]
    congr 1 <;> (apply decide_eq_decide.2; constructor <;> intro h <;> omega)

/-- a base of a location lies between its start and its end -/
theorem mem_bounds (l : Loc) (i : Int) (h : l.mem i = true) : l.start ≤ i ∧ i < l.end := by
  simp only [Loc.mem, List.any_eq_true, Part.mem_iff] at h
  obtain ⟨p, hp, h1, h2⟩ := h
  have := start_le_part l p hp
  omega

theorem wraps_eq (rd : RegionData) : wraps rd = rd.crossesOrigin := by
  simp [wraps, RegionData.crossesOrigin]

/-- slice of a region that does not run over the origin -/
theorem sameBases_plain (L : Int) (rd : RegionData) (l : Loc) (hc : rd.crossesOrigin = false)
    (h1 : rd.start ≤ l.start) (h2 : l.end ≤ rd.end) : SameBases L rd l (shiftLoc l (-rd.start)) := by
  intro i
  have hw : wraps rd = false := by rw [wraps_eq, hc]
  simp only [mem_shiftLoc, regionLen, toRecord, hw, Bool.false_eq_true, if_false]
  have e : i - -rd.start = rd.start + i := by omega
  rw [e]
  constructor
  · intro h
    have := mem_bounds l _ h
    exact ⟨by omega, by omega, h⟩
  · intro h; exact h.2.2

/-- the part of an origin-spanning region before the origin -/
theorem sameBases_pre (L : Int) (rd : RegionData) (l : Loc) (hc : rd.crossesOrigin = true)
    (hL : 0 < L) (he0 : 0 < rd.end) (hes : rd.end ≤ rd.start) (hsL : rd.start < L)
    (h1 : rd.start ≤ l.start) (h2 : l.end ≤ L) : SameBases L rd l (shiftLoc l (-rd.start)) := by
  intro i
  have hw : wraps rd = true := by rw [wraps_eq, hc]
  simp only [mem_shiftLoc, regionLen, toRecord, hw, if_true]
  have e : i - -rd.start = rd.start + i := by omega
  rw [e]
  constructor
  · intro h
    have hb := mem_bounds l _ h
    rw [emod_small' _ L (by omega) (by omega)]
    exact ⟨by omega, by omega, h⟩
  · rintro ⟨hi0, hi1, h⟩
    by_cases hlt : rd.start + i < L
    · rw [emod_small' _ L (by omega) hlt] at h; exact h
    · rw [emod_big' _ L (by omega) (by omega)] at h
      have hb := mem_bounds l _ h
      omega

/-- the part of an origin-spanning region after the origin, moved behind the first part -/
theorem sameBases_post (L : Int) (rd : RegionData) (l : Loc) (hc : rd.crossesOrigin = true)
    (hL : 0 < L) (he0 : 0 < rd.end) (hes : rd.end ≤ rd.start) (hsL : rd.start < L)
    (h1 : 0 ≤ l.start) (h2 : l.end ≤ rd.end) : SameBases L rd l (shiftLoc l (L - rd.start)) := by
  intro i
  have hw : wraps rd = true := by rw [wraps_eq, hc]
  simp only [mem_shiftLoc, regionLen, toRecord, hw, if_true]
  constructor
  · intro h
    have hb := mem_bounds l _ h
    have e : (rd.start + i) % L = i - (L - rd.start) := by
      rw [emod_big' _ L (by omega) (by omega)]; omega
    rw [e]
    exact ⟨by omega, by omega, h⟩
  · rintro ⟨hi0, hi1, h⟩
    by_cases hlt : rd.start + i < L
    · rw [emod_small' _ L (by omega) hlt] at h
      have hb := mem_bounds l _ h
      omega
    · rw [emod_big' _ L (by omega) (by omega)] at h
      have e : i - (L - rd.start) = rd.start + i - L := by omega
      rw [e]; exact h

end ASV.RegionExtract
