/-
  Helper lemmas for C20: the effect machine of `Model/WriteSafety.lean` against the
  order-free definitions of `Spec/WriteSafety.lean`.
-/
import ASV.Spec.WriteSafety
namespace ASV.WriteSafety

/-! ### `json.dumps`: fails exactly on faulty values, otherwise yields the documented text -/

mutual
theorem encode_spec : ∀ v : PyVal, encode v = if v.faulty then none else some (denote v)
  | .none => by simp [encode, PyVal.faulty, denote]
  | .bool _ => by simp [encode, PyVal.faulty, denote]
  | .int n => by cases h : intOk n <;> simp [encode, PyVal.faulty, denote, h]
  | .str _ => by simp [encode, PyVal.faulty, denote]
  | .list xs => by
      simp only [encode, PyVal.faulty, denote, encodeList_spec xs]
      by_cases h : faultyList xs = true <;> simp [h]
  | .dict kvs => by
      simp only [encode, PyVal.faulty, denote, encodeKvs_spec kvs]
      by_cases h : faultyKvs kvs = true <;> simp [h]
  | .seq _ => by simp [encode, PyVal.faulty, denote]
  | .seqConv _ _ => by simp [encode, PyVal.faulty, denote]
  | .conv v => by rw [encode, encode_spec v, PyVal.faulty, denote]
  | .convRaises _ => by simp [encode, PyVal.faulty]
  | .dunder v => by rw [encode, encode_spec v, PyVal.faulty, denote]
  | .dunderRaises _ => by simp [encode, PyVal.faulty]
  | .both v _ => by rw [encode, encode_spec v, PyVal.faulty, denote]
  | .opaque => by simp [encode, PyVal.faulty]
theorem encodeList_spec : ∀ xs : List PyVal,
    encodeList xs = if faultyList xs then none else some (denoteList xs)
  | [] => by simp [encodeList, faultyList, denoteList]
  | x :: xs => by
      simp only [encodeList, faultyList, denoteList, encode_spec x, encodeList_spec xs]
      by_cases h1 : x.faulty = true <;> by_cases h2 : faultyList xs = true <;> simp [h1, h2]
theorem encodeKvs_spec : ∀ kvs : List (String × PyVal),
    encodeKvs kvs = if faultyKvs kvs then none else some (denoteKvs kvs)
  | [] => by simp [encodeKvs, faultyKvs, denoteKvs]
  | (k, v) :: rest => by
      simp only [encodeKvs, faultyKvs, denoteKvs, encode_spec v, encodeKvs_spec rest]
      by_cases h1 : v.faulty = true <;> by_cases h2 : faultyKvs rest = true <;> simp [h1, h2]
end


/-! ### the module loop -/

/-- what `modules` holds after the inner loop when no call raised -/
def payloads : ModDict → List (String × PyVal)
  | [] => []
  | (k, .mod _ v) :: rest => (k, v) :: payloads rest
  | _ :: rest => payloads rest

def valueFault (m : ModDict) : Bool := faultyKvs (payloads m)
def raisingDict (m : ModDict) : Bool := m.any fun kv => kv.2.raising

@[simp] theorem dictFaulty_nil : dictFaulty [] = false := rfl
@[simp] theorem raisingDict_nil : raisingDict [] = false := rfl
theorem dictFaulty_cons (k : String) (s : ModSpec) (rest : ModDict) :
    dictFaulty ((k, s) :: rest) = (s.faulty || dictFaulty rest) := by
  simp only [dictFaulty, List.any_cons]
theorem raisingDict_cons (k : String) (s : ModSpec) (rest : ModDict) :
    raisingDict ((k, s) :: rest) = (s.raising || raisingDict rest) := by
  simp only [raisingDict, List.any_cons]

theorem dictFaulty_split : ∀ m : ModDict, dictFaulty m = (raisingDict m || valueFault m)
  | [] => by simp [valueFault, payloads, faultyKvs]
  | (k, s) :: rest => by
      rw [dictFaulty_cons, raisingDict_cons, dictFaulty_split rest]
      cases s with
      | none => simp [ModSpec.faulty, ModSpec.raising, valueFault, payloads]
      | mod t v =>
        simp only [ModSpec.faulty, ModSpec.raising, valueFault, payloads, faultyKvs, Bool.false_or]
        cases v.faulty <;> cases raisingDict rest <;> simp
      | raises t e => simp [ModSpec.faulty, ModSpec.raising]
      | invalid raw => simp [ModSpec.faulty, ModSpec.raising]

theorem denoteKvs_payloads : ∀ m : ModDict, denoteKvs (payloads m) = modsDoc m
  | [] => by simp [payloads, denoteKvs, modsDoc]
  | (k, s) :: rest => by
      cases s <;> simp [payloads, denoteKvs, modsDoc, denoteKvs_payloads rest]

theorem convertModules_ok (i : Nat) : ∀ (j : Nat) (m : ModDict), raisingDict m = false →
    (convertModules i j m).out = .ok (payloads m)
  | _, [], _ => by simp [convertModules, payloads]
  | j, (k, s) :: rest, h => by
      simp only [raisingDict_cons, Bool.or_eq_false_iff] at h
      have ih := convertModules_ok i (j + 1) rest h.2
      cases s with
      | none => simpa [convertModules, ModSpec.isNone, payloads] using ih
      | mod t v => simp [convertModules, ModSpec.isNone, payloads, ih]
      | raises t e => simp [ModSpec.raising] at h
      | invalid raw => simp [ModSpec.raising] at h

theorem convertModules_err (i : Nat) : ∀ (j : Nat) (m : ModDict), raisingDict m = true →
    ∃ e, (convertModules i j m).out = .error e
  | _, [], h => by simp at h
  | j, (k, s) :: rest, h => by
      simp only [raisingDict_cons, Bool.or_eq_true] at h
      cases s with
      | none =>
        simp only [ModSpec.raising, Bool.false_eq_true, false_or] at h
        simpa [convertModules, ModSpec.isNone] using convertModules_err i (j + 1) rest h
      | mod t v =>
        simp only [ModSpec.raising, Bool.false_eq_true, false_or] at h
        obtain ⟨e, he⟩ := convertModules_err i (j + 1) rest h
        exact ⟨e, by simp [convertModules, ModSpec.isNone, he]⟩
      | raises t e => exact ⟨e, by simp [convertModules, ModSpec.isNone]⟩
      | invalid raw => exact ⟨typeError, by simp [convertModules, ModSpec.isNone]⟩

theorem convertModules_trace (i : Nat) : ∀ (j : Nat) (m : ModDict),
    ∀ ev ∈ (convertModules i j m).trace, ev.isConversion = true
  | _, [] => by simp [convertModules]
  | j, (k, s) :: rest => by
      have ih := convertModules_trace i (j + 1) rest
      cases s with
      | none => simpa [convertModules, ModSpec.isNone] using ih
      | mod t v =>
        intro ev hev
        simp [convertModules, ModSpec.isNone] at hev
        rcases hev with rfl | hev
        · rfl
        · exact ih ev hev
      | raises t e => simp [convertModules, ModSpec.isNone, Ev.isConversion]
      | invalid raw => simp [convertModules, ModSpec.isNone]


/-! ### the record loop -/

theorem bool_shuffle (a x X y Y : Bool) : (a || (x || X) || (y || Y)) = (x || y || (a || X || Y)) := by
  cases a <;> cases x <;> cases X <;> cases y <;> cases Y <;> rfl

@[simp] theorem callFault_nil (ress : List ModDict) : callFault [] ress = false := by
  simp [callFault]
@[simp] theorem callFault_cons_nil (r : RecSpec) (rs : List RecSpec) : callFault (r :: rs) [] = true := by
  simp [callFault]
theorem callFault_cons_cons (r : RecSpec) (rs : List RecSpec) (res : ModDict) (ress : List ModDict) :
    callFault (r :: rs) (res :: ress) = (r.fault.isSome || raisingDict res || callFault rs ress) := by
  simp only [callFault, List.length_cons, List.any_cons, List.take_succ_cons, Nat.add_lt_add_iff_right]
  exact bool_shuffle _ _ _ _ _

@[simp] theorem conversionFault_nil (ress : List ModDict) : conversionFault [] ress = false := by
  simp [conversionFault]
@[simp] theorem conversionFault_cons_nil (r : RecSpec) (rs : List RecSpec) :
    conversionFault (r :: rs) [] = true := by
  simp [conversionFault]
theorem conversionFault_cons_cons (r : RecSpec) (rs : List RecSpec) (res : ModDict) (ress : List ModDict) :
    conversionFault (r :: rs) (res :: ress) = (r.fault.isSome || dictFaulty res || conversionFault rs ress) := by
  simp only [conversionFault, List.length_cons, List.any_cons, List.take_succ_cons, Nat.add_lt_add_iff_right]
  exact bool_shuffle _ _ _ _ _

/-- some module value among the visited results cannot be serialised -/
def valueFaults (rs : List RecSpec) (ress : List ModDict) : Bool := (ress.take rs.length).any valueFault

theorem conversionFault_split : ∀ (rs : List RecSpec) (ress : List ModDict),
    conversionFault rs ress = (callFault rs ress || valueFaults rs ress)
  | [], ress => by simp [valueFaults]
  | r :: rs, [] => by simp
  | r :: rs, res :: ress => by
      rw [conversionFault_cons_cons, callFault_cons_cons, conversionFault_split rs ress, dictFaulty_split]
      simp only [valueFaults, List.length_cons, List.take_succ_cons, List.any_cons]
      cases r.fault.isSome <;> cases raisingDict res <;> cases valueFault res <;> cases callFault rs ress <;> simp

theorem convertRecords_ok : ∀ (i : Nat) (rs : List RecSpec) (ress : List ModDict), callFault rs ress = false →
    (convertRecords i rs ress).out = .ok ((ress.take rs.length).map payloads)
  | _, [], _, _ => by simp [convertRecords]
  | _, r :: rs, [], h => by simp at h
  | i, r :: rs, res :: ress, h => by
      rw [callFault_cons_cons] at h
      simp only [Bool.or_eq_false_iff] at h
      obtain ⟨⟨h1, h2⟩, h3⟩ := h
      have hf : r.fault = none := by cases hr : r.fault <;> simp_all
      simp [convertRecords, hf, convertModules_ok i 0 res h2, convertRecords_ok (i + 1) rs ress h3]

theorem convertRecords_err : ∀ (i : Nat) (rs : List RecSpec) (ress : List ModDict), callFault rs ress = true →
    ∃ e, (convertRecords i rs ress).out = .error e
  | _, [], _, h => by simp at h
  | _, r :: rs, [], _ => ⟨indexError, by simp [convertRecords]⟩
  | i, r :: rs, res :: ress, h => by
      rw [callFault_cons_cons] at h
      cases hr : r.fault with
      | some e => exact ⟨e, by simp [convertRecords, hr]⟩
      | none =>
        cases hm : raisingDict res with
        | true =>
          obtain ⟨e, he⟩ := convertModules_err i 0 res hm
          exact ⟨e, by simp [convertRecords, hr, he]⟩
        | false =>
          simp only [hr, hm, Option.isSome_none, Bool.or_self, Bool.false_or] at h
          obtain ⟨e, he⟩ := convertRecords_err (i + 1) rs ress h
          exact ⟨e, by simp [convertRecords, hr, convertModules_ok i 0 res hm, he]⟩

theorem convertRecords_trace : ∀ (i : Nat) (rs : List RecSpec) (ress : List ModDict),
    ∀ ev ∈ (convertRecords i rs ress).trace, ev.isConversion = true
  | _, [], _ => by simp [convertRecords]
  | _, r :: rs, [] => by simp [convertRecords]
  | i, r :: rs, res :: ress => by
      have hm := convertModules_trace i 0 res
      have ih := convertRecords_trace (i + 1) rs ress
      intro ev hev
      cases hr : r.fault with
      | some e =>
        simp only [convertRecords, hr, List.mem_singleton] at hev
        subst hev; rfl
      | none =>
        cases ho : (convertModules i 0 res).out with
        | error e =>
          simp only [convertRecords, hr, ho, List.mem_cons] at hev
          rcases hev with rfl | hev
          · rfl
          · exact hm ev hev
        | ok mods =>
          simp only [convertRecords, hr, ho, List.mem_cons, List.mem_append] at hev
          rcases hev with (rfl | hev) | hev
          · rfl
          · exact hm ev hev
          · exact ih ev hev

/-! ### serialising the collected records -/

theorem encodeRecords_spec : ∀ ms : List ModDict,
    encodeRecords (ms.map payloads) = if ms.any valueFault then none else some (recordsDoc ms)
  | [] => by simp [encodeRecords, recordsDoc]
  | m :: ms => by
      have e1 : faultyKvs (payloads m) = valueFault m := rfl
      simp only [List.map_cons, encodeRecords, encodeKvs_spec, encodeRecords_spec ms, List.any_cons,
        recordsDoc, denoteKvs_payloads, e1]
      by_cases h1 : valueFault m = true <;> by_cases h2 : ms.any valueFault = true <;> simp [h1, h2]


/-! ### traces -/

theorem conversion_not_touching (ev : Ev) (h : ev.isConversion = true) : ev.touchesFiles = false := by
  cases ev <;> simp_all [Ev.isConversion, Ev.touchesFiles]

/-- a trace of conversions and error logs touches no file -/
theorem quiet_trace (tr : List Ev) (h : ∀ ev ∈ tr, ev.isConversion = true ∨ ev = .logErr) :
    tr.any Ev.touchesFiles = false := by
  rw [List.any_eq_false]
  intro ev hev
  rcases h ev hev with hc | rfl
  · simp [conversion_not_touching ev hc]
  · simp [Ev.touchesFiles]

theorem convertThenTouch_append (a b : List Ev) (h : a.any Ev.touchesFiles = false) :
    convertThenTouch (a ++ b) = convertThenTouch b := by
  induction a with
  | nil => rfl
  | cons e a ih =>
    simp only [List.any_cons, Bool.or_eq_false_iff] at h
    simp [convertThenTouch, h.1, ih h.2]

theorem convertThenTouch_quiet (a : List Ev) (h : a.any Ev.touchesFiles = false) :
    convertThenTouch a = true := by
  have := convertThenTouch_append a [] h
  simpa [convertThenTouch] using this

theorem convertThenTouch_emit (h : Handle) (d : Dir) (t : Bytes) : convertThenTouch (emit h d t).1 = true := by
  cases h <;> simp [emit, convertThenTouch, Ev.touchesFiles, Ev.isConversion]

/-! ### `open(path, "w")` followed by `write` -/

theorem append_other (d : Dir) (n : String) (t : Bytes) (h : d.any (fun e => e.name == n) = false) :
    d.append n t = d := by
  rw [List.any_eq_false] at h
  unfold Dir.append
  conv => rhs; rw [← List.map_id d]
  apply List.map_congr_left
  intro e he
  have := h e he
  simp_all

theorem openW_append (d : Dir) (n : String) (t : Bytes) : (d.openW n).append n t = d.withFile n t := by
  unfold Dir.openW Dir.withFile
  cases hany : d.any (fun e => e.name == n) with
  | true =>
    simp only [if_true, Dir.append, List.map_map]
    apply List.map_congr_left
    intro e _
    by_cases hn : e.name = n <;> simp [hn]
  | false =>
    simp only [Bool.false_eq_true, if_false]
    have h1 : Dir.append (d ++ [⟨n, false, []⟩]) n t = d.append n t ++ [⟨n, false, t⟩] := by
      simp [Dir.append]
    rw [h1, append_other d n t hany]

theorem emit_dir (h : Handle) (d : Dir) (t : Bytes) : (emit h d t).2 = expectedAfter h d t := by
  cases h <;> simp [emit, expectedAfter, openW_append]

/-! ### `write_to_file` and `dump_records` as wholes -/

theorem writeToFile_fault (r : Results) (h : Handle) (d : Dir) (hf : r.hasFault = true) :
    (writeToFile r h d).err.isSome = true ∧ (writeToFile r h d).dir = d ∧
      ∀ ev ∈ (writeToFile r h d).trace, ev.isConversion = true ∨ ev = .logErr := by
  have htr := convertRecords_trace 0 r.records r.results
  have quiet : ∀ ev ∈ (convertRecords 0 r.records r.results).trace ++ [Ev.logErr],
      ev.isConversion = true ∨ ev = .logErr := by
    intro ev hev
    rcases List.mem_append.1 hev with h1 | h1
    · exact Or.inl (htr ev h1)
    · exact Or.inr (by simpa using h1)
  unfold Results.hasFault at hf
  rw [conversionFault_split] at hf
  cases hc : callFault r.records r.results with
  | true =>
    obtain ⟨e, he⟩ := convertRecords_err 0 _ _ hc
    by_cases hte : (e == typeError) = true
    · have hw : writeToFile r h d =
          ⟨(convertRecords 0 r.records r.results).trace ++ [.logErr], some typeError, d⟩ := by
        simp only [writeToFile, he, hte, if_true]
      rw [hw]
      exact ⟨rfl, rfl, quiet⟩
    · have hw : writeToFile r h d = ⟨(convertRecords 0 r.records r.results).trace, some e, d⟩ := by
        simp [writeToFile, he, hte]
      rw [hw]
      exact ⟨rfl, rfl, fun ev hev => Or.inl (htr ev hev)⟩
  | false =>
    have hok := convertRecords_ok 0 _ _ hc
    simp only [hc, Bool.false_or] at hf
    have hw : writeToFile r h d =
        ⟨(convertRecords 0 r.records r.results).trace ++ [.logErr], some typeError, d⟩ := by
      by_cases hv : valueFaults r.records r.results = true
      · have : (List.take r.records.length r.results).any valueFault = true := hv
        simp only [writeToFile, hok, encodeRecords_spec, this, if_true]
      · have hv' : (List.take r.records.length r.results).any valueFault = false := by
          simpa [valueFaults] using hv
        have ht : r.timings.faulty = true := by simpa [hv] using hf
        simp only [writeToFile, hok, encodeRecords_spec, hv', encode_spec, ht, if_true]
        simp
    rw [hw]
    exact ⟨rfl, rfl, quiet⟩

theorem writeToFile_clean (r : Results) (h : Handle) (d : Dir) (hf : r.hasFault = false) :
    writeToFile r h d =
      ⟨(convertRecords 0 r.records r.results).trace ++ (emit h d (expectedFull r)).1, none,
       expectedAfter h d (expectedFull r)⟩ := by
  unfold Results.hasFault at hf
  rw [conversionFault_split] at hf
  simp only [Bool.or_eq_false_iff] at hf
  obtain ⟨⟨hc, hv⟩, ht⟩ := hf
  have hv' : (List.take r.records.length r.results).any valueFault = false := hv
  have hok := convertRecords_ok 0 _ _ hc
  simp only [writeToFile, hok, encodeRecords_spec, hv', encode_spec, ht]
  simp [emit_dir, expectedFull]


/-- the faults `dump_records` can meet: value faults only matter when something is serialised -/
def dumpFault (records : List RecSpec) (results : List ModDict) : Handle → Bool
  | .absent => callFault records results
  | _ => conversionFault records results

theorem dumpRecords_fault (rs : List RecSpec) (ress : List ModDict) (h : Handle) (d : Dir)
    (hf : dumpFault rs ress h = true) :
    (dumpRecords rs ress h d).err.isSome = true ∧ (dumpRecords rs ress h d).dir = d ∧
      ∀ ev ∈ (dumpRecords rs ress h d).trace, ev.isConversion = true ∨ ev = .logErr := by
  have htr := convertRecords_trace 0 rs ress
  have quiet : ∀ ev ∈ (convertRecords 0 rs ress).trace ++ [Ev.logErr],
      ev.isConversion = true ∨ ev = .logErr := by
    intro ev hev
    rcases List.mem_append.1 hev with h1 | h1
    · exact Or.inl (htr ev h1)
    · exact Or.inr (by simpa using h1)
  cases hc : callFault rs ress with
  | true =>
    obtain ⟨e, he⟩ := convertRecords_err 0 _ _ hc
    have hw : dumpRecords rs ress h d = ⟨(convertRecords 0 rs ress).trace, some e, d⟩ := by
      simp [dumpRecords, he]
    rw [hw]
    exact ⟨rfl, rfl, fun ev hev => Or.inl (htr ev hev)⟩
  | false =>
    have hok := convertRecords_ok 0 _ _ hc
    have hv : (List.take rs.length ress).any valueFault = true := by
      cases h <;> simp_all [dumpFault, conversionFault_split, valueFaults]
    have hw : dumpRecords rs ress h d = ⟨(convertRecords 0 rs ress).trace ++ [.logErr], some typeError, d⟩ := by
      cases h with
      | absent => simp [dumpFault, hc] at hf
      | path n => simp only [dumpRecords, hok, encodeRecords_spec, hv, if_true]
      | io n => simp only [dumpRecords, hok, encodeRecords_spec, hv, if_true]
    rw [hw]
    exact ⟨rfl, rfl, quiet⟩

theorem dumpRecords_clean (rs : List RecSpec) (ress : List ModDict) (h : Handle) (d : Dir)
    (hf : dumpFault rs ress h = false) :
    dumpRecords rs ress h d =
      match h with
      | .absent => ⟨(convertRecords 0 rs ress).trace, none, d⟩
      | _ => ⟨(convertRecords 0 rs ress).trace ++ (emit h d (expectedRecords rs ress)).1, none,
              expectedAfter h d (expectedRecords rs ress)⟩ := by
  cases h with
  | absent =>
    have hok := convertRecords_ok 0 _ _ hf
    simp [dumpRecords, hok]
  | path n =>
    simp only [dumpFault, conversionFault_split, Bool.or_eq_false_iff] at hf
    have hv : (List.take rs.length ress).any valueFault = false := hf.2
    have hok := convertRecords_ok 0 _ _ hf.1
    simp only [dumpRecords, hok, encodeRecords_spec, hv]
    simp [emit_dir, expectedRecords]
  | io n =>
    simp only [dumpFault, conversionFault_split, Bool.or_eq_false_iff] at hf
    have hv : (List.take rs.length ress).any valueFault = false := hf.2
    have hok := convertRecords_ok 0 _ _ hf.1
    simp only [dumpRecords, hok, encodeRecords_spec, hv]
    simp [emit_dir, expectedRecords]

end ASV.WriteSafety
