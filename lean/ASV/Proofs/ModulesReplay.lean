/-
  C14 helper lemmas, part 4: sequences of `add_component` calls whose look-ahead is "what
  follows" (Module.from_json, both loops of combine_modules): a successful replay establishes the
  state invariant and the documented layout; a failing one is an IncompatibleComponentError;
  the look-ahead matters only through the first two labels in front of an extra carrier protein.
-/
import ASV.Proofs.ModulesAdd
namespace ASV.Modules
open T Spec

/-- the pending look-ahead acceptance is justified by the upcoming components -/
def PendOK (m : Module) (nxt : List Comp) : Prop :=
  m.unambiguous ≤ nxt.length ∧ ∀ x ∈ nxt.take m.unambiguous, kindOf x = .modification

theorem PendOK.zero {m : Module} (h : m.unambiguous = 0) (nxt : List Comp) : PendOK m nxt := by
  unfold PendOK; rw [h]; simp

theorem PendOK.head {m : Module} {c : Comp} {nxt : List Comp} (h : PendOK m (c :: nxt)) :
    m.unambiguous > 0 → kindOf c = .modification := by
  intro h0
  apply h.2
  cases hu : m.unambiguous with
  | zero => omega
  | succ k => simp

theorem PendOK.nil {m : Module} (h : PendOK m []) : m.unambiguous = 0 := by
  have := h.1; simpa using this

/-- the pending acceptance stays justified across an accepted step whose look-ahead agrees with
    the upcoming components on the first two labels -/
theorem pend_step {m m' : Module} {c : Comp} {nxt la : List Comp}
    (hP : PendOK m (c :: nxt)) (hs : StepOK m c la m')
    (hla : m.carrier.isSome = true → (la.take 2).map (·.label) = (nxt.take 2).map (·.label)) :
    PendOK m' nxt := by
  have hu := hs.unamb
  by_cases h0 : m.unambiguous > 0
  · rw [if_pos h0] at hu
    constructor
    · have := hP.1; simp at this; omega
    · intro x hx
      apply hP.2
      have : m.unambiguous = (m.unambiguous - 1) + 1 := by omega
      rw [this, List.take_succ_cons, ← hu]
      exact List.mem_cons_of_mem _ hx
  · rw [if_neg h0] at hu
    cases hc : (c.isCarrierProtein && m.carrier.isSome) with
    | false => rw [hc] at hu; exact PendOK.zero (by simpa using hu) nxt
    | true =>
      rw [hc] at hu; simp at hu hc
      have hv := hs.valid (by omega) hc.1 hc.2
      rw [dtValid_take2 la nxt (hla hc.2)] at hv
      obtain ⟨h2, hm⟩ := dtValid_next nxt hv
      exact ⟨by omega, by rw [hu]; exact hm⟩

theorem place_la {m : Module} {c : Comp} {la la' : List Comp}
    (h : m.carrier.isSome = true → c.isCarrierProtein = true →
          dtValid (la.map (·.label)) = dtValid (la'.map (·.label))) :
    place m c la = place m c la' := by
  cases hcp : c.isCarrierProtein with
  | false => simp [place, hcp]
  | true =>
    cases hC : m.carrier with
    | none => simp [place, hcp, hC]
    | some x =>
      have := h (by rw [hC]; rfl) hcp
      simp only [place, dtLongest_eq, this]

theorem ensure_la {m : Module} {c : Comp} {la la' : List Comp}
    (h : m.carrier.isSome = true → c.isCarrierProtein = true →
          dtValid (la.map (·.label)) = dtValid (la'.map (·.label))) :
    ensureSuitable m c la = ensureSuitable m c la' := by
  cases hcp : c.isCarrierProtein with
  | false => simp [ensureSuitable, hcp]
  | true =>
    cases hC : m.carrier with
    | none => simp [ensureSuitable, hcp, hC]
    | some x =>
      have := h (by rw [hC]; rfl) hcp
      simp only [ensureSuitable, this]

/-- the result of `addComponent` depends on the look-ahead only through its first two labels, and
    only for a carrier protein arriving at a module that already has one -/
theorem add_la_indep {m : Module} {c : Comp} {la la' : List Comp}
    (h : m.carrier.isSome = true → c.isCarrierProtein = true →
          (la.take 2).map (·.label) = (la'.take 2).map (·.label)) :
    addComponent m c la = addComponent m c la' := by
  have hv : m.carrier.isSome = true → c.isCarrierProtein = true →
      dtValid (la.map (·.label)) = dtValid (la'.map (·.label)) :=
    fun a b => dtValid_take2 la la' (h a b)
  cases hi : c.isIgnored with
  | true => rw [add_ignored m c la hi, add_ignored m c la' hi]
  | false =>
    by_cases h0 : m.unambiguous > 0
    · rw [add_unfold1 m c la h0 hi, add_unfold1 m c la' h0 hi]
      rw [place_la (m := { m with unambiguous := m.unambiguous - 1 }) hv]
    · have h0 : m.unambiguous = 0 := by omega
      rw [add_unfold0 m c la h0 hi, add_unfold0 m c la' h0 hi, place_la hv, ensure_la hv]

/-! ### replay -/

/-- `replayGo` with extra components `ext` visible at the end of every look-ahead -/
def runPre (m : Module) : List Comp → List Comp → Except Err Module
  | [], _ => .ok m
  | c :: cs, ext =>
    match addComponent m c (cs ++ ext) with
    | .ok m' => runPre m' cs ext
    | .error e => .error e

theorem runPre_nil (m : Module) (cs : List Comp) : runPre m cs [] = replayGo m cs := by
  induction cs generalizing m with
  | nil => rfl
  | cons c cs ih =>
    simp only [runPre, replayGo, List.append_nil]
    cases addComponent m c cs with
    | ok m' => exact ih m'
    | error e => rfl

theorem runPre_snoc (m : Module) (cs : List Comp) (c : Comp) (ext : List Comp) :
    runPre m (cs ++ [c]) ext = andThen (runPre m cs (c :: ext)) fun m1 => addComponent m1 c ext := by
  induction cs generalizing m with
  | nil =>
    simp only [List.nil_append, runPre, andThen]
    cases addComponent m c ext <;> rfl
  | cons x cs ih =>
    simp only [List.cons_append, runPre, List.append_assoc, List.nil_append]
    cases addComponent m x (cs ++ c :: ext) with
    | ok m' => exact ih m'
    | error e => rfl

theorem runPre_append (m : Module) (a b ext : List Comp) :
    runPre m (a ++ b) ext = andThen (runPre m a (b ++ ext)) fun m1 => runPre m1 b ext := by
  induction a generalizing m with
  | nil => simp [runPre, andThen]
  | cons x a ih =>
    simp only [List.cons_append, runPre, List.append_assoc]
    cases addComponent m x (a ++ (b ++ ext)) with
    | ok m' => exact ih m'
    | error e => rfl

/-- the layout spec with extra components `ext` visible behind the list -/
def layoutFromX (pre : List Comp) (ext : List Comp) : List Comp → Bool
  | [] => true
  | c :: rest => positionOK pre c (rest ++ ext) && layoutFromX (pre ++ [c]) ext rest

theorem layoutFromX_nil (pre cs : List Comp) : layoutFromX pre [] cs = layoutFrom pre cs := by
  induction cs generalizing pre with
  | nil => rfl
  | cons c cs ih => simp only [layoutFromX, layoutFrom, List.append_nil, ih]

/-- what a successful run establishes -/
theorem runPre_ok {cs : List Comp} : ∀ {m : Module} (ext : List Comp), StateInv m → PendOK m (cs ++ ext) →
    (∀ c ∈ cs, c.isIgnored = false) → ∀ m', runPre m cs ext = .ok m' →
    StateInv m' ∧ m'.components = m.components ++ cs ∧ m'.firstInCds = m.firstInCds
      ∧ PendOK m' ext ∧ layoutFromX m.components ext cs = true := by
  induction cs with
  | nil =>
    intro m ext hI hP _ m' h
    simp only [runPre] at h; injection h with h; subst h
    exact ⟨hI, by simp, rfl, hP, rfl⟩
  | cons c cs ih =>
    intro m ext hI hP hign m' h
    simp only [runPre] at h
    have hci : c.isIgnored = false := hign c (List.mem_cons_self)
    rcases add_cases (cs ++ ext) hI hP.head with ⟨hk, _⟩ | ⟨_, hr⟩
    · rw [isIgnored_eq, hk] at hci; cases hci
    · rcases hr with ⟨he, _, _⟩ | ⟨m1, h1, hs⟩
      · rw [he] at h; cases h
      · rw [h1] at h
        have hP1 : PendOK m1 (cs ++ ext) := pend_step hP hs (fun _ => rfl)
        obtain ⟨a, b, d, e, f⟩ := ih ext hs.inv hP1 (fun x hx => hign x (List.mem_cons_of_mem _ hx)) m' h
        refine ⟨a, ?_, ?_, e, ?_⟩
        · rw [b, hs.comps]; simp
        · rw [d, hs.first]
        · simp only [layoutFromX, hs.pos, Bool.true_and]
          rw [← hs.comps]; exact f

/-- a failing run is an IncompatibleComponentError: no assertion is reachable -/
theorem runPre_err {cs : List Comp} : ∀ {m : Module} (ext : List Comp), StateInv m → PendOK m (cs ++ ext) →
    ∀ e, runPre m cs ext = .error e → e = .incompatible := by
  induction cs with
  | nil => intro m ext _ _ e h; simp [runPre] at h
  | cons c cs ih =>
    intro m ext hI hP e h
    simp only [runPre] at h
    rcases add_cases (cs ++ ext) hI hP.head with ⟨hk, h1⟩ | ⟨_, hr⟩
    · rw [h1] at h
      have h0 : m.unambiguous = 0 := by
        by_cases h0 : m.unambiguous > 0
        · have := hP.head h0; rw [hk] at this; cases this
        · omega
      exact ih ext hI (PendOK.zero h0 _) e h
    · rcases hr with ⟨he, _, _⟩ | ⟨m1, h1, hs⟩
      · rw [he] at h; injection h with h; exact h.symm
      · rw [h1] at h
        exact ih ext hs.inv (pend_step hP hs (fun _ => rfl)) e h

/-- if a run succeeds with nothing visible behind it, it gives the same result with anything
    visible behind it -/
theorem runPre_ext {cs : List Comp} : ∀ {m : Module} (ext : List Comp), StateInv m → PendOK m cs →
    (∀ c ∈ cs, c.isIgnored = false) → ∀ m', runPre m cs [] = .ok m' → runPre m cs ext = .ok m' := by
  induction cs with
  | nil => intro m ext _ _ _ m' h; exact h
  | cons c cs ih =>
    intro m ext hI hP hign m' h
    simp only [runPre, List.append_nil] at h ⊢
    have hci : c.isIgnored = false := hign c (List.mem_cons_self)
    rcases add_cases cs hI hP.head with ⟨hk, _⟩ | ⟨_, hr⟩
    · rw [isIgnored_eq, hk] at hci; cases hci
    · rcases hr with ⟨he, _, _⟩ | ⟨m1, h1, hs⟩
      · rw [he] at h; cases h
      · rw [h1] at h
        have hP1 : PendOK m1 cs := pend_step hP hs (fun _ => rfl)
        have : addComponent m c (cs ++ ext) = addComponent m c cs := by
          apply add_la_indep
          intro hC hcp
          by_cases h0 : m.unambiguous > 0
          · have := hP.head h0
            rw [isCarrierProtein_eq, this] at hcp; cases hcp
          · have hv := hs.valid (by omega) hcp hC
            obtain ⟨h2, _⟩ := dtValid_next cs hv
            rw [List.take_append_of_le_length h2]
        rw [this, h1]
        exact ih ext hs.inv hP1 (fun x hx => hign x (List.mem_cons_of_mem _ hx)) m' h

end ASV.Modules
