/-
  C05: what `build_candidates` does to the table, said without the order of the groups: per
  coordinate key the members of all groups with that key are added to the candidate with that key
  (a new one of the pass's kind if there was none), and the added protoclusters become promoted
  singles exactly when the candidate they were merged into is of another kind.
-/
import ASV.Proofs.Definition
set_option linter.unusedSectionVars false
set_option linter.unusedVariables false
set_option linter.unusedSimpArgs false
namespace ASV.CC
open ASV.CC.Spec

/-! ### tables with distinct keys -/

theorem entry_unique {l : List ((Int × Int) × Cand)} (hn : (keys l).Nodup) {k : Int × Int} {c d : Cand}
    (hc : (k, c) ∈ l) (hd : (k, d) ∈ l) : c = d := by
  induction l with
  | nil => cases hc
  | cons e es ih =>
    simp only [keys, List.map_cons, List.nodup_cons] at hn
    rcases List.mem_cons.1 hc with e1 | e1 <;> rcases List.mem_cons.1 hd with e2 | e2
    · have := e1.trans e2.symm; injection this
    · exfalso; apply hn.1; rw [← e1]; exact List.mem_map.2 ⟨(k, d), e2, rfl⟩
    · exfalso; apply hn.1; rw [← e2]; exact List.mem_map.2 ⟨(k, c), e1, rfl⟩
    · exact ih hn.2 e1 e2

theorem getGo_some_of_mem {l : List ((Int × Int) × Cand)} (hn : (keys l).Nodup) {k : Int × Int} {c : Cand}
    (hc : (k, c) ∈ l) : getGo k l = some c := by
  cases h : getGo k l with
  | none => exact absurd (List.mem_map.2 ⟨(k, c), hc, rfl⟩) (getGo_none h)
  | some d => rw [entry_unique hn (getGo_mem h) hc]

theorem mem_setGo_iff {l : List ((Int × Int) × Cand)} (hn : (keys l).Nodup) (k : Int × Int) (c : Cand)
    (e : (Int × Int) × Cand) : e ∈ setGo k c l ↔ e = (k, c) ∨ (e ∈ l ∧ e.1 ≠ k) := by
  induction l with
  | nil => simp [setGo]
  | cons e0 es ih =>
    simp only [keys, List.map_cons, List.nodup_cons] at hn
    simp only [setGo]
    by_cases hk : (e0.1 == k) = true
    · have hk' : e0.1 = k := by simpa using hk
      rw [if_pos hk]
      simp only [List.mem_cons]
      constructor
      · rintro (h | h)
        · exact Or.inl h
        · right
          refine ⟨Or.inr h, ?_⟩
          intro e1
          apply hn.1
          rw [hk', ← e1]
          exact List.mem_map.2 ⟨e, h, rfl⟩
      · rintro (h | ⟨h | h, hne⟩)
        · exact Or.inl h
        · exfalso; rw [h] at hne; exact hne hk'
        · exact Or.inr h
    · have hk' : e0.1 ≠ k := by simpa using hk
      rw [if_neg hk]
      simp only [List.mem_cons, ih hn.2]
      constructor
      · rintro (h | h | ⟨h, hne⟩)
        · exact Or.inr ⟨Or.inl h, by rw [h]; exact hk'⟩
        · exact Or.inl h
        · exact Or.inr ⟨Or.inr h, hne⟩
      · rintro (h | ⟨h | h, hne⟩)
        · exact Or.inr (Or.inl h)
        · exact Or.inl h
        · exact Or.inr (Or.inr ⟨h, hne⟩)

theorem keys_nodup_setGo {l : List ((Int × Int) × Cand)} (hn : (keys l).Nodup) (k : Int × Int) (c : Cand) :
    (keys (setGo k c l)).Nodup := by
  rw [keys_setGo]
  split
  · exact hn
  · rename_i hk
    refine List.nodup_append.2 ⟨hn, by simp, ?_⟩
    intro x hx y hy e
    have : y = k := by simpa using hy
    subst this; subst e; exact hk hx

theorem mem_keys_setGo (l : List ((Int × Int) × Cand)) (k k' : Int × Int) (c : Cand) :
    k' ∈ keys (setGo k c l) ↔ k' ∈ keys l ∨ k' = k := by
  rw [keys_setGo]
  split
  · rename_i hk
    constructor
    · exact Or.inl
    · rintro (h | h)
      · exact h
      · rw [h]; exact hk
  · simp [List.mem_append]

/-! ### the table as a relation -/

/-- `x` is a member of the candidate stored under key `k` -/
def memOf (t : Table) (k : Int × Int) (x : Proto) : Prop := ∃ c, (k, c) ∈ t.existing ∧ x ∈ c.members
/-- the candidate stored under key `k` has kind `kd` -/
def kindOf (t : Table) (k : Int × Int) (kd : Kind) : Prop := ∃ c, (k, c) ∈ t.existing ∧ c.kind = kd

/-- the coordinate key `build_candidates` computes for a group -/
def gkey (wrap : Option Int) (kind : Kind) (g : List Proto) : Option (Int × Int) :=
  match mkCand wrap kind (sortProtos g) with
  | .ok c => some (locKey c.loc)
  | .error _ => none

/-- the effect of a list of groups on the table, without reference to their order -/
structure PassDesc (wrap : Option Int) (kind : Kind) (t t' : Table) (gs : List (List Proto)) : Prop where
  members : ∀ k x, memOf t' k x ↔ memOf t k x ∨ ∃ g, g ∈ gs ∧ gkey wrap kind g = some k ∧ x ∈ g
  kinds : ∀ k kd, kindOf t' k kd ↔ kindOf t k kd ∨ (k ∉ keys t.existing ∧ kd = kind ∧ ∃ g, g ∈ gs ∧ gkey wrap kind g = some k)
  singles : ∀ x, x ∈ t'.singles ↔ x ∈ t.singles ∨
    ∃ k c, (k, c) ∈ t.existing ∧ c.kind ≠ kind ∧ x ∉ c.members ∧ ∃ g, g ∈ gs ∧ gkey wrap kind g = some k ∧ x ∈ g
  keysNodup : (keys t'.existing).Nodup
  keysOf : ∀ k, k ∈ keys t'.existing ↔ k ∈ keys t.existing ∨ ∃ g, g ∈ gs ∧ gkey wrap kind g = some k

theorem mem_keys_iff {t : Table} {k : Int × Int} : k ∈ keys t.existing ↔ ∃ c, (k, c) ∈ t.existing := by
  simp only [keys, List.mem_map]
  constructor
  · rintro ⟨e, he, rfl⟩; exact ⟨e.2, he⟩
  · rintro ⟨c, hc⟩; exact ⟨(k, c), hc, rfl⟩

/-- one group -/
theorem buildOne_desc {wrap : Option Int} {kind : Kind} {t t' : Table} {g : List Proto}
    (h : buildOne wrap kind t g = .ok t') (hn : (keys t.existing).Nodup) :
    PassDesc wrap kind t t' [g] := by
  unfold buildOne at h
  split at h
  · cases h
  · split at h
    · cases h
    · rename_i cand hcand
      obtain ⟨hkind, hmem, hok⟩ := mkCand_ok hcand
      have hgk : gkey wrap kind g = some (locKey cand.loc) := by simp [gkey, hcand]
      have hgmem : ∀ x, x ∈ cand.members ↔ x ∈ g := fun x => by rw [hmem]; exact mem_sortProtos
      dsimp only at h
      split at h
      · -- a new key
        rename_i hget
        injection h with h; subst h
        have hnot := getGo_none hget
        have hent : ∀ e, e ∈ (t.set (locKey cand.loc) cand).existing ↔ e = (locKey cand.loc, cand) ∨ e ∈ t.existing := by
          intro e
          simp only [Table.set]
          rw [mem_setGo_iff hn]
          constructor
          · rintro (h1 | ⟨h1, _⟩)
            · exact Or.inl h1
            · exact Or.inr h1
          · rintro (h1 | h1)
            · exact Or.inl h1
            · refine Or.inr ⟨h1, ?_⟩
              intro e1; apply hnot; rw [← e1]; exact List.mem_map.2 ⟨e, h1, rfl⟩
        refine ⟨?_, ?_, ?_, keys_nodup_setGo hn _ _, ?_⟩
        · intro k x
          simp only [memOf, hent, List.mem_singleton]
          constructor
          · rintro ⟨c, (h1 | h1), hx⟩
            · injection h1 with e1 e2
              subst e2
              exact Or.inr ⟨g, rfl, by rw [hgk, e1], (hgmem x).1 hx⟩
            · exact Or.inl ⟨c, h1, hx⟩
          · rintro (⟨c, h1, hx⟩ | ⟨g', rfl, h2, hx⟩)
            · exact ⟨c, Or.inr h1, hx⟩
            · rw [hgk] at h2; injection h2 with h2
              exact ⟨cand, Or.inl (by rw [h2]), (hgmem x).2 hx⟩
        · intro k kd
          simp only [kindOf, hent, List.mem_singleton]
          constructor
          · rintro ⟨c, (h1 | h1), hx⟩
            · injection h1 with e1 e2
              subst e2
              exact Or.inr ⟨by rw [e1]; exact hnot, by rw [← hx, hkind], g, rfl, by rw [hgk, e1]⟩
            · exact Or.inl ⟨c, h1, hx⟩
          · rintro (⟨c, h1, hx⟩ | ⟨_, hkd, g', rfl, h2⟩)
            · exact ⟨c, Or.inr h1, hx⟩
            · rw [hgk] at h2; injection h2 with h2
              exact ⟨cand, Or.inl (by rw [h2]), by rw [hkind, hkd]⟩
        · intro x
          constructor
          · exact Or.inl
          · rintro (h1 | ⟨k, c, hc, _, _, g', hg', h2, _⟩)
            · exact h1
            · exfalso
              simp only [List.mem_singleton] at hg'; subst hg'
              rw [hgk] at h2; injection h2 with h2
              apply hnot; rw [h2]; exact List.mem_map.2 ⟨(k, c), hc, rfl⟩
        · intro k
          simp only [Table.set, mem_keys_setGo, List.mem_singleton]
          constructor
          · rintro (h1 | h1)
            · exact Or.inl h1
            · exact Or.inr ⟨g, rfl, by rw [hgk, h1]⟩
          · rintro (h1 | ⟨g', rfl, h2⟩)
            · exact Or.inl h1
            · rw [hgk] at h2; injection h2 with h2; exact Or.inr h2.symm
      · rename_i ex hget
        have hexin := getGo_mem hget
        have huniq : ∀ c, (locKey cand.loc, c) ∈ t.existing → c = ex := fun c hc => entry_unique hn hc hexin
        split at h
        · -- nothing new
          rename_i hextras
          split at h
          · cases h
          injection h with h; subst h
          have hsub : ∀ x, x ∈ g → x ∈ ex.members := by
            intro x hx
            by_cases hin : x ∈ ex.members
            · exact hin
            · exfalso
              have : x ∈ diffL (dedup g) ex.members := mem_diffL.2 ⟨mem_dedup.2 hx, hin⟩
              have he : diffL (dedup g) ex.members = [] := by simpa using hextras
              rw [he] at this; cases this
          refine ⟨?_, ?_, ?_, hn, ?_⟩
          · intro k x
            constructor
            · exact Or.inl
            · rintro (h1 | ⟨g', hg', h2, hx⟩)
              · exact h1
              · simp only [List.mem_singleton] at hg'; subst hg'
                rw [hgk] at h2; injection h2 with h2
                exact ⟨ex, by rw [← h2]; exact hexin, hsub x hx⟩
          · intro k kd
            constructor
            · exact Or.inl
            · rintro (h1 | ⟨hnk, _, g', hg', h2⟩)
              · exact h1
              · exfalso
                simp only [List.mem_singleton] at hg'; subst hg'
                rw [hgk] at h2; injection h2 with h2
                apply hnk; rw [← h2]; exact List.mem_map.2 ⟨_, hexin, rfl⟩
          · intro x
            constructor
            · exact Or.inl
            · rintro (h1 | ⟨k, c, hc, _, hnx, g', hg', h2, hx⟩)
              · exact h1
              · exfalso
                simp only [List.mem_singleton] at hg'; subst hg'
                rw [hgk] at h2; injection h2 with h2
                subst h2
                rw [huniq c hc] at hnx
                exact hnx (hsub x hx)
          · intro k
            constructor
            · exact Or.inl
            · rintro (h1 | ⟨g', hg', h2⟩)
              · exact h1
              · simp only [List.mem_singleton] at hg'; subst hg'
                rw [hgk] at h2; injection h2 with h2
                rw [← h2]; exact List.mem_map.2 ⟨_, hexin, rfl⟩
        · rename_i hextras
          split at h
          · cases h
          · rename_i repl hrepl
            obtain ⟨hrk, hrm, _⟩ := mkCand_ok hrepl
            have hrmem : ∀ x, x ∈ repl.members ↔ x ∈ ex.members ∨ x ∈ g := by
              intro x
              rw [hrm, mem_sortProtos, List.mem_append, mem_dedup, mem_diffL, mem_dedup]
              constructor
              · rintro (h1 | ⟨h1, _⟩)
                · exact Or.inl h1
                · exact Or.inr h1
              · rintro (h1 | h1)
                · exact Or.inl h1
                · by_cases hin : x ∈ ex.members
                  · exact Or.inl hin
                  · exact Or.inr ⟨h1, hin⟩
            have hent : ∀ e, e ∈ (t.set (locKey cand.loc) repl).existing ↔
                e = (locKey cand.loc, repl) ∨ (e ∈ t.existing ∧ e.1 ≠ locKey cand.loc) := by
              intro e; simp only [Table.set]; exact mem_setGo_iff hn _ _ e
            have hkin : locKey cand.loc ∈ keys t.existing := List.mem_map.2 ⟨_, hexin, rfl⟩
            -- the part common to both kinds of merge
            have hM : ∀ k x, memOf (t.set (locKey cand.loc) repl) k x ↔
                memOf t k x ∨ ∃ g', g' ∈ [g] ∧ gkey wrap kind g' = some k ∧ x ∈ g' := by
              intro k x
              simp only [memOf, hent, List.mem_singleton]
              constructor
              · rintro ⟨c, (h1 | ⟨h1, hne⟩), hx⟩
                · injection h1 with e1 e2
                  subst e2
                  rcases (hrmem x).1 hx with h3 | h3
                  · exact Or.inl ⟨ex, by rw [e1]; exact hexin, h3⟩
                  · exact Or.inr ⟨g, rfl, by rw [hgk, e1], h3⟩
                · exact Or.inl ⟨c, h1, hx⟩
              · rintro (⟨c, h1, hx⟩ | ⟨g', rfl, h2, hx⟩)
                · by_cases hk : k = locKey cand.loc
                  · subst hk
                    rw [huniq c h1] at hx
                    exact ⟨repl, Or.inl rfl, (hrmem x).2 (Or.inl hx)⟩
                  · exact ⟨c, Or.inr ⟨h1, hk⟩, hx⟩
                · rw [hgk] at h2; injection h2 with h2
                  exact ⟨repl, Or.inl (by rw [h2]), (hrmem x).2 (Or.inr hx)⟩
            have hK : ∀ k kd, kindOf (t.set (locKey cand.loc) repl) k kd ↔
                kindOf t k kd ∨ (k ∉ keys t.existing ∧ kd = kind ∧ ∃ g', g' ∈ [g] ∧ gkey wrap kind g' = some k) := by
              intro k kd
              simp only [kindOf, hent, List.mem_singleton]
              constructor
              · rintro ⟨c, (h1 | ⟨h1, hne⟩), hx⟩
                · injection h1 with e1 e2
                  subst e2
                  exact Or.inl ⟨ex, by rw [e1]; exact hexin, by rw [← hx, hrk]⟩
                · exact Or.inl ⟨c, h1, hx⟩
              · rintro (⟨c, h1, hx⟩ | ⟨hnk, _, g', rfl, h2⟩)
                · by_cases hk : k = locKey cand.loc
                  · subst hk
                    rw [huniq c h1] at hx
                    exact ⟨repl, Or.inl rfl, by rw [hrk, hx]⟩
                  · exact ⟨c, Or.inr ⟨h1, hk⟩, hx⟩
                · exfalso
                  rw [hgk] at h2; injection h2 with h2
                  apply hnk; rw [← h2]; exact hkin
            have hKeys : ∀ k, k ∈ keys (t.set (locKey cand.loc) repl).existing ↔
                k ∈ keys t.existing ∨ ∃ g', g' ∈ [g] ∧ gkey wrap kind g' = some k := by
              intro k
              simp only [Table.set, mem_keys_setGo, List.mem_singleton]
              constructor
              · rintro (h1 | h1)
                · exact Or.inl h1
                · exact Or.inr ⟨g, rfl, by rw [hgk, h1]⟩
              · rintro (h1 | ⟨g', rfl, h2⟩)
                · exact Or.inl h1
                · rw [hgk] at h2; injection h2 with h2; exact Or.inr h2.symm
            injection h with h; subst h
            split
            · rename_i hkd
              have hkd' : ex.kind ≠ kind := by simpa using hkd
              refine ⟨hM, hK, ?_, keys_nodup_setGo hn _ _, hKeys⟩
              intro x
              simp only [mem_unionL, mem_diffL, mem_dedup, Table.set, List.mem_singleton]
              constructor
              · rintro (h1 | ⟨h1, h2⟩)
                · exact Or.inl h1
                · exact Or.inr ⟨_, ex, hexin, hkd', h2, g, rfl, hgk, h1⟩
              · rintro (h1 | ⟨k, c, hc, _, hnx, g', rfl, h2, hx⟩)
                · exact Or.inl h1
                · rw [hgk] at h2; injection h2 with h2
                  subst h2
                  rw [huniq c hc] at hnx
                  exact Or.inr ⟨hx, hnx⟩
            · rename_i hkd
              have hkd' : ex.kind = kind := by simpa using hkd
              refine ⟨hM, hK, ?_, keys_nodup_setGo hn _ _, hKeys⟩
              intro x
              simp only [Table.set, List.mem_singleton]
              constructor
              · exact Or.inl
              · rintro (h1 | ⟨k, c, hc, hck, _, g', rfl, h2, _⟩)
                · exact h1
                · exfalso
                  rw [hgk] at h2; injection h2 with h2
                  subst h2
                  rw [huniq c hc] at hck
                  exact hck hkd'


theorem kindOf_unique {t : Table} (hn : (keys t.existing).Nodup) {k : Int × Int} {a b : Kind}
    (ha : kindOf t k a) (hb : kindOf t k b) : a = b := by
  obtain ⟨c, hc, rfl⟩ := ha
  obtain ⟨d, hd, rfl⟩ := hb
  rw [entry_unique hn hc hd]

theorem passDesc_nil (wrap : Option Int) (kind : Kind) (t : Table) (hn : (keys t.existing).Nodup) :
    PassDesc wrap kind t t [] := by
  refine ⟨?_, ?_, ?_, hn, ?_⟩
  · intro k x; constructor
    · exact Or.inl
    · rintro (h | ⟨g, hg, _⟩)
      · exact h
      · cases hg
  · intro k kd; constructor
    · exact Or.inl
    · rintro (h | ⟨_, _, g, hg, _⟩)
      · exact h
      · cases hg
  · intro x; constructor
    · exact Or.inl
    · rintro (h | ⟨_, _, _, _, _, g, hg, _⟩)
      · exact h
      · cases hg
  · intro k; constructor
    · exact Or.inl
    · rintro (h | ⟨g, hg, _⟩)
      · exact h
      · cases hg

/-- first one group, then the others -/
theorem passDesc_cons {wrap : Option Int} {kind : Kind} {t t1 t' : Table} {g : List Proto} {gs : List (List Proto)}
    (hn : (keys t.existing).Nodup) (h1 : PassDesc wrap kind t t1 [g]) (h2 : PassDesc wrap kind t1 t' gs) :
    PassDesc wrap kind t t' (g :: gs) := by
  have hn1 := h1.keysNodup
  refine ⟨?_, ?_, ?_, h2.keysNodup, ?_⟩
  · intro k x
    rw [h2.members, h1.members]
    simp only [List.mem_cons, List.not_mem_nil, or_false]
    constructor
    · rintro ((h | ⟨g', rfl, hk, hx⟩) | ⟨g', hg', hk, hx⟩)
      · exact Or.inl h
      · exact Or.inr ⟨g', Or.inl rfl, hk, hx⟩
      · exact Or.inr ⟨g', Or.inr hg', hk, hx⟩
    · rintro (h | ⟨g', (rfl | hg'), hk, hx⟩)
      · exact Or.inl (Or.inl h)
      · exact Or.inl (Or.inr ⟨g', rfl, hk, hx⟩)
      · exact Or.inr ⟨g', hg', hk, hx⟩
  · intro k kd
    rw [h2.kinds, h1.kinds]
    simp only [List.mem_cons, List.not_mem_nil, or_false]
    constructor
    · rintro ((h | ⟨hnk, hkd, g', rfl, hk⟩) | ⟨hnk, hkd, g', hg', hk⟩)
      · exact Or.inl h
      · exact Or.inr ⟨hnk, hkd, g', Or.inl rfl, hk⟩
      · refine Or.inr ⟨?_, hkd, g', Or.inr hg', hk⟩
        intro hin; exact hnk ((h1.keysOf k).2 (Or.inl hin))
    · rintro (h | ⟨hnk, hkd, g', (rfl | hg'), hk⟩)
      · exact Or.inl (Or.inl h)
      · exact Or.inl (Or.inr ⟨hnk, hkd, g', rfl, hk⟩)
      · by_cases hin : k ∈ keys t1.existing
        · -- the key was created by `g` itself, with the kind of the pass
          rcases (h1.keysOf k).1 hin with h3 | ⟨g0, hg0, hk0⟩
          · exact absurd h3 hnk
          · simp only [List.mem_singleton] at hg0; subst hg0
            exact Or.inl (Or.inr ⟨hnk, hkd, g0, rfl, hk0⟩)
        · exact Or.inr ⟨hin, hkd, g', hg', hk⟩
  · intro x
    rw [h2.singles, h1.singles]
    simp only [List.mem_cons, List.not_mem_nil, or_false]
    constructor
    · rintro ((h | ⟨k, c, hc, hck, hnx, g', rfl, hk, hx⟩) | ⟨k, c1, hc1, hck, hnx, g', hg', hk, hx⟩)
      · exact Or.inl h
      · exact Or.inr ⟨k, c, hc, hck, hnx, g', Or.inl rfl, hk, hx⟩
      · -- the entry of `t1` has another kind than the pass, so it was in `t` already
        have hk1 : kindOf t1 k c1.kind := ⟨c1, hc1, rfl⟩
        rcases (h1.kinds k c1.kind).1 hk1 with ⟨c, hc, hkc⟩ | ⟨_, hkd, _⟩
        · refine Or.inr ⟨k, c, hc, by rw [hkc]; exact hck, ?_, g', Or.inr hg', hk, hx⟩
          intro hxc
          have : memOf t1 k x := (h1.members k x).2 (Or.inl ⟨c, hc, hxc⟩)
          obtain ⟨c2, hc2, hx2⟩ := this
          rw [entry_unique hn1 hc2 hc1] at hx2
          exact hnx hx2
        · exact absurd hkd hck
    · rintro (h | ⟨k, c, hc, hck, hnx, g', (rfl | hg'), hk, hx⟩)
      · exact Or.inl (Or.inl h)
      · exact Or.inl (Or.inr ⟨k, c, hc, hck, hnx, g', rfl, hk, hx⟩)
      · -- the entry of `t1` under the same key
        obtain ⟨c1, hc1, hkc1⟩ := (h1.kinds k c.kind).2 (Or.inl ⟨c, hc, rfl⟩)
        by_cases hx1 : x ∈ c1.members
        · -- then `x` came in with `g`
          rcases (h1.members k x).1 ⟨c1, hc1, hx1⟩ with ⟨c0, hc0, hx0⟩ | ⟨g0, hg0, hk0, hxg0⟩
          · rw [entry_unique hn hc0 hc] at hx0; exact absurd hx0 hnx
          · exact Or.inl (Or.inr ⟨k, c, hc, hck, hnx, g0, by simpa using hg0, hk0, hxg0⟩)
        · exact Or.inr ⟨k, c1, hc1, by rw [hkc1]; exact hck, hx1, g', hg', hk, hx⟩
  · intro k
    rw [h2.keysOf, h1.keysOf]
    simp only [List.mem_cons, List.not_mem_nil, or_false]
    constructor
    · rintro ((h | ⟨g', rfl, hk⟩) | ⟨g', hg', hk⟩)
      · exact Or.inl h
      · exact Or.inr ⟨g', Or.inl rfl, hk⟩
      · exact Or.inr ⟨g', Or.inr hg', hk⟩
    · rintro (h | ⟨g', (rfl | hg'), hk⟩)
      · exact Or.inl (Or.inl h)
      · exact Or.inl (Or.inr ⟨g', rfl, hk⟩)
      · exact Or.inr ⟨g', hg', hk⟩

/-- `build_candidates(groups, kind)` in one statement -/
theorem buildCandidates_desc {wrap : Option Int} {kind : Kind} {t t' : Table} {gs : List (List Proto)}
    (h : buildCandidates wrap kind t gs = .ok t') (hn : (keys t.existing).Nodup) : PassDesc wrap kind t t' gs := by
  induction gs generalizing t with
  | nil =>
    simp only [buildCandidates] at h
    injection h with h; subst h
    exact passDesc_nil wrap kind t hn
  | cons g gs ih =>
    simp only [buildCandidates] at h
    split at h
    · cases h
    · rename_i t1 h1
      have d1 := buildOne_desc h1 hn
      exact passDesc_cons hn d1 (ih h d1.keysNodup)

end ASV.CC
