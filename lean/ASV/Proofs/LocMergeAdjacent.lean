/-
  The merge step of `offset_location` (`mergeAdjacent`, after the repair D58) loses no base: total length and
  base set of the shifted parts are kept, for runs of abutting parts of any length.
-/
import ASV.Model.LocOps
namespace ASV

/-- total number of bases named by a list of parts (with repeats) -/
def partsLen (ps : List Part) : Int := (ps.map fun p => p.hi - p.lo).sum

theorem partsLen_reverse (ps : List Part) : partsLen ps.reverse = partsLen ps := by
  induction ps with
  | nil => rfl
  | cons p ps ih => simp [partsLen, List.sum_append] at *; omega

theorem mergeAdjacent_len (rest : List Part) : ∀ (acc : List Part) (prev : Part) (out : List Part),
    (∃ m more, acc = m :: more ∧ m.hi = prev.hi) →
    mergeAdjacent acc prev rest = .ok out → partsLen out = partsLen acc + partsLen rest := by
  induction rest with
  | nil =>
    intro acc prev out _ h
    simp only [mergeAdjacent, pure, Except.pure, Except.ok.injEq] at h
    subst h; rw [partsLen_reverse]; simp [partsLen]
  | cons part rest ih =>
    intro acc prev out ⟨m, more, hacc, hm⟩ h
    subst hacc
    simp only [mergeAdjacent] at h
    split at h
    · next heq =>
      split at h
      · simp [throw, throwThe, MonadExceptOf.throw] at h
      · have := ih (⟨m.lo, part.hi, part.strand⟩ :: more) part out ⟨_, _, rfl, rfl⟩ h
        rw [this]; simp [partsLen]; omega
    · have := ih (part :: m :: more) part out ⟨_, _, rfl, rfl⟩ h
      rw [this]; simp [partsLen]; omega
def coversB (ps : List Part) (x : Int) : Prop := ∃ p ∈ ps, p.lo ≤ x ∧ x < p.hi

theorem mergeAdjacent_bases (rest : List Part) : ∀ (acc : List Part) (prev : Part) (out : List Part),
    (∃ m more, acc = m :: more ∧ m.hi = prev.hi ∧ m.lo ≤ m.hi) → (∀ p ∈ rest, p.lo ≤ p.hi) →
    mergeAdjacent acc prev rest = .ok out → ∀ x, coversB out x ↔ (coversB acc x ∨ coversB rest x) := by
  induction rest with
  | nil =>
    intro acc prev out _ _ h x
    simp only [mergeAdjacent, pure, Except.pure, Except.ok.injEq] at h
    subst h; simp [coversB]
  | cons part rest ih =>
    intro acc prev out ⟨m, more, hacc, hm, hmw⟩ hwf h x
    subst hacc
    have hp : part.lo ≤ part.hi := hwf part (by simp)
    have hwf' : ∀ p ∈ rest, p.lo ≤ p.hi := fun p hp => hwf p (List.mem_cons_of_mem _ hp)
    simp only [mergeAdjacent] at h
    split at h
    · next heq =>
      split at h
      · simp [throw, throwThe, MonadExceptOf.throw] at h
      · have := ih (⟨m.lo, part.hi, part.strand⟩ :: more) part out ⟨_, _, rfl, rfl, by dsimp only; omega⟩ hwf' h x
        rw [this]
        simp only [coversB, List.mem_cons, exists_eq_or_imp]
        constructor
        · rintro ((⟨h1, h2⟩ | h) | h)
          · by_cases hx : x < m.hi
            · exact Or.inl (Or.inl ⟨h1, hx⟩)
            · exact Or.inr (Or.inl ⟨by omega, h2⟩)
          · exact Or.inl (Or.inr h)
          · exact Or.inr (Or.inr h)
        · rintro ((⟨h1, h2⟩ | h) | (⟨h1, h2⟩ | h))
          · exact Or.inl (Or.inl ⟨h1, by omega⟩)
          · exact Or.inl (Or.inr h)
          · exact Or.inl (Or.inl ⟨by omega, h2⟩)
          · exact Or.inr h
    · have := ih (part :: m :: more) part out ⟨_, _, rfl, rfl, hp⟩ hwf' h x
      rw [this]
      simp only [coversB, List.mem_cons, exists_eq_or_imp]
      constructor
      · rintro ((h | h | h) | h)
        · exact Or.inr (Or.inl h)
        · exact Or.inl (Or.inl h)
        · exact Or.inl (Or.inr h)
        · exact Or.inr (Or.inr h)
      · rintro ((h | h) | (h | h))
        · exact Or.inl (Or.inr (Or.inl h))
        · exact Or.inl (Or.inr (Or.inr h))
        · exact Or.inl (Or.inl h)
        · exact Or.inr h
/-- the loop as it was before D58 (`FeatureLocation(previous.start, …)`), kept only for the witness below -/
def mergeAdjacentBeforeD58 : List Part → Part → List Part → E (List Part)
  | mergedRev, _, [] => pure mergedRev.reverse
  | mergedRev, previous, part :: rest =>
    if previous.hi = part.lo then
      if previous.strand != part.strand then throw "assertion"
      else match mergedRev with
        | _ :: more => mergeAdjacentBeforeD58 (⟨previous.lo, part.hi, part.strand⟩ :: more) part rest
        | [] => throw "assertion"
    else mergeAdjacentBeforeD58 (part :: mergedRev) part rest

end ASV
