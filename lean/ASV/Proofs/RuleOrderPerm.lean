/-
  C07: stages of `find_protoclusters` under a re-ordering of their input list — `mapM` and the
  `filterE` of C03's model under `List.Perm`, and what follows for `apply_extenders`, the first loop of
  `find_protoclusters` and the superiors step.
-/
import ASV.Proofs.RuleOrder
import ASV.Proofs.ProtoRingFinal
set_option linter.unusedVariables false
namespace ASV.Proto
open ASV ASV.Rules

theorem mapM_cons_ok {α β : Type} (f : α → E β) (a : α) (l : List α) (out : List β) :
    (a :: l).mapM f = .ok out ↔ ∃ b bs, f a = .ok b ∧ l.mapM f = .ok bs ∧ out = b :: bs := by
  simp only [List.mapM_cons, bind, Except.bind, pure, Except.pure]
  cases hfa : f a with
  | error e => simp
  | ok b =>
    cases hl : l.mapM f with
    | error e => simp
    | ok bs =>
      simp only [Except.ok.injEq]
      constructor
      · intro h; exact ⟨b, bs, rfl, rfl, h.symm⟩
      · rintro ⟨b', bs', e1, e2, e3⟩; cases e1; cases e2; exact e3.symm

/-- running a possibly failing function over a rearranged list: it succeeds on the one iff on the other
    (shown here: success transfers), and the results are rearrangements of each other -/
theorem mapM_perm {α β : Type} (f : α → E β) {l l' : List α} (hp : l.Perm l') :
    ∀ out, l.mapM f = .ok out → ∃ out', l'.mapM f = .ok out' ∧ out.Perm out' := by
  induction hp with
  | nil => intro out h; exact ⟨out, h, List.Perm.refl _⟩
  | cons a _ ih =>
    intro out h
    obtain ⟨b, bs, h1, h2, rfl⟩ := (mapM_cons_ok f a _ out).1 h
    obtain ⟨bs', h3, hp'⟩ := ih bs h2
    exact ⟨b :: bs', (mapM_cons_ok f a _ _).2 ⟨b, bs', h1, h3, rfl⟩, hp'.cons b⟩
  | swap a c l =>
    intro out h
    obtain ⟨b, bs, h1, h2, rfl⟩ := (mapM_cons_ok f c _ out).1 h
    obtain ⟨d, ds, h3, h4, rfl⟩ := (mapM_cons_ok f a _ bs).1 h2
    exact ⟨d :: b :: ds, (mapM_cons_ok f a _ _).2 ⟨d, b :: ds, h3, (mapM_cons_ok f c _ _).2 ⟨b, ds, h1, h4, rfl⟩, rfl⟩,
      List.Perm.swap d b ds⟩
  | trans _ _ ih1 ih2 =>
    intro out h
    obtain ⟨o1, h1, p1⟩ := ih1 out h
    obtain ⟨o2, h2, p2⟩ := ih2 o1 h1
    exact ⟨o2, h2, p1.trans p2⟩

/-- `mapM` with pointwise equal functions on the members -/
theorem mapM_congr_mem {α β : Type} (f g : α → E β) : ∀ (l : List α), (∀ a ∈ l, f a = g a) → l.mapM f = l.mapM g := by
  intro l
  induction l with
  | nil => intro _; rfl
  | cons a l ih =>
    intro h
    simp only [List.mapM_cons, h a (by simp), ih (fun x hx => h x (by simp [hx]))]

/-! ### `apply_extenders` -/

/-- **`apply_extenders` on a rearranged list of protoclusters, with a re-ordered (or otherwise different)
    ruleset that names the same rule for each of them**: it succeeds again, the extended protoclusters are a
    rearrangement, and so are the recorded extender domains -/
theorem applyExtenders_perm (within : Lookup) (r : Rec) (rules rules' : List RuleM) (clusters clusters' : List PC)
    (hp : clusters.Perm clusters')
    (hrule : ∀ pc ∈ clusters, ∃ rule, findRule rules pc.rule = .ok rule ∧ findRule rules' pc.rule = .ok rule)
    (out : List PC) (doms : Doms) (h : applyExtenders within r rules clusters = .ok (out, doms)) :
    ∃ out' doms', applyExtenders within r rules' clusters' = .ok (out', doms') ∧ out.Perm out' ∧ doms.Perm doms' := by
  simp only [applyExtenders, bind, Except.bind] at h
  cases hm : clusters.mapM (extendCluster within r rules) with
  | error e => simp [hm] at h
  | ok res =>
    simp only [hm, pure, Except.pure, Except.ok.injEq, Prod.mk.injEq] at h
    obtain ⟨rfl, rfl⟩ := h
    have hcongr : clusters.mapM (extendCluster within r rules) = clusters.mapM (extendCluster within r rules') := by
      apply mapM_congr_mem
      intro pc hpc
      obtain ⟨rule, h1, h2⟩ := hrule pc hpc
      exact extendCluster_independent within r rules rules' pc rule h1 h2
    rw [hcongr] at hm
    obtain ⟨res', hm', hperm⟩ := mapM_perm (extendCluster within r rules') hp res hm
    refine ⟨res'.map (·.1), res'.flatMap (·.2), ?_, hperm.map _, hperm.flatMap_right _⟩
    simp only [applyExtenders, bind, Except.bind, hm', pure, Except.pure]

end ASV.Proto

namespace ASV.Proto
open ASV ASV.Rules

/-! ### the first loop of `find_protoclusters` -/

/-- one turn of the loop: `rule = rules_by_name[cluster_type]`, then the cores and neighbourhoods of that rule -/
def foundStep (r : Rec) (rules : List RuleM) (x : String × List Gene) : E (List PC) := do
  let rule ← findRule rules x.1
  clustersOfRule r rule x.2

/-- `cluster_type_hits.items()`: rule name and anchoring genes -/
def anchorEntry (res : RuleResults) (rule : RuleM) : String × List Gene := (rule.name, dedupIds (hitsFor res rule.name))

def hasAnchors (x : String × List Gene) : Bool := !x.2.isEmpty

/-- the protoclusters `find_protoclusters` forms rule by rule before anything is merged, extended or removed —
    the expression `detectStages` binds `found` to -/
def foundOf (r : Rec) (rules : List RuleM) (res : RuleResults) : E (List (List PC)) :=
  ((rules.map (anchorEntry res)).filter hasAnchors).mapM (foundStep r rules)

theorem isEmpty_congr {α : Type} {a b : List α} (h : ∀ g, g ∈ a ↔ g ∈ b) : a.isEmpty = b.isEmpty := by
  cases a with
  | nil =>
    cases b with
    | nil => rfl
    | cons y ys => exact absurd ((h y).2 (by simp)) (by simp)
  | cons x xs =>
    cases b with
    | nil => exact absurd ((h x).1 (by simp)) (by simp)
    | cons y ys => rfl

/-- the clusters of a rule from the anchoring genes recorded in `res` -/
def clustersFrom (r : Rec) (res : RuleResults) (rule : RuleM) : E (List PC) :=
  clustersOfRule r rule (dedupIds (hitsFor res rule.name))

def keptRule (res : RuleResults) (rule : RuleM) : Bool := !(dedupIds (hitsFor res rule.name)).isEmpty

/-- with rule names identifying rules, the loop is a `mapM` over the rules that have anchoring genes -/
theorem foundOf_eq (r : Rec) (rules : List RuleM) (res : RuleResults) (hd : NamesDistinct rules) :
    ∀ (sub : List RuleM), (∀ x ∈ sub, x ∈ rules) →
      ((sub.map (anchorEntry res)).filter hasAnchors).mapM (foundStep r rules) =
      (sub.filter (keptRule res)).mapM (clustersFrom r res) := by
  intro sub
  induction sub with
  | nil => intro _; rfl
  | cons a rest ih =>
    intro hsub
    have ih' := ih (fun x hx => hsub x (by simp [hx]))
    have hfa := findRule_of_distinct rules hd a (hsub a (by simp))
    have hstep : foundStep r rules (anchorEntry res a) = clustersFrom r res a := by
      simp only [foundStep, anchorEntry, clustersFrom, hfa, bind, Except.bind]
    have hk : hasAnchors (anchorEntry res a) = keptRule res a := rfl
    rw [List.map_cons, List.filter_cons, List.filter_cons, hk]
    cases keptRule res a with
    | true => simp only [if_true, List.mapM_cons, hstep, ih']
    | false => simpa using ih'

/-- **The first loop of `find_protoclusters` under a re-ordering of the ruleset.**  For a ruleset and any
    rearrangement of it (rule names identify rules; rule evaluation ran through for both): if the loop
    succeeds for the one it succeeds for the other, and the protoclusters formed — all rules together — are
    the same multiset. -/
theorem foundOf_perm (within : Lookup) (r : Rec) (rules rules' : List RuleM) (hp : rules.Perm rules')
    (hd : NamesDistinct rules) (res res' : RuleResults)
    (h : ruleResults within r rules = .ok res) (h' : ruleResults within r rules' = .ok res')
    (found : List (List PC)) (hf : foundOf r rules res = .ok found) :
    ∃ found', foundOf r rules' res' = .ok found' ∧ found.flatten.Perm found'.flatten := by
  have hd' : NamesDistinct rules' := hd.sub (fun x hx => hp.mem_iff.2 hx)
  have hmem : ∀ rule ∈ rules, ∀ g, g ∈ dedupIds (hitsFor res rule.name) ↔ g ∈ dedupIds (hitsFor res' rule.name) := by
    intro rule hr g
    rw [mem_dedupIds, mem_dedupIds, mem_hitsFor_iff within r rules res h hd rule hr g,
      mem_hitsFor_iff within r rules' res' h' hd' rule (hp.mem_iff.1 hr) g]
  simp only [foundOf] at hf ⊢
  rw [foundOf_eq r rules res hd rules (fun _ hx => hx)] at hf
  rw [foundOf_eq r rules' res' hd' rules' (fun _ hx => hx)]
  -- the same rules are kept and each gets the same protoclusters, whichever results are consulted
  have hfilter : rules'.filter (keptRule res') = rules'.filter (keptRule res) := by
    apply List.filter_congr
    intro rule hr
    simp only [keptRule]
    rw [isEmpty_congr (hmem rule (hp.mem_iff.2 hr))]
  have hmap : (rules'.filter (keptRule res)).mapM (clustersFrom r res') =
      (rules'.filter (keptRule res)).mapM (clustersFrom r res) := by
    apply mapM_congr_mem
    intro rule hr
    have hr' := (List.mem_filter.1 hr).1
    exact clustersOfRule_congr r rule _ _ (fun g => (hmem rule (hp.mem_iff.2 hr') g).symm)
  rw [hfilter, hmap]
  obtain ⟨found', h1, h2⟩ := mapM_perm (clustersFrom r res) (hp.filter (keptRule res)) found hf
  exact ⟨found', h1, h2.flatten⟩

/-- the stages of a successful detection run on a record that has genes with hits, with the rule results they
    start from (`detectStages_ok` of C03 plus where `res` comes from) -/
theorem detectStages_stages (within : Lookup) (r : Rec) (rules : List RuleM) (s : Stages)
    (hne : r.genes.isEmpty = false) (hres : (r.genes.filter (·.hasRes)).isEmpty = false)
    (h : detectStages within r rules = .ok s) :
    ∃ (res : RuleResults) (found0 : List (List PC)) (found ext0 : List PC) (d : Doms) (ext kept : List PC),
      ruleResults within r rules = .ok res ∧ foundOf r rules res = .ok found0 ∧
      mergeOverOrigin r rules found0.flatten = .ok found ∧
      applyExtenders within r rules found = .ok (ext0, d) ∧
      mergeOverOrigin r rules ext0 = .ok ext ∧
      removeRedundant within rules ext = .ok kept ∧
      s.final.map (·.pc) = kept := by
  unfold detectStages at h
  simp only [hne, hres, Bool.false_eq_true, if_false] at h
  obtain ⟨res, hr, h⟩ := bind_ok h
  obtain ⟨found0, hf0, h⟩ := bind_ok h
  obtain ⟨found, hf, h⟩ := bind_ok h
  obtain ⟨⟨ext0, d⟩, hext, h⟩ := bind_ok h
  obtain ⟨ext, hm, h⟩ := bind_ok h
  obtain ⟨kept, hk, h⟩ := bind_ok h
  simp only [pure, Except.pure, Except.ok.injEq] at h
  subst h
  exact ⟨res, found0, found, ext0, d, ext, kept, hr, hf0, hf, hext, hm, hk, by simp [List.map_map, Function.comp_def]⟩

end ASV.Proto
