/-
  C08 helper lemmas, part 6: from the invariant to the property's statements
  (children exact, one region per gene, definition genes, sections, name map, fresh observations).
-/
import ASV.Proofs.LookupRun
namespace ASV.Lookup
open ASV

/-- what the property assumes of a history: well-formed arguments (genes, collections, regions only at the
    top of a collection tree); one id names one object; children lie inside their parents -/
structure HistoryOK (ops : List Op) : Prop where
  opOK : ∀ op ∈ ops, OpOK op
  ids : ∀ a ∈ opsAreas ops, ∀ b ∈ opsAreas ops, ∀ d ∈ nodes a, ∀ e ∈ nodes b, d.id = e.id →
    d.loc = e.loc ∧ d.core = e.core ∧ d.product = e.product ∧ d.kind = e.kind
  inside : ∀ a ∈ opsAreas ops, KidsInside a

theorem mem_definition (r : Rec) (aid gid : Nat) : gid ∈ r.definition aid ↔ (aid, gid) ∈ r.defs := by
  simp only [Rec.definition, List.mem_map, List.mem_filter, beq_iff_eq]
  constructor
  · rintro ⟨x, ⟨hx, rfl⟩, rfl⟩; exact hx
  · intro h; exact ⟨(aid, gid), ⟨h, rfl⟩, rfl⟩

theorem mem_section (r : Rec) (aid gid : Nat) (s : Section) : gid ∈ r.section aid s ↔ ((aid, s), gid) ∈ r.sections := by
  simp only [Rec.section, List.mem_map, List.mem_filter, beq_iff_eq]
  constructor
  · rintro ⟨⟨k, v⟩, ⟨hx, e1⟩, e2⟩
    simp only at e1 e2; subst e1; subst e2; exact hx
  · intro h; exact ⟨((aid, s), gid), ⟨h, rfl⟩, rfl⟩

/-- a gene linked to `d` is contained in it, and `d` is a node of one of the collections -/
theorem LinkedS.contained {areas : List AreaT} {g : Gene} {d : AreaT} {s : Section} (h : LinkedS areas g d s) :
    containedBy g.loc d.loc = true ∧ ∃ a ∈ areas, d ∈ nodes a := by
  obtain ⟨a, ha, hc, hd⟩ := h
  obtain ⟨h1, h2⟩ := downNodes_sound g a.size none a (d, s) (Nat.le_refl _) hc hd
  exact ⟨h1, a, ha, h2⟩

theorem registered_eq_live {S : Prop} {L : Live} {ever : List AreaT} {r : Rec} (c : InvCore S L ever r) : registered r = L.areas := by
  simp only [registered, Live.areas, c.regionsEq, c.protosEq, c.candsEq, c.subsEq]

/-- every collection currently in the record, and every descendant of one, lists exactly the genes its
    location contains -/
theorem children_exact_of_inv {S : Prop} {len : Int} {ops : List Op} {r : Rec} (hinv : InvCore S (liveAfter ops) (opsAreas ops) r) (hok : HistoryOK ops)
    (a : AreaT) (ha : a ∈ (liveAfter ops).areas) (d : AreaT) (hd : d ∈ nodes a) (gid : Nat) :
    gid ∈ r.children d.id ↔ gid ∈ specChildren r.genes d := by
  have inv := hinv
  have har : a ∈ registered r := by rw [registered_eq_live inv]; exact ha
  have hae := inv.liveEver a har
  rw [mem_children]
  simp only [specChildren, List.mem_map, List.mem_filter]
  constructor
  · intro hm
    obtain ⟨g, hg, d', ⟨s, hl⟩, hx⟩ := inv.membersSound _ hm
    injection hx with h1 h2
    obtain ⟨hc, a', ha', hd'⟩ := hl.contained
    have e := (hok.ids a' ha' a hae d' hd' d hd h1.symm).1
    refine ⟨g, ⟨hg, ?_⟩, h2.symm⟩
    rw [← containedBy_eq_spec (gene_le (inv.ok g hg)), ← e]; exact hc
  · rintro ⟨g, ⟨hg, hc⟩, rfl⟩
    rw [← containedBy_eq_spec (gene_le (inv.ok g hg))] at hc
    obtain ⟨h1, s, h2⟩ := downNodes_complete g a.size none a d (Nat.le_refl _) (hok.inside a hae) hd hc
    exact inv.membersComplete g hg d ⟨s, a, har, h1, h2⟩

theorem children_exact {len : Int} {ops : List Op} {r : Rec} (hrun : run len ops = .ok r) (hok : HistoryOK ops)
    (a : AreaT) (ha : a ∈ (liveAfter ops).areas) (d : AreaT) (hd : d ∈ nodes a) (gid : Nat) :
    gid ∈ r.children d.id ↔ gid ∈ specChildren r.genes d := by
  have inv := (run_inv hok.opOK hrun).core
  have har : a ∈ registered r := by rw [registered_eq_live inv]; exact ha
  have hae := inv.liveEver a har
  rw [mem_children]
  simp only [specChildren, List.mem_map, List.mem_filter]
  constructor
  · intro hm
    obtain ⟨g, hg, d', ⟨s, hl⟩, hx⟩ := inv.membersSound _ hm
    injection hx with h1 h2
    obtain ⟨hc, a', ha', hd'⟩ := hl.contained
    have e := (hok.ids a' ha' a hae d' hd' d hd h1.symm).1
    refine ⟨g, ⟨hg, ?_⟩, h2.symm⟩
    rw [← containedBy_eq_spec (gene_le (inv.ok g hg)), ← e]; exact hc
  · rintro ⟨g, ⟨hg, hc⟩, rfl⟩
    rw [← containedBy_eq_spec (gene_le (inv.ok g hg))] at hc
    obtain ⟨h1, s, h2⟩ := downNodes_complete g a.size none a d (Nat.le_refl _) (hok.inside a hae) hd hc
    exact inv.membersComplete g hg d ⟨s, a, har, h1, h2⟩

/-- a protocluster's defining genes: inside it, inside its core, with a core annotation for its product -/
theorem definition_exact {len : Int} {ops : List Op} {r : Rec} (hrun : run len ops = .ok r) (hok : HistoryOK ops)
    (a : AreaT) (ha : a ∈ (liveAfter ops).areas) (d : AreaT) (hd : d ∈ nodes a) (hk : d.kind = .proto) (gid : Nat) :
    gid ∈ r.definition d.id ↔ gid ∈ specDefinition r.genes d := by
  have inv := (run_inv hok.opOK hrun).core
  have har : a ∈ registered r := by rw [registered_eq_live inv]; exact ha
  have hae := inv.liveEver a har
  rw [mem_definition]
  simp only [specDefinition, List.mem_map, List.mem_filter, Bool.and_eq_true]
  constructor
  · intro hm
    obtain ⟨g, hg, d', ⟨s, hl⟩, hdef, hx⟩ := inv.defsSound trivial _ hm
    injection hx with h1 h2
    obtain ⟨hc, a', ha', hd'⟩ := hl.contained
    obtain ⟨e1, e2, e3, _⟩ := hok.ids a' ha' a hae d' hd' d hd h1.symm
    simp only [defines, Bool.and_eq_true, beq_iff_eq] at hdef
    refine ⟨g, ⟨hg, ⟨?_, ?_⟩, ?_⟩, h2.symm⟩
    · rw [← containedBy_eq_spec (gene_le (inv.ok g hg)), ← e1]; exact hc
    · rw [← containedBy_eq_spec (gene_le (inv.ok g hg)), ← e2]; exact hdef.1.2
    · rw [← e3]; exact hdef.2
  · rintro ⟨g, ⟨hg, ⟨hc, hcore⟩, hprod⟩, rfl⟩
    rw [← containedBy_eq_spec (gene_le (inv.ok g hg))] at hc hcore
    obtain ⟨h1, s, h2⟩ := downNodes_complete g a.size none a d (Nat.le_refl _) (hok.inside a hae) hd hc
    refine inv.defsComplete trivial g hg d ⟨s, a, har, h1, h2⟩ ?_
    have hp : d.product ∈ g.cores := by simpa using hprod
    simp [defines, hk, hcore, hp]

/-- each gene points to the region of the record containing it, or to none -/
theorem region_of_gene {len : Int} {ops : List Op} {r : Rec} (hrun : run len ops = .ok r) (hok : ∀ op ∈ ops, OpOK op)
    {g : Gene} (hg : g ∈ r.genes) :
    (∀ a ∈ r.regions, containedBy g.loc a.loc = true → r.regionOfGene g.id = some a.id) ∧
    ((∀ a ∈ r.regions, containedBy g.loc a.loc = false) → r.regionOfGene g.id = none) :=
  (run_inv hok hrun).core.regionPtr g hg

/-! ### sections -/

theorem ownSection_eq_spec (a : AreaT) (g : Gene) (hg : LocOK g.loc) : ownSection a g none = specSection a.loc g.loc := by
  have hle := gene_le hg
  simp only [ownSection, chooseSection, specSection]
  by_cases hx : crosses g.loc = true
  · simp [hx]
  · have hx' : crosses g.loc = false := by simpa using hx
    simp only [hx', Bool.or_false, Bool.false_eq_true, if_false]
    rcases hp : a.loc.parts with _ | ⟨p0, _ | ⟨p1, rest⟩⟩
    · simp
    · simp
    · simp only [List.length_cons]
      have : decide (rest.length + 1 + 1 > 1) = true := by simp
      simp only [this, if_true, Bool.true_and, containedBy_eq_spec hle]
      cases specContained g.loc (.simple p1) <;> simp

theorem size_node {a d : AreaT} (hd : d ∈ nodes a) : d.size ≤ a.size := by
  have : ∀ n (a d : AreaT), a.size ≤ n → d ∈ nodes a → d.size ≤ a.size := by
    intro n
    induction n with
    | zero => intro a d hn _; cases a; simp [AreaT.size] at hn
    | succ n ih =>
      intro a d hn hd
      rcases mem_nodes.1 hd with rfl | ⟨k, hk, hdk⟩
      · exact Nat.le_refl _
      · have := size_kid hk
        have := ih k d (by omega) hdk
        omega
  exact this a.size a d (Nat.le_refl _) hd

/-- the root of a tree is reached only as the root -/
theorem down_root_section {g : Gene} {a : AreaT} {s : Section} (h : (a, s) ∈ downNodes g none a) : s = ownSection a g none := by
  rcases mem_downNodes.1 h with e | ⟨k, hk, hc, hd⟩
  · injection e
  · exfalso
    obtain ⟨_, hn⟩ := downNodes_sound g k.size _ k (a, s) (Nat.le_refl _) hc hd
    have h1 : a.size ≤ k.size := size_node hn
    have h2 := size_kid hk
    omega

/-- a region's three sections: the genes it contains, split by the rule of `specSection` -/
theorem region_sections_exact_of_inv {S : Prop} {len : Int} {ops : List Op} {r : Rec} (hinv : InvCore S (liveAfter ops) (opsAreas ops) r) (hok : HistoryOK ops)
    (a : AreaT) (ha : a ∈ r.regions) (s : Section) (gid : Nat) :
    gid ∈ r.section a.id s ↔
      ∃ g ∈ r.genes, g.id = gid ∧ specContained g.loc a.loc = true ∧ specSection a.loc g.loc = s := by
  have inv := hinv
  have har := regions_sub_registered r a ha
  have hae := inv.liveEver a har
  have hka := inv.kindsR a ha
  rw [mem_section]
  constructor
  · intro hm
    obtain ⟨g, hg, d, s', hl, hx⟩ := inv.sectionsSound _ hm
    injection hx with h1 h2
    injection h1 with h1 h3
    obtain ⟨a', ha', hc, hd⟩ := hl
    obtain ⟨_, hn⟩ := downNodes_sound g a'.size none a' (d, s') (Nat.le_refl _) hc hd
    obtain ⟨e1, _, _, e4⟩ := hok.ids a' ha' a hae d hn a (nodes_self a) h1.symm
    have hroot := (inv.areasOK a' ha').2 d hn (by rw [e4]; exact hka)
    subst hroot
    have hs := down_root_section hd
    refine ⟨g, hg, h2.symm, ?_, ?_⟩
    · rw [← containedBy_eq_spec (gene_le (inv.ok g hg)), ← e1]; exact hc
    · rw [h3, hs, ownSection_eq_spec d g (inv.ok g hg), e1]
  · rintro ⟨g, hg, rfl, hc, hs⟩
    rw [← containedBy_eq_spec (gene_le (inv.ok g hg))] at hc
    have := inv.sectionsComplete g hg a (ownSection a g none) ⟨a, har, hc, downNodes_self g none a⟩
    rw [ownSection_eq_spec a g (inv.ok g hg), hs] at this
    exact this

theorem region_sections_exact {len : Int} {ops : List Op} {r : Rec} (hrun : run len ops = .ok r) (hok : HistoryOK ops)
    (a : AreaT) (ha : a ∈ r.regions) (s : Section) (gid : Nat) :
    gid ∈ r.section a.id s ↔
      ∃ g ∈ r.genes, g.id = gid ∧ specContained g.loc a.loc = true ∧ specSection a.loc g.loc = s := by
  have inv := (run_inv hok.opOK hrun).core
  have har := regions_sub_registered r a ha
  have hae := inv.liveEver a har
  have hka := inv.kindsR a ha
  rw [mem_section]
  constructor
  · intro hm
    obtain ⟨g, hg, d, s', hl, hx⟩ := inv.sectionsSound _ hm
    injection hx with h1 h2
    injection h1 with h1 h3
    obtain ⟨a', ha', hc, hd⟩ := hl
    obtain ⟨_, hn⟩ := downNodes_sound g a'.size none a' (d, s') (Nat.le_refl _) hc hd
    obtain ⟨e1, _, _, e4⟩ := hok.ids a' ha' a hae d hn a (nodes_self a) h1.symm
    have hroot := (inv.areasOK a' ha').2 d hn (by rw [e4]; exact hka)
    subst hroot
    have hs := down_root_section hd
    refine ⟨g, hg, h2.symm, ?_, ?_⟩
    · rw [← containedBy_eq_spec (gene_le (inv.ok g hg)), ← e1]; exact hc
    · rw [h3, hs, ownSection_eq_spec d g (inv.ok g hg), e1]
  · rintro ⟨g, hg, rfl, hc, hs⟩
    rw [← containedBy_eq_spec (gene_le (inv.ok g hg))] at hc
    have := inv.sectionsComplete g hg a (ownSection a g none) ⟨a, har, hc, downNodes_self g none a⟩
    rw [ownSection_eq_spec a g (inv.ok g hg), hs] at this
    exact this

/-- a section handed down (or none yet) that is `cross` exactly for genes crossing the origin -/
def GivenOK (g : Gene) (given : Option Section) : Prop :=
  ∀ s0, given = some s0 → (s0 = .cross ↔ crosses g.loc = true)

theorem chooseSection_none_cases (loc : Loc) (g : Gene) :
    (crosses g.loc = true → chooseSection loc g none = some .cross) ∧
    (crosses g.loc = false → chooseSection loc g none = none ∨ chooseSection loc g none = some .post
      ∨ chooseSection loc g none = some .pre) := by
  constructor
  · intro hx; simp [chooseSection, hx]
  · intro hx
    simp only [chooseSection, hx, Bool.or_false, Bool.false_eq_true, if_false]
    by_cases h1 : decide (loc.parts.length > 1) = true
    · simp only [h1, if_true, Bool.true_and]
      generalize (match loc.parts with | _ :: p1 :: _ => containedBy g.loc (.simple p1) | _ => false) = b
      cases b <;> simp
    · simp [h1]

theorem chooseSection_ok (loc : Loc) (g : Gene) (given : Option Section) (h : GivenOK g given) :
    GivenOK g (chooseSection loc g given) ∧ ((chooseSection loc g given).getD .post = .cross ↔ crosses g.loc = true) := by
  cases given with
  | some s0 => simp only [chooseSection, Option.getD_some]; exact ⟨h, h s0 rfl⟩
  | none =>
    obtain ⟨c1, c2⟩ := chooseSection_none_cases loc g
    cases hx : crosses g.loc
    · rcases c2 hx with e | e | e <;> rw [e] <;> refine ⟨fun s0 e' => ?_, by simp⟩
      · cases e'
      · injection e' with e'; subst e'; simp [hx]
      · injection e' with e'; subst e'; simp [hx]
    · rw [c1 hx]
      exact ⟨fun s0 e' => by injection e' with e'; subst e'; simp [hx], by simp⟩

/-- wherever `add_cds` takes a gene, it is filed under `cross` exactly when it crosses the origin -/
theorem downNodes_cross (g : Gene) : ∀ (n : Nat) (given : Option Section) (a : AreaT) (d : AreaT × Section), a.size ≤ n →
    GivenOK g given → d ∈ downNodes g given a → (d.2 = .cross ↔ crosses g.loc = true)
  | 0, _, a, _, hn, _, _ => by cases a; simp [AreaT.size] at hn
  | n + 1, given, a, d, hn, hg, hd => by
    obtain ⟨h1, h2⟩ := chooseSection_ok a.loc g given hg
    rcases mem_downNodes.1 hd with rfl | ⟨k, hk, _, hdk⟩
    · exact h2
    · have := size_kid hk
      exact downNodes_cross g n _ k d (by omega) h1 hdk

/-- whatever `add_cds` reaches is the collection itself or a child of one of its nodes -/
theorem down_root_or_kid (g : Gene) : ∀ (n : Nat) (given : Option Section) (b : AreaT) (d : AreaT × Section), b.size ≤ n →
    d ∈ downNodes g given b → d.1 = b ∨ ∃ m ∈ nodes b, d.1 ∈ m.kids
  | 0, _, b, _, hn, _ => by cases b; simp [AreaT.size] at hn
  | n + 1, given, b, d, hn, hd => by
    rcases mem_downNodes.1 hd with rfl | ⟨k, hk, _, hdk⟩
    · exact Or.inl rfl
    · right
      have := size_kid hk
      rcases down_root_or_kid g n _ k d (by omega) hdk with e | ⟨m, hm, hkm⟩
      · exact ⟨b, nodes_self b, by rw [e]; exact hk⟩
      · exact ⟨m, nodes_kid hk m hm, hkm⟩

/-- every gene a collection lists sits in at least one of its sections, and the sections hold nothing else -/
theorem sections_cover {len : Int} {ops : List Op} {r : Rec} (hrun : run len ops = .ok r) (hok : ∀ op ∈ ops, OpOK op)
    (aid gid : Nat) : gid ∈ r.children aid ↔ ∃ s, gid ∈ r.section aid s := by
  have inv := (run_inv hok hrun).core
  rw [mem_children, inv.cover]
  simp only [mem_section]

/-! ### the name map -/

theorem name_lookup {len : Int} {ops : List Op} {r : Rec} (hrun : run len ops = .ok r) (hok : ∀ op ∈ ops, OpOK op)
    (gid : Nat) (g : Gene) :
    r.byName.find? (fun x => x.1 == gid) = some (gid, g) ↔ (g ∈ r.genes ∧ g.id = gid) := by
  have inv := (run_inv hok hrun).core
  constructor
  · intro hf
    have hm := List.mem_of_find?_eq_some hf
    obtain ⟨g', hg', e⟩ := (inv.byName _).1 hm
    injection e with e1 e2
    subst e2; exact ⟨hg', e1.symm⟩
  · rintro ⟨hg, rfl⟩
    have hm : (g.id, g) ∈ r.byName := (inv.byName _).2 ⟨g, hg, rfl⟩
    cases hf : r.byName.find? (fun x => x.1 == g.id) with
    | none =>
      rw [List.find?_eq_none] at hf
      exact absurd (by simp) (hf _ hm)
    | some x =>
      have hx1 : x.1 = g.id := by simpa using List.find?_some hf
      obtain ⟨g', hg', e⟩ := (inv.byName _).1 (List.mem_of_find?_eq_some hf)
      subst e
      have := gene_of_id inv.ids hg hg' hx1
      subst this; rfl

end ASV.Lookup
