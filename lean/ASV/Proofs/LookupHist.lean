/-
  C08 helper lemmas, part 6: from the invariant to the property's statements
  (children exact, one region per gene, definition genes, build-order independence).
-/
import ASV.Proofs.LookupInv
namespace ASV.Lookup
open ASV

/-! ### the collections reached by `add_cds`, in terms of the tree -/

theorem downNodes_self (g : Gene) (a : AreaT) : a ∈ downNodes g a := by
  cases a; simp [downNodes]

theorem nodes_self (a : AreaT) : a ∈ nodes a := by
  cases a; simp [nodes]

theorem nodes_kid {a k : AreaT} (hk : k ∈ a.kids) : ∀ d ∈ nodes k, d ∈ nodes a := by
  cases a with
  | mk id kind loc core product kids =>
    simp only [AreaT.kids] at hk
    intro d hd
    simp only [nodes, List.mem_cons]
    right
    induction kids with
    | nil => simp at hk
    | cons k' ks ih =>
      simp only [nodes.nodesL, List.mem_append]
      rcases List.mem_cons.1 hk with rfl | hk'
      · exact Or.inl hd
      · exact Or.inr (ih hk')

theorem mem_nodesL {ks : List AreaT} {d : AreaT} : d ∈ nodes.nodesL ks ↔ ∃ k ∈ ks, d ∈ nodes k := by
  induction ks with
  | nil => simp [nodes.nodesL]
  | cons k ks ih => simp [nodes.nodesL, ih]

theorem mem_nodes {a d : AreaT} : d ∈ nodes a ↔ d = a ∨ ∃ k ∈ a.kids, d ∈ nodes k := by
  cases a with
  | mk id kind loc core product kids => simp [nodes, mem_nodesL, AreaT.kids]

theorem mem_downKids {g : Gene} {ks : List AreaT} {d : AreaT} :
    d ∈ downKids g ks ↔ ∃ k ∈ ks, containedBy g.loc k.loc = true ∧ d ∈ downNodes g k := by
  induction ks with
  | nil => simp [downKids]
  | cons k ks ih =>
    simp only [downKids, List.mem_append, ih, List.mem_cons, exists_eq_or_imp]
    by_cases hc : containedBy g.loc k.loc = true
    · simp [hc]
    · simp [hc]

theorem mem_downNodes {g : Gene} {a d : AreaT} :
    d ∈ downNodes g a ↔ d = a ∨ ∃ k ∈ a.kids, containedBy g.loc k.loc = true ∧ d ∈ downNodes g k := by
  cases a with
  | mk id kind loc core product kids => simp [downNodes, mem_downKids, AreaT.kids]

/-- size of a tree, for inductions over it -/
def AreaT.size : AreaT → Nat
  | .mk _ _ _ _ _ kids => 1 + sizeL kids
where sizeL : List AreaT → Nat
  | [] => 0
  | k :: ks => k.size + sizeL ks

theorem size_kid {a k : AreaT} (hk : k ∈ a.kids) : k.size < a.size := by
  cases a with
  | mk id kind loc core product kids =>
    simp only [AreaT.kids] at hk
    simp only [AreaT.size]
    induction kids with
    | nil => simp at hk
    | cons k' ks ih =>
      simp only [AreaT.size.sizeL]
      rcases List.mem_cons.1 hk with rfl | hk'
      · omega
      · have := ih hk'; omega

/-- everything `add_cds` reaches contains the gene, and is a node of the collection's tree -/
theorem downNodes_sound (g : Gene) : ∀ (n : Nat) (a d : AreaT), a.size ≤ n → containedBy g.loc a.loc = true →
    d ∈ downNodes g a → containedBy g.loc d.loc = true ∧ d ∈ nodes a
  | 0, a, _, hn, _, _ => by cases a; simp [AreaT.size] at hn
  | n + 1, a, d, hn, hc, hd => by
    rcases mem_downNodes.1 hd with rfl | ⟨k, hk, hck, hdk⟩
    · exact ⟨hc, nodes_self _⟩
    · have := size_kid hk
      obtain ⟨h1, h2⟩ := downNodes_sound g n k d (by omega) hck hdk
      exact ⟨h1, nodes_kid hk d h2⟩

/-! ### containment is transitive -/

theorem containedBy_trans {g k a : Loc} (h1 : containedBy g k = true) (h2 : containedBy k a = true) :
    containedBy g a = true := by
  simp only [containedBy, locationContainsOther, List.all_eq_true, List.any_eq_true, partContains,
    Bool.and_eq_true, decide_eq_true_eq] at *
  intro gp hgp
  obtain ⟨kp, hkp, hk⟩ := h1 gp hgp
  obtain ⟨ap, hap, ha⟩ := h2 kp hkp
  exact ⟨ap, hap, by omega⟩

/-- every child collection lies inside its parent (what the `parent` setter asserts) -/
def KidsInside (a : AreaT) : Prop := ∀ n ∈ nodes a, ∀ k ∈ n.kids, containedBy k.loc n.loc = true

theorem KidsInside.kid {a k : AreaT} (h : KidsInside a) (hk : k ∈ a.kids) : KidsInside k :=
  fun n hn k' hk' => h n (nodes_kid hk n hn) k' hk'

/-- … then a gene inside a node is inside all its ancestors and is passed down to it -/
theorem downNodes_complete (g : Gene) : ∀ (n : Nat) (a d : AreaT), a.size ≤ n → KidsInside a → d ∈ nodes a →
    containedBy g.loc d.loc = true → containedBy g.loc a.loc = true ∧ d ∈ downNodes g a
  | 0, a, _, hn, _, _, _ => by cases a; simp [AreaT.size] at hn
  | n + 1, a, d, hn, hin, hd, hc => by
    rcases mem_nodes.1 hd with rfl | ⟨k, hk, hdk⟩
    · exact ⟨hc, downNodes_self g _⟩
    · have := size_kid hk
      obtain ⟨h1, h2⟩ := downNodes_complete g n k d (by omega) (hin.kid hk) hdk hc
      have hka : containedBy k.loc a.loc = true := hin a (nodes_self a) k hk
      exact ⟨containedBy_trans h1 hka, mem_downNodes.2 (Or.inr ⟨k, hk, h1, h2⟩)⟩

/-! ### histories -/

/-- what the property assumes of a history: well-formed gene and area locations; one id names one object;
    children lie inside their parents; regions are never somebody's child -/
structure HistoryOK (ops : List Op) : Prop where
  opOK : ∀ op ∈ ops, OpOK op
  ids : ∀ a b, Op.area a ∈ ops → Op.area b ∈ ops → ∀ d ∈ nodes a, ∀ e ∈ nodes b, d.id = e.id →
    d.loc = e.loc ∧ d.core = e.core ∧ d.product = e.product ∧ d.kind = e.kind
  inside : ∀ a, Op.area a ∈ ops → KidsInside a
  regionsTop : ∀ a, Op.area a ∈ ops → ∀ d ∈ nodes a, d.kind = .region → d = a

theorem mem_children (r : Rec) (aid gid : Nat) : gid ∈ r.children aid ↔ (aid, gid) ∈ r.members := by
  simp only [Rec.children, List.mem_map, List.mem_filter, beq_iff_eq]
  constructor
  · rintro ⟨x, ⟨hx, rfl⟩, rfl⟩; exact hx
  · intro h; exact ⟨(aid, gid), ⟨h, rfl⟩, rfl⟩

theorem mem_definition (r : Rec) (aid gid : Nat) : gid ∈ r.definition aid ↔ (aid, gid) ∈ r.defs := by
  simp only [Rec.definition, List.mem_map, List.mem_filter, beq_iff_eq]
  constructor
  · rintro ⟨x, ⟨hx, rfl⟩, rfl⟩; exact hx
  · intro h; exact ⟨(aid, gid), ⟨h, rfl⟩, rfl⟩

theorem gene_le {g : Gene} (h : LocOK g.loc) : ∀ p ∈ g.loc.parts, p.lo ≤ p.hi :=
  fun p hp => by have := (h.2.1 p hp).2; omega

/-- a gene linked to `d'` is contained in it -/
theorem Linked.contained {areas : List AreaT} {g : Gene} {d : AreaT} (h : Linked areas g d) :
    containedBy g.loc d.loc = true ∧ ∃ a ∈ areas, d ∈ nodes a := by
  obtain ⟨a, ha, hc, hd⟩ := h
  obtain ⟨h1, h2⟩ := downNodes_sound g a.size a d (Nat.le_refl _) hc hd
  exact ⟨h1, a, ha, h2⟩

/-- every area of the history (added directly, or a child of one that was) lists exactly the genes its
    location contains -/
theorem children_exact {len : Int} {ops : List Op} {r : Rec} (hrun : run len ops = .ok r) (hok : HistoryOK ops)
    (a : AreaT) (ha : Op.area a ∈ ops) (d : AreaT) (hd : d ∈ nodes a) (gid : Nat) :
    gid ∈ r.children d.id ↔ gid ∈ specChildren r.genes d := by
  have inv := run_inv hok.opOK hrun
  rw [mem_children, inv.members]
  simp only [specChildren, List.mem_map, List.mem_filter]
  constructor
  · rintro ⟨g, hg, d', hl, hx⟩
    injection hx with h1 h2
    obtain ⟨hc, a', ha', hd'⟩ := hl.contained
    have e := (hok.ids a' a ((inv.areasSeen a').1 ha') ha d' hd' d hd h1.symm).1
    refine ⟨g, ⟨hg, ?_⟩, h2.symm⟩
    rw [← containedBy_eq_spec (gene_le (inv.ok g hg)), ← e]; exact hc
  · rintro ⟨g, ⟨hg, hc⟩, rfl⟩
    rw [← containedBy_eq_spec (gene_le (inv.ok g hg))] at hc
    obtain ⟨h1, h2⟩ := downNodes_complete g a.size a d (Nat.le_refl _) (hok.inside a ha) hd hc
    exact ⟨g, hg, d, ⟨a, (inv.areasSeen a).2 ha, h1, h2⟩, rfl⟩

/-- a protocluster's defining genes: inside it, inside its core, with a core annotation for its product -/
theorem definition_exact {len : Int} {ops : List Op} {r : Rec} (hrun : run len ops = .ok r) (hok : HistoryOK ops)
    (a : AreaT) (ha : Op.area a ∈ ops) (d : AreaT) (hd : d ∈ nodes a) (hk : d.kind = .proto) (gid : Nat) :
    gid ∈ r.definition d.id ↔ gid ∈ specDefinition r.genes d := by
  have inv := run_inv hok.opOK hrun
  rw [mem_definition, inv.defs]
  simp only [specDefinition, List.mem_map, List.mem_filter, Bool.and_eq_true]
  constructor
  · rintro ⟨g, hg, d', hl, hdef, hx⟩
    injection hx with h1 h2
    obtain ⟨hc, a', ha', hd'⟩ := hl.contained
    obtain ⟨e1, e2, e3, _⟩ := hok.ids a' a ((inv.areasSeen a').1 ha') ha d' hd' d hd h1.symm
    simp only [defines, Bool.and_eq_true, beq_iff_eq] at hdef
    refine ⟨g, ⟨hg, ⟨?_, ?_⟩, ?_⟩, h2.symm⟩
    · rw [← containedBy_eq_spec (gene_le (inv.ok g hg)), ← e1]; exact hc
    · rw [← containedBy_eq_spec (gene_le (inv.ok g hg)), ← e2]; exact hdef.1.2
    · rw [← e3]; exact hdef.2
  · rintro ⟨g, ⟨hg, ⟨hc, hcore⟩, hprod⟩, rfl⟩
    rw [← containedBy_eq_spec (gene_le (inv.ok g hg))] at hc hcore
    obtain ⟨h1, h2⟩ := downNodes_complete g a.size a d (Nat.le_refl _) (hok.inside a ha) hd hc
    refine ⟨g, hg, d, ⟨a, (inv.areasSeen a).2 ha, h1, h2⟩, ?_, rfl⟩
    have hp : d.product ∈ g.cores := by simpa using hprod
    simp [defines, hk, hcore, hp]

/-! ### one region per gene -/

theorem pairwise_sym_mem {α} {R : α → α → Prop} (hsym : ∀ a b, R a b → R b a) :
    ∀ {l : List α}, l.Pairwise R → ∀ {a b : α}, a ∈ l → b ∈ l → a = b ∨ R a b
  | [], _, _, _, ha, _ => by simp at ha
  | x :: l, h, a, b, ha, hb => by
    obtain ⟨h1, h2⟩ := List.pairwise_cons.1 h
    rcases List.mem_cons.1 ha with rfl | ha'
    · rcases List.mem_cons.1 hb with rfl | hb'
      · exact Or.inl rfl
      · exact Or.inr (h1 b hb')
    · rcases List.mem_cons.1 hb with rfl | hb'
      · exact Or.inr (hsym _ _ (h1 a ha'))
      · exact pairwise_sym_mem hsym h2 ha' hb'

/-- two locations that both contain a (non-empty) gene overlap -/
theorem overlap_of_both_contain {g a b : Loc} (hg : LocOK g) (ha : QueryOK a) (hb : QueryOK b)
    (h1 : containedBy g a = true) (h2 : containedBy g b = true) : overlapsWith b a = true := by
  obtain ⟨gp, hgp⟩ := List.exists_mem_of_ne_nil _ hg.1
  have hne := (hg.2.1 gp hgp).2
  simp only [containedBy, locationContainsOther, List.all_eq_true, List.any_eq_true, partContains,
    Bool.and_eq_true, decide_eq_true_eq] at h1 h2
  obtain ⟨ap, hap, h1⟩ := h1 gp hgp
  obtain ⟨bp, hbp, h2⟩ := h2 gp hgp
  rw [overlapsWith, locationsOverlap_iff b a (fun p hp => (hb.2 p hp).2) (fun p hp => (ha.2 p hp).2)]
  refine ⟨gp.lo, ?_, ?_⟩
  · simp only [Loc.mem, List.any_eq_true, Part.mem_iff]; exact ⟨bp, hbp, by omega, by omega⟩
  · simp only [Loc.mem, List.any_eq_true, Part.mem_iff]; exact ⟨ap, hap, by omega, by omega⟩

theorem regions_sub_registered (r : Rec) : ∀ a ∈ r.regions, a ∈ registered r := by
  intro a ha; simp [registered, ha]

/-- at most one region of the record contains a given gene -/
theorem region_containing_unique {seen : List Op} {r : Rec} (inv : Inv seen r) {g : Gene} (hg : g ∈ r.genes)
    {a b : AreaT} (ha : a ∈ r.regions) (hb : b ∈ r.regions)
    (hca : containedBy g.loc a.loc = true) (hcb : containedBy g.loc b.loc = true) : a = b := by
  have hsym : ∀ x y : AreaT, overlapsWith y.loc x.loc = false → overlapsWith x.loc y.loc = false := by
    intro x y h; simp only [overlapsWith] at *; rw [locationsOverlap_comm]; exact h
  rcases pairwise_sym_mem hsym inv.disjoint ha hb with h | h
  · exact h
  · have := overlap_of_both_contain (inv.ok g hg) (inv.areasOK a (regions_sub_registered r a ha))
      (inv.areasOK b (regions_sub_registered r b hb)) hca hcb
    rw [h] at this; cases this

theorem gene_of_id {seen : List Op} {r : Rec} (inv : Inv seen r) {g g' : Gene} (hg : g ∈ r.genes) (hg' : g' ∈ r.genes)
    (hid : g'.id = g.id) : g' = g := by
  have hsym : ∀ x y : Gene, x.id ≠ y.id → y.id ≠ x.id := fun _ _ h => h.symm
  rcases pairwise_sym_mem hsym inv.ids hg' hg with h | h
  · exact h
  · exact absurd hid h

/-- every recorded `cds.region = region` assignment points at a region of the record containing the gene -/
theorem regionOf_entry {ops : List Op} {r : Rec} (inv : Inv ops r) (hok : HistoryOK ops) {g : Gene} (hg : g ∈ r.genes)
    {rid : Nat} (h : (g.id, rid) ∈ r.regionOf) :
    ∃ a ∈ r.regions, containedBy g.loc a.loc = true ∧ a.id = rid := by
  obtain ⟨g', hg', d, hl, hk, hx⟩ := (inv.regionOf _).1 h
  injection hx with h1 h2
  have := gene_of_id inv hg hg' h1.symm
  subst this
  obtain ⟨a', ha', hc, hd⟩ := hl
  obtain ⟨_, hd'⟩ := downNodes_sound g' a'.size a' d (Nat.le_refl _) hc hd
  have hseen := (inv.areasSeen a').1 ha'
  have := hok.regionsTop a' hseen d hd' hk
  subst this
  exact ⟨d, (inv.regionsSeen d).2 ⟨hseen, hk⟩, hc, h2.symm⟩

theorem region_of_gene {len : Int} {ops : List Op} {r : Rec} (hrun : run len ops = .ok r) (hok : HistoryOK ops)
    {g : Gene} (hg : g ∈ r.genes) :
    (∀ a ∈ r.regions, containedBy g.loc a.loc = true → r.regionOfGene g.id = some a.id) ∧
    ((∀ a ∈ r.regions, containedBy g.loc a.loc = false) → r.regionOfGene g.id = none) := by
  have inv := run_inv hok.opOK hrun
  constructor
  · intro a ha hc
    have hentry : (g.id, a.id) ∈ r.regionOf := by
      rw [inv.regionOf]
      exact ⟨g, hg, a, ⟨a, regions_sub_registered r a ha, hc, downNodes_self g a⟩,
        ((inv.regionsSeen a).1 ha).2, rfl⟩
    unfold Rec.regionOfGene
    cases hf : r.regionOf.find? (fun x => x.1 == g.id) with
    | none =>
      rw [List.find?_eq_none] at hf
      exact absurd (by simp) (hf _ hentry)
    | some x =>
      have hx1 : x.1 = g.id := by simpa using List.find?_some hf
      have hx : (g.id, x.2) ∈ r.regionOf := by
        have := List.mem_of_find?_eq_some hf
        rw [← hx1]; exact this
      obtain ⟨b, hb, hcb, hid⟩ := regionOf_entry inv hok hg hx
      have := region_containing_unique inv hg ha hb hc hcb
      subst this
      simp [hid]
  · intro hnone
    unfold Rec.regionOfGene
    cases hf : r.regionOf.find? (fun x => x.1 == g.id) with
    | none => rfl
    | some x =>
      have hx1 : x.1 = g.id := by simpa using List.find?_some hf
      have hx : (g.id, x.2) ∈ r.regionOf := by
        have := List.mem_of_find?_eq_some hf
        rw [← hx1]; exact this
      obtain ⟨b, hb, hcb, _⟩ := regionOf_entry inv hok hg hx
      rw [hnone b hb] at hcb; cases hcb

/-! ### build-order independence -/

theorem HistoryOK.perm {ops₁ ops₂ : List Op} (hp : ops₁.Perm ops₂) (h : HistoryOK ops₁) : HistoryOK ops₂ where
  opOK := fun op hop => h.opOK op (hp.mem_iff.2 hop)
  ids := fun a b ha hb => h.ids a b (hp.mem_iff.2 ha) (hp.mem_iff.2 hb)
  inside := fun a ha => h.inside a (hp.mem_iff.2 ha)
  regionsTop := fun a ha => h.regionsTop a (hp.mem_iff.2 ha)

/-- two orderings of the same calls end with the same genes, the same area ↔ gene relation, the same
    defining genes and the same set of region assignments -/
theorem order_independent_sets {len : Int} {ops₁ ops₂ : List Op} {r₁ r₂ : Rec} (hp : ops₁.Perm ops₂)
    (hok : ∀ op ∈ ops₁, OpOK op) (h1 : run len ops₁ = .ok r₁) (h2 : run len ops₂ = .ok r₂) :
    (∀ g, g ∈ r₁.genes ↔ g ∈ r₂.genes) ∧ (∀ a, a ∈ r₁.regions ↔ a ∈ r₂.regions)
    ∧ (∀ x, x ∈ r₁.members ↔ x ∈ r₂.members) ∧ (∀ x, x ∈ r₁.defs ↔ x ∈ r₂.defs)
    ∧ (∀ x, x ∈ r₁.regionOf ↔ x ∈ r₂.regionOf) := by
  have inv₁ := run_inv hok h1
  have inv₂ := run_inv (fun op hop => hok op (hp.mem_iff.2 hop)) h2
  have hg : ∀ g, g ∈ r₁.genes ↔ g ∈ r₂.genes := fun g => by
    rw [inv₁.genesSeen, inv₂.genesSeen, hp.mem_iff]
  have hr : ∀ a, a ∈ registered r₁ ↔ a ∈ registered r₂ := fun a => by
    rw [inv₁.areasSeen, inv₂.areasSeen, hp.mem_iff]
  have hl := fun g d => Linked.congr hr g d
  refine ⟨hg, ?_, ?_, ?_, ?_⟩
  · intro a; rw [inv₁.regionsSeen, inv₂.regionsSeen, hp.mem_iff]
  · intro x; rw [inv₁.members, inv₂.members]; simp only [hg, hl]
  · intro x; rw [inv₁.defs, inv₂.defs]; simp only [hg, hl]
  · intro x; rw [inv₁.regionOf, inv₂.regionOf]; simp only [hg, hl]

/-- … and every gene points to the same region -/
theorem order_independent_region {len : Int} {ops₁ ops₂ : List Op} {r₁ r₂ : Rec} (hp : ops₁.Perm ops₂)
    (hok : HistoryOK ops₁) (h1 : run len ops₁ = .ok r₁) (h2 : run len ops₂ = .ok r₂) :
    ∀ g ∈ r₁.genes, r₁.regionOfGene g.id = r₂.regionOfGene g.id := by
  obtain ⟨hg, hr, _⟩ := order_independent_sets hp hok.opOK h1 h2
  intro g hg1
  have hg2 := (hg g).1 hg1
  obtain ⟨a1, n1⟩ := region_of_gene h1 hok hg1
  obtain ⟨a2, n2⟩ := region_of_gene h2 (hok.perm hp) hg2
  by_cases hex : ∃ a ∈ r₁.regions, containedBy g.loc a.loc = true
  · obtain ⟨a, ha, hc⟩ := hex
    rw [a1 a ha hc, a2 a ((hr a).1 ha) hc]
  · have hnone : ∀ a ∈ r₁.regions, containedBy g.loc a.loc = false := by
      intro a ha
      cases hc : containedBy g.loc a.loc
      · rfl
      · exact absurd ⟨a, ha, hc⟩ hex
    rw [n1 hnone, n2 (fun a ha => hnone a ((hr a).2 ha))]

end ASV.Lookup
