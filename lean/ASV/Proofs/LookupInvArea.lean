/-
  C08 helper lemmas, part 5c: `add_<area>` preserves the invariant.
-/
import ASV.Proofs.LookupInvCds
namespace ASV.Lookup
open ASV

/-- the record right after the collection has been put into its list -/
def reg (r : Rec) (a : AreaT) : Rec :=
  match a.kind with
  | .proto => { r with protos := r.protos ++ [a] }
  | .sideProto => { r with protos := r.protos ++ [a] }
  | .cand => { r with cands := r.cands ++ [a] }
  | .sub => { r with subs := r.subs ++ [a] }
  | .region => { r with regions := r.regions ++ [a] }

structure RegFrame (r r0 : Rec) (a : AreaT) : Prop where
  len : r0.len = r.len
  genes : r0.genes = r.genes
  byName : r0.byName = r.byName
  byLoc : r0.byLoc = r.byLoc
  cdsCache : r0.cdsCache = r.cdsCache
  cdsCacheDirty : r0.cdsCacheDirty = r.cdsCacheDirty
  members : r0.members = r.members
  sections : r0.sections = r.sections
  defs : r0.defs = r.defs
  regionOf : r0.regionOf = r.regionOf
  clean : r0.clean = r.clean
  slotClean : r0.slotClean = r.slotClean
  slotVal : r0.slotVal = r.slotVal
  tupleVal : r0.tupleVal = r.tupleVal
  log : r0.log = r.log
  regions : r0.regions = (if a.kind = .region then r.regions ++ [a] else r.regions)
  protos : r0.protos = (if a.kind = .proto ∨ a.kind = .sideProto then r.protos ++ [a] else r.protos)
  cands : r0.cands = (if a.kind = .cand then r.cands ++ [a] else r.cands)
  subs : r0.subs = (if a.kind = .sub then r.subs ++ [a] else r.subs)

theorem reg_frame (r : Rec) (a : AreaT) : RegFrame r (reg r a) a := by
  unfold reg
  cases hk : a.kind <;> constructor <;> simp [hk]

theorem RegFrame.registered {r r0 : Rec} {a : AreaT} (f : RegFrame r r0 a) :
    ∀ x, x ∈ registered r0 ↔ x ∈ registered r ∨ x = a := by
  intro x
  simp only [Lookup.registered, f.regions, f.protos, f.cands, f.subs]
  cases hk : a.kind <;> simp [hk] <;> grind

theorem addArea_ok {r r' : Rec} {a : AreaT} (h : addArea r a = .ok r') :
    (a.kind = .region → ∀ x ∈ r.regions, overlapsWith a.loc x.loc = false) ∧ addFound (reg r a) a = .ok r' := by
  unfold addArea at h
  by_cases h1 : a.loc.start < 0
  · simp [h1, throw, throwThe, MonadExceptOf.throw] at h
  · simp only [h1, if_false] at h
    by_cases h2 : a.loc.end > r.len
    · simp [h2, throw, throwThe, MonadExceptOf.throw] at h
    · simp only [h2, if_false] at h
      unfold reg
      cases hk : a.kind with
      | proto => simp only [hk] at h; exact ⟨by simp, h⟩
      | sideProto => simp only [hk] at h; exact ⟨by simp, h⟩
      | cand => simp only [hk] at h; exact ⟨by simp, h⟩
      | sub => simp only [hk] at h; exact ⟨by simp, h⟩
      | region =>
        simp only [hk] at h
        cases h3 : (r.regions.any fun x => overlapsWith a.loc x.loc) with
        | true => simp [h3, throw, throwThe, MonadExceptOf.throw] at h
        | false =>
          simp only [h3, Bool.false_eq_true, if_false] at h
          refine ⟨?_, h⟩
          intro _ x hx
          cases ho : overlapsWith a.loc x.loc
          · rfl
          · have : (r.regions.any fun x => overlapsWith a.loc x.loc) = true := by
              rw [List.any_eq_true]; exact ⟨x, hx, ho⟩
            rw [h3] at this; exact absurd this (by simp)

theorem gene_le {g : Gene} (h : LocOK g.loc) : ∀ p ∈ g.loc.parts, p.lo ≤ p.hi :=
  fun p hp => by have := (h.2.1 p hp).2; omega

theorem gene_of_id {fs : List Gene} (hids : fs.Pairwise fun a b => a.id ≠ b.id) {g g' : Gene} (hg : g ∈ fs) (hg' : g' ∈ fs)
    (hid : g'.id = g.id) : g' = g := by
  have hsym : ∀ x y : Gene, x.id ≠ y.id → y.id ≠ x.id := fun _ _ h => h.symm
  rcases pairwise_sym_mem hsym hids hg' hg with h | h
  · exact h
  · exact absurd hid h

theorem Live.step_area_areas (L : Live) (a : AreaT) : ∀ x, x ∈ (L.step (.area a)).areas ↔ x ∈ L.areas ∨ x = a := by
  intro x
  simp only [Live.step, Live.areas]
  cases hk : a.kind <;> simp [hk] <;> grind

theorem Inv.addArea {S : Prop} {L : Live} {ever : List AreaT} {r r' : Rec} (h : Inv S L ever r) (a : AreaT) (ha : AreaOK a)
    (hstep : addArea r a = .ok r') : Inv S (L.step (.area a)) (ever ++ [a]) r' := by
  obtain ⟨hdis, hfound⟩ := addArea_ok hstep
  have f := reg_frame r a
  have c := h.core
  -- what the lookup finds
  have hL : ∀ g, g ∈ within r.genes a.loc false ↔ g ∈ r.genes ∧ containedBy g.loc a.loc = true := by
    intro g
    rw [mem_within c.sorted c.ok a.loc false ha.1]
    constructor
    · rintro ⟨hg, hk⟩
      exact ⟨hg, by rw [containedBy_eq_spec (gene_le (c.ok g hg))]; simpa [specKeeps] using hk⟩
    · rintro ⟨hg, hk⟩
      exact ⟨hg, by rw [containedBy_eq_spec (gene_le (c.ok g hg))] at hk; simpa [specKeeps] using hk⟩
  obtain ⟨r'', hrun, eff⟩ := addAll_eff a (within r.genes a.loc false) (reg r a) (fun g hg => ((hL g).1 hg).2)
  have : r'' = r' := by
    unfold addFound at hfound
    rw [f.genes, hrun] at hfound
    injection hfound
  subst this
  have hreg : ∀ x, x ∈ registered r'' ↔ x ∈ registered r ∨ x = a := by
    intro x
    have : registered r'' = registered (reg r a) := by
      simp only [registered, eff.regions, eff.protos, eff.cands, eff.subs]
    rw [this, f.registered]
  have hP : ∀ t : Gene × AreaT × Section, t ∈ ((within r.genes a.loc false).flatMap fun g => (downNodes g none a).map fun d => (g, d.1, d.2))
      ↔ (t.1 ∈ r.genes ∧ containedBy t.1.loc a.loc = true ∧ (t.2.1, t.2.2) ∈ downNodes t.1 none a) := by
    intro t
    simp only [List.mem_flatMap, List.mem_map, hL]
    constructor
    · rintro ⟨g, ⟨hg, hc⟩, d, hd, rfl⟩; exact ⟨hg, hc, hd⟩
    · rintro ⟨hg, hc, hd⟩; exact ⟨t.1, ⟨hg, hc⟩, (t.2.1, t.2.2), hd, rfl⟩
  have hgenes : r''.genes = r.genes := by rw [eff.genes, f.genes]
  have hever : ∀ x ∈ ever, x ∈ ever ++ [a] := fun x hx => List.mem_append.2 (Or.inl hx)
  have hsplit : ∀ {g d s}, LinkedS (registered r'') g d s →
      LinkedS (registered r) g d s ∨ (containedBy g.loc a.loc = true ∧ (d, s) ∈ downNodes g none a) := by
    rintro g d s ⟨x, hx, hc, hd⟩
    rcases (hreg x).1 hx with hx | rfl
    · exact Or.inl ⟨x, hx, hc, hd⟩
    · exact Or.inr ⟨hc, hd⟩
  have hregions : r''.regions = (if a.kind = .region then r.regions ++ [a] else r.regions) := by
    rw [eff.regions, f.regions]
  have hdisj : r''.regions.Pairwise fun x y => overlapsWith y.loc x.loc = false := by
    rw [hregions]
    by_cases hk : a.kind = .region
    · simp only [hk, if_true]
      rw [List.pairwise_append]
      refine ⟨c.disjoint, by simp, ?_⟩
      intro x hx y hy
      simp only [List.mem_singleton] at hy
      subst hy
      exact hdis hk x hx
    · simp only [hk, if_false]; exact c.disjoint
  have hregQ : ∀ x ∈ r''.regions, QueryOK x.loc := by
    rw [hregions]
    intro x hx
    by_cases hk : a.kind = .region
    · simp only [hk, if_true, List.mem_append, List.mem_singleton] at hx
      rcases hx with hx | rfl
      · exact c.regionQ x hx
      · exact ha.1
    · simp only [hk, if_false] at hx; exact c.regionQ x hx
  refine ⟨?_, ?_⟩
  · refine { genesLive := ?_, regionsEq := ?_, protosEq := ?_, candsEq := ?_, subsEq := ?_, liveEver := ?_,
             sorted := ?_, ok := ?_, ids := ?_, byName := ?_, byLoc := ?_, areasOK := ?_,
             kindsR := ?_, kindsO := ?_, disjoint := hdisj,
             membersSound := ?_, membersComplete := ?_, sectionsSound := ?_, sectionsComplete := ?_,
             defsSound := ?_, defsComplete := ?_, regionKeys := ?_, regionPtr := ?_,
             cover := eff.cover (by rw [f.members, f.sections]; exact c.cover),
             defsSub := eff.defsSub (by rw [f.members, f.defs]; exact c.defsSub) }
    · intro g; rw [hgenes, c.genesLive]; simp only [Live.step]; cases hk : a.kind <;> rfl
    · rw [hregions, c.regionsEq]; simp only [Live.step]; cases hk : a.kind <;> simp [hk]
    · rw [eff.protos, f.protos, c.protosEq]; simp only [Live.step]; cases hk : a.kind <;> simp [hk]
    · rw [eff.cands, f.cands, c.candsEq]; simp only [Live.step]; cases hk : a.kind <;> simp [hk]
    · rw [eff.subs, f.subs, c.subsEq]; simp only [Live.step]; cases hk : a.kind <;> simp [hk]
    · intro x hx
      rcases (hreg x).1 hx with hx | rfl
      · exact hever x (c.liveEver x hx)
      · simp
    · rw [hgenes]; exact c.sorted
    · rw [hgenes]; exact c.ok
    · rw [hgenes]; exact c.ids
    · intro x; rw [eff.byName, f.byName, hgenes]; exact c.byName x
    · intro l; rw [eff.byLoc, f.byLoc, hgenes]; exact c.byLoc l
    · intro x hx
      rcases List.mem_append.1 hx with hx | hx
      · exact c.areasOK x hx
      · simp only [List.mem_singleton] at hx; subst hx; exact ha
    · rw [hregions]
      intro x hx
      by_cases hk : a.kind = .region
      · simp only [hk, if_true, List.mem_append, List.mem_singleton] at hx
        rcases hx with hx | rfl
        · exact c.kindsR x hx
        · exact hk
      · simp only [hk, if_false] at hx; exact c.kindsR x hx
    · rw [eff.protos, f.protos, eff.cands, f.cands, eff.subs, f.subs]
      intro x hx
      by_cases hxa : x = a
      · subst hxa
        intro hk
        simp only [hk, reduceCtorEq, if_false] at hx
        exact c.kindsO x hx hk
      · apply c.kindsO x
        simp only [List.mem_append] at hx ⊢
        rcases hx with (hx | hx) | hx
        · left; left; split at hx
          · rcases List.mem_append.1 hx with hx | hx
            · exact hx
            · exact absurd (List.mem_singleton.1 hx) hxa
          · exact hx
        · left; right; split at hx
          · rcases List.mem_append.1 hx with hx | hx
            · exact hx
            · exact absurd (List.mem_singleton.1 hx) hxa
          · exact hx
        · right; split at hx
          · rcases List.mem_append.1 hx with hx | hx
            · exact hx
            · exact absurd (List.mem_singleton.1 hx) hxa
          · exact hx
    · intro x hx
      rw [hgenes]
      rcases (eff.members x).1 hx with hx | ⟨t, ht, rfl⟩
      · rw [f.members] at hx
        obtain ⟨g', hg', d, hl, e⟩ := c.membersSound x hx
        exact ⟨g', hg', d, hl.mono hever, e⟩
      · obtain ⟨hg, hc, hd⟩ := (hP t).1 ht
        exact ⟨t.1, hg, t.2.1, ⟨t.2.2, a, by simp, hc, hd⟩, rfl⟩
    · intro g' hg' d hl
      rw [hgenes] at hg'
      obtain ⟨s, hs⟩ := hl
      rcases hsplit hs with hs | ⟨hc, hd⟩
      · exact (eff.members _).2 (Or.inl (by rw [f.members]; exact c.membersComplete g' hg' d ⟨s, hs⟩))
      · exact (eff.members _).2 (Or.inr ⟨(g', d, s), (hP _).2 ⟨hg', hc, hd⟩, rfl⟩)
    · intro x hx
      rw [hgenes]
      rcases (eff.sections x).1 hx with hx | ⟨t, ht, rfl⟩
      · rw [f.sections] at hx
        obtain ⟨g', hg', d, s, hl, e⟩ := c.sectionsSound x hx
        exact ⟨g', hg', d, s, hl.mono hever, e⟩
      · obtain ⟨hg, hc, hd⟩ := (hP t).1 ht
        exact ⟨t.1, hg, t.2.1, t.2.2, ⟨a, by simp, hc, hd⟩, rfl⟩
    · intro g' hg' d s hs
      rw [hgenes] at hg'
      rcases hsplit hs with hs | ⟨hc, hd⟩
      · exact (eff.sections _).2 (Or.inl (by rw [f.sections]; exact c.sectionsComplete g' hg' d s hs))
      · exact (eff.sections _).2 (Or.inr ⟨(g', d, s), (hP _).2 ⟨hg', hc, hd⟩, rfl⟩)
    · intro hS x hx
      rw [hgenes]
      rcases (eff.defs x).1 hx with hx | ⟨t, ht, hdf, rfl⟩
      · rw [f.defs] at hx
        obtain ⟨g', hg', d, hl, hdf, e⟩ := c.defsSound hS x hx
        exact ⟨g', hg', d, hl.mono hever, hdf, e⟩
      · obtain ⟨hg, hc, hd⟩ := (hP t).1 ht
        exact ⟨t.1, hg, t.2.1, ⟨t.2.2, a, by simp, hc, hd⟩, hdf, rfl⟩
    · intro hS g' hg' d hl hdf
      rw [hgenes] at hg'
      obtain ⟨s, hs⟩ := hl
      rcases hsplit hs with hs | ⟨hc, hd⟩
      · exact (eff.defs _).2 (Or.inl (by rw [f.defs]; exact c.defsComplete hS g' hg' d ⟨s, hs⟩ hdf))
      · exact (eff.defs _).2 (Or.inr ⟨(g', d, s), (hP _).2 ⟨hg', hc, hd⟩, hdf, rfl⟩)
    · obtain ⟨pre, e, hpre⟩ := eff.regionOf
      intro x hx
      rw [hgenes]
      simp only [e, List.mem_append] at hx
      rcases hx with hx | hx
      · obtain ⟨t, ht, _, rfl⟩ := (hpre x).1 hx
        exact ⟨t.1, ((hP t).1 ht).1, rfl⟩
      · rw [f.regionOf] at hx; exact c.regionKeys x hx
    · obtain ⟨pre, e, hpre⟩ := eff.regionOf
      -- every new back link is (gene contained in `a`, `a`), and `a` is a region
      have hpre_val : ∀ x ∈ pre, a.kind = .region ∧ x.2 = some a.id ∧
          ∃ g' ∈ r.genes, g'.id = x.1 ∧ containedBy g'.loc a.loc = true := by
        intro x hx
        obtain ⟨t, ht, hk, rfl⟩ := (hpre x).1 hx
        obtain ⟨hg, hc, hd⟩ := (hP t).1 ht
        obtain ⟨_, hn⟩ := downNodes_sound t.1 a.size none a (t.2.1, t.2.2) (Nat.le_refl _) hc hd
        have := ha.2 t.2.1 hn hk
        exact ⟨by rw [← this]; exact hk, by rw [this], t.1, hg, rfl, hc⟩
      intro g' hg'
      rw [hgenes] at hg'
      simp only [regionOfGene_eq, e, f.regionOf]
      by_cases hin : a.kind = .region ∧ containedBy g'.loc a.loc = true
      · obtain ⟨hk, hc⟩ := hin
        have hptr : ptr (pre ++ r.regionOf) g'.id = some a.id := by
          apply ptr_hit
          · exact ⟨(g'.id, some a.id), (hpre _).2 ⟨(g', a, ownSection a g' none),
              (hP _).2 ⟨hg', hc, downNodes_self g' none a⟩, hk, rfl⟩, rfl⟩
          · intro x hx _; exact (hpre_val x hx).2.1
        have hamem : a ∈ r''.regions := by rw [hregions]; simp [hk]
        constructor
        · intro b hb hcb
          rw [hptr, containing_unique hdisj hregQ (c.ok g' hg') hb hamem hcb hc]
        · intro hnone
          rw [hnone a hamem] at hc; cases hc
      · have hskip : ∀ x ∈ pre, x.1 ≠ g'.id := by
          intro x hx e'
          obtain ⟨hk, _, g'', hg'', hid, hc⟩ := hpre_val x hx
          have := gene_of_id c.ids hg' hg'' (by rw [hid, e'])
          subst this
          exact hin ⟨hk, hc⟩
        rw [ptr_skip hskip]
        have hold := c.regionPtr g' hg'
        simp only [regionOfGene_eq] at hold
        have hsub : ∀ b ∈ r''.regions, containedBy g'.loc b.loc = true → b ∈ r.regions := by
          intro b hb hcb
          rw [hregions] at hb
          by_cases hk : a.kind = .region
          · simp only [hk, if_true, List.mem_append, List.mem_singleton] at hb
            rcases hb with hb | rfl
            · exact hb
            · exact absurd ⟨hk, hcb⟩ hin
          · simpa [hk] using hb
        constructor
        · intro b hb hcb; exact hold.1 b (hsub b hb hcb) hcb
        · intro hnone
          apply hold.2
          intro b hb
          apply hnone b
          rw [hregions]; by_cases hk : a.kind = .region <;> simp [hk, hb]
  · have c0 : InvCache (reg r a) := by
      refine ⟨?_, ?_, ?_⟩
      · rw [f.cdsCacheDirty, f.cdsCache, f.genes]; exact h.cache.cds
      · intro x hx; rw [f.slotClean] at hx
        have : (reg r a).section x.1 x.2 = r.section x.1 x.2 := by simp only [Rec.section, f.sections]
        rw [f.slotVal, this]; exact h.cache.slot x hx
      · intro aid hx; rw [f.clean] at hx
        have : ∀ s, (reg r a).section aid s = r.section aid s := fun s => by simp only [Rec.section, f.sections]
        rw [f.tupleVal, this, this, this]; exact h.cache.tuple aid hx
    exact eff.cache c0

end ASV.Lookup
