/-
  C05: the whole run on a linear record, stage by stage, against the documented description
  (the relations and the table semantics the executable reference `Spec.reference` is built from).
-/
import ASV.Proofs.TableDesc
set_option linter.unusedSectionVars false
set_option linter.unusedVariables false
namespace ASV.CC
open ASV.CC.Spec

/-- the stages of a successful run -/
theorem formationCore_stages {ps : List Proto} {wrap : Option Int} {cs : List Cand}
    (h : formationCore ps wrap = .ok cs) (hne : ps ≠ []) :
    ∃ hg un1 t1 ig un2 t2 t3 singles,
      findHybrids (sortProtos ps) wrap = .ok (hg, un1) ∧
      buildCandidates wrap .hybrid ⟨[], []⟩ hg = .ok t1 ∧
      findInterleaved un1 (sortCands t1.values) wrap = .ok (ig, un2) ∧
      buildCandidates wrap .interleaved t1 ig = .ok t2 ∧
      buildCandidates wrap .neighbouring t2 (findNeighbouring un2 (sortCands t2.values)) = .ok t3 ∧
      addSingles wrap t3 (sortProtos (dedup (un2 ++ t3.singles))) = .ok singles ∧
      cs = sortCands t3.values ++ singles := by
  unfold formationCore at h
  split at h
  · rename_i he; exact absurd (by simpa using he) hne
  · dsimp only at h
    split at h
    · cases h
    · rename_i hgroups un1 hH
      split at h
      · cases h
      · rename_i t1 hB1
        split at h
        · cases h
        · rename_i igroups un2 hI
          split at h
          · cases h
          · rename_i t2 hB2
            split at h
            · cases h
            · rename_i t3 hB3
              split at h
              · cases h
              · rename_i singles hS
                injection h with h
                exact ⟨hgroups, un1, t1, igroups, un2, t2, t3, singles, hH, hB1, hI, hB2, hB3, hS, h.symm⟩

/-- what `_find_hybrids` leaves unassigned: exactly the protoclusters in none of its groups -/
theorem findHybrids_un_exact {clusters : List Proto} {wrap : Option Int} {hg : List (List Proto)} {un : List Proto}
    (h : findHybrids clusters wrap = .ok (hg, un)) :
    ∀ p, p ∈ un ↔ p ∈ clusters ∧ ∀ g, g ∈ hg → p ∉ g := by
  have hcov := findHybrids_cover h
  unfold findHybrids at h
  split at h
  · cases h
  · dsimp only at h
    split at h
    · cases h
    · rename_i extended hext
      injection h with h
      injection h with h1 h2
      subst h1; subst h2
      intro p
      constructor
      · intro hp
        have hp' := mem_sortProtos.1 hp
        simp only [List.mem_filter, Bool.not_eq_true', List.contains_eq_mem, decide_eq_false_iff_not] at hp'
        refine ⟨hp'.1.1, ?_⟩
        intro g hg hpg
        obtain ⟨e, he, rfl⟩ := List.mem_map.1 hg
        exact hp'.2 (List.mem_flatten.2 ⟨e, he, mem_sortProtos.1 hpg⟩)
      · rintro ⟨hpc, hno⟩
        rcases hcov p hpc with ⟨g, hg, hpg⟩ | hun
        · exact absurd hpg (hno g hg)
        · exact hun

theorem findCross_linear (cc : List CandC) (un : List Proto) (groups : List (List Proto))
    (hno : ∀ x, x ∈ cc → twoParts x.2 = false) :
    findCrossOriginInterleaved cc un groups none = .ok ([], groups) := by
  unfold findCrossOriginInterleaved
  split
  · rfl
  · have : (cc.any fun c => twoParts c.2) = false := by
      rw [List.any_eq_false]; intro x hxc; simp [hno x hxc]
    rw [if_pos (by simp [this])]

theorem mem_findInterleavedCandidates {cc : List CandC} {g : List Proto} (h : g ∈ findInterleavedCandidates cc) :
    ∃ a b, a ∈ cc ∧ b ∈ cc ∧ ∀ x, x ∈ g → x ∈ a.1.members ∨ x ∈ b.1.members := by
  simp only [findInterleavedCandidates, List.mem_append] at h
  rcases h with h | h
  · obtain ⟨a, b, hbf, _, e⟩ := (mem_pairsWhere _ _ _ _).1 h
    subst e
    exact ⟨a, b, (before_mem hbf).1, (before_mem hbf).2, fun x hx => List.mem_append.1 (mem_dedup.1 hx)⟩
  · split at h
    · split at h
      · rename_i a b ha hb
        split at h
        · have e : g = dedup (a.1.members ++ b.1.members) := by simpa using h
          subst e
          exact ⟨a, b, List.mem_of_head? ha, List.mem_of_getLast? hb, fun x hx => List.mem_append.1 (mem_dedup.1 hx)⟩
        · cases h
      · cases h
    · cases h

theorem findInterleaved_un_linear {clusters : List Proto} {cands : List Cand} {ig : List (List Proto)} {un : List Proto}
    (h : findInterleaved clusters cands none = .ok (ig, un))
    (hdisj : ∀ p, p ∈ clusters → ∀ c, c ∈ cands → p ∉ c.members) :
    ∀ p, p ∈ un → ∀ g, g ∈ ig → p ∉ g := by
  unfold findInterleaved at h
  dsimp only at h
  split at h
  · cases h
  · rename_i cc hcc
    have hccfst : ∀ x, x ∈ cc → x.1 ∈ cands := by
      split at hcc
      · exact withCores_fst hcc
      · injection hcc with hcc; subst hcc; intro x hx; cases hx
    have hno : ∀ x, x ∈ cc → twoParts x.2 = false := by
      split at hcc
      · exact withCores_none_simple hcc
      · injection hcc with hcc; subst hcc; intro x hx; cases hx
    rw [findCross_linear cc _ _ hno] at h
    dsimp only at h
    injection h with h; injection h with h1 h2; subst h1; subst h2
    intro p hp g hg hpg
    have hp' := mem_sortProtos.1 hp
    simp only [List.mem_filter, Bool.not_eq_true', List.contains_eq_mem, decide_eq_false_iff_not, List.append_nil,
      List.mem_append, not_or] at hp'
    obtain ⟨hpc, hn2, hn3⟩ := hp'
    obtain ⟨g0, hg0, hp0⟩ := mergeSets_from hg p hpg
    rcases List.mem_append.1 hg0 with h12 | h3
    · rcases List.mem_append.1 h12 with h1 | h2
      · obtain ⟨a, b, ha, hb, hsub⟩ := mem_findInterleavedCandidates h1
        rcases hsub p hp0 with hx | hx
        · exact hdisj p hpc a.1 (hccfst a ha) hx
        · exact hdisj p hpc b.1 (hccfst b hb) hx
      · exact hn2 (List.mem_flatten.2 ⟨g0, h2, hp0⟩)
    · obtain ⟨cl, hcl, hg3⟩ := List.mem_flatMap.1 h3
      obtain ⟨c, hcf, e⟩ := List.mem_map.1 hg3
      subst e
      obtain ⟨hcin, ho⟩ := List.mem_filter.1 hcf
      rcases List.mem_append.1 (mem_dedup.1 hp0) with hx | hx
      · exact hdisj p hpc c.1 (hccfst c hcin) hx
      · have : p = cl := by simpa using hx
        subst this
        apply hn3
        exact ⟨hcl, List.any_eq_true.2 ⟨c, hcin, ho⟩⟩

/-- The documented outcome on a linear record, stage by stage.  Every clause is stated with the
    notions the executable reference is made of: chain classes (`Linked`) of `shareGroups` /
    `overlapGroups`, containment in the connected core, the order-free table semantics `PassDesc`
    (per coordinate key: union of the groups, kind of the first owner, promoted singles), the singles rule. -/
structure RefinesLinear (ps : List Proto) (cs : List Cand) : Prop where
  stages : ∃ (hg : List (List Proto)) (un1 : List Proto) (t1 : Table) (cc : List CandC) (ig : List (List Proto))
      (un2 : List Proto) (t2 : Table) (ng : List (List Proto)) (t3 : Table) (l : List Proto) (singles : List Cand),
    -- chemical hybrids: one sharing class plus exactly the unshared protoclusters whose core lies inside its connected core
    (∀ g, g ∈ hg → ∃ (m : List Proto) (core : Loc), (∀ x, x ∈ m → x ∈ g) ∧ 2 ≤ m.length ∧
        (∀ a b, a ∈ m → b ∈ m → Linked (shareGroups (sortProtos ps)) a b) ∧
        connect (m.map (·.core)) none = .ok core ∧
        ∀ p, p ∈ sortProtos ps → (∀ q, q ∈ sortProtos ps → q ≠ p → shares p q = false) →
          (p ∈ g ↔ locationContainsOther core p.core = true)) ∧
    (∀ a b, Linked (shareGroups (sortProtos ps)) a b → ∃ g, g ∈ hg ∧ a ∈ g ∧ b ∈ g) ∧
    (∀ p, p ∈ un1 ↔ p ∈ ps ∧ ∀ g, g ∈ hg → p ∉ g) ∧
    PassDesc none .hybrid ⟨[], []⟩ t1 hg ∧
    -- interleaved: chain classes of "cores overlap" over hybrid candidates and unabsorbed protoclusters
    withCores none (sortCands t1.values) = .ok cc ∧
    (∀ a b, (∃ r, r ∈ ig ∧ a ∈ r ∧ b ∈ r) ↔ Linked (overlapGroups (interleaveUnits un1 cc)) a b) ∧
    (∀ p, p ∈ un2 ↔ p ∈ un1 ∧ ∀ g, g ∈ ig → p ∉ g) ∧
    PassDesc none .interleaved t1 t2 ig ∧
    -- neighbouring: chain classes of "extents overlap" over all candidates so far and the remaining protoclusters
    (∀ a b, (∃ r, r ∈ ng ∧ a ∈ r ∧ b ∈ r) ↔ Linked (overlapGroups (neighbourUnits un2 (sortCands t2.values))) a b) ∧
    PassDesc none .neighbouring t2 t3 ng ∧
    -- singles: for the protoclusters left over and the promoted ones, unless the candidate with the same coordinates contains it
    (∀ p, p ∈ l ↔ p ∈ un2 ∨ p ∈ t3.singles) ∧
    (∀ c, c ∈ singles → c.kind = .single ∧ ∃ p, p ∈ l ∧ c.members = [p] ∧
      ¬ ∃ ex, t3.get (locKey p.loc) = some ex ∧ p ∈ ex.members) ∧
    (∀ p, p ∈ l → (∃ c, c ∈ singles ∧ c.members = [p]) ∨ ∃ ex, ex ∈ t3.values ∧ p ∈ ex.members) ∧
    cs.Perm (t3.values ++ singles)

theorem addSingles_cover' {wrap : Option Int} {t : Table} {l : List Proto} {ss : List Cand}
    (h : addSingles wrap t l = .ok ss) :
    ∀ p, p ∈ l → (∃ c, c ∈ ss ∧ c.members = [p]) ∨ Covers t p := by
  intro p hp
  rcases addSingles_cover h p hp with ⟨c, hc, hpc⟩ | hcov
  · left
    obtain ⟨_, _, q, _, e, _⟩ := addSingles_wf h c hc
    rw [e] at hpc
    have : p = q := by simpa using hpc
    exact ⟨c, hc, by rw [e, this]⟩
  · exact Or.inr hcov

theorem formation_refines_linear {ps : List Proto} {cs : List Cand} (hn : ps.Nodup) (hne : ps ≠ [])
    (hv : ∀ p, p ∈ ps → SimpleProto p ∧ ValidCore p) (h : formation ps none = .ok cs) : RefinesLinear ps cs := by
  obtain ⟨cs0, h0, e⟩ := formation_ok_core h
  subst e
  obtain ⟨hg, un1, t1, ig, un2, t2, t3, singles, hH, hB1, hI, hB2, hB3, hS, e⟩ := formationCore_stages h0 hne
  subst e
  have hun0 : (sortProtos ps).Nodup := nodup_sortProtos hn
  have hps0 : ∀ p, p ∈ sortProtos ps → p ∈ ps := fun p hp => mem_sortProtos.1 hp
  obtain ⟨hH1, hH2, hH3⟩ := findHybrids_wf hH hun0
  have ht0 : TableWF none ps ⟨[], []⟩ := ⟨fun c hc => by simp [Table.values] at hc, fun p hp => by cases hp⟩
  have hg1 : ∀ g, g ∈ hg → g.Nodup ∧ ∀ p, p ∈ g → p ∈ ps :=
    fun g hg' => ⟨(hH1 g hg').1, fun p hp => hps0 p ((hH1 g hg').2.2 p hp)⟩
  have ht1 : TableWF none ps t1 := buildCandidates_wf hB1 (by decide) hg1 ht0
  have hc1 : ∀ c, c ∈ sortCands t1.values → c.members ≠ [] ∧ ∀ m, m ∈ c.members → SimpleProto m := fun c hc =>
    ⟨(ht1.1 c (mem_sortCands.1 hc)).ok.nonempty, fun m hm => (hv m ((ht1.1 c (mem_sortCands.1 hc)).fromInput m hm)).1⟩
  obtain ⟨cc, hcc⟩ := withCores_simple hc1
  have hbig1 : ∀ c, c ∈ sortCands t1.values → CandBig c := fun c hc =>
    ⟨(ht1.1 c (mem_sortCands.1 hc)).nodup, (ht1.1 c (mem_sortCands.1 hc)).big⟩
  obtain ⟨hI1, hI2, hI3⟩ := findInterleaved_wf hI hH2 hbig1
  have hne1 : ∀ p, p ∈ un1 → p.core.PartsNonEmpty := by
    intro p hp
    obtain ⟨r, hr, hlt, _⟩ := (hv p (hps0 p (hH3 p hp))).2
    intro q hq
    rw [hr] at hq
    simp only [Loc.parts, List.mem_singleton] at hq
    subst hq; exact hlt
  -- the three table steps
  have d1 := buildCandidates_desc hB1 (by simp [keys])
  have d2 := buildCandidates_desc hB2 d1.keysNodup
  have d3 := buildCandidates_desc hB3 d2.keysNodup
  -- interleaved classes (linear: no origin-crossing group)
  have hinter : ∀ a b, (∃ r, r ∈ ig ∧ a ∈ r ∧ b ∈ r) ↔ Linked (overlapGroups (interleaveUnits un1 cc)) a b := by
    obtain ⟨G, hG, h1, h2⟩ := findInterleaved_groups hI hcc hH2 hne1
    intro a b
    rw [hG, mergeSets_linked]
    refine ⟨linked_of_conn ?_, linked_of_cover h1⟩
    intro g hg' x y hx hy
    rcases h2 g hg' with ⟨g', hg'', hsub⟩ | hcross
    · exact Linked.base hg'' (hsub x hx) (hsub y hy)
    · exact (crossGroup_none (withCores_none_simple hcc) hcross).elim
  have hvc : ∀ p, p ∈ sortProtos ps → ValidCore p := fun p hp => (hv p (hps0 p hp)).2
  refine ⟨hg, un1, t1, cc, ig, un2, t2, findNeighbouring un2 (sortCands t2.values), t3,
    sortProtos (dedup (un2 ++ t3.singles)), singles,
    findHybrids_complete_linear hH hun0 hvc, (findHybrids_classes hH hun0).1, ?_, d1,
    hcc, hinter, ?_, d2, fun a b => findNeighbouring_classes un2 (sortCands t2.values) a b, d3, ?_, ?_, ?_, ?_⟩
  · intro p
    rw [findHybrids_un_exact hH p, mem_sortProtos]
  · -- the members of the hybrid candidates are the members of the hybrid groups, which `un1` avoids
    have hdisj : ∀ p, p ∈ un1 → ∀ c, c ∈ sortCands t1.values → p ∉ c.members := by
      intro p hp c hc hpc
      obtain ⟨k, hk⟩ := mem_values.1 (mem_sortCands.1 hc)
      rcases (d1.members k p).1 ⟨c, hk, hpc⟩ with ⟨c0, hc0, _⟩ | ⟨g, hg', _, hpg⟩
      · cases hc0
      · exact ((findHybrids_un_exact hH p).1 hp).2 g hg' hpg
    intro p
    constructor
    · intro hp
      exact ⟨hI3 p hp, findInterleaved_un_linear hI hdisj p hp⟩
    · rintro ⟨hp, hno⟩
      rcases findInterleaved_cover hI p hp with ⟨g, hg', hpg⟩ | h1 | ⟨c, hc, hpc⟩
      · exact absurd hpg (hno g hg')
      · exact h1
      · exact absurd hpc (hdisj p hp c hc)
  · intro p
    rw [mem_sortProtos, mem_dedup, List.mem_append]
  · intro c hc
    obtain ⟨_, hk, p, hp, e, hno⟩ := addSingles_wf hS c hc
    exact ⟨hk, p, hp, e, hno⟩
  · intro p hp
    rcases addSingles_cover' hS p hp with h1 | ⟨ex, hex, hpe⟩
    · exact Or.inl h1
    · exact Or.inr ⟨ex, hex, hpe⟩
  · exact (perm_sortCands _).trans (List.Perm.append_right singles (perm_sortCands t3.values))

end ASV.CC
