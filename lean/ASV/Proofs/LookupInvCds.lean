/-
  C08 helper lemmas, part 5b: `add_cds_feature` preserves the invariant.
-/
import ASV.Proofs.LookupInv
namespace ASV.Lookup
open ASV

theorem pairwise_sym_mem {α} {R : α → α → Prop} (hsym : ∀ a b, R a b → R b a) :
    ∀ {l : List α}, l.Pairwise R → ∀ {a b : α}, a ∈ l → b ∈ l → a = b ∨ R a b
  | [], _, _, _, ha, _ => by simp at ha
  | x :: l, h, a, b, ha, hb => by
    obtain ⟨h1, h2⟩ := List.pairwise_cons.1 h
    rcases List.mem_cons.1 ha with rfl | ha'
    · rcases List.mem_cons.1 hb with rfl | hb'
      · exact Or.inl rfl
      · exact Or.inr (h1 b hb')
    · rcases List.mem_cons.1 hb with rfl | hb'
      · exact Or.inr (hsym _ _ (h1 a ha'))
      · exact pairwise_sym_mem hsym h2 ha' hb'

/-- two locations that both contain a (non-empty) gene overlap -/
theorem overlap_of_both_contain {g a b : Loc} (hg : LocOK g) (ha : QueryOK a) (hb : QueryOK b)
    (h1 : containedBy g a = true) (h2 : containedBy g b = true) : overlapsWith b a = true := by
  obtain ⟨gp, hgp⟩ := List.exists_mem_of_ne_nil _ hg.1
  have hne := (hg.2.1 gp hgp).2
  simp only [containedBy, locationContainsOther, List.all_eq_true, List.any_eq_true, partContains,
    Bool.and_eq_true, decide_eq_true_eq] at h1 h2
  obtain ⟨ap, hap, h1⟩ := h1 gp hgp
  obtain ⟨bp, hbp, h2⟩ := h2 gp hgp
  rw [overlapsWith, locationsOverlap_iff b a (fun p hp => (hb.2 p hp).2) (fun p hp => (ha.2 p hp).2)]
  refine ⟨gp.lo, ?_, ?_⟩
  · simp only [Loc.mem, List.any_eq_true, Part.mem_iff]; exact ⟨bp, hbp, by omega, by omega⟩
  · simp only [Loc.mem, List.any_eq_true, Part.mem_iff]; exact ⟨ap, hap, by omega, by omega⟩

/-- at most one of a list of pairwise non-overlapping areas contains a given gene -/
theorem containing_unique {regions : List AreaT} (hd : regions.Pairwise fun x y => overlapsWith y.loc x.loc = false)
    (hq : ∀ a ∈ regions, QueryOK a.loc) {g : Gene} (hg : LocOK g.loc) {a b : AreaT} (ha : a ∈ regions) (hb : b ∈ regions)
    (hca : containedBy g.loc a.loc = true) (hcb : containedBy g.loc b.loc = true) : a = b := by
  have hsym : ∀ x y : AreaT, overlapsWith y.loc x.loc = false → overlapsWith x.loc y.loc = false := by
    intro x y h; simp only [overlapsWith] at *; rw [locationsOverlap_comm]; exact h
  rcases pairwise_sym_mem hsym hd ha hb with h | h
  · exact h
  · have := overlap_of_both_contain hg (hq a ha) (hq b hb) hca hcb
    rw [h] at this; cases this

theorem regions_sub_registered (r : Rec) : ∀ a ∈ r.regions, a ∈ registered r := by
  intro a ha; simp [registered, ha]

theorem ptr_none {l : List (Nat × Option Nat)} {gid : Nat} (h : ∀ x ∈ l, x.1 ≠ gid) : ptr l gid = none := by
  have := ptr_skip (pre := l) (old := []) h
  simpa [ptr] using this

theorem InvCore.regionQ {S : Prop} {L : Live} {ever : List AreaT} {r : Rec} (h : InvCore S L ever r) :
    ∀ a ∈ r.regions, QueryOK a.loc :=
  fun a ha => (h.areasOK a (h.liveEver a (regions_sub_registered r a ha))).1

/-- a region-class collection the gene is passed to through the registered collections is one of the record's
    regions and contains the gene -/
theorem InvCore.region_of_down {S : Prop} {L : Live} {ever : List AreaT} {r : Rec} (h : InvCore S L ever r) {g : Gene}
    {d : AreaT} {s : Section} (hd : (d, s) ∈ downAll g (registered r)) (hk : d.kind = .region) :
    d ∈ r.regions ∧ containedBy g.loc d.loc = true := by
  obtain ⟨a, ha, hc, hda⟩ := (mem_downAll g _ _).1 hd
  obtain ⟨_, hn⟩ := downNodes_sound g a.size none a (d, s) (Nat.le_refl _) hc hda
  have := (h.areasOK a (h.liveEver a ha)).2 d hn hk
  subst this
  refine ⟨?_, hc⟩
  simp only [registered, List.mem_append] at ha
  rcases ha with ((ha | ha) | ha) | ha
  · exact ha
  · exact absurd hk (h.kindsO d (by simp [ha]))
  · exact absurd hk (h.kindsO d (by simp [ha]))
  · exact absurd hk (h.kindsO d (by simp [ha]))

theorem addCds_ok {r r' : Rec} {g : Gene} (h : addCds r g = .ok r') :
    r.byLoc.contains g.loc = false ∧ (r.byName.any fun x => x.1 == g.id) = false ∧
    r' = { linkCdsToParent { r with genes := ins r.genes g, cdsCacheDirty := true } g with
            byLoc := (linkCdsToParent { r with genes := ins r.genes g, cdsCacheDirty := true } g).byLoc ++ [g.loc],
            byName := (linkCdsToParent { r with genes := ins r.genes g, cdsCacheDirty := true } g).byName ++ [(g.id, g)] } := by
  unfold Lookup.addCds at h
  cases h1 : keyExists g.loc with
  | false => simp [h1, throw, throwThe, MonadExceptOf.throw] at h
  | true =>
    simp only [h1, Bool.not_true, Bool.false_eq_true, if_false] at h
    cases h2 : r.byLoc.contains g.loc with
    | true =>
      have h2' : g.loc ∈ r.byLoc := by simpa using h2
      simp [h2', throw, throwThe, MonadExceptOf.throw] at h
    | false =>
      simp only [h2, Bool.false_eq_true, if_false] at h
      cases h3 : (r.byName.any fun x => x.1 == g.id) with
      | true => simp [h3, throw, throwThe, MonadExceptOf.throw] at h
      | false =>
        simp only [h3, Bool.false_eq_true, if_false, pure, Except.pure] at h
        injection h with h
        exact ⟨rfl, rfl, h.symm⟩

theorem Inv.addCds {S : Prop} {L : Live} {ever : List AreaT} {r r' : Rec} (h : Inv S L ever r) (g : Gene) (hg : LocOK g.loc)
    (hstep : addCds r g = .ok r') : Inv S (L.step (.cds g)) ever r' := by
  obtain ⟨hloc, hname, hr'⟩ := addCds_ok hstep
  have eff := linkCdsToParent_eff { r with genes := ins r.genes g, cdsCacheDirty := true } g
  generalize hr1 : linkCdsToParent { r with genes := ins r.genes g, cdsCacheDirty := true } g = r1 at eff hr'
  subst hr'
  have c := h.core
  have hreg0 : registered { r with genes := ins r.genes g, cdsCacheDirty := true } = registered r := rfl
  rw [hreg0] at eff
  have hreg : registered { r1 with byLoc := r1.byLoc ++ [g.loc], byName := r1.byName ++ [(g.id, g)] } = registered r := by
    simp only [registered, eff.regions, eff.protos, eff.cands, eff.subs]
  have hgenes : ∀ x, x ∈ r1.genes ↔ x ∈ r.genes ∨ x = g := by
    intro x; rw [eff.genes]; exact mem_insert (fun f => !locLt g.loc f.loc) g x
  have hidne : ∀ f ∈ r.genes, f.id ≠ g.id := by
    intro f hf e
    have : (r.byName.any fun x => x.1 == g.id) = true := by
      rw [List.any_eq_true]; exact ⟨(f.id, f), (c.byName _).2 ⟨f, hf, rfl⟩, by simp [e]⟩
    rw [hname] at this; cases this
  have hlocne : ∀ f ∈ r.genes, f.loc ≠ g.loc := by
    intro f hf e
    have : r.byLoc.contains g.loc = true := by
      simp only [List.contains_iff_mem]; exact (c.byLoc _).2 ⟨f, hf, e⟩
    rw [hloc] at this; cases this
  have hP : ∀ t, t ∈ (downAll g (registered r)).map (fun d => (g, d.1, d.2)) ↔
      t.1 = g ∧ LinkedS (registered r) g t.2.1 t.2.2 := by
    intro t
    simp only [List.mem_map, LinkedS, ← mem_downAll]
    constructor
    · rintro ⟨d, hd, rfl⟩; exact ⟨rfl, hd⟩
    · rintro ⟨e, hd⟩; exact ⟨(t.2.1, t.2.2), hd, by rw [← e]⟩
  have hever : ∀ a ∈ registered r, a ∈ ever := c.liveEver
  refine ⟨?_, ?_⟩
  · refine { genesLive := ?_, regionsEq := ?_, protosEq := ?_, candsEq := ?_, subsEq := ?_, liveEver := ?_,
             sorted := ?_, ok := ?_, ids := ?_, byName := ?_, byLoc := ?_, areasOK := c.areasOK,
             kindsR := ?_, kindsO := ?_, disjoint := ?_,
             membersSound := ?_, membersComplete := ?_, sectionsSound := ?_, sectionsComplete := ?_,
             defsSound := ?_, defsComplete := ?_, regionKeys := ?_, regionPtr := ?_, cover := eff.cover c.cover, defsSub := eff.defsSub c.defsSub }
    · intro x; simp only [hgenes, c.genesLive, Live.step, List.mem_append, List.mem_singleton]
    · simp only [eff.regions, Live.step]; exact c.regionsEq
    · simp only [eff.protos, Live.step]; exact c.protosEq
    · simp only [eff.cands, Live.step]; exact c.candsEq
    · simp only [eff.subs, Live.step]; exact c.subsEq
    · rw [hreg]; exact hever
    · simp only [eff.genes]; exact insert_sorted c.sorted g
    · intro x hx
      rcases (hgenes x).1 hx with hx | rfl
      · exact c.ok x hx
      · exact hg
    · simp only [eff.genes]; exact pairwise_insert (fun f => !locLt g.loc f.loc) g c.ids hidne
    · intro x
      simp only [List.mem_append, List.mem_singleton, eff.byName, c.byName, hgenes]
      constructor
      · rintro (⟨g', hg', rfl⟩ | rfl)
        · exact ⟨g', Or.inl hg', rfl⟩
        · exact ⟨g, Or.inr rfl, rfl⟩
      · rintro ⟨g', hg' | rfl, rfl⟩
        · exact Or.inl ⟨g', hg', rfl⟩
        · exact Or.inr rfl
    · intro l
      simp only [List.mem_append, List.mem_singleton, eff.byLoc, c.byLoc, hgenes]
      constructor
      · rintro (⟨g', hg', rfl⟩ | rfl)
        · exact ⟨g', Or.inl hg', rfl⟩
        · exact ⟨g, Or.inr rfl, rfl⟩
      · rintro ⟨g', hg' | rfl, rfl⟩
        · exact Or.inl ⟨g', hg', rfl⟩
        · exact Or.inr rfl
    · simp only [eff.regions]; exact c.kindsR
    · simp only [eff.protos, eff.cands, eff.subs]; exact c.kindsO
    · simp only [eff.regions]; exact c.disjoint
    · intro x hx
      rcases (eff.members x).1 hx with hx | ⟨t, ht, rfl⟩
      · obtain ⟨g', hg', d, hl, e⟩ := c.membersSound x hx
        exact ⟨g', (hgenes g').2 (Or.inl hg'), d, hl, e⟩
      · obtain ⟨e, hl⟩ := (hP t).1 ht
        exact ⟨g, (hgenes g).2 (Or.inr rfl), t.2.1, ⟨t.2.2, hl.mono hever⟩, by rw [e]⟩
    · intro g' hg' d hl
      rw [hreg] at hl
      rcases (hgenes g').1 hg' with hg' | rfl
      · exact (eff.members _).2 (Or.inl (c.membersComplete g' hg' d hl))
      · obtain ⟨s, hs⟩ := hl
        exact (eff.members _).2 (Or.inr ⟨(g', d, s), (hP _).2 ⟨rfl, hs⟩, rfl⟩)
    · intro x hx
      rcases (eff.sections x).1 hx with hx | ⟨t, ht, rfl⟩
      · obtain ⟨g', hg', d, s, hl, e⟩ := c.sectionsSound x hx
        exact ⟨g', (hgenes g').2 (Or.inl hg'), d, s, hl, e⟩
      · obtain ⟨e, hl⟩ := (hP t).1 ht
        exact ⟨g, (hgenes g).2 (Or.inr rfl), t.2.1, t.2.2, hl.mono hever, by rw [e]⟩
    · intro g' hg' d s hl
      rw [hreg] at hl
      rcases (hgenes g').1 hg' with hg' | rfl
      · exact (eff.sections _).2 (Or.inl (c.sectionsComplete g' hg' d s hl))
      · exact (eff.sections _).2 (Or.inr ⟨(g', d, s), (hP _).2 ⟨rfl, hl⟩, rfl⟩)
    · intro hS x hx
      rcases (eff.defs x).1 hx with hx | ⟨t, ht, hdf, rfl⟩
      · obtain ⟨g', hg', d, hl, hdf, e⟩ := c.defsSound hS x hx
        exact ⟨g', (hgenes g').2 (Or.inl hg'), d, hl, hdf, e⟩
      · obtain ⟨e, hl⟩ := (hP t).1 ht
        exact ⟨g, (hgenes g).2 (Or.inr rfl), t.2.1, ⟨t.2.2, hl.mono hever⟩, by rw [← e]; exact hdf, by rw [e]⟩
    · intro hS g' hg' d hl hdf
      rw [hreg] at hl
      rcases (hgenes g').1 hg' with hg' | rfl
      · exact (eff.defs _).2 (Or.inl (c.defsComplete hS g' hg' d hl hdf))
      · obtain ⟨s, hs⟩ := hl
        exact (eff.defs _).2 (Or.inr ⟨(g', d, s), (hP _).2 ⟨rfl, hs⟩, hdf, rfl⟩)
    · obtain ⟨pre, e, hpre⟩ := eff.regionOf
      intro x hx
      simp only [e, List.mem_append] at hx
      rcases hx with hx | hx
      · obtain ⟨t, ht, _, rfl⟩ := (hpre x).1 hx
        exact ⟨g, (hgenes g).2 (Or.inr rfl), by rw [((hP t).1 ht).1]⟩
      · obtain ⟨g', hg', e'⟩ := c.regionKeys x hx
        exact ⟨g', (hgenes g').2 (Or.inl hg'), e'⟩
    · obtain ⟨pre, e, hpre⟩ := eff.regionOf
      have hpre_key : ∀ x ∈ pre, x.1 = g.id := by
        intro x hx
        obtain ⟨t, ht, _, rfl⟩ := (hpre x).1 hx
        rw [((hP t).1 ht).1]
      have hpre_val : ∀ x ∈ pre, ∃ a ∈ r.regions, containedBy g.loc a.loc = true ∧ x.2 = some a.id := by
        intro x hx
        obtain ⟨t, ht, hk, rfl⟩ := (hpre x).1 hx
        obtain ⟨d, hd, rfl⟩ := List.mem_map.1 ht
        obtain ⟨h1, h2⟩ := c.region_of_down hd hk
        exact ⟨d.1, h1, h2, rfl⟩
      intro g' hg'
      simp only [regionOfGene_eq, e, eff.regions]
      rcases (hgenes g').1 hg' with hg' | rfl
      · have hne : ∀ x ∈ pre, x.1 ≠ g'.id := fun x hx => by rw [hpre_key x hx]; exact (hidne g' hg').symm
        rw [ptr_skip hne]
        exact c.regionPtr g' hg'
      · have hold : ptr r.regionOf g'.id = none := by
          apply ptr_none
          intro x hx e'
          obtain ⟨f, hf, e''⟩ := c.regionKeys x hx
          exact hidne f hf (by rw [e'', e'])
        constructor
        · intro a ha hc
          apply ptr_hit
          · refine ⟨(g'.id, some a.id), (hpre _).2 ⟨(g', a, ownSection a g' none), ?_, c.kindsR a ha, rfl⟩, rfl⟩
            exact (hP _).2 ⟨rfl, a, regions_sub_registered r a ha, hc, downNodes_self g' none a⟩
          · intro x hx _
            obtain ⟨b, hb, hcb, e'⟩ := hpre_val x hx
            rw [e', containing_unique c.disjoint c.regionQ hg ha hb hc hcb]
        · intro hnone
          have : ∀ x ∈ pre, x.1 ≠ g'.id := by
            intro x hx
            obtain ⟨b, hb, hcb, _⟩ := hpre_val x hx
            rw [hnone b hb] at hcb; cases hcb
          rw [ptr_skip this]; exact hold
  · have c0 : InvCache { r with genes := ins r.genes g, cdsCacheDirty := true } :=
      ⟨fun hd => (by cases hd), h.cache.slot, h.cache.tuple⟩
    have c1 := eff.cache c0
    exact ⟨c1.cds, c1.slot, c1.tuple⟩

end ASV.Lookup
