/-
  C05: no two candidates with the same coordinates and the same members (linear records:
  the de-duplication table is keyed by the hull's two ends, which determine the hull).
-/
import ASV.Proofs.SpecBridge
set_option linter.unusedSectionVars false
set_option linter.unusedVariables false
namespace ASV.CC
open ASV.CC.Spec

/-! ### tables reachable by `build_candidates` -/

/-- the tables `build_candidates` can produce for input `ps`: start empty, add one group at a time -/
inductive Reach (wrap : Option Int) (ps : List Proto) : Table → Prop
  | empty : Reach wrap ps ⟨[], []⟩
  | step {t t' : Table} {kind : Kind} {g : List Proto} : Reach wrap ps t → kind ≠ .single → g.Nodup →
      (∀ p, p ∈ g → p ∈ ps) → buildOne wrap kind t g = .ok t' → Reach wrap ps t'

theorem reach_buildCandidates {wrap : Option Int} {ps : List Proto} {kind : Kind} {t t' : Table} {gs : List (List Proto)}
    (h : buildCandidates wrap kind t gs = .ok t') (hk : kind ≠ .single)
    (hg : ∀ g, g ∈ gs → g.Nodup ∧ ∀ p, p ∈ g → p ∈ ps) (ht : Reach wrap ps t) : Reach wrap ps t' := by
  induction gs generalizing t with
  | nil => simp only [buildCandidates] at h; injection h with h; subst h; exact ht
  | cons g gs ih =>
    simp only [buildCandidates] at h
    split at h
    · cases h
    · rename_i t1 h1
      exact ih h (fun g' hg' => hg g' (List.mem_cons_of_mem _ hg'))
        (Reach.step ht hk (hg g List.mem_cons_self).1 (hg g List.mem_cons_self).2 h1)

theorem reach_wf {wrap : Option Int} {ps : List Proto} {t : Table} (h : Reach wrap ps t) : TableWF wrap ps t := by
  induction h with
  | empty => exact ⟨fun c hc => by simp [Table.values] at hc, fun p hp => by cases hp⟩
  | step _ hk hg hgp hb ih => exact buildOne_wf hb hk hg hgp ih

/-- the structure of a successful run: a reachable table, then singles for a duplicate-free list -/
theorem formationCore_struct {ps : List Proto} {wrap : Option Int} {cs : List Cand}
    (h : formationCore ps wrap = .ok cs) (hn : ps.Nodup) (hne : ps ≠ []) :
    ∃ t3 l singles, Reach wrap ps t3 ∧ l.Nodup ∧ addSingles wrap t3 l = .ok singles ∧
      cs = sortCands t3.values ++ singles := by
  unfold formationCore at h
  split at h
  · rename_i he; exact absurd (by simpa using he) hne
  · dsimp only at h
    split at h
    · cases h
    · rename_i hgroups un1 hH
      split at h
      · cases h
      · rename_i t1 hB1
        split at h
        · cases h
        · rename_i igroups un2 hI
          split at h
          · cases h
          · rename_i t2 hB2
            split at h
            · cases h
            · rename_i t3 hB3
              split at h
              · cases h
              · rename_i singles hS
                injection h with h; subst h
                have hun0 : (sortProtos ps).Nodup := nodup_sortProtos hn
                have hps0 : ∀ p, p ∈ sortProtos ps → p ∈ ps := fun p hp => mem_sortProtos.1 hp
                obtain ⟨hH1, hH2, hH3⟩ := findHybrids_wf hH hun0
                have hr1 : Reach wrap ps t1 := reach_buildCandidates hB1 (by decide)
                  (fun g hg => ⟨(hH1 g hg).1, fun p hp => hps0 p ((hH1 g hg).2.2 p hp)⟩) Reach.empty
                have ht1 := reach_wf hr1
                have hbig1 : ∀ c, c ∈ sortCands t1.values → CandBig c := fun c hc =>
                  ⟨(ht1.1 c (mem_sortCands.1 hc)).nodup, (ht1.1 c (mem_sortCands.1 hc)).big⟩
                obtain ⟨hI1, hI2, hI3⟩ := findInterleaved_wf hI hH2 hbig1
                have hr2 : Reach wrap ps t2 := reach_buildCandidates hB2 (by decide)
                  (fun g hg => ⟨(hI1 g hg).1, fun p hp => by
                    rcases (hI1 g hg).2.2 p hp with h1 | ⟨c, hc, hpc⟩
                    · exact hps0 p (hH3 p h1)
                    · exact (ht1.1 c (mem_sortCands.1 hc)).fromInput p hpc⟩) hr1
                have ht2 := reach_wf hr2
                have hbig2 : ∀ c, c ∈ sortCands t2.values → CandBig c := fun c hc =>
                  ⟨(ht2.1 c (mem_sortCands.1 hc)).nodup, (ht2.1 c (mem_sortCands.1 hc)).big⟩
                have hN := findNeighbouring_wf hI2 hbig2
                have hr3 : Reach wrap ps t3 := reach_buildCandidates hB3 (by decide)
                  (fun g hg => ⟨(hN g hg).1, fun p hp => by
                    rcases (hN g hg).2.2 p hp with h1 | ⟨c, hc, hpc⟩
                    · exact hps0 p (hH3 p (hI3 p h1))
                    · exact (ht2.1 c (mem_sortCands.1 hc)).fromInput p hpc⟩) hr2
                exact ⟨t3, _, singles, hr3, nodup_sortProtos (nodup_dedup _), hS, rfl⟩

/-! ### keys of the table -/

def keys (l : List ((Int × Int) × Cand)) : List (Int × Int) := l.map (·.1)

theorem getGo_none {k : Int × Int} {l : List ((Int × Int) × Cand)} (h : getGo k l = none) : k ∉ keys l := by
  induction l with
  | nil => simp [keys]
  | cons e es ih =>
    simp only [getGo] at h
    split at h
    · cases h
    · rename_i hk
      simp only [keys, List.map_cons, List.mem_cons, not_or]
      refine ⟨?_, ih h⟩
      intro e1; apply hk; simp [e1]

theorem keys_setGo (k : Int × Int) (c : Cand) (l : List ((Int × Int) × Cand)) :
    keys (setGo k c l) = if k ∈ keys l then keys l else keys l ++ [k] := by
  induction l with
  | nil => simp [setGo, keys]
  | cons e es ih =>
    simp only [setGo]
    by_cases hk : (e.1 == k) = true
    · have : e.1 = k := by simpa using hk
      simp [hk, keys, this]
    · have hne : ¬ e.1 = k := by simpa using hk
      simp only [hk, Bool.false_eq_true, if_false]
      simp only [keys, List.map_cons] at ih ⊢
      rw [ih]
      by_cases hin : k ∈ List.map (fun x => x.1) es
      · simp [hin]
      · have h1 : ¬ k = e.1 := fun h => hne h.symm
        simp [hin, List.mem_cons, h1]

/-! ### linear records: the key is the hull -/

def lo (ms : List Proto) : Int := minList (ms.map (·.loc.start))
def hi (ms : List Proto) : Int := maxList (ms.map (·.loc.end))

/-- every protocluster's extent is a non-origin-spanning location (linear record) -/
def Linear (ps : List Proto) : Prop := ∀ p, p ∈ ps → p.loc.parts ≠ [] ∧ bridgesOrigin p.loc = false

theorem hull_loc {ps : List Proto} (hlin : Linear ps) {c : Cand} (hok : CandOK none c)
    (hfrom : ∀ m, m ∈ c.members → m ∈ ps) :
    c.loc = .simple ⟨lo c.members, hi c.members, commonStrand (c.members.map (·.loc))⟩ := by
  have hline : ∀ l, l ∈ c.members.map (·.loc) → l.parts ≠ [] ∧ bridgesOrigin l = false := by
    intro l hl
    obtain ⟨m, hm, e⟩ := List.mem_map.1 hl
    subst e
    exact hlin m (hfrom m hm)
  have := connect_line (c.members.map (·.loc)) (by simpa using hok.nonempty) hline
  rw [hok.loc_eq] at this
  injection this with this
  rw [this]
  simp [lo, hi, List.map_map, Function.comp_def]

theorem locKey_simple (p : Part) : locKey (.simple p) = (p.lo, p.hi) := by
  simp only [locKey, featStart, featEnd, Loc.parts, Loc.strand]
  by_cases h : (p.strand != Strand.rev) = true
  · simp [h]
  · simp [h]

theorem hull_key {ps : List Proto} (hlin : Linear ps) {c : Cand} (hok : CandOK none c)
    (hfrom : ∀ m, m ∈ c.members → m ∈ ps) : locKey c.loc = (lo c.members, hi c.members) := by
  rw [hull_loc hlin hok hfrom, locKey_simple]

theorem lo_le_of_sub {a b : List Proto} (ha : a ≠ []) (h : ∀ x, x ∈ a → x ∈ b) : lo b ≤ lo a := by
  have : lo a ∈ a.map (·.loc.start) := minList_mem (by simpa using ha)
  obtain ⟨x, hx, e⟩ := List.mem_map.1 this
  rw [← e]
  exact minList_le_of_mem (List.mem_map.2 ⟨x, h x hx, rfl⟩)

theorem hi_le_of_sub {a b : List Proto} (ha : a ≠ []) (h : ∀ x, x ∈ a → x ∈ b) : hi a ≤ hi b := by
  have : hi a ∈ a.map (·.loc.end) := maxList_mem (by simpa using ha)
  obtain ⟨x, hx, e⟩ := List.mem_map.1 this
  rw [← e]
  exact le_maxList_of_mem (List.mem_map.2 ⟨x, h x hx, rfl⟩)

/-- the hull of a union of two sets with the same two ends has those ends -/
theorem hull_union {a b r : List Proto} (ha : a ≠ []) (hb : b ≠ []) (hlo : lo a = lo b) (hhi : hi a = hi b)
    (hsub : ∀ x, x ∈ a → x ∈ r) (hfrom : ∀ x, x ∈ r → x ∈ a ∨ x ∈ b) : lo r = lo a ∧ hi r = hi a := by
  have hr : r ≠ [] := by
    obtain ⟨x, hx⟩ := List.exists_mem_of_ne_nil a ha
    intro e; have := hsub x hx; rw [e] at this; cases this
  have h1 := lo_le_of_sub ha hsub
  have h2 := hi_le_of_sub ha hsub
  have h3 : lo a ≤ lo r := by
    have : lo r ∈ r.map (·.loc.start) := minList_mem (by simpa using hr)
    obtain ⟨x, hx, e⟩ := List.mem_map.1 this
    rw [← e]
    rcases hfrom x hx with h | h
    · exact minList_le_of_mem (List.mem_map.2 ⟨x, h, rfl⟩)
    · rw [hlo]; exact minList_le_of_mem (List.mem_map.2 ⟨x, h, rfl⟩)
  have h4 : hi r ≤ hi a := by
    have : hi r ∈ r.map (·.loc.end) := maxList_mem (by simpa using hr)
    obtain ⟨x, hx, e⟩ := List.mem_map.1 this
    rw [← e]
    rcases hfrom x hx with h | h
    · exact le_maxList_of_mem (List.mem_map.2 ⟨x, h, rfl⟩)
    · rw [hhi]; exact le_maxList_of_mem (List.mem_map.2 ⟨x, h, rfl⟩)
  omega

/-- linear invariant of the table: distinct keys, each key is its candidate's own key -/
def TableLin (t : Table) : Prop := (keys t.existing).Nodup ∧ ∀ e, e ∈ t.existing → e.1 = locKey e.2.loc

theorem lo_perm {a b : List Proto} (h : ∀ x, x ∈ a ↔ x ∈ b) (ha : a ≠ []) : lo a = lo b ∧ hi a = hi b := by
  have hb : b ≠ [] := by
    obtain ⟨x, hx⟩ := List.exists_mem_of_ne_nil a ha
    intro e; have := (h x).1 hx; rw [e] at this; cases this
  have := lo_le_of_sub ha (fun x hx => (h x).1 hx)
  have := lo_le_of_sub hb (fun x hx => (h x).2 hx)
  have := hi_le_of_sub ha (fun x hx => (h x).1 hx)
  have := hi_le_of_sub hb (fun x hx => (h x).2 hx)
  omega

theorem buildOne_lin {ps : List Proto} (hlin : Linear ps) {kind : Kind} {t t' : Table} {g : List Proto}
    (h : buildOne none kind t g = .ok t') (hk : kind ≠ .single) (hg : g.Nodup) (hgp : ∀ p, p ∈ g → p ∈ ps)
    (hwf : TableWF none ps t) (ht : TableLin t) : TableLin t' := by
  have hwf' := buildOne_wf h hk hg hgp hwf
  unfold buildOne at h
  split at h
  · cases h
  · split at h
    · cases h
    · rename_i cand hcand
      obtain ⟨hkind, hmem, hok⟩ := mkCand_ok hcand
      dsimp only at h
      split at h
      · rename_i hget
        injection h with h; subst h
        have hnot := getGo_none hget
        refine ⟨?_, ?_⟩
        · simp only [Table.set, keys_setGo, if_neg hnot]
          refine List.nodup_append.2 ⟨ht.1, by simp, ?_⟩
          intro x hx y hy e
          have : y = locKey cand.loc := by simpa using hy
          subst this; subst e; exact hnot hx
        · intro e he
          rcases mem_setGo_new he with e1 | e1
          · rw [e1]
          · exact ht.2 e e1
      · rename_i ex hget
        split at h
        · split at h
          · cases h
          injection h with h; subst h; exact ht
        · split at h
          · cases h
          · rename_i repl hrepl
            obtain ⟨hrk, hrm, hrok⟩ := mkCand_ok hrepl
            have hexin := getGo_mem hget
            have hkin : locKey cand.loc ∈ keys t.existing := List.mem_map.2 ⟨_, hexin, rfl⟩
            have hexwf : CandWF none ps ex := hwf.1 ex (mem_values.2 ⟨_, hexin⟩)
            -- the key of the replacement
            have hcandfrom : ∀ m, m ∈ cand.members → m ∈ ps := by
              intro m hm; rw [hmem] at hm; exact hgp m (mem_sortProtos.1 hm)
            have k1 : locKey cand.loc = (lo cand.members, hi cand.members) := hull_key hlin hok hcandfrom
            have k2 : locKey cand.loc = (lo ex.members, hi ex.members) := by
              rw [← hull_key hlin hexwf.ok hexwf.fromInput]; exact ht.2 _ hexin
            have hreplfrom : ∀ m, m ∈ repl.members → m ∈ ps := by
              intro m hm
              rw [hrm] at hm
              rcases List.mem_append.1 (mem_sortProtos.1 hm) with h1 | h1
              · exact hexwf.fromInput m (mem_dedup.1 h1)
              · exact hgp m (mem_dedup.1 (mem_diffL.1 h1).1)
            have hu := hull_union (a := ex.members) (b := cand.members) (r := repl.members) hexwf.ok.nonempty hok.nonempty
              (by have := k1.symm.trans k2; injection this with a b; exact a.symm)
              (by have := k1.symm.trans k2; injection this with a b; exact b.symm)
              (by intro x hx; rw [hrm]; exact mem_sortProtos.2 (List.mem_append.2 (Or.inl (mem_dedup.2 hx))))
              (by
                intro x hx
                rw [hrm] at hx
                rcases List.mem_append.1 (mem_sortProtos.1 hx) with h1 | h1
                · exact Or.inl (mem_dedup.1 h1)
                · right; rw [hmem]; exact mem_sortProtos.2 (mem_dedup.1 (mem_diffL.1 h1).1))
            have k3 : locKey repl.loc = locKey cand.loc := by
              rw [hull_key hlin hrok hreplfrom, k2, hu.1, hu.2]
            injection h with h; subst h
            have hT : TableLin (t.set (locKey cand.loc) repl) := by
              refine ⟨?_, ?_⟩
              · simp only [Table.set, keys_setGo, if_pos hkin]; exact ht.1
              · intro e he
                rcases mem_setGo_new he with e1 | e1
                · rw [e1]; exact k3.symm
                · exact ht.2 e e1
            split
            · exact hT
            · exact hT

theorem reach_lin {ps : List Proto} (hlin : Linear ps) {t : Table} (h : Reach none ps t) : TableLin t := by
  induction h with
  | empty => exact ⟨by simp [keys], fun e he => by cases he⟩
  | step hr hk hg hgp hb ih => exact buildOne_lin hlin hb hk hg hgp (reach_wf hr) ih

/-! ### no duplicates -/

theorem sameMembers_single {a : List Proto} {p : Proto} (h : sameMembers a [p] = true) : ∀ x, x ∈ a → x = p := by
  simp only [sameMembers, Bool.and_eq_true, List.all_eq_true] at h
  intro x hx
  simpa using h.1 x hx

theorem addSingles_pairwise {wrap : Option Int} {t : Table} {l : List Proto} {ss : List Cand}
    (h : addSingles wrap t l = .ok ss) (hn : l.Nodup) :
    ss.Pairwise fun c d => ¬ sameMembers c.members d.members = true := by
  induction l generalizing ss with
  | nil => simp only [addSingles] at h; injection h with h; subst h; exact List.Pairwise.nil
  | cons q rest ih =>
    have hwfall := addSingles_wf h
    simp only [addSingles] at h
    have hnc := List.nodup_cons.1 hn
    cases hrest : addSingles wrap t rest with
    | error e => rw [hrest] at h; cases h
    | ok cs =>
      rw [hrest] at h
      dsimp only at h
      have hrec := ih hrest hnc.2
      have hcs := addSingles_wf hrest
      have single : ∀ ss', (match mkCand wrap Kind.single [q] with
            | Except.error e => Except.error e
            | Except.ok c => Except.ok (c :: cs)) = Except.ok ss' →
          ss'.Pairwise fun c d => ¬ sameMembers c.members d.members = true := by
        intro ss' h
        split at h
        · cases h
        · rename_i c0 hc0
          injection h with h; subst h
          obtain ⟨_, hm0, _⟩ := mkCand_ok hc0
          refine List.Pairwise.cons ?_ hrec
          intro d hd hs
          obtain ⟨_, _, p, hp, e, _⟩ := hcs d hd
          rw [hm0, e] at hs
          have := sameMembers_single hs q (by simp)
          subst this
          exact hnc.1 hp
      cases hget : t.get (locKey q.loc) with
      | none =>
        simp only [hget, Bool.false_eq_true, if_false] at h
        exact single ss h
      | some ex =>
        simp only [hget] at h
        by_cases hm : ex.members.contains q = true
        · simp only [hm, if_true] at h
          injection h with h; subst h
          exact hrec
        · simp only [hm, Bool.false_eq_true, if_false] at h
          exact single ss h

theorem coords_simple_key {a b : Part} (h : coords (.simple a) = coords (.simple b)) :
    locKey (.simple a) = locKey (.simple b) := by
  rw [locKey_simple, locKey_simple]
  simp only [coords, Loc.parts, List.map_cons, List.map_nil, List.cons.injEq, Prod.mk.injEq, and_true] at h
  rw [h.1, h.2]

theorem formation_noDuplicates_linear {ps : List Proto} {cs : List Cand} (hn : ps.Nodup) (hlin : Linear ps)
    (h : formation ps none = .ok cs) : noDuplicates cs = true := by
  obtain ⟨cs0, h0, e⟩ := formation_ok_core h
  subst e
  by_cases hne : ps = []
  · subst hne
    simp only [formationCore, List.isEmpty_nil, if_true] at h0
    injection h0 with h0; subst h0
    rfl
  obtain ⟨t3, l, singles, hr, hln, hS, e⟩ := formationCore_struct h0 hn hne
  subst e
  have hwf := reach_wf hr
  have hlinT := reach_lin hlin hr
  refine noDuplicates_perm (perm_sortCands _).symm ?_
  refine noDuplicates_perm (List.Perm.append_right singles (perm_sortCands t3.values).symm) ?_
  rw [noDuplicates_iff, List.pairwise_append]
  refine ⟨?_, ?_, ?_⟩
  · -- table values: distinct keys
    simp only [Table.values, List.pairwise_map]
    have hk : t3.existing.Pairwise fun e f => e.1 ≠ f.1 := by
      have := hlinT.1
      simpa [keys, List.Nodup, List.pairwise_map] using this
    refine hk.imp_of_mem ?_
    intro e f he hf hne hdup
    apply hne
    rw [hlinT.2 e he, hlinT.2 f hf]
    have we := hwf.1 e.2 (mem_values.2 ⟨e.1, he⟩)
    have wf' := hwf.1 f.2 (mem_values.2 ⟨f.1, hf⟩)
    have c1 := hdup.1
    rw [hull_loc hlin we.ok we.fromInput, hull_loc hlin wf'.ok wf'.fromInput] at c1 ⊢
    exact coords_simple_key c1
  · exact (addSingles_pairwise hS hln).imp (fun hxy hd => hxy hd.2)
  · intro c hc d hd hdup
    have wc := hwf.1 c hc
    obtain ⟨_, _, p, _, e, _⟩ := addSingles_wf hS d hd
    have hs := hdup.2
    rw [e] at hs
    have hall := sameMembers_single hs
    obtain ⟨x, y, hx, hy, hxy⟩ := two_of_nodup wc.nodup wc.big
    exact hxy ((hall x hx).trans (hall y hy).symm)

end ASV.CC
