/-
  C12: the main lemmas behind the property theorems — every feature written covers the same bases
  as the feature of the full record it was made from.
-/
import ASV.Proofs.RegionExtractRotate
set_option linter.unusedSimpArgs false
namespace ASV.RegionExtract
open ASV

theorem sliceSeq_length (s : List Char) (a b : Int) (h0 : 0 ≤ a) (h1 : a ≤ b) (h2 : b ≤ s.length) :
    ((sliceSeq s a b).length : Int) = b - a := by
  unfold sliceSeq
  simp only [List.length_drop, List.length_take]
  omega

theorem oneStrand_unpack (l : Loc) (h : oneStrand l = true) : ∃ s, ∀ p ∈ l.parts, p.strand = s := by
  unfold oneStrand at h
  split at h
  · cases h
  · rename_i p ps hps
    refine ⟨p.strand, ?_⟩
    intro q hq
    rw [hps] at hq
    rcases List.mem_cons.1 hq with rfl | hq
    · rfl
    · have := List.all_eq_true.1 h q hq
      simpa using this

/-- what `wfInput` says about one feature when the region runs over the origin -/
def CrossOK (L : Int) (l : Loc) : Prop :=
  (bridgesOrigin l = true ∧ twoPart L l = true) ∨ (l.len ≠ L ∧ oneStrand l = true)

/-- unpacking `wfInput` -/
theorem wf_unpack (rd : RegionData) (rec : BioRecord) (h : wfInput rd rec = true) :
    0 < rec.length ∧
    (rd.crossesOrigin = true → 0 < rd.end ∧ rd.end ≤ rd.start ∧ rd.start < rec.length) ∧
    (rd.crossesOrigin = false → 0 ≤ rd.start ∧ rd.end ≤ rec.length) ∧
    ∀ f ∈ rec.features, (f.loc.parts ≠ [] ∧ ∀ p ∈ f.loc.parts, PartIn rec.length p) ∧
      (rd.crossesOrigin = true → CrossOK rec.length f.loc) := by
  unfold wfInput at h
  simp only [Bool.and_eq_true, decide_eq_true_eq, List.all_eq_true] at h
  obtain ⟨⟨hL, hreg⟩, hf⟩ := h
  refine ⟨hL, ?_, ?_, ?_⟩
  · intro hc
    rw [hc] at hreg
    simp only [if_true, Bool.and_eq_true, decide_eq_true_eq] at hreg
    exact ⟨hreg.1.1, hreg.1.2, hreg.2⟩
  · intro hc
    rw [hc] at hreg
    simp only [Bool.false_eq_true, if_false, Bool.and_eq_true, decide_eq_true_eq] at hreg
    exact hreg
  · intro f hfm
    obtain ⟨hp, hs⟩ := hf f hfm
    unfold partsOK at hp
    simp only [Bool.and_eq_true, Bool.not_eq_true', List.isEmpty_eq_false_iff, List.all_eq_true, decide_eq_true_eq] at hp
    refine ⟨⟨hp.1, fun p hpm => ?_⟩, ?_⟩
    · have := hp.2 p hpm
      exact ⟨this.1.1, this.1.2, this.2⟩
    · intro hc
      rw [hc] at hs
      simp only [Bool.not_true, Bool.false_or, Bool.or_eq_true, Bool.and_eq_true, decide_eq_true_eq] at hs
      exact hs

/-- a two-part origin-spanning location ends at the record's end -/
theorem twoPart_end (L : Int) (l : Loc) (h : twoPart L l = true) (hL : 0 < L) : l.end = L := by
  unfold twoPart at h
  split at h
  · rename_i a b
    simp only [Bool.and_eq_true, Bool.or_eq_true, decide_eq_true_eq] at h
    rw [end_two]
    rcases h.2 with h | h <;> omega
  · cases h

/-- the rotation of a two-part origin-spanning location by `offset_location` -/
theorem twoPart_offset (L st : Int) (l : Loc) (h : twoPart L l = true) (hst0 : 0 < st) (hstL : st < L) :
    ∃ r, offsetLocation l (-st) L = .ok r ∧
      ∀ i, (wholeFix L r).mem i = true ↔ (0 ≤ i ∧ i < L ∧ l.mem ((st + i) % L) = true) := by
  unfold twoPart at h
  split at h
  · rename_i a b
    simp only [Bool.and_eq_true, Bool.or_eq_true, decide_eq_true_eq, beq_iff_eq] at h
    obtain ⟨hs, h⟩ := h
    obtain ⟨alo, ahi, as⟩ := a
    obtain ⟨blo, bhi, bs⟩ := b
    simp only at hs h
    subst hs
    rcases h with ⟨⟨⟨⟨h1, h2⟩, h3⟩, h4⟩, h5⟩ | ⟨⟨⟨⟨h1, h2⟩, h3⟩, h4⟩, h5⟩
    · subst h1 h2
      exact cross_two_fwd alo bhi st ahi as h3 h4 h5 hst0 hstL
    · subst h1 h2
      exact cross_two_rev blo ahi st bhi as h3 h4 h5 hst0 hstL
  · cases h

theorem emod_sub_L (a L : Int) : (a - L) % L = a % L := by
  have : a - L = a + (-1) * L := by omega
  rw [this, Int.add_mul_emod_self_right]

/-- length of the sequence of a region over the origin -/
theorem cross_len (rd : RegionData) (rec : BioRecord) (he0 : 0 < rd.end) (hes : rd.end ≤ rd.start)
    (hsL : rd.start < rec.length) :
    ((sliceSeq rec.seq rd.start rec.length ++ sliceSeq rec.seq 0 rd.end).length : Int) = rec.length - rd.start + rd.end := by
  have hlen1 := sliceSeq_length rec.seq rd.start rec.length (by omega) (by omega) (by simp [BioRecord.length])
  have hlen2 := sliceSeq_length rec.seq 0 rd.end (by omega) (by omega) (by simp [BioRecord.length] at hsL ⊢; omega)
  rw [List.length_append]; push_cast; rw [hlen1, hlen2]; omega

/-- what `offset_location` with `-start` makes of a feature running over the origin, after the whole-record
    adjustment: the rotated bases -/
theorem cross_rotated (rd : RegionData) (L : Int) (l : Loc) (hL : 0 < L) (hst0 : 0 < rd.start) (hstL : rd.start < L)
    (hne : l.parts ≠ []) (hparts : ∀ p ∈ l.parts, PartIn L p) (hb : bridgesOrigin l = true) (hok : CrossOK L l) :
    ∃ r, offsetLocation l (-rd.start) L = .ok r ∧
      ∀ i, (wholeFix L r).mem i = true ↔ (0 ≤ i ∧ i < L ∧ l.mem ((rd.start + i) % L) = true) := by
  rcases hok with ⟨_, htwo⟩ | ⟨hlen, hr1⟩
  · exact twoPart_offset L rd.start l htwo hst0 hstL
  · obtain ⟨s, hs⟩ := oneStrand_unpack l hr1
    obtain ⟨r, hr, _, hrl, hmem⟩ := offset_rotates_general l (-rd.start) L s hne hparts hs (by omega) (by omega) (by omega) hlen
    refine ⟨r, hr, fun i => ?_⟩
    have hw : wholeFix L r = r := by unfold wholeFix; rw [hrl]; simp [hlen]
    rw [hw, hmem i]
    have : i - -rd.start = rd.start + i := by omega
    rw [this]

/-- every feature of the region record (before renumbering) covers the same bases as its source -/
theorem origin_sameBases (rd : RegionData) (rec : BioRecord) (hwf : wfInput rd rec = true) (g : BioFeature)
    (ho : Origin rd rec g) :
    ∃ f ∈ rec.features, g.tag = f.tag ∧ g.type = f.type ∧ g.q = f.q ∧ SameBases rec.length rd f.loc g.loc := by
  obtain ⟨hL, hcross, hplain, hfeat⟩ := wf_unpack rd rec hwf
  cases ho with
  | plain f hf hc h1 h2 hg =>
    subst hg
    exact ⟨f, hf, rfl, rfl, rfl, sameBases_plain _ rd f.loc hc h1 h2⟩
  | pre f hf hc h1 h2 hg =>
    subst hg
    obtain ⟨he0, hes, hsL⟩ := hcross hc
    exact ⟨f, hf, rfl, rfl, rfl, sameBases_pre _ rd f.loc hc hL he0 hes hsL h1 h2⟩
  | post f hf hc h1 h2 l hl hg =>
    subst hg
    obtain ⟨he0, hes, hsL⟩ := hcross hc
    obtain ⟨⟨hne, hparts⟩, hok⟩ := hfeat f hf
    have hok := hok hc
    -- the feature is shorter than the record and may be rotated by `L - start`
    have hrot : f.loc.len ≠ rec.length ∧ oneStrand f.loc = true := by
      rcases hok with ⟨_, htwo⟩ | h
      · have := twoPart_end _ f.loc htwo hL; omega
      · exact h
    obtain ⟨s, hs⟩ := oneStrand_unpack f.loc hrot.2
    obtain ⟨r, hr, _, _, hmem⟩ := offset_rotates_general f.loc (rec.length - rd.start) rec.length s hne hparts hs
      (by omega) (by omega) (by omega) hrot.1
    rw [hr] at hl
    injection hl with hl
    subst hl
    refine ⟨f, hf, rfl, rfl, rfl, ?_⟩
    intro i
    have hw : wraps rd = true := by rw [wraps_eq, hc]
    simp only [regionLen, toRecord, hw, if_true]
    rw [hmem i]
    have e : (i - (rec.length - rd.start)) % rec.length = (rd.start + i) % rec.length := by
      have : i - (rec.length - rd.start) = (rd.start + i) - rec.length := by omega
      rw [this, emod_sub_L]
    rw [e]
    constructor
    · rintro ⟨h0, hlt, hm⟩
      refine ⟨h0, ?_, hm⟩
      have hb := mem_bounds f.loc _ hm
      by_cases hlt2 : rd.start + i < rec.length
      · rw [emod_small' _ _ (by omega) hlt2] at hb; omega
      · rw [emod_big' _ _ (by omega) (by omega)] at hb; omega
    · rintro ⟨h0, hlt, hm⟩
      exact ⟨h0, by omega, hm⟩
  | cross f hf hc hb l hl hk hnb hg =>
    subst hg
    obtain ⟨he0, hes, hsL⟩ := hcross hc
    obtain ⟨⟨hne, hparts⟩, hok⟩ := hfeat f hf
    obtain ⟨r, hr, hmem⟩ := cross_rotated rd rec.length f.loc hL (by omega) hsL hne hparts hb (hok hc)
    rw [hr] at hl
    injection hl with hl
    subst hl
    refine ⟨f, hf, rfl, rfl, rfl, ?_⟩
    intro i
    have hw : wraps rd = true := by rw [wraps_eq, hc]
    rw [cross_len rd rec he0 hes hsL] at hk
    simp only [regionLen, toRecord, hw, if_true]
    rw [hmem i]
    constructor
    · rintro ⟨h0, h1, h2⟩
      have hb' := mem_bounds _ i ((hmem i).2 ⟨h0, h1, h2⟩)
      exact ⟨h0, by omega, h2⟩
    · rintro ⟨h0, h1, h2⟩
      exact ⟨h0, by omega, h2⟩

/-- `_adjust_features` keeps tags, types, locations and the order of the features -/
theorem adjusted_mem (rd : RegionData) (L : Int) (ws adjusted : List Working) (h : adjustFeatures rd L ws = .ok adjusted)
    (g : BioFeature) (hg : g ∈ adjusted.map (·.f)) :
    ∃ w ∈ ws, adjustFeature rd L (renumbering rd L) w.f = .ok g := by
  obtain ⟨w', hw', rfl⟩ := List.mem_map.1 hg
  unfold adjustFeatures at h
  obtain ⟨w, hw, hstep⟩ := mapE_mem _ ws adjusted h w' hw'
  refine ⟨w, hw, ?_⟩
  split at hstep
  · cases hstep
  · rename_i g' hg'
    injection hstep with hstep
    subst hstep
    exact hg'

/-- unfolding `write_to_genbank`: the written features are the adjusted features of the base record -/
theorem written_features (rd : RegionData) (rec : BioRecord) (w : Written) (h : writeToGenbank rd rec = .ok w) :
    ∃ seq ws parent adjusted, buildBaseRecord rd rec = .ok (seq, ws, parent) ∧
      adjustFeatures rd rec.length ws = .ok adjusted ∧ w.extract.features = adjusted.map (·.f) := by
  unfold writeToGenbank at h
  simp only [bind, Except.bind, pure, Except.pure] at h
  split at h
  · cases h
  · rename_i v hb
    obtain ⟨seq, ws, parent1⟩ := v
    simp only at h
    split at h
    · cases h
    · rename_i adjusted ha
      injection h with h; subst h
      exact ⟨seq, ws, parent1, adjusted, hb, ha, rfl⟩

/-- every written feature comes from a feature of the full record and covers the same bases -/
theorem written_sameBases (rd : RegionData) (rec : BioRecord) (w : Written) (h : writeToGenbank rd rec = .ok w)
    (hwf : wfInput rd rec = true) (g : BioFeature) (hg : g ∈ w.extract.features) :
    ∃ f ∈ rec.features, g.tag = f.tag ∧ g.type = f.type ∧ SameBases rec.length rd f.loc g.loc := by
  obtain ⟨seq, ws, parent, adjusted, hb, ha, hfe⟩ := written_features rd rec w h
  rw [hfe] at hg
  obtain ⟨w0, hw0, hadj⟩ := adjusted_mem rd _ ws adjusted ha g hg
  obtain ⟨ht, hty, hloc⟩ := adjustFeature_same rd _ _ w0.f g hadj
  obtain ⟨f, hf, h1, h2, _, h4⟩ := origin_sameBases rd rec hwf w0.f (base_origin rd rec seq ws parent hb w0 hw0)
  exact ⟨f, hf, by rw [ht, h1], by rw [hty, h2], by rw [hloc]; exact h4⟩

/-! ### renumbering -/

theorem renumberList_through (d : List (Int × Int)) (xs ys : List Int) (h : renumberList d xs = .ok ys) :
    Through d xs ys := by
  unfold renumberList at h
  unfold Through
  split at h
  · rename_i he
    injection h with h; subst h
    have : xs = [] := by simpa using he
    rw [this]; rfl
  · exact h

theorem adjustFeature_refs (rd : RegionData) (L : Int) (f g : BioFeature)
    (h : adjustFeature rd L (renumbering rd L) f = .ok g) : RefsThrough (renumbering rd L) f.type f.q g.q := by
  unfold adjustFeature at h
  unfold RefsThrough
  split at h
  · -- region
    rename_i ht
    have ht' : f.type = "region" := by simpa using ht
    refine ⟨fun _ => ?_, fun e => by rw [ht'] at e; exact absurd e (by decide),
      fun e => by rw [ht'] at e; rcases e with e | e <;> exact absurd e (by decide),
      fun e => by rw [ht'] at e; exact absurd e (by decide)⟩
    split at h
    · cases h
    · rename_i cands hc
      split at h
      · cases h
      · rename_i subs hs
        injection h with h; subst h
        exact ⟨renumberList_through _ _ _ hc, renumberList_through _ _ _ hs⟩
  · rename_i hnr
    have hnr' : f.type ≠ "region" := by simpa using hnr
    split at h
    · -- cand_cluster
      rename_i ht
      have ht' : f.type = "cand_cluster" := by simpa using ht
      refine ⟨fun e => absurd e hnr', fun _ => ?_,
        fun e => by rw [ht'] at e; rcases e with e | e <;> exact absurd e (by decide),
        fun e => by rw [ht'] at e; exact absurd e (by decide)⟩
      split at h
      · cases h
      · rename_i n hn
        split at h
        · cases h
        · rename_i m hm
          split at h
          · cases h
          · rename_i ps hps
            split at h
            · cases h
            · rename_i ps' hps'
              injection h with h; subst h
              exact ⟨n, m, ps, ps', hn, rfl, hm, hps, rfl, hps'⟩
    · rename_i hnc
      have hnc' : f.type ≠ "cand_cluster" := by simpa using hnc
      split at h
      · -- protocluster / proto_core
        rename_i ht
        refine ⟨fun e => absurd e hnr', fun e => absurd e hnc', fun _ => ?_, fun e => ?_⟩
        · split at h
          · cases h
          · rename_i n hn
            split at h
            · cases h
            · rename_i p hp
              split at h
              · cases h
              · rename_i m hm
                unfold adjustProtocluster at h
                split at h
                · split at h
                  · cases h
                  · injection h with h; subst h
                    exact ⟨n, m, hn, rfl, hm⟩
                · injection h with h; subst h
                  exact ⟨n, m, hn, rfl, hm⟩
        · exfalso
          simp only [Bool.or_eq_true, beq_iff_eq] at ht
          rw [e] at ht
          rcases ht with ht | ht <;> exact absurd ht (by decide)
      · rename_i hnp
        have hnp' : ¬ (f.type = "protocluster" ∨ f.type = "proto_core") := by simpa using hnp
        split at h
        · -- subregion
          refine ⟨fun e => absurd e hnr', fun e => absurd e hnc', fun e => absurd e hnp', fun _ => ?_⟩
          split at h
          · cases h
          · rename_i n hn
            split at h
            · cases h
            · rename_i m hm
              injection h with h; subst h
              exact ⟨n, m, hn, rfl, hm⟩
        · rename_i hns
          have hns' : f.type ≠ "subregion" := by simpa using hns
          exact ⟨fun e => absurd e hnr', fun e => absurd e hnc', fun e => absurd e hnp', fun e => absurd e hns'⟩

/-- the three renumberings of a region are bijections onto `1..n` following the position in the file -/
theorem renumbering_good (rd : RegionData) (L : Int) :
    GoodNumbering rd L ((protoDict rd).map fun kv => (kv.1, kv.2.loc)) (renumbering rd L).protos ∧
    GoodNumbering rd L (candDict rd) (renumbering rd L).cands ∧
    GoodNumbering rd L (subDict rd) (renumbering rd L).subs := by
  refine ⟨?_, ?_, ?_⟩
  · apply numberByPosition_spec
    rw [List.map_map]
    exact protoDict_nodup rd
  · exact numberByPosition_spec _ rd L (candDict_nodup rd)
  · exact numberByPosition_spec _ rd L (subDict_nodup rd)

/-- the tie rule: in a good numbering, areas with the same position and size are numbered in the order of
    their record-wide numbers (the last component of the sort key decides) -/
theorem good_ties {rd : RegionData} {L : Int} {areas : List (Int × Loc)} {ν : List (Int × Int)}
    (h : GoodNumbering rd L areas ν) : TiesByRecordNumber rd L areas ν := by
  intro a b la lb m m' ha hb hm hm' h1 h2
  obtain ⟨_, _, hord⟩ := h
  obtain ⟨hle, heq⟩ := hord a b la lb m m' ha hb hm hm'
  obtain ⟨hle', _⟩ := hord b a lb la m' m hb ha hm' hm
  have ka : (positionKey rd L a la).2.2 = a := rfl
  have kb : (positionKey rd L b lb).2.2 = b := rfl
  rw [keyLe_iff, ka, kb] at hle hle'
  have hab : a = b → m = m' := by
    intro e; subst e; rw [hm] at hm'; injection hm'
  constructor
  · intro hlt
    have h3 : ¬ (m' ≤ m) := by omega
    have h4 := mt hle'.mpr h3
    omega
  · intro hlt
    have h3 : m ≤ m' := hle.mpr (by omega)
    have h4 : m ≠ m' := fun e => by have := heq e; omega
    omega

/-- the three renumberings of a region break ties by record-wide number -/
theorem renumbering_ties (rd : RegionData) (L : Int) :
    TiesByRecordNumber rd L ((protoDict rd).map fun kv => (kv.1, kv.2.loc)) (renumbering rd L).protos ∧
    TiesByRecordNumber rd L (candDict rd) (renumbering rd L).cands ∧
    TiesByRecordNumber rd L (subDict rd) (renumbering rd L).subs :=
  ⟨good_ties (renumbering_good rd L).1, good_ties (renumbering_good rd L).2.1, good_ties (renumbering_good rd L).2.2⟩

/-- every written feature carries the numbering qualifiers of its source sent through the region's renumbering -/
theorem written_refs (rd : RegionData) (rec : BioRecord) (w : Written) (h : writeToGenbank rd rec = .ok w)
    (g : BioFeature) (hg : g ∈ w.extract.features) :
    ∃ f ∈ rec.features, g.tag = f.tag ∧ g.type = f.type ∧ RefsThrough (renumbering rd rec.length) f.type f.q g.q := by
  obtain ⟨seq, ws, parent, adjusted, hb, ha, hfe⟩ := written_features rd rec w h
  rw [hfe] at hg
  obtain ⟨w0, hw0, hadj⟩ := adjusted_mem rd _ ws adjusted ha g hg
  obtain ⟨ht, hty, _⟩ := adjustFeature_same rd _ _ w0.f g hadj
  have hrefs := adjustFeature_refs rd _ w0.f g hadj
  have ho := base_origin rd rec seq ws parent hb w0 hw0
  have : ∃ f ∈ rec.features, w0.f.tag = f.tag ∧ w0.f.type = f.type ∧ w0.f.q = f.q := by
    cases ho with
    | plain f hf _ _ _ hg => exact ⟨f, hf, by rw [hg], by rw [hg], by rw [hg]⟩
    | pre f hf _ _ _ hg => exact ⟨f, hf, by rw [hg], by rw [hg], by rw [hg]⟩
    | post f hf _ _ _ _ _ hg => exact ⟨f, hf, by rw [hg], by rw [hg], by rw [hg]⟩
    | cross f hf _ _ _ _ _ _ hg => exact ⟨f, hf, by rw [hg], by rw [hg], by rw [hg]⟩
  obtain ⟨f, hf, h1, h2, h3⟩ := this
  refine ⟨f, hf, by rw [ht, h1], by rw [hty, h2], ?_⟩
  rw [← h2, ← h3]
  exact hrefs

end ASV.RegionExtract
