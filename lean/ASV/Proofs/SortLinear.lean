/-
  C05: on a linear record `CDSCollection.__lt__` is the key order (start ascending, longer first),
  a strict weak order, so every `sorted(...)` of protoclusters / candidates in the model is the plain
  stable sort by that key.
-/
import ASV.Proofs.SortModel
set_option linter.unusedSectionVars false
set_option linter.unusedVariables false
set_option linter.unusedSimpArgs false
namespace ASV.CC

/-! ### `pySort` only looks at the elements of its input -/

section
variable {α : Type} [DecidableEq α]

theorem countRunGo_congr (lt1 lt2 : α → α → Bool) (desc : Bool) (prev : α) (k : Nat) (rest : List α)
    (h : ∀ a b, a ∈ prev :: rest → b ∈ prev :: rest → lt1 a b = lt2 a b) :
    countRunGo lt1 desc prev k rest = countRunGo lt2 desc prev k rest := by
  induction rest generalizing prev k with
  | nil => rfl
  | cons x xs ih =>
    simp only [countRunGo]
    rw [h x prev (by simp) (by simp)]
    have := ih x (k + 1) (fun a b ha hb => h a b (List.mem_cons_of_mem _ ha) (List.mem_cons_of_mem _ hb))
    rw [this]

theorem countRun_congr (lt1 lt2 : α → α → Bool) (l : List α) (h : ∀ a b, a ∈ l → b ∈ l → lt1 a b = lt2 a b) :
    countRun lt1 l = countRun lt2 l := by
  match l with
  | [] => rfl
  | [a] => rfl
  | a :: b :: rest =>
    simp only [countRun]
    rw [h b a (by simp) (by simp)]
    have e : ∀ d, countRunGo lt1 d b 2 rest = countRunGo lt2 d b 2 rest := fun d =>
      countRunGo_congr lt1 lt2 d b 2 rest (fun x y hx hy => h x y (List.mem_cons_of_mem _ hx) (List.mem_cons_of_mem _ hy))
    rw [e true, e false]

theorem binSearch_congr (lt1 lt2 : α → α → Bool) (s : List α) (pivot : α) (h : ∀ y, y ∈ s → lt1 pivot y = lt2 pivot y)
    (fuel l r : Nat) : binSearch lt1 s pivot fuel l r = binSearch lt2 s pivot fuel l r := by
  induction fuel generalizing l r with
  | zero => rfl
  | succ n ih =>
    simp only [binSearch]
    split
    · cases hx : s[l + (r - l) / 2]? with
      | none => rfl
      | some x =>
        simp only
        rw [h x (List.mem_of_getElem? hx), ih, ih]
    · rfl

theorem binInsert_congr (lt1 lt2 : α → α → Bool) (s : List α) (pivot : α) (h : ∀ y, y ∈ s → lt1 pivot y = lt2 pivot y) :
    binInsert lt1 s pivot = binInsert lt2 s pivot := by
  simp only [binInsert, binSearch_congr lt1 lt2 s pivot h]

theorem foldl_binInsert_congr (lt1 lt2 : α → α → Bool) (l : List α) (h : ∀ a b, a ∈ l → b ∈ l → lt1 a b = lt2 a b) :
    ∀ (rest run : List α), (∀ x, x ∈ rest → x ∈ l) → (∀ x, x ∈ run → x ∈ l) →
      rest.foldl (binInsert lt1) run = rest.foldl (binInsert lt2) run := by
  intro rest
  induction rest with
  | nil => intro run _ _; rfl
  | cons x xs ih =>
    intro run hr hrun
    simp only [List.foldl_cons]
    rw [binInsert_congr lt1 lt2 run x (fun y hy => h x y (hr x List.mem_cons_self) (hrun y hy))]
    apply ih
    · exact fun y hy => hr y (List.mem_cons_of_mem _ hy)
    · intro y hy
      rcases List.mem_cons.1 ((perm_binInsert lt2 run x).mem_iff.1 hy) with e | e
      · rw [e]; exact hr x List.mem_cons_self
      · exact hrun y e

theorem pySort_congr (lt1 lt2 : α → α → Bool) (l : List α) (h : ∀ a b, a ∈ l → b ∈ l → lt1 a b = lt2 a b) :
    pySort lt1 l = pySort lt2 l := by
  simp only [pySort, countRun_congr lt1 lt2 l h]
  apply foldl_binInsert_congr lt1 lt2 l h
  · exact fun x hx => List.mem_of_mem_drop hx
  · intro x hx
    split at hx
    · exact List.mem_of_mem_take (List.mem_reverse.1 hx)
    · exact List.mem_of_mem_take hx

end

/-! ### the collection order on single-part locations -/

/-- start ascending, then longer first -/
def locKeyLt (a b : Loc) : Bool := decide (a.start < b.start) || (a.start == b.start && decide (b.len < a.len))

theorem locKeyLt_weak {α : Type} (f : α → Loc) : WeakOrder (fun a b : α => locKeyLt (f a) (f b)) := by
  refine ⟨?_, ?_, ?_⟩
  · intro a; simp [locKeyLt]
  · intro a b c h1 h2
    simp only [locKeyLt, Bool.or_eq_true, Bool.and_eq_true, decide_eq_true_eq, beq_iff_eq] at *
    omega
  · intro a b c h1 h2 h3 h4
    simp only [locKeyLt, Bool.or_eq_false_iff, Bool.and_eq_false_iff, decide_eq_false_iff_not, beq_eq_false_iff_ne] at *
    omega

theorem locKeyLt_simple (p q : Part) :
    locKeyLt (.simple p) (.simple q) = (decide (p.lo < q.lo) || (p.lo == q.lo && decide (q.hi - q.lo < p.hi - p.lo))) := by
  have e1 : (Loc.simple p).start = p.lo := rfl
  have e2 : (Loc.simple q).start = q.lo := rfl
  have e3 : (Loc.simple p).len = p.hi - p.lo := by simp [Loc.len, Loc.parts, Part.len]
  have e4 : (Loc.simple q).len = q.hi - q.lo := by simp [Loc.len, Loc.parts, Part.len]
  simp only [locKeyLt]
  rw [e1, e2, e3, e4]

theorem locLt_simple (p q : Part) (hp : p.lo ≤ p.hi) (hq : q.lo ≤ q.hi) :
    locLt (.simple p) (.simple q) = locKeyLt (.simple p) (.simple q) := by
  rw [locKeyLt_simple]
  simp only [locLt, collectionLt, comparatorStart, bridgesOrigin, Bool.false_eq_true, if_false, bind, Except.bind, pure,
    Except.pure, locationContainsOther, Loc.parts, List.all_cons, List.all_nil, List.any_cons, List.any_nil, Bool.or_false,
    Bool.and_true, partContains, Loc.start, Loc.len, List.map, List.sum_cons, List.sum_nil, Part.len]
  split
  · rename_i v hv
    split at hv
    · rename_i hc
      injection hv with hv
      subst hv
      simp only [Bool.and_eq_true, decide_eq_true_eq, Bool.not_eq_true', Bool.and_eq_false_iff, decide_eq_false_iff_not] at hc
      symm
      simp only [Bool.or_eq_true, Bool.and_eq_true, decide_eq_true_eq, beq_iff_eq]
      omega
    · injection hv with hv
      subst hv
      rw [Bool.eq_iff_iff]
      simp
  · rename_i a hv
    split at hv <;> cases hv

/-- a single-part extent -/
def SimpleLoc (l : Loc) : Prop := ∃ p, l = .simple p ∧ p.lo ≤ p.hi

/-- on a linear record `sorted(candidates)` is the stable sort by (start, longer first) -/
theorem sortCands_linear {l : List Cand} (hn : l.Nodup) (hs : ∀ c, c ∈ l → SimpleLoc c.loc) :
    sortCands l = sortBy (fun a b => locKeyLt a.loc b.loc) l := by
  have hc : ∀ a b, a ∈ l → b ∈ l → candLt a b = locKeyLt a.loc b.loc := by
    intro a b ha hb
    obtain ⟨p, hp, h1⟩ := hs a ha
    obtain ⟨q, hq, h2⟩ := hs b hb
    simp only [candLt, hp, hq]
    exact locLt_simple p q h1 h2
  rw [sortCands, pySort_congr candLt (fun a b => locKeyLt a.loc b.loc) l hc]
  exact pySort_eq_sortBy (locKeyLt_weak (fun c : Cand => c.loc)) hn

/-- … and `_sorted_protoclusters` the stable sort by (start, longer first) of the list pre-sorted by
    (product, core start, core end) -/
theorem sortProtos_linear {l : List Proto} (hn : l.Nodup) (hs : ∀ p, p ∈ l → SimpleLoc p.loc) :
    sortProtos l = sortBy (fun a b => locKeyLt a.loc b.loc) (sortBy tieLt l) := by
  have hn' : (sortBy tieLt l).Nodup := nodup_sortBy _ hn
  have hc : ∀ a b, a ∈ sortBy tieLt l → b ∈ sortBy tieLt l → protoLt a b = locKeyLt a.loc b.loc := by
    intro a b ha hb
    obtain ⟨p, hp, h1⟩ := hs a ((mem_sortBy _ _ _).1 ha)
    obtain ⟨q, hq, h2⟩ := hs b ((mem_sortBy _ _ _).1 hb)
    simp only [protoLt, hp, hq]
    exact locLt_simple p q h1 h2
  rw [sortProtos, pySort_congr protoLt (fun a b => locKeyLt a.loc b.loc) _ hc]
  exact pySort_eq_sortBy (locKeyLt_weak (fun p : Proto => p.loc)) hn'

end ASV.CC
