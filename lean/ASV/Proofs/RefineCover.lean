/-
  Helper lemmas for C13: merging loses nothing — every fragment handed to a merge stage lies
  inside a produced hit of its profile.
-/
import ASV.Proofs.RefineOverlap
namespace ASV.Refine

structure Covers (m x : Hit) : Prop where
  prof : m.prof = x.prof
  lo : m.qs ≤ x.qs
  hi : x.qe ≤ m.qe
  sc : x.sc ≤ m.sc
  ev : m.ev ≤ x.ev

theorem covers_iff (m x : Hit) : covers m x = true ↔ Covers m x := by
  simp only [covers, Bool.and_eq_true, beq_iff_eq, decide_eq_true_eq]
  constructor
  · rintro ⟨⟨⟨⟨a, b⟩, c⟩, d⟩, e⟩; exact ⟨a, b, c, d, e⟩
  · rintro ⟨a, b, c, d, e⟩; exact ⟨⟨⟨⟨a, b⟩, c⟩, d⟩, e⟩

theorem Covers.refl (x : Hit) : Covers x x := ⟨rfl, Int.le_refl _, Int.le_refl _, Int.le_refl _, Int.le_refl _⟩

theorem Covers.trans {a b c : Hit} (h1 : Covers a b) (h2 : Covers b c) : Covers a c :=
  ⟨h1.prof.trans h2.prof, Int.le_trans h1.lo h2.lo, Int.le_trans h2.hi h1.hi, Int.le_trans h2.sc h1.sc,
    Int.le_trans h1.ev h2.ev⟩

theorem Covers.merge_left (m o : Hit) : Covers (m.merge o) m := by
  refine ⟨rfl, ?_, ?_, ?_, ?_⟩ <;> simp only [Hit.merge] <;> omega

theorem Covers.merge_right {m o : Hit} (h : o.prof = m.prof) : Covers (m.merge o) o := by
  refine ⟨h.symm, ?_, ?_, ?_, ?_⟩ <;> simp only [Hit.merge] <;> omega

theorem mergeImmFrom_covers (env : Env) : ∀ (last : Hit) (rest : List Hit) (x : Hit),
    (Covers last x ∨ x ∈ rest) → ∃ o ∈ mergeImmFrom env last rest, Covers o x
  | last, [], x, h => by
    rcases h with h | h
    · exact ⟨last, by simp [mergeImmFrom], h⟩
    · simp at h
  | last, d :: rest, x, h => by
    have keep : ∃ o ∈ last :: mergeImmFrom env d rest, Covers o x := by
      rcases h with h | h
      · exact ⟨last, by simp, h⟩
      · have : Covers d x ∨ x ∈ rest := by
          rcases List.mem_cons.mp h with rfl | h
          · exact Or.inl (Covers.refl _)
          · exact Or.inr h
        obtain ⟨o, ho, hc⟩ := mergeImmFrom_covers env d rest x this
        exact ⟨o, List.mem_cons_of_mem _ ho, hc⟩
    simp only [mergeImmFrom]
    split
    · exact keep
    · rename_i hpe
      have hpe' : d.prof = last.prof := by simpa using hpe
      split
      · apply mergeImmFrom_covers env (last.merge d) rest x
        rcases h with h | h
        · exact Or.inl ((Covers.merge_left last d).trans h)
        · rcases List.mem_cons.mp h with rfl | h
          · exact Or.inl (Covers.merge_right hpe')
          · exact Or.inr h
      · exact keep

theorem mergeImmediate_covers (env : Env) (l : List Hit) :
    ∀ x ∈ l, ∃ o ∈ mergeImmediate env l, Covers o x := by
  cases l with
  | nil => simp
  | cons a t =>
    intro x hx
    simp only [mergeImmediate, mergeImmediate?, Option.getD_some]
    apply mergeImmFrom_covers env a t x
    rcases List.mem_cons.mp hx with rfl | hx
    · exact Or.inl (Covers.refl _)
    · exact Or.inr hx

theorem mergeDomainList_covers (env : Env) (l : List Hit) :
    ∀ x ∈ l, ∃ o ∈ mergeDomainList env l, Covers o x := by
  intro x hx
  have hxf : x ∈ l.filter (fun d => d.prof == x.prof) := by simp [List.mem_filter, hx]
  cases hfil : l.filter (fun d => d.prof == x.prof) with
  | nil => rw [hfil] at hxf; simp at hxf
  | cons h t =>
    rw [hfil] at hxf
    have : Covers h x ∨ x ∈ t := by
      rcases List.mem_cons.mp hxf with rfl | hxt
      · exact Or.inl (Covers.refl _)
      · exact Or.inr hxt
    obtain ⟨o, ho, hc⟩ := mergeImmFrom_covers env h t x this
    exact ⟨o, mem_mergeDomainList.mpr ⟨h, t, ⟨x.prof, hfil⟩, ho⟩, hc⟩

theorem refine_eq (env : Env) (nb : Bool) (l : List Hit) :
    refine env nb l = removeIncomplete env (beforeIncomplete env nb l) := rfl

/-! ### dropped only against a kept result that outranks it -/

theorem sorted_getElem? {l : List Hit} (hs : Sorted l) {i j : Nat} {a b : Hit} (hij : i < j)
    (ha : l[i]? = some a) (hb : l[j]? = some b) : a.qs ≤ b.qs := by
  obtain ⟨hi, rfl⟩ := List.getElem?_eq_some_iff.mp ha
  obtain ⟨hj, rfl⟩ := List.getElem?_eq_some_iff.mp hb
  exact (List.pairwise_iff_getElem.mp hs) i j hi hj hij

theorem collide_of_clashIdx (env : Env) {l : List Hit} (hs : Sorted l) {x k : Nat × Hit}
    (hx : x ∈ enumFrom 0 l) (hk : k ∈ enumFrom 0 l) (hne : k.1 ≠ x.1) (hc : clashIdx env x k = true) :
    collide env k.2 x.2 = true := by
  have hx' := (mem_enumFrom_iff.mp hx).2
  have hk' := (mem_enumFrom_iff.mp hk).2
  simp only [Nat.sub_zero] at hx' hk'
  simp only [clashIdx] at hc
  simp only [collide]
  by_cases hle : x.1 ≤ k.1
  · -- `x` comes first
    simp only [hle, if_true] at hc
    have hq : x.2.qs ≤ k.2.qs := sorted_getElem? hs (by omega) hx' hk'
    rw [conflict_eq] at hc
    have hc' : startsClear env x.2 k.2 = false := by simpa using hc
    by_cases hq2 : k.2.qs ≤ x.2.qs
    · have : k.2.qs = x.2.qs := by omega
      simp [hq2, this, hc']
    · simp [hq2, hc']
  · simp only [hle, if_false] at hc
    have hq : k.2.qs ≤ x.2.qs := sorted_getElem? hs (by omega) hk' hx'
    rw [conflict_eq] at hc
    have hc' : startsClear env k.2 x.2 = false := by simpa using hc
    simp [hq, hc']

/-- a result missing from the output of the pass collides with a returned result that has the
    higher score — or the same score and the earlier position -/
theorem removeOverlapping_justified (env : Env) {l : List Hit} (hs : Sorted l) : ∀ d ∈ l,
    d ∈ removeOverlapping env l ∨
      ∃ k ∈ removeOverlapping env l, collide env k d = true ∧ RanksAbove l k d := by
  intro d hd
  obtain ⟨j, hj⟩ := List.mem_iff_getElem?.mp hd
  have hx : (j, d) ∈ enumFrom 0 l := mem_enumFrom_iff.mpr ⟨Nat.zero_le _, by simpa using hj⟩
  rcases keptIdx_justified env l (j, d) hx with h | ⟨k, hk, hc, hr⟩
  · left
    rw [removeOverlapping_eq]
    exact List.mem_map.mpr ⟨(j, d), h, rfl⟩
  · right
    have hk_enum := mem_keptIdx hk
    have hk' := (mem_enumFrom_iff.mp hk_enum).2
    simp only [Nat.sub_zero] at hk'
    have hne : k.1 ≠ j := by
      intro e
      rcases hr with hr | hr
      · rw [e, hj] at hk'
        simp only [Option.some.injEq] at hk'
        simp only at hr; rw [hk'] at hr; omega
      · simp only at hr; omega
    refine ⟨k.2, ?_, collide_of_clashIdx env hs hx hk_enum hne hc, ?_⟩
    · rw [removeOverlapping_eq]; exact List.mem_map.mpr ⟨k, hk, rfl⟩
    · rcases hr with hr | hr
      · exact Or.inl hr
      · exact Or.inr ⟨hr.1, k.1, j, hr.2, hk', hj⟩

theorem droppedJustified_removeOverlapping (env : Env) {l : List Hit} (hs : Sorted l) :
    droppedJustified env l (removeOverlapping env l) = true := by
  simp only [droppedJustified, List.all_eq_true, Bool.or_eq_true, List.contains_eq_mem, decide_eq_true_eq,
    List.any_eq_true, Bool.and_eq_true]
  intro d hd
  rcases removeOverlapping_justified env hs d hd with h | ⟨k, hk, hc, hr⟩
  · exact Or.inl h
  · refine Or.inr ⟨k, hk, hc, ?_⟩
    simp only [outranks, decide_eq_true_eq]
    rcases hr with hr | hr
    · omega
    · omega

/-- why an input hit may be missing before the incomplete-fragment rule is applied (default mode):
    it is inside a same-profile hit `m` (itself, or the merge it went into) that is still there or
    collides with one that is still there and outranks it; (neighbour mode) it is itself inside a
    merged hit that is still there, or collides with a better raw hit that is -/
theorem beforeIncomplete_accounts (env : Env) (nb : Bool) (l : List Hit) : ∀ x ∈ l,
    (∃ m ∈ beforeIncomplete env nb l, Covers m x) ∨
    (∃ m k, Covers m x ∧ collide env k m = true ∧ m.sc ≤ k.sc ∧ ∃ o ∈ beforeIncomplete env nb l, Covers o k) := by
  intro x hx
  have hx' : x ∈ sortHits l := mem_sortHits.mpr hx
  cases nb with
  | true =>
    simp only [beforeIncomplete, if_true]
    rcases removeOverlapping_justified env (sortHits_sorted l) x hx' with h | ⟨k, hk, hc, hr⟩
    · left
      exact mergeImmediate_covers env _ x h
    · right
      obtain ⟨o, ho, hco⟩ := mergeImmediate_covers env _ k hk
      refine ⟨x, k, Covers.refl x, hc, ?_, o, ho, hco⟩
      rcases hr with hr | hr <;> omega
  | false =>
    simp only [beforeIncomplete, Bool.false_eq_true, if_false]
    obtain ⟨m, hm, hc⟩ := mergeDomainList_covers env (sortHits l) x hx'
    rcases removeOverlapping_justified env (mergeDomainList_sorted env _) m hm with h | ⟨k, hk, hcl, hr⟩
    · left; exact ⟨m, h, hc⟩
    · right
      refine ⟨m, k, hc, hcl, ?_, k, hk, Covers.refl k⟩
      rcases hr with hr | hr <;> omega

/-! ### neighbour mode keeps every complete, uncontested raw hit -/

theorem complete_of_covers (env : Env) {m x : Hit} (hc : Covers m x) (hx : complete env x = true) :
    complete env m = true := by
  simp only [complete, decide_eq_true_eq] at hx ⊢
  simp only [Hit.length] at hx ⊢
  have h1 := hc.lo
  have h2 := hc.hi
  rw [hc.prof]
  omega

theorem removeIncomplete_keeps_complete (env : Env) (l : List Hit) (m : Hit) (hm : m ∈ l)
    (hc : complete env m = true) : m ∈ removeIncomplete env l := by
  have hci : isComplete env m = true := by
    simp only [isComplete, decide_eq_true_eq]
    simp only [complete, decide_eq_true_eq] at hc
    omega
  have hmem : m ∈ l.filter (isComplete env) := List.mem_filter.mpr ⟨hm, hci⟩
  simp only [removeIncomplete]
  have : (l.filter (isComplete env)).isEmpty = false := by
    cases h : l.filter (isComplete env) with
    | nil => rw [h] at hmem; simp at hmem
    | cons a t => rfl
  simp only [this, Bool.not_false, if_true]
  exact hmem

theorem refine_neighbour_keeps (env : Env) (l : List Hit) (x : Hit) (hx : x ∈ l) (hcx : complete env x = true)
    (hun : ∀ k ∈ l, k ≠ x → x.sc ≤ k.sc → collide env k x = false) :
    ∃ m ∈ refine env true l, Covers m x := by
  have hxs : x ∈ sortHits l := mem_sortHits.mpr hx
  have hkept : x ∈ removeOverlapping env (sortHits l) := by
    rcases removeOverlapping_justified env (sortHits_sorted l) x hxs with h | ⟨k, hk, hc, hr⟩
    · exact h
    · exfalso
      have hkS : k ∈ sortHits l := (removeOverlapping_sublist env _).subset hk
      have hkl : k ∈ l := mem_sortHits.mp hkS
      have hne : k ≠ x := by
        rcases hr with hr | ⟨_, i, j, hij, hi, hj⟩
        · intro e; rw [e] at hr; omega
        · intro e
          subst e
          have hnd := sortHits_nodup l
          obtain ⟨hi', ei⟩ := List.getElem?_eq_some_iff.mp hi
          obtain ⟨hj', ej⟩ := List.getElem?_eq_some_iff.mp hj
          have := (List.pairwise_iff_getElem.mp hnd) i j hi' hj' hij
          exact this (ei.trans ej.symm)
      have hsc : x.sc ≤ k.sc := by
        rcases hr with hr | hr <;> omega
      rw [hun k hkl hne hsc] at hc
      exact absurd hc (by simp)
  obtain ⟨m, hm, hcov⟩ := mergeImmediate_covers env _ x hkept
  refine ⟨m, ?_, hcov⟩
  simp only [refine, beforeIncomplete, if_true]
  exact removeIncomplete_keeps_complete env _ m hm (complete_of_covers env hcov hcx)

theorem uncontestedCompleteKept_refine (env : Env) (l : List Hit) :
    uncontestedCompleteKept env (sortHits l) (refine env true l) = true := by
  simp only [uncontestedCompleteKept, List.all_eq_true, Bool.or_eq_true, Bool.not_eq_true', Bool.and_eq_false_iff,
    List.any_eq_true]
  intro x hx
  by_cases hc : decide (env.len x.prof < 2 * x.length) = true
  · by_cases hu : uncontested env (sortHits l) x = true
    · right
      have hxl := mem_sortHits.mp hx
      obtain ⟨m, hm, hcov⟩ := refine_neighbour_keeps env l x hxl hc (by
        intro k hk hne hsc
        have := List.all_eq_true.mp hu k (mem_sortHits.mpr hk)
        simp only [Bool.or_eq_true, beq_iff_eq, decide_eq_true_eq, Bool.not_eq_true'] at this
        rcases this with (h | h) | h
        · exact absurd h hne
        · omega
        · exact h)
      exact ⟨m, hm, (covers_iff m x).mpr hcov⟩
    · left; right; simpa using hu
  · left; left; simpa using hc

/-! ### neighbour mode merges immediate neighbours only -/

theorem mergeImmFrom_infix (env : Env) : ∀ (last : Hit) (rest pre F : List Hit),
    IsMerge env F last → Sorted (last :: rest) →
    ∀ o ∈ mergeImmFrom env last rest, ∃ F', F' <:+: (pre ++ F ++ rest) ∧ IsMerge env F' o
  | last, [], pre, F, hm, _ => by
    intro o ho
    simp [mergeImmFrom] at ho
    subst ho
    exact ⟨F, ⟨pre, [], by simp⟩, hm⟩
  | last, d :: rest, pre, F, hm, hs => by
    have hsp := List.pairwise_cons.mp hs
    have hld : last.qs ≤ d.qs := hsp.1 d (by simp)
    have keep : ∀ o ∈ last :: mergeImmFrom env d rest, ∃ F', F' <:+: (pre ++ F ++ d :: rest) ∧ IsMerge env F' o := by
      intro o ho
      rcases List.mem_cons.mp ho with rfl | ho
      · exact ⟨F, ⟨pre, d :: rest, by simp⟩, hm⟩
      · obtain ⟨F', hin, hm'⟩ := mergeImmFrom_infix env d rest (pre ++ F) [d] (IsMerge.single env d) hsp.2 o ho
        exact ⟨F', by simpa using hin, hm'⟩
    simp only [mergeImmFrom]
    split
    · exact keep
    · rename_i hpe
      have hpe' : d.prof = last.prof := by simpa using hpe
      split
      · rename_i hc
        intro o ho
        have hs' : Sorted (last.merge d :: rest) := by
          refine List.Pairwise.cons ?_ (List.pairwise_cons.mp hsp.2).2
          intro x hx
          rw [merge_qs_of_le hld]
          exact hsp.1 x (List.mem_cons_of_mem _ hx)
        obtain ⟨F', hin, hm'⟩ := mergeImmFrom_infix env (last.merge d) rest pre (F ++ [d])
          (hm.snoc hld hpe' (by rw [← hpe']; exact hc)) hs' o ho
        exact ⟨F', by simpa using hin, hm'⟩
      · exact keep

/-- every hit of `_merge_immediate_neigbours` is the merge of a *contiguous* piece of its input -/
theorem mergeImmediate_infix (env : Env) {l : List Hit} (hs : Sorted l) :
    ∀ o ∈ mergeImmediate env l, ∃ F, F <:+: l ∧ IsMerge env F o := by
  cases l with
  | nil => simp [mergeImmediate, mergeImmediate?]
  | cons a t =>
    intro o ho
    simp only [mergeImmediate, mergeImmediate?, Option.getD_some] at ho
    obtain ⟨F, hin, hm⟩ := mergeImmFrom_infix env a t [] [a] (IsMerge.single env a) hs o ho
    exact ⟨F, by simpa using hin, hm⟩

/-- neighbour mode: a returned hit merges immediately neighbouring survivors of the overlap pass -/
theorem refine_neighbour_infix (env : Env) (l : List Hit) : ∀ o ∈ refine env true l,
    ∃ F, F <:+: removeOverlapping env (sortHits l) ∧ IsMerge env F o := by
  intro o ho
  simp only [refine, beforeIncomplete, if_true] at ho
  have ho' := (removeIncomplete_sublist env _).subset ho
  exact mergeImmediate_infix env ((sortHits_sorted l).sublist (removeOverlapping_sublist env _)) o ho'

/-! ### the driver's fragment search (`provenanceOK`) is complete: it finds the fragments the proof exhibits -/

theorem mem_sublistsOf {α} : ∀ {l' l : List α}, l'.Sublist l → l' ∈ sublistsOf l
  | _, _, .slnil => by simp [sublistsOf]
  | _, _, .cons a h => by
    simp only [sublistsOf, List.mem_append]
    exact Or.inl (mem_sublistsOf h)
  | _, _, .cons_cons a h => by
    simp only [sublistsOf, List.mem_append, List.mem_map]
    exact Or.inr ⟨_, mem_sublistsOf h, rfl⟩

/-- every hit handed to the incomplete rule is the merge of a sub-list (order kept) of the sorted raw hits -/
theorem beforeIncomplete_sub (env : Env) (nb : Bool) (l : List Hit) : ∀ o ∈ beforeIncomplete env nb l,
    ∃ F, F.Sublist (sortHits l) ∧ IsMerge env F o := by
  intro o ho
  cases nb with
  | true =>
    simp only [beforeIncomplete, if_true] at ho
    have sub := removeOverlapping_sublist env (sortHits l)
    obtain ⟨F, hin, hm⟩ := mergeImmediate_infix env ((sortHits_sorted l).sublist sub) o ho
    exact ⟨F, hin.sublist.trans sub, hm⟩
  | false =>
    simp only [beforeIncomplete, Bool.false_eq_true, if_false] at ho
    have h1 := (removeOverlapping_sublist env _).subset ho
    obtain ⟨h, t, ⟨p, hfil⟩, hmem⟩ := mem_mergeDomainList.mp h1
    have hsub : (h :: t).Sublist (sortHits l) := by rw [← hfil]; exact List.filter_sublist
    obtain ⟨F, hin, hm⟩ := mergeImmFrom_infix env h t [] [h] (IsMerge.single env h)
      ((sortHits_sorted l).sublist hsub) o hmem
    exact ⟨F, (by simpa using hin.sublist : F.Sublist (h :: t)).trans hsub, hm⟩

theorem provenanceOK_of (env : Env) {S F : List Hit} {o : Hit} (hsub : F.Sublist S) (hm : IsMerge env F o) :
    provenanceOK env S o = true := by
  simp only [provenanceOK, Bool.or_eq_true, List.any_eq_true]
  right
  refine ⟨F, ?_, isMergeOf_of env hm⟩
  apply mem_sublistsOf
  have hall : ∀ f ∈ F, (f.prof == o.prof && decide (o.qs ≤ f.qs) && decide (f.qe ≤ o.qe)) = true := by
    intro f hf
    simp [hm.prof f hf, hm.lo f hf, hm.hi f hf]
  have := hsub.filter (fun f => f.prof == o.prof && decide (o.qs ≤ f.qs) && decide (f.qe ≤ o.qe))
  rwa [List.filter_eq_self.mpr hall] at this

theorem allProvenanceOK_refine (env : Env) (nb : Bool) (l : List Hit) :
    allProvenanceOK env (sortHits l) (refine env nb l) = true := by
  simp only [allProvenanceOK, List.all_eq_true]
  intro o ho
  have ho' : o ∈ beforeIncomplete env nb l := (removeIncomplete_sublist env _).subset ho
  obtain ⟨F, hsub, hm⟩ := beforeIncomplete_sub env nb l o ho'
  exact provenanceOK_of env hsub hm

/-- the profiles reaching the incomplete rule are profiles of raw hits -/
theorem beforeIncomplete_prof (env : Env) (nb : Bool) (l : List Hit) : ∀ o ∈ beforeIncomplete env nb l,
    ∃ f ∈ l, f.prof = o.prof := by
  intro o ho
  obtain ⟨F, hsub, hm⟩ := beforeIncomplete_sub env nb l o ho
  obtain ⟨f₀, rest, e, _, _⟩ := hm.first
  have hf : f₀ ∈ F := by rw [e]; simp
  exact ⟨f₀, mem_sortHits.mp (hsub.subset hf), hm.prof f₀ hf⟩

/-- the overlap pass on *any* list (no position order assumed): a result missing from the output
    collides — earlier list position first — with a returned one that outranks it -/
theorem removeOverlapping_justified_any (env : Env) (l : List Hit) (j : Nat) (d : Hit) (hj : l[j]? = some d) :
    d ∈ removeOverlapping env l ∨
      ∃ i k, l[i]? = some k ∧ k ∈ removeOverlapping env l ∧ i ≠ j ∧
        (if j ≤ i then conflict env d k else conflict env k d) = true ∧
        (d.sc < k.sc ∨ (k.sc = d.sc ∧ i < j)) := by
  have hx : (j, d) ∈ enumFrom 0 l := mem_enumFrom_iff.mpr ⟨Nat.zero_le _, by simpa using hj⟩
  rcases keptIdx_justified env l (j, d) hx with h | ⟨k, hk, hc, hr⟩
  · left
    rw [removeOverlapping_eq]
    exact List.mem_map.mpr ⟨(j, d), h, rfl⟩
  · right
    have hk' := (mem_enumFrom_iff.mp (mem_keptIdx hk)).2
    simp only [Nat.sub_zero] at hk'
    have hne : k.1 ≠ j := by
      intro e
      rcases hr with hr | hr
      · rw [e, hj] at hk'
        simp only [Option.some.injEq] at hk'
        simp only at hr; rw [hk'] at hr; omega
      · simp only at hr; omega
    refine ⟨k.1, k.2, hk', ?_, hne, ?_, hr⟩
    · rw [removeOverlapping_eq]; exact List.mem_map.mpr ⟨k, hk, rfl⟩
    · simpa [clashIdx] using hc

end ASV.Refine
