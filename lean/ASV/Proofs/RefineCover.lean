/-
  Helper lemmas for C13: merging loses nothing — every fragment handed to a merge stage lies
  inside a produced hit of its profile.
-/
import ASV.Proofs.RefineOverlap
namespace ASV.Refine

structure Covers (m x : Hit) : Prop where
  prof : m.prof = x.prof
  lo : m.qs ≤ x.qs
  hi : x.qe ≤ m.qe
  sc : x.sc ≤ m.sc
  ev : m.ev ≤ x.ev

theorem covers_iff (m x : Hit) : covers m x = true ↔ Covers m x := by
  simp only [covers, Bool.and_eq_true, beq_iff_eq, decide_eq_true_eq]
  constructor
  · rintro ⟨⟨⟨⟨a, b⟩, c⟩, d⟩, e⟩; exact ⟨a, b, c, d, e⟩
  · rintro ⟨a, b, c, d, e⟩; exact ⟨⟨⟨⟨a, b⟩, c⟩, d⟩, e⟩

theorem Covers.refl (x : Hit) : Covers x x := ⟨rfl, Int.le_refl _, Int.le_refl _, Int.le_refl _, Int.le_refl _⟩

theorem Covers.trans {a b c : Hit} (h1 : Covers a b) (h2 : Covers b c) : Covers a c :=
  ⟨h1.prof.trans h2.prof, Int.le_trans h1.lo h2.lo, Int.le_trans h2.hi h1.hi, Int.le_trans h2.sc h1.sc,
    Int.le_trans h1.ev h2.ev⟩

theorem Covers.merge_left (m o : Hit) : Covers (m.merge o) m := by
  refine ⟨rfl, ?_, ?_, ?_, ?_⟩ <;> simp only [Hit.merge] <;> omega

theorem Covers.merge_right {m o : Hit} (h : o.prof = m.prof) : Covers (m.merge o) o := by
  refine ⟨h.symm, ?_, ?_, ?_, ?_⟩ <;> simp only [Hit.merge] <;> omega

theorem mergeImmFrom_covers (env : Env) : ∀ (last : Hit) (rest : List Hit) (x : Hit),
    (Covers last x ∨ x ∈ rest) → ∃ o ∈ mergeImmFrom env last rest, Covers o x
  | last, [], x, h => by
    rcases h with h | h
    · exact ⟨last, by simp [mergeImmFrom], h⟩
    · simp at h
  | last, d :: rest, x, h => by
    have keep : ∃ o ∈ last :: mergeImmFrom env d rest, Covers o x := by
      rcases h with h | h
      · exact ⟨last, by simp, h⟩
      · have : Covers d x ∨ x ∈ rest := by
          rcases List.mem_cons.mp h with rfl | h
          · exact Or.inl (Covers.refl _)
          · exact Or.inr h
        obtain ⟨o, ho, hc⟩ := mergeImmFrom_covers env d rest x this
        exact ⟨o, List.mem_cons_of_mem _ ho, hc⟩
    simp only [mergeImmFrom]
    split
    · exact keep
    · rename_i hpe
      have hpe' : d.prof = last.prof := by simpa using hpe
      split
      · apply mergeImmFrom_covers env (last.merge d) rest x
        rcases h with h | h
        · exact Or.inl ((Covers.merge_left last d).trans h)
        · rcases List.mem_cons.mp h with rfl | h
          · exact Or.inl (Covers.merge_right hpe')
          · exact Or.inr h
      · exact keep

theorem mergeImmediate_covers (env : Env) (l : List Hit) :
    ∀ x ∈ l, ∃ o ∈ mergeImmediate env l, Covers o x := by
  cases l with
  | nil => simp
  | cons a t =>
    intro x hx
    simp only [mergeImmediate, mergeImmediate?, Option.getD_some]
    apply mergeImmFrom_covers env a t x
    rcases List.mem_cons.mp hx with rfl | hx
    · exact Or.inl (Covers.refl _)
    · exact Or.inr hx

theorem mergeDomainList_covers (env : Env) (l : List Hit) :
    ∀ x ∈ l, ∃ o ∈ mergeDomainList env l, Covers o x := by
  intro x hx
  have hxf : x ∈ l.filter (fun d => d.prof == x.prof) := by simp [List.mem_filter, hx]
  cases hfil : l.filter (fun d => d.prof == x.prof) with
  | nil => rw [hfil] at hxf; simp at hxf
  | cons h t =>
    rw [hfil] at hxf
    have : Covers h x ∨ x ∈ t := by
      rcases List.mem_cons.mp hxf with rfl | hxt
      · exact Or.inl (Covers.refl _)
      · exact Or.inr hxt
    obtain ⟨o, ho, hc⟩ := mergeImmFrom_covers env h t x this
    exact ⟨o, mem_mergeDomainList.mpr ⟨h, t, ⟨x.prof, hfil⟩, ho⟩, hc⟩

theorem refine_eq (env : Env) (nb : Bool) (l : List Hit) :
    refine env nb l = removeIncomplete env (beforeIncomplete env nb l) := rfl

theorem removeOverlapping_dominated (env : Env) (l : List Hit) : ∀ d ∈ l,
    d ∈ removeOverlapping env l ∨ ∃ k ∈ removeOverlapping env l, Dominated env d k := by
  cases l with
  | nil => simp
  | cons a t =>
    simp only [removeOverlapping, removeOverlapping?, Option.getD_some]
    exact remOvFrom_dominated env a t

/-- why an input hit may be missing before the incomplete-fragment rule is applied: it is inside a
    same-profile hit `m` (itself, or the merge it went into) that is still there, or that lost a
    chain of collisions ending in a hit `k` that is still there (default mode); in neighbour mode
    the collisions come first and the winner is then inside a merged hit -/
theorem beforeIncomplete_accounts (env : Env) (nb : Bool) (l : List Hit) : ∀ x ∈ l,
    (∃ m ∈ beforeIncomplete env nb l, Covers m x) ∨
    (∃ m k, Covers m x ∧ Dominated env m k ∧ ∃ o ∈ beforeIncomplete env nb l, Covers o k) := by
  intro x hx
  have hx' : x ∈ sortHits l := mem_sortHits.mpr hx
  cases nb with
  | true =>
    simp only [beforeIncomplete, if_true]
    rcases removeOverlapping_dominated env (sortHits l) x hx' with h | ⟨k, hk, hd⟩
    · left
      exact mergeImmediate_covers env _ x h
    · right
      obtain ⟨o, ho, hc⟩ := mergeImmediate_covers env _ k hk
      exact ⟨x, k, Covers.refl x, hd, o, ho, hc⟩
  | false =>
    simp only [beforeIncomplete, Bool.false_eq_true, if_false]
    obtain ⟨m, hm, hc⟩ := mergeDomainList_covers env (sortHits l) x hx'
    rcases removeOverlapping_dominated env _ m hm with h | ⟨k, hk, hd⟩
    · left; exact ⟨m, h, hc⟩
    · right; exact ⟨m, k, hc, hd, k, hk, Covers.refl k⟩

end ASV.Refine
