/-
  C12: nothing inside the region is left out — origin-spanning features (one part on each side of the origin)
  inside a region over the origin pass the loop that gathers them, and with the slices this gives: every
  feature inside the region is written.
-/
import ASV.Proofs.RegionExtractOrder
set_option linter.unusedSimpArgs false
namespace ASV.RegionExtract
open ASV

/-- reverse part order, the case that stays in one stretch behind `st` -/
theorem cross_two_rev_exact (x y st L : Int) (s : Strand) (hy0 : 0 < y) (hyx : y ≤ x) (hxL : x < L)
    (hst0 : 0 < st) (hstL : st < L) (h1 : st ≤ x) (h2 : y ≤ st) :
    ∃ r, offsetLocation (.compound [⟨0, y, s⟩, ⟨x, L, s⟩]) (-st) L = .ok r ∧
      ((y < x ∧ wholeFix L r = .compound [⟨0 + -st + L, y + -st + L, s⟩, ⟨x + -st, L + -st, s⟩]) ∨
       (y = x ∧ wholeFix L r = .simple ⟨0, L, s⟩)) := by
  have hL0 : L ≠ 0 := by omega
  by_cases hwhole : y = x
  · subst hwhole
    have hlen : (Loc.compound [⟨0, y, s⟩, ⟨y, L, s⟩]).len = L := by rw [len_two]; simp; omega
    refine ⟨.compound [⟨0, y, s⟩, ⟨y, L, s⟩], ?_, .inr ⟨rfl, ?_⟩⟩
    · have hk : -st ≠ 0 := by omega
      have hlt : ¬ L < 1 := by omega
      simp [offsetLocation, hL0, hk, hlt, hlen, pure, Except.pure, bind, Except.bind]
    · simp [wholeFix, hlen, strand_two]
  · have hyx' : y < x := by omega
    have hgen := offsetLocation_general (.compound [⟨0, y, s⟩, ⟨x, L, s⟩]) (-st) L _ (by omega) (by omega)
      (by rw [len_two]; simp; omega) (by rw [start_two, end_two]; simp; omega)
      (shiftedParts_two _ _ _ (by simp; omega) (by simp; omega))
    simp only [List.flatMap_cons, List.flatMap_nil, List.append_nil] at hgen
    rw [wrapPart_inside L ⟨x + -st, L + -st, s⟩ (by simp; omega) (by simp; omega) (by simp; omega),
      wrapPart_below L ⟨0 + -st, y + -st, s⟩ (by simp; omega) (by simp; omega) (by simp; omega)] at hgen
    simp only [List.cons_append, List.nil_append] at hgen
    rw [finishOffset_two_sep L ⟨0 + -st + L, y + -st + L, s⟩ ⟨x + -st, L + -st, s⟩ (by simp [PartIn]; omega)
      (by simp [PartIn]; omega) (by simp; omega)] at hgen
    refine ⟨_, hgen, .inl ⟨hyx', ?_⟩⟩
    have hl : ¬ (Loc.compound [⟨0 + -st + L, y + -st + L, s⟩, ⟨x + -st, L + -st, s⟩]).len = L := by
      rw [len_two]; simp; omega
    simp only [wholeFix, hl, if_false]

/-- a two-part origin-spanning feature that lies inside a region over the origin is kept by the loop gathering
    origin-spanning features -/
theorem crossStep_keeps (rd : RegionData) (L n : Int) (f : BioFeature) (hL : 0 < L) (he0 : 0 < rd.end)
    (hes : rd.end ≤ rd.start) (hsL : rd.start < L) (hn : n = L - rd.start + rd.end)
    (hb : bridgesOrigin f.loc = true) (htwo : twoPart L f.loc = true) (hin : insideRegion L rd f.loc = true) :
    ∃ p g, crossStep rd L n f = .ok (p, some g) ∧ g.tag = f.tag := by
  have hw : wraps rd = true := by simp [wraps]; omega
  unfold twoPart at htwo
  split at htwo
  · rename_i a b hloc
    simp only [Bool.and_eq_true, Bool.or_eq_true, decide_eq_true_eq, beq_iff_eq] at htwo
    obtain ⟨hs, hcase⟩ := htwo
    obtain ⟨alo, ahi, as⟩ := a
    obtain ⟨blo, bhi, bs⟩ := b
    simp only at hs hcase
    subst hs
    -- each part lies on its side of the origin
    have hside : ∀ p : Part, p ∈ [(⟨alo, ahi, as⟩ : Part), ⟨blo, bhi, as⟩] →
        (rd.start ≤ p.lo ∧ p.hi ≤ L) ∨ (0 ≤ p.lo ∧ p.hi ≤ rd.end) := by
      intro p hp
      unfold insideRegion at hin
      rw [hloc] at hin hb
      simp only [hw, if_true, Bool.or_eq_true, Loc.parts, List.all_eq_true, Bool.and_eq_true, decide_eq_true_eq] at hin
      rcases hin with (h | h) | h
      · exact .inl (h p hp)
      · exact .inr (h p hp)
      · exact h.2 p hp
    rcases hcase with ⟨⟨⟨⟨h1, h2⟩, h3⟩, h4⟩, h5⟩ | ⟨⟨⟨⟨h1, h2⟩, h3⟩, h4⟩, h5⟩
    · subst h1 h2
      have ha := hside ⟨alo, ahi, as⟩ (by simp)
      have hbb := hside ⟨0, bhi, as⟩ (by simp)
      simp only at ha hbb
      have hx : rd.start ≤ alo := by omega
      have hy : bhi ≤ rd.end := by omega
      obtain ⟨r, hr, hcase⟩ := cross_two_fwd_exact alo bhi rd.start ahi as h3 h4 h5 (by omega) hsL
      unfold crossStep
      rw [hloc] at hb ⊢
      simp only [hb, if_true, hr]
      rcases hcase with ⟨_, _, _, hr', hwf⟩ | ⟨hyx, _, hwf⟩ | ⟨hno, _⟩
      · rw [hwf, hr']
        have hnb : bridgesOrigin (.simple ⟨alo + -rd.start, bhi + -rd.start + ahi, as⟩) = false := rfl
        have hend : ¬ (Loc.simple ⟨alo + -rd.start, bhi + -rd.start + ahi, as⟩).end > n := by simp [Loc.end]; omega
        simp only [hnb, Bool.or_false, decide_eq_true_eq, hend, if_false]
        exact ⟨_, _, rfl, rfl⟩
      · rw [hwf]
        have hnb : bridgesOrigin (.simple ⟨0, ahi, as⟩) = false := rfl
        have hend : ¬ (Loc.simple ⟨0, ahi, as⟩).end > n := by simp [Loc.end]; omega
        simp only [hnb, Bool.or_false, decide_eq_true_eq, hend, if_false]
        exact ⟨_, _, rfl, rfl⟩
      · exfalso; omega
    · subst h1 h2
      have ha := hside ⟨0, ahi, as⟩ (by simp)
      have hbb := hside ⟨blo, bhi, as⟩ (by simp)
      simp only at ha hbb
      have hx : rd.start ≤ blo := by omega
      have hy : ahi ≤ rd.end := by omega
      -- only the reverse strand makes this part order run over the origin
      have hrev : as = .rev := by
        rw [hloc] at hb
        cases as <;> simp_all [bridgesOrigin, Loc.strand, orderInvalid, sortInts, insertInt]
        all_goals omega
      subst hrev
      obtain ⟨r, hr, hcase⟩ := cross_two_rev_exact blo ahi rd.start bhi .rev h3 h4 h5 (by omega) hsL hx (by omega)
      unfold crossStep
      rw [hloc] at hb ⊢
      simp only [hb, if_true, hr]
      rcases hcase with ⟨_, hwf⟩ | ⟨hyx, hwf⟩
      · rw [hwf]
        have hnb : bridgesOrigin (.compound [⟨0 + -rd.start + bhi, ahi + -rd.start + bhi, .rev⟩, ⟨blo + -rd.start, bhi + -rd.start, .rev⟩]) = false := by
          simp [bridgesOrigin, Loc.strand, orderInvalid]; omega
        have hend : ¬ (Loc.compound [⟨0 + -rd.start + bhi, ahi + -rd.start + bhi, .rev⟩, ⟨blo + -rd.start, bhi + -rd.start, .rev⟩]).end > n := by
          rw [end_two]; simp; omega
        simp only [hnb, Bool.or_false, decide_eq_true_eq, hend, if_false]
        exact ⟨_, _, rfl, rfl⟩
      · rw [hwf]
        have hnb : bridgesOrigin (.simple ⟨0, bhi, .rev⟩) = false := rfl
        have hend : ¬ (Loc.simple ⟨0, bhi, .rev⟩).end > n := by simp [Loc.end]; omega
        simp only [hnb, Bool.or_false, decide_eq_true_eq, hend, if_false]
        exact ⟨_, _, rfl, rfl⟩
  · cases htwo

theorem collectCross_to (rd : RegionData) (L n : Int) :
    ∀ (fs : List BioFeature) (steps : List (BioFeature × Option BioFeature)) (i : Nat) (f p g : BioFeature),
      mapE (crossStep rd L n) fs = .ok steps → f ∈ fs → crossStep rd L n f = .ok (p, some g) →
      ∃ w ∈ collectCross i steps, w.f = g
  | [], _, _, f, _, _, _, hf, _ => by simp at hf
  | f0 :: fs, steps, i, f, p, g, h, hf, hstep => by
    obtain ⟨b, bs, hb, hbs, rfl⟩ := (mapE_cons_ok _ f0 fs steps).1 h
    rcases List.mem_cons.1 hf with rfl | hf
    · rw [hstep] at hb
      injection hb with hb
      subst hb
      exact ⟨⟨g, some i⟩, by simp [collectCross], rfl⟩
    · obtain ⟨w, hw, hwg⟩ := collectCross_to rd L n fs bs (i + 1) f p g hbs hf hstep
      obtain ⟨p0, o0⟩ := b
      cases o0 with
      | none => exact ⟨w, by simpa [collectCross] using hw, hwg⟩
      | some g0 => exact ⟨w, by simp [collectCross, hw], hwg⟩

/-- an origin-spanning feature that the gathering loop keeps is written -/
theorem written_contains_kept (rd : RegionData) (rec : BioRecord) (w : Written) (h : writeToGenbank rd rec = .ok w)
    (hc : rd.crossesOrigin = true) (he0 : 0 < rd.end) (hsL : rd.start < rec.length)
    (f : BioFeature) (hf : f ∈ rec.features)
    (hkeep : ∀ n, n = rec.length - rd.start + rd.end →
      ∃ p g, crossStep rd rec.length n f = .ok (p, some g) ∧ g.tag = f.tag) :
    ∃ g ∈ w.extract.features, g.tag = f.tag := by
  have hes : rd.end ≤ rd.start := by simpa [RegionData.crossesOrigin] using hc
  have hL : 0 < rec.length := by omega
  obtain ⟨seq, ws, parent, adjusted, hbase, ha, hfe⟩ := written_features rd rec w h
  -- the feature is in the base record
  have hbase2 : ∃ w0 ∈ ws, w0.f.tag = f.tag := by
    unfold buildBaseRecord at hbase
    rw [hc] at hbase
    simp only [if_true] at hbase
    unfold buildRecordFromCrossOrigin at hbase
    simp only [bind, Except.bind, pure, Except.pure] at hbase
    split at hbase
    · cases hbase
    · split at hbase
      · cases hbase
      · split at hbase
        · cases hbase
        · rename_i v hg
          obtain ⟨par, cr⟩ := v
          injection hbase with hbase; injection hbase with h1 h2; injection h2 with h2 h3
          subst h2
          unfold gatherCrossOrigin at hg
          split at hg
          · cases hg
          · rename_i steps hs
            injection hg with hg; injection hg with hg1 hg2
            subst hg2
            obtain ⟨p, g, hstep, hgt⟩ := hkeep _ (cross_len rd rec he0 hes hsL)
            obtain ⟨w0, hw0, hwg⟩ := collectCross_to rd _ _ rec.features steps 0 f p g hs hf hstep
            exact ⟨w0, List.mem_append.2 (.inl (List.mem_append.2 (.inr hw0))), by rw [hwg, hgt]⟩
  obtain ⟨w0, hw0, ht⟩ := hbase2
  unfold adjustFeatures at ha
  obtain ⟨w1, hw1, hstep⟩ := mapE_mem_src _ ws adjusted ha w0 hw0
  split at hstep
  · cases hstep
  · rename_i g hg
    injection hstep with hstep
    refine ⟨g, ?_, ?_⟩
    · rw [hfe]; exact List.mem_map.2 ⟨w1, hw1, by rw [← hstep]⟩
    · rw [(adjustFeature_same rd _ _ w0.f g hg).1, ht]

/-- a two-part origin-spanning feature inside a region over the origin is written -/
theorem written_contains_cross (rd : RegionData) (rec : BioRecord) (w : Written) (h : writeToGenbank rd rec = .ok w)
    (hc : rd.crossesOrigin = true) (he0 : 0 < rd.end) (hsL : rd.start < rec.length)
    (f : BioFeature) (hf : f ∈ rec.features) (hb : bridgesOrigin f.loc = true) (htwo : twoPart rec.length f.loc = true)
    (hin : insideRegion rec.length rd f.loc = true) :
    ∃ g ∈ w.extract.features, g.tag = f.tag := by
  have hes : rd.end ≤ rd.start := by simpa [RegionData.crossesOrigin] using hc
  exact written_contains_kept rd rec w h hc he0 hsL f hf
    (fun n hn => crossStep_keeps rd rec.length n f (by omega) he0 hes hsL hn hb htwo hin)

theorem start_ge_of_parts (l : Loc) (a : Int) (hne : l.parts ≠ []) (h : ∀ p ∈ l.parts, a ≤ p.lo) : a ≤ l.start := by
  cases l with
  | simple p => exact h p (by simp [Loc.parts])
  | compound ps =>
    simp only [Loc.start]
    have hm : minList (ps.map (·.lo)) ∈ ps.map (·.lo) := minList_mem (by simpa [Loc.parts] using hne)
    obtain ⟨p, hp, e⟩ := List.mem_map.1 hm
    rw [← e]; exact h p (by simpa [Loc.parts] using hp)

theorem end_le_of_parts (l : Loc) (b : Int) (hne : l.parts ≠ []) (h : ∀ p ∈ l.parts, p.hi ≤ b) : l.end ≤ b := by
  cases l with
  | simple p => exact h p (by simp [Loc.parts])
  | compound ps =>
    simp only [Loc.end]
    have hm : maxList (ps.map (·.hi)) ∈ ps.map (·.hi) := maxList_mem (by simpa [Loc.parts] using hne)
    obtain ⟨p, hp, e⟩ := List.mem_map.1 hm
    rw [← e]; exact h p (by simpa [Loc.parts] using hp)

/-- every feature inside the region (in the spec's sense) is written -/
theorem written_contains_inside (rd : RegionData) (rec : BioRecord) (w : Written) (h : writeToGenbank rd rec = .ok w)
    (hreg : rd.crossesOrigin = true → 0 < rd.end ∧ rd.start < rec.length)
    (f : BioFeature) (hf : f ∈ rec.features) (hne : f.loc.parts ≠ [])
    (hin : insideRegion rec.length rd f.loc = true)
    (htwo : rd.crossesOrigin = true → bridgesOrigin f.loc = true → twoPart rec.length f.loc = true) :
    ∃ g ∈ w.extract.features, g.tag = f.tag := by
  cases hc : rd.crossesOrigin with
  | false =>
    have hw : wraps rd = false := by rw [wraps_eq, hc]
    unfold insideRegion at hin
    simp only [hw, Bool.false_eq_true, if_false, List.all_eq_true, Bool.and_eq_true, decide_eq_true_eq] at hin
    exact written_contains rd rec w h f hf (.inl ⟨hc, start_ge_of_parts _ _ hne (fun p hp => (hin p hp).1),
      end_le_of_parts _ _ hne (fun p hp => (hin p hp).2)⟩)
  | true =>
    obtain ⟨he0, hsL⟩ := hreg hc
    cases hb : bridgesOrigin f.loc with
    | true => exact written_contains_cross rd rec w h hc he0 hsL f hf hb (htwo hc hb) hin
    | false =>
      have hw : wraps rd = true := by rw [wraps_eq, hc]
      unfold insideRegion at hin
      simp only [hw, if_true, hb, Bool.false_and, Bool.or_false, Bool.or_eq_true, List.all_eq_true, Bool.and_eq_true,
        decide_eq_true_eq] at hin
      rcases hin with hin | hin
      · exact written_contains rd rec w h f hf (.inr (.inl ⟨hc, start_ge_of_parts _ _ hne (fun p hp => (hin p hp).1),
          end_le_of_parts _ _ hne (fun p hp => (hin p hp).2)⟩))
      · exact written_contains rd rec w h f hf (.inr (.inr ⟨hc, start_ge_of_parts _ _ hne (fun p hp => (hin p hp).1),
          end_le_of_parts _ _ hne (fun p hp => (hin p hp).2)⟩))

end ASV.RegionExtract
