/-
  C16 helper lemmas: what one call of `fix_record_name_id` guarantees, and the invariants of the
  two loops of `pre_process_sequences` (`dupPass`, `fixAll`).
-/
import ASV.Proofs.IdsClean
namespace ASV.Ids
open ASV.Generated.Ids

/-- how a step may change (id, set): not at all, or to an id that was not in the set, which is
    then added -/
def Moves (taken : List Str) (id : Str) (taken' : List Str) (id' : Str) : Prop :=
  (id' = id ∧ taken' = taken) ∨ (id' ∉ taken ∧ ∀ y, y ∈ taken' ↔ y = id' ∨ y ∈ taken)

theorem Moves.fresh {taken id id'} (h : id' ∉ taken) : Moves taken id (setAdd id' taken) id' :=
  Or.inr ⟨h, fun _ => mem_setAdd⟩

theorem Moves.sub {taken id taken' id'} (h : Moves taken id taken' id') : ∀ y ∈ taken, y ∈ taken' := by
  rcases h with ⟨_, rfl⟩ | ⟨_, h⟩
  · exact fun _ h => h
  · exact fun y hy => (h y).mpr (Or.inr hy)

theorem Moves.mem {taken id taken' id'} (h : Moves taken id taken' id') (hid : id ∈ taken) : id' ∈ taken' := by
  rcases h with ⟨rfl, rfl⟩ | ⟨_, h⟩
  · exact hid
  · exact (h id').mpr (Or.inl rfl)

theorem Moves.trans {t0 i0 t1 i1 t2 i2} (h1 : Moves t0 i0 t1 i1) (h2 : Moves t1 i1 t2 i2) :
    i2 = i0 ∨ i2 ∉ t0 := by
  rcases h2 with ⟨rfl, rfl⟩ | ⟨hn, _⟩
  · rcases h1 with ⟨rfl, _⟩ | ⟨hn, _⟩
    · exact Or.inl rfl
    · exact Or.inr hn
  · exact Or.inr fun hm => hn (h1.sub _ hm)

theorem uniqueFallback_ok {taken : List Str} {pre : Str} {m : Int} {n : Str} {t : List Str} {id : Str}
    (h : uniqueFallback taken pre m = .ok (n, t)) :
    Moves taken id t n ∧ (∃ k, n = mkName pre k) ∧ (0 < m → (n.length : Int) ≤ m) := by
  unfold uniqueFallback at h
  split at h
  · simp at h
  · rename_i n' k hg
    simp only [Except.ok.injEq, Prod.mk.injEq] at h
    obtain ⟨rfl, rfl⟩ := h
    have := generateUniqueId_ok hg
    exact ⟨Moves.fresh this.2.1, ⟨k, this.1⟩, this.2.2⟩

theorem uniqueFallback_err {taken : List Str} {pre : Str} {m : Int} {e : Err}
    (h : uniqueFallback taken pre m = .error e) : e = .runtime := by
  unfold uniqueFallback at h
  split at h
  · rename_i e' hg
    simp only [Except.error.injEq] at h
    exact h ▸ (generateUniqueId_err hg).1
  · simp at h

theorem shortenStep_spec {al : Bool} {taken : List Str} {r : Rec} {id1 : Str} {t1 : List Str}
    (h : shortenStep al taken r = .ok (id1, t1)) :
    Moves taken r.id t1 id1 ∧ (al = false → id1.length ≤ 16) := by
  unfold shortenStep at h
  split at h
  · split at h
    · rename_i hc
      unfold refseqOk at hc
      simp only [Bool.and_eq_true, decide_eq_true_eq, Bool.not_eq_true'] at hc
      simp only [Except.ok.injEq, Prod.mk.injEq] at h
      obtain ⟨rfl, rfl⟩ := h
      exact ⟨Moves.fresh (by simpa using hc.2), fun _ => hc.1.2⟩
    · split at h
      · rename_i hs
        simp only [Except.ok.injEq, Prod.mk.injEq] at h
        obtain ⟨rfl, rfl⟩ := h
        exact ⟨Moves.fresh (by simpa using hs), fun _ => shortenIds_length _ _⟩
      · have := uniqueFallback_ok (id := r.id) h
        refine ⟨this.1, fun _ => ?_⟩
        have := this.2.2 (by decide)
        omega
  · rename_i hlong
    simp only [Except.ok.injEq, Prod.mk.injEq] at h
    obtain ⟨rfl, rfl⟩ := h
    refine ⟨Or.inl ⟨rfl, rfl⟩, fun hal => ?_⟩
    subst hal
    simp only [Bool.not_false, Bool.and_true, decide_eq_true_eq] at hlong
    omega

theorem shortenStep_err {al : Bool} {taken : List Str} {r : Rec} {e : Err}
    (h : shortenStep al taken r = .error e) : e = .runtime := by
  unfold shortenStep at h
  split at h
  · split at h
    · simp at h
    · split at h
      · simp at h
      · exact uniqueFallback_err h
  · simp at h

theorem stripStep_spec {al : Bool} {t1 : List Str} {id1 id2 : Str} {t2 : List Str}
    (h : stripStep al t1 id1 = .ok (id2, t2)) :
    Moves t1 id1 t2 id2 ∧ Clean id2 ∧ (al = false → id1.length ≤ 16 → id2.length ≤ 16) := by
  unfold stripStep at h
  split at h
  · split at h
    · split at h
      · rename_i hal
        have := uniqueFallback_ok (id := id1) h
        obtain ⟨k, hk⟩ := this.2.1
        exact ⟨this.1, hk ▸ mkName_clean (strip_clean _) _, fun h => by simp [hal] at h⟩
      · have := uniqueFallback_ok (id := id1) h
        obtain ⟨k, hk⟩ := this.2.1
        refine ⟨this.1, hk ▸ mkName_clean ((strip_clean _).take _) _, fun _ _ => ?_⟩
        have := this.2.2 (by decide)
        omega
    · rename_i hs
      simp only [Except.ok.injEq, Prod.mk.injEq] at h
      obtain ⟨rfl, rfl⟩ := h
      refine ⟨Moves.fresh (by simpa using hs), strip_clean _, fun _ hl => ?_⟩
      have := strip_length_le id1
      omega
  · rename_i hne
    simp only [Except.ok.injEq, Prod.mk.injEq] at h
    obtain ⟨rfl, rfl⟩ := h
    have : strip id1 = id1 := by simpa using hne
    exact ⟨Or.inl ⟨rfl, rfl⟩, strip_eq_self.mp this, fun _ h => h⟩

theorem stripStep_err {al : Bool} {t1 : List Str} {id1 : Str} {e : Err}
    (h : stripStep al t1 id1 = .error e) : e = .runtime := by
  unfold stripStep at h
  split at h
  · split at h
    · split at h
      · exact uniqueFallback_err h
      · exact uniqueFallback_err h
    · simp at h
  · simp at h

/-- what one successful `fix_record_name_id` guarantees -/
structure FixPost (al : Bool) (taken : List Str) (r r' : Rec) (t' : List Str) : Prop where
  sub : ∀ y ∈ taken, y ∈ t'
  mem : r.id ∈ taken → r'.id ∈ t'
  fresh : r'.id = r.id ∨ r'.id ∉ taken
  cleanId : Clean r'.id
  cleanName : Clean r'.name
  shortId : al = false → r'.id.length ≤ 16
  shortName : al = false → r'.name.length ≤ 16
  orig : r'.orig = fixOrig r r'.id
  index : r'.index = r.index
  acc : ∀ a, r'.acc = some a → a.length ≤ 16

theorem fixName_clean (al : Bool) (r : Rec) : Clean (fixName al r) := strip_clean _

theorem fixName_short (r : Rec) : (fixName false r).length ≤ 16 := by
  unfold fixName
  refine Nat.le_trans (strip_length_le _) ?_
  split
  · exact shortenIds_length _ _
  · rename_i h
    simp only [Bool.not_false, Bool.and_true, decide_eq_true_eq] at h
    omega

theorem fixAcc_short (r : Rec) (a : Str) (h : fixAcc r = some a) : a.length ≤ 16 := by
  unfold fixAcc at h
  split at h
  · split at h
    · simp only [Option.some.injEq] at h
      exact h ▸ shortenIds_length _ _
    · rename_i hl
      simp only [Option.some.injEq] at h
      subst h
      omega
  · simp at h

theorem fixRecordNameId_spec {al : Bool} {taken : List Str} {r r' : Rec} {t' : List Str}
    (h : fixRecordNameId al taken r = .ok (r', t')) : FixPost al taken r r' t' := by
  unfold fixRecordNameId at h
  split at h
  · simp at h
  · rename_i id1 t1 h1
    split at h
    · simp at h
    · rename_i id2 t2 h2
      simp only [Except.ok.injEq, Prod.mk.injEq] at h
      obtain ⟨rfl, rfl⟩ := h
      have s1 := shortenStep_spec h1
      have s2 := stripStep_spec h2
      exact {
        sub := fun y hy => s2.1.sub _ (s1.1.sub _ hy)
        mem := fun hid => s2.1.mem (s1.1.mem hid)
        fresh := Moves.trans s1.1 s2.1
        cleanId := s2.2.1
        cleanName := fixName_clean _ _
        shortId := fun hal => s2.2.2 hal (s1.2 hal)
        shortName := fun hal => hal ▸ fixName_short r
        orig := rfl
        index := rfl
        acc := fun a ha => fixAcc_short r a ha }

theorem fixRecordNameId_err {al : Bool} {taken : List Str} {r : Rec} {e : Err}
    (h : fixRecordNameId al taken r = .error e) : e = .runtime := by
  unfold fixRecordNameId at h
  split at h
  · rename_i e' h1
    simp only [Except.error.injEq] at h
    exact h ▸ shortenStep_err h1
  · split at h
    · rename_i e' h2
      simp only [Except.error.injEq] at h
      exact h ▸ stripStep_err h2
    · simp at h

end ASV.Ids
