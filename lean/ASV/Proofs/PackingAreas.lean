/-
  C19 helper lemmas, part 3: what `add_area_from_feature` emits for one well-formed feature —
  in range, at the requested height, covering only bases of the feature, and readable back as
  exactly that feature (whole, or two linked halves).
-/
import ASV.Proofs.PackingBase
namespace ASV.Packing
open ASV ASV.Packing.Spec

/-- everything the later proofs need to know about the areas emitted for one feature -/
structure Good (c : Ctx) (f : Feat) (h gid : Int) (as : List Area) : Prop where
  range : ∀ a ∈ as, areaInRange (drawRange c).1 (drawRange c).2 a = true
  height : ∀ a ∈ as, a.height = h
  points : ∀ a ∈ as, a.nstart < a.nend ∧
    ∀ x, a.nstart ≤ x → x < a.nend → f.loc.mem (foldS c.L x) = true
  drawn : (∃ a, as = [a] ∧ a.group = 0 ∧ Drawn.shown c.L (.whole a) = some (expectedShown f)) ∨
    (∃ a b, as = [a, b] ∧ a.group = gid ∧ b.group = gid ∧
      Drawn.shown c.L (.halves a b) = some (expectedShown f) ∧ b.nend ≤ a.nstart)
  placed : ∀ a, as = [a] → a.nstart = (drawRange c).1 + ringOffset c.L (drawRange c).1 f.start ∧
    a.nend = a.nstart + f.loc.len

/-- shapes of a well-formed core inside a well-formed extent -/
theorem core_cases {L : Int} {loc core : Loc} (hl : collOK L loc = true) (hc : collOK L core = true)
    (hin : locationContainsOther loc core = true)
    (hx : (!decide (core.parts.length > 1) || decide (loc.parts.length > 1)) = true) :
    (∃ p q, loc = .simple p ∧ core = .simple q ∧ p.lo ≤ q.lo ∧ q.lo < q.hi ∧ q.hi ≤ p.hi) ∨
    (∃ s e q, loc = .compound [⟨s, L, .fwd⟩, ⟨0, e, .fwd⟩] ∧ core = .simple q ∧ q.lo < q.hi ∧
      ((s ≤ q.lo ∧ q.hi ≤ L) ∨ (0 ≤ q.lo ∧ q.hi ≤ e))) ∨
    (∃ s e cs ce, loc = .compound [⟨s, L, .fwd⟩, ⟨0, e, .fwd⟩] ∧
      core = .compound [⟨cs, L, .fwd⟩, ⟨0, ce, .fwd⟩] ∧ s ≤ cs ∧ cs < L ∧ 0 < ce ∧ ce ≤ e ∧ ce ≤ cs) := by
  rcases collOK_cases hl with ⟨p, rfl, hp1, hp2, hp3⟩ | ⟨s, e, rfl, he1, he2, he3⟩ <;>
  rcases collOK_cases hc with ⟨q, rfl, hq1, hq2, hq3⟩ | ⟨cs, ce, rfl, hc1, hc2, hc3⟩
  · left
    simp only [locationContainsOther, Loc.parts, partContains, List.all_cons, List.all_nil,
      List.any_cons, List.any_nil, Bool.or_false, Bool.and_true, Bool.and_eq_true,
      decide_eq_true_eq] at hin
    exact ⟨p, q, rfl, rfl, hin.1.1, hq2, hin.2⟩
  · simp [Loc.parts] at hx
  · right; left
    simp only [locationContainsOther, Loc.parts, partContains, List.all_cons, List.all_nil,
      List.any_cons, List.any_nil, Bool.or_false, Bool.and_true, Bool.and_eq_true, Bool.or_eq_true,
      decide_eq_true_eq] at hin
    refine ⟨s, e, q, rfl, rfl, hq2, ?_⟩
    omega
  · right; right
    simp only [locationContainsOther, Loc.parts, partContains, List.all_cons, List.all_nil,
      List.any_cons, List.any_nil, Bool.or_false, Bool.and_true, Bool.and_eq_true, Bool.or_eq_true,
      decide_eq_true_eq] at hin
    refine ⟨s, e, cs, ce, rfl, rfl, ?_⟩
    omega

/-- the five ways a well-formed feature can sit in a well-formed region -/
theorem shape_cases {c : Ctx} {f : Feat} (hc : regionOK c = true) (hf : featOK c f = true) :
    (∃ R p, c.region = .simple R ∧ f.loc = .simple p ∧ 0 ≤ R.lo ∧ R.hi ≤ c.L ∧ R.lo ≤ p.lo ∧
      p.lo < p.hi ∧ p.hi ≤ R.hi) ∨
    (∃ st s e, c.region = .simple ⟨0, c.L, st⟩ ∧ c.circular = true ∧
      f.loc = .compound [⟨s, c.L, .fwd⟩, ⟨0, e, .fwd⟩] ∧ 0 < e ∧ e ≤ s ∧ s < c.L) ∨
    (∃ S E p, c.region = .compound [⟨S, c.L, .fwd⟩, ⟨0, E, .fwd⟩] ∧ c.circular = true ∧
      0 < E ∧ E ≤ S ∧ S < c.L ∧ f.loc = .simple p ∧ p.lo < p.hi ∧
      ((S ≤ p.lo ∧ p.hi ≤ c.L) ∨ (0 ≤ p.lo ∧ p.hi ≤ E))) ∨
    (∃ S E s e, c.region = .compound [⟨S, c.L, .fwd⟩, ⟨0, E, .fwd⟩] ∧ c.circular = true ∧
      0 < E ∧ E ≤ S ∧ S < c.L ∧ f.loc = .compound [⟨s, c.L, .fwd⟩, ⟨0, e, .fwd⟩] ∧
      0 < e ∧ e ≤ s ∧ s < c.L ∧ S ≤ s ∧ e ≤ E) := by
  obtain ⟨region, L, circ⟩ := c
  simp only [regionOK, Bool.and_eq_true] at hc
  simp only [featOK, Bool.and_eq_true] at hf
  obtain ⟨⟨⟨hl, hin⟩, hcirc⟩, _⟩ := hf
  obtain ⟨hr, hrc⟩ := hc
  simp only at hl hin hcirc hr hrc ⊢
  rcases collOK_cases hr with ⟨R, rfl, hR1, hR2, hR3⟩ | ⟨S, E, rfl, hE1, hE2, hE3⟩ <;>
  rcases collOK_cases hl with ⟨p, hp, hp1, hp2, hp3⟩ | ⟨s, e, hp, he1, he2, he3⟩
  · left
    rw [hp] at hin
    simp only [locationContainsOther, Loc.parts, partContains, List.all_cons, List.all_nil,
      List.any_cons, List.any_nil, Bool.or_false, Bool.and_true, Bool.and_eq_true,
      decide_eq_true_eq] at hin
    exact ⟨R, p, rfl, hp, hR1, hR3, hin.1.1, hp2, hin.2⟩
  · right; left
    rw [hp] at hin
    simp only [locationContainsOther, Loc.parts, partContains, List.all_cons, List.all_nil,
      List.any_cons, List.any_nil, Bool.or_false, Bool.and_true, Bool.and_eq_true,
      decide_eq_true_eq] at hin
    obtain ⟨rlo, rhi, rs⟩ := R
    simp only at hin hR1 hR2 hR3
    have h1 : rlo = 0 := by omega
    have h2 : rhi = L := by omega
    subst h1 h2
    have hcr : f.crosses = true := by simp [Feat.crosses, hp, Loc.parts]
    simp only [hcr, Bool.not_true, Bool.false_or] at hcirc
    exact ⟨rs, s, e, rfl, hcirc, hp, he1, he2, he3⟩
  · right; right; left
    have hrcr : Ctx.regionCrosses ⟨.compound [⟨S, L, .fwd⟩, ⟨0, E, .fwd⟩], L, circ⟩ = true := by
      simp [Ctx.regionCrosses, Loc.parts]
    simp only [hrcr, Bool.not_true, Bool.false_or] at hrc
    rw [hp] at hin
    simp only [locationContainsOther, Loc.parts, partContains, List.all_cons, List.all_nil,
      List.any_cons, List.any_nil, Bool.or_false, Bool.and_true, Bool.and_eq_true, Bool.or_eq_true,
      decide_eq_true_eq] at hin
    refine ⟨S, E, p, rfl, hrc, hE1, hE2, hE3, hp, hp2, ?_⟩
    omega
  · right; right; right
    have hrcr : Ctx.regionCrosses ⟨.compound [⟨S, L, .fwd⟩, ⟨0, E, .fwd⟩], L, circ⟩ = true := by
      simp [Ctx.regionCrosses, Loc.parts]
    simp only [hrcr, Bool.not_true, Bool.false_or] at hrc
    rw [hp] at hin
    simp only [locationContainsOther, Loc.parts, partContains, List.all_cons, List.all_nil,
      List.any_cons, List.any_nil, Bool.or_false, Bool.and_true, Bool.and_eq_true, Bool.or_eq_true,
      decide_eq_true_eq] at hin
    refine ⟨S, E, s, e, rfl, hrc, hE1, hE2, hE3, hp, he1, he2, he3, ?_⟩
    omega

theorem areaInRange_iff (lo hi : Int) (a : Area) : areaInRange lo hi a = true ↔
    lo ≤ a.nstart ∧ a.nstart ≤ a.start ∧ a.start ≤ a.end ∧ a.end ≤ a.nend ∧ a.nend ≤ hi := by
  simp only [areaInRange, Bool.and_eq_true, decide_eq_true_eq]
  omega

theorem good_single {c : Ctx} {f : Feat} {h gid : Int} (a : Area)
    (hr : (drawRange c).1 ≤ a.nstart ∧ a.nstart ≤ a.start ∧ a.start ≤ a.end ∧ a.end ≤ a.nend ∧
      a.nend ≤ (drawRange c).2)
    (hh : a.height = h) (hne : a.nstart < a.nend)
    (hpts : ∀ x, a.nstart ≤ x → x < a.nend → f.loc.mem (foldS c.L x) = true)
    (hg : a.group = 0) (hs : Drawn.shown c.L (.whole a) = some (expectedShown f))
    (hpl : a.nstart = (drawRange c).1 + ringOffset c.L (drawRange c).1 f.start ∧
      a.nend = a.nstart + f.loc.len) :
    Good c f h gid [a] where
  range := by intro b hb; simp only [List.mem_singleton] at hb; subst hb; exact (areaInRange_iff _ _ _).2 hr
  height := by intro b hb; simp only [List.mem_singleton] at hb; subst hb; exact hh
  points := by intro b hb; simp only [List.mem_singleton] at hb; subst hb; exact ⟨hne, hpts⟩
  drawn := Or.inl ⟨a, rfl, hg, hs⟩
  placed := by intro b hb; simp only [List.cons.injEq, and_true] at hb; subst hb; exact hpl

theorem good_pair {c : Ctx} {f : Feat} {h gid : Int} (a b : Area)
    (hra : (drawRange c).1 ≤ a.nstart ∧ a.nstart ≤ a.start ∧ a.start ≤ a.end ∧ a.end ≤ a.nend ∧
      a.nend ≤ (drawRange c).2)
    (hrb : (drawRange c).1 ≤ b.nstart ∧ b.nstart ≤ b.start ∧ b.start ≤ b.end ∧ b.end ≤ b.nend ∧
      b.nend ≤ (drawRange c).2)
    (hha : a.height = h) (hhb : b.height = h) (hnea : a.nstart < a.nend) (hneb : b.nstart < b.nend)
    (hpa : ∀ x, a.nstart ≤ x → x < a.nend → f.loc.mem (foldS c.L x) = true)
    (hpb : ∀ x, b.nstart ≤ x → x < b.nend → f.loc.mem (foldS c.L x) = true)
    (hga : a.group = gid) (hgb : b.group = gid)
    (hs : Drawn.shown c.L (.halves a b) = some (expectedShown f)) (hsep : b.nend ≤ a.nstart) :
    Good c f h gid [a, b] where
  range := by
    intro x hx
    simp only [List.mem_cons, List.not_mem_nil, or_false] at hx
    rcases hx with rfl | rfl
    · exact (areaInRange_iff _ _ _).2 hra
    · exact (areaInRange_iff _ _ _).2 hrb
  height := by
    intro x hx
    simp only [List.mem_cons, List.not_mem_nil, or_false] at hx
    rcases hx with rfl | rfl
    · exact hha
    · exact hhb
  points := by
    intro x hx
    simp only [List.mem_cons, List.not_mem_nil, or_false] at hx
    rcases hx with rfl | rfl
    · exact ⟨hnea, hpa⟩
    · exact ⟨hneb, hpb⟩
  drawn := Or.inr ⟨a, b, rfl, hga, hgb, hs, hsep⟩
  placed := by intro x hx; simp at hx

theorem proto_core {c : Ctx} {f : Feat} (hf : featOK c f = true) (hk : f.kind = .proto) :
    collOK c.L f.loc = true ∧ collOK c.L f.core = true ∧ locationContainsOther f.loc f.core = true ∧
    (!decide (f.core.parts.length > 1) || decide (f.loc.parts.length > 1)) = true := by
  simp only [featOK, Bool.and_eq_true, hk, bne_self_eq_false, Bool.false_or] at hf
  simp only [Feat.crosses] at hf
  exact ⟨hf.1.1.1, hf.2.1.1, hf.2.1.2, hf.2.2⟩

end ASV.Packing
