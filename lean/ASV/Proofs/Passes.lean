/-
  C05: what the three passes group — the groups handed to `_merge_sets` are, up to order and
  repetition, the unions of every two related units, so (with the partition theorem) the merged
  groups are the chain classes of the documented relation.
-/
import ASV.Proofs.NoDup
set_option linter.unusedSectionVars false
set_option linter.unusedVariables false
namespace ASV.CC
open ASV.CC.Spec

/-! ### chains only depend on what the sets cover -/

theorem linked_of_cover {α : Type} {G1 G2 : List (List α)}
    (h : ∀ g, g ∈ G1 → ∃ g', g' ∈ G2 ∧ ∀ x, x ∈ g → x ∈ g') {a b : α} (hl : Linked G1 a b) : Linked G2 a b := by
  induction hl with
  | base hg ha hb =>
    obtain ⟨g', hg', hs⟩ := h _ hg
    exact Linked.base hg' (hs _ ha) (hs _ hb)
  | trans _ _ ih1 ih2 => exact Linked.trans ih1 ih2

/-! ### `Before` through `map` and `++` -/

theorem before_map {β γ : Type} (f : β → γ) {a b : β} {l : List β} (h : Before a b l) : Before (f a) (f b) (l.map f) := by
  induction l with
  | nil => cases h
  | cons x rest ih =>
    rcases h with ⟨e, hb⟩ | h
    · exact Or.inl ⟨by rw [e], List.mem_map.2 ⟨b, hb, rfl⟩⟩
    · exact Or.inr (ih h)

theorem before_of_map {β γ : Type} (f : β → γ) {x y : γ} {l : List β} (h : Before x y (l.map f)) :
    ∃ a b, Before a b l ∧ f a = x ∧ f b = y := by
  induction l with
  | nil => cases h
  | cons z rest ih =>
    rcases h with ⟨e, hb⟩ | h
    · obtain ⟨b, hb', eb⟩ := List.mem_map.1 hb
      exact ⟨z, b, Or.inl ⟨rfl, hb'⟩, e, eb⟩
    · obtain ⟨a, b, hbf, e1, e2⟩ := ih h
      exact ⟨a, b, Or.inr hbf, e1, e2⟩

theorem before_append {β : Type} {a b : β} {l1 l2 : List β} :
    Before a b (l1 ++ l2) ↔ Before a b l1 ∨ (a ∈ l1 ∧ b ∈ l2) ∨ Before a b l2 := by
  induction l1 with
  | nil => simp [Before]
  | cons x rest ih =>
    simp only [List.cons_append, Before, ih, List.mem_append, List.mem_cons]
    constructor
    · rintro (⟨e, hb | hb⟩ | h | ⟨ha, hb⟩ | h)
      · exact Or.inl (Or.inl ⟨e, hb⟩)
      · exact Or.inr (Or.inl ⟨Or.inl e.symm, hb⟩)
      · exact Or.inl (Or.inr h)
      · exact Or.inr (Or.inl ⟨Or.inr ha, hb⟩)
      · exact Or.inr (Or.inr h)
    · rintro ((⟨e, hb⟩ | h) | ⟨ha | ha, hb⟩ | h)
      · exact Or.inl ⟨e, Or.inl hb⟩
      · exact Or.inr (Or.inl h)
      · exact Or.inl ⟨ha.symm, Or.inr hb⟩
      · exact Or.inr (Or.inr (Or.inl ⟨ha, hb⟩))
      · exact Or.inr (Or.inr (Or.inr h))

theorem mem_allPairs {α : Type} {l : List α} {x : α × α} : x ∈ allPairs l ↔ Before x.1 x.2 l := by
  induction l with
  | nil => simp [allPairs, Before]
  | cons a rest ih =>
    simp only [allPairs, List.mem_append, List.mem_map, ih, Before]
    constructor
    · rintro (⟨b, hb, e⟩ | h)
      · subst e; exact Or.inl ⟨rfl, hb⟩
      · exact Or.inr h
    · rintro (⟨e, hb⟩ | h)
      · exact Or.inl ⟨x.2, hb, by rw [e]⟩
      · exact Or.inr h

theorem mem_overlapGroups {units : List U} {g : List Proto} :
    g ∈ overlapGroups units ↔ ∃ u v, Before u v units ∧ locationsOverlap u.span v.span = true ∧ g = u.members ++ v.members := by
  simp only [overlapGroups, List.mem_map, List.mem_filter, mem_allPairs]
  constructor
  · rintro ⟨x, ⟨hb, ho⟩, e⟩; exact ⟨x.1, x.2, hb, ho, e.symm⟩
  · rintro ⟨u, v, hb, ho, e⟩; exact ⟨(u, v), ⟨hb, ho⟩, e.symm⟩

/-! ### the neighbouring pass -/

/-- the units of the neighbouring pass: the candidates so far, then the remaining protoclusters -/
def neighbourUnits (singles : List Proto) (cands : List Cand) : List U :=
  candUnits cands ++ protoUnits (·.loc) singles

/-- `_find_neighbouring` merges, up to order and repetition, exactly the unions of every two
    overlapping units -/
theorem findNeighbouring_groups (singles : List Proto) (cands : List Cand) :
    ∃ G, findNeighbouring singles cands = mergeSets G ∧
      (∀ g, g ∈ G → ∃ g', g' ∈ overlapGroups (neighbourUnits singles cands) ∧ ∀ x, x ∈ g → x ∈ g') ∧
      (∀ g', g' ∈ overlapGroups (neighbourUnits singles cands) → ∃ g, g ∈ G ∧ ∀ x, x ∈ g' → x ∈ g) := by
  unfold findNeighbouring
  dsimp only
  refine ⟨_, rfl, ?_, ?_⟩
  · intro g hg
    -- candidate + single
    have cs : ∀ (c : Cand) (s : Proto), c ∈ cands → s ∈ singles → locationsOverlap s.loc c.loc = true →
        g = dedup (c.members ++ [s]) → ∃ g', g' ∈ overlapGroups (neighbourUnits singles cands) ∧ ∀ x, x ∈ g → x ∈ g' := by
      intro c s hc hs ho e
      subst e
      refine ⟨c.members ++ [s], mem_overlapGroups.2 ⟨⟨c.members, c.loc⟩, ⟨[s], s.loc⟩, ?_, ?_, rfl⟩, fun x hx => mem_dedup.1 hx⟩
      · exact before_append.2 (Or.inr (Or.inl ⟨List.mem_map.2 ⟨c, hc, rfl⟩, List.mem_map.2 ⟨s, hs, rfl⟩⟩))
      · show locationsOverlap c.loc s.loc = true
        rw [locationsOverlap_comm]; exact ho
    have pp : ∀ a b : Proto, Before a b singles → locationsOverlap a.loc b.loc = true →
        ∃ g', g' ∈ overlapGroups (neighbourUnits singles cands) ∧ a ∈ g' ∧ b ∈ g' := by
      intro a b hbf ho
      refine ⟨[a] ++ [b], mem_overlapGroups.2 ⟨⟨[a], a.loc⟩, ⟨[b], b.loc⟩, ?_, ho, rfl⟩, by simp, by simp⟩
      exact before_append.2 (Or.inr (Or.inr (before_map (fun p : Proto => (⟨[p], p.loc⟩ : U)) hbf)))
    rcases List.mem_append.1 hg with h123 | h4
    · rcases List.mem_append.1 h123 with h12 | h3
      · rcases List.mem_append.1 h12 with h1 | h2
        · obtain ⟨a, b, hbf, ho, e⟩ := (mem_pairsWhere _ _ _ _).1 h1
          subst e
          refine ⟨a.members ++ b.members, mem_overlapGroups.2 ⟨⟨a.members, a.loc⟩, ⟨b.members, b.loc⟩, ?_, ho, rfl⟩,
            fun x hx => mem_dedup.1 hx⟩
          exact before_append.2 (Or.inl (before_map (fun c : Cand => (⟨c.members, c.loc⟩ : U)) hbf))
        · obtain ⟨s, hs, hg2⟩ := List.mem_flatMap.1 h2
          obtain ⟨c, hcf, e⟩ := List.mem_map.1 hg2
          exact cs c s (List.mem_filter.1 hcf).1 hs (by simpa using (List.mem_filter.1 hcf).2) e.symm
      · obtain ⟨c, hce, hg3⟩ := List.mem_flatMap.1 h3
        have hcc : c ∈ cands := by
          split at hce
          · rcases List.mem_append.1 hce with h | h
            · split at h
              · rename_i c0 hh
                split at h
                · have : c = c0 := by simpa using h
                  rw [this]; exact List.mem_of_head? hh
                · cases h
              · cases h
            · split at h
              · split at h
                · rename_i c0 hl
                  split at h
                  · have : c = c0 := by simpa using h
                    rw [this]; exact List.mem_of_getLast? hl
                  · cases h
                · cases h
              · cases h
          · cases hce
        split at hg3
        · rename_i s hfind
          have hs := List.mem_of_find?_eq_some hfind
          have ho := List.find?_some hfind
          have e : g = dedup (c.members ++ [s]) := by simpa using hg3
          exact cs c s hcc (List.mem_filter.1 hs).1 (by simpa using ho) e
        · cases hg3
    · simp only [findNeighbouringProtoclusters, List.mem_append] at h4
      have fin : ∀ a b : Proto, g = [a, b] → (∃ g', g' ∈ overlapGroups (neighbourUnits singles cands) ∧ a ∈ g' ∧ b ∈ g') →
          ∃ g', g' ∈ overlapGroups (neighbourUnits singles cands) ∧ ∀ x, x ∈ g → x ∈ g' := by
        rintro a b e ⟨g', hg', ha, hb⟩
        subst e
        refine ⟨g', hg', ?_⟩
        intro x hx
        rcases List.mem_cons.1 hx with e | e
        · rw [e]; exact ha
        · have : x = b := by simpa using e
          rw [this]; exact hb
      rcases h4 with h4 | h4
      · obtain ⟨a, b, hbf, ho, e⟩ := (mem_pairsWhere _ _ _ _).1 h4
        exact fin a b e (pp a b hbf ho)
      · split at h4
        · split at h4
          · rename_i f l hf hl
            split at h4
            · rename_i hcond
              simp only [Bool.and_eq_true, bne_iff_ne, ne_eq] at hcond
              have e : g = [f, l] := by simpa using h4
              rcases before_total (List.mem_of_head? hf) (List.mem_of_getLast? hl) hcond.1 with hb | hb
              · exact fin f l e (pp f l hb hcond.2)
              · obtain ⟨g', hg', h1, h2⟩ := pp l f hb (by rw [locationsOverlap_comm]; exact hcond.2)
                exact fin f l e ⟨g', hg', h2, h1⟩
            · cases h4
          · cases h4
        · cases h4
  · intro g' hg'
    obtain ⟨u, v, hbf, ho, e⟩ := mem_overlapGroups.1 hg'
    subst e
    rcases before_append.1 hbf with h | ⟨hu, hv⟩ | h
    · -- two candidates
      obtain ⟨a, b, hab, ea, eb⟩ := before_of_map _ h
      subst ea; subst eb
      refine ⟨dedup (a.members ++ b.members), ?_, fun x hx => mem_dedup.2 hx⟩
      apply List.mem_append.2; left
      apply List.mem_append.2; left
      apply List.mem_append.2; left
      exact (mem_pairsWhere _ _ _ _).2 ⟨a, b, hab, ho, rfl⟩
    · -- candidate and single
      obtain ⟨c, hc, ec⟩ := List.mem_map.1 hu
      obtain ⟨s, hs, es⟩ := List.mem_map.1 hv
      subst ec; subst es
      refine ⟨dedup (c.members ++ [s]), ?_, fun x hx => mem_dedup.2 hx⟩
      apply List.mem_append.2; left
      apply List.mem_append.2; left
      apply List.mem_append.2; right
      apply List.mem_flatMap.2
      refine ⟨s, hs, List.mem_map.2 ⟨c, List.mem_filter.2 ⟨hc, ?_⟩, rfl⟩⟩
      have : locationsOverlap c.loc s.loc = true := ho
      rw [locationsOverlap_comm]; exact this
    · -- two singles
      obtain ⟨a, b, hab, ea, eb⟩ := before_of_map _ h
      subst ea; subst eb
      refine ⟨[a, b], ?_, fun x hx => by simpa using hx⟩
      apply List.mem_append.2; right
      simp only [findNeighbouringProtoclusters]
      apply List.mem_append.2; left
      exact (mem_pairsWhere _ _ _ _).2 ⟨a, b, hab, ho, rfl⟩

/-- two protoclusters end up in one neighbouring group iff a chain of pairwise overlapping units
    (candidates so far, remaining protoclusters) leads from one to the other -/
theorem findNeighbouring_classes (singles : List Proto) (cands : List Cand) (a b : Proto) :
    (∃ r, r ∈ findNeighbouring singles cands ∧ a ∈ r ∧ b ∈ r) ↔
      Linked (overlapGroups (neighbourUnits singles cands)) a b := by
  obtain ⟨G, hG, h1, h2⟩ := findNeighbouring_groups singles cands
  rw [hG]
  have hm : (∃ r, r ∈ mergeSets G ∧ a ∈ r ∧ b ∈ r) ↔ Linked G a b := by
    rw [← (mergeSetsCore_spec groupKey G).2.2 a b]
    constructor
    · rintro ⟨r, hr, ha, hb⟩
      obtain ⟨r0, h0, e⟩ := mem_mergeSets.1 hr
      subst e
      exact ⟨r0, h0, mem_sortProtos.1 ha, mem_sortProtos.1 hb⟩
    · rintro ⟨r0, h0, ha, hb⟩
      exact ⟨sortProtos r0, mem_mergeSets.2 ⟨r0, h0, rfl⟩, mem_sortProtos.2 ha, mem_sortProtos.2 hb⟩
  rw [hm]
  exact ⟨linked_of_cover h1, linked_of_cover h2⟩


/-! ### the hybrid pass -/

theorem mem_shareGroups {ps : List Proto} {g : List Proto} :
    g ∈ shareGroups ps ↔ ∃ a b, Before a b ps ∧ shares a b = true ∧ g = [a, b] := by
  simp only [shareGroups, List.mem_map, List.mem_filter, mem_allPairs, shares]
  constructor
  · rintro ⟨x, ⟨hb, ho⟩, e⟩; exact ⟨x.1, x.2, hb, ho, e.symm⟩
  · rintro ⟨u, v, hb, ho, e⟩; exact ⟨(u, v), ⟨hb, ho⟩, e.symm⟩

theorem shares_comm (a b : Proto) : shares a b = shares b a := by
  simp only [shares]
  rw [Bool.eq_iff_iff]
  simp only [List.any_eq_true, List.contains_eq_mem, decide_eq_true_eq]
  constructor
  · rintro ⟨g, h1, h2⟩; exact ⟨g, h2, h1⟩
  · rintro ⟨g, h1, h2⟩; exact ⟨g, h2, h1⟩

theorem pair_sub_swap {a b x : Proto} (hx : x ∈ [a, b]) : x ∈ [b, a] := by
  simp at hx ⊢; exact hx.symm

theorem scanContained_from' (core : Loc) (limit : Int) (group cs : List Proto) :
    ∀ p, p ∈ scanContained core limit group cs → p ∈ group ∨ (p ∈ cs ∧ locationContainsOther core p.core = true) := by
  induction cs generalizing group with
  | nil => intro p hp; left; simpa [scanContained] using hp
  | cons c rest ih =>
    intro p hp
    simp only [scanContained] at hp
    split at hp
    · exact Or.inl hp
    · split at hp
      · rename_i hc
        rcases ih _ p hp with h | ⟨h, hcont⟩
        · rcases List.mem_append.1 h with h1 | h1
          · exact Or.inl h1
          · right; have : p = c := by simpa using h1
            rw [this]
            simp only [Bool.and_eq_true] at hc
            exact ⟨List.mem_cons_self, hc.2⟩
        · exact Or.inr ⟨List.mem_cons_of_mem _ h, hcont⟩
      · rcases ih _ p hp with h | ⟨h, hcont⟩
        · exact Or.inl h
        · exact Or.inr ⟨List.mem_cons_of_mem _ h, hcont⟩

theorem extendGroup_from' {wrap : Option Int} {byCore g g' : List Proto} (h : extendGroup wrap byCore g = .ok g') :
    ∃ core, connect (g.map (·.core)) wrap = .ok core ∧
      ∀ p, p ∈ g' → p ∈ g ∨ (p ∈ byCore ∧ locationContainsOther core p.core = true) := by
  unfold extendGroup at h
  split at h
  · cases h
  · rename_i core hcore
    dsimp only at h
    injection h with h
    subst h
    refine ⟨core, hcore, ?_⟩
    intro p hp
    split at hp
    · rcases scanContained_from' _ _ _ _ p hp with h1 | h1
      · rcases scanContained_from' _ _ _ _ p h1 with h2 | ⟨h2, h3⟩
        · exact Or.inl h2
        · exact Or.inr ⟨List.mem_of_mem_drop h2, h3⟩
      · exact Or.inr h1
    · rcases scanContained_from' _ _ _ _ p hp with h2 | ⟨h2, h3⟩
      · exact Or.inl h2
      · exact Or.inr ⟨List.mem_of_mem_drop h2, h3⟩

theorem extendGroups_rel {wrap : Option Int} {byCore : List Proto} {gs gs' : List (List Proto)}
    (h : extendGroups wrap byCore gs = .ok gs') :
    ∀ g', g' ∈ gs' → ∃ g, g ∈ gs ∧ extendGroup wrap byCore g = .ok g' := by
  induction gs generalizing gs' with
  | nil => simp only [extendGroups] at h; injection h with h; subst h; intro g' hg'; cases hg'
  | cons g0 rest ih =>
    simp only [extendGroups] at h
    split at h
    · cases h
    · rename_i g0' h0
      split at h
      · cases h
      · rename_i rest' hr
        injection h with h; subst h
        intro g' hg'
        rcases List.mem_cons.1 hg' with e | e
        · subst e; exact ⟨g0, List.mem_cons_self, h0⟩
        · obtain ⟨g, hg, hx⟩ := ih hr g' e
          exact ⟨g, List.mem_cons_of_mem _ hg, hx⟩

/-- what `_find_hybrids` returns, in terms of the documented relation:
    (1) protoclusters linked by a chain of shared defining genes are in one hybrid group;
    (2) every hybrid group consists of one such chain class `m` (at least two protoclusters) plus
        protoclusters that share no gene with anyone and whose core lies inside the connected core of `m`;
    (3) a protocluster that shares a gene with another one is in some hybrid group, never left over -/
theorem findHybrids_classes {clusters : List Proto} {wrap : Option Int} {hg : List (List Proto)} {un : List Proto}
    (h : findHybrids clusters wrap = .ok (hg, un)) (hn : clusters.Nodup) :
    (∀ a b, Linked (shareGroups clusters) a b → ∃ g, g ∈ hg ∧ a ∈ g ∧ b ∈ g) ∧
    (∀ g, g ∈ hg → ∃ m core, (∀ x, x ∈ m → x ∈ g) ∧ Two m ∧ (∀ a b, a ∈ m → b ∈ m → Linked (shareGroups clusters) a b) ∧
        connect (m.map (·.core)) wrap = .ok core ∧
        ∀ p, p ∈ g → p ∈ m ∨ (p ∈ clusters ∧ (∀ q, q ∈ clusters → q ≠ p → shares p q = false) ∧
          locationContainsOther core p.core = true)) := by
  unfold findHybrids at h
  split at h
  · cases h
  · dsimp only at h
    split at h
    · cases h
    · rename_i extended hext
      injection h with h
      injection h with h1 h2
      subst h1; subst h2
      generalize hgroups : (pairsWhere shares (fun a b => [a, b]) (sortBy coreKeyLt clusters) ++
        match (sortBy coreKeyLt clusters).head?, (sortBy coreKeyLt clusters).getLast? with
        | some f, some l => if (f != l && shares f l) = true then [[f, l]] else []
        | x, x_1 => []) = groups at hext ⊢
      have hsn : (sortBy coreKeyLt clusters).Nodup := nodup_sortBy _ hn
      have hsm : ∀ p, p ∈ sortBy coreKeyLt clusters ↔ p ∈ clusters := fun p => mem_sortBy _ _ _
      -- every model pair is a spec pair (possibly swapped) …
      have hms : ∀ g, g ∈ groups → ∃ g', g' ∈ shareGroups clusters ∧ ∀ x, x ∈ g → x ∈ g' := by
        have key : ∀ a b : Proto, a ∈ clusters → b ∈ clusters → a ≠ b → shares a b = true →
            ∃ g', g' ∈ shareGroups clusters ∧ ∀ x, x ∈ [a, b] → x ∈ g' := by
          intro a b ha hb hab hs
          rcases before_total ha hb hab with hbf | hbf
          · exact ⟨[a, b], mem_shareGroups.2 ⟨a, b, hbf, hs, rfl⟩, fun x hx => hx⟩
          · exact ⟨[b, a], mem_shareGroups.2 ⟨b, a, hbf, by rw [shares_comm]; exact hs, rfl⟩, fun x hx => pair_sub_swap hx⟩
        intro g hg
        rw [← hgroups] at hg
        rcases List.mem_append.1 hg with h1 | h1
        · obtain ⟨a, b, hbf, hs, e⟩ := (mem_pairsWhere _ _ _ _).1 h1
          subst e
          exact key a b ((hsm a).1 (before_mem hbf).1) ((hsm b).1 (before_mem hbf).2) (before_ne hsn hbf) hs
        · split at h1
          · rename_i f l hf hl
            split at h1
            · rename_i hcond
              simp only [Bool.and_eq_true, bne_iff_ne, ne_eq] at hcond
              have e : g = [f, l] := by simpa using h1
              subst e
              exact key f l ((hsm f).1 (List.mem_of_head? hf)) ((hsm l).1 (List.mem_of_getLast? hl)) hcond.1 hcond.2
            · cases h1
          · cases h1
      -- … and every spec pair is a model pair (possibly swapped)
      have hsmod : ∀ g', g' ∈ shareGroups clusters → ∃ g, g ∈ groups ∧ ∀ x, x ∈ g' → x ∈ g := by
        intro g' hg'
        obtain ⟨a, b, hbf, hs, e⟩ := mem_shareGroups.1 hg'
        subst e
        have hab := before_ne hn hbf
        have hm := before_mem hbf
        rw [← hgroups]
        rcases before_total ((hsm a).2 hm.1) ((hsm b).2 hm.2) hab with h1 | h1
        · exact ⟨[a, b], List.mem_append.2 (Or.inl ((mem_pairsWhere _ _ _ _).2 ⟨a, b, h1, hs, rfl⟩)), fun x hx => hx⟩
        · exact ⟨[b, a], List.mem_append.2 (Or.inl ((mem_pairsWhere _ _ _ _).2 ⟨b, a, h1, by rw [shares_comm]; exact hs, rfl⟩)),
            fun x hx => pair_sub_swap hx⟩
      have hmerged : ∀ a b, (∃ r, r ∈ mergeSets groups ∧ a ∈ r ∧ b ∈ r) ↔ Linked groups a b := by
        intro a b
        rw [← (mergeSetsCore_spec groupKey groups).2.2 a b]
        constructor
        · rintro ⟨r, hr, ha, hb⟩
          obtain ⟨r0, h0, e⟩ := mem_mergeSets.1 hr
          subst e
          exact ⟨r0, h0, mem_sortProtos.1 ha, mem_sortProtos.1 hb⟩
        · rintro ⟨r0, h0, ha, hb⟩
          exact ⟨sortProtos r0, mem_mergeSets.2 ⟨r0, h0, rfl⟩, mem_sortProtos.2 ha, mem_sortProtos.2 hb⟩
      refine ⟨?_, ?_⟩
      · intro a b hl
        obtain ⟨m, hm, ha, hb⟩ := (hmerged a b).2 (linked_of_cover hsmod hl)
        obtain ⟨e, he, hsub⟩ := extendGroups_sub hext m hm
        exact ⟨sortProtos e, List.mem_map.2 ⟨e, he, rfl⟩, mem_sortProtos.2 (hsub a ha), mem_sortProtos.2 (hsub b hb)⟩
      · intro g hg
        obtain ⟨e, he, rfl⟩ := List.mem_map.1 hg
        obtain ⟨m, hm, hme⟩ := extendGroups_rel hext e he
        obtain ⟨core, hcore, hfrom⟩ := extendGroup_from' hme
        have hpairTwo : ∀ g, g ∈ groups → Two g := by
          intro g hg
          obtain ⟨g', hg', hsub⟩ := hms g hg
          rw [← hgroups] at hg
          rcases List.mem_append.1 hg with h1 | h1
          · obtain ⟨a, b, hbf, _, e⟩ := (mem_pairsWhere _ _ _ _).1 h1
            subst e; exact ⟨a, b, by simp, by simp, before_ne hsn hbf⟩
          · split at h1
            · rename_i f l hf hl
              split at h1
              · rename_i hcond
                simp only [Bool.and_eq_true, bne_iff_ne, ne_eq] at hcond
                have e : g = [f, l] := by simpa using h1
                subst e; exact ⟨f, l, by simp, by simp, hcond.1⟩
              · cases h1
            · cases h1
        refine ⟨m, core, ?_, ?_, ?_, hcore, ?_⟩
        · intro x hx; exact mem_sortProtos.2 (extendGroup_sub hme x hx)
        · exact two_of_nodup (mergeSets_wf hpairTwo m hm).1 (mergeSets_wf hpairTwo m hm).2
        · intro a b ha hb
          exact linked_of_cover hms ((hmerged a b).1 ⟨m, hm, ha, hb⟩)
        · intro p hp
          rcases hfrom p (mem_sortProtos.1 hp) with h1 | ⟨h1, h2⟩
          · exact Or.inl h1
          · right
            have hp1 := (mem_sortBy _ _ _).1 h1
            obtain ⟨hpc, hnotpaired⟩ := List.mem_filter.1 hp1
            have hnp : p ∉ groups.flatten := by simpa using hnotpaired
            refine ⟨hpc, ?_, h2⟩
            intro q hq hqp
            by_cases hs : shares p q = true
            · exfalso
              apply hnp
              have hpq : p ≠ q := fun e => hqp e.symm
              rcases before_total hpc hq hpq with hbf | hbf
              · obtain ⟨g, hg, hsub⟩ := hsmod [p, q] (mem_shareGroups.2 ⟨p, q, hbf, hs, rfl⟩)
                exact List.mem_flatten.2 ⟨g, hg, hsub p (by simp)⟩
              · obtain ⟨g, hg, hsub⟩ := hsmod [q, p] (mem_shareGroups.2 ⟨q, p, hbf, by rw [shares_comm]; exact hs, rfl⟩)
                exact List.mem_flatten.2 ⟨g, hg, hsub p (by simp)⟩
            · simpa using hs


/-! ### the interleaved pass -/

/-- ascending by an integer key -/
def SortedBy {α : Type} (key : α → Int) (l : List α) : Prop := l.Pairwise fun a b => key a ≤ key b

theorem insertBy_sorted {α : Type} [DecidableEq α] (key : α → Int) (x : α) (l : List α) (h : SortedBy key l) :
    SortedBy key (insertBy (fun a b => decide (key a < key b)) x l) := by
  induction l with
  | nil => simp [insertBy, SortedBy]
  | cons y ys ih =>
    have hc := List.pairwise_cons.1 h
    simp only [insertBy]
    split
    · rename_i hlt
      have hlt' : key y < key x := by simpa using hlt
      refine List.pairwise_cons.2 ⟨?_, ih hc.2⟩
      intro z hz
      rcases (mem_insertBy _ x z ys).1 hz with e | e
      · rw [e]; omega
      · exact hc.1 z e
    · rename_i hlt
      have hge : key x ≤ key y := by
        have : ¬ key y < key x := by simpa using hlt
        omega
      refine List.pairwise_cons.2 ⟨?_, h⟩
      intro z hz
      rcases List.mem_cons.1 hz with e | e
      · rw [e]; exact hge
      · have := hc.1 z e; omega

theorem sortBy_sorted {α : Type} [DecidableEq α] (key : α → Int) (l : List α) :
    SortedBy key (sortBy (fun a b => decide (key a < key b)) l) := by
  induction l with
  | nil => simp [sortBy, SortedBy]
  | cons z zs ih =>
    have : sortBy (fun a b => decide (key a < key b)) (z :: zs) = insertBy (fun a b => decide (key a < key b)) z (sortBy (fun a b => decide (key a < key b)) zs) := rfl
    rw [this]
    exact insertBy_sorted key z _ ih

/-- overlapping locations: the second starts before the first ends -/
theorem overlap_start_lt_end {a b : Loc} (ha : a.PartsNonEmpty) (hb : b.PartsNonEmpty)
    (h : locationsOverlap a b = true) : b.start < a.end := by
  obtain ⟨i, hia, hib⟩ := (locationsOverlap_iff a b ha hb).1 h
  simp only [Loc.mem, List.any_eq_true, Part.mem_iff] at hia hib
  obtain ⟨p, hp, _, h2⟩ := hia
  obtain ⟨q, hq, h3, _⟩ := hib
  have := (start_le_part a p hp).2
  have := (start_le_part b q hq).1
  omega

theorem mem_interleavedRow' {c : Proto} {rest : List Proto} {g : List Proto} (h : g ∈ interleavedRow c rest) :
    ∃ o, o ∈ rest ∧ locationsOverlap c.core o.core = true ∧ g = [c, o] := by
  induction rest with
  | nil => simp [interleavedRow] at h
  | cons o rest ih =>
    simp only [interleavedRow] at h
    split at h
    · cases h
    · split at h
      · rename_i ho
        rcases List.mem_cons.1 h with e | e
        · exact ⟨o, List.mem_cons_self, ho, e⟩
        · obtain ⟨o', ho', h2, e'⟩ := ih e
          exact ⟨o', List.mem_cons_of_mem _ ho', h2, e'⟩
      · obtain ⟨o', ho', h2, e'⟩ := ih h
        exact ⟨o', List.mem_cons_of_mem _ ho', h2, e'⟩

theorem mem_interleavedPairs' {l : List Proto} {g : List Proto} (h : g ∈ interleavedPairs l) :
    ∃ a b, Before a b l ∧ locationsOverlap a.core b.core = true ∧ g = [a, b] := by
  induction l with
  | nil => simp [interleavedPairs] at h
  | cons c rest ih =>
    simp only [interleavedPairs, List.mem_append] at h
    rcases h with h | h
    · obtain ⟨o, ho, h2, e⟩ := mem_interleavedRow' h
      exact ⟨c, o, Or.inl ⟨rfl, ho⟩, h2, e⟩
    · obtain ⟨a, b, hbf, h2, e⟩ := ih h
      exact ⟨a, b, Or.inr hbf, h2, e⟩

/-- the early `break` loses nothing on a list ascending by core start -/
theorem interleavedRow_complete {c : Proto} {rest : List Proto} (hne : ∀ p, p ∈ c :: rest → p.core.PartsNonEmpty)
    (hs : SortedBy (fun p : Proto => p.core.start) rest) {o : Proto} (ho : o ∈ rest)
    (hov : locationsOverlap c.core o.core = true) : [c, o] ∈ interleavedRow c rest := by
  induction rest with
  | nil => cases ho
  | cons o' rest ih =>
    have hc := List.pairwise_cons.1 hs
    have hlt := overlap_start_lt_end (hne c List.mem_cons_self) (hne o (List.mem_cons_of_mem _ ho)) hov
    simp only [interleavedRow]
    have hnb : ¬ c.core.end ≤ o'.core.start := by
      rcases List.mem_cons.1 ho with e | e
      · rw [← e]; omega
      · have := hc.1 o e
        simp only at this
        omega
    rw [if_neg hnb]
    have hne' : ∀ p, p ∈ c :: rest → p.core.PartsNonEmpty := by
      intro p hp
      rcases List.mem_cons.1 hp with e | e
      · rw [e]; exact hne c List.mem_cons_self
      · exact hne p (List.mem_cons_of_mem _ (List.mem_cons_of_mem _ e))
    rcases List.mem_cons.1 ho with e | e
    · subst e
      rw [if_pos hov]; exact List.mem_cons_self
    · split
      · exact List.mem_cons_of_mem _ (ih hne' hc.2 e)
      · exact ih hne' hc.2 e

theorem interleavedPairs_complete {l : List Proto} (hne : ∀ p, p ∈ l → p.core.PartsNonEmpty)
    (hs : SortedBy (fun p : Proto => p.core.start) l) {a b : Proto} (hbf : Before a b l)
    (hov : locationsOverlap a.core b.core = true) : [a, b] ∈ interleavedPairs l := by
  induction l with
  | nil => cases hbf
  | cons c rest ih =>
    have hc := List.pairwise_cons.1 hs
    simp only [interleavedPairs, List.mem_append]
    rcases hbf with ⟨e, hb⟩ | h
    · subst e
      exact Or.inl (interleavedRow_complete hne hc.2 hb hov)
    · exact Or.inr (ih (fun p hp => hne p (List.mem_cons_of_mem _ hp)) hc.2 h)

/-- the units of the interleaved pass: candidates with their combined cores, then the remaining
    protoclusters with their cores -/
def interleaveUnits (clusters : List Proto) (cc : List CandC) : List U :=
  cc.map (fun x => (⟨x.1.members, x.2⟩ : U)) ++ protoUnits (·.core) clusters

theorem before_head_last {β : Type} {l : List β} {a b : β} (hl : l.length > 1) (ha : l.head? = some a)
    (hb : l.getLast? = some b) : Before a b l := by
  match l, hl, ha, hb with
  | x :: y :: rest, _, ha, hb =>
    have e : x = a := by simpa using ha
    refine Or.inl ⟨e, ?_⟩
    have : (y :: rest).getLast? = some b := by
      simpa [List.getLast?_cons_cons] using hb
    exact List.mem_of_getLast? this

theorem withCores_none_simple {cands : List Cand} {cc : List CandC} (h : withCores none cands = .ok cc) :
    ∀ x, x ∈ cc → twoParts x.2 = false := by
  induction cands generalizing cc with
  | nil => simp only [withCores] at h; injection h with h; subst h; intro x hx; cases hx
  | cons c cs ih =>
    simp only [withCores] at h
    split at h
    · cases h
    · rename_i k hk
      split at h
      · cases h
      · rename_i r hr
        injection h with h; subst h
        intro x hx
        rcases List.mem_cons.1 hx with e | e
        · subst e
          -- `connect … none` returns a hull: one part
          simp only [candCore, connect, connectLocations] at hk
          split at hk
          · cases hk
          · split at hk
            · cases hk
            · simp only [bind, Except.bind] at hk
              split at hk
              · cases hk
              · simp only [pure, Except.pure] at hk
                injection hk with hk
                subst hk
                simp [twoParts, hullOf, Loc.parts]
        · exact ih hr x e

/-- what the two walks of `_find_cross_origin_interleaved` collect: the starting group, plus
    protoclusters of the list whose core overlaps the connected origin-spanning core -/
theorem walk_desc (core : Loc) (total : Nat) (l cg f : List Proto) :
    (∀ p, p ∈ (walk core total l cg f).1 → p ∈ cg ∨ (p ∈ l ∧ locationsOverlap p.core core = true)) ∧
    (∀ p, p ∈ (walk core total l cg f).2 → p ∈ f ∨ (p ∈ l ∧ locationsOverlap p.core core = true)) := by
  induction l generalizing cg f with
  | nil => simp only [walk]; exact ⟨fun p hp => Or.inl hp, fun p hp => Or.inl hp⟩
  | cons c rest ih =>
    simp only [walk]
    split
    · exact ⟨fun p hp => Or.inl hp, fun p hp => Or.inl hp⟩
    · split
      · exact ⟨fun p hp => Or.inl hp, fun p hp => Or.inl hp⟩
      · rename_i hov
        have hov' : locationsOverlap c.core core = true := by simpa using hov
        obtain ⟨a, b⟩ := ih (if cg.contains c = true then cg else cg ++ [c]) (if f.contains c = true then f else f ++ [c])
        refine ⟨?_, ?_⟩
        · intro p hp
          rcases a p hp with h | ⟨h, ho⟩
          · split at h
            · exact Or.inl h
            · rcases List.mem_append.1 h with h1 | h1
              · exact Or.inl h1
              · have : p = c := by simpa using h1
                rw [this]; exact Or.inr ⟨List.mem_cons_self, hov'⟩
          · exact Or.inr ⟨List.mem_cons_of_mem _ h, ho⟩
        · intro p hp
          rcases b p hp with h | ⟨h, ho⟩
          · split at h
            · exact Or.inl h
            · rcases List.mem_append.1 h with h1 | h1
              · exact Or.inl h1
              · have : p = c := by simpa using h1
                rw [this]; exact Or.inr ⟨List.mem_cons_self, hov'⟩
          · exact Or.inr ⟨List.mem_cons_of_mem _ h, ho⟩

/-- the group the origin-crossing step may add: members of candidates whose combined core spans
    the origin, and protoclusters whose core overlaps the connected span of those cores — with at
    least one such protocluster in it -/
def CrossGroup (cc : List CandC) (un : List Proto) (wrap : Option Int) (g : List Proto) : Prop :=
  ∃ core u0, connect ((cc.filter fun c => twoParts c.2).map (·.2)) wrap = .ok core ∧
    u0 ∈ un ∧ locationsOverlap u0.core core = true ∧ u0 ∈ g ∧
    ∀ e, e ∈ g → (∃ x, x ∈ cc ∧ twoParts x.2 = true ∧ e ∈ x.1.members) ∨ (e ∈ un ∧ locationsOverlap e.core core = true)

theorem findCross_desc {cc : List CandC} {un : List Proto} {groups groups' : List (List Proto)} {wrap : Option Int}
    {found : List Proto} (h : findCrossOriginInterleaved cc un groups wrap = .ok (found, groups')) :
    ∀ g, g ∈ groups' → g ∈ groups ∨ CrossGroup cc un wrap g := by
  unfold findCrossOriginInterleaved at h
  split at h
  · injection h with h; injection h with h1 h2; subst h1; subst h2
    exact fun g hg => Or.inl hg
  · split at h
    · injection h with h; injection h with h1 h2; subst h1; subst h2
      exact fun g hg => Or.inl hg
    · dsimp only at h
      split at h
      · cases h
      · rename_i core hcore
        split at h
        · cases h
        · rename_i hcg0
          generalize hcg0def : dedup (List.flatMap (fun c =>
              if (List.filter (fun p => bridgesOrigin p.core) c.1.members).isEmpty = true then c.1.members
              else List.filter (fun p => bridgesOrigin p.core) c.1.members)
              (List.filter (fun c => twoParts c.2) cc)) = cg0 at h hcg0
          generalize hback : walk core un.length (List.drop 1 un).reverse cg0 [] = back at h
          generalize hfwd : walk core un.length un back.1 back.2 = fwd at h
          have hb := walk_desc core un.length (List.drop 1 un).reverse cg0 []
          rw [hback] at hb
          have hf := walk_desc core un.length un back.1 back.2
          rw [hfwd] at hf
          have hbs := walk_spec core un.length (List.drop 1 un).reverse cg0 []
          rw [hback] at hbs
          have hfs := walk_spec core un.length un back.1 back.2
          rw [hfwd] at hfs
          have hfound_in : ∀ p, p ∈ fwd.2 → p ∈ fwd.1 := hfs.2 (hbs.2 (fun p hp => by cases hp))
          have hcg0_from : ∀ q, q ∈ cg0 → ∃ c, c ∈ cc ∧ twoParts c.2 = true ∧ q ∈ c.1.members := by
            intro q hq
            rw [← hcg0def] at hq
            have hq := mem_dedup.1 hq
            obtain ⟨c, hc, hqc⟩ := List.mem_flatMap.1 hq
            obtain ⟨hc1, hc2⟩ := List.mem_filter.1 hc
            refine ⟨c, hc1, hc2, ?_⟩
            split at hqc
            · exact hqc
            · exact (List.mem_filter.1 hqc).1
          have hfound_desc : ∀ p, p ∈ fwd.2 → p ∈ un ∧ locationsOverlap p.core core = true := by
            intro p hp
            rcases hf.2 p hp with h1 | h1
            · rcases hb.2 p h1 with h2 | ⟨h2, ho⟩
              · cases h2
              · exact ⟨List.mem_of_mem_drop (List.mem_reverse.1 h2), ho⟩
            · exact h1
          have helem : ∀ e, e ∈ fwd.1 → (∃ x, x ∈ cc ∧ twoParts x.2 = true ∧ e ∈ x.1.members) ∨
              (e ∈ un ∧ locationsOverlap e.core core = true) := by
            intro e he
            rcases hf.1 e he with h1 | h1
            · rcases hb.1 e h1 with h2 | ⟨h2, ho⟩
              · exact Or.inl (hcg0_from e h2)
              · exact Or.inr ⟨List.mem_of_mem_drop (List.mem_reverse.1 h2), ho⟩
            · exact Or.inr h1
          split at h
          · injection h with h; injection h with h1 h2; subst h1; subst h2
            exact fun g hg => Or.inl hg
          · rename_i hfne
            split at h
            · injection h with h; injection h with h1 h2; subst h1; subst h2
              exact fun g hg => Or.inl hg
            · split at h
              · injection h with h; injection h with h1 h2; subst h1; subst h2
                intro g hg
                rcases List.mem_append.1 hg with h1 | h1
                · exact Or.inl h1
                · right
                  have : g = fwd.1 := by simpa using h1
                  subst this
                  have hne : fwd.2 ≠ [] := by simpa using hfne
                  obtain ⟨u0, hu0⟩ := List.exists_mem_of_ne_nil _ hne
                  exact ⟨core, u0, hcore, (hfound_desc u0 hu0).1, (hfound_desc u0 hu0).2, hfound_in u0 hu0, helem⟩
              · injection h with h; injection h with h1 h2; subst h1; subst h2
                exact fun g hg => Or.inl hg

/-- `_find_interleaved`, relative to the candidates' combined cores `cc`:
    completeness on every record (the sorted scan with its early `break` and the all-candidates
    scan find every overlapping pair of units); every merged set is the union of two overlapping
    units or the group of the origin-crossing step (`CrossGroup`) -/
theorem findInterleaved_groups {clusters : List Proto} {cands : List Cand} {wrap : Option Int} {cc : List CandC}
    {ig : List (List Proto)} {un : List Proto} (h : findInterleaved clusters cands wrap = .ok (ig, un))
    (hcc : withCores wrap cands = .ok cc) (hn : clusters.Nodup) (hne : ∀ p, p ∈ clusters → p.core.PartsNonEmpty) :
    ∃ G, ig = mergeSets G ∧
      (∀ g', g' ∈ overlapGroups (interleaveUnits clusters cc) → ∃ g, g ∈ G ∧ ∀ x, x ∈ g' → x ∈ g) ∧
      (∀ g, g ∈ G → (∃ g', g' ∈ overlapGroups (interleaveUnits clusters cc) ∧ ∀ x, x ∈ g → x ∈ g') ∨
        CrossGroup cc clusters wrap g) := by
  unfold findInterleaved at h
  dsimp only at h
  have withCores_length : ∀ (cands : List Cand) (cc : List CandC), withCores wrap cands = .ok cc → cc.length = cands.length := by
    intro cands
    induction cands with
    | nil => intro cc hcc; simp only [withCores] at hcc; injection hcc with hcc; subst hcc; rfl
    | cons c cs ih =>
      intro cc hcc
      simp only [withCores] at hcc
      split at hcc
      · cases hcc
      · split at hcc
        · cases hcc
        · rename_i r hr
          injection hcc with hcc; subst hcc
          simp [ih r hr]
  -- the one case where the cores are not evaluated and exist: a lone candidate and no protoclusters
  by_cases hsp : clusters = [] ∧ cands.length = 1
  · obtain ⟨hcl, hca⟩ := hsp
    subst hcl
    have hcc1 : cc.length = 1 := by rw [withCores_length cands cc hcc]; exact hca
    have hneed : ¬ (decide (cands.length > 1) || (!([] : List Proto).isEmpty && !cands.isEmpty)) = true := by
      simp [hca]
    rw [if_neg hneed] at h
    dsimp only at h
    have hx : findCrossOriginInterleaved [] (sortBy coreStartLt [])
        (findInterleavedCandidates [] ++ interleavedPairs (sortBy coreStartLt []) ++
          List.flatMap (fun cluster => List.map (fun c : CandC => dedup (c.1.members ++ [cluster]))
            (List.filter (fun c => locationsOverlap c.2 cluster.core) [])) (sortBy coreStartLt [])) wrap =
        .ok ([], findInterleavedCandidates [] ++ interleavedPairs (sortBy coreStartLt []) ++
          List.flatMap (fun cluster => List.map (fun c : CandC => dedup (c.1.members ++ [cluster]))
            (List.filter (fun c => locationsOverlap c.2 cluster.core) [])) (sortBy coreStartLt [])) := by
      unfold findCrossOriginInterleaved
      rfl
    rw [hx] at h
    dsimp only at h
    injection h with h; injection h with h1 h2; subst h1; subst h2
    refine ⟨_, rfl, ?_, ?_⟩
    · intro g' hg'
      exfalso
      obtain ⟨u, v, hbf, _, _⟩ := mem_overlapGroups.1 hg'
      simp only [interleaveUnits, protoUnits, List.map_nil, List.append_nil] at hbf
      obtain ⟨a, b, hab, _, _⟩ := before_of_map _ hbf
      cases cc with
      | nil => exact hab
      | cons x rest =>
        cases rest with
        | nil =>
          rcases hab with ⟨_, hb⟩ | hab
          · cases hb
          · exact hab
        | cons y r => simp at hcc1
    · intro g hg
      exfalso
      have : (findInterleavedCandidates [] ++ interleavedPairs (sortBy coreStartLt []) ++
          List.flatMap (fun cluster => List.map (fun c : CandC => dedup (c.1.members ++ [cluster]))
            (List.filter (fun c => locationsOverlap c.2 cluster.core) [])) (sortBy coreStartLt [])) = [] := by rfl
      rw [this] at hg
      cases hg
  · -- otherwise the candidates with cores used are exactly `cc`
    have hcc' : (if (decide (cands.length > 1) || (!clusters.isEmpty && !cands.isEmpty)) = true then withCores wrap cands
        else Except.ok []) = Except.ok cc := by
      by_cases hneed : (decide (cands.length > 1) || (!clusters.isEmpty && !cands.isEmpty)) = true
      · rw [if_pos hneed]; exact hcc
      · rw [if_neg hneed]
        have hneed' : (decide (cands.length > 1) || (!clusters.isEmpty && !cands.isEmpty)) = false := by simpa using hneed
        simp only [Bool.or_eq_false_iff, decide_eq_false_iff_not, Bool.and_eq_false_iff, Bool.not_eq_false',
          List.isEmpty_iff] at hneed'
        obtain ⟨hlen, hemp⟩ := hneed'
        have hca : cands = [] := by
          rcases hemp with hcl | hca
          · have : cands.length ≠ 1 := fun e => hsp ⟨hcl, e⟩
            apply List.eq_nil_of_length_eq_zero; omega
          · exact hca
        subst hca
        simp only [withCores] at hcc
        rw [hcc]
    rw [hcc'] at h
    dsimp only at h
    split at h
    · cases h
    · rename_i found1 groups hx
      obtain ⟨hgsub, _⟩ := findCross_spec hx
      have hxw := findCross_wf hx
      injection h with h; injection h with h1 h2; subst h1; subst h2
      have hbm : ∀ p, p ∈ sortBy coreStartLt clusters ↔ p ∈ clusters := fun p => mem_sortBy _ _ _
      have hsorted : SortedBy (fun p : Proto => p.core.start) (sortBy coreStartLt clusters) :=
        sortBy_sorted (fun p : Proto => p.core.start) clusters
      refine ⟨groups, rfl, ?_, ?_⟩
      · intro g' hg'
        obtain ⟨u, v, hbf, ho, e⟩ := mem_overlapGroups.1 hg'
        subst e
        rcases before_append.1 hbf with h | ⟨hu, hv⟩ | h
        · obtain ⟨a, b, hab, ea, eb⟩ := before_of_map _ h
          subst ea; subst eb
          refine ⟨dedup (a.1.members ++ b.1.members), hgsub _ ?_, fun x hx => mem_dedup.2 hx⟩
          apply List.mem_append.2; left
          apply List.mem_append.2; left
          simp only [findInterleavedCandidates]
          apply List.mem_append.2; left
          exact (mem_pairsWhere _ _ _ _).2 ⟨a, b, hab, ho, rfl⟩
        · obtain ⟨c, hc, ec⟩ := List.mem_map.1 hu
          obtain ⟨s, hs, es⟩ := List.mem_map.1 hv
          subst ec; subst es
          refine ⟨dedup (c.1.members ++ [s]), hgsub _ ?_, fun x hx => mem_dedup.2 hx⟩
          apply List.mem_append.2; right
          apply List.mem_flatMap.2
          exact ⟨s, (hbm s).2 hs, List.mem_map.2 ⟨c, List.mem_filter.2 ⟨hc, ho⟩, rfl⟩⟩
        · obtain ⟨a, b, hab, ea, eb⟩ := before_of_map _ h
          subst ea; subst eb
          have habne := before_ne hn hab
          have hm := before_mem hab
          have ho' : locationsOverlap a.core b.core = true := ho
          have hne' : ∀ p, p ∈ sortBy coreStartLt clusters → p.core.PartsNonEmpty := fun p hp => hne p ((hbm p).1 hp)
          rcases before_total ((hbm a).2 hm.1) ((hbm b).2 hm.2) habne with h1 | h1
          · refine ⟨[a, b], hgsub _ ?_, fun x hx => by simpa using hx⟩
            apply List.mem_append.2; left
            apply List.mem_append.2; right
            exact interleavedPairs_complete hne' hsorted h1 ho'
          · refine ⟨[b, a], hgsub _ ?_, fun x hx => pair_sub_swap (by simpa using hx)⟩
            apply List.mem_append.2; left
            apply List.mem_append.2; right
            exact interleavedPairs_complete hne' hsorted h1 (by rw [locationsOverlap_comm]; exact ho')
      · intro g hg0
        refine (findCross_desc hx g hg0).elim (fun hg => Or.inl ?_) (fun hdesc => Or.inr ?_)
        rotate_left
        · obtain ⟨core, u0, h1, h2, h3, h4, h5⟩ := hdesc
          refine ⟨core, u0, h1, (hbm u0).1 h2, h3, h4, ?_⟩
          intro e he
          rcases h5 e he with h6 | ⟨h6, h7⟩
          · exact Or.inl h6
          · exact Or.inr ⟨(hbm e).1 h6, h7⟩
        rcases List.mem_append.1 hg with h12 | h3
        · rcases List.mem_append.1 h12 with h1 | h2
          · simp only [findInterleavedCandidates, List.mem_append] at h1
            have key : ∀ a b : CandC, Before a b cc → locationsOverlap a.2 b.2 = true → g = dedup (a.1.members ++ b.1.members) →
                ∃ g', g' ∈ overlapGroups (interleaveUnits clusters cc) ∧ ∀ x, x ∈ g → x ∈ g' := by
              intro a b hab ho e
              subst e
              refine ⟨a.1.members ++ b.1.members, mem_overlapGroups.2 ⟨⟨a.1.members, a.2⟩, ⟨b.1.members, b.2⟩, ?_, ho, rfl⟩,
                fun x hx => mem_dedup.1 hx⟩
              exact before_append.2 (Or.inl (before_map (fun x : CandC => (⟨x.1.members, x.2⟩ : U)) hab))
            rcases h1 with h1 | h1
            · obtain ⟨a, b, hbf, ho, e⟩ := (mem_pairsWhere _ _ _ _).1 h1
              exact key a b hbf ho e
            · split at h1
              · rename_i hlen
                split at h1
                · rename_i a b ha hb
                  split at h1
                  · rename_i ho
                    exact key a b (before_head_last hlen ha hb) ho (by simpa using h1)
                  · cases h1
                · cases h1
              · cases h1
          · obtain ⟨a, b, hbf, ho, e⟩ := mem_interleavedPairs' h2
            subst e
            have hm := before_mem hbf
            have hab : a ≠ b := before_ne (nodup_sortBy _ hn) hbf
            rcases before_total ((hbm a).1 hm.1) ((hbm b).1 hm.2) hab with h1 | h1
            · refine ⟨[a] ++ [b], mem_overlapGroups.2 ⟨⟨[a], a.core⟩, ⟨[b], b.core⟩, ?_, ho, rfl⟩, fun x hx => by simpa using hx⟩
              exact before_append.2 (Or.inr (Or.inr (before_map (fun p : Proto => (⟨[p], p.core⟩ : U)) h1)))
            · refine ⟨[b] ++ [a], mem_overlapGroups.2 ⟨⟨[b], b.core⟩, ⟨[a], a.core⟩, ?_, ?_, rfl⟩,
                fun x hx => pair_sub_swap (by simpa using hx)⟩
              · exact before_append.2 (Or.inr (Or.inr (before_map (fun p : Proto => (⟨[p], p.core⟩ : U)) h1)))
              · show locationsOverlap b.core a.core = true
                rw [locationsOverlap_comm]; exact ho
        · obtain ⟨cl, hcl, hg3⟩ := List.mem_flatMap.1 h3
          obtain ⟨c, hcf, e⟩ := List.mem_map.1 hg3
          subst e
          obtain ⟨hcin, ho⟩ := List.mem_filter.1 hcf
          refine ⟨c.1.members ++ [cl], mem_overlapGroups.2 ⟨⟨c.1.members, c.2⟩, ⟨[cl], cl.core⟩, ?_, ho, rfl⟩,
            fun x hx => mem_dedup.1 hx⟩
          exact before_append.2 (Or.inr (Or.inl ⟨List.mem_map.2 ⟨c, hcin, rfl⟩, List.mem_map.2 ⟨cl, (hbm cl).1 hcl, rfl⟩⟩))


theorem mergeSets_linked (G : List (List Proto)) (a b : Proto) :
    (∃ r, r ∈ mergeSets G ∧ a ∈ r ∧ b ∈ r) ↔ Linked G a b := by
  rw [← (mergeSetsCore_spec groupKey G).2.2 a b]
  constructor
  · rintro ⟨r, hr, ha, hb⟩
    obtain ⟨r0, h0, e⟩ := mem_mergeSets.1 hr
    subst e
    exact ⟨r0, h0, mem_sortProtos.1 ha, mem_sortProtos.1 hb⟩
  · rintro ⟨r0, h0, ha, hb⟩
    exact ⟨sortProtos r0, mem_mergeSets.2 ⟨r0, h0, rfl⟩, mem_sortProtos.2 ha, mem_sortProtos.2 hb⟩

end ASV.CC
