/-
  C08 helper lemmas, part 8: which histories of adding calls succeed.  Such a history runs without an
  exception exactly when its calls are pairwise compatible (distinct gene locations and names, non-overlapping
  regions) and every area lies inside the record — a condition that does not depend on the order of the calls.
-/
import ASV.Proofs.LookupOk
namespace ASV.Lookup
open ASV

/-- two calls that do not exclude each other -/
def Compatible : Op → Op → Prop
  | .cds g, .cds h => g.loc ≠ h.loc ∧ g.id ≠ h.id
  | .area a, .area b => a.kind = .region → b.kind = .region → overlapsWith a.loc b.loc = false
  | _, _ => True

theorem Compatible.symm {x y : Op} (h : Compatible x y) : Compatible y x := by
  cases x <;> cases y <;> simp only [Compatible] at * <;> try trivial
  · exact ⟨fun e => h.1 e.symm, fun e => h.2 e.symm⟩
  · intro hb ha
    have := h ha hb
    simp only [overlapsWith] at *
    rw [locationsOverlap_comm]; exact this

/-- the bounds assertions of the `add_<area>` methods -/
def InBounds (len : Int) : Op → Prop
  | .area a => 0 ≤ a.loc.start ∧ a.loc.end ≤ len
  | _ => True

theorem addCds_eq {r : Rec} {g : Gene} (hk : keyExists g.loc = true)
    (h1 : r.byLoc.contains g.loc = false) (h2 : (r.byName.any fun x => x.1 == g.id) = false) :
    ∃ r', addCds r g = .ok r' := by
  simp only [Lookup.addCds, hk, h1, h2, Bool.not_true, Bool.false_eq_true, if_false, pure, Except.pure]
  exact ⟨_, rfl⟩

theorem addArea_eq {r : Rec} {a : AreaT} (h1 : 0 ≤ a.loc.start) (h2 : a.loc.end ≤ r.len)
    (h3 : a.kind = .region → ∀ x ∈ r.regions, overlapsWith a.loc x.loc = false) :
    addArea r a = addFound (reg r a) a := by
  have e1 : ¬ a.loc.start < 0 := by omega
  have e2 : ¬ a.loc.end > r.len := by omega
  unfold addArea reg
  simp only [e1, e2, if_false]
  cases hk : a.kind with
  | proto => rfl
  | sideProto => rfl
  | cand => rfl
  | sub => rfl
  | region =>
    have : (r.regions.any fun x => overlapsWith a.loc x.loc) = false := by
      rw [List.any_eq_false]; intro x hx; simp [h3 hk x hx]
    simp only [this, Bool.false_eq_true, if_false]

theorem addArea_bounds {r r' : Rec} {a : AreaT} (h : addArea r a = .ok r') : 0 ≤ a.loc.start ∧ a.loc.end ≤ r.len := by
  unfold addArea at h
  by_cases h1 : a.loc.start < 0
  · simp [h1, throw, throwThe, MonadExceptOf.throw] at h
  · by_cases h2 : a.loc.end > r.len
    · simp [h1, h2, throw, throwThe, MonadExceptOf.throw] at h
    · omega

/-- under the invariant, adding an area that passes the guards cannot raise, and nothing changes the length -/
theorem addFound_ok {S : Prop} {L : Live} {ever : List AreaT} {r : Rec} (inv : InvCore S L ever r) (a : AreaT) (ha : QueryOK a.loc) :
    ∃ r', addFound (reg r a) a = .ok r' ∧ r'.len = r.len := by
  have f := reg_frame r a
  have hL : ∀ g ∈ within r.genes a.loc false, containedBy g.loc a.loc = true := by
    intro g hg
    obtain ⟨hg', hk⟩ := (mem_within inv.sorted inv.ok a.loc false ha g).1 hg
    rw [containedBy_eq_spec (gene_le (inv.ok g hg'))]; simpa [specKeeps] using hk
  obtain ⟨r', hrun, eff⟩ := addAll_eff a (within r.genes a.loc false) (reg r a) hL
  exact ⟨r', by unfold addFound; rw [f.genes]; exact hrun, by rw [eff.len, f.len]⟩

theorem step_len {S : Prop} {L : Live} {ever : List AreaT} {r r' : Rec} (inv : InvCore S L ever r) {op : Op} (hadd : op.isAdd = true)
    (hop : OpOK op) (h : step r op = .ok r') : r'.len = r.len := by
  cases op with
  | cds g =>
    obtain ⟨_, _, e⟩ := addCds_ok h
    rw [e]; exact (linkCdsToParent_eff _ g).len
  | area a =>
    obtain ⟨_, hf⟩ := addArea_ok h
    obtain ⟨r'', h1, h2⟩ := addFound_ok inv a hop.1
    rw [h1] at hf; injection hf with hf; rw [← hf]; exact h2
  | _ => simp [Op.isAdd] at hadd

/-- a call succeeds exactly when it is compatible with every earlier call and inside the record -/
theorem step_ok_iff {seen : List Op} {r : Rec} (hseen : AddsOnly seen)
    (inv : InvCore S (liveAfter seen) (opsAreas seen) r) (op : Op) (hadd : op.isAdd = true) (hop : OpOK op) :
    (∃ r', step r op = .ok r') ↔ (∀ o ∈ seen, Compatible o op) ∧ InBounds r.len op := by
  obtain ⟨l1, l2, _⟩ := live_adds seen {} hseen
  have hgenes : ∀ g, g ∈ r.genes ↔ Op.cds g ∈ seen := fun g => by
    rw [inv.genesLive]; simpa [liveAfter] using l1 g
  have hregions : ∀ a, a ∈ r.regions ↔ (Op.area a ∈ seen ∧ a.kind = .region) := fun a => by
    rw [inv.regionsEq]; simpa [liveAfter] using l2 a
  cases op with
  | cds g =>
    simp only [step, InBounds, and_true]
    constructor
    · rintro ⟨r', h⟩
      obtain ⟨h1, h2, _⟩ := addCds_ok h
      intro o ho
      cases o with
      | cds g' =>
        have hg' := (hgenes g').2 ho
        constructor
        · intro e
          have : r.byLoc.contains g.loc = true := by
            simp only [List.contains_iff_mem]; exact (inv.byLoc _).2 ⟨g', hg', e⟩
          rw [h1] at this; cases this
        · intro e
          have : (r.byName.any fun x => x.1 == g.id) = true := by
            rw [List.any_eq_true]; exact ⟨(g'.id, g'), (inv.byName _).2 ⟨g', hg', rfl⟩, by simp [e]⟩
          rw [h2] at this; cases this
      | _ => trivial
    · intro h
      have hk : keyExists g.loc = true := by
        obtain ⟨k, hk⟩ := hop.2.2
        simp [keyExists, hk]
      apply addCds_eq hk
      · cases hc : r.byLoc.contains g.loc
        · rfl
        · exfalso
          have hm : g.loc ∈ r.byLoc := by simpa using hc
          obtain ⟨f, hf, e⟩ := (inv.byLoc _).1 hm
          exact (h _ ((hgenes f).1 hf)).1 e
      · rw [List.any_eq_false]
        intro x hx
        obtain ⟨f, hf, rfl⟩ := (inv.byName _).1 hx
        simpa using (h _ ((hgenes f).1 hf)).2
  | area a =>
    simp only [step, InBounds]
    constructor
    · rintro ⟨r', h⟩
      refine ⟨?_, addArea_bounds h⟩
      obtain ⟨hd, _⟩ := addArea_ok h
      intro o ho
      cases o with
      | area b =>
        intro hb hka
        have := hd hka b ((hregions b).2 ⟨ho, hb⟩)
        simp only [overlapsWith] at *
        rw [locationsOverlap_comm]; exact this
      | _ => trivial
    · rintro ⟨hc, h1, h2⟩
      have h3 : a.kind = .region → ∀ x ∈ r.regions, overlapsWith a.loc x.loc = false := by
        intro hk x hx
        obtain ⟨hs, hkx⟩ := (hregions x).1 hx
        have := hc _ hs hkx hk
        simp only [overlapsWith] at *
        rw [locationsOverlap_comm]; exact this
      obtain ⟨r', hr', _⟩ := addFound_ok inv a hop.1
      exact ⟨r', by rw [addArea_eq h1 h2 h3]; exact hr'⟩
  | _ => simp [Op.isAdd] at hadd

/-- the calls of a history that runs through, and those of any history that would -/
def Valid (len : Int) (ops : List Op) : Prop := ops.Pairwise Compatible ∧ ∀ op ∈ ops, InBounds len op

theorem AddsOnly.snoc {seen : List Op} {op : Op} (h : AddsOnly seen) (ho : op.isAdd = true) : AddsOnly (seen ++ [op]) := by
  intro o hm
  rcases List.mem_append.1 hm with hm | hm
  · exact h o hm
  · simp only [List.mem_singleton] at hm; subst hm; exact ho

theorem foldlM_ok_iff (len : Int) : ∀ (ops seen : List Op) (r0 : Rec), AddsOnly seen → AddsOnly ops →
    Inv S (liveAfter seen) (opsAreas seen) r0 → r0.len = len → (∀ op ∈ ops, OpOK op) →
    ((∃ r, ops.foldlM step r0 = .ok r) ↔
      (∀ o ∈ seen, ∀ p ∈ ops, Compatible o p) ∧ ops.Pairwise Compatible ∧ ∀ op ∈ ops, InBounds len op)
  | [], seen, r0, _, _, _, _, _ => by simp [pure, Except.pure]
  | op :: ops, seen, r0, hseen, hadd, inv, hlen, hok => by
    have hop := hok op (by simp)
    have hopadd := hadd op (by simp)
    have hstep := step_ok_iff hseen inv.core op hopadd hop
    rw [hlen] at hstep
    simp only [List.foldlM_cons, bind, Except.bind]
    have next : ∀ r1, step r0 op = .ok r1 →
        Inv S (liveAfter (seen ++ [op])) (opsAreas (seen ++ [op])) r1 ∧ r1.len = len := by
      intro r1 hs
      have h1 := inv.step op hop hs
      rw [← liveAfter_append, ← opsAreas_append] at h1
      exact ⟨h1, by rw [step_len inv.core hopadd hop hs, hlen]⟩
    constructor
    · rintro ⟨r, hr⟩
      cases hs : step r0 op with
      | error e => rw [hs] at hr; cases hr
      | ok r1 =>
        rw [hs] at hr
        obtain ⟨hc, hb⟩ := hstep.1 ⟨r1, hs⟩
        obtain ⟨inv1, hl1⟩ := next r1 hs
        obtain ⟨h1, h2, h3⟩ := (foldlM_ok_iff len ops (seen ++ [op]) r1 (hseen.snoc hopadd)
          (fun o ho => hadd o (by simp [ho])) inv1 hl1 (fun o ho => hok o (by simp [ho]))).1 ⟨r, hr⟩
        refine ⟨?_, ?_, ?_⟩
        · intro o ho p hp
          rcases List.mem_cons.1 hp with rfl | hp'
          · exact hc o ho
          · exact h1 o (by simp [ho]) p hp'
        · rw [List.pairwise_cons]
          exact ⟨fun p hp => h1 op (by simp) p hp, h2⟩
        · intro p hp
          rcases List.mem_cons.1 hp with rfl | hp'
          · exact hb
          · exact h3 p hp'
    · rintro ⟨h1, h2, h3⟩
      obtain ⟨h2a, h2b⟩ := List.pairwise_cons.1 h2
      obtain ⟨r1, hs⟩ := hstep.2 ⟨fun o ho => h1 o ho op (by simp), h3 op (by simp)⟩
      obtain ⟨inv1, hl1⟩ := next r1 hs
      obtain ⟨r, hr⟩ := (foldlM_ok_iff len ops (seen ++ [op]) r1 (hseen.snoc hopadd)
        (fun o ho => hadd o (by simp [ho])) inv1 hl1 (fun o ho => hok o (by simp [ho]))).2
        ⟨by
          intro o ho p hp
          rcases List.mem_append.1 ho with ho' | ho'
          · exact h1 o ho' p (by simp [hp])
          · simp only [List.mem_singleton] at ho'; subst ho'; exact h2a p hp,
         h2b, fun p hp => h3 p (by simp [hp])⟩
      exact ⟨r, by rw [hs]; exact hr⟩

/-- a history of well-formed adding calls runs through iff it is valid -/
theorem run_ok_iff {len : Int} {ops : List Op} (hadd : AddsOnly ops) (hok : ∀ op ∈ ops, OpOK op) :
    (∃ r, run len ops = .ok r) ↔ Valid len ops := by
  have := foldlM_ok_iff len ops [] { len := len } (by intro o ho; simp at ho) hadd
    (by simpa [liveAfter, opsAreas] using Inv.init True len) rfl hok
  simpa [run, Valid] using this

theorem Valid.perm {len : Int} {ops₁ ops₂ : List Op} (hp : ops₁.Perm ops₂) (h : Valid len ops₁) : Valid len ops₂ :=
  ⟨(hp.pairwise_iff (fun h => Compatible.symm h)).1 h.1, fun op hop => h.2 op (hp.mem_iff.2 hop)⟩

end ASV.Lookup
