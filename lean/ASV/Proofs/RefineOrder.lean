/-
  Helper lemmas for C13: the total sort key, enumeration independence, position order.
-/
import ASV.Proofs.Sort
import ASV.Spec.Refine
namespace ASV.Refine

/-! ### the total key -/

theorem Hit.le_total (a b : Hit) : a.le b = true ∨ b.le a = true := by
  simp only [Hit.le, decide_eq_true_eq]; omega

theorem Hit.le_trans (a b c : Hit) : a.le b = true → b.le c = true → a.le c = true := by
  simp only [Hit.le, decide_eq_true_eq]; omega

theorem Hit.le_antisymm (a b : Hit) (h1 : a.le b = true) (h2 : b.le a = true) : a = b := by
  simp only [Hit.le, decide_eq_true_eq] at h1 h2
  have h : a.qs = b.qs ∧ a.qe = b.qe ∧ a.prof = b.prof ∧ a.ev = b.ev ∧ a.sc = b.sc := by omega
  cases a; cases b; simp_all

theorem Hit.le_start {a b : Hit} (h : a.le b = true) : a.qs ≤ b.qs := by
  simp only [Hit.le, decide_eq_true_eq] at h; omega

theorem Hit.leStart_total (a b : Hit) : a.leStart b = true ∨ b.leStart a = true := by
  simp only [Hit.leStart, decide_eq_true_eq]; omega

theorem Hit.leStart_trans (a b c : Hit) : a.leStart b = true → b.leStart c = true → a.leStart c = true := by
  simp only [Hit.leStart, decide_eq_true_eq]; omega

/-! ### `pairwiseB` is `List.Pairwise` -/

theorem pairwiseB_iff {α} (r : α → α → Bool) : ∀ l : List α, pairwiseB r l = true ↔ l.Pairwise (fun a b => r a b = true)
  | [] => by simp [pairwiseB]
  | a :: l => by simp [pairwiseB, pairwiseB_iff r l, List.pairwise_cons]

/-- position order as a `Prop` -/
def Sorted (l : List Hit) : Prop := l.Pairwise (fun a b => a.qs ≤ b.qs)

theorem sortedByStart_iff (l : List Hit) : sortedByStart l = true ↔ Sorted l := by
  simp [sortedByStart, pairwiseB_iff, Sorted]

theorem Sorted.sublist {l m : List Hit} (h : Sorted m) (s : l.Sublist m) : Sorted l :=
  List.Pairwise.sublist s h

/-! ### the sorted, duplicate-free enumeration -/

theorem sortBy_le_pairwise (l : List Hit) : (sortBy Hit.le l).Pairwise (fun a b => a.le b = true) :=
  sortBy_pairwise Hit.le_total Hit.le_trans l

theorem dedupAdj_strict : ∀ {l : List Hit}, l.Pairwise (fun a b => a.le b = true) →
    (dedupAdj l).Pairwise (fun a b => a.le b = true ∧ a ≠ b)
  | [], _ => by simp [dedupAdj]
  | [a], _ => by simp [dedupAdj]
  | a :: b :: l, h => by
    simp only [dedupAdj]
    have hp := List.pairwise_cons.mp h
    split
    · exact dedupAdj_strict hp.2
    · rename_i hab
      refine List.Pairwise.cons ?_ (dedupAdj_strict hp.2)
      intro x hx
      have hx' : x ∈ b :: l := mem_dedupAdj.mp hx
      refine ⟨hp.1 x hx', ?_⟩
      intro hax
      subst hax
      have hba : b.le a = true := by
        rcases List.mem_cons.mp hx' with h1 | h1
        · exact absurd h1 hab
        · exact (List.pairwise_cons.mp hp.2).1 a h1
      exact hab (Hit.le_antisymm a b (hp.1 b (by simp)) hba)

theorem sortHits_strict (l : List Hit) : (sortHits l).Pairwise (fun a b => a.le b = true ∧ a ≠ b) :=
  dedupAdj_strict (sortBy_le_pairwise l)

theorem mem_sortHits {l : List Hit} {x : Hit} : x ∈ sortHits l ↔ x ∈ l := by
  unfold sortHits; rw [mem_dedupAdj, mem_sortBy]

theorem sortHits_nodup (l : List Hit) : (sortHits l).Nodup :=
  (sortHits_strict l).imp fun h => h.2

theorem sortHits_sorted (l : List Hit) : Sorted (sortHits l) :=
  (sortHits_strict l).imp fun h => Hit.le_start h.1

/-- the enumeration of the hit set does not matter: equal sets give the same sorted list -/
theorem sortHits_eq_of_same_set {l₁ l₂ : List Hit} (h : ∀ x, x ∈ l₁ ↔ x ∈ l₂) : sortHits l₁ = sortHits l₂ := by
  apply List.Perm.eq_of_pairwise (le := fun x y => x.le y = true)
  · intro a b _ _ hab hba; exact Hit.le_antisymm a b hab hba
  · exact (sortHits_strict l₁).imp fun h => h.1
  · exact (sortHits_strict l₂).imp fun h => h.1
  · rw [List.perm_ext_iff_of_nodup (sortHits_nodup l₁) (sortHits_nodup l₂)]
    intro a; rw [mem_sortHits, mem_sortHits]; exact h a

theorem sortHits_ne_nil {l : List Hit} (h : l ≠ []) : sortHits l ≠ [] :=
  dedupAdj_ne_nil (sortBy_ne_nil Hit.le h)

/-! ### every stage keeps the position order -/

/-! ### `_remove_overlapping`: indices, ranking, the kept set -/

/-- the kept `(index, result)` pairs in index order -/
def keptIdx (env : Env) (l : List Hit) : List (Nat × Hit) :=
  sortBy leIdx (keepBest env [] (sortBy rankBefore (enumFrom 0 l)))

theorem removeOverlapping_eq (env : Env) (l : List Hit) : removeOverlapping env l = (keptIdx env l).map (·.2) := rfl

theorem enumFrom_map_snd : ∀ (n : Nat) (l : List Hit), (enumFrom n l).map (·.2) = l
  | _, [] => rfl
  | n, h :: t => by simp [enumFrom, enumFrom_map_snd (n + 1) t]

theorem mem_enumFrom_iff : ∀ {n : Nat} {l : List Hit} {x : Nat × Hit},
    x ∈ enumFrom n l ↔ n ≤ x.1 ∧ l[x.1 - n]? = some x.2
  | n, [], x => by simp [enumFrom]
  | n, h :: t, x => by
    simp only [enumFrom, List.mem_cons, mem_enumFrom_iff (n := n + 1) (l := t)]
    constructor
    · rintro (rfl | ⟨h1, h2⟩)
      · simp
      · refine ⟨by omega, ?_⟩
        have : x.1 - n = (x.1 - (n + 1)) + 1 := by omega
        rw [this, List.getElem?_cons_succ]; exact h2
    · rintro ⟨h1, h2⟩
      by_cases e : x.1 = n
      · left
        rw [e, Nat.sub_self, List.getElem?_cons_zero] at h2
        simp only [Option.some.injEq] at h2
        exact Prod.ext e h2.symm
      · right
        refine ⟨by omega, ?_⟩
        have : x.1 - n = (x.1 - (n + 1)) + 1 := by omega
        rw [this, List.getElem?_cons_succ] at h2; exact h2

theorem enumFrom_idx_lt : ∀ (n : Nat) (l : List Hit), (enumFrom n l).Pairwise (fun a b => a.1 < b.1)
  | _, [] => by simp [enumFrom]
  | n, h :: t => by
    simp only [enumFrom]
    refine List.Pairwise.cons ?_ (enumFrom_idx_lt (n + 1) t)
    intro x hx
    have := (mem_enumFrom_iff.mp hx).1
    simp only; omega

theorem enumFrom_idx_nodup (n : Nat) (l : List Hit) : ((enumFrom n l).map (·.1)).Nodup := by
  rw [List.Nodup, List.pairwise_map]
  exact (enumFrom_idx_lt n l).imp (fun h => by omega)

/-- a list of members of `enumFrom n l` with increasing indices is a sub-list of it -/
theorem sublist_enumFrom_of_sorted : ∀ (l : List Hit) (n : Nat) (k : List (Nat × Hit)),
    (∀ x ∈ k, x ∈ enumFrom n l) → k.Pairwise (fun a b => a.1 < b.1) → k.Sublist (enumFrom n l)
  | [], _, k, hk, _ => by
    cases k with
    | nil => exact List.Sublist.refl _
    | cons x _ => have := hk x (by simp); simp [enumFrom] at this
  | h :: t, n, k, hk, hs => by
    cases k with
    | nil => exact List.nil_sublist _
    | cons x k' =>
      have hsp := List.pairwise_cons.mp hs
      have hx := hk x (by simp)
      simp only [enumFrom, List.mem_cons] at hx
      have tail_mem : ∀ y ∈ k', y ∈ enumFrom (n + 1) t := by
        intro y hy
        have h1 := hk y (List.mem_cons_of_mem _ hy)
        simp only [enumFrom, List.mem_cons] at h1
        rcases h1 with rfl | h1
        · -- index n cannot come after x
          have hlt := hsp.1 _ hy
          rcases hx with rfl | hx
          · simp at hlt
          · have := (mem_enumFrom_iff.mp hx).1; simp only at hlt; omega
        · exact h1
      simp only [enumFrom]
      rcases hx with rfl | hx
      · exact (sublist_enumFrom_of_sorted t (n + 1) k' tail_mem hsp.2).cons_cons _
      · apply List.Sublist.cons
        apply sublist_enumFrom_of_sorted t (n + 1) (x :: k') _ hs
        intro y hy
        rcases List.mem_cons.mp hy with rfl | hy
        · exact hx
        · exact tail_mem y hy

theorem rankBefore_total (a b : Nat × Hit) : rankBefore a b = true ∨ rankBefore b a = true := by
  simp only [rankBefore, decide_eq_true_eq]; omega
theorem rankBefore_trans (a b c : Nat × Hit) : rankBefore a b = true → rankBefore b c = true → rankBefore a c = true := by
  simp only [rankBefore, decide_eq_true_eq]; omega
theorem leIdx_total (a b : Nat × Hit) : leIdx a b = true ∨ leIdx b a = true := by
  simp only [leIdx, decide_eq_true_eq]; omega
theorem leIdx_trans (a b c : Nat × Hit) : leIdx a b = true → leIdx b c = true → leIdx a c = true := by
  simp only [leIdx, decide_eq_true_eq]; omega

theorem keepBest_mono (env : Env) : ∀ (kept l : List (Nat × Hit)), ∀ x ∈ kept, x ∈ keepBest env kept l
  | kept, [], x, hx => by simpa [keepBest] using hx
  | kept, h :: rest, x, hx => by
    simp only [keepBest]
    split
    · exact keepBest_mono env kept rest x hx
    · exact keepBest_mono env (kept ++ [h]) rest x (List.mem_append_left _ hx)

theorem mem_keepBest (env : Env) : ∀ (kept l : List (Nat × Hit)), ∀ x ∈ keepBest env kept l, x ∈ kept ∨ x ∈ l
  | kept, [], x, hx => by left; simpa [keepBest] using hx
  | kept, h :: rest, x, hx => by
    simp only [keepBest] at hx
    split at hx
    · rcases mem_keepBest env kept rest x hx with h1 | h1
      · exact Or.inl h1
      · exact Or.inr (List.mem_cons_of_mem _ h1)
    · rcases mem_keepBest env (kept ++ [h]) rest x hx with h1 | h1
      · rcases List.mem_append.mp h1 with h2 | h2
        · exact Or.inl h2
        · simp at h2; subst h2; exact Or.inr (by simp)
      · exact Or.inr (List.mem_cons_of_mem _ h1)

theorem keepBest_idx_nodup (env : Env) : ∀ (kept l : List (Nat × Hit)),
    ((kept ++ l).map (·.1)).Nodup → ((keepBest env kept l).map (·.1)).Nodup
  | kept, [], h => by simpa [keepBest] using h
  | kept, x :: rest, h => by
    simp only [keepBest]
    split
    · apply keepBest_idx_nodup env kept rest
      refine h.sublist (List.Sublist.map _ ?_)
      exact List.Sublist.append_left (List.sublist_cons_self x rest) kept
    · apply keepBest_idx_nodup env (kept ++ [x]) rest
      simpa using h

theorem mem_keptIdx {env : Env} {l : List Hit} {x : Nat × Hit} (hx : x ∈ keptIdx env l) : x ∈ enumFrom 0 l := by
  simp only [keptIdx, mem_sortBy] at hx
  rcases mem_keepBest env [] _ x hx with h | h
  · simp at h
  · exact (mem_sortBy _).mp h

theorem keptIdx_idx_lt (env : Env) (l : List Hit) : (keptIdx env l).Pairwise (fun a b => a.1 < b.1) := by
  have h1 : (keptIdx env l).Pairwise (fun a b => a.1 ≤ b.1) :=
    (sortBy_pairwise leIdx_total leIdx_trans _).imp (fun h => by simpa [leIdx] using h)
  have h2 : ((keptIdx env l).map (·.1)).Nodup := by
    have : ((keepBest env [] (sortBy rankBefore (enumFrom 0 l))).map (·.1)).Nodup := by
      apply keepBest_idx_nodup
      simp only [List.nil_append]
      exact ((sortBy_perm rankBefore (enumFrom 0 l)).map _).nodup_iff.mpr (enumFrom_idx_nodup 0 l)
    exact ((sortBy_perm leIdx _).map _).nodup_iff.mpr this
  rw [List.Nodup, List.pairwise_map] at h2
  exact (h1.and h2).imp (fun h => by omega)

theorem keptIdx_sublist (env : Env) (l : List Hit) : (keptIdx env l).Sublist (enumFrom 0 l) :=
  sublist_enumFrom_of_sorted l 0 _ (fun _ hx => mem_keptIdx hx) (keptIdx_idx_lt env l)

theorem removeOverlapping_sublist (env : Env) (l : List Hit) : (removeOverlapping env l).Sublist l := by
  have := (keptIdx_sublist env l).map (·.2)
  rwa [enumFrom_map_snd] at this

theorem removeOverlapping_ne_nil (env : Env) {l : List Hit} (h : l ≠ []) : removeOverlapping env l ≠ [] := by
  cases l with
  | nil => exact absurd rfl h
  | cons a t =>
    have hne : sortBy rankBefore (enumFrom 0 (a :: t)) ≠ [] := sortBy_ne_nil _ (by simp [enumFrom])
    cases hs : sortBy rankBefore (enumFrom 0 (a :: t)) with
    | nil => exact absurd hs hne
    | cons x rest =>
      have hx : x ∈ keepBest env [] (x :: rest) := by
        simp only [keepBest, List.any_nil, Bool.false_eq_true, if_false, List.nil_append]
        exact keepBest_mono env [x] rest x (by simp)
      intro he
      have : x.2 ∈ removeOverlapping env (a :: t) := by
        rw [removeOverlapping_eq, keptIdx, hs]
        exact List.mem_map.mpr ⟨x, (mem_sortBy _).mpr hx, rfl⟩
      rw [he] at this
      simp at this

theorem merge_qs_of_le {a b : Hit} (h : a.qs ≤ b.qs) : (a.merge b).qs = a.qs := by
  simp only [Hit.merge]; omega

theorem mergeImmFrom_sorted (env : Env) : ∀ (last : Hit) (rest : List Hit), Sorted (last :: rest) →
    Sorted (mergeImmFrom env last rest) ∧ ∀ x ∈ mergeImmFrom env last rest, last.qs ≤ x.qs
  | last, [], _ => by simp [mergeImmFrom, Sorted]
  | last, d :: rest, h => by
    have hp := List.pairwise_cons.mp h
    have hd : last.qs ≤ d.qs := hp.1 d (by simp)
    have keep : Sorted (last :: mergeImmFrom env d rest) ∧
        ∀ x ∈ last :: mergeImmFrom env d rest, last.qs ≤ x.qs := by
      have ih := mergeImmFrom_sorted env d rest hp.2
      have hall : ∀ x ∈ mergeImmFrom env d rest, last.qs ≤ x.qs := fun x hx => Int.le_trans hd (ih.2 x hx)
      refine ⟨List.Pairwise.cons hall ih.1, ?_⟩
      intro x hx
      rcases List.mem_cons.mp hx with rfl | hx
      · exact Int.le_refl _
      · exact hall x hx
    simp only [mergeImmFrom]
    split
    · exact keep
    · split
      · have hq : (last.merge d).qs = last.qs := merge_qs_of_le hd
        have hs : Sorted (last.merge d :: rest) := by
          refine List.Pairwise.cons ?_ (List.pairwise_cons.mp hp.2).2
          intro x hx
          rw [hq]
          exact hp.1 x (List.mem_cons_of_mem _ hx)
        have ih := mergeImmFrom_sorted env (last.merge d) rest hs
        refine ⟨ih.1, ?_⟩
        intro x hx
        have := ih.2 x hx
        rw [hq] at this
        exact this
      · exact keep

theorem mergeImmediate_sorted (env : Env) {l : List Hit} (h : Sorted l) : Sorted (mergeImmediate env l) := by
  cases l with
  | nil => simp [mergeImmediate, mergeImmediate?, Sorted]
  | cons a t => simpa [mergeImmediate, mergeImmediate?] using (mergeImmFrom_sorted env a t h).1

theorem mergeDomainList_sorted (env : Env) (l : List Hit) : Sorted (mergeDomainList env l) := by
  unfold mergeDomainList
  exact (sortBy_pairwise Hit.leStart_total Hit.leStart_trans _).imp
    (fun h => by simpa [Hit.leStart] using h)

theorem longestScan_mem (env : Env) : ∀ (best : Option Hit) (l : List Hit) (b : Hit),
    longestScan env best l = some b → best = some b ∨ b ∈ l
  | best, [], b, h => by simp [longestScan] at h; exact Or.inl h
  | best, x :: t, b, h => by
    simp only [longestScan] at h
    split at h
    · rcases longestScan_mem env (some x) t b h with h1 | h1
      · right; simp only [Option.some.injEq] at h1; simp [h1]
      · right; exact List.mem_cons_of_mem _ h1
    · rcases longestScan_mem env best t b h with h1 | h1
      · exact Or.inl h1
      · right; exact List.mem_cons_of_mem _ h1

theorem removeIncomplete_sublist (env : Env) (l : List Hit) : (removeIncomplete env l).Sublist l := by
  have reg : ∀ r : List Hit, (match l.find? (fun d => env.reg d.prof) with | some d => [d] | none => []) = r →
      r.Sublist l := by
    intro r hr
    split at hr
    · rename_i d hd
      subst hr
      exact List.singleton_sublist.mpr (List.mem_of_find?_eq_some hd)
    · subst hr; exact List.nil_sublist _
  simp only [removeIncomplete]
  split
  · exact List.filter_sublist
  · split
    · rename_i b hb
      split
      · have : b ∈ l := by
          rcases longestScan_mem env none l b hb with h1 | h1
          · simp at h1
          · exact h1
        exact List.singleton_sublist.mpr this
      · exact reg _ rfl
    · exact reg _ rfl

theorem refine_sorted' (env : Env) (nb : Bool) (l : List Hit) : Sorted (refine env nb l) := by
  simp only [refine, beforeIncomplete]
  apply Sorted.sublist _ (removeIncomplete_sublist env _)
  split
  · exact mergeImmediate_sorted env ((sortHits_sorted l).sublist (removeOverlapping_sublist env _))
  · exact (mergeDomainList_sorted env _).sublist (removeOverlapping_sublist env _)

end ASV.Refine
