/-
  C12: the canonical-list form of `coresAgree`.  The canonical form of a set of bases (`canon`: separated, non-empty
  intervals, shared `canon_spec`) is determined by the set, so two locations covering the same bases have the same
  canonical form, and the pointwise statement `CoresAgree` gives the executable `coresAgree`.
-/
import ASV.Proofs.CanonIvs
import ASV.Proofs.RegionExtractFinal
set_option linter.unusedSimpArgs false
namespace ASV.RegionExtract
open ASV

/-- separated non-empty intervals are determined by the bases they hold -/
theorem sep_unique : ∀ (a b : List Iv), IvSep a → IvSep b → (∀ x ∈ a, x.1 < x.2) → (∀ x ∈ b, x.1 < x.2) →
    (∀ i, ivsMem a i = true ↔ ivsMem b i = true) → a = b
  | [], [], _, _, _, _, _ => rfl
  | [], y :: b, _, _, _, hb, h => by
    have := (h y.1).2 (by rw [ivsMem_iff]; exact ⟨y, by simp, Int.le_refl _, hb y (by simp)⟩)
    simp [ivsMem] at this
  | x :: a, [], _, _, ha, _, h => by
    have := (h x.1).1 (by rw [ivsMem_iff]; exact ⟨x, by simp, Int.le_refl _, ha x (by simp)⟩)
    simp [ivsMem] at this
  | x :: a, y :: b, sa, sb, ha, hb, h => by
    obtain ⟨sa1, sa2⟩ := List.pairwise_cons.1 sa
    obtain ⟨sb1, sb2⟩ := List.pairwise_cons.1 sb
    have hx := ha x (by simp)
    have hy := hb y (by simp)
    -- membership spelled out
    have ma : ∀ i, ivsMem (x :: a) i = true ↔ (x.1 ≤ i ∧ i < x.2) ∨ ivsMem a i = true := by
      intro i; simp [ivsMem]
    have mb : ∀ i, ivsMem (y :: b) i = true ↔ (y.1 ≤ i ∧ i < y.2) ∨ ivsMem b i = true := by
      intro i; simp [ivsMem]
    have la : ∀ i, ivsMem a i = true → x.2 < i := by
      intro i hi
      obtain ⟨z, hz, h1, _⟩ := (ivsMem_iff a i).1 hi
      have := sa1 z hz; omega
    have lb : ∀ i, ivsMem b i = true → y.2 < i := by
      intro i hi
      obtain ⟨z, hz, h1, _⟩ := (ivsMem_iff b i).1 hi
      have := sb1 z hz; omega
    -- the first base
    have e1 : x.1 = y.1 := by
      have h1 := (h x.1).1 ((ma x.1).2 (.inl ⟨Int.le_refl _, hx⟩))
      have h2 := (h y.1).2 ((mb y.1).2 (.inl ⟨Int.le_refl _, hy⟩))
      rcases (mb x.1).1 h1 with h1 | h1 <;> rcases (ma y.1).1 h2 with h2 | h2
      · omega
      · have := la _ h2; omega
      · have := lb _ h1; omega
      · have := la _ h2; have := lb _ h1; omega
    -- the end of the first interval
    have e2 : x.2 = y.2 := by
      rcases Int.lt_trichotomy x.2 y.2 with hlt | heq | hgt
      · exfalso
        have h1 := (h x.2).2 ((mb x.2).2 (.inl ⟨by omega, hlt⟩))
        rcases (ma x.2).1 h1 with h1 | h1
        · omega
        · have := la _ h1; omega
      · exact heq
      · exfalso
        have h1 := (h y.2).1 ((ma y.2).2 (.inl ⟨by omega, hgt⟩))
        rcases (mb y.2).1 h1 with h1 | h1
        · omega
        · have := lb _ h1; omega
    have exy : x = y := Prod.ext e1 e2
    subst exy
    congr 1
    apply sep_unique a b sa2 sb2 (fun z hz => ha z (by simp [hz])) (fun z hz => hb z (by simp [hz]))
    intro i
    constructor
    · intro hi
      have := la i hi
      rcases (mb i).1 ((h i).1 ((ma i).2 (.inr hi))) with h1 | h1
      · omega
      · exact h1
    · intro hi
      have := lb i hi
      rcases (ma i).1 ((h i).2 ((mb i).2 (.inr hi))) with h1 | h1
      · omega
      · exact h1

/-- locations covering the same bases have the same canonical form -/
theorem canon_eq_of_mem (l l' : Loc) (h : ∀ i, l.mem i = l'.mem i) : l.canon = l'.canon := by
  obtain ⟨s1, n1, m1⟩ := canon_spec l.parts
  obtain ⟨s2, n2, m2⟩ := canon_spec l'.parts
  apply sep_unique _ _ s1 s2 n1 n2
  intro i
  show ivsMem (canon l.parts) i = true ↔ ivsMem (canon l'.parts) i = true
  rw [m1 i, m2 i]
  have := h i
  simp only [Loc.mem, List.any_eq_true] at this ⊢
  have e : (l.parts.any (·.mem i)) = (l'.parts.any (·.mem i)) := h i
  constructor
  · intro hh
    have : l.parts.any (·.mem i) = true := List.any_eq_true.2 hh
    rw [e] at this
    exact List.any_eq_true.1 this
  · intro hh
    have : l'.parts.any (·.mem i) = true := List.any_eq_true.2 hh
    rw [← e] at this
    exact List.any_eq_true.1 this

/-- the pointwise statement gives the executable one -/
theorem coresAgree_of_CoresAgree (fs : List BioFeature) (h : CoresAgree fs) : coresAgree fs = true := by
  unfold coresAgree
  rw [List.all_eq_true]
  intro f hf
  simp only [ofType, List.mem_filter, beq_iff_eq] at hf
  obtain ⟨t, core, h1, h2, g', hg', h3, h4, h5⟩ := h f hf.1 hf.2
  simp only [h1, Option.bind_some, h2]
  rw [List.any_eq_true]
  refine ⟨g', ?_, ?_⟩
  · simp only [ofType, List.mem_filter, beq_iff_eq]; exact ⟨hg', h3⟩
  · simp only [Bool.and_eq_true, beq_iff_eq]
    exact ⟨h4, canon_eq_of_mem _ _ (fun i => (h5 i).symm)⟩

end ASV.RegionExtract
