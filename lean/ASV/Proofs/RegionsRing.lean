/-
  C06 helper lemmas, part 10: circular records with origin-spanning areas.  A region covers every base of its
  children (closed form of `connect_locations` on a ring, C04), hence overlapping areas can never sit in two
  different (non-overlapping) regions: connected components are never split.
-/
import ASV.Proofs.RegionsHeld
import ASV.Proofs.RegionsComponents
import ASV.Proofs.LocConnectRingCover
namespace ASV.Regions
open ASV ASV.Components

/-- an area of a circular record of length `L`: a single non-empty span inside the record, or an
    origin-spanning span `[x, L) + [0, y)` on the forward strand -/
def RingArea (L : Int) (l : Loc) : Prop :=
  LineArea L l ∨ ∃ x y, l = areaTwo x y L .fwd ∧ 0 < y ∧ y ≤ x ∧ x < L

theorem RingArea.ringIn {L : Int} {l : Loc} (h : RingArea L l) : RingIn L l := by
  rcases h with ⟨p, rfl, h0, h1, h2⟩ | ⟨x, y, rfl, hy0, hyx, hxL⟩
  · exact ⟨by simp [Loc.parts], by intro q hq; simp [Loc.parts] at hq; subst hq; exact ⟨h0, h1, h2⟩,
      fun h => by simp [bridgesOrigin] at h⟩
  · exact (RingInSpan.ringIn (Or.inr (Or.inl ⟨x, y, .fwd, rfl, hy0, hyx, hxL⟩)))

/-- `location.parts[0].end` -/
def headEnd (l : Loc) : E Int := match l.parts with
  | p :: _ => pure p.hi
  | [] => throw "IndexError"

theorem regionWrap_eq (locs : List Loc) :
    regionWrap locs = (if locs.any bridgesOrigin then (locs.mapM headEnd >>= fun ends => pure (some (maxList ends)))
                       else pure none) := rfl

theorem RingArea.headEnd {L : Int} {l : Loc} (h : RingArea L l) :
    ∃ e, Regions.headEnd l = .ok e ∧ e ≤ L ∧
      (bridgesOrigin l = true → e = L) := by
  rcases h with ⟨p, rfl, h0, h1, h2⟩ | ⟨x, y, rfl, hy0, hyx, hxL⟩
  · exact ⟨p.hi, rfl, h2, fun h => by simp [bridgesOrigin] at h⟩
  · exact ⟨L, rfl, Int.le_refl _, fun _ => rfl⟩

theorem RingArea.line_of_not_bridging {L : Int} {l : Loc} (h : RingArea L l) (hb : bridgesOrigin l = false) :
    LineArea L l := by
  rcases h with h | ⟨x, y, rfl, hy0, hyx, hxL⟩
  · exact h
  · have := bridges_areaTwo x y L .fwd (by decide) hy0 hyx
    rw [this] at hb; cases hb

/-- the wrap point `Region.__init__` infers is the record length as soon as a child spans the origin -/
theorem regionWrap_ring {L : Int} (locs : List Loc) (h : ∀ l ∈ locs, RingArea L l) (hany : locs.any bridgesOrigin = true) :
    regionWrap locs = .ok (some L) := by
  have hm : ∃ ends, locs.mapM headEnd = .ok ends ∧ (∀ e ∈ ends, e ≤ L) ∧ (locs.any bridgesOrigin = true → L ∈ ends) := by
    clear hany
    induction locs with
    | nil => exact ⟨[], rfl, by simp, by simp⟩
    | cons l ls ih =>
      obtain ⟨e, he, hle, hbr⟩ := (h l (by simp)).headEnd
      obtain ⟨es, hes, hles, hmem⟩ := ih (fun x hx => h x (by simp [hx]))
      refine ⟨e :: es, ?_, ?_, ?_⟩
      · rw [List.mapM_cons, he, hes]; rfl
      · intro z hz
        simp only [List.mem_cons] at hz
        rcases hz with rfl | hz
        · exact hle
        · exact hles z hz
      · intro hb
        simp only [List.any_cons, Bool.or_eq_true] at hb
        rcases hb with hb | hb
        · simp [hbr hb]
        · simp [hmem hb]
  obtain ⟨ends, hends, hle, hmem⟩ := hm
  rw [regionWrap_eq, if_pos hany, hends]
  simp only [bind, Except.bind, pure, Except.pure]
  rw [maxList_eq (hmem hany) hle]

theorem mkRegion_loc {s s1 : State} {cands subs : List Feat} {r : Feat} (h : mkRegion s cands subs = .ok (s1, r)) :
    ∃ w, regionWrap ((subs ++ cands).map (·.loc)) = .ok w ∧ connect ((subs ++ cands).map (·.loc)) w = .ok r.loc ∧
      subs ++ cands ≠ [] := by
  simp only [mkRegion, bind, Except.bind, pure, Except.pure] at h
  split at h
  · cases h
  · next hemp =>
    split at h
    · cases h
    · next w hw =>
      split at h
      · cases h
      · next loc hloc =>
        split at h
        · cases h
        · split at h
          · cases h
          · simp only [Except.ok.injEq, Prod.mk.injEq] at h
            refine ⟨w, hw, by rw [← h.2]; exact hloc, ?_⟩
            intro he
            have h1 : cands = [] := (List.append_eq_nil_iff.1 he).2
            have h2 : subs = [] := (List.append_eq_nil_iff.1 he).1
            simp [h1, h2] at hemp

/-- a region built from areas of a circular record covers every base of every child, and its parts are non-empty -/
theorem mkRegion_covers {L : Int} (hL : 0 < L) {s s1 : State} {cands subs : List Feat} {r : Feat}
    (hch : ∀ f ∈ subs ++ cands, RingArea L f.loc) (h : mkRegion s cands subs = .ok (s1, r)) :
    r.loc.PartsNonEmpty ∧ ∀ f ∈ subs ++ cands, ∀ i, f.loc.mem i = true → r.loc.mem i = true := by
  obtain ⟨w, hw, hconn, hne⟩ := mkRegion_loc h
  have hlocs : ∀ l ∈ (subs ++ cands).map (·.loc), RingArea L l := by
    intro l hl
    obtain ⟨f, hf, rfl⟩ := List.mem_map.1 hl
    exact hch f hf
  cases hany : ((subs ++ cands).map (·.loc)).any bridgesOrigin with
  | true =>
    rw [regionWrap_ring _ hlocs hany] at hw
    simp only [Except.ok.injEq] at hw
    subst hw
    have hin : ∀ l ∈ (subs ++ cands).map (·.loc), RingIn L l := fun l hl => (hlocs l hl).ringIn
    have hne' : (subs ++ cands).map (·.loc) ≠ [] := by simpa using hne
    rw [connect_ring_closed _ L hne' hL hin] at hconn
    simp only [Except.ok.injEq] at hconn
    have hwf := connR_wf _ L hL (by simpa using hne') (toR_ok L hL _ hin)
    rw [hconn] at hwf
    constructor
    · intro p hp
      unfold areaWF at hwf
      split at hwf
      · next q hq => rw [hq] at hp; simp at hp; subst hp; simp at hwf; omega
      · next q q' hq =>
        rw [hq] at hp
        simp only [List.mem_cons, List.not_mem_nil, or_false] at hp
        simp at hwf
        rcases hp with rfl | rfl <;> omega
      · cases hwf
    · intro f hf i hi
      rw [← hconn]
      exact connR_covers _ L hL (toR_ok L hL _ hin) (toR f.loc) (List.mem_map.2 ⟨f.loc, List.mem_map.2 ⟨f, hf, rfl⟩, rfl⟩) i
        ((toR_spec L hL f.loc (hin f.loc (List.mem_map.2 ⟨f, hf, rfl⟩))).2.2.2 i hi)
  | false =>
    have hline : ∀ f ∈ subs ++ cands, LineArea L f.loc := by
      intro f hf
      refine (hch f hf).line_of_not_bridging ?_
      have := List.any_eq_false.1 hany f.loc (List.mem_map.2 ⟨f, hf, rfl⟩)
      simpa using this
    have hmk := mkRegion_line (len := L) s cands subs hne hline
    rw [hmk] at h
    simp only [Except.ok.injEq, Prod.mk.injEq] at h
    have hr : r.loc = hullLoc (subs ++ cands) := by rw [← h.2]; rfl
    have hb := hull_bounds _ hne hline
    constructor
    · intro p hp
      rw [hr] at hp
      simp only [hullLoc, Loc.parts, List.mem_singleton] at hp
      subst hp
      exact hb.2.1
    · intro f hf i hi
      rw [hr]
      exact contains_subset _ _ (hull_contains _ hline f hf) i hi


theorem ids_inj {l : List Feat} (hnd : (ids l).Nodup) {f g : Feat} (hf : f ∈ l) (hg : g ∈ l) (e : f.id = g.id) : f = g := by
  induction l with
  | nil => cases hf
  | cons x xs ih =>
    simp only [ids, List.map_cons, List.nodup_cons] at hnd
    simp only [List.mem_cons] at hf hg
    rcases hf with rfl | hf <;> rcases hg with rfl | hg
    · rfl
    · exact absurd (List.mem_map.2 ⟨g, hg, e.symm⟩) hnd.1
    · exact absurd (List.mem_map.2 ⟨f, hf, e⟩) hnd.1
    · exact ih hnd.2 hf hg

/-- every region covers the bases of the areas of the record it lists, and has non-empty parts -/
def RegionsCover (s : State) : Prop :=
  ∀ r ∈ s.regions, r.loc.PartsNonEmpty ∧
    ∀ f ∈ s.cands ++ s.subs, f.id ∈ memberIds r → ∀ i, f.loc.mem i = true → r.loc.mem i = true

theorem mkAddRegion_cover {L : Int} (hL : 0 < L) {s s1 s2 : State} {cands subs : List Feat} {r : Feat} (hi : Inv s)
    (hc : ∀ f ∈ cands, f ∈ s.cands) (hs : ∀ f ∈ subs, f ∈ s.subs)
    (hring : ∀ f ∈ s.cands ++ s.subs, RingArea L f.loc) (hcov : RegionsCover s)
    (hmk : mkRegion s cands subs = .ok (s1, r)) (hadd : addRegion s1 r = .ok s2) : RegionsCover s2 := by
  have hch : ∀ f ∈ subs ++ cands, RingArea L f.loc := by
    intro f hf
    rcases List.mem_append.1 hf with h | h
    · exact hring f (List.mem_append.2 (Or.inr (hs f h)))
    · exact hring f (List.mem_append.2 (Or.inl (hc f h)))
  obtain ⟨hne, hcover⟩ := mkRegion_covers hL hch hmk
  obtain ⟨hrid, hrk, hrs, _, rfl⟩ := mkRegion_ok hmk
  obtain ⟨index, hle, hno, rfl⟩ := addRegion_ok hadd
  intro x hx
  have hx' : x = { r with cdses := cdsWithin s.cds r.loc } ∨ x ∈ s.regions := by
    have := (insertAt_perm _ _ _).mem_iff.1 hx
    simpa using this
  rcases hx' with rfl | hx'
  · refine ⟨hne, ?_⟩
    intro f hf hm i hmem
    have hm' : f.id ∈ ids cands ++ ids subs := by simpa only [memberIds, hrk, hrs] using hm
    have hfch : f ∈ subs ++ cands := by
      have hnd := nodup_areas hi
      rcases List.mem_append.1 hm' with h | h
      · obtain ⟨g, hg, e⟩ := mem_ids.1 h
        have := ids_inj hnd hf (List.mem_append.2 (Or.inl (hc g hg))) e.symm
        rw [this]; exact List.mem_append.2 (Or.inr hg)
      · obtain ⟨g, hg, e⟩ := mem_ids.1 h
        have := ids_inj hnd hf (List.mem_append.2 (Or.inr (hs g hg))) e.symm
        rw [this]; exact List.mem_append.2 (Or.inl hg)
    exact hcover f hfch i hmem
  · exact hcov x hx'

theorem addSections_cover {L : Int} (hL : 0 < L) {s s' : State} {secs : List Sec} (hi : Inv s)
    (hsub : ∀ sec ∈ secs, ∀ a ∈ sec.2, a ∈ s.cands ++ s.subs)
    (hring : ∀ f ∈ s.cands ++ s.subs, RingArea L f.loc) (hcov : RegionsCover s)
    (h : addSections s secs = .ok s') : RegionsCover s' := by
  induction secs generalizing s with
  | nil => simp only [addSections, pure, Except.pure, Except.ok.injEq] at h; subst h; exact hcov
  | cons sec secs ih =>
    obtain ⟨l, areas⟩ := sec
    rw [addSections_cons'] at h
    simp only [bind, Except.bind] at h
    split at h
    · cases h
    · next v hmk =>
      obtain ⟨s1, r⟩ := v
      simp only at h
      split at h
      · cases h
      · next s2 hadd =>
        have hin := hsub (l, areas) (by simp)
        have hc : ∀ f ∈ areas.filter (·.kind == .cand), f ∈ s.cands := by
          intro f hf
          obtain ⟨hfa, hk⟩ := List.mem_filter.1 hf
          rcases List.mem_append.1 (hin f hfa) with h1 | h1
          · exact h1
          · have := hi.kindS f h1
            simp [this] at hk
        have hs : ∀ f ∈ areas.filter (·.kind != .cand), f ∈ s.subs := by
          intro f hf
          obtain ⟨hfa, hk⟩ := List.mem_filter.1 hf
          rcases List.mem_append.1 (hin f hfa) with h1 | h1
          · have := hi.kindC f h1
            simp [this] at hk
          · exact h1
        obtain ⟨hi2, hsame⟩ := mkAddRegion_inv hi (fun f hf => List.mem_append.2 (Or.inl (hc f hf))) hs hmk hadd
        have hcov2 := mkAddRegion_cover hL hi hc hs hring hcov hmk hadd
        exact ih hi2 (by intro sec hsec a ha; rw [hsame.2.1, hsame.2.2.1]; exact hsub sec (by simp [hsec]) a ha)
          (by rw [hsame.2.1, hsame.2.2.1]; exact hring) hcov2 h

/-- **Circular records, origin-spanning areas included** (conditional on `create_regions` returning):
    areas linked by a chain of overlaps always end up in the same region — a connected component is never
    split over two regions.  (The converse — a region holds only one component — is what fails inside
    `KF-C06-half-record-component`.) -/
theorem ring_components_not_split (s s' : State) (hL : 0 < s.len) (hi : Inv s) (hreg : s.regions = [])
    (hring : ∀ f ∈ s.cands ++ s.subs, RingArea s.len f.loc) (h : createRegions s = .ok s')
    (a b : Feat) (ha : a ∈ s.cands ++ s.subs) (hl : Linked (areasOf s) (toArea a) (toArea b)) :
    ∀ r ∈ s'.regions, a.id ∈ memberIds r → b.id ∈ memberIds r := by
  obtain ⟨hi', hsame⟩ := createRegions_inv hi h
  have hcovers := createRegions_covers hi hreg h
  have hc : s'.cands = s.cands := hsame.2.1
  have hs : s'.subs = s.subs := hsame.2.2.1
  have hcov : RegionsCover s' := by
    have h' := h
    simp only [createRegions, createRegionsOf] at h'
    split at h'
    · simp only [pure, Except.pure, Except.ok.injEq] at h'
      subst h'
      intro r hr; rw [hreg] at hr; cases hr
    · simp only [bind, Except.bind] at h'
      split at h'
      · cases h'
      · next secs hsecs =>
        have hp := sections_perm (nodup_areas hi) hsecs
        exact addSections_cover hL hi (fun sec hsec x hx =>
          hp.mem_iff.1 (List.mem_flatten.2 ⟨sec.2, List.mem_map.2 ⟨sec, hsec, rfl⟩, hx⟩)) hring
          (by intro r hr; rw [hreg] at hr; cases hr) h'
  -- induction over the chain
  suffices hgen : ∀ A B, Linked (areasOf s) A B → ∀ r ∈ s'.regions, A.1 ∈ memberIds r → B.1 ∈ memberIds r from
    hgen _ _ hl
  intro A B hAB
  induction hAB with
  | refl _ => intro r _ h; exact h
  | step hab hcm hshare ih =>
    rename_i B' C
    intro r hr hA
    have hB := ih r hr hA
    obtain ⟨b', hb', rfl⟩ := List.mem_map.1 hab.mem_right
    obtain ⟨c, hc', rfl⟩ := List.mem_map.1 hcm
    obtain ⟨rc, hrc, _, hcin⟩ := hcovers.2 c (by rw [hc, hs]; exact hc')
    obtain ⟨i, hi1, hi2⟩ := hshare
    have h1 := (hcov r hr).2 b' (by rw [hc, hs]; exact hb') hB i hi1
    have h2 := (hcov rc hrc).2 c (by rw [hc, hs]; exact hc') hcin i hi2
    have hov : locationsOverlap r.loc rc.loc = true :=
      (locationsOverlap_iff _ _ (hcov r hr).1 (hcov rc hrc).1).2 ⟨i, h1, h2⟩
    rcases pairwise_mem hi'.disjointR hr hrc with rfl | h3 | h3
    · exact hcin
    · rw [h3] at hov; cases hov
    · rw [locationsOverlap_comm, h3] at hov; cases hov

end ASV.Regions
