/-
  C11 helper lemmas, part 5: the results file (AntismashResults) and the producing side of
  hmm_detection (gene-less early exit, run_on_record).
-/
import ASV.Proofs.ResultsGuards
namespace ASV.Results
open ASV.Results.Spec

/-! ### results file -/

namespace ResultsFile

theorem lookup_append_absent (k : String) (v : J) : ∀ (l : List (String × J)), (lookup k l).isNone = true →
    lookup k (l ++ [(k, v)]) = some v
  | [], _ => by simp [lookup]
  | (k', v') :: rest, h => by
    simp only [lookup] at h
    split at h
    · simp at h
    · rename_i hne
      simp only [List.cons_append, lookup, hne]
      exact lookup_append_absent k v rest h

theorem eraseKey_append_absent (k : String) (v : J) : ∀ (l : List (String × J)), (lookup k l).isNone = true →
    eraseKey k (l ++ [(k, v)]) = l
  | [], _ => by simp [eraseKey]
  | (k', v') :: rest, h => by
    simp only [lookup] at h
    split at h
    · simp at h
    · rename_i hne
      simp only [List.cons_append, eraseKey, hne]
      rw [eraseKey_append_absent k v rest h]
      rfl

theorem recFromJson_recToJson (r : FileRec) (h : (lookup "modules" r.fields).isNone = true) :
    recFromJson (recToJson r) = .reuse r := by
  simp only [recToJson, recFromJson, lookup_append_absent "modules" (.obj r.modules) r.fields h,
    eraseKey_append_absent "modules" (.obj r.modules) r.fields h]

theorem fromJson_toJson (f : ResultsFile) (hv : f.valid = true) :
    fromJson f.toJson = .reuse { f with timings := .obj [] } := by
  simp only [valid, List.all_eq_true] at hv
  have hr := mapO_map recToJson recFromJson f.records (fun r hr => recFromJson_recToJson r (hv r hr))
  cases f
  simp_all [toJson, fromJson, lookup, reqStr, reqArr, schemaAccepted, schemaVersion]

theorem schemaAccepted_spec {kv : List (String × J)} (h : schemaAccepted (lookup "schema" kv) = true) :
    Spec.fileMayReuse (.obj kv) = true := by
  unfold Spec.fileMayReuse Spec.field
  simp only
  unfold schemaAccepted at h
  split at h
  · rename_i hl; rw [hl]
  · rename_i n hl
    rw [hl]
    simp only [schemaVersion, compatibleSchemas, Bool.or_eq_true, beq_iff_eq, List.contains_eq_mem,
      List.mem_cons, List.not_mem_nil, or_false, decide_eq_true_eq] at h
    simp only [Bool.and_eq_true, decide_eq_true_eq]
    omega
  · rename_i b hl
    rw [hl]
    cases b <;> simp_all [compatibleSchemas]
  · simp at h

theorem fromJson_inv {j : J} {f : ResultsFile} (h : fromJson j = .reuse f) : Spec.fileMayReuse j = true := by
  cases j with
  | obj kv =>
    simp only [fromJson] at h
    split at h
    · simp at h
    · rename_i ha
      exact schemaAccepted_spec (not_not_eq_true (by simpa using ha))
  | null => simp [fromJson] at h
  | bool _ => simp [fromJson] at h
  | int _ => simp [fromJson] at h
  | num _ => simp [fromJson] at h
  | str _ => simp [fromJson] at h
  | arr _ => simp [fromJson] at h

end ResultsFile

/-! ### hmm_detection: what a run stores -/

theorem setEq_refl (l : List String) : setEq l l = true := by
  simp [setEq, List.all_eq_true]

theorem strsOf_map_str (l : List String) : Spec.strsOf (l.map J.str) = some l := by
  induction l with
  | nil => rfl
  | cons x xs ih => simp [Spec.strsOf, ih]

theorem rulesetMultipliers_pos (o : HmmOpts) (ho : o.ok = true) :
    Dec.lt Dec.zero (rulesetMultipliers o).1 = true ∧ Dec.lt Dec.zero (rulesetMultipliers o).2 = true := by
  simp only [HmmOpts.ok, Bool.and_eq_true] at ho
  unfold rulesetMultipliers
  split
  · exact ⟨ho.1.2, ho.2⟩
  · exact ⟨by decide, by decide⟩

end ASV.Results
