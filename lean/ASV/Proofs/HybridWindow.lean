/-
  C05: on a linear record the `bisect - 1` window and the early `break` of `_find_hybrids` lose no
  protocluster whose core lies inside a hybrid group's connected core.
-/
import ASV.Proofs.Total
set_option linter.unusedSectionVars false
set_option linter.unusedVariables false
namespace ASV.CC
open ASV.CC.Spec

theorem getD_lt (a : List Int) (j : Nat) (h : j < a.length) : a.getD j 0 = a[j] := by
  simp [List.getD, h]

/-- on an ascending list everything before the insertion point is smaller -/
theorem bisectLeft_go_spec (a : List Int) (x : Int) (hs : a.Pairwise (· ≤ ·)) (fuel lo hi : Nat)
    (hlo : ∀ j, j < lo → j < a.length → a.getD j 0 < x) (hhi : hi ≤ a.length) (hle : lo ≤ hi) :
    (∀ j, j < bisectLeft.go a x fuel lo hi → j < a.length → a.getD j 0 < x) ∧ bisectLeft.go a x fuel lo hi ≤ a.length := by
  induction fuel generalizing lo hi with
  | zero => simp only [bisectLeft.go]; exact ⟨hlo, by omega⟩
  | succ n ih =>
    simp only [bisectLeft.go]
    split
    · rename_i hlt
      split
      · rename_i hmid
        apply ih
        · intro j hj hja
          have hm : (lo + hi) / 2 < a.length := by omega
          by_cases hjm : j = (lo + hi) / 2
          · rw [hjm]; exact hmid
          · have hjlt : j < (lo + hi) / 2 := by omega
            have := (List.pairwise_iff_getElem.1 hs) j ((lo + hi) / 2) hja hm hjlt
            rw [getD_lt a j hja]
            rw [getD_lt a _ hm] at hmid
            omega
        · exact hhi
        · omega
      · apply ih
        · exact hlo
        · omega
        · omega
    · exact ⟨hlo, by omega⟩

theorem bisectLeft_spec (a : List Int) (x : Int) (hs : a.Pairwise (· ≤ ·)) :
    ∀ j, j < bisectLeft a x → j < a.length → a.getD j 0 < x :=
  (bisectLeft_go_spec a x hs (a.length + 1) 0 a.length (fun j hj => by omega) (Nat.le_refl _) (Nat.zero_le _)).1

/-- a protocluster of a linear record whose core is a non-empty single part inside its extent -/
def ValidCore (p : Proto) : Prop := ∃ r, p.core = .simple r ∧ r.lo < r.hi ∧ p.loc.start ≤ r.lo

theorem featStart_simple (r : Part) : featStart (.simple r) = r.lo := by
  simp only [featStart, Loc.parts, Loc.strand]
  by_cases h : (r.strand != Strand.rev) = true
  · simp [h]
  · simp [h]

theorem contains_simple (k r : Part) : locationContainsOther (.simple k) (.simple r) = true ↔ k.lo ≤ r.lo ∧ r.lo ≤ r.hi ∧ r.hi ≤ k.hi := by
  simp only [locationContainsOther, Loc.parts, List.all_cons, List.all_nil, List.any_cons, List.any_nil,
    Bool.or_false, Bool.and_true, partContains, Bool.and_eq_true, decide_eq_true_eq, and_assoc]

/-- the scan with its early `break` is complete on a list ascending by core start -/
theorem scanContained_complete (k : Part) (g l : List Proto)
    (hs : SortedBy (fun p : Proto => p.core.start) l) (hv : ∀ p, p ∈ l → ValidCore p) :
    ∀ p, p ∈ l → locationContainsOther (.simple k) p.core = true → p ∈ scanContained (.simple k) k.hi g l := by
  induction l generalizing g with
  | nil => intro p hp; cases hp
  | cons c rest ih =>
    have hc := List.pairwise_cons.1 hs
    intro p hp hcont
    obtain ⟨r, hr, hne, _⟩ := hv p hp
    rw [hr] at hcont
    have hk := (contains_simple k r).1 hcont
    simp only [scanContained]
    split
    · -- the break: nothing from here on can be inside
      rename_i hbreak
      exfalso
      obtain ⟨rc, hrc, _, hlc⟩ := hv c List.mem_cons_self
      have h1 : c.core.start ≤ p.core.start := by
        rcases List.mem_cons.1 hp with e | e
        · rw [e]; exact Int.le_refl _
        · exact hc.1 p e
      rw [hr, hrc] at h1
      simp only [Loc.start] at h1
      omega
    · have hrest : ∀ g', p ∈ rest → p ∈ scanContained (.simple k) k.hi g' rest := fun g' hpr =>
        ih g' hc.2 (fun q hq => hv q (List.mem_cons_of_mem _ hq)) p hpr (by rw [hr]; exact hcont)
      split
      · rcases List.mem_cons.1 hp with e | e
        · exact scanContained_sub _ _ _ _ p (by rw [e]; simp)
        · exact hrest _ e
      · rename_i hcond
        rcases List.mem_cons.1 hp with e | e
        · apply scanContained_sub
          subst e
          have hcc : locationContainsOther (.simple k) p.core = true := by rw [hr]; exact hcont
          simp only [hcc, Bool.and_true, Bool.not_eq_true', Bool.not_eq_false] at hcond
          simpa using hcond
        · exact hrest _ e

theorem extendGroup_complete {byCore m e : List Proto} (h : extendGroup none byCore m = .ok e)
    (hm : m ≠ []) (hmc : ∀ x, x ∈ m → ∃ r, x.core = .simple r)
    (hs : SortedBy (fun p : Proto => p.core.start) byCore) (hv : ∀ p, p ∈ byCore → ValidCore p) :
    ∃ core, connect (m.map (·.core)) none = .ok core ∧
      ∀ p, p ∈ byCore → locationContainsOther core p.core = true → p ∈ e := by
  have hls : ∀ l, l ∈ m.map (·.core) → ∃ q, l = .simple q := by
    intro l hl
    obtain ⟨x, hx, e⟩ := List.mem_map.1 hl
    obtain ⟨r, hr⟩ := hmc x hx
    exact ⟨r, by rw [← e, hr]⟩
  have hc := connect_simple_ok (by simpa using hm) hls
  refine ⟨_, hc, ?_⟩
  unfold extendGroup at h
  rw [hc] at h
  dsimp only at h
  injection h with h
  generalize hk : (⟨minList (List.map (fun x => x.start) (List.map (fun x => x.core) m)),
    maxList (List.map (fun x => x.end) (List.map (fun x => x.core) m)),
    commonStrand (List.map (fun x => x.core) m)⟩ : Part) = k at h ⊢
  simp only [Loc.parts, List.length_singleton, Nat.lt_irrefl, if_false, Loc.end, Loc.start] at h
  subst h
  intro p hp hcont
  -- the list of core starts is ascending
  have hstarts : (byCore.map coreStart).Pairwise (· ≤ ·) := by
    rw [List.pairwise_map]
    refine hs.imp_of_mem ?_
    intro a b ha hb hab
    obtain ⟨ra, hra, _, _⟩ := hv a ha
    obtain ⟨rb, hrb, _, _⟩ := hv b hb
    simp only [coreStart, hra, hrb, featStart_simple]
    simp only [hra, hrb, Loc.start] at hab
    exact hab
  obtain ⟨r, hr, hne, _⟩ := hv p hp
  have hk' := (contains_simple k r).1 (by rw [← hr]; exact hcont)
  -- `p` is not in the skipped prefix
  have hsplit := List.take_append_drop ((max 0 (Int.ofNat (bisectLeft (byCore.map coreStart) k.lo) - 1)).toNat) byCore
  have hp' : p ∈ List.take ((max 0 (Int.ofNat (bisectLeft (byCore.map coreStart) k.lo) - 1)).toNat) byCore ++
      List.drop ((max 0 (Int.ofNat (bisectLeft (byCore.map coreStart) k.lo) - 1)).toNat) byCore := by rw [hsplit]; exact hp
  rcases List.mem_append.1 hp' with h1 | h1
  · exfalso
    obtain ⟨j, hj, e⟩ := List.mem_take_iff_getElem.1 h1
    have hjlen : j < byCore.length := by omega
    have hjb : j < bisectLeft (byCore.map coreStart) k.lo := by
      simp only [Int.ofNat_eq_natCast] at hj
      omega
    have := bisectLeft_spec (byCore.map coreStart) k.lo hstarts j hjb (by simpa using hjlen)
    rw [getD_lt _ j (by simpa using hjlen), List.getElem_map, e] at this
    simp only [coreStart, hr, featStart_simple] at this
    omega
  · refine scanContained_complete k m _ ?_ ?_ p h1 hcont
    · exact hs.sublist (List.drop_sublist _ _)
    · intro q hq; exact hv q (List.mem_of_mem_drop hq)


/-- every hybrid group is a sharing class plus **exactly** the protoclusters that share with nobody
    and whose core lies inside the class's connected core — for any record on which the containment
    scan of one group (`extendGroup`) is complete (`hX`; shown below for linear records and in
    `RingHybrid.lean` for circular ones) -/
theorem findHybrids_complete_gen {clusters : List Proto} {wrap : Option Int} {hg : List (List Proto)} {un : List Proto}
    (h : findHybrids clusters wrap = .ok (hg, un)) (hn : clusters.Nodup)
    (hX : ∀ (byCore m e : List Proto), extendGroup wrap byCore m = .ok e → m ≠ [] → (∀ x, x ∈ m → x ∈ clusters) →
      SortedBy (fun p : Proto => p.core.start) byCore →
      (∀ q, q ∈ byCore → q ∈ clusters ∧ ∀ z, z ∈ clusters → z ≠ q → shares q z = false) →
      ∃ core, connect (m.map (·.core)) wrap = .ok core ∧
        ∀ p, p ∈ byCore → locationContainsOther core p.core = true → p ∈ e) :
    ∀ g, g ∈ hg → ∃ (m : List Proto) (core : Loc), (∀ x, x ∈ m → x ∈ g) ∧ 2 ≤ m.length ∧
        (∀ a b, a ∈ m → b ∈ m → Linked (shareGroups clusters) a b) ∧
        connect (m.map (·.core)) wrap = .ok core ∧
        ∀ p, p ∈ clusters → (∀ q, q ∈ clusters → q ≠ p → shares p q = false) →
          (p ∈ g ↔ locationContainsOther core p.core = true) := by
  have hcl := findHybrids_classes h hn
  unfold findHybrids at h
  split at h
  · cases h
  · dsimp only at h
    split at h
    · cases h
    · rename_i extended hext
      injection h with h
      injection h with h1 h2
      subst h1; subst h2
      generalize hgroups : (pairsWhere shares (fun a b => [a, b]) (sortBy coreKeyLt clusters) ++
        match (sortBy coreKeyLt clusters).head?, (sortBy coreKeyLt clusters).getLast? with
        | some f, some l => if (f != l && shares f l) = true then [[f, l]] else []
        | x, x_1 => []) = groups at hext ⊢
      have hsn : (sortBy coreKeyLt clusters).Nodup := nodup_sortBy _ hn
      have hsm : ∀ p, p ∈ sortBy coreKeyLt clusters ↔ p ∈ clusters := fun p => mem_sortBy _ _ _
      -- every group is a pair of two different protoclusters of the input that share a gene
      have hpair : ∀ g, g ∈ groups → ∃ a b, g = [a, b] ∧ a ∈ clusters ∧ b ∈ clusters ∧ a ≠ b ∧ shares a b = true := by
        intro g hg
        rw [← hgroups] at hg
        rcases List.mem_append.1 hg with h1 | h1
        · obtain ⟨a, b, hbf, hs, e⟩ := (mem_pairsWhere _ _ _ _).1 h1
          exact ⟨a, b, e, (hsm a).1 (before_mem hbf).1, (hsm b).1 (before_mem hbf).2, before_ne hsn hbf, hs⟩
        · split at h1
          · rename_i f l hf hl
            split at h1
            · rename_i hcond
              simp only [Bool.and_eq_true, bne_iff_ne, ne_eq] at hcond
              exact ⟨f, l, by simpa using h1, (hsm f).1 (List.mem_of_head? hf), (hsm l).1 (List.mem_of_getLast? hl),
                hcond.1, hcond.2⟩
            · cases h1
          · cases h1
      have hTwo : ∀ g, g ∈ groups → Two g := by
        intro g hg
        obtain ⟨a, b, e, _, _, hab, _⟩ := hpair g hg
        subst e; exact ⟨a, b, by simp, by simp, hab⟩
      intro g hg
      obtain ⟨e, he, rfl⟩ := List.mem_map.1 hg
      obtain ⟨m, hm, hme⟩ := extendGroups_rel hext e he
      have hmwf := mergeSets_wf hTwo m hm
      have hmfrom : ∀ x, x ∈ m → x ∈ clusters := by
        intro x hx
        obtain ⟨g0, hg0, hx0⟩ := mergeSets_from hm x hx
        obtain ⟨a, b, e0, ha, hb, _, _⟩ := hpair g0 hg0
        subst e0
        rcases List.mem_cons.1 hx0 with e1 | e1
        · rw [e1]; exact ha
        · have : x = b := by simpa using e1
          rw [this]; exact hb
      have hmne : m ≠ [] := by
        intro e0; have := hmwf.2; rw [e0] at this; simp at this
      have hbyCoreMem : ∀ q, q ∈ sortBy coreStartLt (List.filter (fun c => !groups.flatten.contains c) clusters) →
          q ∈ clusters := fun q hq => (List.mem_filter.1 ((mem_sortBy _ _ _).1 hq)).1
      -- what is left for the scan shares with nobody
      have hbyCoreUn : ∀ q, q ∈ sortBy coreStartLt (List.filter (fun c => !groups.flatten.contains c) clusters) →
          q ∈ clusters ∧ ∀ z, z ∈ clusters → z ≠ q → shares q z = false := by
        intro q hq
        obtain ⟨hqc, hqn⟩ := List.mem_filter.1 ((mem_sortBy _ _ _).1 hq)
        have hqn' : q ∉ groups.flatten := by simpa using hqn
        refine ⟨hqc, ?_⟩
        intro z hz hzq
        by_cases hs : shares q z = true
        · exfalso
          apply hqn'
          have hqz : q ≠ z := fun e => hzq e.symm
          rw [← hgroups]
          rcases before_total ((hsm q).2 hqc) ((hsm z).2 hz) hqz with h1 | h1
          · exact List.mem_flatten.2 ⟨[q, z], List.mem_append.2 (Or.inl ((mem_pairsWhere _ _ _ _).2 ⟨q, z, h1, hs, rfl⟩)), by simp⟩
          · exact List.mem_flatten.2 ⟨[z, q], List.mem_append.2 (Or.inl ((mem_pairsWhere _ _ _ _).2
              ⟨z, q, h1, by rw [shares_comm]; exact hs, rfl⟩)), by simp⟩
        · simpa using hs
      obtain ⟨core, hcore, hcomp⟩ := hX _ m e hme hmne hmfrom
        (sortBy_sorted (fun p : Proto => p.core.start) _) hbyCoreUn
      obtain ⟨core', hcore', hfrom⟩ := extendGroup_from' hme
      have hcc : core' = core := by rw [hcore] at hcore'; injection hcore' with e0; exact e0.symm
      subst hcc
      -- the class properties come from the general theorem
      obtain ⟨m2, core2, _, _, _, _, _⟩ := hcl.2 (sortProtos e) hg
      have hlinked : ∀ a b, a ∈ m → b ∈ m → Linked (shareGroups clusters) a b := by
        intro a b ha hb
        have h1 : Linked groups a b := (mergeSets_linked groups a b).1 ⟨m, hm, ha, hb⟩
        refine linked_of_cover ?_ h1
        intro g0 hg0
        obtain ⟨x, y, e0, hx, hy, hxy, hs⟩ := hpair g0 hg0
        subst e0
        rcases before_total hx hy hxy with hbf | hbf
        · exact ⟨[x, y], mem_shareGroups.2 ⟨x, y, hbf, hs, rfl⟩, fun z hz => hz⟩
        · exact ⟨[y, x], mem_shareGroups.2 ⟨y, x, hbf, by rw [shares_comm]; exact hs, rfl⟩, fun z hz => pair_sub_swap hz⟩
      refine ⟨m, core', fun x hx => mem_sortProtos.2 (extendGroup_sub hme x hx), hmwf.2, hlinked, hcore, ?_⟩
      intro p hp hnos
      -- `p` shares with nobody, so it is in no pair and stays in the list that is scanned
      have hnotpaired : p ∉ groups.flatten := by
        intro hin
        obtain ⟨g0, hg0, hp0⟩ := List.mem_flatten.1 hin
        obtain ⟨x, y, e0, hx, hy, hxy, hs⟩ := hpair g0 hg0
        subst e0
        rcases List.mem_cons.1 hp0 with e1 | e1
        · subst e1
          have := hnos y hy (fun e2 => hxy e2.symm)
          rw [hs] at this; cases this
        · have e2 : p = y := by simpa using e1
          subst e2
          have := hnos x hx hxy
          rw [shares_comm, hs] at this; cases this
      have hpby : p ∈ sortBy coreStartLt (List.filter (fun c => !groups.flatten.contains c) clusters) := by
        apply (mem_sortBy _ _ _).2
        apply List.mem_filter.2
        exact ⟨hp, by simpa using hnotpaired⟩
      constructor
      · intro hpg
        rcases hfrom p (mem_sortProtos.1 hpg) with h1 | ⟨_, h2⟩
        · exfalso
          obtain ⟨g0, hg0, hp0⟩ := mergeSets_from hm p h1
          exact hnotpaired (List.mem_flatten.2 ⟨g0, hg0, hp0⟩)
        · exact h2
      · intro hcont
        exact mem_sortProtos.2 (hcomp p hpby hcont)

/-- linear records -/
theorem findHybrids_complete_linear {clusters : List Proto} {hg : List (List Proto)} {un : List Proto}
    (h : findHybrids clusters none = .ok (hg, un)) (hn : clusters.Nodup) (hv : ∀ p, p ∈ clusters → ValidCore p) :
    ∀ g, g ∈ hg → ∃ (m : List Proto) (core : Loc), (∀ x, x ∈ m → x ∈ g) ∧ 2 ≤ m.length ∧
        (∀ a b, a ∈ m → b ∈ m → Linked (shareGroups clusters) a b) ∧
        connect (m.map (·.core)) none = .ok core ∧
        ∀ p, p ∈ clusters → (∀ q, q ∈ clusters → q ≠ p → shares p q = false) →
          (p ∈ g ↔ locationContainsOther core p.core = true) := by
  apply findHybrids_complete_gen h hn
  intro byCore m e hme hmne hmfrom hs hby
  exact extendGroup_complete hme hmne
    (fun x hx => by obtain ⟨r, hr, _⟩ := hv x (hmfrom x hx); exact ⟨r, hr⟩) hs
    (fun q hq => hv q (hby q hq).1)

end ASV.CC
