/-
  C10: a `PFAMDomain` feature read back from its Biopython form — the `Domain` layers (`Proofs/SerialDom.lean`)
  composed with the Pfam qualifiers (`Proofs/SerialQual.lean`).  The gene ontology ids that stay behind in
  `db_xref` become a free qualifier of the re-read feature; the statement says so explicitly.
-/
import ASV.Proofs.SerialDom
import ASV.Proofs.SerialQual
namespace ASV.Serial
open ASV

def pfamOwn : List String := ["description", "db_xref", "gene_ontologies"]
def pfamKeys : List String := domKeys ++ pfamOwn

theorem Dom.mine_eq (d : Dom) : d.mine = Q.update d.mineAF d.mineDomain := rfl

theorem nodup_xquals (x : PfamX) : Q.Nodup x.quals := by
  unfold PfamX.quals
  cases x.go <;> simp [Q.Nodup, Q.keys]

theorem get?_xquals_other (x : PfamX) (k : String) (h : k ∉ pfamOwn) : Q.get? x.quals k = none := by
  simp only [pfamOwn, List.mem_cons, List.mem_nil_iff, or_false, not_or] at h
  unfold PfamX.quals
  have h1 : ¬ "description" = k := fun e => h.1 e.symm
  have h2 : ¬ "db_xref" = k := fun e => h.2.1 e.symm
  have h3 : ¬ "gene_ontologies" = k := fun e => h.2.2 e.symm
  cases x.go <;> simp [Q.get?, h1, h2, h3]

theorem get?_pfam_mine (p : Pfam) (k : String) :
    Q.get? p.mine k = match Q.get? p.x.quals k with | some v => some v | none => Q.get? p.dom.mine k := by
  unfold Pfam.mine
  rw [Q.get?_update _ _ (Q.nodup_update (nodup_mineDomain p.dom) _), Q.get?_update _ _ (nodup_xquals p.x),
    Dom.mine_eq, Q.get?_update _ _ (nodup_mineDomain p.dom)]
  cases Q.get? p.x.quals k <;> rfl

theorem nodup_pfam_mine (p : Pfam) : Q.Nodup p.mine := by
  unfold Pfam.mine
  apply Q.nodup_update
  have := nodup_mine p.dom
  rw [Dom.mine_eq] at this
  -- the AntismashFeature part alone
  unfold Dom.mineAF
  apply nodup_setOpt
  have h := nodup_setOpt (nodup_setOpt (nodup_setOpt (nodup_setOpt (nodup_setSome (nodup_setSome (nodup_setOpt nodupNil "label" p.dom.label)
    "score" p.dom.score) "evalue" p.dom.evalue) "locus_tag" (some p.dom.locusTag)) "translation" (some p.dom.translation)) "database" p.dom.database)
    "detection" p.dom.detection
  split
  · exact nodup_setOpt h _ _
  · exact h

theorem PfamX.read_congr (q q' : Quals) (h : ∀ k ∈ pfamOwn, Q.get? q k = Q.get? q' k) : PfamX.read q = PfamX.read q' := by
  unfold PfamX.read
  rw [h "description" (by simp [pfamOwn]), h "db_xref" (by simp [pfamOwn]), h "gene_ontologies" (by simp [pfamOwn])]

structure Pfam.WF (p : Pfam) : Prop where
  dom : p.dom.WF .pfam
  x : p.x.wf = true
  reserved : ∀ k ∈ pfamOwn, Q.get? p.dom.feat.quals k = none

theorem mem_pfamKeys (k : String) : k ∈ pfamKeys ↔ k ∈ domKeys ∨ k ∈ pfamOwn := by simp [pfamKeys]

theorem domKeys_not_own (k : String) (h : k ∈ domKeys) : k ∉ pfamOwn := by
  simp only [domKeys, List.mem_cons, List.mem_nil_iff, or_false] at h
  rcases h with e | e | e | e | e | e | e | e | e | e | e | e | e <;> subst e <;> decide

theorem pfam_roundtrip (t : Bool) (p : Pfam) (h : p.WF) (b : Bio) (hb : p.toBio = .ok b) :
    ∃ p', Pfam.fromBio b = .ok p' ∧ p'.x = { p.x with go := p.x.go.map sortGo } ∧ p'.dom = { p.dom with feat := p'.dom.feat } ∧
      Q.get? p'.dom.feat.quals "db_xref" = some p.x.leftXref ∧
      ({ p'.dom.feat with quals := Q.erase p'.dom.feat.quals "db_xref" } : Feat).view t = p.dom.feat.view t ∧
      p'.dom.feat.loc = p.dom.feat.loc := by
  have hX := nodup_pfam_mine p
  have hFQ := nodup_finalQuals p.dom.feat p.mine h.dom.feat.quals
  unfold Pfam.toBio at hb
  rw [toBio_eq, h.dom.codon] at hb
  simp only [Except.ok.injEq] at hb
  subst hb
  have look : ∀ k, Q.get? (Q.sortKeys (finalQuals p.dom.feat p.mine)) k = Q.get? (finalQuals p.dom.feat p.mine) k :=
    fun k => Q.get?_sortKeys hFQ k
  -- every key the classes write: the written value is the class's own
  have hW : ∀ k ∈ pfamKeys, Q.get? (Q.sortKeys (finalQuals p.dom.feat p.mine)) k = Q.get? p.mine k := by
    intro k hk
    have h2 : k ≠ "tool" := by intro e; subst e; simp [pfamKeys, domKeys, pfamOwn] at hk
    have h3 : k ≠ "note" := by intro e; subst e; simp [pfamKeys, domKeys, pfamOwn] at hk
    rw [look]
    cases hm : Q.get? p.mine k with
    | none =>
      rw [get?_FQ_rest p.dom.feat _ hX k h.dom.codon h2 h3 hm]
      rcases (mem_pfamKeys k).1 hk with e | e
      · exact h.dom.reserved k e
      · exact h.reserved k e
    | some v => exact get?_FQ_extra p.dom.feat _ hX k v h.dom.codon h2 h3 hm
  have hKX : ∀ k, k ∉ pfamKeys → Q.get? p.mine k = none := by
    intro k hk
    rw [mem_pfamKeys, not_or] at hk
    rw [get?_pfam_mine, get?_xquals_other p.x k hk.2]
    exact get?_mine_other p.dom h.dom.byAS k hk.1
  -- the Pfam qualifiers
  have hread : PfamX.read (Q.sortKeys (finalQuals p.dom.feat p.mine)) = PfamX.read p.x.quals := by
    apply PfamX.read_congr
    intro k hk
    rw [hW k ((mem_pfamKeys k).2 (Or.inr hk)), get?_pfam_mine]
    cases hq : Q.get? p.x.quals k with
    | some v => rfl
    | none =>
      simp only
      -- the Domain layers write none of the three keys
      rw [get?_mine p.dom h.dom.byAS]
      simp only [pfamOwn, List.mem_cons, List.mem_nil_iff, or_false] at hk
      rcases hk with e | e | e <;> subst e <;> simp
  unfold Pfam.fromBio
  simp only [hread, pfam_read_quals p.x h.x, bind, Except.bind]
  obtain ⟨others, hothers⟩ : ∃ o : List String, o = p.x.leftXref := ⟨_, rfl⟩
  rw [← hothers]
  -- what the Domain layers get to see
  obtain ⟨W, hWdef⟩ : ∃ W, W = Q.sortKeys (finalQuals p.dom.feat p.mine) := ⟨_, rfl⟩
  obtain ⟨l, hldef⟩ : ∃ l, l = Q.set (Q.erase (Q.erase W "description") "gene_ontologies") "db_xref" others := ⟨_, rfl⟩
  rw [← hWdef] at hW look
  rw [← hWdef, ← hldef]
  have hl : ∀ k, Q.get? l k = if k = "db_xref" then some others else if k = "gene_ontologies" then none
      else if k = "description" then none else Q.get? W k := by
    intro k
    rw [hldef]
    simp only [Q.get?_set, Q.get?_erase]
  have hlook : ∀ k ∈ domKeys, Q.get? l k = Q.get? p.dom.mine k := by
    intro k hk
    have hno := domKeys_not_own k hk
    simp only [pfamOwn, List.mem_cons, List.mem_nil_iff, or_false, not_or] at hno
    rw [hl]
    simp only [hno.1, hno.2.1, hno.2.2, if_false]
    rw [hW k ((mem_pfamKeys k).2 (Or.inl hk)), get?_pfam_mine, get?_xquals_other p.x k (domKeys_not_own k hk)]
  have hspec := domFromBio_spec .pfam p.dom h.dom p.dom.feat.loc l hlook
  rw [h.dom.type, hspec]
  -- the leftovers
  have hnl : Q.Nodup l := by
    rw [hldef, hWdef]
    exact Q.nodup_set (Q.nodup_erase (Q.nodup_erase (Q.nodup_sortKeys hFQ) _) _) _ _
  have hnL : Q.Nodup (domLeft l) := nodup_domLeft hnl
  have hL0 : ∀ k, Q.get? (Q.erase (domLeft l) "db_xref") k = if k ∈ pfamKeys then none else Q.get? W k := by
    intro k
    rw [Q.get?_erase, get?_domLeft, hl]
    by_cases a0 : k = "db_xref"
    · subst a0
      have : "db_xref" ∈ pfamKeys := by simp [pfamKeys, pfamOwn]
      simp [this]
    · by_cases a1 : k ∈ domKeys
      · have : k ∈ pfamKeys := (mem_pfamKeys k).2 (Or.inl a1)
        simp [a0, a1, this]
      · by_cases a2 : k = "gene_ontologies"
        · subst a2
          have : "gene_ontologies" ∈ pfamKeys := by simp [pfamKeys, pfamOwn]
          simp [a1, this]
        · by_cases a3 : k = "description"
          · subst a3
            have : "description" ∈ pfamKeys := by simp [pfamKeys, pfamOwn]
            simp [a1, this]
          · have : k ∉ pfamKeys := by
              rw [mem_pfamKeys]; simp [a0, a1, a2, a3, pfamOwn]
            simp [a0, a1, a2, a3, this]
  obtain ⟨f0, e1, e2, e3, e4, e5, e6, e7, e8, e9, e10⟩ := class_leftovers_roundtrip t p.dom.feat p.mine pfamKeys
    (Q.erase (domLeft l) "db_xref") h.dom.feat h.dom.byAS h.dom.codon hX hKX (by simp [pfamKeys, domKeys, pfamOwn])
    (fun k hk => by rcases (mem_pfamKeys k).1 hk with e | e; exact h.dom.reserved k e; exact h.reserved k e)
    (Q.nodup_erase hnL _) (by rw [← hWdef]; exact hL0)
  rw [h.dom.type] at e1
  -- both readings through `applyLeftovers_plain`
  have hcod0 : Q.get? (Q.erase (domLeft l) "db_xref") "codon_start" = none := by
    rw [hL0]; simp only [pfamKeys, domKeys, pfamOwn]; simp
    rw [look, get?_FQ_rest p.dom.feat _ hX _ h.dom.codon (by decide) (by decide) (hKX _ (by simp [pfamKeys, domKeys, pfamOwn]))]
    exact h.dom.feat.noCodonKey
  have hcod : Q.get? (domLeft l) "codon_start" = none := by
    have := hcod0; rw [Q.get?_erase] at this; simpa using this
  have htool0 : Q.get? (Q.erase (domLeft l) "db_xref") "tool" = some ["antismash"] := by
    rw [hL0]; simp only [pfamKeys, domKeys, pfamOwn]; simp
    rw [look, get?_FQ_toolX p.dom.feat _ hX h.dom.byAS h.dom.codon]
  have htool : Q.get? (domLeft l) "tool" = some ["antismash"] := by
    have := htool0; rw [Q.get?_erase] at this; simpa using this
  rw [applyLeftovers_plain _ _ rfl (Q.nodup_erase hnL _) hcod0] at e1
  rw [applyLeftovers_plain _ _ rfl hnL hcod]
  have hxref : Q.get? (domLeft l) "db_xref" = some others := by
    rw [get?_domLeft, hl]; simp [domKeys]
  simp only [Except.map, pure, Except.pure]
  refine ⟨_, rfl, rfl, rfl, hxref, ?_, rfl⟩
  have hf0 : f0 = { (⟨p.dom.feat.loc, DomKind.pfam.type, [], [], true, none⟩ : Feat) with
      byAS := !(Q.erase (domLeft l) "db_xref").isEmpty && (Q.get? (Q.erase (domLeft l) "db_xref") "tool" == some ["antismash"]),
      quals := Q.erase (domLeft l) "db_xref" } := by
    cases e1; rfl
  rw [← e2, hf0]
  simp only [htool0, htool, Q.isEmpty_of_get? htool0, Q.isEmpty_of_get? htool]

end ASV.Serial
